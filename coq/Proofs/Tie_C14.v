(* C14: the hand-written model equals the gotrans transcription of the aggregator selection arithmetic
   (coq/Gen/Pure_C14.v, regenerated from the repository's source on every run).  When the Go source
   changes its meaning, a lemma here stops compiling and only C14's tie is affected. *)
From Coq Require Import ZArith NArith Lia Bool List.
From Coq Require Import ZifyBool ZifyN.
From Verif Require Import Lib.Base Lib.GoInt Proofs.TieLib Gen.Pure_C14.
From Verif Require Model.C14_Subscriptions.
Local Open Scope Z_scope.

Lemma tie_is_aggregator (len target : N) (hash : list N) :
  C14_Subscriptions.is_aggregator len target hash =
  aggregator_isAggregator (Z.of_N target) (Z.of_N len) (Z.of_N (C14_Subscriptions.le64 hash)).
Proof.
  unfold C14_Subscriptions.is_aggregator, aggregator_isAggregator.
  rewrite <- N2Z.inj_div, of_N_eqb0.
  destruct (len / target =? 0)%N eqn:E.
  - change 1 with (Z.of_N 1). rewrite of_N_mod_eqb0. reflexivity.
  - rewrite of_N_mod_eqb0. reflexivity.
Qed.

(* the goroutine of Subscribe skips a slot iff the model's filter drops it *)
Lemma tie_future_slot (cur slot : N) :
  (cur <? slot)%N = negb (subscriber_notFutureSlot (Z.of_N slot) (Z.of_N cur)).
Proof. unfold subscriber_notFutureSlot. rewrite of_N_leb. lia. Qed.

(* AttestAndScheduleAggregate skips an attestation of a past slot iff the model does *)
Lemma tie_aggregation_in_past (cur aslot : N) :
  (aslot <? cur)%N = controller_aggregationInPast (Z.of_N cur) (Z.of_N aslot).
Proof. unfold controller_aggregationInPast. rewrite of_N_ltb. reflexivity. Qed.
