(* C16 — the check's predicate P_b against the model: on every input the model's own prediction
   satisfies the predicate that the check evaluates on the observed outcome.  Hence P_b can only
   fire on a case where the implementation deviates from the model (agree fires too), and an
   implementation that agrees with the model on a case satisfies the property on that case. *)
From Verif Require Import Lib.Base Model.C16_Paths Proofs.C16 Proofs.C16_Bytes Proofs.C16_Config Check.C16.
From Coq Require Import ZifyBool ZifyN ZifyNat.

Local Open Scope N_scope.

Lemma list_eqb_refl {A} (eqb : A -> A -> bool) : (forall x, eqb x x = true) -> forall l, list_eqb eqb l l = true.
Proof. intros H. induction l as [|x l IH]; cbn; [reflexivity|]. rewrite H, IH. reflexivity. Qed.

Lemma bytes_eqb_refl : forall l, bytes_eqb l l = true.
Proof. apply list_eqb_refl. apply N.eqb_refl. Qed.

(* path 2 *)
Lemma model_satisfies_P_relays : forall rs, P_relays rs (issue_now rs) = true.
Proof. intro rs. rewrite issue_now_spec. cbn. apply list_eqb_refl. apply N.eqb_refl. Qed.

(* path 6 *)
Lemma model_satisfies_P_head : forall h, P_head h (handle_head_now h) = true.
Proof.
  intros [| |b]; try reflexivity. cbn [P_head handle_head_now handle_head].
  destruct (decoder_wf b) eqn:Hwf; [|reflexivity].
  unfold update_head, decoder_wf, payload_update in *.
  destruct (bk_version b =? 1) eqn:E1; [apply N.eqb_eq in E1; rewrite E1; reflexivity|].
  destruct (bk_version b =? 2) eqn:E2; [apply N.eqb_eq in E2; rewrite E2; reflexivity|].
  cbn [orb].
  destruct (bk_version b =? 3) eqn:E3.
  { apply N.eqb_eq in E3. rewrite E3 in *. cbn in Hwf |- *. rewrite Hwf.
    destruct (bk_payload b), (bk_state_zero b); cbn; try reflexivity; apply N.eqb_refl. }
  destruct (bk_version b =? 4) eqn:E4.
  { apply N.eqb_eq in E4. rewrite E4 in *. cbn in Hwf |- *. rewrite Hwf.
    destruct (bk_payload b), (bk_state_zero b); cbn; try reflexivity; apply N.eqb_refl. }
  destruct (bk_version b =? 5) eqn:E5.
  { apply N.eqb_eq in E5. rewrite E5 in *. cbn in Hwf |- *. rewrite Hwf.
    destruct (bk_payload b), (bk_state_zero b); cbn; try reflexivity; apply N.eqb_refl. }
  cbn [orb option_eqb].
  destruct ((3 <=? bk_version b) && (bk_version b <=? 5)) eqn:E; [exfalso; lia | reflexivity].
Qed.

(* path 7 *)
Lemma model_satisfies_P_errbody : forall s b, P_errbody s b (classify_now s b) = true.
Proof.
  intros s b. destruct (classify_now s b) as [[]|[]|] eqn:E.
  - apply classify_accepts_iff in E as (Hs & l & -> & Hne & Hall). unfold P_errbody.
    assert (Hl : (0 <? lenN l) = true) by (destruct l; [congruence | reflexivity]).
    destruct s; try congruence; rewrite Hl, Hall; reflexivity.
  - assert (Hcontra : forall l, b = BFailures l -> s <> SOther -> ((0 <? lenN l) && all_tolerated l) = false).
    { intros l -> Hs. destruct ((0 <? lenN l) && all_tolerated l) eqn:Ha; [|reflexivity]. exfalso.
      apply andb_true_iff in Ha as [H0 Hall].
      assert (Hok : classify_now s (BFailures l) = Ok tt).
      { apply classify_accepts_iff. split; [exact Hs|]. exists l. split; [reflexivity|]. split; [intro; subst; discriminate | exact Hall]. }
      congruence. }
    unfold P_errbody. destruct s; try reflexivity; destruct b as [| |l]; try reflexivity;
      rewrite (Hcontra l eq_refl ltac:(discriminate)); reflexivity.
  - exfalso. eapply classify_no_panic; exact E.
Qed.

(* path 3 *)
Lemma model_satisfies_P_graffiti : forall g ps, length g = 32%nat -> P_graffiti g ps (graffiti_now g ps) = true.
Proof.
  intros g ps Hg. destruct (graffiti_now_ok ps g) as (l & Hl & Hlen & Hall). specialize (Hall Hg).
  unfold P_graffiti. rewrite Hl. unfold lenN. rewrite Hlen, N.eqb_refl. cbn [andb].
  assert (H32 : forallb (fun x => N.of_nat (length x) =? 32) l = true).
  { apply forallb_forall. intros x Hx. rewrite Forall_forall in Hall. rewrite (Hall x Hx). reflexivity. }
  rewrite H32. cbn [andb].
  destruct (existsb can_name ps) eqn:E; [reflexivity|].
  assert (Hn : forallb (fun p => negb (can_name p)) ps = true).
  { apply forallb_forall. intros p Hp. destruct (can_name p) eqn:Ec; [|reflexivity].
    assert (existsb can_name ps = true) by (apply existsb_exists; eauto). congruence. }
  rewrite (graffiti_now_unchanged ps g Hg Hn) in Hl. injection Hl as <-.
  apply forallb_forall. intros x Hx. apply in_map_iff in Hx as (p & <- & _). apply bytes_eqb_refl.
Qed.

Lemma forallb_map_const {A B} (f : A -> B) (p : B -> bool) (l : list A) :
  (forall x, p (f x) = true) -> forallb p (map f l) = true.
Proof. intro H. induction l as [|x l IH]; cbn; [reflexivity|]. rewrite H, IH. reflexivity. Qed.

(* path 4: a single document fetched by a service without configuration *)
Lemma model_satisfies_P_config_one : forall d lks,
  P_config_steps None [(d, lks)] (config_run None [(d, lks)]) = true.
Proof.
  intros d lks. cbn [config_run P_config_steps].
  pose proof (decode_no_panic true d) as Hnp.
  assert (Hrej : doc_rejectable d = true -> is_err (decode true d) = true).
  { destruct d as [| |n|d1|d2|[|]]; cbn; try discriminate; reflexivity. }
  destruct (decode true d) as [c|e|] eqn:E; [| |congruence].
  - cbn [is_panic negb andb is_err]. unfold lenN. rewrite !map_length, N.eqb_refl.
    assert (Hsafe : forallb (fun o : outcome (list N) cfg_err => negb (is_panic o))
              (map (fun ak => match lookup true (Some c) (fst ak) (snd ak) with Ok l => Ok (sort_by (fun x => x) l) | o => o end) lks) = true).
    { apply forallb_forall. intros o Ho. apply in_map_iff in Ho as (ak & <- & _).
      pose proof (decode_safe d c E (fst ak) (snd ak)) as Hs.
      destruct (lookup true (Some c) (fst ak) (snd ak)); try reflexivity. congruence. }
    rewrite Hsafe. rewrite (registration_safe (Some c) (decode_safe d c E)). cbn [andb].
    destruct (doc_rejectable d) eqn:Er; [specialize (Hrej eq_refl); discriminate|]. reflexivity.
  - cbn [is_panic negb andb is_err]. unfold lenN. rewrite !map_length, N.eqb_refl.
    rewrite !forallb_map_const by (intros; reflexivity).
    rewrite registration_none. cbn [is_ok andb].
    destruct (doc_rejectable d); reflexivity.
Qed.

(* path 1 *)
Lemma graffiti_checks : forall g nc,
  ((lenN (graffiti_of g nc) =? 32)
   && match g with GErr | GNoProvider => forallb (N.eqb 0) (graffiti_of g nc) | GBytes _ => true end) = true.
Proof.
  intros g nc. unfold lenN. rewrite graffiti_of_length. destruct g; reflexivity.
Qed.

Lemma asked_from_auction : forall i a,
  p1_auction i = ARes a ->
  forallb (fun r => memb N.eqb r (auction_unblinders i))
          (map pv_id (filter pv_unblinds (unblind_candidates (p1_unblind_all i) a))) = true.
Proof.
  intros i a Ha. apply forallb_forall. intros r Hr. unfold auction_unblinders. rewrite Ha.
  apply (memb_spec N.eqb N.eqb_eq). apply in_map_iff in Hr as (pv & <- & Hpv). apply in_map.
  apply filter_In in Hpv as [Hc Hu]. apply filter_In. split; [|exact Hu]. eapply in_unblind_candidates; exact Hc.
Qed.

Lemma model_satisfies_P_propose : forall i,
  P_propose i (is_panic (snd (propose_now i))) (fst (propose_now i)) = true.
Proof.
  intro i. unfold P_propose, in_decoder_domain, reaches_signing.
  pose proof (graffiti_checks (p1_graffiti i) (p1_node_client i)) as Hg. apply andb_true_iff in Hg as [Hg1 Hg2].
  unfold propose_now, propose.
  destruct (p1_proposal i) as [p|]; cbn [fst snd is_panic negb orb t_graffiti t_signed t_unblind t_submitted].
  2: { rewrite Hg1, Hg2. reflexivity. }
  destruct (lib_nil_deneb p); cbn [negb orb]; [reflexivity|].
  destruct (version_handled (pr_version p) && pr_present p) eqn:E1; cbn [negb fst snd is_panic t_graffiti t_signed t_unblind t_submitted andb];
    [|rewrite Hg1, Hg2; reflexivity].
  destruct (pr_slot_ok p) eqn:E2; cbn [negb fst snd is_panic t_graffiti t_signed t_unblind t_submitted andb];
    [|rewrite Hg1, Hg2; reflexivity].
  destruct (p1_sign_ok i) eqn:E3; cbn [negb fst snd is_panic t_graffiti t_signed t_unblind t_submitted andb];
    [|rewrite Hg1, Hg2; reflexivity].
  destruct (pr_blinded p) eqn:Eb.
  - destruct (p1_auction i) as [| |a] eqn:Ea;
      cbn [fst snd is_panic negb t_graffiti t_signed t_unblind t_submitted andb];
      try (rewrite Hg1, Hg2; reflexivity).
    pose proof (asked_from_auction i a Ea) as Hask.
    destruct (filter pv_unblinds (unblind_candidates (p1_unblind_all i) a)) as [|x l] eqn:Ef;
      cbn [fst snd is_panic negb t_graffiti t_signed t_unblind t_submitted andb];
      [rewrite Hg1, Hg2; reflexivity|].
    destruct (p1_unblind_ok i && version_unblindable (pr_version p));
      cbn [fst snd is_panic negb t_graffiti t_signed t_unblind t_submitted andb].
    + assert (Hnp : is_panic (if p1_submit_ok i then @Ok unit p1_err tt else Err ESubmit) = false) by (destruct (p1_submit_ok i); reflexivity).
      rewrite Hnp, Hg1, Hg2, Hask. reflexivity.
    + rewrite Hg1, Hg2, Hask. reflexivity.
  - cbn [fst snd t_graffiti t_signed t_unblind t_submitted].
    assert (Hnp : is_panic (if p1_submit_ok i then @Ok unit p1_err tt else Err ESubmit) = false) by (destruct (p1_submit_ok i); reflexivity).
    rewrite Hnp, Hg1, Hg2. reflexivity.
Qed.
