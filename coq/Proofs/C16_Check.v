(* C16 — the check's predicate P_b against the model: on every input the model's own prediction
   satisfies the predicate that the check evaluates on the observed outcome.  Hence P_b can only
   fire on a case where the implementation deviates from the model (agree fires too), and an
   implementation that agrees with the model on a case satisfies the property on that case. *)
From Verif Require Import Lib.Base Model.C16_Paths Model.C16_Sessions Proofs.C16 Proofs.C16_Bytes Proofs.C16_Config Proofs.C16_Sessions Model.C16_Aggsel Proofs.C16_Aggsel Check.C16.
From Coq Require Import ZifyBool ZifyN ZifyNat.

Local Open Scope N_scope.

Lemma list_eqb_refl {A} (eqb : A -> A -> bool) : (forall x, eqb x x = true) -> forall l, list_eqb eqb l l = true.
Proof. intros H. induction l as [|x l IH]; cbn; [reflexivity|]. rewrite H, IH. reflexivity. Qed.

Lemma bytes_eqb_refl : forall l, bytes_eqb l l = true.
Proof. apply list_eqb_refl. apply N.eqb_refl. Qed.

(* path 2 *)
Lemma model_satisfies_P_relays : forall rs, P_relays rs (issue_now rs) = true.
Proof. intro rs. rewrite issue_now_spec. cbn. apply list_eqb_refl. apply N.eqb_refl. Qed.

(* path 6 *)
Lemma model_satisfies_P_head : forall h, P_head h (handle_head_now h) = true.
Proof.
  intros [| |b]; try reflexivity. cbn [P_head handle_head_now handle_head].
  destruct (decoder_wf b) eqn:Hwf; [|reflexivity].
  unfold update_head, decoder_wf, payload_update in *.
  destruct (bk_version b =? 1) eqn:E1; [apply N.eqb_eq in E1; rewrite E1; reflexivity|].
  destruct (bk_version b =? 2) eqn:E2; [apply N.eqb_eq in E2; rewrite E2; reflexivity|].
  cbn [orb].
  destruct (bk_version b =? 3) eqn:E3.
  { apply N.eqb_eq in E3. rewrite E3 in *. cbn in Hwf |- *. rewrite Hwf.
    destruct (bk_payload b), (bk_state_zero b); cbn; try reflexivity; apply N.eqb_refl. }
  destruct (bk_version b =? 4) eqn:E4.
  { apply N.eqb_eq in E4. rewrite E4 in *. cbn in Hwf |- *. rewrite Hwf.
    destruct (bk_payload b), (bk_state_zero b); cbn; try reflexivity; apply N.eqb_refl. }
  destruct (bk_version b =? 5) eqn:E5.
  { apply N.eqb_eq in E5. rewrite E5 in *. cbn in Hwf |- *. rewrite Hwf.
    destruct (bk_payload b), (bk_state_zero b); cbn; try reflexivity; apply N.eqb_refl. }
  cbn [orb option_eqb].
  destruct ((3 <=? bk_version b) && (bk_version b <=? 5)) eqn:E; [exfalso; lia | reflexivity].
Qed.

(* path 7 *)
Lemma model_satisfies_P_errbody : forall s b, P_errbody s b (classify_now s b) = true.
Proof.
  intros s b. destruct (classify_now s b) as [[]|[]|] eqn:E.
  - apply classify_accepts_iff in E as (Hs & l & -> & Hne & Hall). unfold P_errbody.
    assert (Hl : (0 <? lenN l) = true) by (destruct l; [congruence | reflexivity]).
    destruct s; try congruence; rewrite Hl, Hall; reflexivity.
  - assert (Hcontra : forall l, b = BFailures l -> s <> SOther -> ((0 <? lenN l) && all_tolerated l) = false).
    { intros l -> Hs. destruct ((0 <? lenN l) && all_tolerated l) eqn:Ha; [|reflexivity]. exfalso.
      apply andb_true_iff in Ha as [H0 Hall].
      assert (Hok : classify_now s (BFailures l) = Ok tt).
      { apply classify_accepts_iff. split; [exact Hs|]. exists l. split; [reflexivity|]. split; [intro; subst; discriminate | exact Hall]. }
      congruence. }
    unfold P_errbody. destruct s; try reflexivity; destruct b as [| |l]; try reflexivity;
      rewrite (Hcontra l eq_refl ltac:(discriminate)); reflexivity.
  - exfalso. eapply classify_no_panic; exact E.
Qed.

(* path 3 *)
Lemma model_satisfies_P_graffiti : forall g ps, length g = 32%nat -> P_graffiti g ps (graffiti_now g ps) = true.
Proof.
  intros g ps Hg. destruct (graffiti_now_ok ps g) as (l & Hl & Hlen & Hall). specialize (Hall Hg).
  unfold P_graffiti. rewrite Hl. unfold lenN. rewrite Hlen, N.eqb_refl. cbn [andb].
  assert (H32 : forallb (fun x => N.of_nat (length x) =? 32) l = true).
  { apply forallb_forall. intros x Hx. rewrite Forall_forall in Hall. rewrite (Hall x Hx). reflexivity. }
  rewrite H32. cbn [andb].
  destruct (existsb can_name ps) eqn:E; [reflexivity|].
  assert (Hn : forallb (fun p => negb (can_name p)) ps = true).
  { apply forallb_forall. intros p Hp. destruct (can_name p) eqn:Ec; [|reflexivity].
    assert (existsb can_name ps = true) by (apply existsb_exists; eauto). congruence. }
  rewrite (graffiti_now_unchanged ps g Hg Hn) in Hl. injection Hl as <-.
  apply forallb_forall. intros x Hx. apply in_map_iff in Hx as (p & <- & _). apply bytes_eqb_refl.
Qed.

Lemma forallb_map_const {A B} (f : A -> B) (p : B -> bool) (l : list A) :
  (forall x, p (f x) = true) -> forallb p (map f l) = true.
Proof. intro H. induction l as [|x l IH]; cbn; [reflexivity|]. rewrite H, IH. reflexivity. Qed.

(* path 4: a single document fetched by a service without configuration *)
Lemma model_satisfies_P_config_one : forall d lks,
  P_config_steps None [(d, lks)] (config_run None [(d, lks)]) = true.
Proof.
  intros d lks. cbn [config_run P_config_steps].
  pose proof (decode_no_panic true d) as Hnp.
  assert (Hrej : doc_rejectable d = true -> is_err (decode true d) = true).
  { destruct d as [| |n|d1|d2|[|]]; cbn; try discriminate; reflexivity. }
  destruct (decode true d) as [c|e|] eqn:E; [| |congruence].
  - cbn [is_panic negb andb is_err]. unfold lenN. rewrite !map_length, N.eqb_refl.
    assert (Hsafe : forallb (fun o : outcome (list N) cfg_err => negb (is_panic o))
              (map (fun ak => match lookup true (Some c) (fst ak) (snd ak) with Ok l => Ok (sort_by (fun x => x) l) | o => o end) lks) = true).
    { apply forallb_forall. intros o Ho. apply in_map_iff in Ho as (ak & <- & _).
      pose proof (decode_safe d c E (fst ak) (snd ak)) as Hs.
      destruct (lookup true (Some c) (fst ak) (snd ak)); try reflexivity. congruence. }
    rewrite Hsafe. rewrite (registration_safe (Some c) (decode_safe d c E)). cbn [andb].
    destruct (doc_rejectable d) eqn:Er; [specialize (Hrej eq_refl); discriminate|]. reflexivity.
  - cbn [is_panic negb andb is_err]. unfold lenN. rewrite !map_length, N.eqb_refl.
    rewrite !forallb_map_const by (intros; reflexivity).
    rewrite registration_none. cbn [is_ok andb].
    destruct (doc_rejectable d); reflexivity.
Qed.

(* path 1 *)
Lemma graffiti_checks : forall g nc,
  ((lenN (graffiti_of g nc) =? 32)
   && match g with GErr | GNoProvider => forallb (N.eqb 0) (graffiti_of g nc) | GBytes _ => true end) = true.
Proof.
  intros g nc. unfold lenN. rewrite graffiti_of_length. destruct g; reflexivity.
Qed.

Lemma asked_from_auction : forall i a,
  p1_auction i = ARes a ->
  forallb (fun r => memb N.eqb r (auction_unblinders i))
          (map pv_id (filter pv_unblinds (unblind_candidates (p1_unblind_all i) a))) = true.
Proof.
  intros i a Ha. apply forallb_forall. intros r Hr. unfold auction_unblinders. rewrite Ha.
  apply (memb_spec N.eqb N.eqb_eq). apply in_map_iff in Hr as (pv & <- & Hpv). apply in_map.
  apply filter_In in Hpv as [Hc Hu]. apply filter_In. split; [|exact Hu]. eapply in_unblind_candidates; exact Hc.
Qed.

Lemma model_satisfies_P_propose : forall i,
  P_propose i (is_panic (snd (propose_now i))) (fst (propose_now i)) = true.
Proof.
  intro i. unfold P_propose, in_decoder_domain, reaches_signing.
  pose proof (graffiti_checks (p1_graffiti i) (p1_node_client i)) as Hg. apply andb_true_iff in Hg as [Hg1 Hg2].
  unfold propose_now, propose.
  destruct (p1_proposal i) as [p|]; cbn [fst snd is_panic negb orb t_graffiti t_signed t_unblind t_submitted].
  2: { rewrite Hg1, Hg2. reflexivity. }
  destruct (lib_nil_deneb p); cbn [negb orb]; [reflexivity|].
  destruct (version_handled (pr_version p) && pr_present p) eqn:E1; cbn [negb fst snd is_panic t_graffiti t_signed t_unblind t_submitted andb];
    [|rewrite Hg1, Hg2; reflexivity].
  destruct (pr_slot_ok p) eqn:E2; cbn [negb fst snd is_panic t_graffiti t_signed t_unblind t_submitted andb];
    [|rewrite Hg1, Hg2; reflexivity].
  destruct (p1_sign_ok i) eqn:E3; cbn [negb fst snd is_panic t_graffiti t_signed t_unblind t_submitted andb];
    [|rewrite Hg1, Hg2; reflexivity].
  destruct (pr_blinded p) eqn:Eb.
  - destruct (p1_auction i) as [| |a] eqn:Ea;
      cbn [fst snd is_panic negb t_graffiti t_signed t_unblind t_submitted andb];
      try (rewrite Hg1, Hg2; reflexivity).
    pose proof (asked_from_auction i a Ea) as Hask.
    destruct (filter pv_unblinds (unblind_candidates (p1_unblind_all i) a)) as [|x l] eqn:Ef;
      cbn [fst snd is_panic negb t_graffiti t_signed t_unblind t_submitted andb];
      [rewrite Hg1, Hg2; reflexivity|].
    destruct (p1_unblind_ok i && version_unblindable (pr_version p));
      cbn [fst snd is_panic negb t_graffiti t_signed t_unblind t_submitted andb].
    + assert (Hnp : is_panic (if p1_submit_ok i then @Ok unit p1_err tt else Err ESubmit) = false) by (destruct (p1_submit_ok i); reflexivity).
      rewrite Hnp, Hg1, Hg2, Hask. reflexivity.
    + rewrite Hg1, Hg2, Hask. reflexivity.
  - cbn [fst snd t_graffiti t_signed t_unblind t_submitted].
    assert (Hnp : is_panic (if p1_submit_ok i then @Ok unit p1_err tt else Err ESubmit) = false) by (destruct (p1_submit_ok i); reflexivity).
    rewrite Hnp, Hg1, Hg2. reflexivity.
Qed.

(* ------------------------------------------------------------------------------------------- *)
(* sessions *)
Lemma model_satisfies_P_propose_session : forall ops, P_propose_session ops (propose_seq_now ops) = true.
Proof.
  induction ops as [|i ops IH]; [reflexivity|].
  unfold propose_seq_now in *. cbn [propose_seq P_propose_session].
  pose proof (model_satisfies_P_propose i) as Hp. unfold propose_now in Hp. rewrite Hp. cbn [andb].
  destruct (is_panic (snd (propose true i))); [reflexivity | exact IH].
Qed.

Lemma option_N_eqb_refl : forall r : option N, option_eqb N.eqb r r = true.
Proof. intros [x|]; cbn; [apply N.eqb_refl | reflexivity]. Qed.

Lemma block_shape_eqb_eq : forall a b, block_shape_eqb a b = true -> a = b.
Proof.
  intros [v1 c1 m1 b1 p1 z1 e1] [v2 c2 m2 b2 p2 z2 e2]. unfold block_shape_eqb. cbn.
  intro H. repeat (apply andb_true_iff in H as [H ?]).
  repeat match goal with
         | H : (_ =? _) = true |- _ => apply N.eqb_eq in H
         | H : Bool.eqb _ _ = true |- _ => apply Bool.eqb_prop in H
         end. subst. reflexivity.
Qed.

Lemma block_answer_eqb_eq : forall a b, block_answer_eqb a b = true -> a = b.
Proof.
  intros [| | |x] [| | |y]; cbn; try discriminate; try reflexivity.
  intro H. f_equal. apply block_shape_eqb_eq. exact H.
Qed.

(* the answers a (suffix of a) script can still give, when the whole script is uniform *)
Lemma uniform_next : forall (S : list block_answer) a,
  uniform block_answer_eqb BAErr S = Some a ->
  forall s, (s = [] -> S = []) -> incl s S ->
  fst (next_answer s) = a /\ (snd (next_answer s) = [] -> S = []) /\ incl (snd (next_answer s)) S.
Proof.
  intros S a Hu s Hne Hincl.
  assert (Hall : forall x, In x S -> x = a).
  { destruct S as [|a0 S']; [intros x []|]. cbn in Hu.
    destruct (forallb (block_answer_eqb a0) S') eqn:Hf; [|discriminate]. injection Hu as <-.
    intros x [<-|Hin]; [reflexivity|]. rewrite forallb_forall in Hf. symmetry. apply block_answer_eqb_eq. apply Hf. exact Hin. }
  unfold next_answer. destruct s as [|x [|y s']]; cbn.
  - rewrite (Hne eq_refl) in Hu. cbn in Hu. injection Hu as <-. split; [reflexivity|]. split; [intros _; apply Hne; reflexivity | apply incl_nil_l].
  - split; [apply Hall, Hincl; left; reflexivity|]. split; [discriminate | exact Hincl].
  - split; [apply Hall, Hincl; left; reflexivity|]. split; [discriminate|]. intros z Hz. apply Hincl. right. exact Hz.
Qed.

Lemma P_head_steps_model : forall S evs prev s,
  (s = [] -> S = []) -> incl s S ->
  P_head_steps S prev evs (map Ok (head_trace prev s evs)) = true.
Proof.
  intros S. induction evs as [|ev evs IH]; intros prev s Hne Hincl; [reflexivity|].
  destruct ev; cbn [head_trace map P_head_steps].
  - rewrite option_N_eqb_refl. cbn [andb]. apply IH; assumption.
  - destruct (uniform block_answer_eqb BAErr S) as [a|] eqn:Hu.
    + destruct (uniform_next S a Hu s Hne Hincl) as (Hf & Hne' & Hincl').
      rewrite Hf. rewrite option_N_eqb_refl. cbn [andb]. apply IH; assumption.
    + assert (Hne' : snd (next_answer s) = [] -> S = []).
      { unfold next_answer. destruct s as [|x [|y s']]; cbn; [exact Hne | discriminate | discriminate]. }
      assert (Hincl' : incl (snd (next_answer s)) S).
      { destruct (next_of_incl BAErr s) as [_ H]. intros z Hz. apply Hincl, H. exact Hz. }
      assert (Hok : (option_eqb N.eqb (head_after prev (fst (next_answer s))) prev
                     || match head_after prev (fst (next_answer s)) with Some x => memb N.eqb x (script_heads S) | None => false end) = true).
      { destruct (next_of_incl BAErr s) as [[Hd|Hin] _]; unfold next_answer.
        - rewrite Hd. cbn [head_after]. rewrite option_N_eqb_refl. reflexivity.
        - destruct (fst (next_of BAErr s)) as [| | |b] eqn:Ea; cbn [head_after]; try (rewrite option_N_eqb_refl; reflexivity).
          destruct (block_moves b) eqn:Em; [|rewrite option_N_eqb_refl; reflexivity].
          apply orb_true_iff. right. unfold memb. apply existsb_exists. exists (bk_exec b). split; [|apply N.eqb_refl].
          unfold script_heads. apply in_flat_map. exists (BABlock b). split; [apply Hincl; exact Hin|]. rewrite Em. left. reflexivity. }
      rewrite Hok. cbn [andb]. apply IH; assumption.
Qed.

Lemma model_satisfies_P_head_session : forall script evs,
  P_head_session script evs (head_session_now script evs) = true.
Proof.
  intros script evs. unfold P_head_session.
  destruct (forallb answer_wf script) eqn:Hwf; [|reflexivity]. cbn [negb orb].
  rewrite (head_session_wf script evs Hwf). apply P_head_steps_model; [auto | apply incl_refl].
Qed.

(* path 9 (aggsel) *)
Lemma bool_list_eqb_refl : forall l : list bool, list_eqb Bool.eqb l l = true.
Proof. apply list_eqb_refl. intros []; reflexivity. Qed.

Lemma model_satisfies_P_aggsel : forall target sign_ok rows,
  P_aggsel target sign_ok rows
    (match aggsel_now target sign_ok rows with Ok l => Ok (true, l) | Err e => Err e | Panic => Panic end) = true.
Proof.
  intros target sign_ok rows. unfold P_aggsel.
  destruct (target =? 0) eqn:E0; [reflexivity|]. apply N.eqb_neq in E0. cbn [orb].
  rewrite aggsel_spec by exact E0. destruct sign_ok; [|reflexivity]. cbn [andb]. apply bool_list_eqb_refl.
Qed.
