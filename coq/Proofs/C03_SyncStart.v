(* C03 — start-up / restart completeness of the sync committee duties.

   Wherever in a sync committee period the process is (re)started, the preparation jobs of the
   rest of the current period exist at once, and those of the NEXT period are set up before its
   first slot: by the start-up itself when the period boundary is at most 5 epochs away, otherwise
   by the epoch ticker of the epoch 5 before the boundary, which is still to come; at the Altair
   fork epoch by the fork-epoch handler.  The jobs then stay until they run, are refreshed or the
   process restarts. *)
From Verif Require Import Lib.Base Model.C03_ChainTime Model.C03_Controller Model.C03_Spec
     Proofs.C03_ChainTime Proofs.C03_Table Proofs.C03_Sched Proofs.C03_Hist Proofs.C03_More.
From Coq Require Import ZifyBool ZifyN ZifyNat.
Open Scope N_scope.

Section SyncStart.
  Variable shadowed : bool.
  Variable c : config.

  (* the window of the period of [ep] as scheduled at clock [cur] *)
  Definition in_sync_window (ae cur ep s : N) : Prop :=
    let '(_, fs, ls) := sync_window c ae cur ep in fs <= s /\ s <= ls.

  (* one call of scheduleSyncCommitteeMessages leaves no slot of its window without a job *)
  Lemma sched_sync_covers : forall ae cur e ep nc t s,
    sync_active c ae cur e ep = true -> in_sync_window ae cur ep s -> (nc = true -> s <> cur) ->
    texists (sched_sync c ae cur e ep nc t) (JSync s) = true.
  Proof.
    intros ae cur e ep nc t s Ha Hw Hn. apply texists_tget. rewrite sched_sync_exact.
    unfold spec_sched_sync. destruct (tget t (JSync s)); [discriminate|].
    unfold sync_wanted, in_sync_window in *. destruct (sync_window c ae cur ep) as [[fe fs] ls].
    rewrite Ha. destruct Hw as [H1 H2].
    assert (E : negb ((s =? cur) && nc) = true).
    { destruct nc; [|rewrite andb_false_r; reflexivity]. specialize (Hn eq_refl).
      destruct (s =? cur) eqn:E; [apply N.eqb_eq in E; contradiction | reflexivity]. }
    rewrite E. replace (fs <=? s) with true by (symmetry; apply N.leb_le; exact H1).
    replace (s <=? ls) with true by (symmetry; apply N.leb_le; exact H2). cbn. discriminate.
  Qed.

  Lemma texists_keeps : forall (f : table -> table) t n,
    (forall j, tget t n = Some j -> tget (f t) n = Some j) -> texists t n = true -> texists (f t) n = true.
  Proof.
    intros f t n H E. apply texists_tget. apply texists_tget in E.
    destruct (tget t n) as [j|] eqn:G; [|contradiction]. rewrite (H j eq_refl). discriminate.
  Qed.

  Local Opaque sched_att sched_prop sched_sync.

  (* New(): the rest of the current sync committee period *)
  Theorem start_schedules_sync_period : forall st ae s,
    altair_details shadowed c = (true, ae) ->
    let cur := st_cur st in
    let this := feosp c ae (cur_epoch c cur / c_period c) in
    sync_active c ae cur (st_env st) this = true ->
    in_sync_window ae cur this s -> s <> cur ->
    texists (st_jobs (start shadowed c st)) (JSync s) = true.
  Proof.
    intros st ae s Hd cur this Ha Hw Hn. unfold start. fold cur. rewrite Hd. cbn [st_jobs].
    apply (texists_keeps (sched_att c cur _ _ _ true)); [intros j G; apply sched_att_keeps; exact G|].
    cbv zeta.
    match goal with |- texists (if ?b then _ else _) _ = true => destruct b end;
      [apply (texists_keeps (sched_sync c ae cur _ _ true)); [intros j G; apply sched_sync_keeps; exact G|]|];
      apply sched_sync_covers; try assumption; intros _; exact Hn.
  Qed.

  (* New(): the next period as well, when its first epoch is at most 5 epochs away *)
  Theorem start_schedules_next_sync_period : forall st ae s,
    altair_details shadowed c = (true, ae) ->
    let cur := st_cur st in
    let next := feosp c ae (cur_epoch c cur / c_period c + 1) in
    sub64 next (cur_epoch c cur) <= 5 ->
    sync_active c ae cur (st_env st) next = true ->
    in_sync_window ae cur next s -> s <> cur ->
    texists (st_jobs (start shadowed c st)) (JSync s) = true.
  Proof.
    intros st ae s Hd cur next H5 Ha Hw Hn. unfold start. fold cur. rewrite Hd. cbn [st_jobs].
    apply (texists_keeps (sched_att c cur _ _ _ true)); [intros j G; apply sched_att_keeps; exact G|].
    cbv zeta. fold next.
    replace (sub64 next (cur_epoch c cur) <=? 5) with true by (symmetry; apply N.leb_le; exact H5).
    apply sched_sync_covers; try assumption. intros _; exact Hn.
  Qed.

  Local Opaque handle_altair_fork_epoch tsched.

  (* epochTicker in the epoch 5 before a period boundary: the whole next period *)
  Theorem tick_schedules_next_sync_period : forall st s,
    let cur := st_cur st in
    let ce := cur_epoch c cur in
    st_altair st = true -> (st_tick st < Z.of_N ce)%Z ->
    ce mod c_period c = sub64 (c_period c) 5 ->
    sync_active c (st_altair_epoch st) cur (st_env st) (add64 ce 5) = true ->
    in_sync_window (st_altair_epoch st) cur (add64 ce 5) s ->
    texists (st_jobs (epoch_tick c st)) (JSync s) = true.
  Proof.
    intros st s cur ce Hal Ht Hm Ha Hw. unfold epoch_tick. fold cur. fold ce.
    replace (Z.of_N ce <=? st_tick st)%Z with false by (symmetry; apply Z.leb_gt; exact Ht).
    cbn [st_jobs]. rewrite Hal.
    apply (texists_keeps (fun t => tsched t _)); [intros j G; apply tsched_keeps; exact G|].
    replace (ce mod c_period c =? sub64 (c_period c) 5) with true by (symmetry; apply N.eqb_eq; exact Hm).
    apply sched_sync_covers; try assumption. intro H; discriminate.
  Qed.

  Local Transparent handle_altair_fork_epoch.

  (* epochTicker at the Altair fork epoch: the fork's period, and the next one when at most 5 epochs away *)
  Theorem fork_tick_schedules_sync_periods : forall st s,
    let cur := st_cur st in
    let ce := cur_epoch c cur in
    let ae := st_altair_epoch st in
    let next := mul64 (add64 (ae / c_period c) 1) (c_period c) in
    st_altair st = true -> (st_tick st < Z.of_N ce)%Z -> ce = ae ->
    (sync_active c ae cur (st_env st) ae = true /\ in_sync_window ae cur ae s) \/
    (sub64 next ae <= 5 /\ sync_active c ae cur (st_env st) next = true /\ in_sync_window ae cur next s) ->
    texists (st_jobs (epoch_tick c st)) (JSync s) = true.
  Proof.
    intros st s cur ce ae next Hal Ht Hce Hc. unfold epoch_tick. fold cur. fold ce.
    replace (Z.of_N ce <=? st_tick st)%Z with false by (symmetry; apply Z.leb_gt; exact Ht).
    cbn [st_jobs]. rewrite Hal.
    apply (texists_keeps (fun t => tsched t _)); [intros j G; apply tsched_keeps; exact G|].
    assert (G : texists (handle_altair_fork_epoch c st
                (sched_prop c cur (e_vals (st_env st)) (alookup (e_prop (st_env st)) ce) ce false (st_jobs st))) (JSync s) = true).
    { unfold handle_altair_fork_epoch. rewrite Hal. cbn [negb]. cbv zeta. fold ae. fold cur. fold next.
      destruct Hc as [[Ha Hw] | [H5 [Ha Hw]]].
      - match goal with |- texists (if ?b then _ else _) _ = true => destruct b end;
          [apply (texists_keeps (sched_sync c ae cur _ _ false)); [intros j G; apply sched_sync_keeps; exact G|]|];
          apply sched_sync_covers; try assumption; intro H; discriminate.
      - replace (sub64 next ae <=? 5) with true by (symmetry; apply N.leb_le; exact H5).
        apply sched_sync_covers; try assumption. intro H; discriminate. }
    replace (ce =? st_altair_epoch st) with true by (symmetry; apply N.eqb_eq; exact Hce).
    match goal with |- texists (if ?b then _ else _) _ = true => destruct b end; [|exact G].
    apply (texists_keeps (sched_sync c _ cur _ _ false)); [intros j G'; apply sched_sync_keeps; exact G'|exact G].
  Qed.

  (* The two conditions leave no gap: at every epoch [ce] at or after the fork, either the
     start-up condition holds (the boundary is at most 5 epochs away), or the epoch 5 before the
     boundary is still to come, it is the one at which the ticker's condition holds, and the epoch
     the ticker then passes on (its own + 5) is the first epoch of the next period. *)
  Theorem next_period_by_start_or_by_tick : forall ae ce,
    let len := c_period c in
    let P := ce / len in
    5 <= len -> ae <= ce -> (P + 2) * len < two64 ->
    sub64 (feosp c ae (P + 1)) ce <= 5 \/
    exists e', ce < e' /\ e' < (P + 1) * len /\ e' / len = P /\
               e' mod len = sub64 len 5 /\ add64 e' 5 = (P + 1) * len /\ ae <= e'.
  Proof.
    intros ae ce len P H5 Hae B.
    assert (Hlen : len <> 0) by lia.
    pose proof (N.div_mod ce len Hlen) as Hdm. fold P in Hdm.
    pose proof (N.mod_upper_bound ce len Hlen) as Hub.
    assert (Hf : feosp c ae (P + 1) = (P + 1) * len).
    { unfold feosp, mul64. fold len. rewrite wrap64_small by nia.
      destruct ((P + 1) * len <? ae) eqn:E; [|reflexivity]. apply N.ltb_lt in E. nia. }
    rewrite Hf.
    assert (Hs : sub64 ((P + 1) * len) ce = (P + 1) * len - ce).
    { unfold sub64. destruct (ce <=? (P + 1) * len) eqn:E; [reflexivity|]. apply N.leb_gt in E. nia. }
    rewrite Hs.
    destruct (N.le_gt_cases ((P + 1) * len - ce) 5) as [Hle|Hgt]; [left; exact Hle|right].
    exists (P * len + (len - 5)).
    assert (Hd : (P * len + (len - 5)) / len = P).
    { rewrite N.div_add_l by exact Hlen. rewrite N.div_small by lia. lia. }
    assert (Hm : (P * len + (len - 5)) mod len = len - 5).
    { rewrite N.add_comm. rewrite N.mod_add by exact Hlen. apply N.mod_small. lia. }
    repeat split; try nia; try exact Hd.
    - rewrite Hm. unfold sub64. destruct (5 <=? len) eqn:E; [reflexivity|]. apply N.leb_gt in E. lia.
    - unfold add64. rewrite wrap64_small by nia. nia.
  Qed.

  (* and the jobs stay: over any run in which no step is entitled to drop the job *)
  Fixpoint never_drops (st : state) (ops : list op) (n : jname) : Prop :=
    match ops with
    | [] => True
    | o :: ops' => ~ may_drop c st o n /\ never_drops (step shadowed c st o) ops' n
    end.

  Theorem job_persists_over_run : forall ops st n j,
    tget (st_jobs st) n = Some j -> never_drops st ops n ->
    tget (st_jobs (run shadowed c st ops)) n = Some j.
  Proof.
    induction ops as [|o ops IH]; intros st n j G H; [exact G|].
    destruct H as [H1 H2]. cbn [run fold_left]. apply IH; [|exact H2].
    destruct (jobs_persist shadowed c st o n j G) as [K|K]; [exact K | contradiction].
  Qed.
End SyncStart.
