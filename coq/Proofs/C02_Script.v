(* C02 -- lemmas about timed scripts (Model/C02_Script.v): the explorer only returns states that
   can be reached through [moves]; every move of a script is a step of the job machine; so every
   final state of EVERY script (any calls, any instants, any length) has a core that some schedule
   of the job machine reaches, and the theorems about schedules apply to the model's outcome sets,
   which are what the implementation is compared with. *)
From Coq Require Import PArith FMapPositive.
From Verif Require Import Lib.Base Lib.Sched Lib.Reach Model.C02_Scheduler Model.C02_Script Proofs.C02.
From Coq Require Import ZifyBool ZifyN ZifyNat.

(* ---------------------------------------------------------------------------------------------
   the (unverified) explorer preserves any property preserved by the successor function *)
Section ExploreInv.
  Context {S : Type} (succs : S -> list S) (eqb : S -> S -> bool) (key : S -> positive).
  Variable P : S -> Prop.
  Hypothesis P_succ : forall s s', P s -> In s' (succs s) -> P s'.

  Lemma explore_inv : forall fuel work t acc,
      (forall s, In s work -> P s) -> (forall s, In s acc -> P s) ->
      forall s, In s (fst (explore succs eqb key fuel work t acc)) -> P s.
  Proof.
    induction fuel as [|fuel IH]; intros work t acc Hw Ha s Hs; cbn [explore] in Hs.
    - apply Ha; exact Hs.
    - destruct work as [|x work'].
      + apply Ha; exact Hs.
      + destruct (memt eqb key t x).
        * eapply IH; [ | exact Ha | exact Hs]. intros y Hy; apply Hw; right; exact Hy.
        * eapply IH; [ | | exact Hs].
          -- intros y Hy; apply in_app_or in Hy as [Hy|Hy];
               [eapply P_succ; [apply Hw; left; reflexivity | exact Hy] | apply Hw; right; exact Hy].
          -- intros y [<-|Hy]; [apply Hw; left; reflexivity | apply Ha; exact Hy].
  Qed.

  Lemma reach_from_inv : forall fuel init,
      (forall s, In s init -> P s) -> forall s, In s (fst (reach_from succs eqb key fuel init)) -> P s.
  Proof.
    intros fuel init Hi s Hs. unfold reach_from in Hs.
    eapply explore_inv; [exact Hi | | exact Hs]. intros x [].
  Qed.
End ExploreInv.

Lemma settle_eq : forall sc now ts, settle sc now ts =
  filter (fun t => match moves sc now t with [] => true | _ => false end)
         (fst (reach_from (moves sc now) tstate_eqb tkey fuel ts)).
Proof. intros; reflexivity. Qed.

(* from here on [settle] is never looked into: unfolding it under a symbolic script would start the
   exploration symbolically *)
Opaque settle.

Lemma settle_inv : forall sc (P : tstate -> Prop) now ts,
    (forall t t', P t -> In t' (moves sc now t) -> P t') ->
    (forall t, In t ts -> P t) -> forall t, In t (settle sc now ts) -> P t.
Proof.
  intros sc P now ts Hm Hts t Ht. rewrite settle_eq in Ht. apply filter_In in Ht.
  exact (reach_from_inv (moves sc now) tstate_eqb tkey P Hm fuel ts Hts t (proj1 Ht)).
Qed.

Lemma settle_stuck : forall sc now ts t, In t (settle sc now ts) -> moves sc now t = [].
Proof.
  intros sc now ts t Ht. rewrite settle_eq in Ht. apply filter_In in Ht. destruct Ht as [_ Ht].
  destruct (moves sc now t); [reflexivity | discriminate Ht].
Qed.

(* generic folds (stated without [settle] so that no conversion ever looks inside it) *)
Lemma fold_inv : forall {T} (f : list T -> N -> list T) (P : T -> Prop),
    (forall now ts, (forall t, In t ts -> P t) -> forall t, In t (f ts now) -> P t) ->
    forall l ts, (forall t, In t ts -> P t) -> forall t, In t (fold_left f l ts) -> P t.
Proof.
  intros T f P Hf l; induction l as [|now l IH]; intros ts Hts t Ht.
  - apply Hts; exact Ht.
  - change (fold_left f (now :: l) ts) with (fold_left f l (f ts now)) in Ht.
    eapply IH; [ | exact Ht]. apply Hf; exact Hts.
Qed.

Lemma fold_last : forall {T} (f : list T -> N -> list T) l x ts,
    fold_left f (l ++ [x]) ts = f (fold_left f l ts) x.
Proof. intros; rewrite fold_left_app; reflexivity. Qed.

Lemma finals_inv : forall sc (P : tstate -> Prop),
    (forall now t t', P t -> In t' (moves sc now t) -> P t') -> P (t_init sc) ->
    forall t, In t (finals sc) -> P t.
Proof.
  intros sc P Hm H0 t Ht. unfold finals in Ht.
  refine (fold_inv (fun ts now => settle sc now ts) P _ _ [t_init sc] _ t Ht).
  - intros now ts Hts x Hx. exact (settle_inv sc P now ts (Hm now) Hts x Hx).
  - intros x [<-|[]]; exact H0.
Qed.

(* the last instant of a script is sc_end: final states are stuck at that instant *)
Lemma instants_snoc : forall n from, instants (Datatypes.S n) from = instants n from ++ [from + N.of_nat n].
Proof.
  induction n as [|n IH]; intro from.
  - cbn. rewrite N.add_0_r. reflexivity.
  - change (instants (Datatypes.S (Datatypes.S n)) from) with (from :: instants (Datatypes.S n) (from + 1)).
    rewrite IH. cbn [instants app]. f_equal. f_equal. f_equal. lia.
Qed.

Lemma finals_stuck : forall sc t, In t (finals sc) -> moves sc (sc_end sc) t = [].
Proof.
  intros sc t Ht. unfold finals in Ht. rewrite instants_snoc, fold_last in Ht.
  rewrite N.add_0_l, N2Nat.id in Ht.
  exact (settle_stuck sc (sc_end sc) _ t Ht).
Qed.

(* ---------------------------------------------------------------------------------------------
   what a step of the job machine does to the run counter *)

Ltac break_hyp H :=
  repeat match type of H with
         | context [match ?x with _ => _ end] => destruct x eqn:?; try discriminate H
         end.

Ltac break_goal :=
  repeat match goal with
         | |- context [if ?b then _ else _] => destruct b
         end.

Lemma runs_finalise : forall s, runs (finalise s) = runs s.
Proof. intro s; unfold finalise; destruct (cancel_closed s || run_closed s); reflexivity. Qed.

Definition calls_job (a : act) (g : gpc) : bool :=
  match a, g with GStep, GRunCall | GStep, GTimCall => true | _, _ => false end.

Lemma step_runs : forall cf c a c', step cf c a = Some c' ->
    runs c' = if calls_job a (g_pc c) then sat2 (runs c + 1) else runs c.
Proof.
  intros cf c a c' H.
  destruct a; cbn [step] in H;
    unfold g_pick, g_step, g_return, g_rt, run_lookup, r_enter, r_step, r_reset, cancel_lookup, c_step,
           call_job, return_job in H;
    break_hyp H; injection H as <-; cbn [calls_job];
    cbn [runs set_g set_r set_c set_table set_active set_finalised set_runq set_cancelq set_timer set_ctx
         set_counts set_run_ok set_cancel_ok set_panic];
    rewrite ?runs_finalise;
    cbn [runs set_g set_r set_c set_table set_active set_finalised set_runq set_cancelq set_timer set_ctx
         set_counts set_run_ok set_cancel_ok set_panic];
    try reflexivity;
    match goal with Hg : g_pc _ = _ |- _ => rewrite Hg end; reflexivity.
Qed.

(* ---------------------------------------------------------------------------------------------
   every move of a script is one step of the job machine (or leaves the core alone) *)

Definition core_step (cf : config) (c c' : jstate) : Prop := c' = c \/ exists a, step cf c a = Some c'.

Lemma in_map_opt : forall {X Y} (f : X -> Y) (o : option X) y,
    In y (map f (opt_list o)) -> exists x, o = Some x /\ y = f x.
Proof. intros X Y f [x|] y H; cbn in H; [destruct H as [<-|[]]; eauto | destruct H]. Qed.

(* the instants at which jobFunc was called grow exactly when the step calls jobFunc *)
Definition starts_step (c : jstate) (a : act) (st st' : list N) : Prop :=
  if calls_job a (g_pc c) then exists now, st' = now :: st else st' = st.

Inductive msteps (cf : config) : jstate * list N -> jstate * list N -> Prop :=
| ms_refl : forall x, msteps cf x x
| ms_step : forall c st a c' st' y,
    step cf c a = Some c' -> starts_step c a st st' -> msteps cf (c', st') y -> msteps cf (c, st) y.

Definition move_rel (sc : script) (t t' : tstate) : Prop :=
  msteps (sc_cfg sc) (t_core t, t_starts t) (t_core t', t_starts t').

Lemma ms_one : forall cf c st a c' st', step cf c a = Some c' -> starts_step c a st st' -> msteps cf (c, st) (c', st').
Proof. intros; eapply ms_step; eauto; apply ms_refl. Qed.

Lemma ms_quiet : forall cf c st a c', calls_job a (g_pc c) = false -> step cf c a = Some c' -> msteps cf (c, st) (c', st).
Proof. intros cf c st a c' Ha Hs. eapply ms_one; [exact Hs|]. unfold starts_step; rewrite Ha; reflexivity. Qed.

Lemma g_moves_rel : forall sc now t t', In t' (g_moves sc now t) -> move_rel sc t t'.
Proof.
  intros sc now t t' H. unfold g_moves in H. unfold move_rel.
  assert (Hcore : forall a, calls_job a (g_pc (t_core t)) = false ->
                        In t' (map (with_core t) (opt_list (step (sc_cfg sc) (t_core t) a))) ->
                        msteps (sc_cfg sc) (t_core t, t_starts t) (t_core t', t_starts t')).
  { intros a Ha Hin. apply in_map_opt in Hin as [c' [Hs ->]]. eapply ms_quiet; eauto. }
  destruct (g_pc (t_core t)) eqn:Hg;
    try (apply (Hcore GStep); [reflexivity | exact H]).
  - (* GRt *)
    destruct (0 <? t_rt_left t).
    + apply in_map_opt in H as [c' [Hs ->]]. eapply (ms_quiet _ _ _ (GRtOut RtNext)); [reflexivity | exact Hs].
    + apply (Hcore (GRtOut RtStop)); [reflexivity | exact H].
  - (* GSel *)
    repeat (apply in_app_or in H as [H|H]).
    + destruct (t_deadline t <=? now); [|destruct H].
      apply (Hcore TimerFire); [reflexivity | exact H].
    + apply (Hcore (GPick BCtx)); [reflexivity | exact H].
    + apply (Hcore (GPick BCancel)); [reflexivity | exact H].
    + apply (Hcore (GPick BRun)); [reflexivity | exact H].
    + apply (Hcore (GPick BTimer)); [reflexivity | exact H].
  - (* GRunCall *)
    apply in_map_opt in H as [c' [Hs ->]]. eapply ms_one; [exact Hs|].
    unfold starts_step; rewrite Hg; cbn. eexists; reflexivity.
  - (* GRunBusy *)
    destruct (t_busy_until t <=? now); [|destruct H].
    apply (Hcore JobReturn); [reflexivity | exact H].
  - (* GTimCall *)
    apply in_map_opt in H as [c' [Hs ->]]. eapply ms_one; [exact Hs|].
    unfold starts_step; rewrite Hg; cbn. eexists; reflexivity.
  - (* GTimBusy *)
    destruct (t_busy_until t <=? now); [|destruct H].
    apply (Hcore JobReturn); [reflexivity | exact H].
Qed.

Lemma call_moves_rel : forall sc now t i cl st t', In t' (call_moves sc now t i cl st) -> move_rel sc t t'.
Proof.
  intros sc now t i cl st t' H. unfold call_moves in H. unfold move_rel.
  assert (Hstep : forall a c' st', calls_job a (g_pc (t_core t)) = false ->
                     step (sc_cfg sc) (t_core t) a = Some c' ->
                     msteps (sc_cfg sc) (t_core t, t_starts t) (t_core (with_call t i st' c'), t_starts (with_call t i st' c'))).
  { intros a c' st' Ha Hs. cbn [with_call t_core t_starts]. eapply ms_quiet; eauto. }
  assert (Hsame : forall st', msteps (sc_cfg sc) (t_core t, t_starts t)
                                (t_core (with_call t i st' (t_core t)), t_starts (with_call t i st' (t_core t))))
    by (intro; apply ms_refl).
  destruct st; try (destruct H; fail).
  - (* Waiting *)
    destruct (cl_at cl <=? now); [|destruct H].
    destruct (cl_kind cl).
    + destruct (in_table (t_core t)).
      * destruct (step (sc_cfg sc) (t_core t) RunLookup) eqn:E; [|destruct H].
        destruct H as [<-|[]]. eapply Hstep; [ | exact E]; reflexivity.
      * destruct H as [<-|[]]. apply Hsame.
    + destruct (in_table (t_core t)).
      * destruct (step (sc_cfg sc) (t_core t) CancelLookup) eqn:E; [|destruct H].
        destruct H as [<-|[]]. eapply Hstep; [ | exact E]; reflexivity.
      * destruct H as [<-|[]]. apply Hsame.
    + destruct H as [<-|[]].
      destruct (step (sc_cfg sc) (t_core t) CtxCancel) eqn:E; [eapply Hstep; [ | exact E]; reflexivity | apply Hsame].
    + destruct H as [<-|[]]. apply Hsame.
    + destruct H as [<-|[]]. apply Hsame.
  - (* HasPtr *)
    destruct (step (sc_cfg sc) (t_core t) REnter) eqn:E; [|destruct H].
    destruct H as [<-|[]]. eapply Hstep; [ | exact E]; reflexivity.
  - (* InSlot *)
    destruct (cl_kind cl); try (destruct H; fail).
    + (* KRun: REnter or RStep, possibly followed by RReset *)
      set (next := match r_pc (t_core t) with RHave => step (sc_cfg sc) (t_core t) REnter | _ => step (sc_cfg sc) (t_core t) RStep end) in H.
      destruct next as [c'|] eqn:E; [|destruct H].
      assert (Hn : exists a, calls_job a (g_pc (t_core t)) = false /\ step (sc_cfg sc) (t_core t) a = Some c').
      { subst next. destruct (r_pc (t_core t)); [exists RStep | exists REnter | exists RStep | exists RStep | exists RStep | exists RStep | exists RStep];
          (split; [reflexivity | exact E]). }
      destruct Hn as [a [Ha Hs]].
      destruct (r_pc c') eqn:Er; try (destruct H as [<-|[]]; eapply Hstep; [exact Ha | exact Hs]).
      (* RDone: the slot is reset in the same move (periodic): two steps of the machine *)
      destruct H as [<-|[]]. cbn [with_call t_core t_starts].
      destruct (step (sc_cfg sc) c' RReset) as [c''|] eqn:E2; [|eapply ms_quiet; eauto].
      eapply ms_step; [exact Hs | unfold starts_step; rewrite Ha; reflexivity |].
      eapply (ms_quiet _ _ _ RReset); [reflexivity | exact E2].
    + destruct (step (sc_cfg sc) (t_core t) CStep) eqn:E; [|destruct H].
      destruct (c_pc j) eqn:Ec; destruct H as [<-|[]]; (eapply Hstep; [ | exact E]; reflexivity).
Qed.

Lemma all_call_moves_rel : forall sc now t cls sts i t', In t' (all_call_moves sc now t i cls sts) -> move_rel sc t t'.
Proof.
  intros sc now t cls; induction cls as [|cl cls IH]; intros sts i t' H; cbn [all_call_moves] in H; [destruct H|].
  destruct sts as [|st sts]; [destruct H|].
  apply in_app_or in H as [H|H]; [eapply call_moves_rel; exact H | eapply IH; exact H].
Qed.

Lemma moves_rel : forall sc now t t', In t' (moves sc now t) -> move_rel sc t t'.
Proof.
  intros sc now t t' H. unfold moves in H. apply in_app_or in H as [H|H];
    [eapply g_moves_rel; exact H | eapply all_call_moves_rel; exact H].
Qed.

(* ---------------------------------------------------------------------------------------------
   the invariant carried by every state of every script: the core is reached by a schedule of the
   job machine, and the recorded starts are the machine's run counter *)

Definition script_inv (sc : script) (t : tstate) : Prop :=
  (exists sch, t_core t = run (step (sc_cfg sc)) sch (init (sc_cfg sc)))
  /\ runs (t_core t) = sat2 (N.of_nat (length (t_starts t))).

Lemma sat2_succ : forall n, sat2 (sat2 n + 1) = sat2 (n + 1).
Proof.
  intro n; unfold sat2.
  destruct (2 <=? n) eqn:E1; destruct (2 <=? n + 1) eqn:E2; destruct (2 <=? 2 + 1) eqn:E3; lia.
Qed.

Lemma msteps_inv : forall cf x y, msteps cf x y ->
    ((exists sch, fst x = run (step cf) sch (init cf)) /\ runs (fst x) = sat2 (N.of_nat (length (snd x)))) ->
    ((exists sch, fst y = run (step cf) sch (init cf)) /\ runs (fst y) = sat2 (N.of_nat (length (snd y)))).
Proof.
  intros cf x y H; induction H as [x | c st a c' st' y Hs Hst Hrest IH]; intro Hx; [exact Hx|].
  apply IH. cbn [fst snd] in *. destruct Hx as [[sch Hsch] Hr]. split.
  - exists (sch ++ [a]). rewrite run_snoc, <- Hsch. unfold exec. rewrite Hs. reflexivity.
  - rewrite (step_runs _ _ _ _ Hs). unfold starts_step in Hst. destruct (calls_job a (g_pc c)).
    + destruct Hst as [now ->]. cbn [length]. rewrite Hr, Nat2N.inj_succ, <- N.add_1_r. apply sat2_succ.
    + subst st'. exact Hr.
Qed.

Lemma script_inv_holds : forall sc t, In t (finals sc) -> script_inv sc t.
Proof.
  intros sc t Ht. apply (finals_inv sc (script_inv sc)); [ | | exact Ht].
  - intros now x x' Hx Hm. apply moves_rel in Hm. unfold move_rel in Hm.
    exact (msteps_inv _ _ _ Hm Hx).
  - split; [exists []; reflexivity | reflexivity].
Qed.

(* ---------------------------------------------------------------------------------------------
   consequences for the outcome sets of ALL scripts *)

Lemma at_most_once_all : forall cf, cf = cfF \/ cf = cfU ->
  forall sch, let s := run (step cf) sch (init cf) in
    runs s <= 1 /\ running s <= 1 /\ panicked s = false.
Proof.
  intros cf [-> | ->] sch s; subst s.
  - pose proof (always cfF R_F p_safe R_F_closed safe_F _ R_F_init sch) as H.
    unfold p_safe in H; apply andb_prop in H as [H H3]; apply andb_prop in H as [H1 H2].
    apply N.leb_le in H1, H2. apply negb_true_iff in H3. auto.
  - pose proof (always cfU R_U p_safe R_U_closed safe_U _ R_U_init sch) as H.
    unfold p_safe in H; apply andb_prop in H as [H H3]; apply andb_prop in H as [H1 H2].
    apply N.leb_le in H1, H2. apply negb_true_iff in H3. auto.
Qed.

Lemma periodic_no_overlap_all : forall v sch, let cf := {| k_kind := Periodic; k_variant := v |} in
    let s := run (step cf) sch (init cf) in running s <= 1 /\ panicked s = false.
Proof.
  intros v sch cf s; subst s cf. rewrite periodic_run_variant.
  change (init {| k_kind := Periodic; k_variant := v |}) with (init cfP).
  pose proof (always cfP R_P p_safe_P R_P_closed safe_P _ R_P_init sch) as H.
  unfold p_safe_P in H; apply andb_prop in H as [H1 H2].
  apply N.leb_le in H1. apply negb_true_iff in H2. auto.
Qed.

Lemma sc_cfg_oneoff : forall sc, sc_kind sc = OneOff -> sc_cfg sc = cfF \/ sc_cfg sc = cfU.
Proof.
  intros [k v d du ti cl e] H; cbn in H; subst k. unfold sc_cfg; cbn. destruct v; [right | left]; reflexivity.
Qed.

Lemma sc_cfg_periodic : forall sc, sc_kind sc = Periodic -> exists v, sc_cfg sc = {| k_kind := Periodic; k_variant := v |}.
Proof. intros [k v d du ti cl e] H; cbn in H; subst k. exists v; reflexivity. Qed.

Lemma sat2_le_1 : forall n, sat2 n <= 1 -> n <= 1.
Proof. intros n; unfold sat2; destruct (2 <=? n) eqn:E; lia. Qed.

Lemma outcomes_in : forall sc o, In o (outcomes sc) -> exists t, In t (finals sc) /\ o = outcome_of t.
Proof. intros sc o H; unfold outcomes in H; apply in_map_iff in H as [t [<- Ht]]; eauto. Qed.

Lemma script_never_twice : forall sc o, In o (outcomes sc) ->
    o_panic o = false /\ o_overlap o <= 1 /\ (sc_kind sc = OneOff -> (length (o_starts o) <= 1)%nat).
Proof.
  intros sc o Ho. apply outcomes_in in Ho as [t [Ht ->]].
  destruct (script_inv_holds sc t Ht) as [[sch Hsch] Hruns].
  unfold outcome_of; cbn [o_panic o_overlap o_starts].
  assert (Hp : panicked (t_core t) = false).
  { rewrite Hsch. destruct (sc_kind sc) eqn:Ek.
    - destruct (sc_cfg_oneoff sc Ek) as [-> | ->].
      + destruct (at_most_once_all cfF (or_introl eq_refl) sch) as [_ [_ H]]; exact H.
      + destruct (at_most_once_all cfU (or_intror eq_refl) sch) as [_ [_ H]]; exact H.
    - destruct (sc_cfg_periodic sc Ek) as [v ->]. destruct (periodic_no_overlap_all v sch) as [_ H]; exact H. }
  split; [exact Hp|]. split.
  - destruct (t_starts t); lia.
  - intro Ek. rewrite rev_length.
    assert (Hr : runs (t_core t) <= 1).
    { rewrite Hsch. destruct (sc_cfg_oneoff sc Ek) as [-> | ->].
      + destruct (at_most_once_all cfF (or_introl eq_refl) sch) as [H _]; exact H.
      + destruct (at_most_once_all cfU (or_intror eq_refl) sch) as [H _]; exact H. }
    rewrite Hruns in Hr. apply sat2_le_1 in Hr. lia.
Qed.
