(* C02 -- a cancellation takes effect whatever the job's goroutine is doing (strengthening round 5).

   A one-off job leaves the job table when it is claimed; a PERIODIC job stays listed for its whole
   life: while it waits, while an instance is in progress ([active] set by the timer branch), and between
   a run request claiming it ([active] set by runJob) and the end of that run.  CancelJob -- and so
   CancelJobIfExists and CancelJobs(prefix), which are CancelJob with the result dropped -- never looks at
   [active]:
   (1) a listed job can always be claimed by a cancellation, and the claim changes nothing but the table
       entry (every schedule of every configuration);
   (2) once a CancelJob has returned nil the entry is gone, the job is finalised, and whenever the goroutine
       is (back) in its select the cancel branch is ready;
   (3) so every script in which a CancelJob returned nil -- wherever it landed -- ends, once nothing is in
       flight and no call is stuck, with the goroutine returned and the name free;
   (4) the table: CancelJobs removes exactly the listed names that have the prefix;
   (5) what the clause [cancelled_never_runs] of P_b says. *)
From Coq Require Import PArith FMapPositive Lia.
From Verif Require Import Lib.Base Lib.Sched Lib.Reach Model.C02_Scheduler Model.C02_Script Model.C02_TableOps.
From Verif Require Import Proofs.C02 Proofs.C02_Script Proofs.C02_Check Proofs.C02_Exit Proofs.C02_Real.
From Verif Require Import Check.C02.
From Coq Require Import ZifyBool ZifyN ZifyNat.

Definition c_free (s : jstate) : bool := match c_pc s with CNone => true | _ => false end.

Definition p_cancel_inv (s : jstate) : bool :=
  (negb (in_table s) || c_free s)
  && (negb (cancel_ok s) || (negb (in_table s) && finalised s))
  && (negb (cancel_ok s && gpc_eqb (g_pc s) GSel) || cancelq s || cancel_closed s).

Lemma cancel_inv_F : forallb p_cancel_inv R_F = true. Proof. vm_compute; reflexivity. Qed.
Lemma cancel_inv_U : forallb p_cancel_inv R_U = true. Proof. vm_compute; reflexivity. Qed.
Lemma cancel_inv_P : forallb p_cancel_inv R_P = true. Proof. vm_compute; reflexivity. Qed.

Lemma cancel_inv_all : forall cf sch, p_cancel_inv (run (step cf) sch (init cf)) = true.
Proof.
  intros [k v] sch. destruct k.
  - destruct v.
    + exact (always cfU R_U p_cancel_inv R_U_closed cancel_inv_U _ R_U_init sch).
    + exact (always cfF R_F p_cancel_inv R_F_closed cancel_inv_F _ R_F_init sch).
  - rewrite periodic_run_variant. change (init {| k_kind := Periodic; k_variant := v |}) with (init cfP).
    exact (always cfP R_P p_cancel_inv R_P_closed cancel_inv_P _ R_P_init sch).
Qed.

(* (1) *)
Lemma listed_job_is_cancellable : forall cf sch,
    let s := run (step cf) sch (init cf) in
    in_table s = true ->
    exists s', step cf s CancelLookup = Some s' /\ in_table s' = false /\ c_pc s' = CHave
               /\ g_pc s' = g_pc s /\ active s' = active s /\ running s' = running s /\ runs s' = runs s.
Proof.
  intros cf sch s Htab. pose proof (cancel_inv_all cf sch) as H. fold s in H.
  unfold p_cancel_inv in H. apply andb_prop in H as [H _]. apply andb_prop in H as [H _].
  rewrite Htab in H. cbn in H. unfold c_free in H.
  cbn [step]. unfold cancel_lookup. rewrite Htab.
  destruct (c_pc s) eqn:E; try discriminate H.
  eexists. split; [reflexivity|]. cbn. repeat split; reflexivity.
Qed.

(* (2) *)
Lemma cancelled_job_is_leaving : forall cf sch,
    let s := run (step cf) sch (init cf) in
    cancel_ok s = true ->
    in_table s = false /\ finalised s = true
    /\ (g_pc s = GSel -> exists s', step cf s (GPick BCancel) = Some s' /\ g_pc s' = GCanFin /\ runs s' = runs s).
Proof.
  intros cf sch s Hc. pose proof (cancel_inv_all cf sch) as H. fold s in H.
  unfold p_cancel_inv in H. apply andb_prop in H as [H H3]. apply andb_prop in H as [_ H2].
  rewrite Hc in H2, H3. cbn in H2. apply andb_prop in H2 as [H2a H2b]. apply negb_true_iff in H2a.
  split; [exact H2a|]. split; [exact H2b|]. intro Hg.
  rewrite Hg in H3. cbn in H3.
  cbn [step]. unfold g_pick. rewrite Hg. cbn [ready]. rewrite H3.
  eexists. split; [reflexivity|]. cbn. split; reflexivity.
Qed.

(* the goroutine's part of [moves] is empty only if the goroutine has returned or is waiting for jobFunc,
   when its select has a ready branch *)
Lemma g_stuck_ready : forall sc now t, g_moves sc now t = [] ->
    let c := t_core t in
    (g_pc c = GSel -> cancelq c || cancel_closed c = true) -> lock_free c = true ->
    (g_pc c = GTimRecv -> runq c || run_closed c = true) ->
    g_pc c = GDone \/ g_busy c = true.
Proof.
  intros sc now t H c Hsel Hlock Hrecv. subst c. unfold g_moves in H.
  destruct (g_pc (t_core t)) eqn:Eg;
    try (right; unfold g_busy; rewrite Eg; reflexivity);
    try (left; reflexivity); exfalso.
  - (* GRt *)
    destruct (0 <? t_rt_left t).
    + destruct (step (sc_cfg sc) (t_core t) (GRtOut RtNext)) eqn:E; [discriminate H|].
      cbn [step] in E. unfold g_rt in E. rewrite Eg in E. discriminate E.
    + apply map_opt_nil in H. cbn [step] in H. unfold g_rt in H. rewrite Eg in H. discriminate H.
  - (* GSel *)
    apply app_eq_nil in H as [_ H]. apply app_eq_nil in H as [_ H]. apply app_eq_nil in H as [H _].
    apply map_opt_nil in H. cbn [step] in H. unfold g_pick in H. rewrite Eg in H.
    cbn [ready] in H. rewrite (Hsel eq_refl) in H. discriminate H.
  - apply map_opt_nil in H. cbn [step] in H. unfold g_step in H. rewrite Eg in H. discriminate H.
  - apply map_opt_nil in H. cbn [step] in H. unfold g_step in H. rewrite Eg, Hlock in H. discriminate H.
  - apply map_opt_nil in H. cbn [step] in H. unfold g_step in H. rewrite Eg, Hlock in H. discriminate H.
  - (* GRunCall *)
    destruct (step (sc_cfg sc) (t_core t) GStep) eqn:E; [discriminate H|].
    cbn [step] in E. unfold g_step in E. rewrite Eg in E. discriminate E.
  - apply map_opt_nil in H. cbn [step] in H. unfold g_step in H. rewrite Eg, Hlock in H. discriminate H.
  - apply map_opt_nil in H. cbn [step] in H. unfold g_step in H. rewrite Eg in H. discriminate H.
  - (* GTimChk *)
    apply map_opt_nil in H. cbn [step] in H. unfold g_step in H. rewrite Eg in H.
    destruct (active (t_core t)); discriminate H.
  - (* GTimRecv *)
    apply map_opt_nil in H. cbn [step] in H. unfold g_step in H. rewrite Eg in H.
    rewrite (Hrecv eq_refl) in H. discriminate H.
  - apply map_opt_nil in H. cbn [step] in H. unfold g_step in H. rewrite Eg in H. discriminate H.
  - apply map_opt_nil in H. cbn [step] in H. unfold g_step in H. rewrite Eg in H. discriminate H.
  - destruct (step (sc_cfg sc) (t_core t) GStep) eqn:E; [discriminate H|].
    cbn [step] in E. unfold g_step in E. rewrite Eg in E. discriminate E.
  - apply map_opt_nil in H. cbn [step] in H. unfold g_step in H. rewrite Eg in H. discriminate H.
  - apply map_opt_nil in H. cbn [step] in H. unfold g_step in H. rewrite Eg, Hlock in H. discriminate H.
  - apply map_opt_nil in H. cbn [step] in H. unfold g_step in H. rewrite Eg in H. discriminate H.
  - apply map_opt_nil in H. cbn [step] in H. unfold g_step in H. rewrite Eg, Hlock in H. discriminate H.
Qed.

(* (3) every script, one-off or periodic, any calls at any instants, every interleaving: a state in which the
   script can end with a CancelJob that returned nil -- it may have arrived while the job waited, while an
   instance was in progress, after a run request had claimed the job --, no jobFunc in flight and no call
   stuck inside a state-lock section, is one in which the goroutine has returned and the name is free *)
Lemma script_cancel_exit_leaves_table : forall sc t, In t (finals sc) ->
    cancel_ok (t_core t) = true -> running (t_core t) = 0 -> lock_free (t_core t) = true ->
    g_pc (t_core t) = GDone /\ in_table (t_core t) = false
    /\ o_exists (outcome_of t) = false /\ o_reuse (outcome_of t) = Nil /\ o_reuse_runs (outcome_of t) = 1.
Proof.
  intros sc t Ht Hc Hrun Hlock.
  destruct (script_inv_holds sc t Ht) as [[sch Hsch] _].
  pose proof (exit_inv_all (sc_cfg sc) sch) as Hinv. rewrite <- Hsch in Hinv.
  unfold p_exit_inv in Hinv. apply andb_prop in Hinv as [Hinv Hdone]. apply andb_prop in Hinv as [Hbusy Hrecv].
  pose proof (cancel_inv_all (sc_cfg sc) sch) as Hci. rewrite <- Hsch in Hci.
  unfold p_cancel_inv in Hci. apply andb_prop in Hci as [_ Hsel]. rewrite Hc in Hsel.
  pose proof (finals_stuck sc t Ht) as Hst. unfold moves in Hst. apply app_eq_nil in Hst as [Hg _].
  assert (Hpc : g_pc (t_core t) = GDone).
  { destruct (g_stuck_ready sc (sc_end sc) t Hg) as [H|H].
    - intro E. rewrite E in Hsel. cbn in Hsel. exact Hsel.
    - exact Hlock.
    - intro E. rewrite E, Hlock in Hrecv. cbn in Hrecv. exact Hrecv.
    - exact H.
    - rewrite H, Hrun in Hbusy. discriminate Hbusy. }
  assert (Htab : in_table (t_core t) = false).
  { rewrite Hpc in Hdone. cbn in Hdone. apply negb_true_iff in Hdone. exact Hdone. }
  unfold outcome_of; cbn [o_exists o_reuse o_reuse_runs]. rewrite Htab. repeat split; assumption.
Qed.

(* the same for what the implementation was SEEN to do *)
Lemma checked_cancel_exit_leaves_table : forall c sc os, agree c = true -> c_body c = Timed sc os ->
    forall ob, In ob os -> ob_hung ob = false -> ob_running ob = 0 ->
    exists t, In t (finals sc) /\ running (t_core t) = 0
      /\ (cancel_ok (t_core t) = true -> lock_free (t_core t) = true ->
          o_exists (ob_out ob) = false /\ o_reuse (ob_out ob) = Nil /\ o_reuse_runs (ob_out ob) = 1).
Proof.
  intros c sc os Ha Hb ob Hob Hh Hr.
  pose proof (agree_timed c sc os Ha Hb ob Hob) as Hm.
  unfold obs_match in Hm. apply existsb_exists in Hm as [t [Ht Hm]]. rewrite Hh in Hm.
  apply andb_prop in Hm as [Hm Hrun]. apply N.eqb_eq in Hrun. rewrite Hr in Hrun.
  exists t. split; [exact Ht|]. split; [exact Hrun|]. intros Hc Hlock.
  destruct (script_cancel_exit_leaves_table sc t Ht Hc Hrun Hlock) as [_ [_ [He [Hu Hn]]]].
  unfold outcome_match in Hm. repeat (apply andb_prop in Hm as [Hm ?]).
  repeat match goal with
         | E : Bool.eqb _ _ = true |- _ => apply Bool.eqb_prop in E
         | E : (_ =? _) = true |- _ => apply N.eqb_eq in E
         | E : code_eqb _ _ = true |- _ => apply code_eqb_eq in E
         end.
  repeat split; congruence.
Qed.

(* (4) the table: CancelJobs with a prefix that exactly the names of [l] have *)
Lemma t_get_del : forall (t : table) n m, t_get (t_del t n) m = if m =? n then None else t_get t m.
Proof.
  intros t n m; unfold t_del; induction t as [|[n' j] t IH].
  - cbn. destruct (m =? n); reflexivity.
  - cbn [filter fst negb]. destruct (n' =? n) eqn:E; cbn [negb].
    + apply N.eqb_eq in E; subst n'. rewrite IH. cbn [t_get]. destruct (m =? n); reflexivity.
    + cbn [t_get]. rewrite IH. destruct (m =? n') eqn:E2; [|reflexivity].
      apply N.eqb_eq in E2; subst n'. rewrite E. reflexivity.
Qed.

Lemma t_del_absent : forall (t : table) n, t_get t n = None -> t_del t n = t.
Proof.
  intros t n; unfold t_del; induction t as [|[n' j] t IH]; intro E; [reflexivity|].
  cbn [t_get] in E. cbn [filter fst]. destruct (n =? n') eqn:E2; [discriminate E|].
  rewrite N.eqb_sym, E2. cbn [negb]. rewrite (IH E). reflexivity.
Qed.

Lemma fst_t_cancel : forall (t : table) n, fst (t_cancel t n) = t_del t n.
Proof.
  intros t n. unfold t_cancel. destruct (t_get t n) eqn:E; [reflexivity|]. cbn [fst].
  symmetry; apply t_del_absent; exact E.
Qed.

Lemma t_get_cancel_all : forall ns (t : table) m,
    t_get (fold_left (fun t n => fst (t_cancel t n)) ns t) m = if existsb (N.eqb m) ns then None else t_get t m.
Proof.
  induction ns as [|n ns IH]; intros t m; cbn; [reflexivity|].
  rewrite IH, fst_t_cancel, t_get_del. destruct (m =? n); cbn; destruct (existsb (N.eqb m) ns); reflexivity.
Qed.

Lemma t_get_in_list : forall (t : table) m, t_get t m <> None -> In m (t_list t).
Proof.
  induction t as [|[n j] t IH]; intros m H; cbn in *; [congruence|].
  destruct (m =? n) eqn:E; [left; apply N.eqb_eq in E; congruence | right; exact (IH m H)].
Qed.

(* exactly the listed names that have the prefix are gone, every other entry is untouched, no job function
   is called, no job is accepted *)
Lemma cancel_set_table : forall s l,
    let s' := fst (tb_step s (TCancelSet l)) in
    snd (tb_step s (TCancelSet l)) = TCode Nil
    /\ (forall m, t_get (tb_table s') m = if existsb (N.eqb m) l then None else t_get (tb_table s) m)
    /\ tb_runs s' = tb_runs s /\ tb_next s' = tb_next s.
Proof.
  intros s l s'. subst s'. cbn. split; [reflexivity|]. split; [|split; reflexivity].
  intro m. rewrite t_get_cancel_all.
  destruct (existsb (N.eqb m) l) eqn:El.
  - destruct (existsb (N.eqb m) (filter (fun n => existsb (N.eqb n) l) (t_list (tb_table s)))) eqn:E; [reflexivity|].
    destruct (t_get (tb_table s) m) eqn:Eg; [|reflexivity]. exfalso.
    assert (Hin : In m (filter (fun n => existsb (N.eqb n) l) (t_list (tb_table s)))).
    { apply filter_In. split; [apply t_get_in_list; congruence | exact El]. }
    assert (Hx : existsb (N.eqb m) (filter (fun n => existsb (N.eqb n) l) (t_list (tb_table s))) = true).
    { apply existsb_exists. exists m. split; [exact Hin | apply N.eqb_refl]. }
    congruence.
  - destruct (existsb (N.eqb m) (filter (fun n => existsb (N.eqb n) l) (t_list (tb_table s)))) eqn:E; [|reflexivity].
    exfalso. apply existsb_exists in E as [x [Hx Hmx]]. apply N.eqb_eq in Hmx; subst x.
    apply filter_In in Hx as [_ Hx]. congruence.
Qed.

(* (5) the clause of P_b: when the starts are justified by the instances and the run requests up to the
   instant [tc] of a cancellation alone, every start is at the time of an instance that is not after [tc], or
   has a run request issued no later than [tc] (and no later than the start); without such a request nothing
   starts after [tc] *)
Lemma cut_justified : forall dur sts insts runs tc,
    justified dur None sts (filter (fun L => L <=? tc) insts) (filter (fun r => r <=? tc) runs) = true ->
    (forall s, In s sts -> (In s insts /\ s <= tc) \/ (exists r, In r runs /\ r <= tc /\ r <= s))
    /\ ((forall r, In r runs -> tc < r) -> forall s, In s sts -> In s insts /\ s <= tc).
Proof.
  intros dur sts insts runs tc H. split.
  - intros s Hs.
    destruct (in_dec N.eq_dec s (filter (fun L => L <=? tc) insts)) as [Hi|Hn].
    + left. apply filter_In in Hi as [Hi Hle]. apply N.leb_le in Hle. auto.
    + right. destruct (justified_off_schedule _ _ _ _ _ H s Hs Hn) as [r [Hr Hle]].
      apply filter_In in Hr as [Hr Hrt]. apply N.leb_le in Hrt. exists r. auto.
  - intros Hlate s Hs.
    assert (E : filter (fun r => r <=? tc) runs = []).
    { clear H. induction runs as [|r runs IH]; [reflexivity|]. cbn.
      destruct (r <=? tc) eqn:Er.
      - apply N.leb_le in Er. specialize (Hlate r (or_introl eq_refl)). lia.
      - apply IH. intros r' Hr'. apply Hlate. right; exact Hr'. }
    clear Hlate. revert H. rewrite E. intro H.
    pose proof (justified_no_runs _ _ _ _ H s Hs) as Hi.
    apply filter_In in Hi as [Hi Hle]. apply N.leb_le in Hle. auto.
Qed.
