(* C20: the hand-written model equals the gotrans transcription of the pruning conditions of the bookkeeping maps
   (coq/Gen/Pure_C20.v, regenerated from the repository's source on every run).  When the Go source
   changes its meaning, a lemma here stops compiling and only C20's tie is affected. *)
From Coq Require Import ZArith NArith Lia Bool List.
From Coq Require Import ZifyBool ZifyN.
From Verif Require Import Lib.Base Lib.GoInt Proofs.TieLib Gen.Pure_C20.
From Verif Require Model.C20_Bookkeeping.
Local Open Scope Z_scope.

Lemma tie_housekeep_guard (e : N) : (1 <? e)%N = attester_housekeepGuard (Z.of_N e).
Proof. unfold attester_housekeepGuard. destruct (N.ltb_spec 1 e); lia. Qed.

Lemma tie_attested_kept (e y : N) : nu64 e -> (1 < e)%N ->
  (e - 1 <=? y)%N = negb (attester_attestedEpochStale (Z.of_N y) (Z.of_N e)).
Proof.
  intros He H1. unfold attester_attestedEpochStale.
  rewrite u64_id by (unfold nu64, in_u64, Base.two64, GoInt.two64 in *; lia).
  destruct (N.leb_spec (e - 1) y); lia.
Qed.

Lemma tie_subscription_kept (e k : N) : nu64 (k + 1) ->
  (e <=? k + 1)%N = negb (controller_subscriptionInfoStale (Z.of_N k) (Z.of_N e)).
Proof.
  intro Hk. unfold controller_subscriptionInfoStale.
  rewrite u64_id by (unfold nu64, in_u64, Base.two64, GoInt.two64 in *; lia).
  destruct (N.leb_spec e (k + 1)); lia.
Qed.

Lemma tie_root_kept (spe s k : N) : nu64 (k + spe) ->
  (s <=? k + spe)%N = negb (syncaggregator_rootStale (Z.of_N spe) (Z.of_N k) (Z.of_N s)).
Proof.
  intro Hk. unfold syncaggregator_rootStale.
  rewrite u64_id by (unfold nu64, in_u64, Base.two64, GoInt.two64 in *; lia).
  destruct (N.leb_spec s (k + spe)); lia.
Qed.

Lemma tie_bid_kept (s k : N) : nu64 (k + C20_Bookkeeping.bid_window) ->
  (s <=? k + C20_Bookkeeping.bid_window)%N = negb (blockrelay_cachedBidStale (Z.of_N k) (Z.of_N s) true).
Proof.
  unfold C20_Bookkeeping.bid_window. intro Hk. unfold blockrelay_cachedBidStale. cbn [andb].
  rewrite u64_id by (unfold nu64, in_u64, Base.two64, GoInt.two64 in *; lia).
  destruct (N.leb_spec s (k + 32)); lia.
Qed.

(* the whole pruning steps of the model, as filters by the transcribed conditions *)

Lemma tie_housekeep (e : N) (l : list N) : nu64 e ->
  C20_Bookkeeping.housekeep true e l =
  if attester_housekeepGuard (Z.of_N e)
  then filter (fun y => negb (attester_attestedEpochStale (Z.of_N y) (Z.of_N e))) l else l.
Proof.
  intro He. unfold C20_Bookkeeping.housekeep. rewrite <- tie_housekeep_guard.
  destruct (1 <? e)%N eqn:E; [|reflexivity].
  unfold C20_Bookkeeping.keep_ge. apply filter_ext. intro y. apply tie_attested_kept; [assumption | lia].
Qed.

Lemma tie_head_clean (e : N) (l : list N) : Forall (fun k => nu64 (k + 1)) l ->
  C20_Bookkeeping.head_clean true e l =
  filter (fun k => negb (controller_subscriptionInfoStale (Z.of_N k) (Z.of_N e))) l.
Proof.
  intro H. unfold C20_Bookkeeping.head_clean. apply filter_ext_in. intros k Hk.
  apply tie_subscription_kept. rewrite Forall_forall in H. exact (H k Hk).
Qed.
