(* C19: the five lookups of the model (Model/C19_Hierarchy.v: [timeout], [log_level],
   [process_concurrency], [hierarchical_bool], [beacon_node_addresses], all instances of [lookup_s])
   compute what the strtrans transcriptions of util/timeout.go, logging.go, concurrency.go,
   config.go and beaconnodeaddresses.go compute (coq/Gen/Str_C19.v, regenerated on every run).

   The transcriptions take the viper accessors as oracle parameters.  They are instantiated from the
   model's configuration the way the model reads it: viper.GetX(key) is the model's conversion
   [to_X] applied to [get c (split_dots key)] (viper splits the key at '.'). *)
From Coq Require Import String Ascii ZArith List Bool Lia PeanoNat DecimalString.
From Verif Require Import Lib.Base Lib.GoStr Model.C19_Hierarchy Proofs.C19 Gen.Str_C19.
Import ListNotations.
Local Open Scope string_scope.
Local Open Scope list_scope.

(* ------------------------------------------------------------------------------------------- *)
(* The oracles *)

(* viper.GetString: cast.ToString of the raw value (a string itself, an integer in decimal, a
   boolean as true/false; "" for nil, lists and maps) *)
Definition raw_string (r : raw) : string :=
  match r with
  | RStr s => s
  | RInt z => dec z
  | RBool b => if b then "true" else "false"
  | RNil | RList _ | RMap => ""
  end.

Definition cfg_get (c : config) (key : string) : raw := get c (split_dots key).
Definition cfg_duration (c : config) (key : string) : Z := to_duration (cfg_get c key).
Definition cfg_string (c : config) (key : string) : string := raw_string (cfg_get c key).
Definition cfg_int64 (c : config) (key : string) : Z := to_int64 (cfg_get c key).
Definition cfg_bool (c : config) (key : string) : bool := to_bool (cfg_get c key).
Definition cfg_slice (c : config) (key : string) : option (list string) := to_slice (cfg_get c key).

(* ------------------------------------------------------------------------------------------- *)
(* strings.LastIndex(path, ".") and path[0:i] are the model's [lop] *)

Lemma lop_last_index : forall s,
  match lop s with
  | Some t => last_index_nat s "." = Some (String.length t) /\ take (String.length t) s = t
  | None => last_index_nat s "." = None
  end.
Proof.
  induction s as [|a s IH]; [reflexivity|].
  cbn [lop]. destruct (lop s) as [t|] eqn:E.
  - destruct IH as [IH1 IH2]. cbn [last_index_nat]. rewrite IH1. split; [reflexivity|].
    cbn [String.length take]. rewrite IH2. reflexivity.
  - cbn [last_index_nat]. rewrite IH. cbn [has_prefix].
    unfold is_dot, dot. rewrite Ascii.eqb_sym.
    destruct (Ascii.eqb "."%char a); [split; reflexivity | reflexivity].
Qed.

Lemma last_index_lop_none : forall s, lop s = None -> last_index s "." = (-1)%Z.
Proof. intros s H. pose proof (lop_last_index s) as L. rewrite H in L. unfold last_index. rewrite L. reflexivity. Qed.

Lemma last_index_lop_some : forall s t, lop s = Some t ->
  last_index s "." = GoStr.len t /\ slice s 0 (GoStr.len t) = Some t.
Proof.
  intros s t H. pose proof (lop_last_index s) as L. rewrite H in L. destruct L as [L1 L2].
  pose proof (lop_length s t H) as Hlen.
  split; [unfold last_index; rewrite L1; reflexivity|].
  unfold slice, GoStr.len.
  replace ((0 <=? 0)%Z && (0 <=? Z.of_nat (String.length t))%Z && (Z.of_nat (String.length t) <=? Z.of_nat (String.length s))%Z) with true.
  - cbn [Z.to_nat drop]. rewrite Z.sub_0_r, Nat2Z.id, L2. reflexivity.
  - symmetry. rewrite !andb_true_iff, !Z.leb_le. lia.
Qed.

(* conversely: the cut of the model is at the last '.', in terms of the library alone *)
Lemma lop_is_cut_at_last_index : forall s,
  lop s = (if (last_index s "." =? -1)%Z then None else slice s 0 (last_index s ".")).
Proof.
  intro s. destruct (lop s) as [t|] eqn:E.
  - destruct (last_index_lop_some s t E) as [H1 H2]. rewrite H1.
    pose proof (GoStr.len_nonneg t). destruct (GoStr.len t =? -1)%Z eqn:C; [lia|]. symmetry. exact H2.
  - rewrite (last_index_lop_none s E). reflexivity.
Qed.

(* ------------------------------------------------------------------------------------------- *)
(* The model's fuel: any fuel above the length of the path gives the same result *)

Section Fuel.
  Context {V : Type}.
  Variable has : raw -> bool.
  Variable conv : raw -> V.
  Variable top : config -> V.
  Variable setting : comp.

  Lemma lookup_s_fuel_enough : forall n m c p,
    (String.length p < n)%nat -> (String.length p < m)%nat ->
    lookup_s_fuel has conv top setting n c p = lookup_s_fuel has conv top setting m c p.
  Proof.
    induction n as [|n IH]; intros m c p Hn Hm; [lia|].
    destruct m as [|m]; [lia|].
    cbn [lookup_s_fuel]. destruct p as [|a s]; [reflexivity|].
    destruct (has (get c (key_of (String a s) setting))); [reflexivity|].
    destruct (lop (String a s)) as [t|] eqn:E; [|reflexivity].
    pose proof (lop_length _ _ E). apply IH; lia.
  Qed.

  Lemma lookup_s_unfold : forall c a s,
    lookup_s has conv top setting c (String a s) =
      let r := get c (key_of (String a s) setting) in
      if has r then conv r
      else match lop (String a s) with
           | None => top c
           | Some t => lookup_s has conv top setting c t
           end.
  Proof.
    intros c a s. unfold lookup_s at 1. cbn [lookup_s_fuel]. cbv zeta.
    destruct (has (get c (key_of (String a s) setting))); [reflexivity|].
    destruct (lop (String a s)) as [t|] eqn:E; [|reflexivity].
    pose proof (lop_length _ _ E). unfold lookup_s. apply lookup_s_fuel_enough; lia.
  Qed.

  (* Any function with explicit fuel that satisfies the unfolding equation of the five
     transcriptions returns, with fuel above the length of the path, what the model returns: it
     neither panics nor runs out of fuel. *)
  Variable c : config.
  Variable F : nat -> string -> result V.
  Variable top' : result V.
  Variable has' : string -> bool.
  Variable conv' : string -> V.
  Hypothesis top_ok : top' = Ok (top c).
  Hypothesis has_ok : forall p, has' p = has (get c (key_of p setting)).
  Hypothesis conv_ok : forall p, conv' p = conv (get c (key_of p setting)).
  Hypothesis F_S : forall n p, F (S n) p =
    if String.eqb p "" then top'
    else if has' p then Ok (conv' p)
    else if (last_index p "." =? -1)%Z then F n ""
    else match slice p 0 (last_index p ".") with
         | None => Panic
         | Some t => F n t
         end.

  Lemma shape_tie : forall n p, (String.length p < n)%nat -> F n p = Ok (lookup_s has conv top setting c p).
  Proof.
    induction n as [|n IH]; intros p Hn; [lia|].
    rewrite F_S. destruct p as [|a s].
    - cbn [String.eqb]. exact top_ok.
    - cbn [String.eqb]. rewrite lookup_s_unfold. cbv zeta.
      rewrite has_ok, conv_ok.
      destruct (has (get c (key_of (String a s) setting))); [reflexivity|].
      destruct (lop (String a s)) as [t|] eqn:E.
      + destruct (last_index_lop_some _ _ E) as [H1 H2]. rewrite H1, H2.
        pose proof (GoStr.len_nonneg t). destruct (GoStr.len t =? -1)%Z eqn:C; [lia|].
        pose proof (lop_length _ _ E). apply IH. lia.
      + rewrite (last_index_lop_none _ E). cbn [Z.eqb].
        cbn [String.length] in Hn. rewrite IH by (cbn; lia). reflexivity.
  Qed.
End Fuel.

(* ------------------------------------------------------------------------------------------- *)
(* The "has a value" tests and conversions through viper.GetString *)

Lemma string_of_uint_head : forall d, exists a s,
  NilZero.string_of_uint d = String a s /\
  In a ["0"; "1"; "2"; "3"; "4"; "5"; "6"; "7"; "8"; "9"]%char.
Proof.
  destruct d; cbn [NilZero.string_of_uint NilEmpty.string_of_uint]; eexists; eexists; (split; [reflexivity|]); cbn; tauto.
Qed.

(* the decimal text of an integer starts with a digit or '-' *)
Lemma dec_head : forall z, exists a s,
  dec z = String a s /\ In a ["-"; "0"; "1"; "2"; "3"; "4"; "5"; "6"; "7"; "8"; "9"]%char.
Proof.
  intro z. unfold dec. destruct (Z.to_int z) as [d|d]; cbn [NilZero.string_of_int].
  - destruct (string_of_uint_head d) as [a [s [E H]]]. exists a, s. split; [exact E | right; exact H].
  - eexists; eexists. split; [reflexivity | left; reflexivity].
Qed.

Lemma str_nonempty_raw_string : forall r, negb (String.eqb (raw_string r) "") = str_nonempty r.
Proof.
  destruct r as [|s|z|b|l|]; cbn [raw_string str_nonempty]; try reflexivity.
  - destruct s; reflexivity.
  - destruct (dec_head z) as [a [s [E _]]]. rewrite E. reflexivity.
  - destruct b; reflexivity.
Qed.

(* stringToLevel(viper.GetString(key)) is the model's [level_of]: the text of a number or boolean is
   no level name *)
Lemma level_of_raw_string : forall def r, string_to_level def (raw_string r) = level_of def r.
Proof.
  intros def r. destruct r as [|s|z|b|l|]; cbn [raw_string level_of]; try reflexivity.
  - destruct (dec_head z) as [a [s [E H]]]. rewrite E.
    cbn [In] in H.
    repeat (destruct H as [<-|H]; [reflexivity|]). contradiction.
  - destruct b; reflexivity.
Qed.

Lemma addr_has_sl_len : forall r, (sl_len (to_slice r) >? 0)%Z = addr_has r.
Proof.
  intro r. unfold addr_has. destruct (to_slice r) as [[|x l]|]; reflexivity.
Qed.

Lemma key_of_literal : forall p setting, split_dots (String.append p (String "." setting)) = key_of p setting.
Proof. reflexivity. Qed.

(* ------------------------------------------------------------------------------------------- *)
(* The five ties: every string, every configuration, any fuel above the length of the path *)

Lemma tie_timeout : forall (c : config) (s : string) (fuel : nat), (String.length s < fuel)%nat ->
  Timeout_fuel (cfg_duration c) fuel s = Ok (timeout c s).
Proof.
  intros c s fuel H. unfold timeout.
  apply (shape_tie dur_has to_duration dur_top k_timeout c
           (fun n p => Timeout_fuel (cfg_duration c) n p)
           (Ok (dur_top c))
           (fun p => dur_has (get c (key_of p k_timeout)))
           (fun p => to_duration (get c (key_of p k_timeout)))); try reflexivity.
  exact H.
Qed.

Lemma tie_log_level : forall (def : Z) (c : config) (s : string) (fuel : nat), (String.length s < fuel)%nat ->
  LogLevel_fuel (string_to_level def) (cfg_string c) fuel s = Ok (log_level def c s).
Proof.
  intros def c s fuel H. unfold log_level.
  apply (shape_tie str_nonempty (level_of def) (level_top def) k_loglevel c
           (fun n p => LogLevel_fuel (string_to_level def) (cfg_string c) n p)
           (Ok (string_to_level def (cfg_string c "log-level")))
           (fun p => negb (String.eqb (cfg_string c (String.append p ".log-level")) ""))
           (fun p => string_to_level def (cfg_string c (String.append p ".log-level")))); try reflexivity.
  - unfold cfg_string, cfg_get, level_top. rewrite level_of_raw_string. reflexivity.
  - intro p. unfold cfg_string, cfg_get. rewrite str_nonempty_raw_string. reflexivity.
  - intro p. unfold cfg_string, cfg_get. rewrite level_of_raw_string. reflexivity.
  - exact H.
Qed.

Lemma tie_process_concurrency : forall (c : config) (s : string) (fuel : nat), (String.length s < fuel)%nat ->
  ProcessConcurrency_fuel (cfg_int64 c) (cfg_string c) fuel s = Ok (process_concurrency c s).
Proof.
  intros c s fuel H. unfold process_concurrency.
  apply (shape_tie str_nonempty to_int64 conc_top k_concurrency c
           (fun n p => ProcessConcurrency_fuel (cfg_int64 c) (cfg_string c) n p)
           (Ok (conc_top c))
           (fun p => negb (String.eqb (cfg_string c (String.append p ".process-concurrency")) ""))
           (fun p => to_int64 (get c (key_of p k_concurrency)))); try reflexivity.
  - intro p. unfold cfg_string, cfg_get. rewrite str_nonempty_raw_string. reflexivity.
  - exact H.
Qed.

Lemma tie_hierarchical_bool : forall (var : comp) (c : config) (s : string) (fuel : nat),
  dot_free var = true -> (String.length s < fuel)%nat ->
  HierarchicalBool_fuel (cfg_bool c) (cfg_string c) fuel var s = Ok (hierarchical_bool var c s).
Proof.
  intros var c s fuel Hv H. unfold hierarchical_bool.
  apply (shape_tie str_nonempty to_bool (bool_top var) var c
           (fun n p => HierarchicalBool_fuel (cfg_bool c) (cfg_string c) n var p)
           (Ok (cfg_bool c var))
           (fun p => negb (String.eqb (cfg_string c (String.append p (String.append "." var))) ""))
           (fun p => to_bool (get c (key_of p var)))); try reflexivity.
  - unfold cfg_bool, cfg_get, bool_top. rewrite (split_dots_dot_free var Hv). reflexivity.
  - intro p. unfold cfg_string, cfg_get. rewrite str_nonempty_raw_string. reflexivity.
  - exact H.
Qed.

Lemma tie_beacon_node_addresses : forall (c : config) (s : string) (fuel : nat), (String.length s < fuel)%nat ->
  BeaconNodeAddresses_fuel (cfg_slice c) fuel s = Ok (beacon_node_addresses c s).
Proof.
  intros c s fuel H. unfold beacon_node_addresses.
  apply (shape_tie addr_has to_slice addr_top k_addresses c
           (fun n p => BeaconNodeAddresses_fuel (cfg_slice c) n p)
           (if negb (sl_is_nil (cfg_slice c "beacon-node-addresses"))
            then Ok (cfg_slice c "beacon-node-addresses") else Ok (cfg_slice c "beacon-node-address"))
           (fun p => (sl_len (cfg_slice c (String.append p ".beacon-node-addresses")) >? 0)%Z)
           (fun p => to_slice (get c (key_of p k_addresses)))); try reflexivity.
  - unfold cfg_slice, cfg_get, addr_top.
    change (split_dots "beacon-node-addresses") with [k_addresses].
    change (split_dots "beacon-node-address") with [k_address].
    destruct (to_slice (get c [k_addresses])); reflexivity.
  - intro p. unfold cfg_slice, cfg_get. rewrite addr_has_sl_len. reflexivity.
  - exact H.
Qed.

(* ------------------------------------------------------------------------------------------- *)
(* Which component lists a dotted string stands for — every string, malformed ones included.

   The component list of a string is [split_dots s] (what viper makes of a key; [join_dots] is its
   inverse).  The Go recursion tries the string itself, then the string cut at its last '.', and so
   on, until the string is "" (read as the top level).  In components: it tries the prefixes of
   [split_dots s], longest first — all of them except the one prefix whose dotted form is "", that
   is the one-component prefix [""] of a string that starts with '.' (and of "" itself).  So
     "a.b"  tries [a;b], [a]          "a."  tries [a;""], [a]        "a..b" tries [a;"";b], [a;""], [a]
     ".a"   tries ["";a] only         "."   tries ["";""] only        ""     tries nothing
   and then reads the top level. *)

Definition nonempty_join (q : path) : bool := negb (String.eqb (join_dots q) "").

(* the levels the Go functions examine for the path string s, in the order of examination *)
Definition examined (s : string) : list path := rev (filter nonempty_join (prefixes (split_dots s))).

Lemma split_dots_snoc : forall s x, dot_free x = true ->
  split_dots (String.append s (String dot x)) = split_dots s ++ [x].
Proof.
  induction s as [|a s IH]; intros x Hx.
  - cbn [String.append split_dots]. rewrite is_dot_dot, (split_dots_dot_free x Hx). reflexivity.
  - cbn [String.append split_dots]. rewrite (IH x Hx).
    destruct (is_dot a); [reflexivity|].
    pose proof (split_dots_nonempty s) as Hne.
    destruct (split_dots s) as [|y l]; [congruence | reflexivity].
Qed.

Lemma lop_none_dot_free : forall s, lop s = None -> dot_free s = true.
Proof.
  induction s as [|a s IH]; intro H; [reflexivity|].
  cbn [lop] in H. destruct (lop s) as [t|]; [discriminate|].
  destruct (is_dot a) eqn:Ha; [discriminate|].
  cbn [dot_free]. rewrite Ha, IH by reflexivity. reflexivity.
Qed.

Lemma lop_some_inv : forall s t, lop s = Some t ->
  exists x, dot_free x = true /\ s = String.append t (String dot x).
Proof.
  induction s as [|a s IH]; intros t H; [discriminate|].
  cbn [lop] in H. destruct (lop s) as [t'|] eqn:E.
  - injection H as <-. destruct (IH t' eq_refl) as [x [Hx ->]]. exists x. split; [exact Hx | reflexivity].
  - destruct (is_dot a) eqn:Ha; [|discriminate]. injection H as <-.
    apply Ascii.eqb_eq in Ha. subst a. exists s. split; [apply lop_none_dot_free, E | reflexivity].
Qed.

Lemma prefixes_snoc : forall (p : path) x, prefixes (p ++ [x]) = prefixes p ++ [p ++ [x]].
Proof.
  intros p x. unfold prefixes. rewrite app_length. cbn [List.length]. rewrite Nat.add_1_r, seq_S, map_app.
  cbn [map Nat.add]. f_equal.
  - apply map_ext_in. intros k Hk. apply in_seq in Hk. rewrite firstn_app.
    replace (k - List.length p)%nat with 0%nat by lia. cbn [firstn]. apply app_nil_r.
  - replace (S (List.length p)) with (List.length (p ++ [x])) by (rewrite app_length; cbn; lia).
    rewrite firstn_all. reflexivity.
Qed.

Lemma filter_all {A} (f : A -> bool) : forall l, (forall x, In x l -> f x = true) -> filter f l = l.
Proof.
  induction l as [|x l IH]; intro H; [reflexivity|].
  cbn [filter]. rewrite (H x (or_introl eq_refl)), IH; [reflexivity|].
  intros y Hy. apply H. right. exact Hy.
Qed.

Lemma examined_empty : examined "" = [].
Proof. reflexivity. Qed.

Lemma examined_dot_free : forall a s, dot_free (String a s) = true -> examined (String a s) = [[String a s]].
Proof. intros a s H. unfold examined. rewrite (split_dots_dot_free _ H). reflexivity. Qed.

Lemma examined_cut : forall s t, lop s = Some t -> examined s = split_dots s :: examined t.
Proof.
  intros s t H. destruct (lop_some_inv s t H) as [x [Hx ->]].
  unfold examined. rewrite split_dots_snoc by exact Hx.
  rewrite prefixes_snoc, filter_app, rev_app_distr. cbn [filter].
  match goal with |- context [if nonempty_join ?q then _ else _] => assert (Hj : nonempty_join q = true) end.
  { unfold nonempty_join. rewrite <- split_dots_snoc by exact Hx. rewrite join_split.
    destruct t; reflexivity. }
  rewrite Hj. reflexivity.
Qed.

Section Levels.
  Context {V : Type}.
  Variable has : raw -> bool.
  Variable conv : raw -> V.
  Variable top : config -> V.
  Variable setting : comp.
  Hypothesis setting_dot_free : dot_free setting = true.

  (* the first of the given levels that has a value decides; the top level if none has *)
  Definition lookup_over (c : config) (levels : list path) : V :=
    match find (valued has setting c) levels with
    | Some q => conv (get c (q ++ [setting]))
    | None => top c
    end.

  Lemma lookup_s_examined : forall c s,
    lookup_s has conv top setting c s = lookup_over c (examined s).
  Proof.
    intros c s. remember (String.length s) as n eqn:Hn.
    assert (Hle : (String.length s <= n)%nat) by lia. clear Hn. revert s Hle.
    induction n as [|n IH]; intros s Hle.
    - destruct s; [reflexivity | cbn in Hle; lia].
    - destruct s as [|a s]; [reflexivity|].
      rewrite lookup_s_unfold. cbv zeta. unfold key_of.
      rewrite split_dots_snoc by exact setting_dot_free.
      destruct (lop (String a s)) as [t|] eqn:E.
      + rewrite (examined_cut _ _ E). unfold lookup_over. cbn [find]. unfold valued at 1. unfold comp, path in *.
        destruct (has (get c (split_dots (String a s) ++ [setting]))); [reflexivity|].
        pose proof (lop_length _ _ E) as Hlt. apply IH. cbn [String.length] in *. lia.
      + pose proof (lop_none_dot_free _ E) as Hdf. rewrite (examined_dot_free _ _ Hdf).
        rewrite (split_dots_dot_free _ Hdf). unfold lookup_over. cbn [find]. unfold valued. unfold comp, path in *.
        destruct (has (get c ([String a s] ++ [setting]))); reflexivity.
  Qed.

End Levels.

(* for a string that does not start with '.', these are all the non-empty prefixes of the path it
   denotes: the component lookup *)
Lemma examined_proper : forall s, proper_path s -> examined s = rev (prefixes (path_of_string s)).
Proof.
  intros s H. destruct s as [|a s]; [reflexivity|].
  unfold examined, path_of_string. f_equal.
  cbn [proper_path] in H.
  apply filter_all. intros q Hq.
  unfold prefixes in Hq. apply in_map_iff in Hq as [k [<- Hk]]. apply in_seq in Hk.
  unfold nonempty_join. apply negb_true_iff. apply String.eqb_neq. unfold comp, path in *.
  assert (Hhd : exists y l, firstn k (split_dots (String a s)) = String a y :: l).
  { cbn [split_dots]. rewrite H. pose proof (split_dots_nonempty s) as Hne.
    destruct (split_dots s) as [|y l]; [congruence|].
    destruct k as [|k]; [lia|]. cbn [firstn]. eauto. }
  destruct Hhd as [y [l ->]]. apply join_nonempty. discriminate.
Qed.

(* ------------------------------------------------------------------------------------------- *)
(* Component paths: the transcriptions on the dotted form of a well-formed path return the
   reference (the value at the longest prefix that has one). *)
Lemma tie_component_paths :
  forall (def : Z) (var : comp) (c : config) (p : path) (fuel : nat),
    wf_path p -> dot_free var = true -> (String.length (join_dots p) < fuel)%nat ->
    Timeout_fuel (cfg_duration c) fuel (join_dots p) = Ok (timeout_ref c p) /\
    LogLevel_fuel (string_to_level def) (cfg_string c) fuel (join_dots p) = Ok (log_level_ref def c p) /\
    ProcessConcurrency_fuel (cfg_int64 c) (cfg_string c) fuel (join_dots p) = Ok (concurrency_ref c p) /\
    HierarchicalBool_fuel (cfg_bool c) (cfg_string c) fuel var (join_dots p) = Ok (bool_ref var c p) /\
    BeaconNodeAddresses_fuel (cfg_slice c) fuel (join_dots p) = Ok (addresses_ref c p).
Proof.
  intros def var c p fuel Hwf Hv Hfuel.
  rewrite tie_timeout, tie_log_level, tie_process_concurrency, tie_hierarchical_bool, tie_beacon_node_addresses
    by assumption.
  unfold timeout, log_level, process_concurrency, hierarchical_bool, beacon_node_addresses,
         timeout_ref, log_level_ref, concurrency_ref, bool_ref, addresses_ref.
  rewrite !lookup_s_join by (reflexivity || assumption).
  rewrite <- !lookup_eq_reference. repeat split.
Qed.
