(* C05 lemmas. *)
From Verif Require Import Lib.Base Model.C05_Proposer.

Lemma stop_no_submit : forall e evs, o_submit (stop e evs) = None.
Proof. reflexivity. Qed.
