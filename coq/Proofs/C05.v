(* C05 lemmas: the proposer model (Model/C05_Proposer.v). *)
From Verif Require Import Lib.Base Model.C05_Proposer.
From Coq Require Import ZifyBool ZifyN ZifyNat.

Local Open Scope N_scope.

(* ------------------------------------------------------------------------------------------- *)
(* small list facts *)

Lemma in_snoc {A} (x y : A) l : In x (l ++ [y]) <-> In x l \/ x = y.
Proof. rewrite in_app_iff; cbn; intuition. Qed.

Definition count_if {A} (f : A -> bool) (l : list A) : nat := length (filter f l).

Lemma count_if_app {A} (f : A -> bool) l1 l2 : count_if f (l1 ++ l2) = (count_if f l1 + count_if f l2)%nat.
Proof. unfold count_if; rewrite filter_app, app_length; reflexivity. Qed.

Lemma count_if_none {A} (f : A -> bool) l : (forall x, In x l -> f x = false) -> count_if f l = 0%nat.
Proof.
  unfold count_if; induction l as [|x l IH]; cbn; intro H; [reflexivity|].
  rewrite (H x (or_introl eq_refl)). apply IH; intros y Hy; apply H; right; exact Hy.
Qed.

(* ------------------------------------------------------------------------------------------- *)
(* event classes *)

Definition is_sign_block (ev : event) : bool :=
  match ev with ESignBlock _ _ _ _ _ _ _ => true | _ => false end.
Definition is_sign_randao (ev : event) : bool :=
  match ev with ESignRandao _ _ _ => true | _ => false end.
Definition is_proposal (ev : event) : bool :=
  match ev with EProposal _ _ _ _ => true | _ => false end.

Lemma graffiti_events_class : forall e d ev, In ev (graffiti_events e d) -> exists s v, ev = EGraffiti s v.
Proof.
  intros e d ev; unfold graffiti_events; destruct (e_graffiti e); cbn; intros H;
    try contradiction; destruct H as [<-|[]]; eauto.
Qed.

Lemma auction_events_class : forall e d a ev, In ev (auction_events e d a) -> exists s h p, ev = EAuction s h p.
Proof.
  intros e d a ev; unfold auction_events; destruct (e_auction e); cbn; intros H;
    try contradiction; destruct H as [<-|[]]; eauto.
Qed.

(* the requests made up to and including the one to the beacon node *)
Definition upto_proposal (c : config) (e : env) (d : duty) (acct : N) : list event :=
  (graffiti_events e d ++ auction_events e d acct)
    ++ [EProposal (d_slot d) (d_randao d) (graffiti_value e) (c_boost c)].

Lemma upto_proposal_no_sign : forall c e d acct ev,
  In ev (upto_proposal c e d acct) -> is_sign_block ev = false /\ is_sign_randao ev = false.
Proof.
  intros c e d acct ev; unfold upto_proposal; rewrite in_snoc, in_app_iff.
  intros [[H|H]| ->]; [apply graffiti_events_class in H as (?&?&->)
                      | apply auction_events_class in H as (?&?&?&->) |]; split; reflexivity.
Qed.

Lemma upto_proposal_count_proposal : forall c e d acct, count_if is_proposal (upto_proposal c e d acct) = 1%nat.
Proof.
  intros; unfold upto_proposal; rewrite !count_if_app.
  rewrite (count_if_none is_proposal (graffiti_events e d)), (count_if_none is_proposal (auction_events e d acct)).
  - reflexivity.
  - intros x H; apply auction_events_class in H as (?&?&?&->); reflexivity.
  - intros x H; apply graffiti_events_class in H as (?&?&->); reflexivity.
Qed.

(* ------------------------------------------------------------------------------------------- *)
(* sign_phase *)

(* the proposal can be signed for this duty: the library lets vouch read its slot and roots, and the
   slot is the duty's *)
Definition signable (e : env) (d : duty) (p : proposal) (h : hdr) : Prop :=
  e_proposal e = POk p /\ known_version (p_version p) = true /\ p_block p = Some h
  /\ h_slot h = d_slot d /\ p_body_present p = true.

Definition sign_block_event (c : config) (d : duty) (acct : N) (h : hdr) : event :=
  ESignBlock acct (d_slot d) (d_validator d) (h_parent h) (h_state h) (h_body h)
             (DOMAIN_BEACON_PROPOSER, d_slot d / c_spe c).

Definition signed_proposal (p : proposal) (h : hdr) (sig code : N) : sproposal :=
  {| sp_version := p_version p; sp_blinded := p_blinded p;
     sp_conts := [(code, {| sb_hdr := Some h; sb_sig := sig; sb_blobs := signed_blobs p |})] |}.

(* the possible courses of sign_phase *)
Inductive sign_course (c : config) (e : env) (d : duty) : list event * option (proposal * sproposal) -> Prop :=
| SC_unready : d_randao d = 0 \/ d_account d = None -> sign_course c e d ([], None)
| SC_refused acct :
    d_randao d <> 0 -> d_account d = Some acct ->
    (forall p h, ~ signable e d p h) ->
    sign_course c e d (upto_proposal c e d acct, None)
| SC_no_domain acct p h :
    d_randao d <> 0 -> d_account d = Some acct -> signable e d p h -> e_dom_block e = false ->
    sign_course c e d (upto_proposal c e d acct ++ [EDomain DOMAIN_BEACON_PROPOSER (d_slot d / c_spe c)], None)
| SC_sign_failed acct p h :
    d_randao d <> 0 -> d_account d = Some acct -> signable e d p h -> e_dom_block e = true ->
    e_sig_block e = None \/ signed_container (p_version p) (p_blinded p) = None ->
    sign_course c e d ((upto_proposal c e d acct ++ [EDomain DOMAIN_BEACON_PROPOSER (d_slot d / c_spe c)])
                         ++ [sign_block_event c d acct h], None)
| SC_signed acct p h sig code :
    d_randao d <> 0 -> d_account d = Some acct -> signable e d p h -> e_dom_block e = true ->
    e_sig_block e = Some sig -> signed_container (p_version p) (p_blinded p) = Some code ->
    sign_course c e d ((upto_proposal c e d acct ++ [EDomain DOMAIN_BEACON_PROPOSER (d_slot d / c_spe c)])
                         ++ [sign_block_event c d acct h], Some (p, signed_proposal p h sig code)).

Lemma proposal_slot_some : forall p s, proposal_slot p = Some s ->
  known_version (p_version p) = true /\ exists h, p_block p = Some h /\ h_slot h = s.
Proof.
  intros p s; unfold proposal_slot. destruct (known_version (p_version p)); [|discriminate].
  destruct (p_block p) as [h|]; [|discriminate]. intro H; injection H as <-. split; [reflexivity|eauto].
Qed.

Lemma sign_phase_course : forall c e d, sign_course c e d (sign_phase c e d).
Proof.
  intros c e d. unfold sign_phase.
  destruct (d_randao d =? 0) eqn:Hr; [apply SC_unready; left; lia|].
  assert (Hr' : d_randao d <> 0) by lia.
  destruct (d_account d) as [acct|] eqn:Ha; [|apply SC_unready; right; exact Ha].
  fold (upto_proposal c e d acct).
  destruct (e_proposal e) as [|p] eqn:Hp.
  { apply SC_refused; auto. intros p h (H&_); congruence. }
  destruct (proposal_slot p) as [ps|] eqn:Hs.
  2:{ apply SC_refused; auto. intros p' h (H&Hk&Hb&_). rewrite Hp in H; injection H as <-.
      unfold proposal_slot in Hs. rewrite Hk, Hb in Hs. discriminate. }
  apply proposal_slot_some in Hs as (Hk & h & Hb & Hhs).
  destruct (ps =? d_slot d) eqn:Hsl; cbn [negb].
  2:{ apply SC_refused; auto. intros p' h' (H&_&Hb'&Hs'&_). rewrite Hp in H; injection H as <-.
      rewrite Hb in Hb'; injection Hb' as <-. lia. }
  rewrite Hb.
  destruct (p_body_present p) eqn:Hbody; cbn [negb].
  2:{ apply SC_refused; auto. intros p' h' (H&_&_&_&Hbp). rewrite Hp in H; injection H as <-. congruence. }
  assert (Hsig : signable e d p h) by (repeat split; auto; lia).
  destruct (e_dom_block e) eqn:Hd; cbn [negb].
  2:{ eapply SC_no_domain; eauto. }
  fold (sign_block_event c d acct h).
  destruct (e_sig_block e) as [sig|] eqn:Hsg.
  2:{ eapply SC_sign_failed; eauto. }
  destruct (signed_container (p_version p) (p_blinded p)) as [code|] eqn:Hc.
  2:{ eapply SC_sign_failed; eauto. }
  fold (signed_proposal p h sig code). eapply SC_signed; eauto.
Qed.

Lemma signable_fun : forall e d p h p' h', signable e d p h -> signable e d p' h' -> p = p' /\ h = h'.
Proof.
  intros e d p h p' h' (H1&_&H2&_) (H1'&_&H2'&_). rewrite H1 in H1'; injection H1' as <-.
  rewrite H2 in H2'; injection H2' as <-. auto.
Qed.

(* ------------------------------------------------------------------------------------------- *)
(* one relay's calls *)

(* what the k-th call to a relay is answered, and after how long (an exhausted script answers with
   an error at once: the harness's mock does the same) *)
Definition script_nth (script : list (N * uout)) (k : nat) : N * uout := nth k script (0, UErr).

Lemma free_calls_nth : forall dl n start script k cl,
  nth_error (free_calls dl n start script) k = Some cl ->
  (k < n)%nat
  /\ k_out cl = snd (script_nth script k)
  /\ k_finish cl = finish_of dl (k_start cl) (fst (script_nth script k)) (k_out cl)
  /\ start <= k_start cl.
Proof.
  intros dl n; induction n as [|n IH]; intros start script k cl H; cbn [free_calls] in H.
  - destruct k; discriminate.
  - destruct script as [|[l o] rest].
    + destruct k as [|k]; cbn [nth_error] in H.
      * injection H as <-. cbn. repeat split; try lia.
      * cbn [is_retry] in H. apply IH in H as (H1&H2&H3&H4).
        unfold script_nth in *. destruct k; cbn in *; repeat split; try lia; auto.
    + destruct k as [|k]; cbn [nth_error] in H.
      * injection H as <-. cbn. repeat split; try lia.
      * destruct (is_retry o); [|destruct k; discriminate].
        apply IH in H as (H1&H2&H3&H4). unfold script_nth in *; cbn [nth].
        repeat split; try lia; auto.
        assert (start <= finish_of dl start l o) by (unfold finish_of; destruct o; lia).
        unfold retry_ms in H4. lia.
Qed.

Lemma free_calls_length : forall dl n start script, (length (free_calls dl n start script) <= n)%nat.
Proof.
  intros dl n; induction n as [|n IH]; intros start script; cbn [free_calls]; [cbn; lia|].
  destruct script as [|[l o] rest]; cbn [length is_retry].
  - specialize (IH (finish_of dl start 0 UErr + retry_ms) []). lia.
  - destruct (is_retry o); cbn [length]; [|lia].
    specialize (IH (finish_of dl start l o + retry_ms) rest). lia.
Qed.

Lemma finish_ge_start : forall dl start l o, start <= finish_of dl start l o.
Proof. intros; unfold finish_of; destruct o; lia. Qed.

(* a later call starts (250 ms) after the earlier one has returned *)
Lemma free_calls_order : forall dl n start script i j ci cj,
  nth_error (free_calls dl n start script) i = Some ci ->
  nth_error (free_calls dl n start script) j = Some cj ->
  (i < j)%nat -> k_finish ci < k_start cj.
Proof.
  intros dl n; induction n as [|n IH]; intros start script i j ci cj Hi Hj Hij; cbn [free_calls] in *.
  - destruct i; discriminate.
  - destruct script as [|[l o] rest].
    + destruct j as [|j]; [lia|]. cbn [nth_error is_retry] in Hj.
      destruct i as [|i]; cbn [nth_error] in Hi.
      * injection Hi as <-. apply free_calls_nth in Hj as (_&_&_&H). cbn [k_finish]. unfold retry_ms, finish_of in *. lia.
      * cbn [is_retry] in Hi. eapply IH; eauto; lia.
    + destruct j as [|j]; [lia|]. cbn [nth_error] in Hj.
      destruct (is_retry o); [|destruct j; discriminate].
      destruct i as [|i]; cbn [nth_error] in Hi.
      * injection Hi as <-. apply free_calls_nth in Hj as (_&_&_&H). cbn [k_finish]. unfold retry_ms in H. exact (N.lt_le_trans _ _ _ (N.lt_add_pos_r 250 _ eq_refl) H).
      * eapply IH; eauto; lia.
Qed.

Lemma cut_prefix : forall w cs k cl, nth_error (cut w cs) k = Some cl -> nth_error cs k = Some cl.
Proof.
  intros w cs; induction cs as [|c0 cs IH]; intros k cl H; cbn [cut] in H; [destruct k; discriminate|].
  destruct k as [|k]; cbn [nth_error] in *; [exact H|].
  destruct (sem_free w (k_finish c0)); [apply IH; exact H | destruct k; discriminate].
Qed.

Lemma cut_length : forall w cs, (length (cut w cs) <= length cs)%nat.
Proof.
  intros w cs; induction cs as [|c0 cs IH]; cbn [cut length]; [lia|].
  destruct (sem_free w (k_finish c0)); cbn [length]; lia.
Qed.

(* every call that returned before the flag was set is followed by the next one *)
Lemma cut_keeps : forall w cs k cl,
  nth_error cs k = Some cl ->
  (forall j cj, (j < k)%nat -> nth_error cs j = Some cj -> sem_free w (k_finish cj) = true) ->
  nth_error (cut w cs) k = Some cl.
Proof.
  intros w cs; induction cs as [|c0 cs IH]; intros k cl H Hall; [destruct k; discriminate|].
  cbn [cut]. destruct k as [|k]; cbn [nth_error] in *; [exact H|].
  rewrite (Hall 0%nat c0) by (try lia; reflexivity).
  apply IH; [exact H|]. intros j cj Hj Hn. apply (Hall (S j) cj); [lia|exact Hn].
Qed.

Lemma find_nth {A} (f : A -> bool) l x : find f l = Some x -> exists k, nth_error l k = Some x /\ f x = true.
Proof.
  induction l as [|y l IH]; cbn; [discriminate|].
  destruct (f y) eqn:E.
  - intro H; injection H as <-. exists 0%nat; auto.
  - intro H; apply IH in H as (k&Hk&Hf). exists (S k); auto.
Qed.

Lemma find_none_all {A} (f : A -> bool) l : find f l = None -> forall x, In x l -> f x = false.
Proof. intros H x Hx. eapply find_none; eauto. Qed.

Lemma delivery_some : forall cs t, delivery cs = Some t ->
  exists k cl, nth_error cs k = Some cl /\ is_ok (k_out cl) = true /\ k_finish cl = t.
Proof.
  intros cs t; unfold delivery. destruct (find (fun k => is_ok (k_out k)) cs) as [cl|] eqn:E; [|discriminate].
  intro H; injection H as <-. apply find_nth in E as (k&Hk&Hok). eauto.
Qed.

(* ------------------------------------------------------------------------------------------- *)
(* all relays *)

Lemma plans_from_nth : forall dl cands rs i0 j cs,
  nth_error (plans_from dl cands i0 rs) j = Some cs ->
  exists r, nth_error rs j = Some r /\ cs = relay_plan dl cands (i0 + j) r.
Proof.
  intros dl cands rs; induction rs as [|r rs IH]; intros i0 j cs H; cbn [plans_from] in H.
  - destruct j; discriminate.
  - destruct j as [|j]; cbn [nth_error] in *.
    + injection H as <-. exists r. rewrite Nat.add_0_r. auto.
    + apply IH in H as (r'&Hr&->). exists r'. split; [exact Hr|]. f_equal. lia.
Qed.

Lemma plans_from_nth_some : forall dl cands rs i0 j r,
  nth_error rs j = Some r -> nth_error (plans_from dl cands i0 rs) j = Some (relay_plan dl cands (i0 + j) r).
Proof.
  intros dl cands rs; induction rs as [|r0 rs IH]; intros i0 j r H; [destruct j; discriminate|].
  destruct j as [|j]; cbn [nth_error plans_from] in *.
  - injection H as ->. rewrite Nat.add_0_r. reflexivity.
  - rewrite (IH (S i0) j r H). f_equal. f_equal. lia.
Qed.

Lemma plans_from_length : forall dl cands rs i0, length (plans_from dl cands i0 rs) = length rs.
Proof. intros dl cands rs; induction rs as [|r rs IH]; intros i0; cbn; [reflexivity|]. rewrite IH; reflexivity. Qed.

Lemma relay_plan_nonempty : forall dl cands i r cl k,
  nth_error (relay_plan dl cands i r) k = Some cl ->
  In i cands /\ r_can r = true /\ relay_plan dl cands i r = free_calls dl relay_tries 0 (r_script r).
Proof.
  intros dl cands i r cl k; unfold relay_plan.
  destruct (existsb (Nat.eqb i) cands) eqn:E; cbn [andb]; [|destruct k; discriminate].
  destruct (r_can r); [|destruct k; discriminate].
  intros _. apply existsb_exists in E as (x&Hx&He). apply Nat.eqb_eq in He; subst x. auto.
Qed.

Lemma omin_some : forall a b t, omin a b = Some t -> (a = Some t /\ forall u, b = Some u -> t <= u) \/ (b = Some t /\ forall u, a = Some u -> t <= u).
Proof.
  intros [x|] [y|] t; cbn; intro H; try discriminate; injection H as <-.
  - destruct (N.min_spec x y) as [[? ->]|[? ->]]; [left|right]; split; auto; intros u Hu; injection Hu as <-; lia.
  - left; split; auto; intros; discriminate.
  - right; split; auto; intros; discriminate.
Qed.

(* the first delivery is some relay's delivery and no relay delivers earlier *)
Lemma first_delivery_some : forall plans t, first_delivery plans = Some t ->
  (exists j cs, nth_error plans j = Some cs /\ delivery cs = Some t)
  /\ (forall j cs u, nth_error plans j = Some cs -> delivery cs = Some u -> t <= u).
Proof.
  induction plans as [|cs plans IH]; intros t H; cbn [first_delivery fold_right] in H; [discriminate|].
  fold (first_delivery plans) in H.
  apply omin_some in H as [[Hd Hle]|[Hd Hle]].
  - split; [exists 0%nat, cs; auto|].
    intros [|j] cs' u Hn Hu; cbn [nth_error] in Hn.
    + injection Hn as <-. rewrite Hd in Hu; injection Hu as <-; lia.
    + destruct (first_delivery plans) as [w|] eqn:Ew.
      * destruct (IH w eq_refl) as (_&Hmin). specialize (Hle w eq_refl). specialize (Hmin j cs' u Hn Hu). lia.
      * (* no delivery among the others: contradiction with Hu *)
        exfalso. clear -Ew Hn Hu. revert j Hn; induction plans as [|c0 pl IHp]; intros j Hn; [destruct j; discriminate|].
        cbn [first_delivery fold_right] in Ew. fold (first_delivery pl) in Ew.
        destruct j as [|j]; cbn [nth_error] in Hn.
        -- injection Hn as ->. rewrite Hu in Ew. destruct (first_delivery pl); discriminate.
        -- destruct (delivery c0); [destruct (first_delivery pl); discriminate|]. cbn in Ew. eapply IHp; eauto.
  - destruct (IH t Hd) as ((j&cs'&Hn&Hdl)&Hmin). split; [exists (S j), cs'; auto|].
    intros [|j'] cs'' u Hn' Hu; cbn [nth_error] in Hn'.
    + injection Hn' as <-. apply Hle; exact Hu.
    + eapply Hmin; eauto.
Qed.

Lemma first_delivery_none : forall plans, first_delivery plans = None ->
  forall j cs, nth_error plans j = Some cs -> delivery cs = None.
Proof.
  induction plans as [|c0 pl IH]; intros H j cs Hn; [destruct j; discriminate|].
  cbn [first_delivery fold_right] in H. fold (first_delivery pl) in H.
  destruct (delivery c0) eqn:E0; [destruct (first_delivery pl); discriminate|]. cbn in H.
  destruct j as [|j]; cbn [nth_error] in Hn; [injection Hn as <-; exact E0 | eapply IH; eauto].
Qed.

(* the answer that wins: an OK answer of a relay's planned call that returns at the first delivery *)
Lemma winning_out_some : forall plans t, first_delivery plans = Some t ->
  exists j cs k cl, nth_error plans j = Some cs /\ nth_error cs k = Some cl
    /\ is_ok (k_out cl) = true /\ k_finish cl = t /\ winning_out t plans = Some (k_out cl).
Proof.
  intros plans t H. destruct (first_delivery_some _ _ H) as ((j&cs&Hn&Hd)&_).
  unfold winning_out.
  destruct (find (fun cs0 => match delivery cs0 with Some t0 => t0 =? t | None => false end) plans) as [cs'|] eqn:Ef.
  - apply find_nth in Ef as (j'&Hn'&Hd').
    destruct (delivery cs') as [t'|] eqn:Ed; [|discriminate]. apply N.eqb_eq in Hd'; subst t'.
    unfold delivery in Ed. destruct (find (fun k => is_ok (k_out k)) cs') as [cl|] eqn:Ek; [|discriminate].
    injection Ed as Ed. apply find_nth in Ek as (k&Hk&Hok). exists j', cs', k, cl. auto.
  - exfalso. apply nth_error_In in Hn. apply (find_none_all _ _ Ef) in Hn. rewrite Hd, N.eqb_refl in Hn. discriminate.
Qed.

(* ------------------------------------------------------------------------------------------- *)
(* deliver_phase *)

Lemma no_calls_nth : forall e i l, nth_error (no_calls e) i = Some l -> l = [].
Proof.
  intros e i l H; unfold no_calls in H. rewrite nth_error_map in H.
  destruct (nth_error (e_relays e) i); cbn in H; congruence.
Qed.

Lemma deliver_events : forall c e evs sp, o_events (deliver_phase c e evs sp) = evs.
Proof.
  intros; unfold deliver_phase.
  destruct (negb (sp_blinded sp)); [reflexivity|].
  destruct (auction_results e) as [[w a]|]; [|reflexivity].
  destruct (negb (existsb (can_unblind e) (candidates c w a))); [reflexivity|].
  cbv zeta. destruct (first_delivery _) as [t|]; [|reflexivity].
  destruct (t <? e_deadline e); [|reflexivity].
  destruct (full_container (sp_version sp)); reflexivity.
Qed.

Lemma propose_events : forall c e d, o_events (propose c e d) = fst (sign_phase c e d).
Proof.
  intros; unfold propose. destruct (sign_phase c e d) as [evs [[p sp]|]]; cbn [fst]; [apply deliver_events|reflexivity].
Qed.

Lemma deliver_no_panic : forall c e evs sp, o_panic (deliver_phase c e evs sp) = false.
Proof.
  intros; unfold deliver_phase.
  destruct (negb (sp_blinded sp)); [reflexivity|].
  destruct (auction_results e) as [[w a]|]; [|reflexivity].
  destruct (negb (existsb (can_unblind e) (candidates c w a))); [reflexivity|].
  cbv zeta. destruct (first_delivery _) as [t|]; [|reflexivity].
  destruct (t <? e_deadline e); [|reflexivity].
  destruct (full_container (sp_version sp)); reflexivity.
Qed.

Lemma deliver_unblinded : forall c e evs sp, sp_blinded sp = false ->
  deliver_phase c e evs sp =
  {| o_panic := false; o_events := evs; o_unblind := no_calls e; o_submit := Some (0, sp); o_ret := 0 |}.
Proof. intros c e evs sp H; unfold deliver_phase; rewrite H; reflexivity. Qed.

(* the relays' calls as the result lists them *)
Definition calls_of (rf : N -> ureq) (w : option N) (plans : list (list call)) : list (list (N * ureq)) :=
  map (fun cs => map (fun k => (k_start k, rf (k_start k))) (cut w cs)) plans.

(* the unblinding part of deliver_phase as one case analysis *)
Inductive deliver_course (c : config) (e : env) (evs : list event) (sp : sproposal) : result -> Prop :=
| DC_local : sp_blinded sp = false ->
    deliver_course c e evs sp
      {| o_panic := false; o_events := evs; o_unblind := no_calls e; o_submit := Some (0, sp); o_ret := 0 |}
| DC_no_relays : sp_blinded sp = true ->
    (auction_results e = None
     \/ exists w a, auction_results e = Some (w, a) /\ existsb (can_unblind e) (candidates c w a) = false) ->
    deliver_course c e evs sp (stop e evs)
| DC_relays w a res : sp_blinded sp = true ->
    auction_results e = Some (w, a) -> existsb (can_unblind e) (candidates c w a) = true ->
    let plans := plans_from (e_deadline e) (candidates c w a) 0 (e_relays e) in
    let fd := first_delivery plans in
    o_panic res = false -> o_events res = evs ->
    o_unblind res = calls_of (fun _ => unblind_request sp) fd plans ->
    (match fd with
     | Some t =>
         if t <? e_deadline e then
           o_ret res = t /\
           match full_container (sp_version sp) with
           | None => o_submit res = None
           | Some fc =>
               o_submit res = Some (t, {| sp_version := sp_version sp; sp_blinded := false;
                                          sp_conts := match winning_out t plans with
                                                      | Some o => match response (unblind_request sp) o with
                                                                  | Some b => [(fc, b)] | None => [] end
                                                      | None => [] end |})
           end
         else o_ret res = e_deadline e /\ o_submit res = None
     | None => o_ret res = N.min (e_deadline e) (all_failed_at plans) /\ o_submit res = None
     end) ->
    deliver_course c e evs sp res.

Lemma deliver_phase_course : forall c e evs sp, deliver_course c e evs sp (deliver_phase c e evs sp).
Proof.
  intros c e evs sp. unfold deliver_phase.
  destruct (sp_blinded sp) eqn:Hb; cbn [negb]; [|apply DC_local; exact Hb].
  destruct (auction_results e) as [[w a]|] eqn:Ha; [|apply DC_no_relays; auto].
  destruct (existsb (can_unblind e) (candidates c w a)) eqn:Hc; cbn [negb].
  2:{ apply DC_no_relays; auto. right; exists w, a; auto. }
  cbv zeta.
  eapply DC_relays; eauto.
  - destruct (first_delivery _) as [t|]; [|reflexivity].
    destruct (t <? e_deadline e); [|reflexivity]. destruct (full_container (sp_version sp)); reflexivity.
  - destruct (first_delivery _) as [t|]; [|reflexivity].
    destruct (t <? e_deadline e); [|reflexivity]. destruct (full_container (sp_version sp)); reflexivity.
  - destruct (first_delivery _) as [t|]; [|reflexivity].
    destruct (t <? e_deadline e); [|reflexivity]. destruct (full_container (sp_version sp)); reflexivity.
  - cbv zeta. destruct (first_delivery _) as [t|]; [|auto].
    destruct (t <? e_deadline e); [|auto]. destruct (full_container (sp_version sp)); auto.
Qed.

(* a listed call of relay i is a call of that relay's plan *)
Lemma calls_of_nth : forall rf w plans i calls k st rq,
  nth_error (calls_of rf w plans) i = Some calls -> nth_error calls k = Some (st, rq) ->
  rq = rf st /\ exists cs cl, nth_error plans i = Some cs /\ nth_error (cut w cs) k = Some cl /\ k_start cl = st
     /\ length calls = length (cut w cs).
Proof.
  intros rf w plans i calls k st rq H Hk. unfold calls_of in H. rewrite nth_error_map in H.
  destruct (nth_error plans i) as [cs|] eqn:Hp; cbn in H; [|discriminate]. injection H as <-.
  rewrite nth_error_map in Hk. destruct (nth_error (cut w cs) k) as [cl|] eqn:Hc; cbn in Hk; [|discriminate].
  injection Hk as <- <-. split; [reflexivity|]. exists cs, cl. rewrite map_length. auto.
Qed.

(* what can be said of any unblind request that is made *)
Lemma deliver_call : forall c e evs sp i calls k st rq,
  nth_error (o_unblind (deliver_phase c e evs sp)) i = Some calls ->
  nth_error calls k = Some (st, rq) ->
  sp_blinded sp = true
  /\ rq = unblind_request sp
  /\ (length calls <= 3)%nat
  /\ exists w a rl cl,
       auction_results e = Some (w, a) /\ In i (candidates c w a)
       /\ nth_error (e_relays e) i = Some rl /\ r_can rl = true
       /\ nth_error (free_calls (e_deadline e) relay_tries 0 (r_script rl)) k = Some cl /\ k_start cl = st.
Proof.
  intros c e evs sp i calls k st rq H Hk.
  destruct (deliver_phase_course c e evs sp) as [Hb|Hb _|w a res Hb Ha Hc plans fd _ _ Hu Hsub].
  - cbn [o_unblind] in H. apply no_calls_nth in H; subst; destruct k; discriminate.
  - cbn [o_unblind stop] in H. apply no_calls_nth in H; subst; destruct k; discriminate.
  - rewrite Hu in H. destruct (calls_of_nth _ _ _ _ _ _ _ _ H Hk) as (-> & cs & cl & Hp & Hcut & Hst & Hlen).
    split; [exact Hb|]. split; [reflexivity|].
    unfold plans in Hp. apply plans_from_nth in Hp as (rl & Hrl & ->). cbn [Nat.add] in *.
    pose proof (cut_prefix _ _ _ _ Hcut) as Hfree.
    destruct (relay_plan_nonempty _ _ _ _ _ _ Hfree) as (Hin & Hcan & Heq).
    split.
    + rewrite Hlen. etransitivity; [apply cut_length|]. rewrite Heq. apply free_calls_length.
    + exists w, a, rl, cl. rewrite Heq in Hfree. repeat split; auto.
Qed.

(* a blinded proposal is submitted only as the answer to a call that was made and returned in time *)
Lemma deliver_submit_blinded : forall c e evs sp t sp',
  sp_blinded sp = true ->
  o_submit (deliver_phase c e evs sp) = Some (t, sp') ->
  exists i rl calls k st fc,
    nth_error (e_relays e) i = Some rl
    /\ nth_error (o_unblind (deliver_phase c e evs sp)) i = Some calls
    /\ nth_error calls k = Some (st, unblind_request sp)
    /\ is_ok (snd (script_nth (r_script rl) k)) = true
    /\ t = st + fst (script_nth (r_script rl) k)
    /\ t < e_deadline e
    /\ o_ret (deliver_phase c e evs sp) = t
    /\ full_container (sp_version sp) = Some fc
    /\ sp' = {| sp_version := sp_version sp; sp_blinded := false;
                sp_conts := match response (unblind_request sp) (snd (script_nth (r_script rl) k)) with
                            | Some b => [(fc, b)] | None => [] end |}.
Proof.
  intros c e evs sp t sp' Hbl H.
  destruct (deliver_phase_course c e evs sp) as [Hb|Hb _|w a res Hb Ha Hc plans fd _ _ Hu Hs].
  - congruence.
  - discriminate.
  - destruct fd as [t0|] eqn:Hfd; [|destruct Hs as (_&Hs); congruence].
    destruct (t0 <? e_deadline e) eqn:Hdl; [|destruct Hs as (_&Hs); congruence].
    destruct Hs as (Hret & Hs).
    destruct (full_container (sp_version sp)) as [fc|] eqn:Hfc; [|congruence].
    rewrite Hs in H. injection H as <- <-.
    destruct (winning_out_some plans t0 Hfd) as (j & cs & k & cl & Hp & Hk & Hok & Hfin & Hwin).
    rewrite Hwin.
    unfold plans in Hp. apply plans_from_nth in Hp as (rl & Hrl & ->). cbn [Nat.add] in *.
    destruct (relay_plan_nonempty _ _ _ _ _ _ Hk) as (Hin & Hcan & Heq).
    rewrite Heq in Hk.
    pose proof (free_calls_nth _ _ _ _ _ _ Hk) as (Hlt & Hout & Hfinish & _).
    (* the winning call is made: every earlier call of that relay returned before t0 *)
    assert (Hcut : nth_error (cut (Some t0) (relay_plan (e_deadline e) (candidates c w a) j rl)) k = Some cl).
    { rewrite Heq. apply cut_keeps; [exact Hk|]. intros j' cj Hj' Hn. cbn [sem_free].
      pose proof (free_calls_order _ _ _ _ _ _ _ _ Hn Hk Hj') as Hord.
      pose proof (finish_ge_start (e_deadline e) (k_start cl) (fst (script_nth (r_script rl) k)) (k_out cl)).
      apply N.ltb_lt. lia. }
    exists j, rl, (map (fun k0 => (k_start k0, unblind_request sp)) (cut (Some t0) (relay_plan (e_deadline e) (candidates c w a) j rl))), k, (k_start cl), fc.
    repeat split; auto.
    + rewrite Hu. unfold calls_of. rewrite nth_error_map.
      assert (Hpl : nth_error plans j = Some (relay_plan (e_deadline e) (candidates c w a) j rl)).
      { unfold plans. apply (plans_from_nth_some _ _ _ 0%nat j rl Hrl). }
      fold fd in Hpl. rewrite <- Hfd. unfold fd. rewrite Hpl. reflexivity.
    + rewrite nth_error_map, Hcut. reflexivity.
    + rewrite <- Hout. exact Hok.
    + rewrite <- Hfin, Hfinish. rewrite Hout in *. unfold finish_of.
      destruct (snd (script_nth (r_script rl) k)); try discriminate; reflexivity.
    + apply N.ltb_lt; exact Hdl.
    + rewrite Hout. reflexivity.
Qed.

(* a relay's plan delivers only if its script holds a full-block answer among its three tries *)
Lemma plan_delivery_script : forall dl cands i r t,
  delivery (relay_plan dl cands i r) = Some t ->
  exists k, (k < 3)%nat /\ is_ok (snd (script_nth (r_script r) k)) = true /\ In i cands /\ r_can r = true.
Proof.
  intros dl cands i r t H. apply delivery_some in H as (k & cl & Hk & Hok & _).
  destruct (relay_plan_nonempty _ _ _ _ _ _ Hk) as (Hin & Hcan & Heq). rewrite Heq in Hk.
  apply free_calls_nth in Hk as (Hlt & Hout & _). exists k. rewrite <- Hout. auto.
Qed.

Lemma deliver_no_answer_no_submit : forall c e evs sp,
  sp_blinded sp = true ->
  (forall i rl k, nth_error (e_relays e) i = Some rl -> (k < 3)%nat -> r_can rl = true ->
                  is_ok (snd (script_nth (r_script rl) k)) = false) ->
  o_submit (deliver_phase c e evs sp) = None.
Proof.
  intros c e evs sp Hbl Hno.
  destruct (o_submit (deliver_phase c e evs sp)) as [[t sp']|] eqn:Hs; [|reflexivity].
  apply deliver_submit_blinded in Hs as (i & rl & calls & k & st & fc & Hrl & Hc & Hk & Hok & _); [|exact Hbl].
  destruct (deliver_call _ _ _ _ _ _ _ _ _ Hc Hk) as (_ & _ & _ & w & a & rl' & cl & _ & _ & Hrl' & Hcan & Hfree & _).
  rewrite Hrl in Hrl'; injection Hrl' as <-.
  apply free_calls_nth in Hfree as (Hlt & _). unfold relay_tries in Hlt.
  rewrite (Hno i rl k Hrl Hlt Hcan) in Hok. discriminate.
Qed.

(* ------------------------------------------------------------------------------------------- *)
(* propose = sign_phase ; deliver_phase *)

Lemma propose_no_panic : forall c e d, o_panic (propose c e d) = false.
Proof.
  intros; unfold propose. destruct (sign_phase c e d) as [evs [[p sp]|]]; [apply deliver_no_panic|reflexivity].
Qed.

Lemma stop_unblind_nth : forall e evs i l, nth_error (o_unblind (stop e evs)) i = Some l -> l = [].
Proof. intros e evs i l; cbn [o_unblind stop]; apply no_calls_nth. Qed.

(* whenever Propose goes beyond signing, this is what it holds *)
Lemma propose_signed : forall c e d evs p sp,
  sign_phase c e d = (evs, Some (p, sp)) ->
  propose c e d = deliver_phase c e evs sp
  /\ exists acct h sig code,
       d_randao d <> 0 /\ d_account d = Some acct /\ signable e d p h /\ e_dom_block e = true
       /\ e_sig_block e = Some sig /\ signed_container (p_version p) (p_blinded p) = Some code
       /\ sp = signed_proposal p h sig code
       /\ evs = (upto_proposal c e d acct ++ [EDomain DOMAIN_BEACON_PROPOSER (d_slot d / c_spe c)])
                  ++ [sign_block_event c d acct h].
Proof.
  intros c e d evs p sp H. split; [unfold propose; rewrite H; reflexivity|].
  pose proof (sign_phase_course c e d) as Hc. rewrite H in Hc. inversion Hc; subst.
  exists acct, h, sig, code. auto 10.
Qed.

Lemma propose_unsigned : forall c e d evs,
  sign_phase c e d = (evs, None) -> propose c e d = stop e evs.
Proof. intros c e d evs H; unfold propose; rewrite H; reflexivity. Qed.

(* a block signature request appears only in the two last courses, and is that one request *)
Lemma sign_phase_sign_block : forall c e d ev,
  In ev (fst (sign_phase c e d)) -> is_sign_block ev = true ->
  exists acct p h, d_randao d <> 0 /\ d_account d = Some acct /\ signable e d p h /\ e_dom_block e = true
                   /\ ev = sign_block_event c d acct h.
Proof.
  intros c e d ev Hin Hsb.
  pose proof (sign_phase_course c e d) as Hc. destruct (sign_phase c e d) as [evs o]. cbn [fst] in Hin.
  inversion Hc; subst.
  - destruct Hin.
  - apply upto_proposal_no_sign in Hin as (Hf&_). congruence.
  - apply in_snoc in Hin as [Hin| ->]; [apply upto_proposal_no_sign in Hin as (Hf&_); congruence | discriminate].
  - apply in_snoc in Hin as [Hin| ->].
    + apply in_snoc in Hin as [Hin| ->]; [apply upto_proposal_no_sign in Hin as (Hf&_); congruence | discriminate].
    + exists acct, p, h; auto.
  - apply in_snoc in Hin as [Hin| ->].
    + apply in_snoc in Hin as [Hin| ->]; [apply upto_proposal_no_sign in Hin as (Hf&_); congruence | discriminate].
    + exists acct, p, h; auto.
Qed.

Lemma sign_phase_no_randao : forall c e d ev, In ev (fst (sign_phase c e d)) -> is_sign_randao ev = false.
Proof.
  intros c e d ev Hin.
  pose proof (sign_phase_course c e d) as Hc. destruct (sign_phase c e d) as [evs o]. cbn [fst] in Hin.
  inversion Hc; subst.
  - destruct Hin.
  - apply upto_proposal_no_sign in Hin as (_&Hf); exact Hf.
  - apply in_snoc in Hin as [Hin| ->]; [apply upto_proposal_no_sign in Hin as (_&Hf); exact Hf | reflexivity].
  - apply in_snoc in Hin as [Hin| ->]; [|reflexivity].
    apply in_snoc in Hin as [Hin| ->]; [apply upto_proposal_no_sign in Hin as (_&Hf); exact Hf | reflexivity].
  - apply in_snoc in Hin as [Hin| ->]; [|reflexivity].
    apply in_snoc in Hin as [Hin| ->]; [apply upto_proposal_no_sign in Hin as (_&Hf); exact Hf | reflexivity].
Qed.

Lemma upto_proposal_count_sign_block : forall c e d acct, count_if is_sign_block (upto_proposal c e d acct) = 0%nat.
Proof. intros; apply count_if_none; intros x H; apply upto_proposal_no_sign in H as (H&_); exact H. Qed.

Lemma sign_phase_count_sign_block : forall c e d, (count_if is_sign_block (fst (sign_phase c e d)) <= 1)%nat.
Proof.
  intros c e d. pose proof (sign_phase_course c e d) as Hc. destruct (sign_phase c e d) as [evs o]. cbn [fst].
  inversion Hc; subst; rewrite ?count_if_app, ?upto_proposal_count_sign_block; cbn; lia.
Qed.

Lemma sign_phase_count_proposal : forall c e d, (count_if is_proposal (fst (sign_phase c e d)) <= 1)%nat.
Proof.
  intros c e d. pose proof (sign_phase_course c e d) as Hc. destruct (sign_phase c e d) as [evs o]. cbn [fst].
  inversion Hc; subst; rewrite ?count_if_app, ?upto_proposal_count_proposal; cbn; lia.
Qed.

(* a ready duty always gets its request to the beacon node *)
Lemma sign_phase_asks : forall c e d acct,
  d_randao d <> 0 -> d_account d = Some acct ->
  exists rest, fst (sign_phase c e d) = upto_proposal c e d acct ++ rest.
Proof.
  intros c e d acct Hr Ha.
  pose proof (sign_phase_course c e d) as Hc. destruct (sign_phase c e d) as [evs o]. cbn [fst].
  inversion Hc; subst.
  - destruct H0; congruence.
  - assert (acct0 = acct) by congruence; subst. exists []. rewrite app_nil_r. reflexivity.
  - assert (acct0 = acct) by congruence; subst. eexists; reflexivity.
  - assert (acct0 = acct) by congruence; subst. rewrite <- app_assoc. eexists; reflexivity.
  - assert (acct0 = acct) by congruence; subst. rewrite <- app_assoc. eexists; reflexivity.
Qed.

(* ------------------------------------------------------------------------------------------- *)
(* Prepare *)

Lemma prepare_duty : forall c e d,
  let d' := fst (fst (prepare c e d)) in
  d_slot d' = d_slot d /\ d_validator d' = d_validator d
  /\ (d_account d' = d_account d
      \/ exists m, e_accounts e = AccOk m /\ length m = 1%nat /\ d_account d' = lookup_account (d_validator d) m).
Proof.
  intros c e d; unfold prepare.
  destruct (e_accounts e) as [|m]; cbn; [auto|].
  destruct (Nat.eqb (length m) 1) eqn:El; cbn [negb]; [|cbn; auto].
  apply Nat.eqb_eq in El.
  destruct (e_dom_randao e); cbn [negb]; [|cbn; repeat split; auto; right; exists m; auto].
  destruct (lookup_account (d_validator d) m) as [a|] eqn:Ea; [|cbn; repeat split; auto; right; exists m; auto].
  destruct (e_sig_randao e); cbn; repeat split; auto; right; exists m; auto.
Qed.

Lemma prepare_events : forall c e d ev,
  In ev (snd (fst (prepare c e d))) ->
  is_sign_block ev = false
  /\ (is_sign_randao ev = true ->
      exists m a, e_accounts e = AccOk m /\ length m = 1%nat /\ lookup_account (d_validator d) m = Some a
                  /\ e_dom_randao e = true
                  /\ ev = ESignRandao a (d_slot d / c_spe c) (DOMAIN_RANDAO, d_slot d / c_spe c)).
Proof.
  intros c e d ev; unfold prepare.
  destruct (e_accounts e) as [|m] eqn:Hacc; cbn [fst snd].
  { intros [<-|[]]; split; [reflexivity|discriminate]. }
  destruct (Nat.eqb (length m) 1) eqn:El; cbn [negb fst snd].
  2:{ intros [<-|[]]; split; [reflexivity|discriminate]. }
  apply Nat.eqb_eq in El.
  destruct (e_dom_randao e) eqn:Hd; cbn [negb fst snd].
  2:{ intros [<-|[<-|[]]]; split; try reflexivity; discriminate. }
  destruct (lookup_account (d_validator d) m) as [a|] eqn:Ea; cbn [fst snd].
  2:{ intros [<-|[<-|[]]]; split; try reflexivity; discriminate. }
  assert (Hall : In ev ([EAccounts (d_slot d / c_spe c) [d_validator d]; EDomain DOMAIN_RANDAO (d_slot d / c_spe c);
                         ESignRandao a (d_slot d / c_spe c) (DOMAIN_RANDAO, d_slot d / c_spe c)]) ->
          is_sign_block ev = false /\ (is_sign_randao ev = true -> exists m0 a0, AccOk m = AccOk m0 /\ length m0 = 1%nat
              /\ lookup_account (d_validator d) m0 = Some a0 /\ true = true
              /\ ev = ESignRandao a0 (d_slot d / c_spe c) (DOMAIN_RANDAO, d_slot d / c_spe c))).
  { intros [<-|[<-|[<-|[]]]]; split; try reflexivity; try discriminate. intros _. exists m, a. auto. }
  destruct (e_sig_randao e); cbn [fst snd]; exact Hall.
Qed.

Lemma prepare_count_randao : forall c e d, (count_if is_sign_randao (snd (fst (prepare c e d))) <= 1)%nat.
Proof.
  intros c e d; unfold prepare.
  destruct (e_accounts e) as [|m]; cbn [fst snd]; [cbn; lia|].
  destruct (Nat.eqb (length m) 1); cbn [negb fst snd]; [|cbn; lia].
  destruct (e_dom_randao e); cbn [negb fst snd]; [|cbn; lia].
  destruct (lookup_account (d_validator d) m); cbn [fst snd]; [|cbn; lia].
  destruct (e_sig_randao e); cbn; lia.
Qed.

(* a successful Prepare leaves the duty with the provider's account for the duty's validator and the
   account's RANDAO signature *)
Lemma prepare_ok : forall c e d,
  snd (prepare c e d) = true ->
  exists m a s, e_accounts e = AccOk m /\ length m = 1%nat /\ lookup_account (d_validator d) m = Some a
    /\ e_dom_randao e = true /\ e_sig_randao e = Some s
    /\ fst (fst (prepare c e d)) = {| d_slot := d_slot d; d_validator := d_validator d; d_account := Some a; d_randao := s |}
    /\ snd (fst (prepare c e d)) = [EAccounts (d_slot d / c_spe c) [d_validator d]; EDomain DOMAIN_RANDAO (d_slot d / c_spe c);
                                    ESignRandao a (d_slot d / c_spe c) (DOMAIN_RANDAO, d_slot d / c_spe c)].
Proof.
  intros c e d; unfold prepare.
  destruct (e_accounts e) as [|m]; cbn [snd]; [discriminate|].
  destruct (Nat.eqb (length m) 1) eqn:El; cbn [negb snd]; [|discriminate].
  apply Nat.eqb_eq in El.
  destruct (e_dom_randao e); cbn [negb snd]; [|discriminate].
  destruct (lookup_account (d_validator d) m) as [a|] eqn:Ea; cbn [snd]; [|discriminate].
  destruct (e_sig_randao e) as [s|]; cbn [snd]; [|discriminate].
  intros _. exists m, a, s. cbn. repeat split; auto.
Qed.

(* ------------------------------------------------------------------------------------------- *)
(* The property statements *)

Definition run_prep_events (c : config) (e : env) (d : duty) (prep : bool) : list event := fst (fst (run c e d prep)).
Definition run_result (c : config) (e : env) (d : duty) (prep : bool) : result := snd (run c e d prep).
(* every request of the whole run, Prepare's first *)
Definition run_events (c : config) (e : env) (d : duty) (prep : bool) : list event :=
  run_prep_events c e d prep ++ o_events (run_result c e d prep).

(* the duty Propose works on *)
Definition run_duty (c : config) (e : env) (d : duty) (prep : bool) : duty :=
  if prep then fst (fst (prepare c e d)) else d.

Lemma run_unfold : forall c e d prep,
  run_prep_events c e d prep = (if prep then snd (fst (prepare c e d)) else [])
  /\ run_result c e d prep = propose c e (run_duty c e d prep).
Proof.
  intros c e d prep; unfold run_prep_events, run_result, run_duty, run. destruct prep; [|auto].
  destruct (prepare c e d) as [[d1 evs] ok]; auto.
Qed.

(* the account a signature may be asked of: the one the accounts provider holds for the duty's
   validator, or the one the duty already carried *)
Definition duty_account_ok (e : env) (d : duty) (a : N) : Prop :=
  d_account d = Some a
  \/ exists m, e_accounts e = AccOk m /\ length m = 1%nat /\ lookup_account (d_validator d) m = Some a.

Lemma run_duty_facts : forall c e d prep,
  d_slot (run_duty c e d prep) = d_slot d /\ d_validator (run_duty c e d prep) = d_validator d
  /\ forall a, d_account (run_duty c e d prep) = Some a -> duty_account_ok e d a.
Proof.
  intros c e d prep; unfold run_duty; destruct prep; [|split; [|split]; auto; intros; left; auto].
  destruct (prepare_duty c e d) as (H1 & H2 & [H3|(m & Hm & Hl & H3)]); repeat split; auto; intros a Ha.
  - left; congruence.
  - right; exists m; repeat split; auto; congruence.
Qed.

Lemma sign_only_duty_slot : forall c e d prep,
  (forall a ep dom, In (ESignRandao a ep dom) (run_events c e d prep) ->
     prep = true /\ ep = d_slot d / c_spe c /\ dom = (DOMAIN_RANDAO, d_slot d / c_spe c)
     /\ exists m, e_accounts e = AccOk m /\ length m = 1%nat /\ lookup_account (d_validator d) m = Some a)
  /\ (forall a s p pa st bo dom, In (ESignBlock a s p pa st bo dom) (run_events c e d prep) ->
     s = d_slot d /\ p = d_validator d /\ dom = (DOMAIN_BEACON_PROPOSER, d_slot d / c_spe c)
     /\ duty_account_ok e d a)
  /\ (count_if is_sign_randao (run_events c e d prep) <= 1)%nat
  /\ (count_if is_sign_block (run_events c e d prep) <= 1)%nat.
Proof.
  intros c e d prep. unfold run_events. destruct (run_unfold c e d prep) as (Hp & Hr). rewrite Hp, Hr, propose_events.
  destruct (run_duty_facts c e d prep) as (Hs & Hv & Ha).
  repeat split.
  - apply in_app_iff in H as [H|H].
    + destruct prep; [reflexivity|destruct H].
    + apply sign_phase_no_randao in H; discriminate.
  - apply in_app_iff in H as [H|H].
    + destruct prep; [|destruct H]. apply prepare_events in H as (_&H). destruct (H eq_refl) as (m&a0&_&_&_&_&E). congruence.
    + apply sign_phase_no_randao in H; discriminate.
  - apply in_app_iff in H as [H|H].
    + destruct prep; [|destruct H]. apply prepare_events in H as (_&H). destruct (H eq_refl) as (m&a0&_&_&_&_&E). congruence.
    + apply sign_phase_no_randao in H; discriminate.
  - apply in_app_iff in H as [H|H].
    + destruct prep; [|destruct H]. apply prepare_events in H as (_&H). destruct (H eq_refl) as (m&a0&Hm&Hl&Hlk&_&E).
      injection E as <- _ _. exists m; auto.
    + apply sign_phase_no_randao in H; discriminate.
  - apply in_app_iff in H as [H|H].
    + destruct prep; [|destruct H]. apply prepare_events in H as (H&_); discriminate.
    + apply sign_phase_sign_block in H as (acct&p0&h&_&_&_&_&E); [|reflexivity]. injection E as _ -> _ _ _ _ _. exact Hs.
  - apply in_app_iff in H as [H|H].
    + destruct prep; [|destruct H]. apply prepare_events in H as (H&_); discriminate.
    + apply sign_phase_sign_block in H as (acct&p0&h&_&_&_&_&E); [|reflexivity]. injection E as _ _ -> _ _ _ _. exact Hv.
  - apply in_app_iff in H as [H|H].
    + destruct prep; [|destruct H]. apply prepare_events in H as (H&_); discriminate.
    + apply sign_phase_sign_block in H as (acct&p0&h&_&_&_&_&E); [|reflexivity]. injection E as _ _ _ _ _ _ ->. rewrite Hs; reflexivity.
  - apply in_app_iff in H as [H|H].
    + destruct prep; [|destruct H]. apply prepare_events in H as (H&_); discriminate.
    + apply sign_phase_sign_block in H as (acct&p0&h&_&Hacc&_&_&E); [|reflexivity]. injection E as -> _ _ _ _ _ _. apply Ha; exact Hacc.
  - rewrite count_if_app.
    rewrite (count_if_none is_sign_randao (fst (sign_phase c e (run_duty c e d prep)))) by (intros x Hx; eapply sign_phase_no_randao; eauto).
    destruct prep; [pose proof (prepare_count_randao c e d); lia | cbn; lia].
  - rewrite count_if_app.
    rewrite (count_if_none is_sign_block (if prep then snd (fst (prepare c e d)) else [])).
    + pose proof (sign_phase_count_sign_block c e (run_duty c e d prep)); lia.
    + intros x Hx. destruct prep; [|destruct Hx]. apply prepare_events in Hx as (Hx&_); exact Hx.
Qed.

Lemma roots_of_obtained_block : forall c e d a s p pa st bo dom,
  In (ESignBlock a s p pa st bo dom) (o_events (propose c e d)) ->
  exists pr h, e_proposal e = POk pr /\ p_block pr = Some h /\ known_version (p_version pr) = true
    /\ h_slot h = d_slot d /\ s = h_slot h
    /\ pa = h_parent h /\ st = h_state h /\ bo = h_body h.
Proof.
  intros c e d a s p pa st bo dom H. rewrite propose_events in H.
  apply sign_phase_sign_block in H as (acct&pr&h&_&_&(Hp&Hk&Hb&Hs&_)&_&E); [|reflexivity].
  injection E as _ -> _ -> -> -> _. exists pr, h. repeat split; auto.
Qed.

Definition all_nil {A} (ll : list (list A)) : Prop := forall i l, nth_error ll i = Some l -> l = [].

Lemma submit_is_signed_block : forall c e d pr t sp,
  e_proposal e = POk pr -> p_blinded pr = false ->
  o_submit (propose c e d) = Some (t, sp) ->
  exists acct h sig code,
    d_account d = Some acct /\ p_block pr = Some h /\ h_slot h = d_slot d
    /\ e_sig_block e = Some sig /\ signed_container (p_version pr) false = Some code
    /\ sp = signed_proposal pr h sig code
    /\ In (sign_block_event c d acct h) (o_events (propose c e d))
    /\ t = 0 /\ all_nil (o_unblind (propose c e d)).
Proof.
  intros c e d pr t sp Hp Hbl Hs.
  destruct (sign_phase c e d) as [evs [[p sp0]|]] eqn:Hsp.
  2:{ rewrite (propose_unsigned _ _ _ _ Hsp) in Hs; discriminate. }
  destruct (propose_signed _ _ _ _ _ _ Hsp) as (Heq & acct & h & sig & code & _ & Ha & (Hp'&_&Hb&Hsl&_) & _ & Hsig & Hcode & -> & ->).
  rewrite Hp in Hp'; injection Hp' as <-.
  rewrite Heq in *. rewrite deliver_unblinded in * by (cbn; exact Hbl). cbn [o_submit o_events o_unblind] in *.
  injection Hs as <- <-. rewrite Hbl in Hcode.
  exists acct, h, sig, code. repeat split; auto.
  - apply in_snoc; right; reflexivity.
  - intros i l Hn; eapply no_calls_nth; eauto.
Qed.

Lemma blinded_submit_from_relay : forall c e d pr t sp,
  e_proposal e = POk pr -> p_blinded pr = true ->
  o_submit (propose c e d) = Some (t, sp) ->
  exists acct h sig code fc i rl calls k st,
    d_account d = Some acct /\ p_block pr = Some h /\ h_slot h = d_slot d
    /\ e_sig_block e = Some sig /\ signed_container (p_version pr) true = Some code
    /\ In (sign_block_event c d acct h) (o_events (propose c e d))
    /\ let req := unblind_request (signed_proposal pr h sig code) in
       let answer := snd (script_nth (r_script rl) k) in
       (* relay i was sent the signed blinded block in its k-th call ... *)
       nth_error (e_relays e) i = Some rl
       /\ nth_error (o_unblind (propose c e d)) i = Some calls
       /\ nth_error calls k = Some (st, req)
       (* ... answered it with a full block before the deadline ... *)
       /\ is_ok answer = true
       /\ t = st + fst (script_nth (r_script rl) k) /\ t < e_deadline e
       (* ... and that block is what is submitted *)
       /\ full_container (p_version pr) = Some fc
       /\ sp = {| sp_version := p_version pr; sp_blinded := false;
                  sp_conts := match response req answer with Some b => [(fc, b)] | None => [] end |}.
Proof.
  intros c e d pr t sp Hp Hbl Hs.
  destruct (sign_phase c e d) as [evs [[p sp0]|]] eqn:Hsp.
  2:{ rewrite (propose_unsigned _ _ _ _ Hsp) in Hs; discriminate. }
  destruct (propose_signed _ _ _ _ _ _ Hsp) as (Heq & acct & h & sig & code & _ & Ha & (Hp'&_&Hb&Hsl&_) & _ & Hsig & Hcode & -> & ->).
  rewrite Hp in Hp'; injection Hp' as <-.
  rewrite Heq in *. rewrite Hbl in Hcode.
  apply deliver_submit_blinded in Hs as (i & rl & calls & k & st & fc & H1 & H2 & H3 & H4 & H5 & H6 & _ & H8 & H9); [|cbn; exact Hbl].
  exists acct, h, sig, code, fc, i, rl, calls, k, st. cbn [sp_version signed_proposal] in *.
  rewrite deliver_events. repeat split; auto.
  apply in_snoc; right; reflexivity.
Qed.

(* every relay request is the signed blinded block, goes to a relay of the winning bid (or of the
   auction, if so configured or if there is no winner) that can unblind, at most three times *)
Lemma unblind_requests : forall c e d i calls k st rq,
  nth_error (o_unblind (propose c e d)) i = Some calls ->
  nth_error calls k = Some (st, rq) ->
  exists acct pr h sig code w a rl,
    d_account d = Some acct /\ e_proposal e = POk pr /\ p_blinded pr = true
    /\ p_block pr = Some h /\ h_slot h = d_slot d /\ e_sig_block e = Some sig
    /\ signed_container (p_version pr) true = Some code
    /\ rq = unblind_request (signed_proposal pr h sig code)
    /\ In (sign_block_event c d acct h) (o_events (propose c e d))
    /\ e_auction e = AOk w a /\ In i (candidates c w a)
    /\ nth_error (e_relays e) i = Some rl /\ r_can rl = true
    /\ (length calls <= 3)%nat.
Proof.
  intros c e d i calls k st rq Hc Hk.
  destruct (sign_phase c e d) as [evs [[p sp0]|]] eqn:Hsp.
  2:{ rewrite (propose_unsigned _ _ _ _ Hsp) in Hc. apply stop_unblind_nth in Hc; subst; destruct k; discriminate. }
  destruct (propose_signed _ _ _ _ _ _ Hsp) as (Heq & acct & h & sig & code & _ & Ha & (Hp'&_&Hb&Hsl&_) & _ & Hsig & Hcode & -> & ->).
  rewrite Heq in *.
  destruct (deliver_call _ _ _ _ _ _ _ _ _ Hc Hk) as (Hbl & Hrq & Hlen & w & a & rl & cl & Hau & Hin & Hrl & Hcan & _).
  cbn [sp_blinded signed_proposal] in Hbl. rewrite Hbl in Hcode.
  exists acct, p, h, sig, code, w, a, rl. rewrite deliver_events. repeat split; auto.
  - apply in_snoc; right; reflexivity.
  - unfold auction_results in Hau. destruct (e_auction e); try discriminate. injection Hau as -> ->. reflexivity.
Qed.

Lemma no_relay_no_submit : forall c e d pr,
  e_proposal e = POk pr -> p_blinded pr = true ->
  (forall i rl k, nth_error (e_relays e) i = Some rl -> (k < 3)%nat -> r_can rl = true ->
                  is_ok (snd (script_nth (r_script rl) k)) = false) ->
  o_submit (propose c e d) = None.
Proof.
  intros c e d pr Hp Hbl Hno.
  destruct (sign_phase c e d) as [evs [[p sp0]|]] eqn:Hsp.
  2:{ rewrite (propose_unsigned _ _ _ _ Hsp); reflexivity. }
  destruct (propose_signed _ _ _ _ _ _ Hsp) as (Heq & acct & h & sig & code & _ & _ & (Hp'&_) & _ & _ & _ & -> & _).
  rewrite Hp in Hp'; injection Hp' as <-.
  rewrite Heq. apply deliver_no_answer_no_submit; [cbn; exact Hbl | exact Hno].
Qed.

(* the same, on what was actually asked: if none of the calls made was answered with a full block
   before the deadline, nothing is submitted *)
Lemma no_answer_no_submit : forall c e d pr,
  e_proposal e = POk pr -> p_blinded pr = true ->
  (forall i rl calls k st rq,
     nth_error (e_relays e) i = Some rl -> nth_error (o_unblind (propose c e d)) i = Some calls ->
     nth_error calls k = Some (st, rq) ->
     is_ok (snd (script_nth (r_script rl) k)) = false \/ e_deadline e <= st + fst (script_nth (r_script rl) k)) ->
  o_submit (propose c e d) = None.
Proof.
  intros c e d pr Hp Hbl Hno.
  destruct (o_submit (propose c e d)) as [[t sp]|] eqn:Hs; [|reflexivity].
  destruct (blinded_submit_from_relay _ _ _ _ _ _ Hp Hbl Hs) as
    (acct & h & sig & code & fc & i & rl & calls & k & st & _ & _ & _ & _ & _ & _ & H1 & H2 & H3 & H4 & H5 & H6 & _).
  destruct (Hno _ _ _ _ _ _ H1 H2 H3) as [Hx|Hx]; [congruence|lia].
Qed.

(* graffiti and auction failures do not skip the proposal *)
Definition with_graffiti_auction (e : env) (g : gout) (a : aout) : env :=
  {| e_accounts := e_accounts e; e_dom_randao := e_dom_randao e; e_sig_randao := e_sig_randao e;
     e_graffiti := g; e_head := e_head e; e_auction := a; e_proposal := e_proposal e;
     e_dom_block := e_dom_block e; e_sig_block := e_sig_block e; e_relays := e_relays e;
     e_submit_ok := e_submit_ok e; e_deadline := e_deadline e |}.

Lemma signable_ga : forall e g a d p h, signable (with_graffiti_auction e g a) d p h <-> signable e d p h.
Proof. intros; unfold signable; cbn; tauto. Qed.

Lemma sign_phase_snd_ga : forall c e g a d,
  snd (sign_phase c (with_graffiti_auction e g a) d) = snd (sign_phase c e d).
Proof.
  intros c e g a d. unfold sign_phase. cbn [with_graffiti_auction e_proposal e_dom_block e_sig_block].
  destruct (d_randao d =? 0); [reflexivity|].
  destruct (d_account d); [|reflexivity].
  destruct (e_proposal e) as [|p]; [reflexivity|].
  destruct (proposal_slot p); [|reflexivity].
  destruct (negb (n0 =? d_slot d)); [reflexivity|].
  destruct (p_block p); [|reflexivity].
  destruct (negb (p_body_present p)); [reflexivity|].
  destruct (negb (e_dom_block e)); [reflexivity|].
  destruct (e_sig_block e); [|reflexivity].
  destruct (signed_container (p_version p) (p_blinded p)); reflexivity.
Qed.

Lemma degrades_not_skips : forall c e d acct,
  d_randao d <> 0 -> d_account d = Some acct ->
  (* the beacon node is asked for a block of the duty's slot, with the graffiti obtained, or none *)
  In (EProposal (d_slot d) (d_randao d) (graffiti_value e) (c_boost c)) (o_events (propose c e d))
  /\ (e_graffiti e = GErr -> graffiti_value e = 0)
  (* a good local block is signed and submitted, whatever graffiti lookup and auction did *)
  /\ (forall pr h sig, signable e d pr h -> p_blinded pr = false -> e_dom_block e = true -> e_sig_block e = Some sig ->
        exists code, signed_container (p_version pr) false = Some code
                     /\ o_submit (propose c e d) = Some (0, signed_proposal pr h sig code))
  (* and what is submitted for a local block never depends on them *)
  /\ (forall pr g a, e_proposal e = POk pr -> p_blinded pr = false ->
        o_submit (propose c (with_graffiti_auction e g a) d) = o_submit (propose c e d)).
Proof.
  intros c e d acct Hr Ha. repeat split.
  - rewrite propose_events. destruct (sign_phase_asks c e d acct Hr Ha) as (rest & ->).
    apply in_app_iff; left. unfold upto_proposal. apply in_snoc; right; reflexivity.
  - unfold graffiti_value; intros ->; reflexivity.
  - intros pr h sig Hsig Hbl Hd Hsg.
    pose proof (sign_phase_course c e d) as Hc. destruct (sign_phase c e d) as [evs o] eqn:Hsp.
    assert (Hk : exists code, signed_container (p_version pr) false = Some code).
    { destruct Hsig as (_&Hk&_). unfold known_version in Hk. unfold signed_container, VPhase0, VAltair, VBellatrix, VCapella, VDeneb.
      destruct (p_version pr =? 1) eqn:E1; [eauto|]. destruct (p_version pr =? 2) eqn:E2; [eauto|].
      destruct (p_version pr =? 3) eqn:E3; [eauto|]. destruct (p_version pr =? 4) eqn:E4; [eauto|].
      destruct (p_version pr =? 5) eqn:E5; [eauto|]. lia. }
    destruct Hk as (code & Hcode). exists code; split; [exact Hcode|].
    inversion Hc; subst;
      try match goal with H : signable e d _ _ |- _ =>
            destruct (signable_fun _ _ _ _ _ _ Hsig H) as (? & ?); subst end.
    + match goal with H : _ \/ _ |- _ => destruct H; congruence end.
    + exfalso. match goal with H : forall p h, ~ signable e d p h |- _ => exact (H _ _ Hsig) end.
    + congruence.
    + match goal with H : _ \/ _ |- _ => rewrite Hbl in H; destruct H; congruence end.
    + match goal with H : signed_container _ _ = Some _ |- _ => rewrite Hbl in H end.
      assert (sig0 = sig) by congruence. assert (code0 = code) by congruence. subst.
      unfold propose. rewrite Hsp. rewrite deliver_unblinded by (cbn; exact Hbl). reflexivity.
  - intros pr g a Hp Hbl.
    assert (Hgen : forall e', e_proposal e' = POk pr ->
              o_submit (propose c e' d) =
              match snd (sign_phase c e' d) with Some (_, sp) => Some (0, sp) | None => None end).
    { intros e' Hp'. unfold propose. destruct (sign_phase c e' d) as [evs [[p sp]|]] eqn:Hsp; [|reflexivity].
      destruct (propose_signed _ _ _ _ _ _ Hsp) as (_ & _ & h & sig & code & _ & _ & (Hp''&_) & _ & _ & _ & -> & _).
      rewrite Hp' in Hp''; injection Hp'' as <-. rewrite deliver_unblinded by (cbn; exact Hbl). reflexivity. }
    rewrite (Hgen e Hp), (Hgen (with_graffiti_auction e g a) Hp), sign_phase_snd_ga. reflexivity.
Qed.

(* a proposal that cannot be signed for this duty: nothing is signed, asked of a relay or submitted *)
Lemma unsignable_silent : forall c e d,
  (forall p h, ~ signable e d p h) ->
  (forall ev, In ev (o_events (propose c e d)) -> is_sign_block ev = false)
  /\ all_nil (o_unblind (propose c e d))
  /\ o_submit (propose c e d) = None /\ o_ret (propose c e d) = 0.
Proof.
  intros c e d Hns.
  pose proof (sign_phase_course c e d) as Hc. destruct (sign_phase c e d) as [evs o] eqn:Hsp.
  assert (Ho : o = None /\ forall ev, In ev evs -> is_sign_block ev = false).
  { inversion Hc; subst; try (exfalso; eapply Hns; eauto; fail).
    - split; [reflexivity|intros ev []].
    - split; [reflexivity|]. intros ev Hin; apply upto_proposal_no_sign in Hin as (H&_); exact H. }
  destruct Ho as (-> & Hev).
  rewrite (propose_unsigned _ _ _ _ Hsp). cbn [o_events o_unblind o_submit o_ret stop].
  repeat split; auto. intros i l Hn; eapply no_calls_nth; eauto.
Qed.

Lemma other_slot_refused_unsigned : forall c e d pr,
  e_proposal e = POk pr -> proposal_slot pr <> Some (d_slot d) ->
  (forall ev, In ev (o_events (propose c e d)) -> is_sign_block ev = false)
  /\ all_nil (o_unblind (propose c e d))
  /\ o_submit (propose c e d) = None /\ o_ret (propose c e d) = 0.
Proof.
  intros c e d pr Hp Hslot. apply unsignable_silent.
  intros p h (Hp'&Hk&Hb&Hs&_). rewrite Hp in Hp'; injection Hp' as <-.
  apply Hslot. unfold proposal_slot. rewrite Hk, Hb, Hs. reflexivity.
Qed.

(* an incomplete duty (no RANDAO reveal or no account) asks nothing of anybody *)
Lemma unready_duty_silent : forall c e d,
  d_randao d = 0 \/ d_account d = None -> propose c e d = stop e [].
Proof.
  intros c e d H. unfold propose, sign_phase.
  destruct H as [H|H].
  - rewrite H; reflexivity.
  - destruct (d_randao d =? 0); [reflexivity|]. rewrite H; reflexivity.
Qed.

(* a failed Prepare leaves a fresh duty unready: nothing is asked, signed or submitted for it *)
Lemma failed_prepare_silent : forall c e d,
  d_account d = None -> d_randao d = 0 ->
  snd (prepare c e d) = false ->
  propose c e (fst (fst (prepare c e d))) = stop e [].
Proof.
  intros c e d Ha Hr Hf. apply unready_duty_silent. unfold prepare in *.
  destruct (e_accounts e) as [|m]; cbn [fst snd] in *; [auto|].
  destruct (Nat.eqb (length m) 1); cbn [negb fst snd] in *; [|auto].
  destruct (e_dom_randao e); cbn [negb fst snd] in *; [|left; exact Hr].
  destruct (lookup_account (d_validator d) m); cbn [fst snd] in *; [|left; exact Hr].
  destruct (e_sig_randao e); cbn [fst snd] in *; [discriminate|left; exact Hr].
Qed.

(* ------------------------------------------------------------------------------------------- *)
(* the first full block wins *)

Lemma retry_not_ok : forall o, is_retry o = true -> is_ok o = false.
Proof. destruct o; cbn; congruence. Qed.

Lemma plan_ok_delivery : forall dl n start script k cl,
  nth_error (free_calls dl n start script) k = Some cl -> is_ok (k_out cl) = true ->
  delivery (free_calls dl n start script) = Some (k_finish cl).
Proof.
  intros dl n; induction n as [|n IH]; intros start script k cl H Hok; cbn [free_calls] in *.
  - destruct k; discriminate.
  - unfold delivery in *.
    destruct script as [|[l o] rest].
    + destruct k as [|k]; cbn [nth_error] in H.
      * injection H as <-. cbn in Hok. discriminate.
      * cbn [is_retry] in *. cbn [find k_out is_ok]. apply (IH _ _ _ _ H Hok).
    + destruct k as [|k]; cbn [nth_error] in H.
      * injection H as <-. cbn [k_out] in Hok. cbn [find k_out]. rewrite Hok. reflexivity.
      * destruct (is_retry o) eqn:Hr; [|destruct k; discriminate].
        cbn [find k_out]. rewrite (retry_not_ok _ Hr). apply (IH _ _ _ _ H Hok).
Qed.

(* whatever is submitted for a blinded block is submitted at the instant of the earliest full-block
   answer that any relay asked would give: no candidate relay would have answered with a block earlier *)
Lemma first_full_block_wins : forall c e d pr t sp w a i rl k cl,
  e_proposal e = POk pr -> p_blinded pr = true ->
  o_submit (propose c e d) = Some (t, sp) ->
  e_auction e = AOk w a -> In i (candidates c w a) ->
  nth_error (e_relays e) i = Some rl -> r_can rl = true ->
  nth_error (free_calls (e_deadline e) relay_tries 0 (r_script rl)) k = Some cl ->
  is_ok (k_out cl) = true ->
  t <= k_finish cl.
Proof.
  intros c e d pr t sp w a i rl k cl Hp Hbl Hsub Hau Hin Hrl Hcan Hk Hok.
  destruct (sign_phase c e d) as [evs [[p sp0]|]] eqn:Hsp.
  2:{ rewrite (propose_unsigned _ _ _ _ Hsp) in Hsub; discriminate. }
  destruct (propose_signed _ _ _ _ _ _ Hsp) as (Heq & acct & h & sig & code & _ & _ & (Hp' & _) & _ & _ & _ & -> & _).
  rewrite Hp in Hp'; injection Hp' as <-. rewrite Heq in Hsub.
  destruct (deliver_phase_course c e evs (signed_proposal pr h sig code)) as [Hb|Hb _|w' a' res Hb Ha Hc plans fd _ _ _ Hs].
  - cbn in Hb; congruence.
  - discriminate.
  - unfold auction_results in Ha. rewrite Hau in Ha. injection Ha as <- <-.
    destruct fd as [t0|] eqn:Hfd; [|destruct Hs as (_ & Hs); congruence].
    destruct (t0 <? e_deadline e); [|destruct Hs as (_ & Hs); congruence].
    destruct Hs as (_ & Hs). destruct (full_container _); [|congruence].
    rewrite Hs in Hsub; injection Hsub as <- _.
    destruct (first_delivery_some plans t0 Hfd) as (_ & Hmin).
    pose proof (plans_from_nth_some (e_deadline e) (candidates c w a) (e_relays e) 0%nat i rl Hrl) as Hplan.
    cbn [Nat.add] in Hplan. fold plans in Hplan.
    apply (Hmin i _ (k_finish cl) Hplan).
    unfold relay_plan. assert (He : existsb (Nat.eqb i) (candidates c w a) = true)
      by (apply existsb_exists; exists i; split; [exact Hin|apply Nat.eqb_refl]).
    rewrite He, Hcan. cbn [andb]. eapply plan_ok_delivery; eauto.
Qed.

(* Propose never returns later than the context it was given allows (fake ms since the call) *)
Lemma returns_by_deadline : forall c e d, o_ret (propose c e d) <= e_deadline e.
Proof.
  intros c e d. unfold propose. destruct (sign_phase c e d) as [evs [[p sp]|]]; [|cbn; lia].
  destruct (deliver_phase_course c e evs sp) as [Hb|Hb _|w a res Hb Ha Hc plans fd _ _ _ Hs].
  - cbn; lia.
  - cbn; lia.
  - destruct fd as [t|].
    + destruct (t <? e_deadline e) eqn:Hdl.
      * destruct Hs as (-> & _). lia.
      * destruct Hs as (-> & _). lia.
    + destruct Hs as (-> & _). lia.
Qed.

(* ------------------------------------------------------------------------------------------- *)
(* a full block that comes back in time is submitted, without waiting for the other relays *)

(* Every call that is made and is answered with a full block before the deadline has something
   submitted no later than the instant it returns -- whatever the other relays do (hang until the
   context ends, fail, answer later, never give up).  With [blinded_submit_from_relay] (what is
   submitted was delivered at the instant of the submission): the submission is the earliest full
   block, the moment it is back. *)
Lemma full_block_in_time_submitted : forall c e d pr i rl calls k st rq fc,
  e_proposal e = POk pr -> full_container (p_version pr) = Some fc ->
  nth_error (e_relays e) i = Some rl ->
  nth_error (o_unblind (propose c e d)) i = Some calls ->
  nth_error calls k = Some (st, rq) ->
  is_ok (snd (script_nth (r_script rl) k)) = true ->
  st + fst (script_nth (r_script rl) k) < e_deadline e ->
  exists t sp, o_submit (propose c e d) = Some (t, sp) /\ t <= st + fst (script_nth (r_script rl) k).
Proof.
  intros c e d pr i rl calls k st rq fc Hp Hfc Hrl Hc Hk Hok Hlt.
  destruct (sign_phase c e d) as [evs [[p sp0]|]] eqn:Hsp.
  2:{ rewrite (propose_unsigned _ _ _ _ Hsp) in Hc. apply stop_unblind_nth in Hc; subst; destruct k; discriminate. }
  destruct (propose_signed _ _ _ _ _ _ Hsp) as (Heq & acct & h & sig & code & _ & _ & (Hp' & _) & _ & _ & _ & -> & _).
  rewrite Hp in Hp'; injection Hp' as <-. rewrite Heq in *.
  destruct (deliver_call _ _ _ _ _ _ _ _ _ Hc Hk) as (Hbl & _ & _ & w & a & rl' & cl & Hau & Hin & Hrl' & Hcan & Hfree & Hst).
  rewrite Hrl in Hrl'; injection Hrl' as <-.
  pose proof (free_calls_nth _ _ _ _ _ _ Hfree) as (_ & Hout & Hfin & _).
  assert (Hokc : is_ok (k_out cl) = true) by (rewrite Hout; exact Hok).
  assert (Hf : k_finish cl = st + fst (script_nth (r_script rl) k)).
  { rewrite Hfin, Hst. unfold finish_of. destruct (k_out cl); try discriminate; reflexivity. }
  destruct (deliver_phase_course c e evs (signed_proposal pr h sig code)) as [Hb|Hb _|w' a' res Hb Ha Hcc plans fd _ _ _ Hs].
  - congruence.
  - apply stop_unblind_nth in Hc; subst; destruct k; discriminate.
  - rewrite Hau in Ha. injection Ha as <- <-.
    pose proof (plans_from_nth_some (e_deadline e) (candidates c w a) (e_relays e) 0%nat i rl Hrl) as Hplan.
    cbn [Nat.add] in Hplan. fold plans in Hplan.
    assert (Hdel : delivery (relay_plan (e_deadline e) (candidates c w a) i rl) = Some (k_finish cl)).
    { unfold relay_plan. assert (He : existsb (Nat.eqb i) (candidates c w a) = true)
        by (apply existsb_exists; exists i; split; [exact Hin|apply Nat.eqb_refl]).
      rewrite He, Hcan. cbn [andb]. eapply plan_ok_delivery; eauto. }
    destruct fd as [t0|] eqn:Hfd.
    2:{ pose proof (first_delivery_none plans Hfd i _ Hplan) as Hn. congruence. }
    destruct (first_delivery_some plans t0 Hfd) as (_ & Hmin).
    pose proof (Hmin i _ _ Hplan Hdel) as Hle.
    assert (Hdl : (t0 <? e_deadline e) = true) by (apply N.ltb_lt; lia).
    rewrite Hdl in Hs. destruct Hs as (_ & Hs). cbn [sp_version signed_proposal] in Hs. rewrite Hfc in Hs.
    eexists t0, _. split; [exact Hs|lia].
Qed.
