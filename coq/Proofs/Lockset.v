From Verif Require Import Lib.Base Lib.Lockset.

(* --- lock sets ----------------------------------------------------------------------------- *)

Lemma lk_eqb_eq p q : lk_eqb p q = true <-> p = q.
Proof.
  destruct p as [m x], q as [m' x']; unfold lk_eqb; cbn.
  rewrite andb_true_iff, N.eqb_eq, Bool.eqb_true_iff. split.
  - intros [-> ->]; reflexivity.
  - intro H; injection H as -> ->; split; reflexivity.
Qed.

Lemma ls_eqb_eq L1 L2 : ls_eqb L1 L2 = true -> L1 = L2.
Proof. intro H. apply (list_eqb_spec lk_eqb lk_eqb_eq). exact H. Qed.

Lemma ls_insert_in p q L : In p (ls_insert q L) <-> p = q \/ In p L.
Proof.
  induction L as [|r L IH]; cbn.
  - split; intros [H|H]; auto; contradiction.
  - destruct (fst q <=? fst r); cbn.
    + split; intros [H|H]; auto.
    + rewrite IH. split; intros H; tauto.
Qed.

Lemma ls_remove_in p q L : In p (ls_remove q L) -> In p L.
Proof.
  induction L as [|r L IH]; cbn; [tauto|].
  destruct (lk_eqb q r); cbn; [tauto|]. intros [H|H]; auto.
Qed.

Lemma holds_false m L : holds m L = false -> forall x, ~ In (m, x) L.
Proof.
  unfold holds. intros H x Hin.
  assert (E : existsb (fun p => fst p =? m) L = true).
  { apply existsb_exists. exists (m, x). split; [exact Hin | cbn; apply N.eqb_refl]. }
  congruence.
Qed.

Lemma holds_mode_true m x L : holds_mode m x L = true -> In (m, x) L.
Proof.
  unfold holds_mode. intro H. apply existsb_exists in H as [q [Hq He]].
  apply lk_eqb_eq in He. subst q. exact Hq.
Qed.

Lemma excl_spec L1 L2 : excl L1 L2 = true ->
  exists m x1 x2, In (m, x1) L1 /\ In (m, x2) L2 /\ (x1 || x2) = true.
Proof.
  unfold excl. intro H. apply existsb_exists in H as [[m x1] [H1 H]].
  apply existsb_exists in H as [[m2 x2] [H2 H]]. cbn in H.
  apply andb_true_iff in H as [Hm Hx]. apply N.eqb_eq in Hm. subst m2.
  exists m, x1, x2. auto.
Qed.

(* --- the analysis is preserved by execution -------------------------------------------------- *)

Lemma incl_app_app {A} (a b c : list A) : incl (a ++ c) ((a ++ b) ++ c).
Proof. intros x H. apply in_app_or in H as [H|H]; apply in_or_app; [left; apply in_or_app; left|right]; exact H. Qed.

Lemma incl_app_app2 {A} (a b c : list A) : incl (b ++ c) ((a ++ b) ++ c).
Proof. intros x H. apply in_app_or in H as [H|H]; apply in_or_app; [left; apply in_or_app; right|right]; exact H. Qed.

Lemma ank_step k L A c k' L' :
  ank k L = Some A -> tstep (k, L) c = Some (k', L') ->
  exists A', ank k' L' = Some A' /\ incl A' A.
Proof.
  destruct k as [|s k0]; cbn [tstep]; [discriminate|].
  destruct s as [|f w|m x|m x|a b|a b|b|]; cbn [ank an]; intros HA Hs; injection Hs as <- <-.
  - (* Skip *)
    destruct (ank k0 L) as [A0|]; [|discriminate]. injection HA as <-. exists A0. split; [reflexivity | apply incl_refl].
  - (* Acc *)
    destruct (ank k0 L) as [A0|]; [|discriminate]. injection HA as <-. exists A0. split; [reflexivity|].
    intros y Hy. right. exact Hy.
  - (* Lock *)
    destruct (holds m L); [discriminate|].
    destruct (ank k0 (ls_insert (m, x) L)) as [A0|]; [|discriminate]. injection HA as <-.
    exists A0. split; [reflexivity | apply incl_refl].
  - (* Unlock *)
    destruct (holds_mode m x L); [|discriminate].
    destruct (ank k0 (ls_remove (m, x) L)) as [A0|]; [|discriminate]. injection HA as <-.
    exists A0. split; [reflexivity | apply incl_refl].
  - (* Seq *)
    destruct (an a L) as [[[L1|] A1]|] eqn:Ea; [| |discriminate].
    + destruct (an b L1) as [[[L2|] A2]|] eqn:Eb; [| |discriminate].
      * destruct (ank k0 L2) as [A3|] eqn:Ek; [|discriminate]. injection HA as <-.
        exists (A1 ++ A2 ++ A3). split; [cbn [ank]; rewrite Ea, Eb, Ek; reflexivity|].
        rewrite app_assoc. apply incl_refl.
      * injection HA as <-. exists (A1 ++ A2). split; [cbn [ank]; rewrite Ea, Eb; reflexivity | apply incl_refl].
    + injection HA as <-. exists A1. split; [cbn [ank]; rewrite Ea; reflexivity | apply incl_refl].
  - (* Branch *)
    destruct (an a L) as [[r1 A1]|] eqn:Ea; [|discriminate].
    destruct (an b L) as [[r2 A2]|] eqn:Eb; [|discriminate].
    destruct (join r1 r2) as [r|] eqn:J; [|discriminate].
    destruct c.
    + destruct r1 as [L1|].
      * assert (r = Some L1) as ->.
        { destruct r2 as [L2|]; cbn in J; [destruct (ls_eqb L1 L2)|]; congruence. }
        destruct (ank k0 L1) as [A3|] eqn:Ek; [|discriminate]. injection HA as <-.
        exists (A1 ++ A3). split; [cbn [ank]; rewrite Ea, Ek; reflexivity | apply incl_app_app].
      * exists A1. split; [cbn [ank]; rewrite Ea; reflexivity|].
        destruct r as [Lr|]; [destruct (ank k0 Lr); [|discriminate]|]; injection HA as <-;
          intros y Hy; rewrite ?in_app_iff; tauto.
    + destruct r2 as [L2|].
      * assert (r = Some L2) as ->.
        { destruct r1 as [L1|]; cbn in J; [|congruence].
          destruct (ls_eqb L1 L2) eqn:E; [|discriminate]. apply ls_eqb_eq in E. congruence. }
        destruct (ank k0 L2) as [A3|] eqn:Ek; [|discriminate]. injection HA as <-.
        exists (A2 ++ A3). split; [cbn [ank]; rewrite Eb, Ek; reflexivity | apply incl_app_app2].
      * exists A2. split; [cbn [ank]; rewrite Eb; reflexivity|].
        destruct r as [Lr|]; [destruct (ank k0 Lr); [|discriminate]|]; injection HA as <-;
          intros y Hy; rewrite ?in_app_iff; tauto.
  - (* Loop *)
    destruct (an b L) as [[[L1|] Ab]|] eqn:Eb; [| |discriminate].
    + destruct (ls_eqb L1 L) eqn:E; [|discriminate]. apply ls_eqb_eq in E. subst L1.
      destruct (ank k0 L) as [A3|] eqn:Ek; [|discriminate]. injection HA as <-.
      destruct c.
      * cbn [ank an]. rewrite Eb. cbn [ank an]. rewrite Eb.
        assert (El : ls_eqb L L = true) by (apply (list_eqb_spec lk_eqb lk_eqb_eq); reflexivity).
        rewrite El, Ek. exists (Ab ++ Ab ++ A3). split; [reflexivity|].
        intros y Hy. apply in_app_or in Hy as [Hy|Hy]; [apply in_or_app; left; exact Hy | exact Hy].
      * exists A3. split; [exact Ek|]. intros y Hy. apply in_or_app. right. exact Hy.
    + destruct (ank k0 L) as [A3|] eqn:Ek; [|discriminate]. injection HA as <-.
      destruct c.
      * cbn [ank]. rewrite Eb. exists Ab. split; [reflexivity|]. intros y Hy. apply in_or_app. left. exact Hy.
      * exists A3. split; [exact Ek|]. intros y Hy. apply in_or_app. right. exact Hy.
  - (* Stop *)
    destruct L as [|p L]; [|discriminate]. exists []. split; [reflexivity|]. intros y [].
Qed.

Lemma ank_head_acc f w k L A : ank (Acc f w :: k) L = Some A -> In (f, w, L) A.
Proof.
  cbn [ank an]. destruct (ank k L); [|discriminate]. intro H; injection H as <-. left. reflexivity.
Qed.

Lemma ank_done L A : ank [] L = Some A -> L = [].
Proof. cbn. destruct L; [reflexivity | discriminate]. Qed.

Lemma tstep_locks k L c k' L' :
  tstep (k, L) c = Some (k', L') ->
  L' = L \/ (exists m x, k = Lock m x :: k' /\ L' = ls_insert (m, x) L) \/ (exists m x, L' = ls_remove (m, x) L).
Proof.
  destruct k as [|s k0]; cbn; [discriminate|].
  destruct s; intro H; injection H as <- <-; auto.
  - right. left. eauto.
  - right. right. eauto.
Qed.

Lemma collect_in entries AG e : collect entries = Some AG -> In e entries ->
  exists A, ank [e] [] = Some A /\ incl A AG.
Proof.
  revert AG. induction entries as [|e0 es IH]; intros AG Hc Hin; [destruct Hin|].
  cbn [collect] in Hc.
  destruct (ank [e0] []) as [A0|] eqn:E0; [|discriminate].
  destruct (collect es) as [B|]; [|discriminate]. injection Hc as <-.
  destruct Hin as [->|Hin].
  - exists A0. split; [exact E0|]. intros y Hy. apply in_or_app. left. exact Hy.
  - destruct (IH B eq_refl Hin) as [A [HA Hi]]. exists A. split; [exact HA|].
    intros y Hy. apply in_or_app. right. apply Hi. exact Hy.
Qed.

(* --- the invariant of the thread system ------------------------------------------------------ *)

Lemma nth_update_same {A} (l : list A) i a t : nth_error l i = Some t -> nth_error (update l i a) i = Some a.
Proof.
  revert i. induction l as [|b l IH]; intros [|i]; cbn; try discriminate; auto.
Qed.

Lemma nth_update_other {A} (l : list A) i j a : i <> j -> nth_error (update l i a) j = nth_error l j.
Proof.
  revert i j. induction l as [|b l IH]; intros [|i] [|j] H; cbn; try reflexivity; try congruence.
  apply IH. congruence.
Qed.

Section Sound.
  Variable skip : field -> bool.
  Variable AG : list access.
  Hypothesis HAG : pairwise_ok skip AG = true.

  Definition covered (t : thread) : Prop := exists A, ank (fst t) (snd t) = Some A /\ incl A AG.

  Definition Inv (S : list thread) : Prop :=
    (forall i t, nth_error S i = Some t -> covered t) /\
    (forall i j ti tj, i <> j -> nth_error S i = Some ti -> nth_error S j = Some tj ->
       forall m xi xj, In (m, xi) (snd ti) -> In (m, xj) (snd tj) -> xi = false /\ xj = false).

  Lemma step_inv S S' : Inv S -> step S S' -> Inv S'.
  Proof.
    intros [Hcov Hcomp] Hst. destruct Hst as [S i t c t' Hi Ht Hmay].
    destruct t as [k L], t' as [k' L'].
    split.
    - intros j tj Hj. destruct (Nat.eq_dec i j) as [<-|Hne].
      + rewrite (nth_update_same S i (k', L') (k, L) Hi) in Hj. injection Hj as <-.
        destruct (Hcov i (k, L) Hi) as [A [HA Hincl]]. cbn [fst snd] in HA.
        destruct (ank_step k L A c k' L' HA Ht) as [A' [HA' Hi']].
        exists A'. split; [exact HA'|]. intros y Hy. apply Hincl. apply Hi'. exact Hy.
      + rewrite (nth_update_other S i j (k', L') Hne) in Hj. apply (Hcov j tj Hj).
    - (* lock compatibility *)
      assert (Hnew : forall j tj, j <> i -> nth_error S j = Some tj ->
                forall m x xj, In (m, x) L' -> In (m, xj) (snd tj) -> x = false /\ xj = false).
      { intros j tj Hne Hj m x xj Hin Hinj.
        destruct (tstep_locks k L c k' L' Ht) as [->|[[m0 [x0 [-> ->]]]|[m0 [x0 ->]]]].
        - apply (Hcomp i j (k, L) tj (not_eq_sym Hne) Hi Hj m x xj Hin Hinj).
        - apply ls_insert_in in Hin as [Heq|Hin].
          + injection Heq as -> ->. unfold may_step in Hmay. rewrite Hi in Hmay.
            apply (Hmay j tj Hne Hj xj Hinj).
          + apply (Hcomp i j (Lock m0 x0 :: k', L) tj (not_eq_sym Hne) Hi Hj m x xj Hin Hinj).
        - apply ls_remove_in in Hin.
          apply (Hcomp i j (k, L) tj (not_eq_sym Hne) Hi Hj m x xj Hin Hinj). }
      intros a b ta tb Hab Ha Hb m xa xb Hina Hinb.
      destruct (Nat.eq_dec i a) as [<-|Hia]; destruct (Nat.eq_dec i b) as [<-|Hib].
      + congruence.
      + rewrite (nth_update_same S i (k', L') (k, L) Hi) in Ha. injection Ha as <-.
        rewrite (nth_update_other S i b (k', L') Hib) in Hb.
        apply (Hnew b tb (not_eq_sym Hib) Hb m xa xb Hina Hinb).
      + rewrite (nth_update_same S i (k', L') (k, L) Hi) in Hb. injection Hb as <-.
        rewrite (nth_update_other S i a (k', L') Hia) in Ha.
        destruct (Hnew a ta (not_eq_sym Hia) Ha m xb xa Hinb Hina). auto.
      + rewrite (nth_update_other S i a (k', L') Hia) in Ha.
        rewrite (nth_update_other S i b (k', L') Hib) in Hb.
        apply (Hcomp a b ta tb Hab Ha Hb m xa xb Hina Hinb).
  Qed.

  Lemma steps_inv S S' : Inv S -> steps S S' -> Inv S'.
  Proof. intros HI Hs. induction Hs as [|S1 S2 S3 _ IH Hst]; [exact HI|]. apply (step_inv S2 S3 (IH HI) Hst). Qed.

  Lemma inv_not_racy S : Inv S -> ~ racy skip S.
  Proof.
    intros [Hcov Hcomp] (i & j & f & w1 & w2 & k1 & k2 & L1 & L2 & Hne & Hi & Hj & Hw & Hsk).
    destruct (Hcov i _ Hi) as [A1 [HA1 Hin1]]. destruct (Hcov j _ Hj) as [A2 [HA2 Hin2]].
    cbn [fst snd] in HA1, HA2.
    apply ank_head_acc in HA1. apply ank_head_acc in HA2.
    apply Hin1 in HA1. apply Hin2 in HA2.
    unfold pairwise_ok in HAG. rewrite forallb_forall in HAG.
    specialize (HAG _ HA1). rewrite forallb_forall in HAG. specialize (HAG _ HA2).
    cbn [conflict_free] in HAG. rewrite N.eqb_refl, Hw, Hsk in HAG. cbn in HAG.
    destruct (excl_spec L1 L2 HAG) as (m & x1 & x2 & H1 & H2 & Hx).
    destruct (Hcomp i j _ _ Hne Hi Hj m x1 x2 H1 H2) as [-> ->]. discriminate.
  Qed.

  Lemma inv_finished_unlocked S : Inv S -> forall i L, nth_error S i = Some ([], L) -> L = [].
  Proof.
    intros [Hcov _] i L Hi. destruct (Hcov i _ Hi) as [A [HA _]]. apply (ank_done L A HA).
  Qed.
End Sound.

Theorem lockset_sound_lemma (skip : field -> bool) (entries : list stmt) :
  analysis_ok skip entries = true ->
  forall S0, initial entries S0 ->
  forall S, steps S0 S ->
    ~ racy skip S /\ (forall i L, nth_error S i = Some ([], L) -> L = []).
Proof.
  unfold analysis_ok. destruct (collect entries) as [AG|] eqn:EC; [|discriminate].
  intros Hok S0 Hinit S Hsteps.
  assert (HI0 : Inv AG S0).
  { split.
    - intros i t Hi. apply nth_error_In in Hi. destruct (Hinit t Hi) as [e [He ->]].
      destruct (collect_in entries AG e EC He) as [A [HA Hincl]]. exists A. split; assumption.
    - intros i j ti tj _ Hi Hj m xi xj Hini _.
      apply nth_error_In in Hi. destruct (Hinit ti Hi) as [e [_ ->]]. destruct Hini. }
  pose proof (steps_inv AG S0 S HI0 Hsteps) as HI.
  split; [apply (inv_not_racy skip AG Hok S HI) | apply (inv_finished_unlocked AG S HI)].
Qed.
