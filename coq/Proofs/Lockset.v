From Verif Require Import Lib.Base Lib.Lockset.

Lemma lk_eqb_eq p q : lk_eqb p q = true <-> p = q.
Proof.
  destruct p as [m x], q as [m' x']; unfold lk_eqb; cbn.
  rewrite andb_true_iff, N.eqb_eq, Bool.eqb_true_iff. split.
  - intros [-> ->]; reflexivity.
  - intro H; injection H as -> ->; split; reflexivity.
Qed.

Lemma ls_eqb_eq L1 L2 : ls_eqb L1 L2 = true <-> L1 = L2.
Proof. apply (list_eqb_spec lk_eqb lk_eqb_eq). Qed.

Lemma ols_eqb_eq a b : ols_eqb a b = true <-> a = b.
Proof. apply (option_eqb_spec ls_eqb ls_eqb_eq). Qed.

Lemma ls_insert_in p q L : In p (ls_insert q L) <-> p = q \/ In p L.
Proof.
  induction L as [|r L IH]; cbn.
  - split; intros [H|H]; auto; contradiction.
  - destruct (fst q <=? fst r); cbn.
    + split; intros [H|H]; auto.
    + rewrite IH. split; intros H; tauto.
Qed.

Lemma ls_remove_in p q L : In p (ls_remove q L) -> In p L.
Proof.
  induction L as [|r L IH]; cbn; [tauto|].
  destruct (lk_eqb q r); cbn; [tauto|]. intros [H|H]; auto.
Qed.

Lemma excl_spec L1 L2 : excl L1 L2 = true ->
  exists m x1 x2, In (m, x1) L1 /\ In (m, x2) L2 /\ (x1 || x2) = true.
Proof.
  unfold excl. intro H. apply existsb_exists in H as [[m x1] [H1 H]].
  apply existsb_exists in H as [[m2 x2] [H2 H]]. cbn in H.
  apply andb_true_iff in H as [Hm Hx]. apply N.eqb_eq in Hm. subst m2.
  exists m, x1, x2. auto.
Qed.

Lemma transfer_exec i L L' : transfer i L = Some L' -> exec i L = L'.
Proof.
  destruct i as [|f w|m x|m x]; cbn; intro H.
  - congruence.
  - congruence.
  - destruct (holds m L); congruence.
  - destruct (holds_mode m x L); congruence.
Qed.

(* --- what check_nodes / accesses_from say about a single node -------------------------------- *)

Lemma check_nodes_nth ls g : forall base n nd,
  check_nodes ls base g = true -> nth_error g n = Some nd -> check_node ls (base + n) nd = true.
Proof.
  induction g as [|nd0 g IH]; intros base n nd Hc Hn; [destruct n; discriminate|].
  cbn in Hc. apply andb_true_iff in Hc as [H0 Hrest].
  destruct n as [|n]; cbn in Hn.
  - injection Hn as <-. rewrite Nat.add_0_r. exact H0.
  - rewrite <- plus_n_Sm. apply (IH (S base) n nd Hrest Hn).
Qed.

Lemma accesses_from_nth ls g : forall base n nd f w L,
  nth_error g n = Some nd -> n_instr nd = IAcc f w -> nth (base + n) ls None = Some L ->
  In (f, w, L, n_owner nd) (accesses_from ls base g).
Proof.
  induction g as [|nd0 g IH]; intros base n nd f w L Hn Hi Hl; [destruct n; discriminate|].
  destruct n as [|n]; cbn in Hn.
  - injection Hn as ->. rewrite Nat.add_0_r in Hl. cbn [accesses_from]. rewrite Hi, Hl. left. reflexivity.
  - rewrite <- plus_n_Sm in Hl. specialize (IH (S base) n nd f w L Hn Hi Hl).
    cbn [accesses_from]. destruct (n_instr nd0); try exact IH.
    destruct (nth base ls None); [right|]; exact IH.
Qed.

Lemma nth_update_same {A} (l : list A) i a t : nth_error l i = Some t -> nth_error (update l i a) i = Some a.
Proof. revert i. induction l as [|b l IH]; intros [|i]; cbn; try discriminate; auto. Qed.

Lemma nth_update_other {A} (l : list A) i j a : i <> j -> nth_error (update l i a) j = nth_error l j.
Proof.
  revert i j. induction l as [|b l IH]; intros [|i] [|j] H; cbn; try reflexivity; try congruence.
  apply IH. congruence.
Qed.

Section Sound.
  Variable skip : field -> bool.
  Variable single : nat -> bool.
  Variable g : graph.
  Variable entries : list nat.
  Variable ls : assignment.
  Hypothesis Hentries : check_entries ls entries = true.
  Hypothesis Hnodes : check_nodes ls 0 g = true.
  Hypothesis Howner : forallb (check_owner g) g = true.
  Hypothesis Hpairs : pairwise_ok skip single (accesses_from ls 0 g) = true.

  Definition tinv (t : thread) : Prop :=
    match t with
    | (At pc, L) => nth pc ls None = Some L
    | (Done, L) => L = []
    end.

  Definition Inv (S : list thread) : Prop :=
    (forall i t, nth_error S i = Some t -> tinv t) /\
    (forall i j ti tj, i <> j -> nth_error S i = Some ti -> nth_error S j = Some tj ->
       forall m xi xj, In (m, xi) (snd ti) -> In (m, xj) (snd tj) -> xi = false /\ xj = false) /\
    (forall i j ti tj o, i <> j -> nth_error S i = Some ti -> nth_error S j = Some tj ->
       owner_of g ti = Some o -> owner_of g tj = Some o -> single o = false).

  (* a step keeps a thread inside its owner group *)
  Lemma tstep_owner t c t' o : tstep g t c = Some t' -> owner_of g t' = Some o -> owner_of g t = Some o.
  Proof.
    destruct t as [[pc|] L]; cbn [tstep]; [|discriminate].
    destruct (nth_error g pc) as [nd|] eqn:Hn; [|discriminate].
    unfold owner_of at 2. cbn [fst]. rewrite Hn.
    destruct (n_succ nd) as [|s0 succs] eqn:Hs.
    - intro H; injection H as <-. cbn. discriminate.
    - destruct (nth_error (s0 :: succs) c) as [s|] eqn:Hc; [|discriminate].
      intro H; injection H as <-. unfold owner_of. cbn [fst].
      destruct (nth_error g s) as [nd'|] eqn:Hn'; [|discriminate].
      intro H; injection H as <-.
      rewrite forallb_forall in Howner. pose proof (Howner nd (nth_error_In _ _ Hn)) as Ho.
      unfold check_owner in Ho. rewrite forallb_forall in Ho. rewrite Hs in Ho.
      specialize (Ho s (nth_error_In _ _ Hc)). rewrite Hn' in Ho. apply Nat.eqb_eq in Ho. congruence.
  Qed.

  Lemma tstep_tinv t c t' : tinv t -> tstep g t c = Some t' -> tinv t'.
  Proof.
    destruct t as [[pc|] L]; cbn [tstep]; [|discriminate].
    intros Hl. destruct (nth_error g pc) as [nd|] eqn:Hn; [|discriminate].
    pose proof (check_nodes_nth ls g 0 pc nd Hnodes Hn) as Hc. cbn [Nat.add] in Hc.
    unfold check_node in Hc. cbn [tinv] in Hl. rewrite Hl in Hc.
    destruct (transfer (n_instr nd) L) as [L'|] eqn:Ht; [|discriminate].
    apply transfer_exec in Ht. rewrite Ht.
    destruct (n_succ nd) as [|s0 succs] eqn:Hs.
    - intro H; injection H as <-. cbn. destruct L'; [reflexivity | discriminate].
    - destruct (nth_error (s0 :: succs) c) as [s|] eqn:Hc2; [|discriminate].
      intro H; injection H as <-. cbn.
      rewrite forallb_forall in Hc. apply nth_error_In in Hc2. specialize (Hc s Hc2).
      apply ols_eqb_eq in Hc. exact Hc.
  Qed.

  Lemma tstep_locks t c t' :
    tstep g t c = Some t' ->
    snd t' = snd t \/
    (exists pc nd m x, fst t = At pc /\ nth_error g pc = Some nd /\ n_instr nd = ILock m x /\ snd t' = ls_insert (m, x) (snd t)) \/
    (exists m x, snd t' = ls_remove (m, x) (snd t)).
  Proof.
    destruct t as [[pc|] L]; cbn [tstep]; [|discriminate].
    destruct (nth_error g pc) as [nd|] eqn:Hn; [|discriminate].
    assert (HL : exec (n_instr nd) L = L \/
                 (exists m x, n_instr nd = ILock m x /\ exec (n_instr nd) L = ls_insert (m, x) L) \/
                 (exists m x, exec (n_instr nd) L = ls_remove (m, x) L)).
    { destruct (n_instr nd) as [|f w|m x|m x]; cbn; eauto.
      right. left. eauto. }
    destruct (n_succ nd) as [|s0 succs].
    - intro H; injection H as <-. cbn [snd fst].
      destruct HL as [->|[[m [x [Hi ->]]]|[m [x ->]]]]; eauto 10.
    - destruct (nth_error (s0 :: succs) c); [|discriminate]. intro H; injection H as <-. cbn [snd fst].
      destruct HL as [->|[[m [x [Hi ->]]]|[m [x ->]]]]; eauto 10.
  Qed.

  Lemma step_inv S S' : Inv S -> step g S S' -> Inv S'.
  Proof.
    intros [Hcov [Hcomp Hown]] Hst. destruct Hst as [S i t c t' Hi Ht Hmay].
    split; [|split].
    - intros j tj Hj. destruct (Nat.eq_dec i j) as [<-|Hne].
      + rewrite (nth_update_same S i t' t Hi) in Hj. injection Hj as <-.
        apply (tstep_tinv t c t' (Hcov i t Hi) Ht).
      + rewrite (nth_update_other S i j t' Hne) in Hj. apply (Hcov j tj Hj).
    - assert (Hnew : forall j tj, j <> i -> nth_error S j = Some tj ->
                forall m x xj, In (m, x) (snd t') -> In (m, xj) (snd tj) -> x = false /\ xj = false).
      { intros j tj Hne Hj m x xj Hin Hinj.
        destruct (tstep_locks t c t' Ht) as [E|[(pc & nd & m0 & x0 & Hpc & Hn & Hins & E)|(m0 & x0 & E)]];
          rewrite E in Hin.
        - apply (Hcomp i j t tj (not_eq_sym Hne) Hi Hj m x xj Hin Hinj).
        - apply ls_insert_in in Hin as [Heq|Hin].
          + injection Heq as -> ->. unfold may_step in Hmay. rewrite Hi in Hmay.
            destruct t as [ts L]. cbn [fst] in Hpc. subst ts. rewrite Hn, Hins in Hmay.
            apply (Hmay j tj Hne Hj xj Hinj).
          + apply (Hcomp i j t tj (not_eq_sym Hne) Hi Hj m x xj Hin Hinj).
        - apply ls_remove_in in Hin.
          apply (Hcomp i j t tj (not_eq_sym Hne) Hi Hj m x xj Hin Hinj). }
      intros a b ta tb Hab Ha Hb m xa xb Hina Hinb.
      destruct (Nat.eq_dec i a) as [<-|Hia]; destruct (Nat.eq_dec i b) as [<-|Hib].
      + congruence.
      + rewrite (nth_update_same S i t' t Hi) in Ha. injection Ha as <-.
        rewrite (nth_update_other S i b t' Hib) in Hb.
        apply (Hnew b tb (not_eq_sym Hib) Hb m xa xb Hina Hinb).
      + rewrite (nth_update_same S i t' t Hi) in Hb. injection Hb as <-.
        rewrite (nth_update_other S i a t' Hia) in Ha.
        destruct (Hnew a ta (not_eq_sym Hia) Ha m xb xa Hinb Hina). auto.
      + rewrite (nth_update_other S i a t' Hia) in Ha.
        rewrite (nth_update_other S i b t' Hib) in Hb.
        apply (Hcomp a b ta tb Hab Ha Hb m xa xb Hina Hinb).
    - intros a b ta tb o Hab Ha Hb Hoa Hob.
      destruct (Nat.eq_dec i a) as [<-|Hia]; destruct (Nat.eq_dec i b) as [<-|Hib].
      + congruence.
      + rewrite (nth_update_same S i t' t Hi) in Ha. injection Ha as <-.
        rewrite (nth_update_other S i b t' Hib) in Hb.
        apply (Hown i b t tb o Hab Hi Hb (tstep_owner t c t' o Ht Hoa) Hob).
      + rewrite (nth_update_same S i t' t Hi) in Hb. injection Hb as <-.
        rewrite (nth_update_other S i a t' Hia) in Ha.
        apply (Hown a i ta t o Hab Ha Hi Hoa (tstep_owner t c t' o Ht Hob)).
      + rewrite (nth_update_other S i a t' Hia) in Ha.
        rewrite (nth_update_other S i b t' Hib) in Hb.
        apply (Hown a b ta tb o Hab Ha Hb Hoa Hob).
  Qed.

  Lemma steps_inv S S' : Inv S -> steps g S S' -> Inv S'.
  Proof. intros HI Hs. induction Hs as [|S1 S2 S3 _ IH Hst]; [exact HI|]. apply (step_inv S2 S3 (IH HI) Hst). Qed.

  Lemma inv_initial S0 : initial single g entries S0 -> Inv S0.
  Proof.
    intros [Hinit Huniq]. split; [|split; [|exact Huniq]].
    - intros i t Hi. apply nth_error_In in Hi. destruct (Hinit t Hi) as [e [He ->]]. cbn.
      unfold check_entries in Hentries. rewrite forallb_forall in Hentries.
      apply ols_eqb_eq. apply Hentries. exact He.
    - intros i j ti tj _ Hi _ m xi xj Hini _.
      apply nth_error_In in Hi. destruct (Hinit ti Hi) as [e [_ ->]]. destruct Hini.
  Qed.

  Lemma inv_not_racy S : Inv S -> ~ racy skip g S.
  Proof.
    intros [Hcov [Hcomp Hown]] (i & j & ti & tj & f & w1 & w2 & Hne & Hi & Hj & Ha1 & Ha2 & Hw & Hsk).
    destruct Ha1 as (pc1 & nd1 & Hp1 & Hn1 & Hi1). destruct Ha2 as (pc2 & nd2 & Hp2 & Hn2 & Hi2).
    destruct ti as [ts1 L1], tj as [ts2 L2]. cbn [fst] in Hp1, Hp2. subst ts1 ts2.
    pose proof (Hcov i _ Hi) as T1. pose proof (Hcov j _ Hj) as T2. cbn [tinv] in T1, T2.
    pose proof (accesses_from_nth ls g 0 pc1 nd1 f w1 L1 Hn1 Hi1 T1) as A1.
    pose proof (accesses_from_nth ls g 0 pc2 nd2 f w2 L2 Hn2 Hi2 T2) as A2.
    pose proof Hpairs as HP. unfold pairwise_ok in HP. rewrite forallb_forall in HP.
    specialize (HP _ A1). rewrite forallb_forall in HP. specialize (HP _ A2).
    cbn [conflict_free] in HP. rewrite N.eqb_refl, Hw, Hsk in HP. cbn [negb andb orb] in HP.
    apply orb_true_iff in HP as [HP|HP].
    - destruct (excl_spec L1 L2 HP) as (m & x1 & x2 & H1 & H2 & Hx).
      destruct (Hcomp i j _ _ Hne Hi Hj m x1 x2 H1 H2) as [-> ->]. discriminate.
    - apply andb_true_iff in HP as [Ho Hs]. apply Nat.eqb_eq in Ho.
      assert (O1 : owner_of g (At pc1, L1) = Some (n_owner nd1)) by (unfold owner_of; cbn [fst]; rewrite Hn1; reflexivity).
      assert (O2 : owner_of g (At pc2, L2) = Some (n_owner nd1)) by (unfold owner_of; cbn [fst]; rewrite Hn2, Ho; reflexivity).
      rewrite (Hown i j _ _ _ Hne Hi Hj O1 O2) in Hs. discriminate.
  Qed.
End Sound.

(* Soundness of a checked assignment, whoever produced it. *)
Lemma checked_assignment_sound (skip : field -> bool) (single : nat -> bool) (g : graph) (entries : list nat) (ls : assignment) :
  check_assignment skip single g entries ls = true ->
  forall S0, initial single g entries S0 ->
  forall S, steps g S0 S ->
    ~ racy skip g S /\ (forall i L, nth_error S i = Some (Done, L) -> L = []).
Proof.
  unfold check_assignment. intro H.
  apply andb_true_iff in H as [H Hp]. apply andb_true_iff in H as [H Ho]. apply andb_true_iff in H as [H Hn].
  apply andb_true_iff in H as [_ He].
  intros S0 Hinit S Hsteps.
  pose proof (steps_inv single g ls Hn Ho S0 S (inv_initial single g entries ls He S0 Hinit) Hsteps) as HI.
  split.
  - apply (inv_not_racy skip single g ls Hp S HI).
  - intros i L Hi. destruct HI as [Hcov _]. apply (Hcov i _ Hi).
Qed.

Lemma lockset_sound_lemma (skip : field -> bool) (single : nat -> bool) (g : graph) (entries : list nat) :
  analysis_ok skip single g entries = true ->
  forall S0, initial single g entries S0 ->
  forall S, steps g S0 S ->
    ~ racy skip g S /\ (forall i L, nth_error S i = Some (Done, L) -> L = []).
Proof. unfold analysis_ok. apply checked_assignment_sound. Qed.
