(* C06: what the signing functions hand to the domain provider, as transcribed by gotrans from
   services/signer/standard/*.go on every run (coq/Gen/Pure_C06.v): the epoch expression of each
   Domain call, the receiver field passed as domain type, and the chain-spec key that New reads into
   each of those fields.  The model (Model/C06_Signer.v) uses the same epoch, and the field of every
   duty is filled from the spec constant that the consensus specification names for that duty. *)
From Coq Require Import ZArith NArith Bool List String Lia.
From Coq Require Import ZifyBool ZifyN.
From Verif Require Import Lib.Base Lib.GoInt Lib.Ssz Proofs.TieLib Gen.Pure_C06 Model.C06_Signer.
Import ListNotations.
Local Open Scope Z_scope.

Lemma tie_epoch_of (Sv : service) (slot : N) :
  Z.of_N (epoch_of Sv slot) = Z.of_N slot / Z.of_N (s_spe Sv).
Proof. unfold epoch_of. apply N2Z.inj_div. Qed.

Lemma tie_contribution_other (Sv : service) (slot epoch : N) :
  negb (epoch_of Sv slot =? epoch)%N =
  signer_contributionOtherEpoch (Z.of_N (s_spe Sv)) (Z.of_N epoch) (Z.of_N slot).
Proof.
  unfold signer_contributionOtherEpoch. rewrite <- tie_epoch_of. rewrite of_N_eqb. reflexivity.
Qed.

(* the receiver field each signing function passes to the domain provider for a duty message *)
Definition op_field (m : message) : string :=
  match m with
  | MAttestation _ => signer_attestationsDomainField
  | MBlock _ => signer_proposalDomainField
  | MRandao _ => signer_randaoDomainField
  | MSlotSelection _ => signer_slotSelectionDomainField
  | MSyncSelection _ _ => signer_syncSelectionDomainField
  | MAggregateAndProof _ _ => signer_aggregateDomainField
  | MSyncMessage _ _ => signer_syncRootDomainField
  | MContribution _ => signer_contributionDomainField
  | MRegistration _ => signer_registrationDomainField
  end.

(* the model's service record under the source's field names *)
Definition field_value (Sv : service) (f : string) : option N :=
  if String.eqb f "beaconAttesterDomainType" then Some (s_attester Sv)
  else if String.eqb f "beaconProposerDomainType" then Some (s_proposer Sv)
  else if String.eqb f "randaoDomainType" then Some (s_randao Sv)
  else if String.eqb f "selectionProofDomainType" then Some (s_selection Sv)
  else if String.eqb f "aggregateAndProofDomainType" then Some (s_aggregate Sv)
  else if String.eqb f "syncCommitteeDomainType" then s_sync Sv
  else if String.eqb f "syncCommitteeSelectionProofDomainType" then s_sync_selection Sv
  else if String.eqb f "contributionAndProofDomainType" then s_contribution Sv
  else if String.eqb f "applicationBuilderDomainType" then s_builder Sv
  else None.

(* the consensus (and builder) specification's constants under their names in the chain spec *)
Definition key_constant (k : string) : option N :=
  if String.eqb k "DOMAIN_BEACON_PROPOSER" then Some DOMAIN_BEACON_PROPOSER
  else if String.eqb k "DOMAIN_BEACON_ATTESTER" then Some DOMAIN_BEACON_ATTESTER
  else if String.eqb k "DOMAIN_RANDAO" then Some DOMAIN_RANDAO
  else if String.eqb k "DOMAIN_SELECTION_PROOF" then Some DOMAIN_SELECTION_PROOF
  else if String.eqb k "DOMAIN_AGGREGATE_AND_PROOF" then Some DOMAIN_AGGREGATE_AND_PROOF
  else if String.eqb k "DOMAIN_SYNC_COMMITTEE" then Some DOMAIN_SYNC_COMMITTEE
  else if String.eqb k "DOMAIN_SYNC_COMMITTEE_SELECTION_PROOF" then Some DOMAIN_SYNC_COMMITTEE_SELECTION_PROOF
  else if String.eqb k "DOMAIN_CONTRIBUTION_AND_PROOF" then Some DOMAIN_CONTRIBUTION_AND_PROOF
  else if String.eqb k "DOMAIN_APPLICATION_BUILDER" then Some DOMAIN_APPLICATION_BUILDER
  else None.

Fixpoint assoc_str (k : string) (l : list (string * string)) : option string :=
  match l with
  | [] => None
  | (a, b) :: r => if String.eqb a k then Some b else assoc_str k r
  end.

(* New fills the field of m's signing function from the spec key whose constant the specification names for m *)
Lemma tie_field_key (m : message) :
  match assoc_str (op_field m) signer_domainSpecKeys with
  | Some k => key_constant k = Some (spec_domain_type m)
  | None => False
  end.
Proof. destruct m; vm_compute; reflexivity. Qed.

(* and the model's service built from the spec holds exactly that constant under that field *)
Lemma tie_field_value (c : chain) (m : message) :
  field_value (spec_service c) (op_field m) = Some (spec_domain_type m).
Proof. destruct m; reflexivity. Qed.

Lemma tie_single_attestation_same_field :
  signer_attestationDomainField = signer_attestationsDomainField.
Proof. reflexivity. Qed.

Lemma spec_keys_functional :
  NoDup (map fst signer_domainSpecKeys) /\ NoDup (map snd signer_domainSpecKeys).
Proof.
  split; vm_compute;
    repeat (constructor; [ intro Hin; cbn in Hin; repeat (destruct Hin as [Hin|Hin]; [discriminate Hin|]); exact Hin | ]);
    constructor.
Qed.
