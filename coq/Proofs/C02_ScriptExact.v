(* C02 -- exactly once at script level: in EVERY one-off script (any calls, any instants) run on
   the repaired scheduler, every final state in which no CancelJob reported success, the parent
   context is alive, jobFunc is not in progress and the job's time has passed has exactly one
   start.  The proof carries an invariant through all moves of all scripts (call statuses versus
   the program counters of the RunJob / CancelJob slots, the timer deadline) and uses it to turn
   "no move is possible at the last instant" into quiescence of the job machine, to which the
   reflective theorem over all schedules applies. *)
From Coq Require Import PArith FMapPositive.
From Verif Require Import Lib.Base Lib.Sched Lib.Reach Model.C02_Scheduler Model.C02_Script Proofs.C02 Proofs.C02_Script.
From Coq Require Import ZifyBool ZifyN ZifyNat.

(* ---------------------------------------------------------------------------------------------
   more reflective facts about the repaired one-off job *)

Definition g_busy (g : gpc) : bool := match g with GRunBusy | GTimBusy => true | _ => false end.

Definition p_shape (s : jstate) : bool :=
  negb (gpc_eqb (g_pc s) GRt) && negb (gpc_eqb (g_pc s) GEndDel) && negb (gpc_eqb (g_pc s) GEndFin)
  && (negb (g_busy (g_pc s)) || (running s =? 1)).
Lemma shape_F : forallb p_shape R_F = true. Proof. vm_compute; reflexivity. Qed.

(* the goroutine has returned, nobody cancelled, the context is alive: the job has run *)
Definition p_done (s : jstate) : bool :=
  negb (quiescent cfF s && gpc_eqb (g_pc s) GDone && negb (cancel_ok s) && negb (ctx_done s)) || (runs s =? 1).
Lemma done_F : forallb p_done R_F = true. Proof. vm_compute; reflexivity. Qed.

(* ---------------------------------------------------------------------------------------------
   which program counters a step can change *)

Definition r_act (a : act) : bool := match a with RunLookup | REnter | RStep | RReset => true | _ => false end.
Definition c_act (a : act) : bool := match a with CancelLookup | CStep => true | _ => false end.

Definition g_act (a : act) : bool :=
  match a with TimerFire | GPick _ | GRtOut _ | JobReturn | GStep => true | _ => false end.
Lemma g_act_rc : forall a, g_act a = true -> r_act a = false /\ c_act a = false.
Proof. intros a H; destruct a; try discriminate H; split; reflexivity. Qed.

Lemma rc_finalise : forall s, r_pc (finalise s) = r_pc s /\ c_pc (finalise s) = c_pc s.
Proof. intro s; unfold finalise; destruct (cancel_closed s || run_closed s); split; reflexivity. Qed.

Lemma step_rpc : forall cf c a c', step cf c a = Some c' -> r_act a = false -> r_pc c' = r_pc c.
Proof.
  intros cf c a c' H Ha.
  destruct a; try discriminate Ha; cbn [step] in H;
    unfold g_pick, g_step, g_return, g_rt, cancel_lookup, c_step, call_job, return_job in H;
    break_hyp H; injection H as <-;
    cbn [r_pc set_g set_r set_c set_table set_active set_finalised set_runq set_cancelq set_timer set_ctx
         set_counts set_run_ok set_cancel_ok set_panic];
    rewrite ?(proj1 (rc_finalise _));
    cbn [r_pc set_g set_r set_c set_table set_active set_finalised set_runq set_cancelq set_timer set_ctx
         set_counts set_run_ok set_cancel_ok set_panic]; first [reflexivity | congruence].
Qed.

Lemma step_cpc : forall cf c a c', step cf c a = Some c' -> c_act a = false -> c_pc c' = c_pc c.
Proof.
  intros cf c a c' H Ha.
  destruct a; try discriminate Ha; cbn [step] in H;
    unfold g_pick, g_step, g_return, g_rt, run_lookup, r_enter, r_step, r_reset, call_job, return_job in H;
    break_hyp H; injection H as <-;
    cbn [c_pc set_g set_r set_c set_table set_active set_finalised set_runq set_cancelq set_timer set_ctx
         set_counts set_run_ok set_cancel_ok set_panic];
    rewrite ?(proj2 (rc_finalise _));
    cbn [c_pc set_g set_r set_c set_table set_active set_finalised set_runq set_cancelq set_timer set_ctx
         set_counts set_run_ok set_cancel_ok set_panic]; first [reflexivity | congruence].
Qed.

(* ---------------------------------------------------------------------------------------------
   replacing one element of a list ([with_call] does this to the call statuses) *)

Definition upd {X} (l : list X) (i : nat) (x : X) : list X := firstn i l ++ x :: skipn (Datatypes.S i) l.

Lemma upd_cons_S : forall {X} (a : X) l i x, upd (a :: l) (Datatypes.S i) x = a :: upd l i x.
Proof. reflexivity. Qed.

Lemma upd_length : forall {X} (l : list X) i x, (i < length l)%nat -> length (upd l i x) = length l.
Proof.
  induction l as [|a l IH]; intros i x H; cbn in H; [lia|].
  destruct i; [reflexivity|]. rewrite upd_cons_S. cbn [length]. rewrite IH; [reflexivity | lia].
Qed.

Lemma upd_nth_same : forall {X} (l : list X) i x, (i < length l)%nat -> nth_error (upd l i x) i = Some x.
Proof.
  induction l as [|a l IH]; intros i x H; cbn in H; [lia|].
  destruct i; [reflexivity|]. rewrite upd_cons_S. cbn [nth_error]. apply IH; lia.
Qed.

Lemma upd_nth_other : forall {X} (l : list X) i j x, i <> j -> (i < length l)%nat -> nth_error (upd l i x) j = nth_error l j.
Proof.
  induction l as [|a l IH]; intros i j x Hne H; cbn in H; [lia|].
  destruct i.
  - destruct j; [congruence | reflexivity].
  - rewrite upd_cons_S. destruct j; [reflexivity|]. cbn [nth_error]. apply IH; lia.
Qed.

Lemma with_call_calls : forall t i st c, t_calls (with_call t i st c) = upd (t_calls t) i st.
Proof. reflexivity. Qed.

Lemma map_opt_nil : forall {X Y} (f : X -> Y) (o : option X), map f (opt_list o) = [] -> o = None.
Proof. intros X Y f [x|] H; [discriminate H | reflexivity]. Qed.

(* a move of call number k is among the moves of the script *)
Lemma all_call_moves_nth : forall sc now t cls sts i0 k cl st,
    nth_error cls k = Some cl -> nth_error sts k = Some st ->
    incl (call_moves sc now t (i0 + k) cl st) (all_call_moves sc now t i0 cls sts).
Proof.
  intros sc now t cls; induction cls as [|c cls IH]; intros sts i0 k cl st Hc Hs; [destruct k; discriminate Hc|].
  destruct sts as [|s sts]; [destruct k; discriminate Hs|].
  cbn [all_call_moves]. destruct k.
  - cbn in Hc, Hs. injection Hc as ->. injection Hs as ->. rewrite Nat.add_0_r. apply incl_appl, incl_refl.
  - cbn in Hc, Hs. apply incl_appr. replace (i0 + Datatypes.S k)%nat with (Datatypes.S i0 + k)%nat by lia.
    apply IH; assumption.
Qed.

Lemma all_call_moves_in : forall sc now t cls sts i0 t',
    In t' (all_call_moves sc now t i0 cls sts) ->
    exists k cl st, nth_error cls k = Some cl /\ nth_error sts k = Some st /\ In t' (call_moves sc now t (i0 + k) cl st).
Proof.
  intros sc now t cls; induction cls as [|c cls IH]; intros sts i0 t' H; cbn [all_call_moves] in H; [destruct H|].
  destruct sts as [|s sts]; [destruct H|].
  apply in_app_or in H as [H|H].
  - exists 0%nat, c, s. rewrite Nat.add_0_r. repeat split; assumption.
  - apply IH in H as [k [cl [st [H1 [H2 H3]]]]]. exists (Datatypes.S k), cl, st.
    replace (i0 + Datatypes.S k)%nat with (Datatypes.S i0 + k)%nat by lia. repeat split; assumption.
Qed.

(* ---------------------------------------------------------------------------------------------
   the invariant of one-off scripts *)

Definition r_active (r : rpc) : bool := match r with RNone | RDone _ => false | _ => true end.
Definition c_active (c : cpc) : bool := match c with CNone | CDone _ => false | _ => true end.

Section OneOff.
  Variable sc : script.
  Hypothesis Hk : sc_kind sc = OneOff.
  Hypothesis Hv : sc_variant sc = Fixed.

  Lemma cfg_F : sc_cfg sc = cfF.
  Proof. unfold sc_cfg, cfF. rewrite Hk, Hv. reflexivity. Qed.

  Definition has_slot (k : ckind) (t : tstate) : Prop :=
    exists i cl, nth_error (sc_calls sc) i = Some cl /\ cl_kind cl = k /\ nth_error (t_calls t) i = Some InSlot.

  Record kinv (t : tstate) : Prop := {
    k_len : length (t_calls t) = length (sc_calls sc);
    k_dl : t_deadline t = sc_due sc;
    k_r : r_active (r_pc (t_core t)) = true -> has_slot KRun t;
    k_c : c_active (c_pc (t_core t)) = true -> has_slot KCancel t;
    k_noptr : forall i, nth_error (t_calls t) i <> Some HasPtr
  }.

  Lemma hs_other : forall k t i st st' c', has_slot k t -> nth_error (t_calls t) i = Some st -> st <> InSlot ->
      has_slot k (with_call t i st' c').
  Proof.
    intros k t i st st' c' [j [cl [H1 [H2 H3]]]] Hi Hne. exists j, cl. repeat split; try assumption.
    rewrite with_call_calls, upd_nth_other; [exact H3 | | apply nth_error_Some; congruence].
    intros ->. rewrite Hi in H3. congruence.
  Qed.

  Lemma hs_other_kind : forall k t i cl st st' c', has_slot k t -> nth_error (sc_calls sc) i = Some cl ->
      nth_error (t_calls t) i = Some st -> cl_kind cl <> k -> has_slot k (with_call t i st' c').
  Proof.
    intros k t i cl st st' c' [j [cl' [H1 [H2 H3]]]] Hi Hs Hne. exists j, cl'. repeat split; try assumption.
    rewrite with_call_calls, upd_nth_other; [exact H3 | | apply nth_error_Some; congruence].
    intros ->. rewrite Hi in H1. congruence.
  Qed.

  Lemma hs_self : forall k t i cl st c', nth_error (sc_calls sc) i = Some cl -> cl_kind cl = k ->
      nth_error (t_calls t) i = Some st -> has_slot k (with_call t i InSlot c').
  Proof.
    intros k t i cl st c' Hi Hk' Hs. exists i, cl. repeat split; try assumption.
    rewrite with_call_calls. apply upd_nth_same. apply nth_error_Some; congruence.
  Qed.

  Lemma noptr_upd : forall t i st st' c', (forall j, nth_error (t_calls t) j <> Some HasPtr) ->
      nth_error (t_calls t) i = Some st -> st' <> HasPtr ->
      forall j, nth_error (t_calls (with_call t i st' c')) j <> Some HasPtr.
  Proof.
    intros t i st st' c' H Hi Hne j. rewrite with_call_calls.
    destruct (Nat.eq_dec i j) as [<-|Hij].
    - rewrite upd_nth_same; [congruence | apply nth_error_Some; congruence].
    - rewrite upd_nth_other; [apply H | exact Hij | apply nth_error_Some; congruence].
  Qed.

  (* the pieces of a new state built by [with_call] *)
  Lemma kinv_with_call : forall t i st st' c',
      kinv t -> nth_error (t_calls t) i = Some st -> st' <> HasPtr ->
      (r_active (r_pc c') = true -> has_slot KRun (with_call t i st' c')) ->
      (c_active (c_pc c') = true -> has_slot KCancel (with_call t i st' c')) ->
      kinv (with_call t i st' c').
  Proof.
    intros t i st st' c' K Hi Hne Hr Hc. constructor.
    - rewrite with_call_calls, upd_length; [apply (k_len t K) | apply nth_error_Some; congruence].
    - exact (k_dl t K).
    - exact Hr.
    - exact Hc.
    - eapply noptr_upd; [apply (k_noptr t K) | exact Hi | exact Hne].
  Qed.

  Lemma call_moves_kinv : forall now t i cl st t',
      kinv t -> nth_error (sc_calls sc) i = Some cl -> nth_error (t_calls t) i = Some st ->
      In t' (call_moves sc now t i cl st) -> kinv t'.
  Proof.
    intros now t i cl st t' K Hcl Hst H. unfold call_moves in H. rewrite Hk in H.
    pose proof (k_r t K) as Kr. pose proof (k_c t K) as Kc.
    destruct st; try (destruct H; fail).
    - (* Waiting *)
      assert (Hw : Waiting <> InSlot) by discriminate.
      assert (Hsame : forall st', st' <> HasPtr -> kinv (with_call t i st' (t_core t))).
      { intros st' Hne. refine (kinv_with_call t i _ _ _ K Hst Hne _ _); intro Ha;
          eapply hs_other; eauto. }
      destruct (cl_at cl <=? now); [|destruct H].
      destruct (cl_kind cl) eqn:Ekind.
      + destruct (in_table (t_core t)).
        * destruct (step (sc_cfg sc) (t_core t) RunLookup) as [c'|] eqn:E; [|destruct H].
          destruct H as [<-|[]]. refine (kinv_with_call t i _ _ _ K Hst _ _ _); [discriminate | |].
          -- intros _. eapply hs_self; eauto.
          -- intro Ha. rewrite (step_cpc _ _ _ _ E eq_refl) in Ha. eapply hs_other; eauto.
        * destruct H as [<-|[]]. apply Hsame; discriminate.
      + destruct (in_table (t_core t)).
        * destruct (step (sc_cfg sc) (t_core t) CancelLookup) as [c'|] eqn:E; [|destruct H].
          destruct H as [<-|[]]. refine (kinv_with_call t i _ _ _ K Hst _ _ _); [discriminate | |].
          -- intro Ha. rewrite (step_rpc _ _ _ _ E eq_refl) in Ha. eapply hs_other; eauto.
          -- intros _. eapply hs_self; eauto.
        * destruct H as [<-|[]]. apply Hsame; discriminate.
      + destruct H as [<-|[]].
        destruct (step (sc_cfg sc) (t_core t) CtxCancel) as [c'|] eqn:E; [|apply Hsame; discriminate].
        refine (kinv_with_call t i _ _ _ K Hst _ _ _); [discriminate | |].
        -- intro Ha. rewrite (step_rpc _ _ _ _ E eq_refl) in Ha. eapply hs_other; eauto.
        -- intro Ha. rewrite (step_cpc _ _ _ _ E eq_refl) in Ha. eapply hs_other; eauto.
      + destruct H as [<-|[]]. apply Hsame; discriminate.
      + destruct H as [<-|[]]. apply Hsame; discriminate.
    - (* HasPtr: never in a one-off script *)
      exfalso. exact (k_noptr t K i Hst).
    - (* InSlot *)
      destruct (cl_kind cl) eqn:Ekind; try (destruct H; fail).
      + set (next := match r_pc (t_core t) with RHave => step (sc_cfg sc) (t_core t) REnter | _ => step (sc_cfg sc) (t_core t) RStep end) in H.
        destruct next as [c'|] eqn:E; [|destruct H].
        assert (Hn : exists a, c_act a = false /\ step (sc_cfg sc) (t_core t) a = Some c').
        { subst next. destruct (r_pc (t_core t)); [exists RStep | exists REnter | exists RStep | exists RStep | exists RStep | exists RStep | exists RStep];
            (split; [reflexivity | exact E]). }
        destruct Hn as [a [Ha Hs]].
        assert (Hkc : forall st' c'', c_pc c'' = c_pc c' -> c_active (c_pc c'') = true -> has_slot KCancel (with_call t i st' c'')).
        { intros st' c'' Heq Hact. rewrite Heq, (step_cpc _ _ _ _ Hs Ha) in Hact.
          eapply hs_other_kind; eauto. rewrite Ekind; discriminate. }
        destruct (r_pc c') eqn:Er;
          try (destruct H as [<-|[]]; refine (kinv_with_call t i _ _ _ K Hst _ _ _); [discriminate | intros _; eapply hs_self; eauto | apply Hkc; reflexivity]).
        (* RDone *)
        destruct H as [<-|[]].
        destruct (step (sc_cfg sc) c' RReset) as [c''|] eqn:E2.
        * refine (kinv_with_call t i _ _ _ K Hst _ _ _); [discriminate | |].
          -- intro Hact. exfalso. revert E2 Hact. unfold step, r_reset. rewrite Er.
             destruct (k_kind (sc_cfg sc)); [discriminate|]. intros [= <-]. cbn. discriminate.
          -- apply Hkc. exact (step_cpc _ _ _ _ E2 eq_refl).
        * refine (kinv_with_call t i _ _ _ K Hst _ _ _); [discriminate | |].
          -- rewrite Er. discriminate.
          -- apply Hkc. reflexivity.
      + destruct (step (sc_cfg sc) (t_core t) CStep) as [c'|] eqn:E; [|destruct H].
        assert (Hkr : forall st', r_active (r_pc c') = true -> has_slot KRun (with_call t i st' c')).
        { intros st' Hact. rewrite (step_rpc _ _ _ _ E eq_refl) in Hact.
          eapply hs_other_kind; eauto. rewrite Ekind; discriminate. }
        destruct (c_pc c') eqn:Ec; destruct H as [<-|[]];
          (refine (kinv_with_call t i _ _ _ K Hst _ _ _); [discriminate | apply Hkr | rewrite Ec; first [discriminate | intros _; eapply hs_self; eauto]]).
  Qed.
End OneOff.

Section OneOffFinal.
  Variable sc : script.
  Hypothesis Hk : sc_kind sc = OneOff.
  Hypothesis Hv : sc_variant sc = Fixed.

  Let cfgF := cfg_F sc Hk Hv.

  Lemma g_moves_shape : forall now t t', In t' (g_moves sc now t) ->
      t_calls t' = t_calls t /\ (g_pc (t_core t) <> GRt -> t_deadline t' = t_deadline t)
      /\ exists a, g_act a = true /\ step (sc_cfg sc) (t_core t) a = Some (t_core t').
  Proof.
    intros now t t' H. unfold g_moves in H.
    assert (Hcore : forall a, g_act a = true ->
              In t' (map (with_core t) (opt_list (step (sc_cfg sc) (t_core t) a))) ->
              t_calls t' = t_calls t /\ t_deadline t' = t_deadline t
              /\ exists a, g_act a = true /\ step (sc_cfg sc) (t_core t) a = Some (t_core t')).
    { intros a Hr Hin. apply in_map_opt in Hin as [c' [Hs ->]]. split; [reflexivity|]. split; [reflexivity|]. exists a; auto. }
    assert (Hcore' : forall a, g_act a = true ->
              In t' (map (with_core t) (opt_list (step (sc_cfg sc) (t_core t) a))) ->
              t_calls t' = t_calls t /\ (g_pc (t_core t) <> GRt -> t_deadline t' = t_deadline t)
              /\ exists a, g_act a = true /\ step (sc_cfg sc) (t_core t) a = Some (t_core t')).
    { intros a Hr Hin. destruct (Hcore a Hr Hin) as [H1 [H2 H3]]. auto. }
    destruct (g_pc (t_core t)) eqn:Hg;
      try (apply (Hcore' GStep); [reflexivity | exact H]).
    - (* GRt *)
      split; [|split; [intro Hne; congruence|]].
      + destruct (0 <? t_rt_left t); [apply in_map_opt in H as [c' [Hs ->]]; reflexivity | apply in_map_opt in H as [c' [Hs ->]]; reflexivity].
      + destruct (0 <? t_rt_left t); apply in_map_opt in H as [c' [Hs ->]];
          [exists (GRtOut RtNext) | exists (GRtOut RtStop)]; auto.
    - (* GSel *)
      repeat (apply in_app_or in H as [H|H]).
      + destruct (t_deadline t <=? now); [|destruct H]. apply (Hcore' TimerFire); auto.
      + apply (Hcore' (GPick BCtx)); auto.
      + apply (Hcore' (GPick BCancel)); auto.
      + apply (Hcore' (GPick BRun)); auto.
      + apply (Hcore' (GPick BTimer)); auto.
    - (* GRunCall *)
      apply in_map_opt in H as [c' [Hs ->]]. split; [reflexivity|]. split; [reflexivity|]. exists GStep; auto.
    - (* GRunBusy *)
      destruct (t_busy_until t <=? now); [|destruct H]. apply (Hcore' JobReturn); auto.
    - (* GTimCall *)
      apply in_map_opt in H as [c' [Hs ->]]. split; [reflexivity|]. split; [reflexivity|]. exists GStep; auto.
    - (* GTimBusy *)
      destruct (t_busy_until t <=? now); [|destruct H]. apply (Hcore' JobReturn); auto.
  Qed.

  Lemma core_in_RF : forall t, script_inv sc t -> In (t_core t) R_F.
  Proof. intros t [[sch Hs] _]. rewrite Hs, cfgF. apply reach_F. Qed.

  Lemma shape_of : forall c, In c R_F -> p_shape c = true.
  Proof. intros c Hc. pose proof shape_F as H. rewrite forallb_forall in H. exact (H c Hc). Qed.

  Lemma g_moves_kinv : forall now t t', kinv sc t -> In (t_core t) R_F -> In t' (g_moves sc now t) -> kinv sc t'.
  Proof.
    intros now t t' K HR H. destruct (g_moves_shape now t t' H) as [Hc [Hd [a [Hga Hs]]]]. destruct (g_act_rc a Hga) as [Hra Hca].
    assert (Hn : g_pc (t_core t) <> GRt).
    { pose proof (shape_of _ HR) as Hsh. unfold p_shape in Hsh. intro Hg. rewrite Hg in Hsh. discriminate Hsh. }
    constructor.
    - rewrite Hc. apply (k_len sc t K).
    - rewrite (Hd Hn). apply (k_dl sc t K).
    - intro Ha. rewrite (step_rpc _ _ _ _ Hs Hra) in Ha.
      destruct (k_r sc t K Ha) as [i [cl [H1 [H2 H3]]]]. exists i, cl. rewrite Hc. auto.
    - intro Ha. rewrite (step_cpc _ _ _ _ Hs Hca) in Ha.
      destruct (k_c sc t K Ha) as [i [cl [H1 [H2 H3]]]]. exists i, cl. rewrite Hc. auto.
    - intro i. rewrite Hc. apply (k_noptr sc t K).
  Qed.

  Definition full_inv (t : tstate) : Prop := script_inv sc t /\ kinv sc t.

  Lemma full_inv_holds : forall t, In t (finals sc) -> full_inv t.
  Proof.
    intros t Ht. apply (finals_inv sc full_inv); [ | | exact Ht].
    - intros now x x' [Hx Kx] Hm. split.
      + pose proof (moves_rel _ _ _ _ Hm) as Hr. unfold move_rel in Hr. exact (msteps_inv _ _ _ Hr Hx).
      + unfold moves in Hm. apply in_app_or in Hm as [Hm|Hm].
        * eapply g_moves_kinv; [exact Kx | apply core_in_RF; exact Hx | exact Hm].
        * apply all_call_moves_in in Hm as [k [cl [st [H1 [H2 H3]]]]].
          eapply (call_moves_kinv sc Hk); [exact Kx | exact H1 | exact H2 | exact H3].
    - split.
      + split; [exists []; reflexivity | reflexivity].
      + constructor; cbn [t_init t_calls t_deadline t_core].
        * apply map_length.
        * rewrite Hk; reflexivity.
        * unfold init; cbn. discriminate.
        * unfold init; cbn. discriminate.
        * intro i. rewrite nth_error_map. destruct (nth_error (sc_calls sc) i); discriminate.
  Qed.

  (* no move at the last instant => the job machine is quiescent (when jobFunc is not in progress) *)
  Lemma stuck_quiescent : forall t now, full_inv t -> moves sc now t = [] -> running (t_core t) = 0 ->
      quiescent cfF (t_core t) = true.
  Proof.
    intros t now [Hs K] Hm Hrun.
    pose proof (core_in_RF t Hs) as HR. pose proof (shape_of _ HR) as Hsh.
    unfold moves in Hm. apply app_eq_nil in Hm as [Hg Hc].
    assert (Hnb : g_busy (g_pc (t_core t)) = false).
    { unfold p_shape in Hsh. destruct (g_busy (g_pc (t_core t))); [|reflexivity].
      rewrite Hrun in Hsh. cbn in Hsh. rewrite !andb_false_r in Hsh. discriminate Hsh. }
    assert (Hnrt : g_pc (t_core t) <> GRt).
    { unfold p_shape in Hsh. intro Hg'. rewrite Hg' in Hsh. discriminate Hsh. }
    (* no call move: the slots are idle or blocked *)
    assert (Hcall : forall k cl, nth_error (sc_calls sc) k = Some cl -> nth_error (t_calls t) k = Some InSlot ->
                call_moves sc now t k cl InSlot = []).
    { intros k cl H1 H2. pose proof (all_call_moves_nth sc now t _ _ 0%nat k cl InSlot H1 H2) as Hi.
      rewrite Hc in Hi. cbn [Nat.add] in Hi. destruct (call_moves sc now t k cl InSlot) as [|x l]; [reflexivity|].
      exfalso. exact (Hi x (or_introl eq_refl)). }
    unfold quiescent. apply forallb_forall. intros a Ha.
    unfold thread_acts in Ha. apply filter_In in Ha as [_ Ha].
    rewrite <- cfgF.
    destruct (step (sc_cfg sc) (t_core t) a) as [c'|] eqn:E; [exfalso | reflexivity].
    destruct a; try discriminate Ha.
    - (* JobReturn *)
      cbn [step] in E. unfold g_return in E. destruct (g_pc (t_core t)); try discriminate E; discriminate Hnb.
    - (* REnter *)
      assert (Hr : r_pc (t_core t) = RHave).
      { cbn [step] in E. unfold r_enter in E. rewrite cfgF in E. cbn [k_kind cfF] in E.
        destruct (lock_free (t_core t)); [|discriminate E]. destruct (r_pc (t_core t)); try discriminate E. reflexivity. }
      destruct (k_r sc t K) as [k [cl [H1 [H2 H3]]]]; [rewrite Hr; reflexivity|].
      pose proof (Hcall k cl H1 H3) as Hn. unfold call_moves in Hn. rewrite H2, Hr, E in Hn.
      destruct (r_pc c'); discriminate Hn.
    - (* RStep *)
      assert (Hr : r_active (r_pc (t_core t)) = true /\ r_pc (t_core t) <> RHave).
      { cbn [step] in E. unfold r_step in E. destruct (r_pc (t_core t)); try discriminate E; split; try reflexivity; discriminate. }
      destruct Hr as [Hr1 Hr2].
      destruct (k_r sc t K Hr1) as [k [cl [H1 [H2 H3]]]].
      pose proof (Hcall k cl H1 H3) as Hn. unfold call_moves in Hn. rewrite H2 in Hn.
      destruct (r_pc (t_core t)) eqn:Er; try congruence; try discriminate Hr1;
        rewrite E in Hn; destruct (r_pc c'); discriminate Hn.
    - (* RReset *)
      cbn [step] in E. unfold r_reset in E. rewrite cfgF in E. cbn [k_kind cfF] in E. discriminate E.
    - (* CStep *)
      assert (Hcp : c_active (c_pc (t_core t)) = true).
      { cbn [step] in E. unfold c_step in E. destruct (c_pc (t_core t)); try discriminate E; reflexivity. }
      destruct (k_c sc t K Hcp) as [k [cl [H1 [H2 H3]]]].
      pose proof (Hcall k cl H1 H3) as Hn. unfold call_moves in Hn. rewrite H2, E in Hn.
      destruct (c_pc c'); discriminate Hn.
    - (* GPick *)
      assert (Hsel : g_pc (t_core t) = GSel).
      { cbn [step] in E. unfold g_pick in E. destruct (g_pc (t_core t)); try discriminate E. reflexivity. }
      unfold g_moves in Hg. rewrite Hsel in Hg.
      repeat (apply app_eq_nil in Hg as [? Hg]).
      repeat match goal with H : map (with_core t) (opt_list _) = [] |- _ => apply map_opt_nil in H end.
      destruct b; congruence.
    - (* GStep *)
      unfold g_moves in Hg.
      destruct (g_pc (t_core t)) eqn:Eg; try congruence; try discriminate Hnb;
        try (apply map_opt_nil in Hg; congruence);
        try (cbn [step] in E; unfold g_step in E; rewrite Eg in E; discriminate E).
  Qed.

  Lemma sat2_eq_1 : forall n, sat2 n = 1 -> n = 1.
  Proof. intros n; unfold sat2; destruct (2 <=? n) eqn:E; lia. Qed.

  Theorem script_exactly_once : forall t, In t (finals sc) ->
      sc_due sc <= sc_end sc ->
      cancel_ok (t_core t) = false -> ctx_done (t_core t) = false -> running (t_core t) = 0 ->
      length (t_starts t) = 1%nat.
  Proof.
    intros t Ht Hdue Hcan Hctx Hrun.
    pose proof (full_inv_holds t Ht) as Hinv. destruct Hinv as [Hs K].
    pose proof (finals_stuck sc t Ht) as Hstuck.
    pose proof (stuck_quiescent t (sc_end sc) (conj Hs K) Hstuck Hrun) as Hq.
    pose proof (core_in_RF t Hs) as HR.
    assert (Hruns : runs (t_core t) = 1).
    { pose proof nostuck_F as Hn. rewrite forallb_forall in Hn. specialize (Hn _ HR).
      unfold p_nostuck in Hn. rewrite Hq in Hn. cbn [negb orb] in Hn.
      apply andb_prop in Hn as [Hn _]. apply andb_prop in Hn as [_ Hgi].
      unfold g_idle in Hgi.
      destruct (g_pc (t_core t)) eqn:Eg; try discriminate Hgi.
      - (* GSel: the timer has expired *)
        assert (Htd : timer_due (t_core t) = true).
        { unfold moves in Hstuck. apply app_eq_nil in Hstuck as [Hg _].
          unfold g_moves in Hg. rewrite Eg in Hg. apply app_eq_nil in Hg as [Hg _].
          rewrite (k_dl sc t K) in Hg. apply N.leb_le in Hdue. rewrite Hdue in Hg.
          apply map_opt_nil in Hg. cbn [step] in Hg. rewrite Eg in Hg.
          destruct (timer_due (t_core t)); [reflexivity | discriminate Hg]. }
        pose proof exactly_F as He. rewrite forallb_forall in He. specialize (He _ HR).
        unfold p_exactly in He. rewrite Hq, Hcan, Hctx, Htd in He. cbn in He. apply N.eqb_eq in He. exact He.
      - (* GDone *)
        pose proof done_F as Hd. rewrite forallb_forall in Hd. specialize (Hd _ HR).
        unfold p_done in Hd. rewrite Hq, Hcan, Hctx, Eg in Hd. cbn in Hd. apply N.eqb_eq in Hd. exact Hd. }
    destruct Hs as [_ Hlen]. rewrite Hruns in Hlen. symmetry in Hlen. apply sat2_eq_1 in Hlen. lia.
  Qed.
End OneOffFinal.

(* ---------------------------------------------------------------------------------------------
   the flags of the job machine versus the results of the calls (every script, both kinds of job):
   [cancel_ok] is raised only when a CancelJob call returns nil, [ctx_done] only by a context
   cancellation of the script *)

Lemma step_cancel_ok : forall cf c a c', step cf c a = Some c' -> cancel_ok c' = true ->
    cancel_ok c = true \/ (a = CStep /\ c_pc c' = CDone Nil).
Proof.
  intros cf c a c' H Hc.
  destruct a; cbn [step] in H;
    unfold g_pick, g_step, g_return, g_rt, run_lookup, r_enter, r_step, r_reset, cancel_lookup, c_step,
           call_job, return_job, finalise in H;
    break_hyp H; injection H as <-;
    cbn [cancel_ok c_pc set_g set_r set_c set_table set_active set_finalised set_runq set_cancelq set_timer set_ctx
         set_counts set_run_ok set_cancel_ok set_panic] in Hc |- *;
    first [left; exact Hc | right; split; reflexivity | idtac].
Qed.

Lemma step_ctx_done : forall cf c a c', step cf c a = Some c' -> ctx_done c' = true ->
    ctx_done c = true \/ a = CtxCancel.
Proof.
  intros cf c a c' H Hc.
  destruct a; cbn [step] in H;
    unfold g_pick, g_step, g_return, g_rt, run_lookup, r_enter, r_step, r_reset, cancel_lookup, c_step,
           call_job, return_job, finalise in H;
    break_hyp H; injection H as <-;
    cbn [ctx_done set_g set_r set_c set_table set_active set_finalised set_runq set_cancelq set_timer set_ctx
         set_counts set_run_ok set_cancel_ok set_panic] in Hc |- *;
    first [left; exact Hc | right; reflexivity].
Qed.

Section Observable.
  Variable sc : script.

  Definition has_ret (k : ckind) (t : tstate) : Prop :=
    exists i cl, nth_error (sc_calls sc) i = Some cl /\ cl_kind cl = k /\ nth_error (t_calls t) i = Some (Ret Nil).

  Record oinv (t : tstate) : Prop := {
    oi_can : cancel_ok (t_core t) = true -> has_ret KCancel t;
    oi_ctx : ctx_done (t_core t) = true -> has_ret KCtx t
  }.

  Lemma hr_other : forall k t i st st' c', has_ret k t -> nth_error (t_calls t) i = Some st -> st <> Ret Nil ->
      has_ret k (with_call t i st' c').
  Proof.
    intros k t i st st' c' [j [cl [H1 [H2 H3]]]] Hi Hne. exists j, cl. repeat split; try assumption.
    rewrite with_call_calls, upd_nth_other; [exact H3 | | apply nth_error_Some; congruence].
    intros ->. rewrite Hi in H3. congruence.
  Qed.

  Lemma hr_self : forall k t i cl st c', nth_error (sc_calls sc) i = Some cl -> cl_kind cl = k ->
      nth_error (t_calls t) i = Some st -> has_ret k (with_call t i (Ret Nil) c').
  Proof.
    intros k t i cl st c' Hi Hk' Hs. exists i, cl. repeat split; try assumption.
    rewrite with_call_calls. apply upd_nth_same. apply nth_error_Some; congruence.
  Qed.

  (* a step that is neither CStep nor CtxCancel, followed by a status change of a call that had not returned *)
  Lemma oinv_quiet : forall t i st st' a c',
      oinv t -> nth_error (t_calls t) i = Some st -> st <> Ret Nil ->
      step (sc_cfg sc) (t_core t) a = Some c' -> a <> CStep -> a <> CtxCancel ->
      oinv (with_call t i st' c').
  Proof.
    intros t i st st' a c' O Hi Hne Hs Ha1 Ha2. constructor; cbn [t_core with_call]; intro Hf.
    - destruct (step_cancel_ok _ _ _ _ Hs Hf) as [Hc | [Hc _]]; [|congruence].
      eapply hr_other; eauto. apply (oi_can t O Hc).
    - destruct (step_ctx_done _ _ _ _ Hs Hf) as [Hc | Hc]; [|congruence].
      eapply hr_other; eauto. apply (oi_ctx t O Hc).
  Qed.

  Lemma oinv_same : forall t i st st', oinv t -> nth_error (t_calls t) i = Some st -> st <> Ret Nil ->
      oinv (with_call t i st' (t_core t)).
  Proof.
    intros t i st st' O Hi Hne. constructor; cbn [t_core with_call]; intro Hf.
    - eapply hr_other; eauto. apply (oi_can t O Hf).
    - eapply hr_other; eauto. apply (oi_ctx t O Hf).
  Qed.

  Lemma call_moves_oinv : forall now t i cl st t',
      oinv t -> nth_error (sc_calls sc) i = Some cl -> nth_error (t_calls t) i = Some st ->
      In t' (call_moves sc now t i cl st) -> oinv t'.
  Proof.
    intros now t i cl st t' O Hcl Hst H. unfold call_moves in H.
    destruct st; try (destruct H; fail).
    - (* Waiting *)
      assert (Hw : Waiting <> Ret Nil) by discriminate.
      destruct (cl_at cl <=? now); [|destruct H].
      destruct (cl_kind cl) eqn:Ekind.
      + destruct (in_table (t_core t)).
        * destruct (step (sc_cfg sc) (t_core t) RunLookup) as [c'|] eqn:E; [|destruct H].
          destruct H as [<-|[]]. eapply oinv_quiet; eauto; discriminate.
        * destruct H as [<-|[]]. eapply oinv_same; eauto.
      + destruct (in_table (t_core t)).
        * destruct (step (sc_cfg sc) (t_core t) CancelLookup) as [c'|] eqn:E; [|destruct H].
          destruct H as [<-|[]]. eapply oinv_quiet; eauto; discriminate.
        * destruct H as [<-|[]]. eapply oinv_same; eauto.
      + destruct H as [<-|[]].
        destruct (step (sc_cfg sc) (t_core t) CtxCancel) as [c'|] eqn:E.
        * constructor; cbn [t_core with_call]; intro Hf.
          -- destruct (step_cancel_ok _ _ _ _ E Hf) as [Hc | [Hc _]]; [|discriminate Hc].
             eapply hr_other; eauto. apply (oi_can t O Hc).
          -- eapply hr_self; eauto.
        * constructor; cbn [t_core with_call]; intro Hf.
          -- eapply hr_other; eauto. apply (oi_can t O Hf).
          -- eapply hr_self; eauto.
      + destruct H as [<-|[]]. eapply oinv_same; eauto.
      + destruct H as [<-|[]]. eapply oinv_same; eauto.
    - (* HasPtr *)
      destruct (step (sc_cfg sc) (t_core t) REnter) as [c'|] eqn:E; [|destruct H].
      destruct H as [<-|[]]. eapply oinv_quiet; eauto; discriminate.
    - (* InSlot *)
      assert (Hw : InSlot <> Ret Nil) by discriminate.
      destruct (cl_kind cl) eqn:Ekind; try (destruct H; fail).
      + set (next := match r_pc (t_core t) with RHave => step (sc_cfg sc) (t_core t) REnter | _ => step (sc_cfg sc) (t_core t) RStep end) in H.
        destruct next as [c'|] eqn:E; [|destruct H].
        assert (Hn : exists a, a <> CStep /\ a <> CtxCancel /\ step (sc_cfg sc) (t_core t) a = Some c').
        { subst next. destruct (r_pc (t_core t)); [exists RStep | exists REnter | exists RStep | exists RStep | exists RStep | exists RStep | exists RStep];
            (split; [discriminate | split; [discriminate | exact E]]). }
        destruct Hn as [a [Ha1 [Ha2 Hs]]].
        pose proof (fun st' => oinv_quiet t i InSlot st' a c' O Hst Hw Hs Ha1 Ha2) as Hq.
        destruct (r_pc c') as [| | | | | |code] eqn:Er; try (destruct H as [<-|[]]; apply Hq).
        destruct H as [<-|[]].
        destruct (step (sc_cfg sc) c' RReset) as [c''|] eqn:E2; [|apply Hq].
        (* a second quiet step: the flags of c'' are those of c' *)
        specialize (Hq (Ret code)). constructor; cbn [t_core with_call]; intro Hf.
        * destruct (step_cancel_ok _ _ _ _ E2 Hf) as [Hc | [Hc _]]; [|discriminate Hc].
          destruct (oi_can _ Hq Hc) as [j [cl' [H1 [H2 H3]]]]. exists j, cl'. auto.
        * destruct (step_ctx_done _ _ _ _ E2 Hf) as [Hc | Hc]; [|discriminate Hc].
          destruct (oi_ctx _ Hq Hc) as [j [cl' [H1 [H2 H3]]]]. exists j, cl'. auto.
      + destruct (step (sc_cfg sc) (t_core t) CStep) as [c'|] eqn:E; [|destruct H].
        assert (Hx : forall st', (c_pc c' = CDone Nil -> st' = Ret Nil) -> oinv (with_call t i st' c')).
        { intros st' Hst'. constructor; cbn [t_core with_call]; intro Hf.
          - destruct (step_cancel_ok _ _ _ _ E Hf) as [Hc | [_ Hc]].
            + eapply hr_other; eauto. apply (oi_can t O Hc).
            + rewrite (Hst' Hc). eapply hr_self; eauto.
          - destruct (step_ctx_done _ _ _ _ E Hf) as [Hc | Hc]; [|discriminate Hc].
            eapply hr_other; eauto. apply (oi_ctx t O Hc). }
        destruct (c_pc c') eqn:Ec; destruct H as [<-|[]]; apply Hx; intro Hd; congruence.
  Qed.

  Lemma oinv_holds : forall t, In t (finals sc) -> oinv t.
  Proof.
    intros t Ht. apply (finals_inv sc oinv); [ | | exact Ht].
    - intros now x x' O Hm. unfold moves in Hm. apply in_app_or in Hm as [Hm|Hm].
      + destruct (g_moves_shape sc now x x' Hm) as [Hc [_ [a [Hga Hs]]]].
        constructor; intro Hf.
        * destruct (step_cancel_ok _ _ _ _ Hs Hf) as [Hc' | [Hc' _]]; [|subst a; discriminate Hga].
          destruct (oi_can x O Hc') as [j [cl [H1 [H2 H3]]]]. exists j, cl. rewrite Hc. auto.
        * destruct (step_ctx_done _ _ _ _ Hs Hf) as [Hc' | Hc']; [|subst a; discriminate Hga].
          destruct (oi_ctx x O Hc') as [j [cl [H1 [H2 H3]]]]. exists j, cl. rewrite Hc. auto.
      + apply all_call_moves_in in Hm as [k [cl [st [H1 [H2 H3]]]]].
        eapply call_moves_oinv; [exact O | exact H1 | exact H2 | exact H3].
    - constructor; cbn [t_init t_core]; unfold init; cbn; discriminate.
  Qed.
End Observable.

(* the observable form: hypotheses on the results of the calls *)
Definition no_ret_nil (sc : script) (k : ckind) (sts : list cst) : Prop :=
  forall i cl, nth_error (sc_calls sc) i = Some cl -> cl_kind cl = k -> nth_error sts i <> Some (Ret Nil).

Theorem script_exactly_once_obs : forall sc, sc_kind sc = OneOff -> sc_variant sc = Fixed ->
  forall t, In t (finals sc) ->
    sc_due sc <= sc_end sc ->
    no_ret_nil sc KCancel (t_calls t) -> no_ret_nil sc KCtx (t_calls t) -> running (t_core t) = 0 ->
    length (o_starts (outcome_of t)) = 1%nat.
Proof.
  intros sc Hk Hv t Ht Hdue Hnc Hnx Hrun.
  pose proof (oinv_holds sc t Ht) as O.
  unfold outcome_of; cbn [o_starts]. rewrite rev_length.
  apply (script_exactly_once sc Hk Hv t Ht Hdue); [ | | exact Hrun].
  - destruct (cancel_ok (t_core t)) eqn:E; [|reflexivity].
    destruct (oi_can sc t O E) as [i [cl [H1 [H2 H3]]]]. exfalso. exact (Hnc i cl H1 H2 H3).
  - destruct (ctx_done (t_core t)) eqn:E; [|reflexivity].
    destruct (oi_ctx sc t O E) as [i [cl [H1 [H2 H3]]]]. exfalso. exact (Hnx i cl H1 H2 H3).
Qed.
