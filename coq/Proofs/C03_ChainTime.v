(* C03 — lemmas about the chain-time model. *)
From Verif Require Import Lib.Base Model.C03_ChainTime.
From Coq Require Import ZifyBool ZifyN ZifyNat.
Open Scope Z_scope.

Lemma to_i64_small : forall x, 0 <= x < two63z -> to_i64 x = x.
Proof.
  intros x H. unfold to_i64, two63z, two64z in *.
  rewrite Z.mod_small by lia.
  destruct (x <? 9223372036854775808) eqn:E; lia.
Qed.

Lemma wrap64_small : forall x : N, (x < two64)%N -> wrap64 x = x.
Proof. intros x H. unfold wrap64. apply N.mod_small; exact H. Qed.

(* Well-formed chain parameters: a slot lasts a whole, positive number of seconds (SECONDS_PER_SLOT
   is an integer in every consensus spec) and an epoch has at least one slot. *)
Definition params_ok (p : ctparams) : Prop :=
  exists secs, 0 < secs /\ ct_dur p = secs * ns_per_s /\ (0 < ct_spe p)%N.

(* the arithmetic of the slot does not overflow Go's int64 nanoseconds *)
Definition slot_in_range (p : ctparams) (s : N) : Prop := Z.of_N s * ct_dur p < two63z.

Lemma params_ok_dur_pos : forall p, params_ok p -> 0 < ct_dur p.
Proof. intros p (secs & H1 & H2 & _). unfold ns_per_s in *. lia. Qed.

Lemma slot_secs_eq : forall p secs, ct_dur p = secs * ns_per_s -> slot_secs p = secs.
Proof.
  intros p secs H. unfold slot_secs, whole_seconds. rewrite H.
  apply Z.div_mul. unfold ns_per_s; lia.
Qed.

Lemma start_of_slot_exact : forall p s,
  0 <= ct_dur p -> slot_in_range p s -> 0 < ct_dur p ->
  start_of_slot p s = ct_genesis p + Z.of_N s * ct_dur p.
Proof.
  intros p s Hd Hr Hpos. unfold start_of_slot, slot_in_range in *.
  assert (Hs : 0 <= Z.of_N s < two63z) by (unfold two63z in *; nia).
  rewrite (to_i64_small (Z.of_N s)) by exact Hs.
  rewrite to_i64_small; [reflexivity | split; [nia | exact Hr]].
Qed.

Lemma slot_in_range_le : forall p s s', 0 <= ct_dur p -> (s' <= s)%N -> slot_in_range p s -> slot_in_range p s'.
Proof. intros p s s' Hd Hle Hr. unfold slot_in_range in *. nia. Qed.

(* monotonicity of StartOfSlot inside the int64 range *)
Lemma start_of_slot_lt : forall p s s',
  params_ok p -> slot_in_range p s' -> (s < s')%N -> start_of_slot p s < start_of_slot p s'.
Proof.
  intros p s s' Hp Hr Hlt. pose proof (params_ok_dur_pos p Hp) as Hd.
  rewrite !start_of_slot_exact; try lia; try assumption.
  - nia.
  - apply (slot_in_range_le p s'); [lia | lia | exact Hr].
Qed.

(* the slot of an elapsed time *)
Lemma elapsed_slot : forall secs d s,
  0 < secs -> 0 <= s -> s * (secs * ns_per_s) <= d < (s + 1) * (secs * ns_per_s) ->
  d / ns_per_s / secs = s.
Proof.
  intros secs d s Hs Hs0 Hd. unfold ns_per_s in *.
  rewrite Z.div_div by lia.
  symmetry. apply (Z.div_unique_pos d (1000000000 * secs) s (d - s * (1000000000 * secs))); lia.
Qed.

Lemma current_slot_in_slot : forall p s t,
  params_ok p -> slot_in_range p (s + 1) ->
  start_of_slot p s <= t < start_of_slot p (s + 1) ->
  current_slot p t = s.
Proof.
  intros p s t Hp Hr Ht. pose proof (params_ok_dur_pos p Hp) as Hd.
  destruct Hp as (secs & Hsecs & Hdur & Hspe).
  rewrite (start_of_slot_exact p s) in Ht; try lia.
  2:{ apply (slot_in_range_le p (s + 1)); [lia | lia | exact Hr]. }
  rewrite (start_of_slot_exact p (s + 1)) in Ht; try lia; try assumption.
  unfold current_slot, current_slot_with.
  destruct (ct_genesis p >? t) eqn:E; [lia|].
  rewrite (slot_secs_eq p secs Hdur). unfold whole_seconds.
  rewrite (elapsed_slot secs (t - ct_genesis p) (Z.of_N s)); [apply N2Z.id | lia | lia |].
  rewrite <- Hdur. lia.
Qed.

Lemma before_genesis : forall p t, t < ct_genesis p -> current_slot p t = 0%N /\ current_epoch p t = 0%N.
Proof.
  intros p t H. unfold current_slot, current_epoch, current_slot_with, current_epoch_with.
  destruct (ct_genesis p >? t) eqn:E; [split; reflexivity | lia].
Qed.

(* the converse reading: at or after genesis, now lies inside the slot CurrentSlot reports *)
Lemma now_in_current_slot : forall p t,
  params_ok p -> ct_genesis p <= t -> slot_in_range p (current_slot p t + 1) ->
  start_of_slot p (current_slot p t) <= t < start_of_slot p (current_slot p t + 1).
Proof.
  intros p t Hp Hg Hr. pose proof (params_ok_dur_pos p Hp) as Hd.
  destruct Hp as (secs & Hsecs & Hdur & Hspe).
  rewrite (start_of_slot_exact p (current_slot p t)); try lia.
  2:{ apply (slot_in_range_le p (current_slot p t + 1)); [lia | lia | exact Hr]. }
  rewrite (start_of_slot_exact p (current_slot p t + 1)); try lia; try assumption.
  clear Hr.
  unfold current_slot, current_slot_with.
  destruct (ct_genesis p >? t) eqn:E; [lia|].
  rewrite (slot_secs_eq p secs Hdur). unfold whole_seconds.
  set (d := t - ct_genesis p). assert (Hd0 : 0 <= d) by (unfold d; lia).
  assert (Hq : 0 <= d / ns_per_s / secs).
  { apply Z.div_pos; [apply Z.div_pos; unfold ns_per_s; lia | lia]. }
  rewrite N2Z.inj_add. rewrite Z2N.id by exact Hq. change (Z.of_N 1) with 1.
  rewrite Hdur. unfold ns_per_s in *.
  rewrite Z.div_div by lia.
  pose proof (Z.div_mod d (1000000000 * secs) ltac:(lia)) as Hdm.
  pose proof (Z.mod_pos_bound d (1000000000 * secs) ltac:(lia)) as Hmb.
  replace t with (ct_genesis p + d) by (unfold d; lia).
  nia.
Qed.

Lemma epoch_of_first_slot : forall p e,
  (0 < ct_spe p)%N -> (e * ct_spe p < two64)%N ->
  slot_to_epoch p (first_slot_of_epoch p e) = e.
Proof.
  intros p e Hspe Hr. unfold slot_to_epoch, first_slot_of_epoch, mul64.
  rewrite wrap64_small by exact Hr. apply N.div_mul. lia.
Qed.

Lemma first_slot_le : forall p s,
  (0 < ct_spe p)%N -> ((slot_to_epoch p s + 1) * ct_spe p < two64)%N ->
  (first_slot_of_epoch p (slot_to_epoch p s) <= s < first_slot_of_epoch p (slot_to_epoch p s + 1))%N.
Proof.
  intros p s Hspe Hr. unfold slot_to_epoch, first_slot_of_epoch, mul64 in *.
  rewrite !wrap64_small by (unfold two64 in *; nia).
  pose proof (N.div_mod s (ct_spe p) ltac:(lia)) as Hdm.
  pose proof (N.mod_lt s (ct_spe p) ltac:(lia)) as Hlt.
  nia.
Qed.

Lemma start_of_epoch_is_start_of_first_slot : forall p e,
  start_of_epoch p e = start_of_slot p (first_slot_of_epoch p e).
Proof. intros p e. reflexivity. Qed.

Lemma current_epoch_is_epoch_of_current_slot : forall p t,
  params_ok p -> (Z.to_N (slot_secs p) * ct_spe p < two64)%N ->
  current_epoch p t = slot_to_epoch p (current_slot p t).
Proof.
  intros p t Hp Hr.
  destruct Hp as (secs & Hsecs & Hdur & Hspe).
  unfold current_epoch, current_slot, current_epoch_with, current_slot_with, slot_to_epoch.
  destruct (ct_genesis p >? t) eqn:E.
  - symmetry. apply N.div_0_l. lia.
  - rewrite (slot_secs_eq p secs Hdur) in *. unfold mul64. rewrite wrap64_small by exact Hr.
    set (d := whole_seconds (t - ct_genesis p)).
    assert (Hd0 : 0 <= d).
    { unfold d, whole_seconds. apply Z.div_pos; unfold ns_per_s; lia. }
    rewrite N2Z.inj_mul. rewrite Z2N.id by lia.
    rewrite <- Z.div_div by lia.
    rewrite Z2N.inj_div; [| apply Z.div_pos; lia | lia].
    rewrite N2Z.id. reflexivity.
Qed.

(* the time of a job "slot start + delay" falls inside its slot exactly when 0 <= delay < slot duration *)
Lemma job_time_in_slot : forall p s delay,
  params_ok p -> slot_in_range p (s + 1) -> 0 <= delay < ct_dur p ->
  current_slot p (start_of_slot p s + delay) = s.
Proof.
  intros p s delay Hp Hr Hdelay. apply current_slot_in_slot; try assumption.
  pose proof (params_ok_dur_pos p Hp) as Hd.
  rewrite (start_of_slot_exact p s); try lia.
  2:{ apply (slot_in_range_le p (s + 1)); [lia | lia | exact Hr]. }
  rewrite (start_of_slot_exact p (s + 1)); try lia; try assumption.
Qed.
