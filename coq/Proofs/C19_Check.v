(* C19: the check's boolean predicate implies the property's relation on every observed value. *)
From Verif Require Import Lib.Base Model.C19_Hierarchy Proofs.C19 Check.C19.
Local Open Scope list_scope.

Lemma P_query_sound : forall c def q, P_query c def q = true -> query_ok c def q.
Proof.
  intros c def q H. destruct q as [s o | s o | s o | s o | var s o | s]; cbn [P_query query_ok] in *.
  - exists (addresses_ref c (path_of_string s)). split.
    + apply reference_resolves.
    + apply (list_eqb_spec String.eqb String.eqb_eq). exact H.
  - apply Z.eqb_eq in H. subst o. apply reference_resolves.
  - apply Z.eqb_eq in H. subst o. apply reference_resolves.
  - apply Z.eqb_eq in H. subst o. apply reference_resolves.
  - apply Bool.eqb_prop in H. subst o. apply reference_resolves.
  - discriminate.
Qed.

Lemma over_later_sound : forall l w, over_later P_query w l = true -> later_ok w l.
Proof.
  induction l as [|[chs qs] l IH]; intros w H; cbn [over_later later_ok] in *; [exact I|].
  apply andb_true_iff in H as [Hq Hl]. split.
  - rewrite forallb_forall in Hq. apply Forall_forall. intros q Hin. apply P_query_sound, Hq, Hin.
  - apply IH, Hl.
Qed.

Lemma P_b_sound : forall cs : case, P_b cs = true ->
  Forall (query_ok (c_cfg cs) (c_deflevel cs)) (c_queries cs) /\
  Forall (Forall (query_ok (c_cfg cs) (c_deflevel cs))) (c_parallel cs) /\
  later_ok (c_cfg cs, c_deflevel cs) (c_later cs).
Proof.
  intros cs H. unfold P_b in H. apply andb_true_iff in H as [H Hl].
  apply andb_true_iff in H as [H Hp]. rewrite forallb_forall in H. split; [|split].
  - apply Forall_forall. intros q Hq. apply P_query_sound, H, Hq.
  - rewrite forallb_forall in Hp. apply Forall_forall. intros w Hw. specialize (Hp w Hw).
    rewrite forallb_forall in Hp. apply Forall_forall. intros q Hq. apply P_query_sound, Hp, Hq.
  - apply over_later_sound, Hl.
Qed.

(* The property's relation determines the value: two calls with the same arguments that both satisfy
   it on one configuration have the same answer. *)
Lemma query_ok_same_answer : forall c def q1 q2,
  query_ok c def q1 -> query_ok c def q2 -> same_answer q1 q2.
Proof.
  intros c def q1 q2 H1 H2.
  destruct q1 as [s1 o1 | s1 o1 | s1 o1 | s1 o1 | v1 s1 o1 | s1];
  destruct q2 as [s2 o2 | s2 o2 | s2 o2 | s2 o2 | v2 s2 o2 | s2];
  cbn [same_answer query_ok] in *; try exact I.
  - intros ->. destruct H1 as [x1 [R1 E1]]. destruct H2 as [x2 [R2 E2]].
    apply resolves_iff_reference in R1. apply resolves_iff_reference in R2. congruence.
  - intros ->. apply resolves_iff_reference in H1. apply resolves_iff_reference in H2. congruence.
  - intros ->. apply resolves_iff_reference in H1. apply resolves_iff_reference in H2. congruence.
  - intros ->. apply resolves_iff_reference in H1. apply resolves_iff_reference in H2. congruence.
  - intros -> ->. apply resolves_iff_reference in H1. apply resolves_iff_reference in H2. congruence.
Qed.

Lemma P_b_callers_agree : forall cs : case, P_b cs = true ->
  forall q1 q2, In q1 (calls_on_installed cs) -> In q2 (calls_on_installed cs) -> same_answer q1 q2.
Proof.
  intros cs H q1 q2 H1 H2. destruct (P_b_sound cs H) as [Hs [Hp _]].
  assert (Hall : forall q, In q (calls_on_installed cs) -> query_ok (c_cfg cs) (c_deflevel cs) q).
  { intros q Hq. unfold calls_on_installed in Hq. apply in_app_or in Hq as [Hq|Hq].
    - rewrite Forall_forall in Hs. apply Hs, Hq.
    - apply in_concat in Hq as [w [Hw Hq]]. rewrite Forall_forall in Hp. specialize (Hp w Hw).
      rewrite Forall_forall in Hp. apply Hp, Hq. }
  eapply query_ok_same_answer; eauto.
Qed.
