(* C19: the check's boolean predicate implies the property's relation on every observed value. *)
From Verif Require Import Lib.Base Model.C19_Hierarchy Proofs.C19 Check.C19.
Local Open Scope list_scope.

Lemma P_query_sound : forall c def q, P_query c def q = true -> query_ok c def q.
Proof.
  intros c def q H. destruct q as [s o | s o | s o | s o | var s o | s]; cbn [P_query query_ok] in *.
  - exists (addresses_ref c (path_of_string s)). split.
    + apply reference_resolves.
    + apply (list_eqb_spec String.eqb String.eqb_eq). exact H.
  - apply Z.eqb_eq in H. subst o. apply reference_resolves.
  - apply Z.eqb_eq in H. subst o. apply reference_resolves.
  - apply Z.eqb_eq in H. subst o. apply reference_resolves.
  - apply Bool.eqb_prop in H. subst o. apply reference_resolves.
  - discriminate.
Qed.

Lemma over_later_sound : forall l w, over_later P_query w l = true -> later_ok w l.
Proof.
  induction l as [|[chs qs] l IH]; intros w H; cbn [over_later later_ok] in *; [exact I|].
  apply andb_true_iff in H as [Hq Hl]. split.
  - rewrite forallb_forall in Hq. apply Forall_forall. intros q Hin. apply P_query_sound, Hq, Hin.
  - apply IH, Hl.
Qed.

Lemma P_b_sound : forall cs : case, P_b cs = true ->
  Forall (query_ok (c_cfg cs) (c_deflevel cs)) (c_queries cs) /\
  later_ok (c_cfg cs, c_deflevel cs) (c_later cs).
Proof.
  intros cs H. unfold P_b in H. apply andb_true_iff in H as [H Hl]. rewrite forallb_forall in H. split.
  - apply Forall_forall. intros q Hq. apply P_query_sound, H, Hq.
  - apply over_later_sound, Hl.
Qed.
