(* C13 — lemmas about Model.C13_Accounts: the state-at-epoch filters (this file), the stores and
   their refresh histories (Proofs/C13_Store.v), specifier patterns and full match
   (Proofs/C13_Match.v). *)
From Verif Require Import Lib.Base Lib.RegexM Model.C13_Accounts.
From Coq Require Import ZifyBool ZifyN ZifyNat.
Open Scope N_scope.

(* ---------------------------------------------------------------------------------------------
   The declarative reading of the property text.

   "active and not slashed in that epoch (activation epoch reached, exit epoch not reached)" *)
Definition active_unslashed (v : val) (e : N) : Prop :=
  v_act v <= e /\ e < v_exit v /\ v_slashed v = false.

(* "withdrawal is done": the exit and the withdrawable epoch are reached and nothing is left *)
Definition withdrawal_done (v : val) (e far : N) : Prop :=
  v_exit v <> far /\ v_exit v <= e /\ v_wd v <= e /\ v_bal v = 0.

(* sync-committee eligibility: activated, and kept until withdrawal is done *)
Definition sync_eligible (v : val) (e far : N) : Prop :=
  v_act v <= e /\ ~ withdrawal_done v e far.

(* the consensus invariant the state filter needs: a slashed validator has been given an exit
   epoch (slash_validator calls initiate_validator_exit) *)
Definition slashed_has_exit (far : N) (v : val) : Prop :=
  v_slashed v = true -> v_exit v <> far.

Ltac vts :=
  unfold validator_to_state;
  repeat match goal with
         | |- context [if ?c then _ else _] => let E := fresh "E" in destruct c eqn:E
         end; cbn.

Lemma state_filter : forall v e far,
  e < far -> slashed_has_exit far v ->
  (is_validating (validator_to_state v e far) = true <-> active_unslashed v e).
Proof.
  intros v e far He Hinv. unfold active_unslashed, slashed_has_exit in *.
  vts; split; intro H; try discriminate; try reflexivity; lia.
Qed.

(* the same statement as a decision procedure *)
Lemma state_filter_bool : forall v e far,
  e < far -> slashed_has_exit far v ->
  is_validating (validator_to_state v e far) = (v_act v <=? e) && (e <? v_exit v) && negb (v_slashed v).
Proof.
  intros v e far He Hinv.
  apply eq_true_iff_eq. rewrite state_filter by assumption. unfold active_unslashed.
  rewrite !andb_true_iff, negb_true_iff, N.leb_le, N.ltb_lt. tauto.
Qed.

(* the invariant is needed: a slashed validator without exit epoch is reported as validating *)
Lemma state_filter_needs_invariant :
  exists v e far, e < far /\ v_slashed v = true /\
                  is_validating (validator_to_state v e far) = true /\ ~ active_unslashed v e.
Proof.
  exists {| v_pk := 1; v_index := 1; v_elig := 0; v_act := 0; v_exit := 100; v_wd := 100;
            v_slashed := true; v_bal := 32 |}, 5, 100.
  repeat split; try reflexivity. intros (_ & _ & H). discriminate.
Qed.

(* ... and so is the bound on the epoch: at e >= far a validator without exit epoch is still
   reported although "e < exit" is false *)
Lemma state_filter_needs_epoch_bound :
  exists v e far, far <= e /\ slashed_has_exit far v /\
                  is_validating (validator_to_state v e far) = true /\ ~ active_unslashed v e.
Proof.
  exists {| v_pk := 1; v_index := 1; v_elig := 0; v_act := 0; v_exit := 100; v_wd := 100;
            v_slashed := false; v_bal := 32 |}, 100, 100.
  repeat split; try reflexivity; try discriminate. intros (_ & H & _). cbn in H. lia.
Qed.

Lemma sync_filter : forall v e far,
  is_sync_eligible (validator_to_state v e far) = true <-> sync_eligible v e far.
Proof.
  intros v e far. unfold sync_eligible, withdrawal_done.
  vts; split; intro H; try discriminate; try reflexivity; lia.
Qed.

Lemma validating_is_sync_eligible : forall s, is_validating s = true -> is_sync_eligible s = true.
Proof. destruct s; cbn; congruence. Qed.

(* what sync eligibility adds: the exited and the slashed, until withdrawal is done *)
Lemma sync_adds : forall v e far,
  e < far -> slashed_has_exit far v ->
  (is_sync_eligible (validator_to_state v e far) = true /\
   is_validating (validator_to_state v e far) = false
   <-> v_act v <= e /\ (v_exit v <= e \/ v_slashed v = true) /\ ~ withdrawal_done v e far).
Proof.
  intros v e far He Hinv.
  rewrite sync_filter. rewrite <- not_true_iff_false. rewrite state_filter by assumption.
  unfold sync_eligible, active_unslashed. split.
  - intros [[Ha Hnd] Hnv]. repeat split; try assumption.
    destruct (v_slashed v) eqn:Es; [right; reflexivity | left].
    destruct (N.le_gt_cases (v_exit v) e); [assumption|]. exfalso; apply Hnv. repeat split; lia.
  - intros (Ha & Hx & Hnd). repeat split; try assumption.
    intros (_ & H1 & H2). destruct Hx; [lia | congruence].
Qed.

(* every state the transcribed function can return, by lifecycle position (used by the
   non-vacuity examples) *)
Lemma state_never_unknown : forall v e far, validator_to_state v e far <> SUnknown.
Proof. intros v e far. vts; discriminate. Qed.
