From Verif Require Import Lib.Base Lib.RegexM Model.C13_Accounts.
