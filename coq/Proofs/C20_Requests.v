From Verif Require Import Lib.Base Lib.Sched Model.C20_Fanout Proofs.C20_Fanout Model.C20_Requests.
From Coq Require Import ZifyBool ZifyN ZifyNat.

(* --- the invariant of the request layer ------------------------------------------------------- *)

Record rinv (n : nat) (cap k : N) (t d : bool) (hon : list bool) (rq : reqctx) (s : rstate) : Prop := {
  ri_base : inv n cap k t d (r_f s);
  ri_hon : r_hon s = hon;
  ri_req : r_req s = rq;
  ri_caller : r_caller_done s = true -> f_coll_done (r_f s) = true   (* the call's context is a child of the caller's *)
}.

Lemma inv_coll_end n cap k t d f : inv n cap k t d f -> inv n cap k t d (coll_end f).
Proof.
  intros [Hl Hc Hk Ht Hdt Hs Hb Hr Hroom Hd].
  constructor; unfold blocked, calling in *; cbn [coll_end f_snd f_cap f_buf f_k f_recvd f_coll_done f_has_timeout f_detect f_succ];
    try assumption. intro H; discriminate.
Qed.

(* the collector never "un-returns" *)
Lemma fstep_coll_done_mono f a f' : fstep f a = Some f' -> f_coll_done f = true -> f_coll_done f' = true.
Proof.
  intros H Hd. destruct a as [i ok|i| | |]; cbn [fstep] in H.
  - destruct (nth_error (f_snd f) i) as [[| |]|]; try discriminate. injection H as <-. exact Hd.
  - destruct (nth_error (f_snd f) i) as [[| |]|]; try discriminate.
    destruct (f_buf f <? f_cap f); [|discriminate]. injection H as <-. exact Hd.
  - rewrite Hd in H. cbn in H. discriminate.
  - rewrite Hd in H. cbn in H. discriminate.
  - rewrite Hd in H. cbn in H. discriminate.
Qed.

Lemma rinv_init n cap k t d hon rq : rinv n cap k t d hon rq (rinit n cap k t d hon rq).
Proof. constructor; cbn; try reflexivity; [apply inv_init | intro H; discriminate]. Qed.

Lemma rinv_step n cap k t d hon rq s a s' :
  rinv n cap k t d hon rq s -> rstep s a = Some s' -> rinv n cap k t d hon rq s'.
Proof.
  intros [Hb Hh Hq Hc] H. destruct a as [b| |i]; cbn [rstep] in H.
  - destruct (fstep (r_f s) b) as [f'|] eqn:E; [|discriminate]. injection H as <-.
    constructor; cbn [with_f r_f r_hon r_req r_caller_done]; try assumption.
    + eapply inv_step; eauto.
    + intro Hcd. eapply fstep_coll_done_mono; eauto.
  - destruct (r_caller_done s); [discriminate|]. injection H as <-.
    constructor; cbn [r_f r_hon r_req r_caller_done]; try assumption.
    + apply inv_coll_end, Hb.
    + reflexivity.
  - destruct (honours s i && req_done s); [|discriminate].
    destruct (fstep (r_f s) (Return i false)) as [f'|] eqn:E; [|discriminate]. injection H as <-.
    constructor; cbn [with_f r_f r_hon r_req r_caller_done]; try assumption.
    + eapply inv_step; eauto.
    + intro Hcd. eapply fstep_coll_done_mono; eauto.
Qed.

Lemma rrun_is_run sch s : rrun sch s = run rstep sch s.
Proof. reflexivity. Qed.

Lemma rinv_run n cap k t d hon rq sch :
  rinv n cap k t d hon rq (rrun sch (rinit n cap k t d hon rq)).
Proof.
  rewrite rrun_is_run. apply (invariant_run rstep (rinv n cap k t d hon rq)).
  - intros s a s' Hi Hs. eapply rinv_step; eauto.
  - apply rinv_init.
Qed.

(* --- at quiescence, once the request context has ended ---------------------------------------- *)

Lemma in_indices s i st : stat_at s i = Some st -> In i (indices s).
Proof.
  unfold stat_at, indices. intro H. apply in_seq. split; [lia|].
  cbn. apply nth_error_Some. rewrite H. discriminate.
Qed.

(* every request still outstanding is at a provider that does not honour its context *)
Lemma quiet_no_honouring_request s i :
  rquiet s = true -> req_done s = true -> stat_at s i = Some SCall -> honours s i = false.
Proof.
  unfold rquiet. intros Hq Hd Hi.
  repeat (apply andb_prop in Hq as [Hq ?]).
  rewrite forallb_forall in Hq. specialize (Hq i (in_indices _ _ _ Hi)).
  unfold stale_at, inflight_at in Hq. rewrite Hi, Hd in Hq.
  destruct (honours s i); [discriminate | reflexivity].
Qed.

(* room for every answer: nobody holds an answer it cannot send *)
Lemma quiet_no_sender n cap k t d hon rq s :
  rinv n cap k t d hon rq s -> N.of_nat n <= cap -> rquiet s = true -> blocked (r_f s) = 0.
Proof.
  intros [[Hl Hc Hk Ht Hdt Hs Hb Hr Hroom Hd] _ _ _] Hn Hq. unfold rquiet in Hq.
  repeat (apply andb_prop in Hq as [Hq ?]).
  pose proof (count_le_length SCall (f_snd (r_f s))) as L1.
  unfold blocked, calling in *. rewrite Hc in *. lia.
Qed.

Lemma inflight_zero_iff s :
  inflight_hon s = 0 <-> forall i, stat_at s i = Some SCall -> honours s i = false.
Proof.
  unfold inflight_hon. split.
  - intros H i Hi. destruct (honours s i) eqn:E; [|reflexivity]. exfalso.
    assert (Hin : In i (filter (inflight_at s) (indices s))).
    { apply filter_In. split; [eapply in_indices; eauto|]. unfold inflight_at. rewrite Hi. exact E. }
    destruct (filter (inflight_at s) (indices s)); [inversion Hin | cbn in H; lia].
  - intro H. destruct (filter (inflight_at s) (indices s)) as [|i l] eqn:E; [reflexivity|]. exfalso.
    assert (Hin : In i (filter (inflight_at s) (indices s))) by (rewrite E; left; reflexivity).
    apply filter_In in Hin as [_ Hf]. unfold inflight_at in Hf.
    destruct (stat_at s i) as [[| |]|] eqn:Es; try discriminate.
    rewrite (H i Es) in Hf. discriminate.
Qed.

Lemma requests_end_with_context n cap k t d hon rq sch :
  N.of_nat n <= cap ->
  let s := rrun sch (rinit n cap k t d hon rq) in
  rquiet s = true -> req_done s = true ->
  inflight_hon s = 0 /\ blocked (r_f s) = 0 /\
  (forall i st, stat_at s i = Some st -> st = SDone \/ (st = SCall /\ honours s i = false)).
Proof.
  intros Hn s Hq Hd. pose proof (rinv_run n cap k t d hon rq sch) as Hi. fold s in Hi.
  pose proof (quiet_no_sender _ _ _ _ _ _ _ _ Hi Hn Hq) as Hb.
  split; [|split].
  - apply inflight_zero_iff. intros i Hs. eapply quiet_no_honouring_request; eauto.
  - exact Hb.
  - intros i st Hs. destruct st.
    + right. split; [reflexivity|]. eapply quiet_no_honouring_request; eauto.
    + exfalso. unfold stat_at in Hs. pose proof (nth_count_pos _ _ _ Hs) as Hp. unfold blocked in Hb. lia.
    + left. reflexivity.
Qed.

(* every provider honours its context: no goroutine of the call is left *)
Lemma all_honour_alive_zero n cap k t d hon rq sch :
  N.of_nat n <= cap ->
  (forall i, (i < n)%nat -> nth i hon false = true) ->
  let s := rrun sch (rinit n cap k t d hon rq) in
  rquiet s = true -> req_done s = true -> alive s = 0.
Proof.
  intros Hn Hall s Hq Hd.
  destruct (requests_end_with_context n cap k t d hon rq sch Hn Hq Hd) as (_ & Hb & Hst). fold s in Hb, Hst.
  pose proof (rinv_run n cap k t d hon rq sch) as [[Hl _ _ _ _ _ _ _ _ _] Hh _ _]. fold s in Hl, Hh.
  unfold alive. rewrite Hb.
  destruct (N.eq_dec (calling (r_f s)) 0) as [E|E]; [lia|]. exfalso.
  destruct (count_pos_nth SCall (f_snd (r_f s))) as [i Hi]; [unfold calling in E; lia|].
  destruct (Hst i SCall Hi) as [H|[_ H]]; [discriminate|].
  unfold honours in H. rewrite Hh in H. rewrite Hall in H; [discriminate|].
  rewrite <- Hl. apply nth_error_Some. rewrite Hi. discriminate.
Qed.

(* in a `first` strategy the request context has ended as soon as the collector has returned *)
Lemma call_ctx_ends_with_collector s : r_req s = RqCall -> f_coll_done (r_f s) = true -> req_done s = true.
Proof. unfold req_done. intros -> ->. reflexivity. Qed.

(* requests under the caller's context: while that context lives, nothing is ever aborted *)
Lemma caller_ctx_no_abort s i : r_req s = RqCaller -> r_caller_done s = false -> rstep s (RAbort i) = None.
Proof. intros Hq Hc. cbn [rstep]. unfold req_done. rewrite Hq, Hc, andb_false_r. reflexivity. Qed.

(* --- the harness's scenarios are schedules ---------------------------------------------------- *)

Lemma rexec_rrun s a : rexec s a = rrun [a] s.
Proof. reflexivity. Qed.

Lemma rrun_app s l1 l2 : rrun (l1 ++ l2) s = rrun l2 (rrun l1 s).
Proof. unfold rrun. apply fold_left_app. Qed.

Lemma aborts_list_sched : forall l s, exists sch, fold_left (fun s i => rexec s (RAbort i)) l s = rrun sch s.
Proof.
  induction l as [|i l IH]; intro s; cbn [fold_left]; [exists []; reflexivity|].
  destruct (IH (rexec s (RAbort i))) as [sch H]. exists ([RAbort i] ++ sch). rewrite rrun_app. exact H.
Qed.

Lemma aborts_sched s : exists sch, aborts s = rrun sch s.
Proof. apply aborts_list_sched. Qed.

Lemma rsettle_sends_sched : forall m i s, exists sch, rsettle_sends m i s = rrun sch s.
Proof.
  induction m as [|m IH]; intros i s; cbn [rsettle_sends]; [exists []; reflexivity|].
  destruct (IH (S i) (rexec (rexec s (RBase (Send i))) (RBase Recv))) as [sch Hs].
  exists ([RBase (Send i); RBase Recv] ++ sch). rewrite rrun_app. exact Hs.
Qed.

Lemma rsettle_sched s : exists sch, rsettle s = rrun sch s.
Proof.
  unfold rsettle. destruct (aborts_sched s) as [l1 H1]. rewrite H1.
  destruct (rsettle_sends_sched (length (f_snd (r_f (rrun l1 s)))) 0 (rrun l1 s)) as [l2 H2]. rewrite H2.
  destruct (aborts_sched (rexec (rrun l2 (rrun l1 s)) (RBase GiveUp))) as [l3 H3]. rewrite H3.
  exists (l1 ++ l2 ++ [RBase GiveUp] ++ l3). rewrite !rrun_app. reflexivity.
Qed.

Lemma rev_apply_sched s e : exists sch, rev_apply s e = rrun sch s.
Proof.
  destruct e as [i ok| |]; cbn [rev_apply].
  - destruct (rsettle_sched (rexec s (RBase (Return i ok)))) as [l H]. exists ([RBase (Return i ok)] ++ l). rewrite rrun_app. exact H.
  - destruct (rsettle_sched (rexec s (RBase Timeout))) as [l H]. exists ([RBase Timeout] ++ l). rewrite rrun_app. exact H.
  - destruct (rsettle_sched (rexec s RCallerEnd)) as [l H]. exists ([RCallerEnd] ++ l). rewrite rrun_app. exact H.
Qed.

Lemma rscenario_sched evs : forall s, exists sch, rscenario s evs = rrun sch s.
Proof.
  unfold rscenario. induction evs as [|e evs IH]; intro s; cbn [fold_left]; [exists []; reflexivity|].
  destruct (rev_apply_sched s e) as [l1 H1]. destruct (IH (rev_apply s e)) as [l2 H2].
  exists (l1 ++ l2). rewrite rrun_app, <- H1. exact H2.
Qed.

(* every state the check looks at (the state after each event of a scenario) is a scheduled state *)
Lemma rtrace_sched evs : forall s s', In s' (rtrace s evs) -> exists sch, s' = rrun sch s.
Proof.
  induction evs as [|e evs IH]; intros s s' H; cbn [rtrace] in H; [inversion H|].
  destruct H as [<-|H].
  - apply rev_apply_sched.
  - destruct (IH _ _ H) as [l2 H2]. destruct (rev_apply_sched s e) as [l1 H1].
    exists (l1 ++ l2). rewrite rrun_app, <- H1. exact H2.
Qed.

(* --- a request under the caller's context stays while that context lives ---------------------- *)

Lemma nth_error_set_nth_other {A} (l : list A) : forall i j x, i <> j -> nth_error (set_nth l j x) i = nth_error l i.
Proof.
  induction l as [|y l IH]; intros i j x Hij; destruct j; destruct i; cbn; try reflexivity; try congruence.
  apply IH. congruence.
Qed.

Lemma caller_ctx_step_keeps s a s' i :
  r_req s = RqCaller -> r_caller_done s = false -> stat_at s i = Some SCall ->
  a <> RCallerEnd -> (forall ok, a <> RBase (Return i ok)) ->
  rstep s a = Some s' ->
  r_req s' = RqCaller /\ r_caller_done s' = false /\ stat_at s' i = Some SCall.
Proof.
  intros Hq Hc Hi Ha1 Ha2 H. unfold stat_at in *. destruct a as [b| |j]; cbn [rstep] in H.
  - destruct (fstep (r_f s) b) as [f'|] eqn:E; [|discriminate]. injection H as <-.
    cbn [with_f r_f r_req r_caller_done]. repeat split; try assumption.
    destruct b as [j ok|j| | |]; cbn [fstep] in E.
    + destruct (nth_error (f_snd (r_f s)) j) as [[| |]|] eqn:Ej; try discriminate. injection E as <-.
      cbn [f_snd]. rewrite nth_error_set_nth_other; [exact Hi|].
      intro Heq. subst j. apply (Ha2 ok). reflexivity.
    + destruct (nth_error (f_snd (r_f s)) j) as [[| |]|] eqn:Ej; try discriminate.
      destruct (f_buf (r_f s) <? f_cap (r_f s)); [|discriminate]. injection E as <-.
      cbn [f_snd]. rewrite nth_error_set_nth_other; [exact Hi|].
      intro Heq. subst j. rewrite Hi in Ej. discriminate.
    + destruct (negb (f_coll_done (r_f s)) && (0 <? f_buf (r_f s)) && (f_recvd (r_f s) <? f_k (r_f s))); [|discriminate].
      injection E as <-. exact Hi.
    + destruct (negb (f_coll_done (r_f s)) && f_has_timeout (r_f s)); [|discriminate]. injection E as <-. exact Hi.
    + destruct (negb (f_coll_done (r_f s)) && f_detect (r_f s) && (count_stat SCall (f_snd (r_f s)) =? 0) && (f_succ (r_f s) =? 0)); [|discriminate].
      injection E as <-. exact Hi.
  - exfalso. apply Ha1. reflexivity.
  - unfold req_done in H. rewrite Hq, Hc, andb_false_r in H. discriminate.
Qed.

Lemma caller_ctx_request_stays : forall sch s i,
  r_req s = RqCaller -> r_caller_done s = false -> stat_at s i = Some SCall ->
  Forall (fun a => a <> RCallerEnd /\ forall ok, a <> RBase (Return i ok)) sch ->
  stat_at (rrun sch s) i = Some SCall /\ r_caller_done (rrun sch s) = false.
Proof.
  induction sch as [|a sch IH]; intros s i Hq Hc Hi Hall; [split; assumption|].
  inversion Hall as [|? ? [Ha1 Ha2] Hrest]; subst.
  cbn [rrun fold_left]. fold (rrun sch (rexec s a)). unfold rexec.
  destruct (rstep s a) as [s'|] eqn:E.
  - destruct (caller_ctx_step_keeps s a s' i Hq Hc Hi Ha1 Ha2 E) as (Hq' & Hc' & Hi'). apply IH; assumption.
  - apply IH; assumption.
Qed.
