From Verif Require Import Lib.Base Model.C20_Bookkeeping.
From Coq Require Import ZifyBool ZifyN ZifyNat.

(* --- key lists ------------------------------------------------------------------------------ *)

Lemma mem_In x l : mem x l = true <-> In x l.
Proof.
  unfold mem. rewrite existsb_exists. split.
  - intros [y [Hy He]]. apply N.eqb_eq in He. subst. exact Hy.
  - intro H. exists x. split; [exact H | apply N.eqb_refl].
Qed.

Lemma mem_false x l : mem x l = false <-> ~ In x l.
Proof.
  rewrite <- mem_In. destruct (mem x l); split; intro H.
  - discriminate.
  - exfalso; apply H; reflexivity.
  - intro H2; discriminate.
  - reflexivity.
Qed.

Lemma In_ins y x l : In y (ins x l) <-> y = x \/ In y l.
Proof.
  unfold ins. destruct (mem x l) eqn:E.
  - apply mem_In in E. split; [auto | intros [->|H]; assumption].
  - cbn. split; intros [H|H]; auto.
Qed.

Lemma NoDup_ins x l : NoDup l -> NoDup (ins x l).
Proof.
  intro H. unfold ins. destruct (mem x l) eqn:E; [exact H|]. constructor; [apply mem_false; exact E | exact H].
Qed.

Lemma In_rem y x l : In y (rem x l) <-> In y l /\ y <> x.
Proof.
  unfold rem. rewrite filter_In. split; intros [H1 H2]; split; auto.
  - intro Heq. subst. rewrite N.eqb_refl in H2. discriminate.
  - apply negb_true_iff. apply N.eqb_neq. exact H2.
Qed.

Lemma NoDup_filter' (f : N -> bool) l : NoDup l -> NoDup (filter f l).
Proof.
  induction 1 as [|x l Hx Hnd IH]; cbn; [constructor|].
  destruct (f x); [constructor; [|exact IH] | exact IH].
  intro H. apply filter_In in H. tauto.
Qed.

Lemma NoDup_rem x l : NoDup l -> NoDup (rem x l).
Proof. apply NoDup_filter'. Qed.

Lemma In_fold_ins ds : forall m y, In y (fold_left (fun m d => ins d m) ds m) <-> In y ds \/ In y m.
Proof.
  induction ds as [|d ds IH]; intros m y; cbn [fold_left].
  - cbn. tauto.
  - rewrite IH, In_ins. cbn. intuition (subst; auto).
Qed.

Lemma NoDup_fold_ins ds : forall m, NoDup m -> NoDup (fold_left (fun m d => ins d m) ds m).
Proof. induction ds as [|d ds IH]; intros m H; cbn [fold_left]; [exact H|]. apply IH, NoDup_ins, H. Qed.

(* a duplicate-free list of numbers inside [lo, hi] has at most hi - lo + 1 elements *)
Lemma window_size l lo hi :
  NoDup l -> (forall x, In x l -> lo <= x /\ x <= hi) -> size l <= hi - lo + 1.
Proof.
  intros Hnd Hin. unfold size.
  set (w := map (fun i => lo + N.of_nat i) (seq 0 (N.to_nat (hi - lo + 1)))).
  assert (Hincl : incl l w).
  { intros x Hx. destruct (Hin x Hx) as [H1 H2]. unfold w. apply in_map_iff.
    exists (N.to_nat (x - lo)). split; [lia|]. apply in_seq. lia. }
  pose proof (NoDup_incl_length Hnd Hincl) as Hlen. unfold w in Hlen. rewrite map_length, seq_length in Hlen. lia.
Qed.

Lemma size_ins_le x l : size (ins x l) <= size l + 1.
Proof. unfold ins, size. destruct (mem x l); cbn [length]; lia. Qed.

Section Proofs.
  Variable spe : N.
  Hypothesis spe_pos : 0 < spe.

  Lemma epoch_mono a b : a <= b -> epoch_of spe a <= epoch_of spe b.
  Proof. intro H. unfold epoch_of. apply N.div_le_mono; lia. Qed.

  (* --- induction over guarded histories ------------------------------------------------------ *)
  Lemma guarded_inv (fx : bool) (g : sys -> op -> bool) (I : sys -> Prop) :
    (forall st o, I st -> g st o = true -> I (step spe fx st o)) ->
    forall h st, I st -> guarded spe fx g h st = true -> I (run spe fx h st).
  Proof.
    intros HI h. induction h as [|o h IH]; intros st Hst Hg; [exact Hst|].
    cbn [guarded] in Hg. apply andb_prop in Hg as [Hg1 Hg2].
    unfold run; cbn [fold_left]. apply IH; [apply HI; assumption | exact Hg2].
  Qed.

  Lemma run_inv (fx : bool) (I : sys -> Prop) :
    (forall st o, I st -> I (step spe fx st o)) ->
    forall h st, I st -> I (run spe fx h st).
  Proof.
    intros HI h. induction h as [|o h IH]; intros st Hst; [exact Hst|].
    unfold run; cbn [fold_left]. apply IH, HI, Hst.
  Qed.

  Definition gand (g1 g2 : sys -> op -> bool) (st : sys) (o : op) : bool := g1 st o && g2 st o.

  Lemma sched_apply_fields st ds :
    attested (sched_apply st ds) = attested st /\ running (sched_apply st ds) = running st /\
    subs (sched_apply st ds) = subs st /\ roots (sched_apply st ds) = roots st /\
    sdata (sched_apply st ds) = sdata st /\ bids (sched_apply st ds) = bids st /\
    g_succ (sched_apply st ds) = g_succ st /\ g_start (sched_apply st ds) = g_start st /\
    g_head (sched_apply st ds) = g_head st /\ g_now (sched_apply st ds) = g_now st /\
    g_msg (sched_apply st ds) = g_msg st /\ g_auc (sched_apply st ds) = g_auc st.
  Proof. cbn. repeat split. Qed.

  (* ============================================================================================ *)
  (* attested                                                                                     *)
  Record att_inv (st : sys) : Prop := {
    ai_nodup : NoDup (attested st);
    ai_win : forall k, In k (attested st) -> g_succ st <= k + 1 /\ k <= epoch_of spe (g_start st);
    ai_run : forall r, In r (running st) -> r <= g_start st;
    ai_succ : g_succ st <= epoch_of spe (g_start st)
  }.

  Lemma att_inv_init : att_inv init.
  Proof. constructor; cbn; try constructor; try tauto. unfold epoch_of. apply N.le_0_l. Qed.

  Lemma att_inv_step st o : att_inv st -> starts_ok st o = true -> att_inv (step spe true st o).
  Proof.
    intros [Hnd Hwin Hrun Hsucc] Hg. destruct o as [cur notcur ds|s|s ok|cur e resched sub_ok|cur e ok|cur s|s ok|s|s]; cbn [starts_ok] in Hg.
    - cbn. constructor; cbn; assumption.
    - unfold step. destruct (mem s (jobs st)) eqn:Ej; [|constructor; assumption].
      assert (Hm : N.max (g_start st) s = s) by lia.
      constructor; cbn [attested running g_succ g_start]; rewrite ?Hm.
      + apply NoDup_ins, Hnd.
      + intros k Hk. apply In_ins in Hk as [->|Hk].
        * split; [|lia]. pose proof (epoch_mono (g_start st) s). lia.
        * destruct (Hwin k Hk). split; [assumption|]. pose proof (epoch_mono (g_start st) s). lia.
      + intros r Hr. apply In_ins in Hr as [->|Hr]; [lia|]. specialize (Hrun r Hr). lia.
      + pose proof (epoch_mono (g_start st) s). lia.
    - unfold step. destruct (mem s (running st)) eqn:Er; [|constructor; assumption].
      apply mem_In in Er. pose proof (Hrun s Er) as Hs. pose proof (epoch_mono s (g_start st) Hs) as He.
      destruct ok; constructor; cbn [attested running g_succ g_start]; try assumption.
      + unfold housekeep. destruct (1 <? epoch_of spe s); [apply NoDup_filter'|]; exact Hnd.
      + intros k Hk. unfold housekeep in Hk. destruct (1 <? epoch_of spe s) eqn:E1.
        * unfold keep_ge in Hk. apply filter_In in Hk as [Hk Hge]. destruct (Hwin k Hk). split; lia.
        * destruct (Hwin k Hk). split; lia.
      + intros r Hr. apply In_rem in Hr as [Hr _]. auto.
      + lia.
      + intros r Hr. apply In_rem in Hr as [Hr _]. auto.
    - cbn [step]. destruct resched as [ds|]; constructor; cbn; assumption.
    - constructor; cbn; assumption.
    - cbn [step]. destruct (s =? cur); constructor; cbn; assumption.
    - cbn [step]. destruct ok; constructor; cbn; assumption.
    - constructor; cbn; assumption.
    - constructor; cbn; assumption.
  Qed.

  Lemma attested_window h :
    guarded spe true starts_ok h init = true ->
    let st := run spe true h init in
    NoDup (attested st) /\
    (forall k, In k (attested st) -> g_succ st <= k + 1 /\ k <= epoch_of spe (g_start st)) /\
    size (attested st) <= epoch_of spe (g_start st) - g_succ st + 2.
  Proof.
    intros Hg st.
    pose proof (guarded_inv true starts_ok att_inv att_inv_step h init att_inv_init Hg) as [Hnd Hwin Hrun Hsucc].
    fold st in Hnd, Hwin, Hrun, Hsucc. repeat split; try assumption; try (apply Hwin; assumption).
    pose proof (window_size (attested st) (g_succ st - 1) (epoch_of spe (g_start st)) Hnd) as W.
    assert (Hin : forall x, In x (attested st) -> g_succ st - 1 <= x /\ x <= epoch_of spe (g_start st)).
    { intros x Hx. destruct (Hwin x Hx). lia. }
    specialize (W Hin). lia.
  Qed.

  (* ============================================================================================ *)
  (* pending marks                                                                                *)
  Record pend_inv (st : sys) : Prop := {
    pi_marks : NoDup (marks st);
    pi_jobs : NoDup (jobs st);
    pi_running : NoDup (running st);
    pi_disj : forall x, In x (jobs st) -> ~ In x (running st);
    pi_exact : forall x, In x (marks st) <-> In x (jobs st) \/ In x (running st)
  }.

  Lemma pend_inv_init : pend_inv init.
  Proof. constructor; cbn; try constructor; tauto. Qed.

  Lemma pend_sched st ds :
    pend_inv st -> (forall d, In d ds -> ~ In d (running st)) -> pend_inv (sched_apply st ds).
  Proof.
    intros [Hm Hj Hr Hd Hx] Hnr. constructor; cbn [sched_apply marks jobs running].
    - apply NoDup_fold_ins, Hm.
    - apply NoDup_fold_ins, Hj.
    - exact Hr.
    - intros x Hi. apply In_fold_ins in Hi as [Hi|Hi]; [apply Hnr, Hi | apply Hd, Hi].
    - intros x. rewrite !In_fold_ins, Hx. tauto.
  Qed.

  Lemma forallb_not_running (st : sys) ds :
    forallb (fun d => negb (mem d (running st))) ds = true -> forall d, In d ds -> ~ In d (running st).
  Proof.
    intros H d Hd. rewrite forallb_forall in H. specialize (H d Hd). apply negb_true_iff in H. apply mem_false, H.
  Qed.

  Lemma pend_inv_step st o : pend_inv st -> resched_ok spe st o = true -> pend_inv (step spe true st o).
  Proof.
    intros Hinv Hg. pose proof Hinv as [Hm Hj Hr Hd Hx].
    destruct o as [cur notcur ds|s|s ok|cur e resched sub_ok|cur e ok|cur s|s ok|s|s]; cbn [resched_ok] in Hg.
    - pose proof (pend_sched st _ Hinv (forallb_not_running st _ Hg)) as [A B C D E].
      constructor; cbn [step marks jobs running]; assumption.
    - unfold step. destruct (mem s (jobs st)) eqn:Ej; [|exact Hinv]. apply mem_In in Ej.
      constructor; cbn [marks jobs running].
      + exact Hm.
      + apply NoDup_rem, Hj.
      + apply NoDup_ins, Hr.
      + intros x Hi Hi2. apply In_rem in Hi as [Hi Hne]. apply In_ins in Hi2 as [->|Hi2]; [congruence | exact (Hd x Hi Hi2)].
      + intros x. rewrite In_rem, In_ins, Hx. destruct (N.eq_dec x s) as [->|Hne]; [tauto | tauto].
    - unfold step. destruct (mem s (running st)) eqn:Er; [|exact Hinv]. apply mem_In in Er.
      assert (Hnj : ~ In s (jobs st)) by (intro Hi; exact (Hd s Hi Er)).
      constructor; cbn [marks jobs running].
      + apply NoDup_rem, Hm.
      + exact Hj.
      + apply NoDup_rem, Hr.
      + intros x Hi Hi2. apply In_rem in Hi2 as [Hi2 _]. exact (Hd x Hi Hi2).
      + intros x. rewrite !In_rem, Hx. destruct (N.eq_dec x s) as [->|Hne]; [tauto | tauto].
    - (* refresh: cancel the epoch's jobs (and their marks), then reschedule *)
      set (cancelled := filter (in_epoch spe e) (jobs st)) in *.
      set (st1 := {| attested := attested st;
                     marks := filter (fun s => negb (mem s cancelled)) (marks st);
                     jobs := filter (fun s => negb (in_epoch spe e s)) (jobs st);
                     running := running st; subs := subs st; roots := roots st; sdata := sdata st; bids := bids st;
                     g_succ := g_succ st; g_start := g_start st; g_head := g_head st; g_now := cur;
                     g_msg := g_msg st; g_auc := g_auc st |}).
      assert (H1 : pend_inv st1).
      { constructor; cbn [st1 marks jobs running].
        - apply NoDup_filter', Hm.
        - apply NoDup_filter', Hj.
        - exact Hr.
        - intros x Hi. apply filter_In in Hi as [Hi _]. exact (Hd x Hi).
        - intros x. rewrite !filter_In, Hx. unfold cancelled.
          destruct (mem x (filter (in_epoch spe e) (jobs st))) eqn:Ec.
          + apply mem_In in Ec. apply filter_In in Ec as [Ec1 Ec2]. rewrite Ec2. cbn.
            split; [intros [_ F]; discriminate | intros [[_ F]|Hrun]; [discriminate | exfalso; exact (Hd x Ec1 Hrun)]].
          + apply mem_false in Ec. rewrite filter_In in Ec. cbn [negb].
            split.
            * intros [[Hjx|Hrx] _]; [left; split; [exact Hjx|] | right; exact Hrx].
              destruct (in_epoch spe e x) eqn:Ei; [exfalso; apply Ec; auto | reflexivity].
            * intros [[Hjx _]|Hrx]; split; auto. }
      cbn [step]. fold cancelled. destruct resched as [ds|].
      + change (running st) with (running st1) in Hg.
        pose proof (pend_sched st1 _ H1 (forallb_not_running st1 _ Hg)) as [A B C D E].
        constructor; cbn [marks jobs running]; assumption.
      + exact H1.
    - constructor; cbn [step marks jobs running]; assumption.
    - cbn [step]. destruct (s =? cur); constructor; cbn [marks jobs running]; assumption.
    - cbn [step]. destruct ok; [constructor; cbn [marks jobs running]; assumption | exact Hinv].
    - constructor; cbn [step marks jobs running]; assumption.
    - constructor; cbn [step marks jobs running]; assumption.
  Qed.

  Lemma pending_exact h :
    guarded spe true (resched_ok spe) h init = true ->
    let st := run spe true h init in
    (forall s, has_pending st s = in_flight st s) /\
    size (marks st) = size (jobs st) + size (running st).
  Proof.
    intros Hg st.
    pose proof (guarded_inv true (resched_ok spe) pend_inv pend_inv_step h init pend_inv_init Hg) as [Hm Hj Hr Hd Hx].
    fold st in Hm, Hj, Hr, Hd, Hx. split.
    - intro s. unfold has_pending, in_flight.
      destruct (mem s (marks st)) eqn:E1.
      + apply mem_In, Hx in E1. destruct E1 as [E|E]; apply mem_In in E; rewrite E; [reflexivity | symmetry; apply orb_true_r].
      + apply mem_false in E1. rewrite Hx in E1.
        destruct (mem s (jobs st)) eqn:E2; [apply mem_In in E2; tauto|].
        destruct (mem s (running st)) eqn:E3; [apply mem_In in E3; tauto | reflexivity].
    - (* marks is a duplicate-free enumeration of the disjoint union *)
      assert (Hnd : NoDup (jobs st ++ running st)).
      { clear -Hj Hr Hd. induction (jobs st) as [|a l IH]; cbn; [exact Hr|].
        inversion Hj as [|? ? Ha Hl]; subst. constructor.
        - intro Hi. apply in_app_or in Hi as [Hi|Hi]; [exact (Ha Hi) | exact (Hd a (or_introl eq_refl) Hi)].
        - apply IH; [exact Hl | intros x Hx; apply Hd; right; exact Hx]. }
      assert (L1 : (length (marks st) <= length (jobs st ++ running st))%nat).
      { apply NoDup_incl_length; [exact Hm|]. intros x Hi. apply in_or_app, Hx, Hi. }
      assert (L2 : (length (jobs st ++ running st) <= length (marks st))%nat).
      { apply NoDup_incl_length; [exact Hnd|]. intros x Hi. apply Hx. apply in_app_or, Hi. }
      rewrite app_length in L1, L2. unfold size. unfold slot in *. lia.
  Qed.

  (* ============================================================================================ *)
  (* subscriptionInfos                                                                            *)
  Record subs_inv (st : sys) : Prop := {
    si_nodup : NoDup (subs st);
    si_win : forall k, In k (subs st) -> g_head st <= k + 1 /\ k <= epoch_of spe (g_now st) + 1;
    si_head : g_head st <= epoch_of spe (g_now st)
  }.

  Lemma subs_inv_init : subs_inv init.
  Proof. constructor; cbn; try constructor; try tauto. apply N.le_0_l. Qed.

  Lemma subs_inv_time st cur (l : list epoch) :
    subs_inv st -> g_now st <= cur ->
    forall st', subs st' = subs st -> g_head st' = g_head st -> g_now st' = cur -> subs_inv st'.
  Proof.
    intros [Hnd Hwin Hh] Hle st' E1 E2 E3. pose proof (epoch_mono _ _ Hle) as Hm.
    constructor; rewrite ?E1, ?E2, ?E3; [exact Hnd | | lia].
    intros k Hk. destruct (Hwin k Hk). split; lia.
  Qed.

  Lemma subs_inv_step st o :
    subs_inv st -> gand time_ok (subs_ok spe) st o = true -> subs_inv (step spe true st o).
  Proof.
    intros Hinv Hg. pose proof Hinv as [Hnd Hwin Hh]. unfold gand in Hg. apply andb_prop in Hg as [Ht Hs].
    destruct o as [cur notcur ds|s|s ok|cur e resched sub_ok|cur e ok|cur s|s ok|s|s]; cbn [time_ok subs_ok] in Ht, Hs.
    - apply (subs_inv_time st cur (subs st) Hinv); [lia | reflexivity..].
    - unfold step. destruct (mem s (jobs st)); [constructor; cbn; assumption | exact Hinv].
    - unfold step. destruct (mem s (running st)); [constructor; cbn; assumption | exact Hinv].
    - cbn [step]. destruct resched as [ds|].
      + assert (Hle : g_now st <= cur) by lia. pose proof (epoch_mono _ _ Hle) as Hm.
        constructor; cbn [subs g_head g_now sched_apply].
        * unfold subscribe. destruct sub_ok; [apply NoDup_ins|]; exact Hnd.
        * intros k Hk. unfold subscribe in Hk. destruct sub_ok.
          -- apply In_ins in Hk as [->|Hk]; [lia|]. destruct (Hwin k Hk). lia.
          -- destruct (Hwin k Hk). lia.
        * lia.
      + apply (subs_inv_time st cur (subs st) Hinv); [lia | reflexivity..].
    - assert (Hle : g_now st <= cur) by lia. pose proof (epoch_mono _ _ Hle) as Hm.
      constructor; cbn [step subs g_head g_now].
      + unfold subscribe. destruct ok; [apply NoDup_ins|]; exact Hnd.
      + intros k Hk. unfold subscribe in Hk. destruct ok.
        * apply In_ins in Hk as [->|Hk]; [lia|]. destruct (Hwin k Hk). lia.
        * destruct (Hwin k Hk). lia.
      + lia.
    - assert (Hle : g_now st <= cur) by lia. pose proof (epoch_mono _ _ Hle) as Hm.
      cbn [step]. destruct (s =? cur) eqn:E.
      + apply N.eqb_eq in E. subst s. constructor; cbn [subs g_head g_now].
        * unfold head_clean. apply NoDup_filter', Hnd.
        * intros k Hk. unfold head_clean in Hk. apply filter_In in Hk as [Hk Hge]. destruct (Hwin k Hk). lia.
        * lia.
      + apply (subs_inv_time st cur (subs st) Hinv); [lia | reflexivity..].
    - cbn [step]. destruct ok; [constructor; cbn; assumption | exact Hinv].
    - constructor; cbn; assumption.
    - constructor; cbn; assumption.
  Qed.

  Lemma subs_window h :
    guarded spe true (gand time_ok (subs_ok spe)) h init = true ->
    let st := run spe true h init in
    NoDup (subs st) /\
    (forall k, In k (subs st) -> g_head st <= k + 1 /\ k <= epoch_of spe (g_now st) + 1) /\
    size (subs st) <= epoch_of spe (g_now st) - g_head st + 3.
  Proof.
    intros Hg st.
    pose proof (guarded_inv true _ subs_inv subs_inv_step h init subs_inv_init Hg) as [Hnd Hwin Hh].
    fold st in Hnd, Hwin, Hh. repeat split; try assumption; try (apply Hwin; assumption).
    pose proof (window_size (subs st) (g_head st - 1) (epoch_of spe (g_now st) + 1) Hnd) as W.
    assert (Hin : forall x, In x (subs st) -> g_head st - 1 <= x /\ x <= epoch_of spe (g_now st) + 1).
    { intros x Hx. destruct (Hwin x Hx). lia. }
    specialize (W Hin). lia.
  Qed.

  (* ============================================================================================ *)
  (* beaconBlockRoots and slotDataRecords                                                         *)
  Record msg_inv (st : sys) : Prop := {
    mi_rnodup : NoDup (roots st);
    mi_rwin : forall k, In k (roots st) -> k <= g_msg st /\ g_msg st <= k + spe;
    mi_dnodup : NoDup (sdata st);
    mi_dle : forall k, In k (sdata st) -> k <= g_msg st;
    mi_dsize : size (sdata st) <= max_slot_data
  }.

  Lemma msg_inv_init : msg_inv init.
  Proof. constructor; cbn; try constructor; try tauto. unfold max_slot_data; lia. Qed.

  Lemma msg_inv_step st o : msg_inv st -> msgs_ok st o = true -> msg_inv (step spe true st o).
  Proof.
    intros Hinv Hg. pose proof Hinv as [Hrn Hrw Hdn Hdl Hds].
    destruct o as [cur notcur ds|s|s ok|cur e resched sub_ok|cur e ok|cur s|s ok|s|s]; cbn [msgs_ok] in Hg.
    - constructor; cbn; assumption.
    - unfold step. destruct (mem s (jobs st)); [constructor; cbn; assumption | exact Hinv].
    - unfold step. destruct (mem s (running st)); [constructor; cbn; assumption | exact Hinv].
    - cbn [step]. destruct resched; constructor; cbn; assumption.
    - constructor; cbn; assumption.
    - cbn [step]. destruct (s =? cur); constructor; cbn; assumption.
    - cbn [step]. destruct ok; [|exact Hinv].
      assert (Hle : g_msg st <= s) by lia.
      constructor; cbn [roots sdata g_msg].
      + unfold root_set. apply NoDup_filter', NoDup_ins, Hrn.
      + intros k Hk. unfold root_set in Hk. apply filter_In in Hk as [Hk Hge].
        apply In_ins in Hk as [->|Hk]; [lia|]. destruct (Hrw k Hk). lia.
      + unfold sdata_set, sdata_clean. destruct (max_slot_data <? size (ins s (sdata st))); [apply NoDup_filter'|]; apply NoDup_ins, Hdn.
      + intros k Hk. unfold sdata_set, sdata_clean in Hk.
        assert (Hk' : In k (ins s (sdata st))).
        { destruct (max_slot_data <? size (ins s (sdata st))); [apply filter_In in Hk as [Hk _]|]; exact Hk. }
        apply In_ins in Hk' as [->|Hk']; [lia|]. specialize (Hdl k Hk'). lia.
      + unfold sdata_set, sdata_clean.
        pose proof (size_ins_le s (sdata st)) as Hsz.
        destruct (max_slot_data <? size (ins s (sdata st))) eqn:Eb; [|lia].
        (* more than 100 records: everything below s-32 goes; what is left lies in [s-32, s] *)
        assert (Hnd1 : NoDup (ins s (sdata st))) by (apply NoDup_ins, Hdn).
        assert (Hle1 : forall k, In k (ins s (sdata st)) -> k <= s).
        { intros k Hk. apply In_ins in Hk as [->|Hk]; [lia|]. specialize (Hdl k Hk). lia. }
        destruct (N.le_gt_cases min_slot_data s) as [Hbig|Hsmall].
        * set (l2 := filter (fun k => negb (k <? sub64 s min_slot_data)) (ins s (sdata st))).
          assert (W : size l2 <= s - (s - min_slot_data) + 1).
          { apply window_size; [apply NoDup_filter', Hnd1|].
            intros x Hx. unfold l2 in Hx. apply filter_In in Hx as [Hx Hge]. specialize (Hle1 x Hx).
            unfold sub64 in Hge. destruct (min_slot_data <=? s) eqn:E; lia. }
          unfold min_slot_data, max_slot_data in *. lia.
        * (* s < 32: at most 32 distinct slots can be present, so the threshold is not reached *)
          exfalso.
          pose proof (window_size (ins s (sdata st)) 0 s Hnd1) as W.
          assert (Hin : forall x, In x (ins s (sdata st)) -> 0 <= x /\ x <= s) by (intros x Hx; specialize (Hle1 x Hx); lia).
          specialize (W Hin). unfold min_slot_data, max_slot_data in *. lia.
    - constructor; cbn [step roots sdata g_msg]; try assumption.
      + apply NoDup_rem, Hrn.
      + intros k Hk. apply In_rem in Hk as [Hk _]. auto.
    - constructor; cbn; assumption.
  Qed.

  Lemma roots_window h :
    guarded spe true msgs_ok h init = true ->
    let st := run spe true h init in
    NoDup (roots st) /\ (forall k, In k (roots st) -> k <= g_msg st /\ g_msg st <= k + spe) /\
    size (roots st) <= spe + 1.
  Proof.
    intros Hg st.
    pose proof (guarded_inv true _ msg_inv msg_inv_step h init msg_inv_init Hg) as [Hrn Hrw Hdn Hdl Hds].
    fold st in Hrn, Hrw. repeat split; try assumption; try (apply Hrw; assumption).
    pose proof (window_size (roots st) (g_msg st - spe) (g_msg st) Hrn) as W.
    assert (Hin : forall x, In x (roots st) -> g_msg st - spe <= x /\ x <= g_msg st).
    { intros x Hx. destruct (Hrw x Hx). lia. }
    specialize (W Hin). lia.
  Qed.

  Lemma sdata_bounded h :
    guarded spe true msgs_ok h init = true ->
    let st := run spe true h init in
    NoDup (sdata st) /\ size (sdata st) <= max_slot_data.
  Proof.
    intros Hg st.
    pose proof (guarded_inv true _ msg_inv msg_inv_step h init msg_inv_init Hg) as [Hrn Hrw Hdn Hdl Hds].
    split; assumption.
  Qed.

  (* ============================================================================================ *)
  (* builderBidsCache                                                                             *)
  Record bid_inv (st : sys) : Prop := {
    bi_nodup : NoDup (bids st);
    bi_win : forall k, In k (bids st) -> k <= g_auc st /\ g_auc st <= k + bid_window
  }.

  Lemma bid_inv_init : bid_inv init.
  Proof. constructor; cbn; try constructor; tauto. Qed.

  Lemma bid_inv_step st o : bid_inv st -> aucs_ok st o = true -> bid_inv (step spe true st o).
  Proof.
    intros Hinv Hg. pose proof Hinv as [Hn Hw].
    destruct o as [cur notcur ds|s|s ok|cur e resched sub_ok|cur e ok|cur s|s ok|s|s]; cbn [aucs_ok] in Hg.
    - constructor; cbn; assumption.
    - unfold step. destruct (mem s (jobs st)); [constructor; cbn; assumption | exact Hinv].
    - unfold step. destruct (mem s (running st)); [constructor; cbn; assumption | exact Hinv].
    - cbn [step]. destruct resched; constructor; cbn; assumption.
    - constructor; cbn; assumption.
    - cbn [step]. destruct (s =? cur); constructor; cbn; assumption.
    - cbn [step]. destruct ok; [constructor; cbn; assumption | exact Hinv].
    - constructor; cbn; assumption.
    - assert (Hle : g_auc st <= s) by lia. constructor; cbn [step bids g_auc].
      + unfold bid_set. apply NoDup_filter', NoDup_ins, Hn.
      + intros k Hk. unfold bid_set in Hk. apply filter_In in Hk as [Hk Hge].
        apply In_ins in Hk as [->|Hk]; [lia|]. destruct (Hw k Hk). lia.
  Qed.

  Lemma bids_window h :
    guarded spe true aucs_ok h init = true ->
    let st := run spe true h init in
    NoDup (bids st) /\ (forall k, In k (bids st) -> k <= g_auc st /\ g_auc st <= k + bid_window) /\
    size (bids st) <= bid_window + 1.
  Proof.
    intros Hg st.
    pose proof (guarded_inv true _ bid_inv bid_inv_step h init bid_inv_init Hg) as [Hn Hw].
    fold st in Hn, Hw. repeat split; try assumption; try (apply Hw; assumption).
    pose proof (window_size (bids st) (g_auc st - bid_window) (g_auc st) Hn) as W.
    assert (Hin : forall x, In x (bids st) -> g_auc st - bid_window <= x /\ x <= g_auc st).
    { intros x Hx. destruct (Hw x Hx). lia. }
    specialize (W Hin). lia.
  Qed.

  (* ============================================================================================ *)
  (* scheduler table: only set-up, not yet started, not withdrawn jobs                            *)
  Lemma jobs_only_scheduled (fx : bool) h :
    let st := run spe fx h init in
    forall s, In s (jobs st) ->
      exists cur notcur ds, (In (OSched cur notcur ds) h \/ exists e b, In (ORefresh cur e (Some ds) b) h) /\ In s ds /\ cur <= s.
  Proof.
    intros st. subst st. unfold run.
    assert (G : forall h st,
               (forall s, In s (jobs st) -> exists cur notcur ds, (In (OSched cur notcur ds) h \/ exists e b, In (ORefresh cur e (Some ds) b) h) /\ In s ds /\ cur <= s) ->
               True) by auto.
    clear G.
    (* generalise over a prefix already processed *)
    assert (H : forall h2 h1 st,
               (forall s, In s (jobs st) -> exists cur notcur ds, (In (OSched cur notcur ds) h1 \/ exists e b, In (ORefresh cur e (Some ds) b) h1) /\ In s ds /\ cur <= s) ->
               forall s, In s (jobs (fold_left (step spe fx) h2 st)) ->
                 exists cur notcur ds, (In (OSched cur notcur ds) (h1 ++ h2) \/ exists e b, In (ORefresh cur e (Some ds) b) (h1 ++ h2)) /\ In s ds /\ cur <= s).
    { induction h2 as [|o h2 IH]; intros h1 st Hst s Hs.
      - rewrite app_nil_r. cbn in Hs. auto.
      - cbn [fold_left] in Hs. replace (h1 ++ o :: h2) with ((h1 ++ [o]) ++ h2) by (rewrite <- app_assoc; reflexivity).
        apply (IH (h1 ++ [o]) (step spe fx st o)); [|exact Hs].
        clear IH Hs s. intros s Hs.
        assert (Hold : In s (jobs st) -> exists cur notcur ds, (In (OSched cur notcur ds) (h1 ++ [o]) \/ exists e b, In (ORefresh cur e (Some ds) b) (h1 ++ [o])) /\ In s ds /\ cur <= s).
        { intro Hi. destruct (Hst s Hi) as (cur & nc & ds & [Hin|(e & b & Hin)] & H2 & H3); exists cur, nc, ds; (split; [|auto]).
          - left. apply in_or_app; auto.
          - right. exists e, b. apply in_or_app; auto. }
        destruct o as [cur notcur ds|s0|s0 ok|cur e resched sub_ok|cur e ok|cur s0|s0 ok|s0|s0].
        + cbn [step jobs sched_apply] in Hs. apply In_fold_ins in Hs as [Hs|Hs]; [|auto].
          unfold sched_filter in Hs. apply filter_In in Hs as [Hs Hf].
          exists cur, notcur, ds. split; [left; apply in_or_app; right; left; reflexivity|]. split; [exact Hs | lia].
        + unfold step in Hs. destruct (mem s0 (jobs st)); [cbn [jobs] in Hs; apply In_rem in Hs as [Hs _]|]; auto.
        + unfold step in Hs. destruct (mem s0 (running st)); cbn [jobs] in Hs; auto.
        + cbn [step] in Hs. destruct resched as [ds|]; cbn [jobs sched_apply] in Hs.
          * apply In_fold_ins in Hs as [Hs|Hs].
            -- unfold sched_filter in Hs. apply filter_In in Hs as [Hs Hf].
               exists cur, true, ds. split; [right; exists e, sub_ok; apply in_or_app; right; left; reflexivity|]. split; [exact Hs | lia].
            -- apply filter_In in Hs as [Hs _]. auto.
          * apply filter_In in Hs as [Hs _]. auto.
        + cbn [step jobs] in Hs. auto.
        + cbn [step] in Hs. destruct (s0 =? cur); cbn [jobs] in Hs; auto.
        + cbn [step] in Hs. destruct ok; cbn [jobs] in Hs; auto.
        + cbn [step jobs] in Hs. auto.
        + cbn [step jobs] in Hs. auto. }
    intros s Hs. apply (H h [] init); [cbn; tauto | exact Hs].
  Qed.
End Proofs.

(* ============================================================================================== *)
(* The tree before the repairs (fx = false): witnesses of unbounded growth and of a stale mark.  *)

(* n epochs 0, 3, 6, ... each with one successful attestation: delete(epoch-2) never finds anything *)
Fixpoint skipping (n : nat) (e : N) : list op :=
  match n with
  | O => []
  | S n' => [OSched (e * 4) false [e * 4]; OStart (e * 4); OFinish (e * 4) true] ++ skipping n' (e + 3)
  end.

Fixpoint messages (n : nat) (s : N) : list op :=
  match n with O => [] | S n' => OMessage s true :: messages n' (s + 1) end.

Fixpoint auctions (n : nat) (s : N) : list op :=
  match n with O => [] | S n' => OAuction s :: auctions n' (s + 1) end.
