(* C02 -- the job table after the job's goroutine has ended.

   Whatever the way out of the goroutine (context branch of the select -- reached at once when it waits,
   or after jobFunc has returned and runtimeFunc has been asked again when the context was cancelled
   while the job was running --, cancel branch, runtimeFunc returning ErrNoMoreInstances or an error,
   a one-off job's single run), the table entry of the job is gone when the goroutine has returned;
   and a script whose parent context was cancelled ends, once nothing is in flight, with the goroutine
   returned.  So "a finished job's name can be scheduled again". *)
From Coq Require Import PArith FMapPositive.
From Verif Require Import Lib.Base Lib.Sched Lib.Reach Model.C02_Scheduler Model.C02_Script Proofs.C02 Proofs.C02_Script Proofs.C02_Check.
From Verif Require Import Check.C02.
From Coq Require Import ZifyBool ZifyN ZifyNat.

Definition g_busy (s : jstate) : bool := gpc_eqb (g_pc s) GRunBusy || gpc_eqb (g_pc s) GTimBusy.

(* checked on the three reachable sets: jobFunc in progress is counted; the repaired timer branch
   waits for the run signal only while the claiming RunJob holds the state lock or has sent it; a
   returned goroutine has no table entry *)
Definition p_exit_inv (s : jstate) : bool :=
  (negb (g_busy s) || (1 <=? running s))
  && (negb (gpc_eqb (g_pc s) GTimRecv && lock_free s) || runq s || run_closed s)
  && (negb (gpc_eqb (g_pc s) GDone) || negb (in_table s)).

Lemma exit_inv_F : forallb p_exit_inv R_F = true. Proof. vm_compute; reflexivity. Qed.
Lemma exit_inv_U : forallb p_exit_inv R_U = true. Proof. vm_compute; reflexivity. Qed.
Lemma exit_inv_P : forallb p_exit_inv R_P = true. Proof. vm_compute; reflexivity. Qed.

Lemma exit_inv_all : forall cf sch, p_exit_inv (run (step cf) sch (init cf)) = true.
Proof.
  intros [k v] sch. destruct k.
  - destruct v.
    + exact (always cfU R_U p_exit_inv R_U_closed exit_inv_U _ R_U_init sch).
    + exact (always cfF R_F p_exit_inv R_F_closed exit_inv_F _ R_F_init sch).
  - rewrite periodic_run_variant. change (init {| k_kind := Periodic; k_variant := v |}) with (init cfP).
    exact (always cfP R_P p_exit_inv R_P_closed exit_inv_P _ R_P_init sch).
Qed.

(* the goroutine's part of [moves] is empty only if the goroutine is waiting for something *)
Lemma map_opt_nil : forall {X Y} (f : X -> Y) (o : option X), map f (opt_list o) = [] -> o = None.
Proof. intros X Y f [x|] H; [discriminate H | reflexivity]. Qed.

Lemma g_stuck_cases : forall sc now t, g_moves sc now t = [] ->
    let c := t_core t in
    ctx_done c = true -> lock_free c = true ->
    (g_pc c = GTimRecv -> runq c || run_closed c = true) ->
    g_pc c = GDone \/ g_busy c = true.
Proof.
  intros sc now t H c Hctx Hlock Hrecv. subst c. unfold g_moves in H.
  destruct (g_pc (t_core t)) eqn:Eg;
    try (right; unfold g_busy; rewrite Eg; reflexivity);
    try (left; reflexivity); exfalso.
  - (* GRt *)
    destruct (0 <? t_rt_left t).
    + destruct (step (sc_cfg sc) (t_core t) (GRtOut RtNext)) eqn:E; [discriminate H|].
      cbn [step] in E. unfold g_rt in E. rewrite Eg in E. discriminate E.
    + apply map_opt_nil in H. cbn [step] in H. unfold g_rt in H. rewrite Eg in H. discriminate H.
  - (* GSel *)
    apply app_eq_nil in H as [_ H]. apply app_eq_nil in H as [H _].
    apply map_opt_nil in H. cbn [step] in H. unfold g_pick in H. rewrite Eg in H.
    cbn [ready] in H. rewrite Hctx in H. discriminate H.
  - apply map_opt_nil in H. cbn [step] in H. unfold g_step in H. rewrite Eg in H. discriminate H.
  - apply map_opt_nil in H. cbn [step] in H. unfold g_step in H. rewrite Eg, Hlock in H. discriminate H.
  - apply map_opt_nil in H. cbn [step] in H. unfold g_step in H. rewrite Eg, Hlock in H. discriminate H.
  - (* GRunCall *)
    destruct (step (sc_cfg sc) (t_core t) GStep) eqn:E; [discriminate H|].
    cbn [step] in E. unfold g_step in E. rewrite Eg in E. discriminate E.
  - apply map_opt_nil in H. cbn [step] in H. unfold g_step in H. rewrite Eg, Hlock in H. discriminate H.
  - apply map_opt_nil in H. cbn [step] in H. unfold g_step in H. rewrite Eg in H. discriminate H.
  - (* GTimChk *)
    apply map_opt_nil in H. cbn [step] in H. unfold g_step in H. rewrite Eg in H.
    destruct (active (t_core t)); discriminate H.
  - (* GTimRecv *)
    apply map_opt_nil in H. cbn [step] in H. unfold g_step in H. rewrite Eg in H.
    rewrite (Hrecv eq_refl) in H. discriminate H.
  - apply map_opt_nil in H. cbn [step] in H. unfold g_step in H. rewrite Eg in H. discriminate H.
  - apply map_opt_nil in H. cbn [step] in H. unfold g_step in H. rewrite Eg in H. discriminate H.
  - destruct (step (sc_cfg sc) (t_core t) GStep) eqn:E; [discriminate H|].
    cbn [step] in E. unfold g_step in E. rewrite Eg in E. discriminate E.
  - apply map_opt_nil in H. cbn [step] in H. unfold g_step in H. rewrite Eg in H. discriminate H.
  - apply map_opt_nil in H. cbn [step] in H. unfold g_step in H. rewrite Eg, Hlock in H. discriminate H.
  - apply map_opt_nil in H. cbn [step] in H. unfold g_step in H. rewrite Eg in H. discriminate H.
  - apply map_opt_nil in H. cbn [step] in H. unfold g_step in H. rewrite Eg, Hlock in H. discriminate H.
Qed.

(* every script, one-off or periodic, any calls at any instants, every interleaving: a state in which
   the script can end with the parent context cancelled, no jobFunc in flight and no call stuck inside
   a state-lock section (the periodic RunJob observation, C02_obs_periodic_runjob_can_block) is one in
   which the goroutine has returned and the name is free: JobExists false, ScheduleJob of the name
   accepted, and that job runs *)
Lemma script_ctx_exit_leaves_table : forall sc t, In t (finals sc) ->
    ctx_done (t_core t) = true -> running (t_core t) = 0 -> lock_free (t_core t) = true ->
    g_pc (t_core t) = GDone /\ in_table (t_core t) = false
    /\ o_exists (outcome_of t) = false /\ o_reuse (outcome_of t) = Nil /\ o_reuse_runs (outcome_of t) = 1.
Proof.
  intros sc t Ht Hctx Hrun Hlock.
  destruct (script_inv_holds sc t Ht) as [[sch Hsch] _].
  pose proof (exit_inv_all (sc_cfg sc) sch) as Hinv. rewrite <- Hsch in Hinv.
  unfold p_exit_inv in Hinv. apply andb_prop in Hinv as [Hinv Hdone]. apply andb_prop in Hinv as [Hbusy Hrecv].
  pose proof (finals_stuck sc t Ht) as Hst. unfold moves in Hst. apply app_eq_nil in Hst as [Hg _].
  assert (Hpc : g_pc (t_core t) = GDone).
  { destruct (g_stuck_cases sc (sc_end sc) t Hg Hctx Hlock) as [H|H].
    - intro E. rewrite E, Hlock in Hrecv. cbn in Hrecv. exact Hrecv.
    - exact H.
    - rewrite H, Hrun in Hbusy. discriminate Hbusy. }
  assert (Htab : in_table (t_core t) = false).
  { rewrite Hpc in Hdone. cbn in Hdone. apply negb_true_iff in Hdone. exact Hdone. }
  unfold outcome_of; cbn [o_exists o_reuse o_reuse_runs]. rewrite Htab. repeat split; assumption.
Qed.

(* the goroutine of ANY job, however it ended: no table entry (every schedule of the machine) *)
Lemma ended_goroutine_not_listed : forall cf sch,
    let s := run (step cf) sch (init cf) in g_pc s = GDone -> in_table s = false.
Proof.
  intros cf sch s Hpc. subst s. pose proof (exit_inv_all cf sch) as Hinv.
  unfold p_exit_inv in Hinv. apply andb_prop in Hinv as [_ Hdone].
  rewrite Hpc in Hdone. cbn in Hdone. apply negb_true_iff in Hdone. exact Hdone.
Qed.

(* and the calls that come later find nothing: in a script state whose goroutine has returned, a RunJob
   or CancelJob that is issued returns ErrNoSuchJob without touching the job (no run request "succeeds"
   on a job nobody will run), JobExists answers false, ScheduleJob of the name is accepted *)
Lemma calls_after_exit : forall sc now t i cl,
    in_table (t_core t) = false -> cl_at cl <= now ->
    call_moves sc now t i cl Waiting =
      match cl_kind cl with
      | KRun | KCancel => [with_call t i (Ret ErrNoSuchJob) (t_core t)]
      | KCtx => [with_call t i (Ret Nil) (match step (sc_cfg sc) (t_core t) CtxCancel with Some c' => c' | None => t_core t end)]
      | KDup => [with_call t i (Ret Nil) (t_core t)]
      | KExists => [with_call t i (RetB false) (t_core t)]
      end.
Proof.
  intros sc now t i cl Htab Hat. unfold call_moves.
  assert (E : (cl_at cl <=? now) = true) by (apply N.leb_le; exact Hat). rewrite E, Htab.
  destruct (cl_kind cl); reflexivity.
Qed.

(* the same for what the implementation was SEEN to do: an observation of a timed script that the
   correspondence accepts and that came to rest with no jobFunc in flight is the outcome of a state in
   which the model's script can end; if that is a state with the context cancelled and no call stuck,
   the implementation's JobExists answered false, its ScheduleJob of the name returned nil and that
   job ran once *)
Lemma code_eqb_eq : forall a b, code_eqb a b = true -> a = b.
Proof. intros a b H; destruct a, b; try reflexivity; discriminate H. Qed.

Lemma checked_ctx_exit_leaves_table : forall c sc os, agree c = true -> c_body c = Timed sc os ->
    forall ob, In ob os -> ob_hung ob = false -> ob_running ob = 0 ->
    exists t, In t (finals sc) /\ running (t_core t) = 0
      /\ (ctx_done (t_core t) = true -> lock_free (t_core t) = true ->
          o_exists (ob_out ob) = false /\ o_reuse (ob_out ob) = Nil /\ o_reuse_runs (ob_out ob) = 1).
Proof.
  intros c sc os Ha Hb ob Hob Hh Hr.
  pose proof (agree_timed c sc os Ha Hb ob Hob) as Hm.
  unfold obs_match in Hm. apply existsb_exists in Hm as [t [Ht Hm]]. rewrite Hh in Hm.
  apply andb_prop in Hm as [Hm Hrun]. apply N.eqb_eq in Hrun. rewrite Hr in Hrun.
  exists t. split; [exact Ht|]. split; [exact Hrun|]. intros Hctx Hlock.
  destruct (script_ctx_exit_leaves_table sc t Ht Hctx Hrun Hlock) as [_ [_ [He [Hu Hn]]]].
  unfold outcome_match in Hm. repeat (apply andb_prop in Hm as [Hm ?]).
  repeat match goal with
         | E : Bool.eqb _ _ = true |- _ => apply Bool.eqb_prop in E
         | E : (_ =? _) = true |- _ => apply N.eqb_eq in E
         | E : code_eqb _ _ = true |- _ => apply code_eqb_eq in E
         end.
  repeat split; congruence.
Qed.
