(* C11: lemmas about the delivery layer (Model/C11_Delivery.v). *)
From Coq Require Import Lia ZifyBool ZifyN ZifyNat.
From Verif Require Import Lib.Base Model.C11_Registrations Model.C11_Delivery Proofs.C11.

(* ------------------------------------------------------------------------------------------- *)
(* A context that lives: everything arrives. *)

Lemma call_alive : forall start lat, call None start lat = (true, start + lat).
Proof. reflexivity. Qed.

Lemma prep_loop_alive : forall kinds t lats failed,
  fst (prep_loop None t kinds lats failed) = map (fun _ => true) kinds.
Proof.
  induction kinds as [|k kinds IH]; intros t lats failed; [reflexivity|].
  cbn [prep_loop call map].
  specialize (IH (t + hd 0 lats) (tl lats)
                 (match k with PErr => failed + 1 | PNotActive => failed | POk => failed end)).
  destruct (prep_loop None (t + hd 0 lats) kinds (tl lats)
              (match k with PErr => failed + 1 | PNotActive => failed | POk => failed end)) as [ds f].
  cbn [fst] in *. rewrite IH. reflexivity.
Qed.

Lemma mask_all_true {A B} : forall (l : list B) (ns : list (option A)),
  mask (map (fun _ => true) l) ns = ns.
Proof.
  induction l as [|b l IH]; intros ns; [destruct ns; reflexivity|].
  destruct ns as [|n ns]; [reflexivity|]. cbn [map mask]. rewrite IH. reflexivity.
Qed.

Lemma filter_all_true {A} : forall (f : A -> bool) (l : list A),
  (forall x, f x = true) -> filter f l = l.
Proof.
  intros f l H. induction l as [|x l IH]; [reflexivity|]. cbn [filter]. rewrite H, IH. reflexivity.
Qed.

Lemma relays_par_alive : forall lats m, fst (relays_par None lats m) = m.
Proof. intros lats m. unfold relays_par. cbn [fst]. apply filter_all_true. reflexivity. Qed.

Lemma nodes_par_alive {A} : forall (ns : list (option A)) start lats, nodes_par None start lats ns = ns.
Proof.
  induction ns as [|n ns IH]; intros start lats; [reflexivity|].
  cbn [nodes_par call fst]. rewrite IH. reflexivity.
Qed.

Lemma deliver_alive : forall tm o x, t_ctx tm = None -> deliver tm o x = x.
Proof.
  intros tm o x H. unfold deliver. rewrite H.
  destruct o as [r|f|p]; destruct x as [err reqs relays nodes|relays|err nodes]; try reflexivity.
  - pose proof (relays_par_alive (t_relays tm) relays) as E.
    destruct (relays_par None (t_relays tm) relays) as [relays' t]. cbn [fst] in E. subst relays'.
    rewrite nodes_par_alive. reflexivity.
  - rewrite relays_par_alive. reflexivity.
  - rewrite prep_loop_alive, mask_all_true. reflexivity.
Qed.

Lemma run_timed_alive : forall ops st tms,
  Forall (fun tm => t_ctx tm = None) tms -> run_timed st ops tms = run st ops.
Proof.
  induction ops as [|o ops IH]; intros st tms H; [reflexivity|].
  cbn [run_timed run]. unfold step_timed.
  destruct (step st o) as [s1 x].
  assert (Hhd : t_ctx (hd no_timing tms) = None) by (destruct tms; [reflexivity|inversion H; assumption]).
  assert (Htl : Forall (fun tm => t_ctx tm = None) (tl tms)) by (destruct tms; [constructor|inversion H; assumption]).
  rewrite (deliver_alive _ o x Hhd), (IH s1 (tl tms) Htl). reflexivity.
Qed.

(* ------------------------------------------------------------------------------------------- *)
(* Whatever the context: what a peer answers never decides what another peer gets. *)

(* the preparer's loop: who gets the preparations depends on the context and the latencies only *)
Lemma prep_loop_kinds : forall kinds kinds' cx t lats failed failed',
  length kinds = length kinds' ->
  fst (prep_loop cx t kinds lats failed) = fst (prep_loop cx t kinds' lats failed').
Proof.
  induction kinds as [|k kinds IH]; intros [|k' kinds'] cx t lats failed failed' Hlen;
    try discriminate; [reflexivity|].
  cbn [prep_loop]. destruct (call cx t (hd 0 lats)) as [arrived t'].
  injection Hlen as Hlen.
  specialize (IH kinds' cx t' (tl lats)
    (if arrived then match k with PErr => failed + 1 | PNotActive => failed | POk => failed end else failed + 1)
    (if arrived then match k' with PErr => failed' + 1 | PNotActive => failed' | POk => failed' end else failed' + 1)
    Hlen).
  destruct (prep_loop cx t' kinds (tl lats) _) as [ds f].
  destruct (prep_loop cx t' kinds' (tl lats) _) as [ds' f'].
  cbn [fst] in *. rewrite IH. reflexivity.
Qed.

Lemma timed_prep_node_failures_isolated : forall tm p ns',
  length ns' = length (p_nodes p) ->
  deliver tm (OPrepare (set_pnodes p ns')) (step_prepare (set_pnodes p ns'))
  = deliver tm (OPrepare p) (step_prepare p).
Proof.
  intros tm p ns' Hlen. rewrite (prep_node_failures_isolated p ns' Hlen).
  unfold deliver. destruct (step_prepare p) as [err reqs relays nodes|relays|err nodes]; try reflexivity.
  change (p_nodes (set_pnodes p ns')) with ns'.
  rewrite (prep_loop_kinds ns' (p_nodes p) (t_ctx tm) 0 (t_nodes tm) 0 0 Hlen). reflexivity.
Qed.

Lemma timed_node_failures_isolated : forall tm st r ns',
  length ns' = length (r_nodes r) ->
  step_timed st (ORound (set_nodes r ns')) tm = step_timed st (ORound r) tm.
Proof.
  intros tm st r ns' Hlen. unfold step_timed. cbn [step].
  rewrite (node_failures_isolated st r ns' Hlen).
  destruct (step_round st r) as [st' x]. destruct x; reflexivity.
Qed.

Lemma entry_of_filter : forall (f : N * list sreg -> bool) m a,
  entry_of (filter f m) a = filter f (entry_of m a).
Proof.
  intros f m a. unfold entry_of. induction m as [|e m IH]; [reflexivity|].
  cbn [filter]. destruct (f e) eqn:Ef; destruct (fst e =? a) eqn:Ea; cbn [filter]; rewrite ?Ef, ?Ea, IH; reflexivity.
Qed.

(* relays: changing how relays behave changes nothing of what ARRIVES at a relay whose own
   behaviour is unchanged, whatever the latencies and the caller's context *)
Lemma timed_relay_failures_isolated : forall tm st r ks',
  fst (step_timed st (ORound (set_relays r ks')) tm) = fst (step_timed st (ORound r) tm)
  /\ exists err reqs relays relays' nodes nodes',
       snd (step_timed st (ORound r) tm) = OutRound err reqs relays nodes
       /\ snd (step_timed st (ORound (set_relays r ks')) tm) = OutRound err reqs relays' nodes'
       /\ (forall a, kind_of ks' a = kind_of (r_relays r) a -> entry_of relays' a = entry_of relays a)
       /\ (t_ctx tm = None -> nodes' = nodes).
Proof.
  intros tm st r ks'.
  destruct (relay_failures_isolated st r ks') as [Hst [err [reqs [relays [relays' [nodes [H1 [H2 H3]]]]]]]].
  unfold step_timed. cbn [step].
  destruct (step_round st r) as [s1 x1]. destruct (step_round st (set_relays r ks')) as [s2 x2].
  cbn [fst snd] in *. subst x1 x2 s2. split; [reflexivity|].
  cbn [deliver].
  destruct (relays_par (t_ctx tm) (t_relays tm) relays) as [d t] eqn:E.
  destruct (relays_par (t_ctx tm) (t_relays tm) relays') as [d' t'] eqn:E'.
  exists err, reqs, d, d', (nodes_par (t_ctx tm) t (t_nodes tm) nodes), (nodes_par (t_ctx tm) t' (t_nodes tm) nodes).
  split; [reflexivity|]. split; [reflexivity|]. split.
  - intros a Ha. unfold relays_par in E, E'. injection E as <- _. injection E' as <- _.
    rewrite !entry_of_filter, (H3 a Ha). reflexivity.
  - intro Hc. rewrite Hc, !nodes_par_alive. reflexivity.
Qed.
