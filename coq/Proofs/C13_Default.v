(* C13: the ORDER of the normalisation steps of an account specifier.  The code substitutes `.*`
   for an absent or textually empty account part FIRST and strips one `^` and one `$` of each part
   AFTERWARDS.  An account part that consists of anchors alone (`^`, `$`, `^$`) is therefore empty
   once stripped, stays empty, and the pattern ^wallet/$ names the empty account name and nothing
   else.  The other order (seeded change C13-8: strip first, substitute afterwards) turns such a
   part into `.*` -- the short circuit's text -- and admits every account of the wallet; it is the
   code on every specifier whose account part is not anchors alone. *)
From Verif Require Import Lib.Base Lib.RegexM Model.C13_Accounts Proofs.C13 Proofs.C13_Store Proofs.C13_Match.
From Coq Require Import String Ascii ZifyBool ZifyN ZifyNat.
Open Scope N_scope.
Open Scope string_scope.

(* ---------------------------------------------------------------------------------------------
   Which texts are empty once the anchors are removed. *)
Lemma trim_suffix_dollar_empty : forall y, trim_suffix_dollar y = "" -> y = "" \/ y = "$".
Proof.
  intros [|c [|d y]] H; [left; reflexivity| |].
  - cbn in H. destruct (Ascii.eqb c "$") eqn:E; [|discriminate].
    apply Ascii.eqb_eq in E. subst c. right; reflexivity.
  - cbn in H. discriminate.
Qed.

Lemma trim_end_anchor_empty : forall y, trim_end_anchor y = "" -> y = "" \/ y = "$".
Proof.
  intros y H. unfold trim_end_anchor in H. destruct (has_end_anchor y).
  - apply trim_suffix_dollar_empty; exact H.
  - left; exact H.
Qed.

Lemma trim_prefix_caret_inv : forall x y, trim_prefix_caret x = y -> x = y \/ x = String "^" y.
Proof.
  intros [|c x] y H; cbn in H; [left; exact H|].
  destruct (Ascii.eqb c "^") eqn:E.
  - apply Ascii.eqb_eq in E. subst. right; reflexivity.
  - left; exact H.
Qed.

Lemma strip_anchors_empty : forall x,
  strip_anchors x = "" <-> x = "" \/ x = "^" \/ x = "$" \/ x = "^$".
Proof.
  intro x. split.
  - unfold strip_anchors. intro H. apply trim_end_anchor_empty in H.
    destruct H as [H | H]; apply trim_prefix_caret_inv in H; destruct H as [-> | ->]; auto.
  - intros [-> | [-> | [-> | ->]]]; reflexivity.
Qed.

(* ---------------------------------------------------------------------------------------------
   The account part the dirk manager hands to the pattern. *)
Lemma dirk_parts_shape : forall path p0 p1,
  dirk_parts path = Some (p0, p1) ->
  exists w rest, split_slash path = w :: rest /\ w <> "" /\ p0 = strip_anchors w /\
    p1 = strip_anchors (match rest with
                        | [] => any_text
                        | x :: _ => if String.eqb x "" then any_text else x
                        end).
Proof.
  intros path p0 p1 H. unfold dirk_parts in H.
  destruct (split_slash path) as [|w rest]; [discriminate|].
  destruct (String.eqb w "") eqn:E; [discriminate|].
  injection H as <- <-. exists w, rest. repeat split.
  intro Hw. subst w. discriminate.
Qed.

(* it is empty exactly when the account part as written consists of anchors alone *)
Lemma dirk_account_part_empty_iff : forall path p0 p1,
  dirk_parts path = Some (p0, p1) ->
  (p1 = "" <-> exists w x rest, split_slash path = w :: x :: rest /\ (x = "^" \/ x = "$" \/ x = "^$")).
Proof.
  intros path p0 p1 H. destruct (dirk_parts_shape _ _ _ H) as (w & rest & Hs & _ & _ & ->).
  rewrite Hs. split.
  - intro He. destruct rest as [|x rest]; [vm_compute in He; discriminate|].
    destruct (String.eqb x "") eqn:Ex; [vm_compute in He; discriminate|].
    apply strip_anchors_empty in He. destruct He as [-> | He]; [discriminate|].
    exists w, x, rest. split; [reflexivity | exact He].
  - intros (w' & x & rest' & Heq & Hx). injection Heq as <- ->.
    destruct Hx as [-> | [-> | ->]]; reflexivity.
Qed.

(* it is the `.*` default exactly when the account part is absent, textually empty, or `.*`
   itself between anchors *)
Lemma dirk_account_part_default_iff : forall path p0 p1,
  dirk_parts path = Some (p0, p1) ->
  (p1 = any_text <->
   exists w rest, split_slash path = w :: rest /\
     match rest with [] => True | x :: _ => x = "" \/ strip_anchors x = any_text end).
Proof.
  intros path p0 p1 H. destruct (dirk_parts_shape _ _ _ H) as (w & rest & Hs & _ & _ & ->).
  rewrite Hs. split.
  - intro He. exists w, rest. split; [reflexivity|].
    destruct rest as [|x rest]; [exact I|].
    destruct (String.eqb x "") eqn:Ex; [apply String.eqb_eq in Ex; left; exact Ex | right; exact He].
  - intros (w' & rest' & Heq & Hx). injection Heq as <- <-.
    destruct rest as [|x rest]; [reflexivity|].
    destruct Hx as [-> | Hx]; [reflexivity|].
    destruct (String.eqb x ""); [reflexivity | exact Hx].
Qed.

(* ---------------------------------------------------------------------------------------------
   What the pattern with an empty account part admits: the empty account name only. *)
Lemma codes_app : forall a b, codes (a ++ b) = (codes a ++ codes b)%list.
Proof.
  induction a as [|c a IH]; intro b; [reflexivity|].
  unfold codes in *. cbn. f_equal. apply IH.
Qed.

Lemma codes_nil : forall n, codes n = [] -> n = "".
Proof. intros [|c n] H; [reflexivity | discriminate]. Qed.

Lemma empty_account_part_matches : forall w n,
  search_lang (Seq Bol (Seq (lit w) (Seq slash (Seq Eps Eol)))) (codes (w ++ "/" ++ n)) <-> n = "".
Proof.
  intros w n. rewrite anchored_parts_full, full_parts_split. split.
  - intros (cw & cn & Heq & Hw & Hn). apply lang_lit in Hw. cbn in Hn. subst cw cn.
    rewrite codes_app in Heq. apply app_inv_head in Heq.
    change (codes ("/" ++ n)) with (47 :: codes n) in Heq. injection Heq as Heq.
    apply codes_nil; exact Heq.
  - intros ->. exists (codes w), []. split; [|split].
    + rewrite codes_app. reflexivity.
    + apply lang_lit. reflexivity.
    + reflexivity.
Qed.

Lemma text_not_short_circuit : forall w,
  String.eqb ("^" ++ w ++ "/" ++ "" ++ "$") ("^" ++ w ++ "/.*$") = false.
Proof.
  intro w. apply String.eqb_neq. intro H.
  apply (append_inj_l "^") in H. apply append_inj_l in H. discriminate.
Qed.

Section AnchorsOnly.
  Variable parse : string -> option (list re).

  (* dirk: a specifier  wallet part / anchors  whose wallet part, anchors removed, is literally the
     account's wallet *)
  Lemma dirk_anchor_only_account_part : forall path w x rest (a : account),
    split_slash path = w :: x :: rest -> w <> "" ->
    x = "^" \/ x = "$" \/ x = "^$" ->
    strip_anchors w = a_wallet a -> has_bar (a_wallet a) = false ->
    parse (a_wallet a) = Some [lit (a_wallet a)] -> parse "" = Some [Eps] ->
    (dirk_admits (dirk_patterns parse [path]) a = true <-> a_name a = "").
  Proof.
    intros path w x rest a Hs Hw Hx Hwa Hbar Hpw Hpe.
    assert (Hparts : dirk_parts path = Some (a_wallet a, "")).
    { unfold dirk_parts. rewrite Hs. destruct (String.eqb w "") eqn:E; [apply String.eqb_eq in E; contradiction|].
      rewrite Hwa. destruct Hx as [-> | [-> | ->]]; reflexivity. }
    unfold dirk_patterns. cbn [filter_map]. unfold dirk_pattern. rewrite Hparts, Hpw, Hpe.
    unfold dirk_admits. cbn [filter p_key]. rewrite String.eqb_refl. cbn [p_text existsb].
    unfold group_text, group. rewrite Hbar. cbn [has_bar has_char].
    rewrite text_not_short_circuit. cbn [orb].
    unfold pattern_matches. cbn [p_re]. rewrite orb_false_r.
    change (textual_concat [[Bol]; [lit (a_wallet a)]; [slash]; [Eps]; [Eol]])
      with (Seq Bol (Seq (lit (a_wallet a)) (Seq slash (Seq Eps Eol)))).
    rewrite search_spec. unfold full_name. apply empty_account_part_matches.
  Qed.

  (* wallet manager: the wallet part is used as written *)
  Lemma wallet_anchor_only_account_part : forall path x rest (a : account),
    split_slash path = a_wallet a :: x :: rest -> a_wallet a <> "" ->
    x = "^" \/ x = "$" \/ x = "^$" ->
    has_bar (a_wallet a) = false ->
    parse (a_wallet a) = Some [lit (a_wallet a)] -> parse "" = Some [Eps] ->
    (wallet_admits (wallet_patterns parse [path]) a = true <-> a_name a = "" /\ a_locked a = false).
  Proof.
    intros path x rest a Hs Hw Hx Hbar Hpw Hpe.
    assert (Hparts : wallet_parts path = Some (a_wallet a, "")).
    { unfold wallet_parts. rewrite Hs.
      destruct (String.eqb (a_wallet a) "") eqn:E; [apply String.eqb_eq in E; contradiction|].
      destruct Hx as [-> | [-> | ->]]; reflexivity. }
    unfold wallet_patterns. cbn [filter_map]. unfold wallet_pattern. rewrite Hparts, Hpw, Hpe.
    unfold wallet_admits. cbn [existsb]. rewrite orb_false_r.
    unfold group. rewrite Hbar. cbn [has_bar has_char].
    unfold pattern_matches. cbn [p_re].
    change (textual_concat [[Bol]; [lit (a_wallet a)]; [slash]; [Eps]; [Eol]])
      with (Seq Bol (Seq (lit (a_wallet a)) (Seq slash (Seq Eps Eol)))).
    rewrite andb_true_iff, negb_true_iff, search_spec. unfold full_name.
    rewrite empty_account_part_matches. reflexivity.
  Qed.
End AnchorsOnly.

(* ---------------------------------------------------------------------------------------------
   The other order: anchors stripped first, `.*` substituted for what is empty then. *)
Definition dirk_parts_default_after_strip (path : string) : option (string * string) :=
  match split_slash path with
  | [] => None
  | p0 :: rest =>
      if String.eqb p0 "" then None
      else
        let p1 := strip_anchors (match rest with [] => "" | x :: _ => x end) in
        Some (strip_anchors p0, if String.eqb p1 "" then any_text else p1)
  end.

Definition dirk_pattern_default_after_strip (parse : string -> option (list re)) (path : string) : option pattern :=
  match dirk_parts_default_after_strip path with
  | None => None
  | Some (p0, p1) =>
      match parse p0, parse p1 with
      | Some ws, Some accs =>
          Some {| p_key := p0;
                  p_text := "^" ++ group_text p0 ++ "/" ++ group_text p1 ++ "$";
                  p_re := textual_concat [[Bol]; group p0 ws; [slash]; group p1 accs; [Eol]] |}
      | _, _ => None
      end
  end.

(* it is the code on every specifier whose account part is not anchors alone: no test that lists
   wallets, plain names and expressions with or without anchors can tell the two apart *)
Lemma default_after_strip_invisible : forall path,
  (forall w x rest, split_slash path = w :: x :: rest -> x <> "^" /\ x <> "$" /\ x <> "^$") ->
  dirk_parts_default_after_strip path = dirk_parts path.
Proof.
  intros path H. unfold dirk_parts_default_after_strip, dirk_parts.
  destruct (split_slash path) as [|w [|x rest]]; [reflexivity| |].
  - destruct (String.eqb w ""); reflexivity.
  - destruct (String.eqb w ""); [reflexivity|].
    destruct (H w x rest eq_refl) as (H1 & H2 & H3).
    destruct (String.eqb x "") eqn:Ex.
    + apply String.eqb_eq in Ex. subst x. reflexivity.
    + destruct (String.eqb (strip_anchors x) "") eqn:Es; [|reflexivity].
      apply String.eqb_eq in Es. apply strip_anchors_empty in Es.
      destruct Es as [-> | [-> | [-> | ->]]]; [discriminate | | |]; contradiction.
Qed.

Definition oracle_wallet1 (t : string) : option (list re) :=
  if String.eqb t "wallet1" then Some [lit "wallet1"]
  else if String.eqb t "" then Some [Eps]
  else if String.eqb t ".*" then Some [Star (Cls [(0, 9); (11, 1114111)])]
  else None.

(* ... and on wallet1/^$ (wallet1/$, wallet1/^) it produces the short circuit's text and admits
   account1, which the code refuses *)
Lemma default_after_strip_refuted :
  forall x, x = "^$" \/ x = "$" \/ x = "^" ->
    dirk_parts ("wallet1/" ++ x) = Some ("wallet1", "") /\
    dirk_parts_default_after_strip ("wallet1/" ++ x) = Some ("wallet1", ".*") /\
    option_map p_text (dirk_pattern oracle_wallet1 ("wallet1/" ++ x)) = Some "^wallet1/$" /\
    option_map p_text (dirk_pattern_default_after_strip oracle_wallet1 ("wallet1/" ++ x)) = Some "^wallet1/.*$" /\
    dirk_admits (filter_map (dirk_pattern_default_after_strip oracle_wallet1) ["wallet1/" ++ x])
                (acct_wallet1 "account1" 1) = true /\
    dirk_admits (dirk_patterns oracle_wallet1 ["wallet1/" ++ x]) (acct_wallet1 "account1" 1) = false /\
    dirk_admits (dirk_patterns oracle_wallet1 ["wallet1/" ++ x]) (acct_wallet1 "" 2) = true.
Proof. intros x [-> | [-> | ->]]; repeat split; vm_compute; reflexivity. Qed.

(* both managers on the specifiers of the seeded demonstration: nobody but the empty name *)
Lemma anchor_only_example :
  map (fun spec => map (fun n => dirk_admits (dirk_patterns oracle_wallet1 [spec]) (acct_wallet1 n 1))
                       ["account1"; "account2"; ""; "$"])
      ["wallet1/^$"; "wallet1/$"; "wallet1/^"; "^wallet1$/^$"]
  = [[false; false; true; false]; [false; false; true; false]; [false; false; true; false]; [false; false; true; false]] /\
  map (fun spec => map (fun n => wallet_admits (wallet_patterns oracle_wallet1 [spec]) (acct_wallet1 n 1))
                       ["account1"; "account2"; ""; "$"])
      ["wallet1/^$"; "wallet1/$"; "wallet1/^"]
  = [[false; false; true; false]; [false; false; true; false]; [false; false; true; false]].
Proof. split; vm_compute; reflexivity. Qed.
