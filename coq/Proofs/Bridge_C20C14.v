(* C20 <-> C14: the two models of the controller's [subscriptionInfos] map agree.

   C14 (Model/C14_Subscriptions.v) keeps the map [st_infos : list (epoch * info)], written by
   subscribeToBeaconCommittees ([set_info]) and pruned by HandleHeadEvent ([prune_infos], the test
   `subscriptionEpoch+1 < epoch` in uint64 arithmetic: [stale64]).  C20 (Model/C20_Bookkeeping.v) keeps
   the key set [subs], written by OSubscribe / ORefresh ([subscribe]) and pruned by OHead
   ([head_clean], the same test over unbounded numbers).

   [infos_keys] is the abstraction function ([rev]: an association list grows at its end, C20's key
   list at its head).  The two agree, as lists, on every state whose keys k satisfy k + 1 < 2^64; at
   the key 2^64 - 1 the uint64 sum wraps to 0 and the code (and C14) drop the entry whereas C20 keeps
   it ([wrap_witness]). *)
From Verif Require Import Lib.Base.
From Coq Require Import ZifyBool ZifyN ZifyNat.
From Verif Require Model.C14_Subscriptions Model.C20_Bookkeeping Proofs.C20_Bookkeeping.

Module S := Verif.Model.C14_Subscriptions.
Module B := Verif.Model.C20_Bookkeeping.
Module BP := Verif.Proofs.C20_Bookkeeping.

Definition infos_keys (st : S.state) : list N := rev (map fst (S.st_infos st)).

(* the C20 operation a C14 operation stands for.  OAtt (AttestAndScheduleAggregate) only reads the
   map.  A subscribe stores something unless it had accounts and the subscriber failed. *)
Definition tr (o : S.op) : list B.op :=
  match o with
  | S.OSub ep cur no_accounts duties_fail _ _ => [B.OSubscribe cur ep (no_accounts || negb duties_fail)]
  | S.OAtt _ _ _ _ _ => []
  | S.OHead hslot cur => [B.OHead cur hslot]
  end.

(* subscriptions are made for epochs whose successor is a uint64 *)
Definition small_epoch (o : S.op) : Prop :=
  match o with S.OSub ep _ _ _ _ _ => ep + 1 < two64 | _ => True end.

Definition small_keys (l : list N) : Prop := forall k, In k l -> k + 1 < two64.

Lemma filter_rev' {X} (f : X -> bool) (l : list X) : filter f (rev l) = rev (filter f l).
Proof.
  induction l as [|x l IH]; cbn; [reflexivity|].
  rewrite filter_app, IH. cbn. destruct (f x); cbn; [reflexivity | apply app_nil_r].
Qed.

Lemma filter_ext_in' {X} (f g : X -> bool) (l : list X) :
  (forall x, In x l -> f x = g x) -> filter f l = filter g l.
Proof.
  induction l as [|x l IH]; cbn; intro H; [reflexivity|].
  rewrite (H x (or_introl eq_refl)), IH; [reflexivity|]. intros y Hy. apply H. right. exact Hy.
Qed.

Lemma keys_set_info ep v (m : list (N * list S.sub)) :
  map fst (S.set_info ep v m) = if B.mem ep (map fst m) then map fst m else map fst m ++ [ep].
Proof.
  induction m as [|[k w] m IH]; cbn [S.set_info map fst]; [reflexivity|].
  unfold B.mem in *. cbn [existsb]. rewrite (N.eqb_sym ep k).
  destruct (k =? ep) eqn:E; cbn [orb map fst].
  - apply N.eqb_eq in E. subst. reflexivity.
  - rewrite IH. destruct (existsb (N.eqb ep) (map fst m)); reflexivity.
Qed.

Lemma mem_rev x l : B.mem x (rev l) = B.mem x l.
Proof.
  destruct (B.mem x l) eqn:E.
  - apply BP.mem_In. apply BP.mem_In in E. apply in_rev in E. exact E.
  - apply BP.mem_false. apply BP.mem_false in E. intro H. apply E. apply in_rev. exact H.
Qed.

(* subscribeToBeaconCommittees storing its result = C20's [subscribe _ true] *)
Lemma set_info_is_ins ep v m : rev (map fst (S.set_info ep v m)) = B.ins ep (rev (map fst m)).
Proof.
  rewrite keys_set_info. unfold B.ins. rewrite mem_rev.
  destruct (B.mem ep (map fst m)); [reflexivity|]. rewrite rev_app_distr. reflexivity.
Qed.

(* HandleHeadEvent's pruning = C20's [head_clean true], on keys whose successor is a uint64 *)
Lemma prune_is_head_clean h (m : list (N * list S.sub)) :
  small_keys (map fst m) ->
  rev (map fst (S.prune_infos h m)) = B.head_clean true h (rev (map fst m)).
Proof.
  intro Hs. unfold B.head_clean. rewrite filter_rev'. f_equal.
  unfold S.prune_infos. induction m as [|[k w] m IH]; cbn [filter map fst]; [reflexivity|].
  assert (Hk : k + 1 < two64) by (apply Hs; left; reflexivity).
  assert (E : negb (S.stale64 k h) = (h <=? k + 1)).
  { unfold S.stale64, wrap64. rewrite N.mod_small by exact Hk.
    destruct (N.ltb_spec (k + 1) h), (N.leb_spec h (k + 1)); cbn; try reflexivity; lia. }
  rewrite E. destruct (h <=? k + 1); cbn [map fst]; [f_equal|]; apply IH; intros x Hx; apply Hs; right; exact Hx.
Qed.

(* one operation *)
Lemma step_abs pr st o (y : B.sys) :
  B.subs y = infos_keys st -> small_keys (infos_keys st) ->
  B.subs (B.run (S.spe pr) true (tr o) y) = infos_keys (fst (S.step pr st o)).
Proof.
  intros Hy Hs. unfold infos_keys in *. unfold B.run.
  destruct o as [ep cur na df sf ds|dslot cur af noa atts|hslot cur]; cbn [tr fold_left S.step].
  - destruct na; cbn [orb fst S.st_infos B.step B.subs B.subscribe].
    + rewrite set_info_is_ins, Hy. reflexivity.
    + destruct df; cbn [negb fst S.st_infos].
      * exact Hy.
      * rewrite set_info_is_ins, Hy. reflexivity.
  - destruct af; [exact Hy|]. destruct atts; [exact Hy|].
    destruct (S.get_info (dslot / S.spe pr) (S.st_infos st)); exact Hy.
  - cbn [B.step]. destruct (hslot =? cur); cbn [fst S.st_infos B.subs]; [|exact Hy].
    rewrite prune_is_head_clean, Hy; [reflexivity|].
    intros k Hk. apply Hs. rewrite <- in_rev. exact Hk.
Qed.

Lemma step_small pr st o :
  small_epoch o -> small_keys (infos_keys st) -> small_keys (infos_keys (fst (S.step pr st o))).
Proof.
  intros Ho Hs. unfold infos_keys in *.
  destruct o as [ep cur na df sf ds|dslot cur af noa atts|hslot cur]; cbn [S.step small_epoch] in *.
  - assert (Hset : forall v, small_keys (rev (map fst (S.set_info ep v (S.st_infos st))))).
    { intros v k Hk. rewrite set_info_is_ins in Hk. apply BP.In_ins in Hk as [->|Hk]; [exact Ho | exact (Hs k Hk)]. }
    destruct na; [apply Hset|]. destruct df; [exact Hs | apply Hset].
  - destruct af; [exact Hs|]. destruct atts; [exact Hs|].
    destruct (S.get_info (dslot / S.spe pr) (S.st_infos st)); exact Hs.
  - destruct (hslot =? cur); cbn [fst S.st_infos]; [|exact Hs].
    intros k Hk. apply Hs. rewrite <- in_rev in *. unfold S.prune_infos in Hk.
    apply in_map_iff in Hk as [[k' w] [<- Hk]]. apply filter_In in Hk as [Hk _]. apply in_map_iff. exists (k', w). auto.
Qed.

Lemma run_cons pr st o ops : fst (S.run pr st (o :: ops)) = fst (S.run pr (fst (S.step pr st o)) ops).
Proof.
  cbn [S.run]. destruct (S.step pr st o) as [st1 x]. cbn [fst]. destruct (S.run pr st1 ops) as [st2 xs]. reflexivity.
Qed.

(* every history *)
Lemma run_abs pr ops : forall st (y : B.sys),
  Forall small_epoch ops -> B.subs y = infos_keys st -> small_keys (infos_keys st) ->
  B.subs (B.run (S.spe pr) true (flat_map tr ops) y) = infos_keys (fst (S.run pr st ops)).
Proof.
  induction ops as [|o ops IH]; intros st y Hf Hy Hs; [exact Hy|].
  inversion Hf as [|? ? Ho Hf']; subst.
  rewrite run_cons. cbn [flat_map]. unfold B.run. rewrite fold_left_app.
  apply IH; [exact Hf' | apply step_abs; assumption | apply step_small; assumption].
Qed.

Lemma run_abs_init pr ops :
  Forall small_epoch ops ->
  B.subs (B.run (S.spe pr) true (flat_map tr ops) B.init) = infos_keys (fst (S.run pr S.init ops)).
Proof. intro Hf. apply run_abs; [exact Hf | reflexivity | intros k []]. Qed.

(* C20's bound on C14's map *)
Lemma infos_bounded pr ops :
  0 < S.spe pr -> Forall small_epoch ops ->
  B.guarded (S.spe pr) true (BP.gand B.time_ok (B.subs_ok (S.spe pr))) (flat_map tr ops) B.init = true ->
  let st := fst (S.run pr S.init ops) in
  let y := B.run (S.spe pr) true (flat_map tr ops) B.init in
  NoDup (map fst (S.st_infos st)) /\
  (forall k, In k (map fst (S.st_infos st)) -> B.g_head y <= k + 1 /\ k <= B.epoch_of (S.spe pr) (B.g_now y) + 1) /\
  N.of_nat (length (S.st_infos st)) <= B.epoch_of (S.spe pr) (B.g_now y) - B.g_head y + 3.
Proof.
  intros Hspe Hf Hg st y.
  destruct (BP.subs_window (S.spe pr) Hspe (flat_map tr ops) Hg) as (Hnd & Hwin & Hsz).
  fold y in Hnd, Hwin, Hsz. pose proof (run_abs_init pr ops Hf) as E. fold y st in E.
  rewrite E in *. unfold infos_keys in *.
  split; [apply NoDup_rev in Hnd; rewrite rev_involutive in Hnd; exact Hnd|].
  split.
  - intros k Hk. apply Hwin. rewrite <- in_rev. exact Hk.
  - unfold B.size in Hsz. rewrite rev_length, map_length in Hsz. exact Hsz.
Qed.

(* the wrap-around: a subscription for epoch 2^64 - 1 is dropped by the next timely head event in
   the code and in C14 (2^64 - 1 + 1 = 0 < epoch) and kept by C20 *)
Definition wrap_pr : S.params := {| S.slot_ms := 12000; S.delay_ms := 8000; S.spe := 4; S.agg_target := 16 |}.
Definition wrap_witness : list S.op := [S.OSub (two64 - 1) 0 true false [] []; S.OHead 8 8].
