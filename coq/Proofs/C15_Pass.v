(* C15: the model passes the check's predicate on every input in range: [P_b] is never stronger
   than what the model does, so on a tree that agrees with the model (mismatches = []) the
   predicate cannot raise an alarm, and [mismatches] is the only way the two verdicts differ. *)
From Verif Require Import Lib.Base Model.C15_Sync Proofs.C15 Proofs.C15_Fire Check.C15 Proofs.C15_Check.
From Coq Require Import ZifyBool ZifyN ZifyNat Permutation.
Local Open Scope N_scope.

Section Bool.
  Context {A : Type} (eqb : A -> A -> bool).
  Hypothesis eqb_spec : forall x y, eqb x y = true <-> x = y.

  Lemma NoDup_nodupb : forall l, NoDup l -> nodupb eqb l = true.
  Proof.
    induction 1 as [|x l Hx Hl IH]; cbn; [reflexivity|]. rewrite IH, andb_true_r.
    destruct (inb eqb x l) eqn:E; [|reflexivity]. apply (inb_In eqb eqb_spec) in E. contradiction.
  Qed.
End Bool.

(* -------------------------------------------------------------------------------------------- *)
(* the job table *)

Lemma model_passes_schedule : forall p i,
  chain_ok p -> in_range p (si_epoch i) (si_cur i) -> (0 <= slot_ns p)%Z ->
  spec_schedule_ok p i (schedule p i) = true.
Proof.
  intros p i Hok Hr Hns. unfold spec_schedule_ok. apply andb_true_iff. split.
  - apply (set_eqb_spec job_eqb job_eqb_spec). intros [[k s] t].
    rewrite (schedule_jobs_spec p i k s t Hok Hr). rewrite sched_ready_spec.
    destruct (sched_ready i) as [ds|].
    + rewrite in_map_iff. split.
      * intros (s' & Heq & Hin). injection Heq as <- <- <-.
        apply (spec_slots_In p _ _ _ _ Hok) in Hin. rewrite prepare_time_floor by exact Hns.
        intuition eauto.
      * intros ((_ & Hf) & -> & -> & Hw & Hn). exists s. split.
        -- rewrite prepare_time_floor by exact Hns. reflexivity.
        -- apply (spec_slots_In p _ _ _ _ Hok). auto.
    + cbn. split; [intros [] | intros (((ds & Hd) & _) & _); discriminate].
  - apply (NoDup_nodupb job_eqb job_eqb_spec).
    destruct (ready_dec p i) as [Hy|Hn].
    + destruct (schedule_ready p i Hy) as (Hj & _). rewrite Hj.
      apply FinFun.Injective_map_NoDup; [|apply window_slots_NoDup].
      intros a b Hab. injection Hab as ->. reflexivity.
    + destruct (schedule_not_ready p i Hn) as (Hj & _). rewrite Hj. constructor.
Qed.

(* -------------------------------------------------------------------------------------------- *)
(* one fired slot *)

Lemma fire_submitted_cases : forall p mem acct f,
  opt_list (o_submitted (fire p mem acct f)) = []
  \/ exists r, f_root f = Some r /\ sel_stage_ok p mem acct f = true /\ f_root_err f = false
               /\ opt_list (o_submitted (fire p mem acct f)) = messages p mem acct f r.
Proof.
  intros p mem acct f. rewrite fire_submitted_eq.
  destruct (sel_stage_ok p mem acct f) eqn:Es; [|left; reflexivity].
  destruct (f_root f) as [r|]; [|left; reflexivity].
  destruct (signers mem acct) eqn:Eg; [left; reflexivity|].
  destruct (f_root_err f) eqn:Ee; [left; reflexivity|].
  right. exists r. auto.
Qed.


Section Fire.
  Variables (p : params) (i : sched_in) (ds : list duty) (f : fire_in).
  Hypothesis Hduties : si_duties i = Some ds.
  Let mem := members i.
  Let acct := has_account i.
  Let out := fire p mem acct f.

  Let Hpairs : forall x, In x (sel_pairs p mem acct) <-> In x (spec_pairs p i ds).
  Proof. intros x. exact (pairs_spec p i ds x Hduties). Qed.
  Let Hsg : forall v, In v (signers mem acct) <-> In v (spec_signers i ds).
  Proof. intros v. exact (signers_spec i ds v Hduties). Qed.

  Lemma sel_fault_eq :
    (match spec_pairs p i ds with [] => false | _ => f_sel_err f end) = negb (sel_stage_ok p mem acct f).
  Proof.
    unfold sel_stage_ok. pose proof (nil_iff _ _ _ Hpairs) as Hn.
    destruct (sel_pairs p mem acct) as [|x xs]; destruct (spec_pairs p i ds) as [|y ys]; try reflexivity.
    - destruct Hn as [Hn _]. specialize (Hn eq_refl). discriminate.
    - destruct Hn as [_ Hn]. specialize (Hn eq_refl). discriminate.
    - destruct (f_sel_err f); reflexivity.
  Qed.

  Lemma pass_sel_call :
    match o_sel_call out with
    | Some l => set_eqb pairN_eqb l (spec_pairs p i ds)
    | None => match spec_pairs p i ds with [] => true | _ => false end
    end = true.
  Proof.
    unfold out. rewrite fire_sel_call_eq. pose proof (nil_iff _ _ _ Hpairs) as Hn.
    destruct (sel_pairs p mem acct) as [|x xs] eqn:E.
    - destruct Hn as [Hn _]. rewrite (Hn eq_refl). reflexivity.
    - apply (set_eqb_spec pairN_eqb pairN_eqb_spec'). intros y. rewrite sort_by_In. apply Hpairs.
  Qed.

  Lemma pass_msg_job :
    (if negb (sel_stage_ok p mem acct f) then true
     else option_eqb Z.eqb (o_msg_job out) (Some (Z.of_N (f_slot f) * slot_ns p + msg_delay p)%Z)) = true.
  Proof.
    unfold out. rewrite fire_msg_job. destruct (sel_stage_ok p mem acct f); cbn; [|reflexivity].
    apply Z.eqb_refl.
  Qed.

  Lemma pass_no_root : f_root f = None -> opt_list (o_submitted out) = [].
  Proof.
    intros H. destruct (fire_submitted_cases p mem acct f) as [H0|(r & Hr & _)]; [exact H0 | congruence].
  Qed.

  Variable r : N.
  Hypothesis Hroot : f_root f = Some r.
  Let got := opt_list (o_submitted out).

  Lemma got_in_messages : forall m, In m got -> In m (messages p mem acct f r).
  Proof.
    intros m Hm. destruct (fire_submitted_cases p mem acct f) as [H0|(r' & Hr & _ & _ & Hg)].
    - unfold got, out in Hm. rewrite H0 in Hm. destruct Hm.
    - unfold got, out in Hm. rewrite Hg in Hm. congruence.
  Qed.

  Lemma pass_nodup : nodupb N.eqb (map (fun m : msg => snd (fst m)) got) = true.
  Proof.
    apply (NoDup_nodupb N.eqb N.eqb_eq).
    destruct (fire_submitted_cases p mem acct f) as [H0|(r' & Hr & _ & _ & Hg)]; unfold got, out.
    - rewrite H0. constructor.
    - rewrite Hg. apply (messages_NoDup p mem acct f r'). apply members_NoDup.
  Qed.

  Lemma pass_sound :
    forallb (fun m : msg => let '(ms, mr, mv, mx) := m in
               (ms =? f_slot f) && (mr =? r) && inb N.eqb mv (spec_signers i ds)
               && sg_eqb mx (SgRoot mv (f_slot f / spe p) r)) got = true.
  Proof.
    apply forallb_forall. intros [[[ms mr] mv] mx] Hm. apply got_in_messages in Hm.
    apply messages_In in Hm. destruct Hm as (-> & -> & Hs & _ & ->).
    rewrite !N.eqb_refl. cbn [andb]. apply andb_true_iff. split.
    - apply inbN_In, Hsg, Hs.
    - apply sg_eqb_spec. reflexivity.
  Qed.

  Lemma pass_root_call :
    match o_root_call out with
    | None => true
    | Some (accts, e, rr) =>
        (e =? f_slot f / spe p) && (rr =? r)
        && forallb (fun a => match a with Some v => inb N.eqb v (spec_signers i ds) | None => false end) accts
    end = true.
  Proof.
    unfold out. rewrite fire_root_call, Hroot. destruct (sel_stage_ok p mem acct f); [|reflexivity].
    destruct (signers mem acct) as [|v l] eqn:E; [reflexivity|].
    unfold epoch_of_slot. rewrite !N.eqb_refl. cbn [andb]. apply forallb_forall. intros a Ha.
    apply in_map_iff in Ha. destruct Ha as (w & <- & Hw). apply inbN_In, Hsg. exact Hw.
  Qed.

  Let want_msgs := map (fun v => (f_slot f, r, v, SgRoot v (f_slot f / spe p) r))
                       (filter (fun v => negb (inb N.eqb v (f_root_zero f))) (spec_signers i ds)).

  Lemma want_in_messages : forall m, In m want_msgs -> In m (messages p mem acct f r).
  Proof.
    intros m Hm. apply in_map_iff in Hm. destruct Hm as (v & <- & Hv). apply filter_In in Hv.
    destruct Hv as (Hv & Hz). apply messages_In. repeat split; auto.
    - apply Hsg, Hv.
    - apply inbN_false. destruct (inb N.eqb v (f_root_zero f)); [discriminate | reflexivity].
  Qed.

  Lemma messages_in_want : forall m, In m (messages p mem acct f r) -> In m want_msgs.
  Proof.
    intros [[[ms mr] mv] mx] Hm. apply messages_In in Hm. destruct Hm as (-> & -> & Hs & Hz & ->).
    apply in_map_iff. exists mv. split; [reflexivity|]. apply filter_In. split; [apply Hsg, Hs|].
    apply inbN_false in Hz. rewrite Hz. reflexivity.
  Qed.

  Lemma pass_complete :
    (if negb (sel_stage_ok p mem acct f) || f_root_err f then true else subsetb msg_eqb want_msgs got) = true.
  Proof.
    destruct (sel_stage_ok p mem acct f) eqn:Es; cbn [negb orb]; [|reflexivity].
    destruct (f_root_err f) eqn:Ee; [reflexivity|].
    apply (subsetb_incl msg_eqb msg_eqb_spec). intros m Hm. unfold got, out.
    rewrite (fire_submitted p mem acct f r Es Hroot Ee). apply want_in_messages, Hm.
  Qed.
End Fire.

(* -------------------------------------------------------------------------------------------- *)
(* the aggregation part *)

Lemma contributions_cases : forall f r aggs,
  opt_list (contributions f r aggs) = [] \/ opt_list (contributions f r aggs) = map (mk_contrib f r) aggs.
Proof.
  intros f r aggs. unfold contributions. destruct (existsb _ aggs); [left; reflexivity|].
  destruct (f_cp_err f); [left; reflexivity | right; reflexivity].
Qed.

Lemma contrib_keys : forall f r aggs, map (fun c => (cp_agg c, cp_subc c)) (map (mk_contrib f r) aggs) = aggs.
Proof.
  intros f r aggs. rewrite map_map. induction aggs as [|[v c] l IH]; cbn; [reflexivity|]. f_equal. exact IH.
Qed.

Section Agg.
  Variables (p : params) (i : sched_in) (ds : list duty) (f : fire_in) (r : N).
  Hypothesis Hduties : si_duties i = Some ds.
  Hypothesis Hroot : f_root f = Some r.
  Let mem := members i.
  Let acct := has_account i.
  Let out := fire p mem acct f.
  Let aggs' := filter (spec_selected p f) (spec_pairs p i ds).
  Let want_c := map (mk_contrib f r) aggs'.
  Let got_c := opt_list (o_contribs out).

  Let Haggs : forall x, In x aggs' <-> In x (aggregators p mem acct f).
  Proof.
    intros x. unfold aggs'. rewrite filter_In, aggregators_In, spec_selected_selected.
    pose proof (pairs_spec p i ds x Hduties) as Hp. fold mem acct in Hp. tauto.
  Qed.

  Lemma got_c_cases : got_c = [] \/ (message_ok p mem acct f r = true
                                     /\ got_c = map (mk_contrib f r) (aggregators p mem acct f)).
  Proof.
    unfold got_c, out. pose proof (fire_agg_eq p mem acct f) as H. rewrite Hroot in H.
    destruct (message_ok p mem acct f r) eqn:Em; [|injection H as _ Hc; rewrite Hc; left; reflexivity].
    destruct (aggregators p mem acct f) as [|x xs] eqn:E; injection H as _ Hc; rewrite Hc; [left; reflexivity|].
    destruct (contributions_cases f r (x :: xs)) as [H0|H1]; [left; exact H0 | right; auto].
  Qed.

  Lemma pass_contrib_sound : subsetb contrib_eqb got_c want_c = true.
  Proof.
    apply (subsetb_incl contrib_eqb contrib_eqb_spec). intros c Hc.
    destruct got_c_cases as [H0|(_ & H1)]; [rewrite H0 in Hc; destruct Hc|].
    rewrite H1 in Hc. apply in_map_iff in Hc. destruct Hc as (x & <- & Hx).
    unfold want_c. apply in_map. apply Haggs, Hx.
  Qed.

  Lemma pass_contrib_nodup : nodupb pairN_eqb (map (fun c => (cp_agg c, cp_subc c)) got_c) = true.
  Proof.
    apply (NoDup_nodupb pairN_eqb pairN_eqb_spec').
    destruct got_c_cases as [H0|(_ & H1)]; [rewrite H0; constructor|].
    rewrite H1, contrib_keys. apply aggregators_NoDup.
  Qed.

  Let want_msgs := map (fun v => (f_slot f, r, v, SgRoot v (f_slot f / spe p) r))
                       (filter (fun v => negb (inb N.eqb v (f_root_zero f))) (spec_signers i ds)).

  Lemma pass_agg_rest :
    (if negb (sel_stage_ok p mem acct f) || f_root_err f || f_submit_err f then true
     else match want_msgs, aggs' with
          | [], _ => true
          | _, [] => match o_agg_job out with None => true | Some _ => false end
          | _, _ => option_eqb Z.eqb (o_agg_job out) (Some (Z.of_N (f_slot f) * slot_ns p + agg_delay p)%Z)
                    && (if f_cp_err f || existsb (fun x => inb N.eqb (snd x) (f_contrib_err f)) aggs' then true
                        else subsetb contrib_eqb want_c got_c)
          end) = true.
  Proof.
    destruct (sel_stage_ok p mem acct f) eqn:Es; cbn [negb orb]; [|reflexivity].
    destruct (f_root_err f) eqn:Ee; cbn [orb]; [reflexivity|].
    destruct (f_submit_err f) eqn:Eb; [reflexivity|].
    destruct want_msgs as [|m ms] eqn:Ew; [reflexivity|].
    assert (Hm : In m (messages p mem acct f r)).
    { apply (want_in_messages p i ds f Hduties r). fold want_msgs. rewrite Ew. left. reflexivity. }
    assert (Hok : message_ok p mem acct f r = true).
    { unfold message_ok. rewrite Es, Ee, Eb. cbn [negb andb].
      destruct m as [[[ms' mr] mv] mx]. pose proof Hm as Hm2. apply messages_In in Hm2.
      destruct Hm2 as (_ & _ & Hs & _).
      destruct (signers mem acct); [destruct Hs|]. destruct (messages p mem acct f r); [destruct Hm | reflexivity]. }
    destruct (fire_contribs p mem acct f r Hroot Hok) as (Hc & Hj). fold out in Hc, Hj.
    pose proof (nil_iff _ _ _ Haggs) as Hn.
    destruct aggs' as [|a l] eqn:Ea.
    - destruct Hn as [Hn _]. rewrite (Hn eq_refl) in Hj. rewrite Hj. reflexivity.
    - destruct (aggregators p mem acct f) as [|b l'] eqn:Eg.
      { destruct Hn as [_ Hn]. specialize (Hn eq_refl). discriminate. }
      rewrite Hj. cbn [option_eqb]. unfold aggregate_time, start_of_slot. rewrite Z.eqb_refl. cbn [andb].
      destruct (f_cp_err f) eqn:Ecp; cbn [orb]; [reflexivity|].
      destruct (existsb _ (a :: l)) eqn:Ex; [reflexivity|].
      apply (subsetb_incl contrib_eqb contrib_eqb_spec). intros c Hcw.
      unfold want_c in Hcw. apply in_map_iff in Hcw. destruct Hcw as (x & <- & Hx).
      unfold got_c. rewrite Hc. apply contributions_In. split; [|split; [exact Ecp|]].
      + intros y Hy. apply Haggs in Hy. apply inbN_false.
        apply (existsb_false _ (fun x => inb N.eqb (snd x) (f_contrib_err f)) (a :: l)); assumption.
      + exists x. split; [apply Haggs, Hx | reflexivity].
  Qed.
End Agg.

(* -------------------------------------------------------------------------------------------- *)

Lemma model_passes_fire : forall p i f,
  chain_ok p -> in_range p (si_epoch i) (si_cur i) ->
  spec_fire_ok p i f (fire_scheduled p i f) = true.
Proof.
  intros p i f Hok Hr. unfold spec_fire_ok.
  destruct (sched_ready i) as [ds|] eqn:Hds; [|reflexivity].
  pose proof (sched_ready_duties i ds Hds) as Hduties.
  destruct (inb N.eqb (f_slot f) (spec_slots p (si_epoch i) (si_cur i) (si_notcur i))) eqn:Hin; cbn [negb].
  - apply inbN_In, (spec_slots_In p _ _ _ _ Hok) in Hin. destruct Hin as (Hfork & Hw & Hn).
    assert (Hrd : ready p i) by (apply sched_ready_spec; split; [eauto | exact Hfork]).
    assert (Hwin : in_window p i (f_slot f)) by (split; assumption).
    rewrite (fire_scheduled_in p i f Hok Hr Hrd Hwin).
    cbv zeta. rewrite (sel_fault_eq p i ds f Hduties).
    apply andb_true_iff. split; [apply andb_true_iff; split|].
    + exact (pass_sel_call p i ds f Hduties).
    + exact (pass_msg_job p i f).
    + destruct (f_root f) as [r|] eqn:Hroot.
      * apply andb_true_iff. split; [apply andb_true_iff; split; [apply andb_true_iff; split; [apply andb_true_iff; split|]|]|].
        -- exact (pass_nodup p i f).
        -- exact (pass_sound p i ds f Hduties r Hroot).
        -- exact (pass_complete p i ds f Hduties r Hroot).
        -- apply andb_true_iff. split; [apply andb_true_iff; split|].
           ++ exact (pass_contrib_sound p i ds f r Hduties Hroot).
           ++ exact (pass_contrib_nodup p i ds f r Hduties Hroot).
           ++ exact (pass_agg_rest p i ds f r Hduties Hroot).
        -- exact (pass_root_call p i ds f Hduties r Hroot).
      * rewrite (pass_no_root p i f Hroot). reflexivity.
  - rewrite (fire_scheduled_out p i f Hok Hr); [reflexivity|].
    intros (Hrd & Hw & Hn). apply sched_ready_spec in Hrd. destruct Hrd as (_ & Hfork).
    assert (Hc : In (f_slot f) (spec_slots p (si_epoch i) (si_cur i) (si_notcur i)))
      by (apply (spec_slots_In p _ _ _ _ Hok); auto).
    apply inbN_In in Hc. congruence.
Qed.

Lemma model_passes_fires : forall p i fs,
  chain_ok p -> in_range p (si_epoch i) (si_cur i) ->
  fires_ok p i fs (map (fire_scheduled p i) fs) = true.
Proof.
  intros p i fs Hok Hr. induction fs as [|f fs IH]; cbn; [reflexivity|].
  rewrite (model_passes_fire p i f Hok Hr), IH. reflexivity.
Qed.

(* -------------------------------------------------------------------------------------------- *)
(* Aggregate called on its own.  The check also demands one contribution at most per (aggregator,
   subcommittee); the model delivers that when the duty lists every pair once (SelectionProofs is
   a map per validator, ValidatorIndices has no repetition). *)

Lemma agg_contrib_keys : forall a r l, map (fun c => (cp_agg c, cp_subc c)) (map (agg_contrib a r) l) = l.
Proof.
  intros a r l. rewrite map_map. induction l as [|[v c] l IH]; cbn; [reflexivity|]. f_equal. exact IH.
Qed.

Lemma model_passes_aggregate : forall a, NoDup (agg_items a) -> spec_agg_ok a (aggregate a) = true.
Proof.
  intros a Hnd. unfold spec_agg_ok, aggregate.
  destruct (match a_cached a with Some r => Some r | None => a_head a end) as [r|]; [|reflexivity].
  change (flat_map (fun m : N * list N => if inb N.eqb (fst m) (a_accts a) then map (fun c : N => (fst m, c)) (snd m) else [])
                   (a_aggs a)) with (agg_items a).
  cbv zeta.
  change (existsb (fun x : N * N => inb N.eqb (snd x) (a_contrib_err a)) (agg_items a))
    with (existsb (fun x : N * N => memN (snd x) (a_contrib_err a)) (agg_items a)).
  destruct (existsb (fun x : N * N => memN (snd x) (a_contrib_err a)) (agg_items a)) eqn:Ee.
  - cbn. rewrite orb_true_r. reflexivity.
  - rewrite orb_false_r. destruct (agg_items a) as [|y ys] eqn:Ei.
    + cbn. destruct (a_cp_err a); reflexivity.
    + destruct (a_cp_err a) eqn:Ec; [reflexivity|]. cbn [opt_list].
      apply andb_true_iff. split; [apply andb_true_iff; split|].
      * apply (subsetb_incl contrib_eqb contrib_eqb_spec). intros c Hc.
        apply in_map_iff in Hc. destruct Hc as (x & <- & Hx). apply sort_by_In in Hx.
        apply in_map_iff. exists x. split; [reflexivity | exact Hx].
      * apply (NoDup_nodupb pairN_eqb pairN_eqb_spec'). rewrite agg_contrib_keys.
        eapply Permutation_NoDup; [symmetry; apply sort_by_perm | exact Hnd].
      * apply (subsetb_incl contrib_eqb contrib_eqb_spec). intros c Hc.
        apply in_map_iff in Hc. destruct Hc as (x & <- & Hx).
        apply in_map_iff. exists x. split; [reflexivity | apply sort_by_In; exact Hx].
Qed.

(* -------------------------------------------------------------------------------------------- *)
(* The model's own outputs pass the check on every input in range. *)

Lemma fire_out_eqb_eq : forall a b, fire_out_eqb a b = true <-> a = b.
Proof.
  intros a b. split.
  - intros H. unfold fire_out_eqb in H.
    apply andb_true_iff in H as [H H6]. apply andb_true_iff in H as [H H5]. apply andb_true_iff in H as [H H4].
    apply andb_true_iff in H as [H H3]. apply andb_true_iff in H as [H1 H2].
    apply (option_eqb_spec _ (list_eqb_spec pairN_eqb pairN_eqb_spec')) in H1.
    apply (option_eqb_spec Z.eqb Z.eqb_eq) in H2.
    assert (Hrc : forall x y, root_call_eqb x y = true <-> x = y).
    { intros [[l e] r] [[l' e'] r']. unfold root_call_eqb.
      rewrite !andb_true_iff, !N.eqb_eq, (list_eqb_spec _ (option_eqb_spec N.eqb N.eqb_eq)).
      split; [intros [[-> ->] ->]; reflexivity | intros H'; injection H' as -> -> ->; auto]. }
    apply (option_eqb_spec _ Hrc) in H3.
    apply (option_eqb_spec _ (list_eqb_spec msg_eqb msg_eqb_spec)) in H4.
    apply (option_eqb_spec Z.eqb Z.eqb_eq) in H5.
    apply (option_eqb_spec _ (list_eqb_spec contrib_eqb contrib_eqb_spec)) in H6.
    destruct a, b; cbn in *; congruence.
  - intros ->. rename b into y.
    unfold fire_out_eqb. rewrite !andb_true_iff. repeat split.
    * apply (option_eqb_spec _ (list_eqb_spec pairN_eqb pairN_eqb_spec')). reflexivity.
    * apply (option_eqb_spec Z.eqb Z.eqb_eq). reflexivity.
    * destruct (o_root_call y) as [[[l e] r]|]; cbn; [|reflexivity].
      rewrite !N.eqb_refl, !andb_true_r. apply (list_eqb_spec _ (option_eqb_spec N.eqb N.eqb_eq)). reflexivity.
    * apply (option_eqb_spec _ (list_eqb_spec msg_eqb msg_eqb_spec)). reflexivity.
    * apply (option_eqb_spec Z.eqb Z.eqb_eq). reflexivity.
    * apply (option_eqb_spec _ (list_eqb_spec contrib_eqb contrib_eqb_spec)). reflexivity.
Qed.

(* the part of the check that concerns a single call, its fired slots and a direct Aggregate; the
   histories are added in Proofs/C15_Hist.v (model_passes_check) *)
Theorem model_passes_check_base : forall c,
  chain_ok (c_par c) -> in_range (c_par c) (si_epoch (c_in c)) (si_cur (c_in c)) -> (0 <= slot_ns (c_par c))%Z ->
  (forall a o, c_agg c = Some (a, o) -> NoDup (agg_items a)) ->
  agree_base c = true -> P_b_base c = true.
Proof.
  intros c Hok Hr Hns Hagg Ha. unfold agree_base in Ha. unfold P_b_base.
  apply andb_true_iff in Ha as [Ha Hg]. apply andb_true_iff in Ha as [Hs Hf].
  assert (Hout : c_out c = schedule (c_par c) (c_in c)).
  { unfold sched_out_eqb in Hs. apply andb_true_iff in Hs as [Hs H3]. apply andb_true_iff in Hs as [H1 H2].
    apply (option_eqb_spec N.eqb N.eqb_eq) in H1.
    apply (list_eqb_spec job_eqb job_eqb_spec) in H2.
    assert (Hd : forall x y, duty_eqb x y = true <-> x = y).
    { intros [a b] [a' b']. unfold duty_eqb. cbn. rewrite andb_true_iff, N.eqb_eq, (list_eqb_spec N.eqb N.eqb_eq).
      split; [intros [-> ->]; reflexivity | intros H; injection H as -> ->; auto]. }
    apply (option_eqb_spec _ (prod_eqb_spec N.eqb (list_eqb duty_eqb) N.eqb_eq (list_eqb_spec duty_eqb Hd))) in H3.
    destruct (c_out c), (schedule (c_par c) (c_in c)); cbn in *; congruence. }
  apply andb_true_iff. split; [apply andb_true_iff; split|].
  - rewrite Hout. apply model_passes_schedule; assumption.
  - assert (Hfe : forall a b, fire_out_eqb a b = true -> a = b).
    { intros a b H. unfold fire_out_eqb in H.
      apply andb_true_iff in H as [H H6]. apply andb_true_iff in H as [H H5]. apply andb_true_iff in H as [H H4].
      apply andb_true_iff in H as [H H3]. apply andb_true_iff in H as [H1 H2].
      apply (option_eqb_spec _ (list_eqb_spec pairN_eqb pairN_eqb_spec')) in H1.
      apply (option_eqb_spec Z.eqb Z.eqb_eq) in H2.
      assert (Hrc : forall x y, root_call_eqb x y = true <-> x = y).
      { intros [[l e] r] [[l' e'] r']. unfold root_call_eqb.
        rewrite !andb_true_iff, !N.eqb_eq, (list_eqb_spec _ (option_eqb_spec N.eqb N.eqb_eq)).
        split; [intros [[-> ->] ->]; reflexivity | intros H'; injection H' as -> -> ->; auto]. }
      apply (option_eqb_spec _ Hrc) in H3.
      apply (option_eqb_spec _ (list_eqb_spec msg_eqb msg_eqb_spec)) in H4.
      apply (option_eqb_spec Z.eqb Z.eqb_eq) in H5.
      apply (option_eqb_spec _ (list_eqb_spec contrib_eqb contrib_eqb_spec)) in H6.
      destruct a, b; cbn in *; congruence. }
    apply (list_eqb_spec fire_out_eqb) in Hf.
    + rewrite <- Hf. apply model_passes_fires; assumption.
    + intros x y. split; [apply Hfe | intros ->].
      unfold fire_out_eqb. rewrite !andb_true_iff. repeat split.
      * apply (option_eqb_spec _ (list_eqb_spec pairN_eqb pairN_eqb_spec')). reflexivity.
      * apply (option_eqb_spec Z.eqb Z.eqb_eq). reflexivity.
      * destruct (o_root_call y) as [[[l e] r]|]; cbn; [|reflexivity].
        rewrite !N.eqb_refl, !andb_true_r. apply (list_eqb_spec _ (option_eqb_spec N.eqb N.eqb_eq)). reflexivity.
      * apply (option_eqb_spec _ (list_eqb_spec msg_eqb msg_eqb_spec)). reflexivity.
      * apply (option_eqb_spec Z.eqb Z.eqb_eq). reflexivity.
      * apply (option_eqb_spec _ (list_eqb_spec contrib_eqb contrib_eqb_spec)). reflexivity.
  - destruct (c_agg c) as [[a o]|] eqn:Eg; [|reflexivity].
    apply (option_eqb_spec _ (list_eqb_spec contrib_eqb contrib_eqb_spec)) in Hg. rewrite <- Hg.
    apply model_passes_aggregate. exact (Hagg a o eq_refl).
Qed.
