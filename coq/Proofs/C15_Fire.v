(* C15 lemmas, second part: the chain of one slot (prepare -> message -> aggregation), the
   independence of the members, the subcommittee and the aggregator selection. *)
From Verif Require Import Lib.Base Model.C15_Sync Proofs.C15.
From Coq Require Import ZifyBool ZifyN ZifyNat Permutation.
Local Open Scope N_scope.

Definition msg_validator (m : msg) : N := snd (fst m).

(* ============================================================================================ *)
(* 3. The per-slot chain, observable by observable.                                             *)

(* the prepare job gets past SignSyncCommitteeSelections: nothing to sign, or the signer answers *)
Definition sel_stage_ok (p : params) (mem : list duty) (acct : N -> bool) (f : fire_in) : bool :=
  match sel_pairs p mem acct with [] => true | _ => negb (f_sel_err f) end.

Lemma fire_submitted_eq : forall p mem acct f,
  o_submitted (fire p mem acct f) =
    if sel_stage_ok p mem acct f then
      match f_root f with
      | None => None
      | Some r => match signers mem acct with
                  | [] => None
                  | _ => if f_root_err f then None else Some (messages p mem acct f r)
                  end
      end
    else None.
Proof.
  intros p mem acct f. unfold fire, sel_stage_ok.
  destruct (sel_pairs p mem acct) as [|x xs]; [|destruct (f_sel_err f)]; cbn [negb];
    try reflexivity;
    (destruct (f_root f); [|reflexivity]; destruct (signers mem acct); [reflexivity|];
     destruct (f_root_err f); [reflexivity|];
     destruct (negb _ && negb _); cbn [negb]; [|reflexivity];
     destruct (aggregators p mem acct f); reflexivity).
Qed.

Lemma messages_nil_signers : forall p mem acct f r, signers mem acct = [] -> messages p mem acct f r = [].
Proof. intros p mem acct f r H. unfold messages. rewrite H. reflexivity. Qed.

(* the payload handed to SubmitSyncCommitteeMessages, when no whole-batch step fails *)
Lemma fire_submitted : forall p mem acct f r,
  sel_stage_ok p mem acct f = true -> f_root f = Some r -> f_root_err f = false ->
  opt_list (o_submitted (fire p mem acct f)) = messages p mem acct f r.
Proof.
  intros p mem acct f r H1 H2 H3. rewrite fire_submitted_eq, H1, H2, H3.
  destruct (signers mem acct) eqn:E; [|reflexivity].
  cbn. symmetry. apply messages_nil_signers. exact E.
Qed.

(* ... and a payload exists only in that situation *)
Lemma fire_submitted_inv : forall p mem acct f m,
  In m (opt_list (o_submitted (fire p mem acct f))) ->
  sel_stage_ok p mem acct f = true /\ f_root_err f = false
  /\ exists r, f_root f = Some r /\ In m (messages p mem acct f r).
Proof.
  intros p mem acct f m. rewrite fire_submitted_eq.
  destruct (sel_stage_ok p mem acct f); [|intros []].
  destruct (f_root f) as [r|]; [|intros []].
  destruct (signers mem acct); [intros []|].
  destruct (f_root_err f); [intros []|]. cbn. eauto.
Qed.

Lemma fire_msg_job : forall p mem acct f,
  o_msg_job (fire p mem acct f) = if sel_stage_ok p mem acct f then Some (message_time p (f_slot f)) else None.
Proof.
  intros p mem acct f. unfold fire, sel_stage_ok.
  destruct (sel_pairs p mem acct) as [|x xs]; [|destruct (f_sel_err f)]; cbn [negb];
    try reflexivity;
    (destruct (f_root f); [|reflexivity]; destruct (signers mem acct); [reflexivity|];
     destruct (f_root_err f); [reflexivity|];
     destruct (negb _ && negb _); cbn [negb]; [|reflexivity];
     destruct (aggregators p mem acct f); reflexivity).
Qed.

Lemma fire_root_call : forall p mem acct f,
  o_root_call (fire p mem acct f) =
    if sel_stage_ok p mem acct f then
      match f_root f with
      | None => None
      | Some r => match signers mem acct with
                  | [] => None
                  | sgn => Some (map Some sgn, epoch_of_slot p (f_slot f), r)
                  end
      end
    else None.
Proof.
  intros p mem acct f. unfold fire, sel_stage_ok.
  destruct (sel_pairs p mem acct) as [|x xs]; [|destruct (f_sel_err f)]; cbn [negb];
    try reflexivity;
    (destruct (f_root f); [|reflexivity]; destruct (signers mem acct); [reflexivity|];
     destruct (f_root_err f); [reflexivity|];
     destruct (negb _ && negb _); cbn [negb]; [|reflexivity];
     destruct (aggregators p mem acct f); reflexivity).
Qed.

(* the Message call succeeded: signed, at least one message, submitter accepted *)
Definition message_ok (p : params) (mem : list duty) (acct : N -> bool) (f : fire_in) (r : N) : bool :=
  sel_stage_ok p mem acct f
  && match signers mem acct with [] => false | _ => true end
  && negb (f_root_err f) && negb (f_submit_err f)
  && match messages p mem acct f r with [] => false | _ => true end.

Lemma fire_agg_eq : forall p mem acct f,
  (o_agg_job (fire p mem acct f), o_contribs (fire p mem acct f)) =
    match f_root f with
    | None => (None, None)
    | Some r =>
        if message_ok p mem acct f r then
          match aggregators p mem acct f with
          | [] => (None, None)
          | aggs => (Some (aggregate_time p (f_slot f)), contributions f r aggs)
          end
        else (None, None)
    end.
Proof.
  intros p mem acct f. unfold fire, message_ok, sel_stage_ok.
  destruct (sel_pairs p mem acct) as [|x xs]; [|destruct (f_sel_err f)]; cbn [negb andb];
    try (destruct (f_root f); reflexivity);
    (destruct (f_root f) as [r|]; [|reflexivity]; destruct (signers mem acct); [reflexivity|];
     destruct (f_root_err f); [reflexivity|]; cbn [negb andb];
     destruct (f_submit_err f); cbn [negb andb]; [reflexivity|];
     destruct (messages p mem acct f r); cbn [negb andb]; [reflexivity|];
     destruct (aggregators p mem acct f); reflexivity).
Qed.

Lemma fire_contribs : forall p mem acct f r,
  f_root f = Some r -> message_ok p mem acct f r = true ->
  opt_list (o_contribs (fire p mem acct f)) = opt_list (contributions f r (aggregators p mem acct f))
  /\ o_agg_job (fire p mem acct f) =
       match aggregators p mem acct f with [] => None | _ => Some (aggregate_time p (f_slot f)) end.
Proof.
  intros p mem acct f r H1 H2. pose proof (fire_agg_eq p mem acct f) as H. rewrite H1, H2 in H.
  destruct (aggregators p mem acct f) eqn:E; injection H as Ha Hc; rewrite Ha, Hc; split; try reflexivity.
  unfold contributions. cbn. destruct (f_cp_err f); reflexivity.
Qed.

Lemma fire_contribs_inv : forall p mem acct f c,
  In c (opt_list (o_contribs (fire p mem acct f))) ->
  exists r, f_root f = Some r /\ message_ok p mem acct f r = true
            /\ In c (opt_list (contributions f r (aggregators p mem acct f))).
Proof.
  intros p mem acct f c. pose proof (fire_agg_eq p mem acct f) as H.
  destruct (f_root f) as [r|]; [|injection H as _ Hc; rewrite Hc; intros []].
  destruct (message_ok p mem acct f r) eqn:Em; [|injection H as _ Hc; rewrite Hc; intros []].
  destruct (aggregators p mem acct f) eqn:E; injection H as _ Hc; rewrite Hc; [intros []|].
  intros Hin. exists r. auto.
Qed.

(* ============================================================================================ *)
(* 4. What the messages are.                                                                    *)

Lemma signers_In : forall mem acct v, In v (signers mem acct) <-> In v (map fst mem) /\ acct v = true.
Proof. intros. unfold signers. apply filter_In. Qed.

Lemma signers_NoDup : forall mem acct, NoDup (map fst mem) -> NoDup (signers mem acct).
Proof. intros. unfold signers. apply NoDup_filter. assumption. Qed.

Lemma messages_In : forall p mem acct f r s' r' v x,
  In (s', r', v, x) (messages p mem acct f r) <->
  s' = f_slot f /\ r' = r /\ In v (signers mem acct) /\ ~ In v (f_root_zero f)
  /\ x = SgRoot v (epoch_of_slot p (f_slot f)) r.
Proof.
  intros p mem acct f r s' r' v x. unfold messages. rewrite in_flat_map. split.
  - intros (v0 & Hv0 & Hin). unfold root_sig in Hin.
    destruct (memN v0 (f_root_zero f)) eqn:Ez; cbn in Hin; [destruct Hin|].
    destruct Hin as [Heq|[]]. injection Heq as <- <- <- <-.
    apply memN_false in Ez. auto.
  - intros (-> & -> & Hs & Hz & ->). exists v. split; [exact Hs|].
    unfold root_sig. apply memN_false in Hz. rewrite Hz. cbn. auto.
Qed.

Lemma messages_validators : forall p mem acct f r,
  map msg_validator (messages p mem acct f r) =
  filter (fun v => negb (memN v (f_root_zero f))) (signers mem acct).
Proof.
  intros p mem acct f r. unfold messages. induction (signers mem acct) as [|v l IH]; cbn; [reflexivity|].
  unfold root_sig at 1 2. destruct (memN v (f_root_zero f)); cbn; [exact IH | f_equal; exact IH].
Qed.

Lemma messages_NoDup : forall p mem acct f r, NoDup (map fst mem) ->
  NoDup (map msg_validator (messages p mem acct f r)).
Proof. intros. rewrite messages_validators. apply NoDup_filter, signers_NoDup. assumption. Qed.

(* -------------------------------------------------------------------------------------------- *)
(* The schedule and the slot's chain together. *)

Lemma has_prepare_spec : forall jobs s,
  has_prepare jobs s = true <-> exists t, In (JPrepare, s, t) jobs.
Proof.
  intros jobs s. unfold has_prepare. rewrite existsb_exists. split.
  - intros ([[k s'] t] & Hin & H). cbn in H. apply andb_true_iff in H as [H1 H2].
    apply N.eqb_eq in H1, H2. subst. eauto.
  - intros (t & Hin). exists (JPrepare, s, t). split; [exact Hin|]. cbn. rewrite N.eqb_refl. reflexivity.
Qed.

Definition in_window (p : params) (i : sched_in) (s : N) : Prop :=
  spec_first p (si_epoch i) (si_cur i) <= s <= spec_last p (si_epoch i)
  /\ (si_notcur i = true -> s <> si_cur i).

Lemma fire_scheduled_in : forall p i f,
  chain_ok p -> in_range p (si_epoch i) (si_cur i) -> ready p i -> in_window p i (f_slot f) ->
  fire_scheduled p i f = fire p (members i) (has_account i) f.
Proof.
  intros p i f Hok Hr Hrd (Hw & Hn). unfold fire_scheduled.
  assert (H : has_prepare (so_jobs (schedule p i)) (f_slot f) = true).
  { apply has_prepare_spec. exists (prepare_time p (f_slot f)).
    apply (schedule_jobs_spec p i _ _ _ Hok Hr). auto 6. }
  rewrite H. reflexivity.
Qed.

Lemma fire_scheduled_out : forall p i f,
  chain_ok p -> in_range p (si_epoch i) (si_cur i) -> ~ (ready p i /\ in_window p i (f_slot f)) ->
  fire_scheduled p i f = no_fire.
Proof.
  intros p i f Hok Hr Hn. unfold fire_scheduled.
  destruct (has_prepare (so_jobs (schedule p i)) (f_slot f)) eqn:H; [|reflexivity].
  exfalso. apply Hn. apply has_prepare_spec in H. destruct H as (t & H).
  apply (schedule_jobs_spec p i _ _ _ Hok Hr) in H. unfold in_window. tauto.
Qed.

(* a validator of the duties answer / an account held for a requested validator *)
Definition has_duty (i : sched_in) (v : N) : Prop := exists ds, si_duties i = Some ds /\ In v (map fst ds).
Definition holds_account (i : sched_in) (v : N) : Prop :=
  exists a, si_accts i = Some a /\ In v a /\ In v (si_indices i).

Lemma message_every_slot : forall p i f r,
  chain_ok p -> in_range p (si_epoch i) (si_cur i) -> ready p i -> in_window p i (f_slot f) ->
  f_root f = Some r -> f_sel_err f = false -> f_root_err f = false ->
  let out := fire_scheduled p i f in
  (forall s' r' v x,
     In (s', r', v, x) (opt_list (o_submitted out)) <->
     s' = f_slot f /\ r' = r /\ has_duty i v /\ holds_account i v /\ ~ In v (f_root_zero f)
     /\ x = SgRoot v (f_slot f / spe p) r)
  /\ NoDup (map msg_validator (opt_list (o_submitted out)))
  /\ o_msg_job out = Some (message_time p (f_slot f)).
Proof.
  intros p i f r Hok Hr Hrd Hw Hroot Hsel Hre out. unfold out.
  rewrite (fire_scheduled_in p i f Hok Hr Hrd Hw).
  assert (Hst : sel_stage_ok p (members i) (has_account i) f = true).
  { unfold sel_stage_ok. rewrite Hsel. destruct (sel_pairs _ _ _); reflexivity. }
  rewrite (fire_submitted _ _ _ _ r Hst Hroot Hre). split; [|split].
  - intros s' r' v x. rewrite messages_In, signers_In, members_keys, has_account_spec.
    unfold has_duty, holds_account, epoch_of_slot. tauto.
  - apply messages_NoDup, members_NoDup.
  - rewrite fire_msg_job, Hst. reflexivity.
Qed.

(* Soundness without any hypothesis on the environment: whatever fails, a message handed to the
   submitter is for the fired slot, over the head root served in that slot, by a member that has an
   account, signed by that member's account for the slot's epoch. *)
Lemma message_sound : forall p i f s' r' v x,
  In (s', r', v, x) (opt_list (o_submitted (fire_scheduled p i f))) ->
  s' = f_slot f /\ f_root f = Some r' /\ has_duty i v /\ holds_account i v
  /\ x = SgRoot v (f_slot f / spe p) r' /\ In (JPrepare, f_slot f, prepare_time p (f_slot f)) (so_jobs (schedule p i)).
Proof.
  intros p i f s' r' v x. unfold fire_scheduled.
  destruct (has_prepare (so_jobs (schedule p i)) (f_slot f)) eqn:Hp; [|intros []].
  intros H. apply fire_submitted_inv in H. destruct H as (_ & _ & r & Hr & H).
  apply messages_In in H. destruct H as (-> & -> & Hs & _ & ->).
  apply signers_In in Hs. destruct Hs as (Hm & Ha).
  apply members_keys in Hm. apply has_account_spec in Ha.
  repeat split; auto.
  apply has_prepare_spec in Hp. destruct Hp as (t & Ht).
  assert (Hrd : ready p i).
  { destruct (ready_dec p i) as [Hy|Hn]; [exact Hy|].
    destruct (schedule_not_ready p i Hn) as (Hj & _). rewrite Hj in Ht. destruct Ht. }
  destruct (schedule_ready p i Hrd) as (Hj & _). rewrite Hj in Ht |- *.
  apply in_map_iff in Ht. destruct Ht as (s0 & Heq & Hs0). injection Heq as <- _.
  apply in_map_iff. exists s0. auto.
Qed.

(* ============================================================================================ *)
(* 5. Independence.                                                                             *)

(* Run B differs from run A only in what concerns the members of [bad]: they may have lost their
   account, their signatures / selection proofs may be zero or different; every other member has
   the same account, and the signer, the node and the submitter behave the same for it. *)
Definition fewer_accounts (bad acct acct' : N -> bool) : Prop :=
  forall v, (bad v = false -> acct' v = acct v) /\ (acct' v = true -> acct v = true).

Definition same_for_others (bad : N -> bool) (f f' : fire_in) : Prop :=
  f_slot f' = f_slot f /\ f_root f' = f_root f /\ f_sel_err f' = f_sel_err f /\ f_root_err f' = f_root_err f
  /\ f_submit_err f' = f_submit_err f /\ f_contrib_err f' = f_contrib_err f /\ f_cp_err f' = f_cp_err f
  /\ forall v, bad v = false ->
       memN v (f_root_zero f') = memN v (f_root_zero f) /\ memN v (f_sel_zero f') = memN v (f_sel_zero f)
       /\ forall c, lookup3 (f_hash8 f') v c = lookup3 (f_hash8 f) v c.

Lemma sel_pairs_In : forall p mem acct x,
  In x (sel_pairs p mem acct) <->
  exists m pos, In m mem /\ acct (fst m) = true /\ In pos (snd m) /\ x = (fst m, subcommittee p pos).
Proof.
  intros p mem acct x. unfold sel_pairs. rewrite in_flat_map. split.
  - intros (m & Hm & Hin). destruct (acct (fst m)) eqn:Ea; [|destruct Hin].
    apply in_map_iff in Hin. destruct Hin as (pos & <- & Hpos). exists m, pos. auto.
  - intros (m & pos & Hm & Ha & Hpos & ->). exists m. split; [exact Hm|]. rewrite Ha.
    apply in_map_iff. eauto.
Qed.

Lemma sel_pairs_mono : forall p mem acct acct' x,
  (forall v, acct' v = true -> acct v = true) -> In x (sel_pairs p mem acct') -> In x (sel_pairs p mem acct).
Proof.
  intros p mem acct acct' x H Hin. apply sel_pairs_In in Hin. destruct Hin as (m & pos & Hm & Ha & Hp & ->).
  apply sel_pairs_In. exists m, pos. auto.
Qed.

Lemma sel_stage_mono : forall p mem bad acct acct' f f',
  fewer_accounts bad acct acct' -> f_sel_err f' = f_sel_err f ->
  sel_stage_ok p mem acct f = true -> sel_stage_ok p mem acct' f' = true.
Proof.
  intros p mem bad acct acct' f f' Hacc He. unfold sel_stage_ok. rewrite He.
  destruct (sel_pairs p mem acct') as [|x xs] eqn:E'; [reflexivity|].
  destruct (sel_pairs p mem acct) as [|y ys] eqn:E; [|auto].
  exfalso. assert (Hin : In x (sel_pairs p mem acct)).
  { apply (sel_pairs_mono p mem acct acct'); [intros v; apply Hacc | rewrite E'; left; reflexivity]. }
  rewrite E in Hin. destruct Hin.
Qed.

Lemma messages_others : forall p mem bad acct acct' f f' r m,
  fewer_accounts bad acct acct' -> same_for_others bad f f' -> bad (msg_validator m) = false ->
  (In m (messages p mem acct f r) <-> In m (messages p mem acct' f' r)).
Proof.
  intros p mem bad acct acct' f f' r [[[s' r'] v] x] Hacc Hsame Hb. cbn in Hb.
  destruct Hsame as (Hs & _ & _ & _ & _ & _ & _ & Hv). destruct (Hv v Hb) as (Hz & _ & _).
  destruct (Hacc v) as (Ha & _). specialize (Ha Hb).
  rewrite !messages_In, !signers_In, <- !memN_false, Hz, Ha, Hs. tauto.
Qed.

(* One direction holds whatever the environment does: a message of a member outside [bad] that
   run A submits is submitted by run B as well -- the absences do not suppress it. *)
Lemma independence_messages : forall p mem bad acct acct' f f' m,
  fewer_accounts bad acct acct' -> same_for_others bad f f' -> bad (msg_validator m) = false ->
  In m (opt_list (o_submitted (fire p mem acct f))) ->
  In m (opt_list (o_submitted (fire p mem acct' f'))).
Proof.
  intros p mem bad acct acct' f f' m Hacc Hsame Hb Hin.
  apply fire_submitted_inv in Hin. destruct Hin as (Hst & Hre & r & Hr & Hm).
  pose proof Hsame as (Hs & Hroot & Hse & Hrerr & _).
  rewrite (fire_submitted p mem acct' f' r).
  - apply (messages_others p mem bad acct acct' f f' r m Hacc Hsame Hb). exact Hm.
  - apply (sel_stage_mono p mem bad acct acct' f f' Hacc Hse Hst).
  - congruence.
  - congruence.
Qed.

(* The other direction needs the selection signer not to fail as a whole (a batch that fails in
   run A may be empty, hence not attempted, in run B). *)
Lemma independence_messages_back : forall p mem bad acct acct' f f' m,
  fewer_accounts bad acct acct' -> same_for_others bad f f' -> bad (msg_validator m) = false ->
  f_sel_err f = false ->
  In m (opt_list (o_submitted (fire p mem acct' f'))) ->
  In m (opt_list (o_submitted (fire p mem acct f))).
Proof.
  intros p mem bad acct acct' f f' m Hacc Hsame Hb Hse Hin.
  apply fire_submitted_inv in Hin. destruct Hin as (_ & Hre & r & Hr & Hm).
  pose proof Hsame as (Hs & Hroot & _ & Hrerr & _).
  rewrite (fire_submitted p mem acct f r).
  - apply (messages_others p mem bad acct acct' f f' r m Hacc Hsame Hb). exact Hm.
  - unfold sel_stage_ok. rewrite Hse. destruct (sel_pairs _ _ _); reflexivity.
  - congruence.
  - congruence.
Qed.

(* -------------------------------------------------------------------------------------------- *)
(* aggregators and contributions *)

Lemma pairN_eqb_spec : forall x y : N * N, prod_eqb N.eqb N.eqb x y = true <-> x = y.
Proof. apply prod_eqb_spec; apply N.eqb_eq. Qed.

Lemma dedup_pairs_In : forall l x, In x (dedup_pairs l) <-> In x l.
Proof.
  induction l as [|y l IH]; intros x; cbn; [tauto|].
  destruct (memb (prod_eqb N.eqb N.eqb) y l) eqn:E.
  - rewrite IH. apply (memb_spec _ pairN_eqb_spec) in E. split; [auto | intros [<-|H]; auto].
  - cbn. rewrite IH. tauto.
Qed.

Lemma dedup_pairs_NoDup : forall l, NoDup (dedup_pairs l).
Proof.
  induction l as [|y l IH]; cbn; [constructor|].
  destruct (memb (prod_eqb N.eqb N.eqb) y l) eqn:E; [exact IH|].
  constructor; [|exact IH]. rewrite dedup_pairs_In. intro H.
  apply (memb_spec _ pairN_eqb_spec) in H. congruence.
Qed.

Lemma aggregators_In : forall p mem acct f x,
  In x (aggregators p mem acct f) <-> In x (sel_pairs p mem acct) /\ selected p f x = true.
Proof. intros. unfold aggregators. rewrite sort_by_In, dedup_pairs_In, filter_In. tauto. Qed.

Lemma aggregators_NoDup : forall p mem acct f, NoDup (aggregators p mem acct f).
Proof.
  intros. unfold aggregators. eapply Permutation_NoDup; [symmetry; apply sort_by_perm|].
  apply dedup_pairs_NoDup.
Qed.

Lemma existsb_false : forall (A : Type) (g : A -> bool) l, existsb g l = false <-> forall x, In x l -> g x = false.
Proof.
  intros A g l. induction l as [|y l IH]; cbn.
  - split; [intros _ x [] | reflexivity].
  - rewrite orb_false_iff, IH. split.
    + intros [H1 H2] x [<-|Hx]; auto.
    + intros H. split; [apply H; auto | intros x Hx; apply H; auto].
Qed.

Lemma contributions_In : forall f r aggs c,
  In c (opt_list (contributions f r aggs)) <->
  (forall x, In x aggs -> ~ In (snd x) (f_contrib_err f)) /\ f_cp_err f = false
  /\ exists x, In x aggs /\ c = mk_contrib f r x.
Proof.
  intros f r aggs c. unfold contributions.
  destruct (existsb _ aggs) eqn:Ee.
  - cbn. split; [intros []|]. intros (Hn & _). exfalso.
    apply existsb_exists in Ee. destruct Ee as (x & Hx & Hm). apply memN_In in Hm. exact (Hn x Hx Hm).
  - assert (Hn : forall x, In x aggs -> ~ In (snd x) (f_contrib_err f)).
    { intros x Hx. apply memN_false. revert x Hx. apply existsb_false. exact Ee. }
    destruct (f_cp_err f); cbn.
    + split; [intros [] | intros (_ & H & _); discriminate].
    + rewrite in_map_iff. split.
      * intros (x & <- & Hx). eauto.
      * intros (_ & _ & x & Hx & ->). eauto.
Qed.

Lemma selected_same : forall p bad f f' x, same_for_others bad f f' -> bad (fst x) = false ->
  selected p f' x = selected p f x.
Proof.
  intros p bad f f' x Hsame Hb. destruct Hsame as (_ & _ & _ & _ & _ & _ & _ & Hv).
  destruct (Hv (fst x) Hb) as (_ & _ & Hh). unfold selected. rewrite Hh. reflexivity.
Qed.

Lemma mk_contrib_same : forall bad f f' r x, same_for_others bad f f' -> bad (fst x) = false ->
  mk_contrib f' r x = mk_contrib f r x.
Proof.
  intros bad f f' r x Hsame Hb. destruct Hsame as (Hs & _ & _ & _ & _ & _ & _ & Hv).
  destruct (Hv (fst x) Hb) as (_ & Hz & _). unfold mk_contrib, sel_sig. rewrite Hs, Hz. reflexivity.
Qed.

Lemma aggregators_others : forall p mem bad acct acct' f f' x,
  fewer_accounts bad acct acct' -> same_for_others bad f f' -> bad (fst x) = false ->
  (In x (aggregators p mem acct f) <-> In x (aggregators p mem acct' f')).
Proof.
  intros p mem bad acct acct' f f' x Hacc Hsame Hb.
  rewrite !aggregators_In, (selected_same p bad f f' x Hsame Hb), !sel_pairs_In.
  split; intros ((m & pos & Hm & Ha & Hp & ->) & Hsel); (split; [|exact Hsel]); exists m, pos;
    cbn in Hb; destruct (Hacc (fst m)) as (Hg & _); rewrite (Hg Hb) in *; auto.
Qed.

(* A contribution of an aggregator outside [bad] that run A submits is submitted by run B as well,
   provided some message outside [bad] goes out (so that Message succeeds in run B) and the node
   serves the contributions run B asks for. *)
Lemma independence_contributions : forall p mem bad acct acct' f f' c,
  fewer_accounts bad acct acct' -> same_for_others bad f f' -> bad (cp_agg c) = false ->
  (exists m, In m (opt_list (o_submitted (fire p mem acct f))) /\ bad (msg_validator m) = false) ->
  (forall x, In x (aggregators p mem acct' f') -> ~ In (snd x) (f_contrib_err f')) ->
  In c (opt_list (o_contribs (fire p mem acct f))) ->
  In c (opt_list (o_contribs (fire p mem acct' f'))).
Proof.
  intros p mem bad acct acct' f f' c Hacc Hsame Hb (m & Hm & Hmb) Hfetch Hin.
  apply fire_contribs_inv in Hin. destruct Hin as (r & Hr & Hok & Hc).
  apply contributions_In in Hc. destruct Hc as (_ & Hcp & x & Hx & ->). cbn in Hb.
  pose proof Hsame as (Hs & Hroot & Hse & Hrerr & Hsub & Hce & Hcpe & _).
  (* the message m of run A is also in run B *)
  pose proof (independence_messages p mem bad acct acct' f f' m Hacc Hsame Hmb Hm) as Hm'.
  apply fire_submitted_inv in Hm'. destruct Hm' as (Hst' & Hre' & r' & Hr' & Hm').
  assert (r' = r) by congruence. subst r'.
  assert (Hok' : message_ok p mem acct' f' r = true).
  { unfold message_ok in *. rewrite Hst', Hre'.
    apply andb_true_iff in Hok as [Hok _]. apply andb_true_iff in Hok as [_ Hsb].
    rewrite Hsub, Hsb.
    destruct m as [[[ms mr] mv] mx]. pose proof Hm' as Hm2. apply messages_In in Hm2.
    destruct Hm2 as (_ & _ & Hsg & _).
    destruct (signers mem acct') eqn:Es; [destruct Hsg|].
    destruct (messages p mem acct' f' r) eqn:Em; [destruct Hm'|]. reflexivity. }
  destruct (fire_contribs p mem acct' f' r) as (Hcs & _); [congruence | exact Hok' |].
  rewrite Hcs. apply contributions_In. split; [exact Hfetch|]. split; [congruence|].
  exists x. split.
  - apply (aggregators_others p mem bad acct acct' f f' x Hacc Hsame Hb). exact Hx.
  - symmetry. apply (mk_contrib_same bad f f' r x Hsame Hb).
Qed.

(* -------------------------------------------------------------------------------------------- *)
(* Aggregate called on its own *)

Lemma agg_items_In : forall a x, In x (agg_items a) <->
  exists m, In m (a_aggs a) /\ In (fst m) (a_accts a) /\ In (snd x) (snd m) /\ fst x = fst m.
Proof.
  intros a x. unfold agg_items. rewrite in_flat_map. split.
  - intros (m & Hm & Hin). destruct (memN (fst m) (a_accts a)) eqn:E; [|destruct Hin].
    apply memN_In in E. apply in_map_iff in Hin. destruct Hin as (c & <- & Hc). exists m. cbn. auto.
  - intros (m & Hm & Ha & Hc & Hf). exists m. split; [exact Hm|].
    apply memN_In in Ha. rewrite Ha. apply in_map_iff. exists (snd x). split; [|exact Hc].
    destruct x; cbn in *; congruence.
Qed.

Definition agg_root (a : agg_in) : option N := match a_cached a with Some r => Some r | None => a_head a end.

Lemma aggregate_In : forall a c,
  In c (opt_list (aggregate a)) <->
  exists r, agg_root a = Some r
            /\ (forall x, In x (agg_items a) -> ~ In (snd x) (a_contrib_err a))
            /\ a_cp_err a = false
            /\ exists x, In x (agg_items a) /\ c = agg_contrib a r x.
Proof.
  intros a c. unfold aggregate, agg_root.
  destruct (match a_cached a with Some r => Some r | None => a_head a end) as [r|];
    [|cbn; split; [intros [] | intros (r & H & _); discriminate]].
  destruct (existsb _ (agg_items a)) eqn:Ee.
  - cbn. split; [intros []|]. intros (r' & _ & Hn & _). exfalso.
    apply existsb_exists in Ee. destruct Ee as (x & Hx & Hm). apply memN_In in Hm. exact (Hn x Hx Hm).
  - assert (Hn : forall x, In x (agg_items a) -> ~ In (snd x) (a_contrib_err a)).
    { intros x Hx. apply memN_false. revert x Hx. apply existsb_false. exact Ee. }
    destruct (agg_items a) as [|y ys] eqn:Ei.
    + cbn. split; [intros [] | intros (_ & _ & _ & _ & x & [] & _)].
    + destruct (a_cp_err a); cbn [opt_list].
      * split; [intros [] | intros (_ & _ & _ & H & _); discriminate].
      * rewrite in_map_iff. split.
        -- intros (x & <- & Hx). apply sort_by_In in Hx. exists r. eauto 6.
        -- intros (r' & Hr' & _ & _ & x & Hx & ->). injection Hr' as <-. exists x.
           split; [reflexivity | apply sort_by_In; exact Hx].
Qed.

(* removing accounts of aggregators in [bad] leaves the other aggregators' contributions *)
Lemma independence_aggregate : forall (bad : N -> bool) a a' c,
  a_slot a' = a_slot a -> a_aggs a' = a_aggs a -> a_cached a' = a_cached a -> a_head a' = a_head a ->
  a_contrib_err a' = a_contrib_err a -> a_cp_err a' = a_cp_err a ->
  (forall v, (bad v = false -> (In v (a_accts a') <-> In v (a_accts a))) /\ (In v (a_accts a') -> In v (a_accts a))) ->
  bad (cp_agg c) = false ->
  In c (opt_list (aggregate a)) -> In c (opt_list (aggregate a')).
Proof.
  intros bad a a' c Hs Hg Hca Hh Hce Hcp Hacc Hb Hin.
  apply aggregate_In in Hin. destruct Hin as (r & Hr & Hn & Hcpe & x & Hx & ->). cbn in Hb.
  apply aggregate_In. exists r.
  assert (Hsub : forall y, In y (agg_items a') -> In y (agg_items a)).
  { intros y Hy. apply agg_items_In in Hy. destruct Hy as (m & Hm & Ha & Hc & Hf).
    apply agg_items_In. exists m. rewrite <- Hg. destruct (Hacc (fst m)) as (_ & H). auto. }
  split; [unfold agg_root in *; rewrite Hca, Hh; exact Hr|]. split; [intros y Hy; rewrite Hce; apply Hn, Hsub, Hy|].
  split; [congruence|]. exists x. split.
  - apply agg_items_In in Hx. destruct Hx as (m & Hm & Ha & Hc & Hf).
    apply agg_items_In. exists m. rewrite Hg. destruct (Hacc (fst m)) as (H & _).
    rewrite <- Hf in H. specialize (H Hb). rewrite <- Hf in Ha. rewrite Hf in H. split; [exact Hm|].
    split; [apply H; rewrite <- Hf; exact Ha | auto].
  - unfold agg_contrib. rewrite Hs. reflexivity.
Qed.

(* ============================================================================================ *)
(* 6. Subcommittees and the aggregator selection rule of the specification.                     *)

Lemma fire_sel_call_eq : forall p mem acct f,
  o_sel_call (fire p mem acct f) =
    match sel_pairs p mem acct with [] => None | l => Some (sort_by pair_key l) end.
Proof.
  intros p mem acct f. unfold fire.
  destruct (sel_pairs p mem acct) as [|x xs]; [|destruct (f_sel_err f)]; try reflexivity;
    (destruct (f_root f); [|reflexivity]; destruct (signers mem acct); [reflexivity|];
     destruct (f_root_err f); [reflexivity|];
     destruct (negb _ && negb _); cbn [negb]; [|reflexivity];
     destruct (aggregators p mem acct f); reflexivity).
Qed.

Lemma fire_sel_call_In : forall p mem acct f x,
  In x (opt_list (o_sel_call (fire p mem acct f))) <-> In x (sel_pairs p mem acct).
Proof.
  intros p mem acct f x. rewrite fire_sel_call_eq.
  destruct (sel_pairs p mem acct) as [|y ys] eqn:E; [tauto|]. cbn [opt_list]. apply sort_by_In.
Qed.

(* compute_subnets_for_sync_committee / is_sync_committee_aggregator of the Altair validator guide *)
Definition spec_subcommittee (p : params) (pos : N) : N := pos / (csize p / subnets p).
Definition spec_is_aggregator (p : params) (hash8 : N) : Prop :=
  hash8 mod N.max 1 (csize p / subnets p / target p) = 0.

Lemma selection_spec : forall p mem acct f v c,
  In (v, c) (aggregators p mem acct f) <->
  (exists ps pos, In (v, ps) mem /\ acct v = true /\ In pos ps /\ c = spec_subcommittee p pos)
  /\ exists h, lookup3 (f_hash8 f) v c = Some h /\ spec_is_aggregator p h.
Proof.
  intros p mem acct f v c. rewrite aggregators_In, sel_pairs_In.
  unfold selected, is_aggregator, modulo, spec_is_aggregator, spec_subcommittee, subcommittee. cbn [fst snd].
  split.
  - intros (([v' ps] & pos & Hm & Ha & Hp & Heq) & Hsel). cbn in *. injection Heq as -> ->.
    split; [eauto 8|].
    destruct (lookup3 (f_hash8 f) v' _) as [h|]; [|discriminate]. exists h. split; [reflexivity|].
    apply N.eqb_eq. exact Hsel.
  - intros ((ps & pos & Hm & Ha & Hp & ->) & h & Hl & Hh). split.
    + exists (v, ps), pos. cbn. auto.
    + rewrite Hl. apply N.eqb_eq. exact Hh.
Qed.

Lemma subcommittee_lt_subnets : forall p pos,
  0 < subnets p -> csize p mod subnets p = 0 -> pos < csize p -> spec_subcommittee p pos < subnets p.
Proof.
  intros p pos Hs Hm Hp. unfold spec_subcommittee.
  assert (Hk : csize p = subnets p * (csize p / subnets p)).
  { pose proof (N.div_mod (csize p) (subnets p)). lia. }
  assert (0 < csize p / subnets p) by nia.
  apply N.div_lt_upper_bound; [lia|]. rewrite N.mul_comm. lia.
Qed.

(* soundness, whatever fails: every contribution handed to the submitter is by a member that has
   an account and was selected for that subcommittee by the rule, for the fired slot, over the head
   root of that slot's messages, with the selection proof the signer gave. *)
Lemma contribution_sound : forall p mem acct f c,
  In c (opt_list (o_contribs (fire p mem acct f))) ->
  In (cp_agg c, cp_subc c) (aggregators p mem acct f)
  /\ cp_slot c = f_slot f /\ f_root f = Some (cp_root c)
  /\ cp_proof c = sel_sig f (cp_agg c, cp_subc c) /\ cp_sig c = SgCP (cp_agg c) (f_slot f) (cp_subc c)
  /\ o_agg_job (fire p mem acct f) = Some (aggregate_time p (f_slot f)).
Proof.
  intros p mem acct f c Hin. apply fire_contribs_inv in Hin. destruct Hin as (r & Hr & Hok & Hc).
  apply contributions_In in Hc. destruct Hc as (_ & _ & [v sc] & Hx & ->). cbn.
  repeat split; auto.
  destruct (fire_contribs p mem acct f r Hr Hok) as (_ & Hj). rewrite Hj.
  destruct (aggregators p mem acct f); [destruct Hx | reflexivity].
Qed.

(* completeness: when the messages went out and neither the node nor the contribution signer
   fails, every selected (member, subcommittee) has its contribution, and the aggregation job is
   at StartOfSlot + aggregation delay *)
Lemma contribution_complete : forall p mem acct f r v sc,
  f_root f = Some r -> message_ok p mem acct f r = true ->
  (forall x, In x (aggregators p mem acct f) -> ~ In (snd x) (f_contrib_err f)) -> f_cp_err f = false ->
  In (v, sc) (aggregators p mem acct f) ->
  In {| cp_agg := v; cp_slot := f_slot f; cp_subc := sc; cp_root := r;
        cp_proof := sel_sig f (v, sc); cp_sig := SgCP v (f_slot f) sc |}
     (opt_list (o_contribs (fire p mem acct f)))
  /\ o_agg_job (fire p mem acct f) = Some (aggregate_time p (f_slot f)).
Proof.
  intros p mem acct f r v sc Hr Hok Hn Hcp Hx.
  destruct (fire_contribs p mem acct f r Hr Hok) as (Hc & Hj). rewrite Hc, Hj. split.
  - apply contributions_In. split; [exact Hn|]. split; [exact Hcp|]. exists (v, sc). split; [exact Hx | reflexivity].
  - destruct (aggregators p mem acct f); [destruct Hx | reflexivity].
Qed.

Lemma no_aggregator_no_job : forall p mem acct f,
  aggregators p mem acct f = [] -> o_agg_job (fire p mem acct f) = None /\ o_contribs (fire p mem acct f) = None.
Proof.
  intros p mem acct f H. pose proof (fire_agg_eq p mem acct f) as He. rewrite H in He.
  destruct (f_root f); [destruct (message_ok _ _ _ _ _)|]; injection He as -> ->; auto.
Qed.

(* ============================================================================================ *)
(* 7. Independence stated on the inputs of the controller: the account manager holds fewer       *)
(*    accounts.                                                                                  *)

Definition with_accts (i : sched_in) (a : list N) : sched_in :=
  {| si_epoch := si_epoch i; si_cur := si_cur i; si_notcur := si_notcur i; si_indices := si_indices i;
     si_duties := si_duties i; si_accts := Some a |}.

Lemma schedule_jobs_with_accts : forall p i a a', si_accts i = Some a ->
  so_jobs (schedule p (with_accts i a')) = so_jobs (schedule p i).
Proof.
  intros p i a a' Ha. unfold schedule. cbn [with_accts si_indices si_cur si_epoch si_duties si_accts si_notcur].
  rewrite Ha. reflexivity.
Qed.

Lemma independence_accounts : forall p i a a' (bad : N -> bool) f m,
  si_accts i = Some a ->
  (forall v, (bad v = false -> (In v a' <-> In v a)) /\ (In v a' -> In v a)) ->
  bad (msg_validator m) = false ->
  In m (opt_list (o_submitted (fire_scheduled p i f))) ->
  In m (opt_list (o_submitted (fire_scheduled p (with_accts i a') f))).
Proof.
  intros p i a a' bad f m Ha Hsub Hb Hin. unfold fire_scheduled in *.
  rewrite (schedule_jobs_with_accts p i a a' Ha).
  destruct (has_prepare (so_jobs (schedule p i)) (f_slot f)); [|exact Hin].
  assert (Hmem : members (with_accts i a') = members i) by reflexivity. rewrite Hmem.
  apply (independence_messages p (members i) bad (has_account i) (has_account (with_accts i a')) f f m); auto.
  - intros v. unfold has_account. cbn [with_accts si_accts si_indices]. rewrite Ha.
    destruct (Hsub v) as (H1 & H2). split.
    + intros Hg. specialize (H1 Hg).
      destruct (memN v (si_indices i)); [|rewrite !andb_false_r; reflexivity]. rewrite !andb_true_r.
      destruct (memN v a') eqn:E1, (memN v a) eqn:E2; try reflexivity.
      * apply memN_In in E1. apply H1 in E1. apply memN_In in E1. congruence.
      * apply memN_In in E2. apply H1 in E2. apply memN_In in E2. congruence.
    + intros H. apply andb_true_iff in H as [H3 H4]. apply andb_true_iff. split; [|exact H4].
      apply memN_In. apply H2. apply memN_In. exact H3.
  - unfold same_for_others. repeat split; reflexivity.
Qed.

(* ============================================================================================ *)
(* 8. Independence as an equation: the sub-list of the other members' messages is the same list. *)

Definition others (bad : N -> bool) (m : msg) : bool := negb (bad (msg_validator m)).

Lemma filter_flat_map_filter : forall (A B : Type) (q : B -> bool) (a a' : A -> bool) (g g' : A -> list B) l,
  (forall v, filter q (if a v then g v else []) = filter q (if a' v then g' v else [])) ->
  filter q (flat_map g (filter a l)) = filter q (flat_map g' (filter a' l)).
Proof.
  intros A B q a a' g g' l H. induction l as [|v l IH]; [reflexivity|]. cbn [filter].
  specialize (H v). destruct (a v), (a' v); cbn [flat_map]; rewrite ?filter_app, ?IH; cbn [filter] in H;
    rewrite ?H; try reflexivity.
  - rewrite <- H. reflexivity.
Qed.

Lemma messages_filter_others : forall p mem bad acct acct' f f' r,
  fewer_accounts bad acct acct' -> same_for_others bad f f' ->
  filter (others bad) (messages p mem acct f r) = filter (others bad) (messages p mem acct' f' r).
Proof.
  intros p mem bad acct acct' f f' r Hacc Hsame. unfold messages, signers.
  destruct Hsame as (Hs & _ & _ & _ & _ & _ & _ & Hv).
  apply filter_flat_map_filter. intros v. cbv zeta.
  destruct (bad v) eqn:Eb.
  - (* a member of [bad]: whatever it produces is filtered out on both sides *)
    assert (Hdrop : forall (g : fire_in) (a : bool),
              filter (others bad) (if a then (if is_zero (root_sig p g r v) then [] else [(f_slot g, r, v, root_sig p g r v)]) else []) = []).
    { intros g a. destruct a; [|reflexivity]. destruct (is_zero (root_sig p g r v)); [reflexivity|].
      cbn. unfold others, msg_validator. cbn. rewrite Eb. reflexivity. }
    rewrite !Hdrop. reflexivity.
  - destruct (Hacc v) as (Ha & _). rewrite (Ha Eb). destruct (acct v); [|reflexivity].
    destruct (Hv v Eb) as (Hz & _). unfold root_sig. rewrite Hz, Hs. reflexivity.
Qed.

Lemma fire_submitted_flat : forall p mem acct f,
  sel_stage_ok p mem acct f = true ->
  opt_list (o_submitted (fire p mem acct f)) =
    match f_root f with
    | Some r => if f_root_err f then [] else messages p mem acct f r
    | None => []
    end.
Proof.
  intros p mem acct f Hst. rewrite fire_submitted_eq, Hst.
  destruct (f_root f) as [r|]; [|reflexivity].
  destruct (signers mem acct) eqn:E.
  - cbn. rewrite (messages_nil_signers p mem acct f r E). destruct (f_root_err f); reflexivity.
  - destruct (f_root_err f); reflexivity.
Qed.

Lemma independence_exact : forall p mem bad acct acct' f f',
  fewer_accounts bad acct acct' -> same_for_others bad f f' -> f_sel_err f = false ->
  filter (others bad) (opt_list (o_submitted (fire p mem acct f)))
  = filter (others bad) (opt_list (o_submitted (fire p mem acct' f'))).
Proof.
  intros p mem bad acct acct' f f' Hacc Hsame Hse.
  pose proof Hsame as (_ & Hroot & Hse' & Hre & _).
  assert (H1 : sel_stage_ok p mem acct f = true) by (unfold sel_stage_ok; rewrite Hse; destruct (sel_pairs _ _ _); reflexivity).
  assert (H2 : sel_stage_ok p mem acct' f' = true) by (unfold sel_stage_ok; rewrite Hse', Hse; destruct (sel_pairs _ _ _); reflexivity).
  rewrite (fire_submitted_flat _ _ _ _ H1), (fire_submitted_flat _ _ _ _ H2), Hroot, Hre.
  destruct (f_root f) as [r|]; [|reflexivity]. destruct (f_root_err f); [reflexivity|].
  apply messages_filter_others; assumption.
Qed.
