(* What the boolean predicates of Check/C17.v mean. *)
From Verif Require Import Check.C17 Proofs.C17_Snapshot.

Lemma P_b_sound (c : case) : P_b c = true ->
  c_race c = false /\ c_hang c = false /\ c_crash c = false /\
  (forall a, In a (c_answers c ++ c_answers_idx c) -> forall v b, In (v, b) a -> b = true) /\
  (forall o, In o (c_history c) -> head_ok o = true /\ get_ok (fun min v => v <? min) (c_history c) o = true).
Proof.
  unfold P_b, answers_whole. intro H.
  apply andb_true_iff in H as [H Hhist]. apply andb_true_iff in H as [H Hw]. apply andb_true_iff in H as [H Hc].
  apply andb_true_iff in H as [Hr Hh].
  apply negb_true_iff in Hr, Hh, Hc.
  split; [exact Hr|]. split; [exact Hh|]. split; [exact Hc|]. split.
  - intros a Ha v b Hin. apply andb_true_iff in Hw as [H1 H2].
    rewrite forallb_forall in H1, H2.
    apply in_app_or in Ha as [Ha|Ha]; [specialize (H1 a Ha) | specialize (H2 a Ha)].
    + rewrite forallb_forall in H1. apply (H1 (v, b) Hin).
    + rewrite forallb_forall in H2. apply (H2 (v, b) Hin).
  - intros o Ho. unfold history_sequential, lin_ok_with in Hhist. rewrite forallb_forall in Hhist.
    specialize (Hhist o Ho). destruct (head_ok o); [split; [reflexivity | exact Hhist] | discriminate].
Qed.

Lemma answer_eqb_eq a b : answer_eqb a b = true <-> a = b.
Proof.
  unfold answer_eqb. apply list_eqb_spec. intros [k x] [k' x']. cbn.
  rewrite andb_true_iff, N.eqb_eq, Bool.eqb_true_iff. split.
  - intros [-> ->]. reflexivity.
  - intro H. injection H as -> ->. auto.
Qed.

(* agreement of the churn answers: each observed answer is the projection of the model's sequential
   lookup on the store installed from ONE of the listings *)
Lemma answers_agree_sound (c : case) : answers_agree c = true ->
  (forall a, In a (c_answers c) -> exists l, In l (c_listings c) /\ a = model_answer (c_active c) None l) /\
  (forall a, In a (c_answers_idx c) -> exists l, In l (c_listings c) /\ a = model_answer (c_active c) (Some (c_requested c)) l).
Proof.
  unfold answers_agree. intro H. apply andb_true_iff in H as [H1 H2].
  rewrite forallb_forall in H1, H2. split; intros a Ha.
  - specialize (H1 a Ha). apply existsb_exists in H1 as [l [Hl E]]. apply answer_eqb_eq in E. eauto.
  - specialize (H2 a Ha). apply existsb_exists in H2 as [l [Hl E]]. apply answer_eqb_eq in E. eauto.
Qed.

Lemma in_insert_by (x : N * bool) l q : In q (insert_by fst x l) -> q = x \/ In q l.
Proof.
  induction l as [|y l IH]; cbn; intro H.
  - destruct H; [left; auto | contradiction].
  - destruct (fst x <=? fst y); cbn in H.
    + destruct H as [H|H]; [left; auto | right; exact H].
    + destruct H as [H|H]; [right; left; exact H|]. destruct (IH H); auto.
Qed.

Lemma in_sort_by (l : list (N * bool)) q : In q (sort_by fst l) -> In q l.
Proof.
  induction l as [|x l IH]; cbn; [tauto|]. intro H.
  destruct (in_insert_by x _ q H) as [->|H']; [left; reflexivity | right; apply IH; exact H'].
Qed.

(* the model's projected answer never shows a validator without account (so agreement implies wholeness) *)
Lemma model_answer_whole active only listing : forallb snd (model_answer active only listing) = true.
Proof.
  unfold model_answer. apply forallb_forall. intros q Hq.
  apply in_sort_by in Hq. apply in_map_iff in Hq as [p [<- Hp]]. cbn.
  apply filter_In in Hp as [Hp _].
  unfold lookup_at, lookup_in, install in Hp. cbn in Hp.
  apply in_map_iff in Hp as [k [<- Hk]]. cbn.
  destruct (assoc_in k _ Hk) as [a ->]. reflexivity.
Qed.
