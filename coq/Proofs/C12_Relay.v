(* C12: requests held by a relay.  ValidatorRegistrations (registrations forwarded by beacon nodes) and the
   registration round hand their registrations to the relays with submitRelayRegistrations: one network
   round trip per relay, all waited for.  In the programs that is the step [MRelay], a wait for something
   foreign ([OBlock]) like the acquisition of another mutex: [wf_prog] accepts it only at a node where the
   lock under study is not held.  Consequence, for ANY well-formed program family, any number of threads
   and any schedule: a thread that stands at such a wait holds neither the read lock nor the write lock,
   so nothing that happens to the lock ever depends on a relay answering. *)
From Coq Require Import List Arith Lia Bool.
From Verif Require Import Lib.Base Lib.Sched Lib.Lockset Model.C12_ConfigLock Proofs.C12.
Import ListNotations.
Local Open Scope nat_scope.

Section RelayWF.
  Variables (g : prog) (entries : list nat) (ls : hassign).
  Hypothesis Hwf : wf_assignment g entries ls = true.

  Lemma foreign_wait_holds_nothing s i t :
    Inv g ls s -> nth_error (s_threads s) i = Some t -> foreign_wait g t = true ->
    t_r t = 0 /\ t_w t = false.
  Proof.
    intros (Hthr & _ & _) Hi Hf. pose proof (Hthr i t Hi) as Hok.
    unfold foreign_wait in Hf. destruct (t_pc t) as [pc|pc|] eqn:Epc; try discriminate.
    unfold thr_ok in Hok. rewrite Epc in Hok. destruct Hok as (h & Hh & Hho).
    destruct (wf_node g entries ls Hwf pc h Hh) as (nd & h' & End & Htr & _ & _).
    rewrite End in Hf. destruct (p_op nd) eqn:Eop; try discriminate.
    destruct h; cbn in Htr; try discriminate.
    unfold hold_of in Hho. destruct (t_r t) as [|[|r]], (t_w t); try discriminate; auto.
  Qed.
End RelayWF.

(* where the round trip to the relays is: in the programs of the forwarded registration and of the
   registration round, nowhere else; and it is a foreign wait of the lock graph *)
Lemma relay_step_where pre sp : In MRelay (program pre sp) -> sp_kind sp = KFwd \/ sp_kind sp = KReg.
Proof.
  unfold program. destruct (sp_kind sp); try destruct pre; try destruct (rf_acc (sp_ref sp)); cbn; intuition discriminate.
Qed.

Lemma relay_step_is_foreign m : op_of_mstep m = OBlock <-> m = MForeign \/ m = MRelay.
Proof. destruct m; cbn; split; intro H; try discriminate; auto; destruct H; discriminate. Qed.

Lemma relay_step_last sp :
  (sp_kind sp = KFwd \/ sp_kind sp = KReg) -> last (program false sp) MNop = MRelay.
Proof. unfold program. intros [->| ->]; reflexivity. Qed.
