From Verif Require Import Lib.Base Model.C15_Sync.
