(* C15 lemmas: the slot window on wrapped uint64 arithmetic, the per-slot chain
   (prepare -> message -> aggregation), independence of the members, subcommittee / selection. *)
From Verif Require Import Lib.Base Model.C15_Sync.
From Coq Require Import ZifyBool ZifyN ZifyNat Permutation.
Local Open Scope N_scope.

(* ============================================================================================ *)
(* 1. The window.                                                                               *)

(* The chain parameters the code can run with: a positive number of slots per epoch and of epochs
   per period (both are divisors in the code), and a period of at least two slots (lastSlot is the
   period's first-after slot minus two). *)
Definition chain_ok (p : params) : Prop := 0 < spe p /\ 0 < epp p /\ 2 <= spe p * epp p.

(* Everything the window computes fits uint64: the clock, and the first slot after the period of
   [epoch] (fork-clamped).  Ethereum mainnet reaches this bound after ~7 * 10^12 years. *)
Definition in_range (p : params) (epoch cur : N) : Prop :=
  cur < two64 /\ fork p * spe p < two64 /\ (epoch / epp p + 1) * epp p * spe p < two64.

(* exact (unbounded) arithmetic of the specification *)
Definition period_first_epoch (p : params) (epoch : N) : N := N.max (epoch / epp p * epp p) (fork p).
Definition period_next_epoch (p : params) (epoch : N) : N := N.max ((epoch / epp p + 1) * epp p) (fork p).
(* first slot of the (fork-clamped) period, and first slot after it; the period's last slot is
   [period_end - 1] *)
Definition period_start (p : params) (epoch : N) : N := period_first_epoch p epoch * spe p.
Definition period_end (p : params) (epoch : N) : N := period_next_epoch p epoch * spe p.
(* first slot with a message: the one before the period's first slot, saturating at slot 0 (there
   is no slot before slot 0), or the current slot if later *)
Definition spec_first (p : params) (epoch cur : N) : N := N.max (period_start p epoch - 1) cur.
(* last slot with a message: the one before the period's last slot *)
Definition spec_last (p : params) (epoch : N) : N := period_end p epoch - 2.

Lemma wrap64_small : forall x, x < two64 -> wrap64 x = x.
Proof. intros x H. unfold wrap64. apply N.mod_small. exact H. Qed.

Lemma mul_le_l : forall a b c, a * c < two64 -> 0 < c -> b <= a -> b * c < two64.
Proof. intros a b c H Hc Hb. nia. Qed.

Lemma le_mul_pos : forall a c, 0 < c -> a <= a * c.
Proof. intros. nia. Qed.

Lemma div_mul_le : forall a b, 0 < b -> a / b * b <= a.
Proof. intros a b Hb. pose proof (N.mul_div_le a b). lia. Qed.

Section Window.
  Variable p : params.
  Variables epoch cur : N.
  Hypothesis Hok : chain_ok p.
  Hypothesis Hr : in_range p epoch cur.

  Let q := epoch / epp p.

  Lemma bounds :
    q * epp p < two64 /\ (q + 1) * epp p < two64 /\ q + 1 < two64 /\ fork p < two64
    /\ q * epp p * spe p < two64 /\ cur / spe p * spe p <= cur /\ cur / spe p < two64
    /\ 2 <= (q + 1) * epp p * spe p /\ 1 <= (q + 1) * epp p.
  Proof.
    destruct Hok as (Hs & He & H2). destruct Hr as (Hc & Hf & Hq). fold q in Hq.
    pose proof (div_mul_le cur (spe p) Hs) as Hd.
    assert (cur / spe p <= cur) by (pose proof (le_mul_pos (cur / spe p) (spe p) Hs); lia).
    repeat split; try nia; try lia.
  Qed.

  Lemma first_epoch_exact : first_epoch_of_period p q = period_first_epoch p epoch.
  Proof.
    destruct bounds as (B1 & _).
    unfold first_epoch_of_period, period_first_epoch, mul64. fold q.
    rewrite (wrap64_small _ B1).
    destruct (N.ltb_spec (q * epp p) (fork p)); lia.
  Qed.

  Lemma next_epoch_exact : first_epoch_of_period p (add64 q 1) = period_next_epoch p epoch.
  Proof.
    destruct bounds as (_ & B2 & B3 & _).
    unfold first_epoch_of_period, period_next_epoch, mul64, add64. fold q.
    rewrite (wrap64_small _ B3), (wrap64_small _ B2).
    destruct (N.ltb_spec ((q + 1) * epp p) (fork p)); lia.
  Qed.

  Lemma period_end_ge_2 : 2 <= period_end p epoch /\ period_end p epoch < two64 /\ 1 <= period_next_epoch p epoch
                          /\ period_next_epoch p epoch < two64.
  Proof.
    destruct bounds as (B1 & B2 & B3 & B4 & B5 & B6 & B7 & B8 & B9).
    destruct Hr as (Hc & Hf & Hq). fold q in Hq. destruct Hok as (Hs & He & H2).
    unfold period_end, period_next_epoch. fold q.
    rewrite <- N.mul_max_distr_r. repeat split; lia.
  Qed.

  (* the four components of the window on the wrapped arithmetic are those of the exact one *)
  Lemma window_exact :
    window_of true p epoch cur =
      {| w_first_epoch := N.max (period_first_epoch p epoch) (cur / spe p);
         w_first := spec_first p epoch cur;
         w_last := spec_last p epoch;
         w_until := period_next_epoch p epoch |}.
  Proof.
    destruct bounds as (B1 & B2 & B3 & B4 & B5 & B6 & B7 & B8 & B9).
    destruct period_end_ge_2 as (E1 & E2 & E3 & E4).
    destruct Hr as (Hc & Hf & Hq). fold q in Hq. destruct Hok as (Hs & He & H2).
    unfold window_of. fold q. rewrite first_epoch_exact, next_epoch_exact.
    unfold epoch_of_slot, first_slot_of_epoch, spec_first, spec_last, period_start.
    set (fe0 := period_first_epoch p epoch) in *.
    set (ne := period_next_epoch p epoch) in *.
    assert (Hfe0 : fe0 * spe p < two64).
    { unfold fe0, period_first_epoch. fold q. rewrite <- N.mul_max_distr_r. lia. }
    assert (Hsub1 : sub64 ne 1 = ne - 1) by (unfold sub64; destruct (N.leb_spec 1 ne); lia).
    rewrite Hsub1.
    assert (Hadd : add64 (ne - 1) 1 = ne).
    { unfold add64. rewrite wrap64_small by lia. lia. }
    rewrite Hadd.
    assert (Hls : sub64 (mul64 ne (spe p)) 2 = period_end p epoch - 2).
    { unfold mul64, period_end. fold ne. unfold period_end in E1, E2. fold ne in E1, E2.
      rewrite wrap64_small by lia. unfold sub64. destruct (N.leb_spec 2 (ne * spe p)); lia. }
    rewrite Hls.
    f_equal.
    - destruct (N.ltb_spec fe0 (cur / spe p)); lia.
    - destruct (N.ltb_spec fe0 (cur / spe p)) as [Hlt|Hge].
      + (* the period began before the current epoch: the window starts now *)
        unfold mul64. rewrite wrap64_small by lia.
        assert (fe0 * spe p <= cur / spe p * spe p) by (apply N.mul_le_mono_r; lia).
        destruct (N.ltb_spec 0 (cur / spe p * spe p));
          match goal with |- context [?a <? cur] => destruct (N.ltb_spec a cur) end; lia.
      + unfold mul64. rewrite wrap64_small by lia.
        destruct (N.ltb_spec 0 (fe0 * spe p));
          match goal with |- context [?a <? cur] => destruct (N.ltb_spec a cur) end; lia.
  Qed.
End Window.

(* -------------------------------------------------------------------------------------------- *)
(* the loop "for slot := firstSlot; slot <= lastSlot; slot++" *)

Lemma range_In : forall lo hi s, In s (range lo hi) <-> lo <= s <= hi.
Proof.
  intros lo hi s. unfold range. destruct (N.ltb_spec hi lo) as [H|H].
  - cbn. lia.
  - rewrite in_map_iff. split.
    + intros (i & <- & Hi). apply in_seq in Hi. lia.
    + intros Hs. exists (N.to_nat (s - lo)). split; [lia|]. apply in_seq. lia.
Qed.

Lemma range_NoDup : forall lo hi, NoDup (range lo hi).
Proof.
  intros lo hi. unfold range. destruct (hi <? lo); [constructor|].
  apply FinFun.Injective_map_NoDup; [|apply seq_NoDup].
  intros a b Hab. lia.
Qed.

Lemma NoDup_filter : forall (A : Type) (f : A -> bool) l, NoDup l -> NoDup (filter f l).
Proof.
  intros A f l H. induction H as [|x l Hx Hl IH]; cbn; [constructor|].
  destruct (f x); [constructor; [rewrite filter_In; tauto | exact IH] | exact IH].
Qed.

(* The slots scheduled by the loop, as the model computes them on wrapped arithmetic, are exactly
   the slots of the specification: from max(first-1, now) to last-1 of the fork-clamped period of
   [epoch], without the current slot when [notcur]; each of them once. *)
Lemma window_slots_spec : forall p epoch cur notcur s,
  chain_ok p -> in_range p epoch cur ->
  (In s (window_slots true p epoch cur notcur) <->
   spec_first p epoch cur <= s <= spec_last p epoch /\ (notcur = true -> s <> cur)).
Proof.
  intros p epoch cur notcur s Hok Hr. unfold window_slots.
  rewrite (window_exact p epoch cur Hok Hr). cbn [w_first w_last].
  rewrite filter_In, range_In.
  destruct notcur, (N.eqb_spec s cur); cbn; split; intros [H1 H2]; split; auto; try congruence; try lia;
    try (exfalso; apply H2; auto; fail).
Qed.

Lemma window_slots_NoDup : forall g p epoch cur notcur, NoDup (window_slots g p epoch cur notcur).
Proof. intros. unfold window_slots. apply NoDup_filter, range_NoDup. Qed.

(* No subtraction of the repaired window wraps, and no product or sum overflows: the three uint64
   subtractions (lastEpoch = next-1, lastSlot = first-after-slot-2, the guarded firstSlot--) have
   a minuend at least as large as the subtrahend. *)
Lemma window_no_wrap : forall p epoch cur,
  chain_ok p -> in_range p epoch cur ->
  let q := epoch / epp p in
  let ne := first_epoch_of_period p (add64 q 1) in
  let fe := w_first_epoch (window_of true p epoch cur) in
  1 <= ne /\ 2 <= first_slot_of_epoch p (add64 (sub64 ne 1) 1)
  /\ ne = period_next_epoch p epoch
  /\ first_slot_of_epoch p (add64 (sub64 ne 1) 1) = period_end p epoch
  /\ first_slot_of_epoch p fe = fe * spe p
  /\ (0 < first_slot_of_epoch p fe -> 1 <= first_slot_of_epoch p fe).
Proof.
  intros p epoch cur Hok Hr q ne fe.
  destruct (period_end_ge_2 p epoch cur Hok Hr) as (E1 & E2 & E3 & E4).
  destruct (bounds p epoch cur Hok Hr) as (B1 & B2 & B3 & B4 & B5 & B6 & B7 & B8 & B9).
  assert (Hne : ne = period_next_epoch p epoch) by (apply (next_epoch_exact p epoch cur Hok Hr)).
  assert (Hs : sub64 ne 1 = ne - 1) by (unfold sub64; destruct (N.leb_spec 1 ne); lia).
  assert (Ha : add64 (ne - 1) 1 = ne) by (unfold add64; rewrite wrap64_small by lia; lia).
  assert (Hm : first_slot_of_epoch p ne = period_end p epoch).
  { unfold first_slot_of_epoch, mul64, period_end. rewrite Hne. apply wrap64_small. exact E2. }
  rewrite Hs, Ha, Hm.
  assert (Hfe : first_slot_of_epoch p fe = fe * spe p).
  { unfold fe. rewrite (window_exact p epoch cur Hok Hr). cbn [w_first_epoch].
    unfold first_slot_of_epoch, mul64. apply wrap64_small.
    destruct Hr as (Hc & Hf & Hq). destruct Hok as (Hsp & He & H2).
    rewrite <- N.mul_max_distr_r. unfold period_first_epoch. rewrite <- N.mul_max_distr_r.
    fold q in B1, B5 |- *. lia. }
  repeat split; try lia; try assumption.
Qed.

(* Before the repair ("FirstSlotOfEpoch(firstEpoch) - 1" in uint64) the window differs from the
   repaired one exactly when the first slot is slot 0 ... *)
Lemma unguarded_same_unless_slot0 : forall p epoch cur,
  0 < first_slot_of_epoch p (w_first_epoch (window_of true p epoch cur)) ->
  first_slot_of_epoch p (w_first_epoch (window_of true p epoch cur)) < two64 ->
  window_of false p epoch cur = window_of true p epoch cur.
Proof.
  intros p epoch cur H0 H1. unfold window_of in *. cbn [w_first_epoch] in *.
  set (fe := if _ <? epoch_of_slot p cur then _ else _) in *.
  set (fs0 := first_slot_of_epoch p fe) in *.
  assert (Hs : sub64 fs0 1 = fs0 - 1) by (unfold sub64; destruct (N.leb_spec 1 fs0); lia).
  rewrite Hs. destruct (N.ltb_spec 0 fs0); [reflexivity | lia].
Qed.

(* ... and there it wraps to 2^64-1: a vouch that is in epoch 0 of a chain whose Altair fork is at
   genesis scheduled no message at all for the first period, whatever the parameters, while the
   specification (and the repaired code) has every slot from now to the one before the last. *)
Lemma unguarded_wraps_at_epoch0 : forall p epoch cur notcur,
  chain_ok p -> in_range p epoch cur ->
  fork p = 0 -> epoch < epp p -> cur < spe p ->
  w_first (window_of false p epoch cur) = two64 - 1
  /\ window_slots false p epoch cur notcur = []
  /\ (forall s, cur < s <= spe p * epp p - 2 -> In s (window_slots true p epoch cur notcur)).
Proof.
  intros p epoch cur notcur Hok Hr Hf He Hc.
  destruct (period_end_ge_2 p epoch cur Hok Hr) as (E1 & E2 & E3 & E4).
  assert (Hq : epoch / epp p = 0) by (apply N.div_small; exact He).
  assert (Hce : cur / spe p = 0) by (apply N.div_small; exact Hc).
  assert (Hpe : period_end p epoch = spe p * epp p).
  { unfold period_end, period_next_epoch. rewrite Hq, Hf. lia. }
  assert (Hw : w_first (window_of false p epoch cur) = two64 - 1 /\ w_last (window_of false p epoch cur) = spe p * epp p - 2).
  { pose proof (window_exact p epoch cur Hok Hr) as Hx.
    assert (Hl : w_last (window_of false p epoch cur) = w_last (window_of true p epoch cur)) by reflexivity.
    rewrite Hx in Hl. cbn [w_last] in Hl. unfold spec_last in Hl. rewrite Hpe in Hl.
    split; [|exact Hl].
    unfold window_of. cbn [w_first]. unfold epoch_of_slot, first_epoch_of_period, first_slot_of_epoch.
    rewrite Hq, Hce, Hf.
    assert (Hm0 : forall x, mul64 0 x = 0) by (intro x; unfold mul64; rewrite N.mul_0_l; reflexivity).
    rewrite !Hm0. change (0 <? 0) with false. cbv iota. rewrite ?Hm0.
    change (sub64 0 1) with (two64 - 1).
    destruct Hr as (Hcur & _). destruct (N.ltb_spec (two64 - 1) cur); [lia | reflexivity]. }
  destruct Hw as (Hw1 & Hw2).
  split; [exact Hw1|]. split.
  - unfold window_slots. rewrite Hw1, Hw2. unfold range.
    destruct (N.ltb_spec (spe p * epp p - 2) (two64 - 1)) as [_|Hge]; [reflexivity|].
    rewrite Hpe in E2. lia.
  - intros s Hs. apply (window_slots_spec p epoch cur notcur s Hok Hr).
    unfold spec_first, spec_last, period_start, period_first_epoch. rewrite Hpe, Hq, Hf.
    split; [lia|]. intros _. lia.
Qed.

(* -------------------------------------------------------------------------------------------- *)
(* scheduleSyncCommitteeMessages as a whole *)

(* the call reaches the scheduling loop *)
Definition ready (p : params) (i : sched_in) : Prop :=
  si_indices i <> [] /\ fork p <= epoch_of_slot p (si_cur i)
  /\ (exists d ds, si_duties i = Some (d :: ds)) /\ si_accts i <> None.

Lemma ready_dec : forall p i, ready p i \/ ~ ready p i.
Proof.
  intros p i. unfold ready.
  destruct (si_indices i) as [|x xs]; [right; intros (H & _); congruence|].
  destruct (N.leb_spec (fork p) (epoch_of_slot p (si_cur i))) as [Hf|Hf]; [|right; intros (_ & H & _); lia].
  destruct (si_duties i) as [[|d ds]|]; [right; intros (_ & _ & (d & ds & H) & _); congruence | |
                                          right; intros (_ & _ & (d & ds & H) & _); congruence].
  destruct (si_accts i); [|right; intros (_ & _ & _ & H); congruence].
  left. repeat split; try congruence; eauto.
Qed.

Lemma schedule_ready : forall p i, ready p i ->
  so_jobs (schedule p i) = map (fun s => (JPrepare, s, prepare_time p s))
                               (window_slots true p (si_epoch i) (si_cur i) (si_notcur i))
  /\ so_query (schedule p i) = Some (w_first_epoch (window_of true p (si_epoch i) (si_cur i)))
  /\ so_sub (schedule p i) = option_map (fun ds => (w_until (window_of true p (si_epoch i) (si_cur i)), ds)) (si_duties i).
Proof.
  intros p i (Hi & Hf & (d & ds & Hd) & Ha). unfold schedule.
  destruct (si_indices i) as [|x xs]; [congruence|].
  destruct (N.ltb_spec (epoch_of_slot p (si_cur i)) (fork p)) as [H|_]; [lia|].
  rewrite Hd. destruct (si_accts i); [|congruence]. cbn. auto.
Qed.

Lemma schedule_not_ready : forall p i, ~ ready p i -> so_jobs (schedule p i) = [] /\ so_sub (schedule p i) = None.
Proof.
  intros p i H. unfold schedule.
  destruct (si_indices i) as [|x xs] eqn:Ei; [cbn; auto|].
  destruct (N.ltb_spec (epoch_of_slot p (si_cur i)) (fork p)) as [Hlt|Hge]; [cbn; auto|].
  destruct (si_duties i) as [[|d ds]|] eqn:Ed; [cbn; auto | | cbn; auto].
  destruct (si_accts i) eqn:Ea; [|cbn; auto].
  exfalso. apply H. unfold ready. rewrite Ei, Ed, Ea. repeat split; try congruence; try lia. eauto.
Qed.

(* The job table after the call: one prepare job per slot of the specification's window, 1.5 slots
   ahead of the slot, and nothing else. *)
Lemma schedule_jobs_spec : forall p i k s t,
  chain_ok p -> in_range p (si_epoch i) (si_cur i) ->
  (In (k, s, t) (so_jobs (schedule p i)) <->
   ready p i /\ k = JPrepare /\ t = prepare_time p s
   /\ spec_first p (si_epoch i) (si_cur i) <= s <= spec_last p (si_epoch i)
   /\ (si_notcur i = true -> s <> si_cur i)).
Proof.
  intros p i k s t Hok Hr. split.
  - intros H.
    assert (Hrd : ready p i).
    { destruct (ready_dec p i) as [Hy|Hn]; [exact Hy|].
      destruct (schedule_not_ready p i Hn) as (Hj & _). rewrite Hj in H. destruct H. }
    split; [exact Hrd|].
    destruct (schedule_ready p i Hrd) as (Hj & _). rewrite Hj in H.
    apply in_map_iff in H. destruct H as (s' & Heq & Hs'). injection Heq as <- <- <-.
    apply (window_slots_spec p _ _ _ _ Hok Hr) in Hs'. tauto.
  - intros (Hrd & -> & -> & Hs & Hn).
    destruct (schedule_ready p i Hrd) as (Hj & _). rewrite Hj.
    apply in_map_iff. exists s. split; [reflexivity|].
    apply (window_slots_spec p _ _ _ _ Hok Hr). tauto.
Qed.

(* ============================================================================================ *)
(* 2. Lists: membership tests, the canonical sort, the duties map.                              *)

Lemma memN_In : forall x l, memN x l = true <-> In x l.
Proof. intros. unfold memN. apply memb_spec. apply N.eqb_eq. Qed.

Lemma memN_false : forall x l, memN x l = false <-> ~ In x l.
Proof. intros x l. rewrite <- memN_In. destruct (memN x l); split; congruence. Qed.

Lemma insert_by_perm : forall (A : Type) (key : A -> N) x l, Permutation (insert_by key x l) (x :: l).
Proof.
  intros A key x l. induction l as [|y l IH]; cbn; [reflexivity|].
  destruct (key x <=? key y); [reflexivity|].
  rewrite IH. apply perm_swap.
Qed.

Lemma sort_by_perm : forall (A : Type) (key : A -> N) l, Permutation (sort_by key l) l.
Proof.
  intros A key l. induction l as [|x l IH]; cbn; [reflexivity|].
  unfold sort_by in *. cbn. rewrite insert_by_perm. constructor. exact IH.
Qed.

Lemma sort_by_In : forall (A : Type) (key : A -> N) l x, In x (sort_by key l) <-> In x l.
Proof.
  intros. split; apply Permutation_in; [apply sort_by_perm | symmetry; apply sort_by_perm].
Qed.

Lemma sort_by_nil : forall (A : Type) (key : A -> N) l, sort_by key l = [] <-> l = [].
Proof.
  intros A key l. split; intro H.
  - apply Permutation_nil. rewrite <- H. apply sort_by_perm.
  - subst. reflexivity.
Qed.

(* the first entry for key k *)
Fixpoint get (k : N) (m : list duty) : option (list N) :=
  match m with
  | [] => None
  | (k', v) :: m' => if k' =? k then Some v else get k m'
  end.

Lemma get_put : forall k v m k', get k' (put k v m) = if k =? k' then Some v else get k' m.
Proof.
  intros k v m k'. induction m as [|[k0 v0] m IH]; cbn.
  - reflexivity.
  - destruct (N.eqb_spec k0 k) as [->|Hne]; cbn.
    + destruct (N.eqb_spec k k'); reflexivity.
    + rewrite IH. destruct (N.eqb_spec k0 k'), (N.eqb_spec k k'); try reflexivity. congruence.
Qed.

Lemma put_keys : forall k v m, NoDup (map fst m) -> NoDup (map fst (put k v m)) .
Proof.
  intros k v m. induction m as [|[k0 v0] m IH]; cbn; intro H.
  - constructor; [intros []|constructor].
  - inversion H as [|? ? Hn Hm]; subst.
    destruct (N.eqb_spec k0 k) as [->|Hne]; cbn.
    + constructor; assumption.
    + constructor; [|apply IH; exact Hm].
      intro Hin. apply Hn. clear - Hin Hne.
      induction m as [|[k1 v1] m IH]; cbn in *.
      * destruct Hin as [?|[]]. congruence.
      * destruct (N.eqb_spec k1 k) as [->|Hne1]; cbn in *; [destruct Hin; [congruence | auto]|].
        destruct Hin; auto.
Qed.

Lemma get_In : forall m k v, NoDup (map fst m) -> (In (k, v) m <-> get k m = Some v).
Proof.
  induction m as [|[k0 v0] m IH]; cbn; intros k v H.
  - split; [intros [] | discriminate].
  - inversion H as [|? ? Hn Hm]; subst.
    destruct (N.eqb_spec k0 k) as [->|Hne].
    + split.
      * intros [Heq|Hin]; [congruence|]. exfalso. apply Hn. apply (in_map fst) in Hin. exact Hin.
      * intros Heq. left. congruence.
    + rewrite <- (IH k v Hm). split; [intros [Heq|Hin]; [congruence | exact Hin] | auto].
Qed.

(* the committee positions of validator v according to the node's answer: those of its LAST entry *)
Fixpoint last_duty (ds : list duty) (v : N) : option (list N) :=
  match ds with
  | [] => None
  | d :: ds' => match last_duty ds' v with
                | Some x => Some x
                | None => if fst d =? v then Some (snd d) else None
                end
  end.

Lemma fold_put_get : forall ds m v,
  get v (fold_left (fun m d => put (fst d) (snd d) m) ds m) =
    match last_duty ds v with Some x => Some x | None => get v m end.
Proof.
  induction ds as [|d ds IH]; intros m v; cbn; [reflexivity|].
  rewrite IH. destruct (last_duty ds v); [reflexivity|]. rewrite get_put.
  destruct (fst d =? v); reflexivity.
Qed.

Lemma fold_put_keys : forall ds m, NoDup (map fst m) ->
  NoDup (map fst (fold_left (fun m d => put (fst d) (snd d) m) ds m)).
Proof.
  induction ds as [|d ds IH]; intros m H; cbn; [exact H|]. apply IH, put_keys, H.
Qed.

Lemma message_indices_NoDup : forall ds, NoDup (map fst (message_indices ds)).
Proof.
  intros ds. unfold message_indices.
  eapply Permutation_NoDup; [apply Permutation_map; symmetry; apply sort_by_perm|].
  apply fold_put_keys. constructor.
Qed.

(* messageIndices[v] = the positions of v's last duty entry *)
Lemma message_indices_In : forall ds v ps, In (v, ps) (message_indices ds) <-> last_duty ds v = Some ps.
Proof.
  intros ds v ps. unfold message_indices. rewrite sort_by_In.
  rewrite get_In by (apply fold_put_keys; constructor).
  rewrite fold_put_get. cbn. destruct (last_duty ds v); split; congruence.
Qed.

Lemma last_duty_some : forall ds v, (exists ps, last_duty ds v = Some ps) <-> In v (map fst ds).
Proof.
  induction ds as [|d ds IH]; intros v; cbn.
  - split; [intros [? H]; discriminate | intros []].
  - rewrite <- IH. destruct (last_duty ds v) as [x|].
    + split; eauto.
    + destruct (N.eqb_spec (fst d) v) as [->|Hne].
      * split; eauto.
      * split; [intros [? H]; discriminate | intros [H|[? H]]; congruence].
Qed.

Lemma members_keys : forall i v, In v (map fst (members i)) <->
  exists ds, si_duties i = Some ds /\ In v (map fst ds).
Proof.
  intros i v. unfold members. destruct (si_duties i) as [ds|].
  - split.
    + intros H. exists ds. split; [reflexivity|]. apply last_duty_some.
      apply in_map_iff in H. destruct H as ([v' ps] & <- & H). exists ps. apply message_indices_In. exact H.
    + intros (ds' & Heq & H). injection Heq as <-. apply last_duty_some in H. destruct H as (ps & H).
      apply message_indices_In in H. apply (in_map fst) in H. exact H.
  - cbn. split; [intros [] | intros (? & H & _); discriminate].
Qed.

Lemma members_NoDup : forall i, NoDup (map fst (members i)).
Proof. intros i. unfold members. destruct (si_duties i); [apply message_indices_NoDup | constructor]. Qed.

Lemma has_account_spec : forall i v, has_account i v = true <->
  exists a, si_accts i = Some a /\ In v a /\ In v (si_indices i).
Proof.
  intros i v. unfold has_account. destruct (si_accts i) as [a|].
  - rewrite andb_true_iff, !memN_In. split; [intros [H1 H2]; eauto | intros (a' & Heq & H1 & H2); injection Heq as <-; auto].
  - split; [discriminate | intros (? & H & _); discriminate].
Qed.

(* Before the Altair fork (in particular with the fork epoch at FAR_FUTURE_EPOCH = 2^64-1, outside
   [in_range]) the call does nothing at all: no request, no job, no subscription. *)
Lemma before_fork_nothing : forall p i,
  epoch_of_slot p (si_cur i) < fork p -> schedule p i = nothing None.
Proof.
  intros p i H. unfold schedule. destruct (si_indices i); [reflexivity|].
  destruct (N.ltb_spec (epoch_of_slot p (si_cur i)) (fork p)); [reflexivity | lia].
Qed.

(* Consecutive periods: the window of the next period (scheduled ahead of time) starts exactly one
   slot after the window of this period ends -- the slot before a period's last slot belongs to this
   period, the last slot itself to the next one -- so the windows tile the slot line: no slot
   without a message duty, none with two. *)
Lemma windows_tile : forall p epoch cur,
  chain_ok p -> cur < period_end p epoch ->
  period_start p (epoch + epp p) = period_end p epoch
  /\ spec_first p (epoch + epp p) cur = spec_last p epoch + 1.
Proof.
  intros p epoch cur Hok Hc. pose proof Hok as (Hs & He & H2).
  assert (Hq : (epoch + epp p) / epp p = epoch / epp p + 1).
  { replace (epoch + epp p) with (epoch + 1 * epp p) by lia. apply N.div_add. lia. }
  assert (Hst : period_start p (epoch + epp p) = period_end p epoch).
  { unfold period_start, period_end, period_first_epoch, period_next_epoch. rewrite Hq. reflexivity. }
  split; [exact Hst|].
  unfold spec_first, spec_last. rewrite Hst.
  assert (HE : 2 <= period_end p epoch).
  { unfold period_end, period_next_epoch.
    assert (spe p * epp p <= (epoch / epp p + 1) * epp p * spe p).
    { replace ((epoch / epp p + 1) * epp p * spe p) with (epoch / epp p * (epp p * spe p) + spe p * epp p) by ring.
      apply N.le_add_l. }
    assert ((epoch / epp p + 1) * epp p * spe p <= N.max ((epoch / epp p + 1) * epp p) (fork p) * spe p)
      by (apply N.mul_le_mono_r; lia).
    lia. }
  lia.
Qed.
