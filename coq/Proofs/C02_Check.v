(* C02 -- what a passing correspondence check buys: an observed outcome that [Check.C02.agree]
   accepts is the outcome of one of the states in which the model's script can end, so the
   theorems about ALL schedules of the job machine and ALL scripts apply to what the
   implementation was seen to do. *)
From Verif Require Import Lib.Base Lib.Sched Lib.Reach Model.C02_Scheduler Model.C02_Script.
From Verif Require Import Proofs.C02 Proofs.C02_Script Proofs.C02_ScriptExact Proofs.C02_ScriptMore Proofs.C02_ScriptCancel.
From Verif Require Import Check.C02.

Lemma list_eqb_N : forall a b, list_eqb N.eqb a b = true -> a = b.
Proof. intros a b H; apply (list_eqb_spec N.eqb N.eqb_eq); exact H. Qed.

(* what both kinds of match give *)
Lemma obs_match_final : forall ts ob, obs_match ts ob = true ->
    exists t, In t ts /\ running (t_core t) = ob_running ob
              /\ list_match cst_match (o_calls (ob_out ob)) (o_calls (outcome_of t)) = true
              /\ o_starts (ob_out ob) = o_starts (outcome_of t)
              /\ o_panic (ob_out ob) = o_panic (outcome_of t)
              /\ o_overlap (ob_out ob) = o_overlap (outcome_of t).
Proof.
  intros ts ob H. unfold obs_match in H. apply existsb_exists in H as [t [Ht H]].
  exists t. split; [exact Ht|]. apply andb_prop in H as [H Hr]. apply N.eqb_eq in Hr. split; [exact Hr|].
  destruct (ob_hung ob).
  - unfold hung_match in H. repeat (apply andb_prop in H as [H ?]).
    repeat match goal with
           | E : Bool.eqb _ _ = true |- _ => apply Bool.eqb_prop in E
           | E : (_ =? _) = true |- _ => apply N.eqb_eq in E
           | E : list_eqb N.eqb _ _ = true |- _ => apply list_eqb_N in E
           end.
    auto.
  - unfold outcome_match in H. repeat (apply andb_prop in H as [H ?]).
    repeat match goal with
           | E : Bool.eqb _ _ = true |- _ => apply Bool.eqb_prop in E
           | E : (_ =? _) = true |- _ => apply N.eqb_eq in E
           | E : list_eqb N.eqb _ _ = true |- _ => apply list_eqb_N in E
           end.
    auto.
Qed.

Lemma agree_timed : forall c sc os, agree c = true -> c_body c = Timed sc os ->
    forall ob, In ob os -> obs_match (finals sc) ob = true.
Proof.
  intros c sc os Ha Hb ob Hob. unfold agree in Ha. rewrite Hb in Ha.
  destruct os as [|o os']; [discriminate Ha|].
  rewrite forallb_forall in Ha. specialize (Ha ob Hob). unfold timed_ok in Ha. apply andb_prop in Ha as [Ha _]. exact Ha.
Qed.

Lemma checked_never_twice : forall c sc os, agree c = true -> c_body c = Timed sc os ->
    forall ob, In ob os ->
      o_panic (ob_out ob) = false /\ o_overlap (ob_out ob) <= 1
      /\ (sc_kind sc = OneOff -> (length (o_starts (ob_out ob)) <= 1)%nat).
Proof.
  intros c sc os Ha Hb ob Hob.
  destruct (obs_match_final _ _ (agree_timed c sc os Ha Hb ob Hob)) as [t [Ht [_ [_ [Hs [Hp Ho]]]]]].
  assert (Hm : In (outcome_of t) (outcomes sc)) by (unfold outcomes; apply in_map; exact Ht).
  destruct (script_never_twice sc _ Hm) as [H1 [H2 H3]].
  rewrite Hs, Hp, Ho. auto.
Qed.

(* statuses: an observed status matches the model's; RunJobIfExists / CancelJobIfExists are silent *)
Lemma list_match_nth : forall {X} (f : X -> X -> bool) a b i m,
    list_match f a b = true -> nth_error b i = Some m -> exists o, nth_error a i = Some o /\ f o m = true.
Proof.
  intros X f a; induction a as [|x a IH]; intros b i m H Hn; destruct b as [|y b]; cbn in H; try discriminate H.
  - destruct i; discriminate Hn.
  - apply andb_prop in H as [H1 H2]. destruct i.
    + cbn in Hn. injection Hn as <-. exists x. split; [reflexivity | exact H1].
    + cbn in Hn. cbn [nth_error]. eapply IH; eauto.
Qed.

Lemma cst_n_inj : forall a b, cst_n a = cst_n b -> a = b.
Proof.
  intros a b H.
  destruct a as [| | |c|[|]| |], b as [| | |d|[|]| |]; cbn in H; try reflexivity;
    try (destruct c; cbn in H; discriminate H); try (destruct d; cbn in H; discriminate H); try discriminate H.
  destruct c, d; cbn in H; try reflexivity; discriminate H.
Qed.

Lemma cst_match_ret_nil : forall o, cst_match o (Ret Nil) = true -> o = Ret Nil \/ o = Silent.
Proof.
  intros o H. destruct o as [| | |c|b| |]; try (vm_compute in H; discriminate H).
  - destruct c; try (vm_compute in H; discriminate H). left; reflexivity.
  - destruct b; vm_compute in H; discriminate H.
  - right; reflexivity.
Qed.

(* an observed call of kind k "may have succeeded": it returned nil or it is silent *)
Definition obs_no_success (sc : script) (k : ckind) (sts : list cst) : Prop :=
  forall i cl, nth_error (sc_calls sc) i = Some cl -> cl_kind cl = k ->
               nth_error sts i <> Some (Ret Nil) /\ nth_error sts i <> Some Silent.

Lemma final_statuses : forall t, o_calls (outcome_of t) = map final_status (t_calls t).
Proof. reflexivity. Qed.

Lemma final_status_ret_nil : forall s, s = Ret Nil -> final_status s = Ret Nil.
Proof. intros s ->; reflexivity. Qed.

(* exactly once for a checked observation: a one-off script whose time is inside the script, no
   CancelJob(-IfExists) seen to succeed or be silent, no context cancellation issued, jobFunc not
   in progress at the end: the implementation was seen to start jobFunc exactly once *)
Lemma checked_exactly_once : forall c sc os, agree c = true -> c_body c = Timed sc os ->
    sc_kind sc = OneOff -> sc_variant sc = Fixed -> sc_due sc <= sc_end sc ->
    forall ob, In ob os -> ob_running ob = 0 ->
      obs_no_success sc KCancel (o_calls (ob_out ob)) -> obs_no_success sc KCtx (o_calls (ob_out ob)) ->
      length (o_starts (ob_out ob)) = 1%nat.
Proof.
  intros c sc os Ha Hb Hk Hv Hdue ob Hob Hrun Hnc Hnx.
  destruct (obs_match_final _ _ (agree_timed c sc os Ha Hb ob Hob)) as [t [Ht [Hr [Hcalls [Hs _]]]]].
  rewrite Hs.
  assert (Hno : forall k, obs_no_success sc k (o_calls (ob_out ob)) -> no_ret_nil sc k (t_calls t)).
  { intros k Hobs i cl H1 H2 H3.
    assert (Hm : nth_error (o_calls (outcome_of t)) i = Some (Ret Nil)).
    { rewrite final_statuses, nth_error_map, H3. reflexivity. }
    destruct (list_match_nth _ _ _ _ _ Hcalls Hm) as [o [Ho Hmatch]].
    destruct (Hobs i cl H1 H2) as [Hn1 Hn2].
    destruct (cst_match_ret_nil o Hmatch) as [-> | ->]; [exact (Hn1 Ho) | exact (Hn2 Ho)]. }
  apply (script_exactly_once_obs sc Hk Hv t Ht Hdue (Hno _ Hnc) (Hno _ Hnx)).
  rewrite Hr; exact Hrun.
Qed.

Lemma list_match_nth_l : forall {X} (f : X -> X -> bool) a b i o,
    list_match f a b = true -> nth_error a i = Some o -> exists m, nth_error b i = Some m /\ f o m = true.
Proof.
  intros X f a; induction a as [|x a IH]; intros b i o H Hn; destruct b as [|y b]; cbn in H; try discriminate H.
  - destruct i; discriminate Hn.
  - apply andb_prop in H as [H1 H2]. destruct i.
    + cbn in Hn. injection Hn as <-. exists y. split; [reflexivity | exact H1].
    + cbn in Hn. cbn [nth_error]. eapply IH; eauto.
Qed.

Lemma final_status_nil_inv : forall s, final_status s = Ret Nil -> s = Ret Nil.
Proof. intros s H; destruct s; cbn in H; try discriminate H; exact H. Qed.

(* an observed [Ret Nil] at position i is a [Ret Nil] of the matched final state *)
Lemma observed_ret_nil : forall t calls i, list_match cst_match calls (o_calls (outcome_of t)) = true ->
    nth_error calls i = Some (Ret Nil) -> nth_error (t_calls t) i = Some (Ret Nil).
Proof.
  intros t calls i Hm Hn. destruct (list_match_nth_l _ _ _ _ _ Hm Hn) as [m [Hi Hc]].
  cbn [cst_match] in Hc. unfold cst_eqb in Hc. apply N.eqb_eq in Hc. apply cst_n_inj in Hc. subst m.
  rewrite final_statuses, nth_error_map in Hi.
  destruct (nth_error (t_calls t) i) as [s|]; [|discriminate Hi].
  cbn in Hi. injection Hi as Hi. apply final_status_nil_inv in Hi. subst s. reflexivity.
Qed.

Lemma obs_to_model_no_success : forall sc t ob k,
    list_match cst_match (o_calls (ob_out ob)) (o_calls (outcome_of t)) = true ->
    obs_no_success sc k (o_calls (ob_out ob)) -> no_ret_nil sc k (t_calls t).
Proof.
  intros sc t ob k Hcalls Hobs i cl H1 H2 H3.
  assert (Hm : nth_error (o_calls (outcome_of t)) i = Some (Ret Nil)).
  { rewrite final_statuses, nth_error_map, H3. reflexivity. }
  destruct (list_match_nth _ _ _ _ _ Hcalls Hm) as [o [Ho Hmatch]].
  destruct (Hobs i cl H1 H2) as [Hn1 Hn2].
  destruct (cst_match_ret_nil o Hmatch) as [-> | ->]; [exact (Hn1 Ho) | exact (Hn2 Ho)].
Qed.

(* "an early-run request that reports success means the job runs", for a checked observation *)
Lemma checked_run_success : forall c sc os, agree c = true -> c_body c = Timed sc os ->
    sc_kind sc = OneOff -> sc_variant sc = Fixed ->
    forall ob, In ob os -> ob_running ob = 0 ->
      (exists i cl, nth_error (sc_calls sc) i = Some cl /\ cl_kind cl = KRun
                    /\ nth_error (o_calls (ob_out ob)) i = Some (Ret Nil)) ->
      obs_no_success sc KCtx (o_calls (ob_out ob)) ->
      length (o_starts (ob_out ob)) = 1%nat.
Proof.
  intros c sc os Ha Hb Hk Hv ob Hob Hrun [i [cl [H1 [H2 H3]]]] Hnx.
  destruct (obs_match_final _ _ (agree_timed c sc os Ha Hb ob Hob)) as [t [Ht [Hr [Hcalls [Hs _]]]]].
  rewrite Hs.
  apply (script_run_success_runs sc Hk Hv t Ht).
  - exists i, cl. repeat split; try assumption. eapply observed_ret_nil; eauto.
  - eapply obs_to_model_no_success; eauto.
  - rewrite Hr; exact Hrun.
Qed.

(* "cancelled clearly before its time never runs", for a checked observation: a CancelJob call
   issued at an instant before the job's time was seen to return nil => no start was seen *)
Lemma checked_cancel_before : forall c sc os, agree c = true -> c_body c = Timed sc os ->
    sc_kind sc = OneOff -> sc_variant sc = Fixed ->
    forall ob, In ob os ->
      (exists i cl, nth_error (sc_calls sc) i = Some cl /\ cl_kind cl = KCancel /\ cl_at cl < sc_due sc
                    /\ nth_error (o_calls (ob_out ob)) i = Some (Ret Nil)) ->
      o_starts (ob_out ob) = [].
Proof.
  intros c sc os Ha Hb Hk Hv ob Hob [i [cl [H1 [H2 [H3 H4]]]]].
  destruct (obs_match_final _ _ (agree_timed c sc os Ha Hb ob Hob)) as [t [Ht [_ [Hcalls [Hs _]]]]].
  rewrite Hs.
  apply (script_cancelled_before_never_runs sc Hk Hv i cl H1 H2 H3 t Ht).
  eapply observed_ret_nil; eauto.
Qed.
