(* C02 -- what a passing correspondence check buys: an observed outcome that [Check.C02.agree]
   accepts is an element of the model's outcome set, so the theorems about ALL schedules of the
   job machine apply to what the implementation was seen to do. *)
From Verif Require Import Lib.Base Lib.Sched Lib.Reach Model.C02_Scheduler Model.C02_Script Proofs.C02 Proofs.C02_Script.
From Verif Require Import Check.C02.

Lemma list_eqb_N : forall a b, list_eqb N.eqb a b = true -> a = b.
Proof. intros a b H; apply (list_eqb_spec N.eqb N.eqb_eq); exact H. Qed.

Lemma obs_match_starts : forall ms ob, obs_match ms ob = true ->
    exists m, In m ms /\ o_starts (ob_out ob) = o_starts m /\ o_panic (ob_out ob) = o_panic m
              /\ o_overlap (ob_out ob) = o_overlap m.
Proof.
  intros ms ob H. unfold obs_match in H. apply existsb_exists in H as [m [Hm H]].
  exists m. split; [exact Hm|].
  destruct (ob_hung ob).
  - unfold hung_match in H. repeat (apply andb_prop in H as [H ?]).
    repeat match goal with
           | E : Bool.eqb _ _ = true |- _ => apply Bool.eqb_prop in E
           | E : (_ =? _) = true |- _ => apply N.eqb_eq in E
           | E : list_eqb N.eqb _ _ = true |- _ => apply list_eqb_N in E
           end.
    auto.
  - unfold outcome_match in H. repeat (apply andb_prop in H as [H ?]).
    repeat match goal with
           | E : Bool.eqb _ _ = true |- _ => apply Bool.eqb_prop in E
           | E : (_ =? _) = true |- _ => apply N.eqb_eq in E
           | E : list_eqb N.eqb _ _ = true |- _ => apply list_eqb_N in E
           end.
    auto.
Qed.

Lemma agree_timed : forall c sc os, agree c = true -> c_body c = Timed sc os ->
    forall ob, In ob os -> obs_match (outcomes sc) ob = true.
Proof.
  intros c sc os Ha Hb ob Hob. unfold agree in Ha. rewrite Hb in Ha.
  destruct os as [|o os']; [discriminate Ha|].
  rewrite forallb_forall in Ha. apply Ha; exact Hob.
Qed.

Lemma checked_never_twice : forall c sc os, agree c = true -> c_body c = Timed sc os ->
    forall ob, In ob os ->
      o_panic (ob_out ob) = false /\ o_overlap (ob_out ob) <= 1
      /\ (sc_kind sc = OneOff -> (length (o_starts (ob_out ob)) <= 1)%nat).
Proof.
  intros c sc os Ha Hb ob Hob.
  destruct (obs_match_starts _ _ (agree_timed c sc os Ha Hb ob Hob)) as [m [Hm [Hs [Hp Ho]]]].
  destruct (script_never_twice sc m Hm) as [H1 [H2 H3]].
  rewrite Hs, Hp, Ho. auto.
Qed.
