From Verif Require Import Lib.Base Model.C07_Strategies.
