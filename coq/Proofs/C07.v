(* C07 lemmas, part 1: the three collection loops compute the declarative specification of
   Model/C07_Spec.v, for every event list (induction over the list, one invariant per loop). *)
From Verif Require Import Lib.Base Model.C07_Strategies Model.C07_Spec.
From Coq Require Import ZifyBool ZifyN ZifyNat.
Open Scope N_scope.

(* ------------------------------------------------------------------------------------------- *)
(* Event lists *)

Section EventLemmas.
  Context {V : Type}.
  Implicit Types (es pre : list (event V)) (e : event V).

  Lemma resps_app : forall es es', resps (es ++ es') = resps es ++ resps es'.
  Proof.
    induction es as [|e es IH]; intro es'; [reflexivity|].
    destruct e; cbn [app resps]; rewrite IH; reflexivity.
  Qed.

  Lemma nresp_app : forall es es', nresp (es ++ es') = (nresp es + nresp es')%Z.
  Proof. intros; unfold nresp; rewrite resps_app, app_length; lia. Qed.

  Lemma nerr_app : forall es es', nerr (es ++ es') = (nerr es + nerr es')%Z.
  Proof. intros; unfold nerr; rewrite filter_app, app_length; lia. Qed.

  Lemma msgs_app : forall es es', msgs (es ++ es') = (msgs es + msgs es')%Z.
  Proof. intros; unfold msgs; rewrite nresp_app, nerr_app; lia. Qed.

  Lemma nresp_nonneg : forall es, (0 <= nresp es)%Z.
  Proof. intros; unfold nresp; lia. Qed.
  Lemma nerr_nonneg : forall es, (0 <= nerr es)%Z.
  Proof. intros; unfold nerr; lia. Qed.

  Lemma nresp_snoc : forall es e, nresp (es ++ [e]) = (nresp es + (if is_resp e then 1 else 0))%Z.
  Proof. intros es e. rewrite nresp_app. unfold nresp. destruct e; reflexivity. Qed.
  Lemma nerr_snoc : forall es e, nerr (es ++ [e]) = (nerr es + (if is_err e then 1 else 0))%Z.
  Proof. intros es e. rewrite nerr_app. unfold nerr. destruct e; reflexivity. Qed.

  Lemma nresp_zero_iff : forall es, nresp es = 0%Z <-> existsb is_resp es = false.
  Proof.
    induction es as [|e es IH]; [cbn; tauto|].
    destruct e; cbn [existsb is_resp orb]; unfold nresp in *; cbn [resps length]; try exact IH.
    split; [lia | discriminate].
  Qed.

  Lemma in_resps : forall es v, In v (resps es) <-> exists p, In (EResp p v) es.
  Proof.
    induction es as [|e es IH]; intro v.
    - cbn; split; [tauto | intros [p []]].
    - destruct e as [p w| | |]; cbn [resps In]; rewrite ?IH; split.
      + intros [->|[q H]]; [exists p; left; reflexivity | exists q; right; exact H].
      + intros [q [H|H]]; [injection H as _ ->; left; reflexivity | right; exists q; exact H].
      + intros [q H]; exists q; right; exact H.
      + intros [q [H|H]]; [discriminate | exists q; exact H].
      + intros [q H]; exists q; right; exact H.
      + intros [q [H|H]]; [discriminate | exists q; exact H].
      + intros [q H]; exists q; right; exact H.
      + intros [q [H|H]]; [discriminate | exists q; exact H].
  Qed.

  (* the first soft-timeout event decides *)
  Lemma soft_resp_app : forall pre es seen,
    soft_resp seen (pre ++ es) =
    if existsb is_soft pre then soft_resp seen pre
    else soft_resp (seen || existsb is_resp pre) es.
  Proof.
    induction pre as [|e pre IH]; intros es seen.
    - cbn. rewrite orb_false_r. reflexivity.
    - destruct e; cbn [app soft_resp existsb is_soft is_resp orb]; rewrite ?IH, ?orb_true_r; reflexivity.
  Qed.

  (* [soft_resp false] in words *)
  Lemma soft_resp_spec : forall es,
    soft_resp false es = true <->
    exists p1 p2, es = p1 ++ ESoft :: p2 /\ existsb is_soft p1 = false /\ existsb is_resp p1 = true.
  Proof.
    assert (G : forall es seen,
      soft_resp seen es = true <->
      exists p1 p2, es = p1 ++ ESoft :: p2 /\ existsb is_soft p1 = false /\ (seen || existsb is_resp p1 = true)).
    { induction es as [|e es IH]; intro seen.
      - cbn. split; [discriminate | intros [p1 [p2 [H _]]]; destruct p1; discriminate].
      - destruct e as [p w|p| |]; cbn [soft_resp].
        + rewrite IH. split.
          * intros [p1 [p2 [-> [H1 H2]]]]. exists (EResp p w :: p1), p2. cbn. rewrite orb_true_r. auto.
          * intros [p1 [p2 [H [H1 H2]]]]. destruct p1 as [|x p1]; [discriminate|]. injection H as <- ->.
            exists p1, p2. cbn in H1. auto.
        + rewrite IH. split.
          * intros [p1 [p2 [-> [H1 H2]]]]. exists (EErr p :: p1), p2. cbn. auto.
          * intros [p1 [p2 [H [H1 H2]]]]. destruct p1 as [|x p1]; [discriminate|]. injection H as <- ->.
            exists p1, p2. cbn in H1, H2. auto.
        + split.
          * intros ->. exists [], es. cbn. auto.
          * intros [p1 [p2 [H [H1 H2]]]]. destruct p1 as [|x p1].
            -- cbn in H2. rewrite orb_false_r in H2. exact H2.
            -- injection H as <- ->. cbn in H1. discriminate.
        + rewrite IH. split.
          * intros [p1 [p2 [-> [H1 H2]]]]. exists (EHard :: p1), p2. cbn. auto.
          * intros [p1 [p2 [H [H1 H2]]]]. destruct p1 as [|x p1]; [discriminate|]. injection H as <- ->.
            exists p1, p2. cbn in H1, H2. auto. }
    intro es. rewrite G. cbn. reflexivity.
  Qed.
End EventLemmas.

(* ------------------------------------------------------------------------------------------- *)
(* The consumed prefix *)

Section ConsumedLemmas.
  Context {E : Type} (stop : list E -> bool).

  Lemma consumed_from_stop : forall es pre, stop pre = true -> consumed_from stop pre es = pre.
  Proof. intros [|e es] pre H; cbn; [reflexivity | rewrite H; reflexivity]. Qed.

  (* it is a prefix; no strictly shorter prefix stops; and it stops unless everything was consumed *)
  Lemma consumed_from_spec : forall es pre,
    exists c rest, consumed_from stop pre es = pre ++ c /\ es = c ++ rest
                   /\ (forall c1 c2, c = c1 ++ c2 -> c2 <> [] -> stop (pre ++ c1) = false)
                   /\ (stop (pre ++ c) = true \/ rest = []).
  Proof.
    induction es as [|e es IH]; intro pre.
    - exists [], []. cbn. rewrite app_nil_r. repeat split; auto.
      intros c1 c2 H Hn. destruct c1, c2; try discriminate. congruence.
    - cbn [consumed_from]. destruct (stop pre) eqn:Es.
      + exists [], (e :: es). rewrite app_nil_r. repeat split; auto.
        intros c1 c2 H Hn. destruct c1, c2; try discriminate. congruence.
      + destruct (IH (pre ++ [e])) as [c [rest [H1 [H2 [H3 H4]]]]].
        exists (e :: c), rest. rewrite H1, <- app_assoc. cbn [app]. repeat split.
        * rewrite H2; reflexivity.
        * intros c1 c2 H Hn. destruct c1 as [|x c1].
          -- rewrite app_nil_r. exact Es.
          -- cbn in H. injection H as <- ->.
             specialize (H3 c1 c2 eq_refl Hn). rewrite <- app_assoc in H3. exact H3.
        * rewrite <- app_assoc in H4. exact H4.
  Qed.

  Lemma consumed_spec : forall es,
    exists rest, es = consumed stop es ++ rest
                 /\ (forall c1 c2, consumed stop es = c1 ++ c2 -> c2 <> [] -> stop c1 = false)
                 /\ (stop (consumed stop es) = true \/ rest = []).
  Proof.
    intro es. destruct (consumed_from_spec es []) as [c [rest [H1 [H2 [H3 H4]]]]].
    cbn [app] in *. unfold consumed. rewrite H1. exists rest. auto.
  Qed.

  (* a list on which no proper prefix stops is consumed whole *)
  Lemma consumed_from_all : forall es pre,
    (forall c1 c2, es = c1 ++ c2 -> c2 <> [] -> stop (pre ++ c1) = false) ->
    consumed_from stop pre es = pre ++ es.
  Proof.
    induction es as [|e es IH]; intros pre H.
    - cbn. rewrite app_nil_r. reflexivity.
    - cbn [consumed_from]. rewrite <- (app_nil_r pre) at 1. rewrite (H [] (e :: es) eq_refl) by discriminate.
      rewrite IH.
      + rewrite <- app_assoc. reflexivity.
      + intros c1 c2 -> Hn. rewrite <- app_assoc. apply (H (e :: c1) c2 eq_refl Hn).
  Qed.

  (* if a prefix stops and no shorter one does, it is the consumed prefix *)
  Lemma consumed_unique : forall c rest,
    stop c = true -> (forall c1 c2, c = c1 ++ c2 -> c2 <> [] -> stop c1 = false) ->
    consumed stop (c ++ rest) = c.
  Proof.
    intros c rest Hs Hmin. unfold consumed.
    assert (G : forall c2 c1, c = c1 ++ c2 -> consumed_from stop c1 (c2 ++ rest) = c).
    { induction c2 as [|e c2 IH]; intros c1 Hc.
      - rewrite app_nil_r in Hc. subst c1. cbn. apply consumed_from_stop. exact Hs.
      - cbn [app consumed_from]. rewrite (Hmin c1 (e :: c2) Hc) by discriminate.
        apply IH. rewrite <- app_assoc. exact Hc. }
    apply (G c []). reflexivity.
  Qed.
End ConsumedLemmas.

(* ------------------------------------------------------------------------------------------- *)
(* Template 1 (bstep): refinement *)

Section BRefine.
  Context {V A : Type}.
  Variable acc : A -> V -> A.
  Variable early : A -> bool.
  Variable requests : Z.
  Hypothesis req_nonneg : (0 <= requests)%Z.
  Variable a0 : A.

  Notation bstep := (bstep acc early requests).
  Notation b_settle := (b_settle early requests).
  Notation stop := (b_stop acc early requests a0).

  Lemma bstep_done : forall s e, b_phase s = Done -> bstep s e = s.
  Proof. intros s e H. unfold C07_Strategies.bstep. rewrite H. reflexivity. Qed.

  Lemma brun_done : forall es s, b_phase s = Done -> fold_left bstep es s = s.
  Proof. induction es as [|e es IH]; intros s H; cbn; [reflexivity | rewrite bstep_done by exact H; apply IH; exact H]. Qed.

  (* a loop still running after having consumed [pre] *)
  Definition live (pre : list (event V)) (s : bst) : Prop :=
    stop pre = false /\ b_phase s <> Done /\ b_acc s = accf acc a0 pre
    /\ b_resp s = nresp pre /\ b_err s = nerr pre /\ b_to s = 0%Z
    /\ (b_phase s = L1 -> existsb is_soft pre = false /\ b_soft s = 0%Z)
    /\ (b_phase s = L2 -> existsb is_soft pre = true).

  Lemma stop_false : forall pre, stop pre = false ->
    (msgs pre < requests)%Z /\ early (accf acc a0 pre) = false /\ existsb is_hard pre = false /\ soft_resp false pre = false.
  Proof.
    intros pre H. unfold b_stop in H.
    apply orb_false_iff in H as [H H4]. apply orb_false_iff in H as [H H3]. apply orb_false_iff in H as [H1 H2].
    repeat split; auto. lia.
  Qed.

  Lemma accf_snoc_resp : forall pre p v, accf acc a0 (pre ++ [EResp p v]) = acc (accf acc a0 pre) v.
  Proof. intros. unfold accf. rewrite resps_app, fold_left_app. reflexivity. Qed.
  Lemma accf_snoc_other : forall pre e, is_resp e = false -> accf acc a0 (pre ++ [e]) = accf acc a0 pre.
  Proof. intros pre e H. unfold accf. rewrite resps_app. destruct e; try discriminate; cbn; rewrite app_nil_r; reflexivity. Qed.

  Lemma bstep_live : forall pre s e, live pre s ->
    (stop (pre ++ [e]) = false /\ live (pre ++ [e]) (bstep s e))
    \/ (stop (pre ++ [e]) = true /\ b_phase (bstep s e) = Done /\ b_acc (bstep s e) = accf acc a0 (pre ++ [e])).
  Proof.
    intros pre s e (Hstop & Hph & Hacc & Hr & He & Hto & H1 & H2).
    destruct (stop_false pre Hstop) as (Hm & Hea & Hh & Hsr).
    pose proof (nresp_nonneg pre) as Hrn. pose proof (nerr_nonneg pre) as Hen.
    unfold msgs in Hm.
    destruct s as [r er to so a ph]. cbn [b_phase b_acc b_resp b_err b_to b_soft] in *. subst r er to a.
    destruct ph; [| |congruence].
    - (* loop 1 *)
      destruct (H1 eq_refl) as [Hns ->]. clear H1 H2.
      destruct e as [p v|p| |].
      + (* response *)
        assert (Es : stop (pre ++ [EResp p v]) =
                     ((requests <=? nresp pre + 1 + nerr pre)%Z || early (acc (accf acc a0 pre) v))).
        { unfold b_stop. rewrite accf_snoc_resp, existsb_app, Hh, soft_resp_app, Hns. cbn [existsb is_hard soft_resp orb].
          unfold msgs. rewrite nresp_snoc, nerr_snoc. cbn [is_resp is_err].
          rewrite !orb_false_r. f_equal. f_equal. lia. }
        unfold C07_Strategies.bstep, C07_Strategies.b_settle, b_cond1, b_cond2, b_on_resp, b_set_phase.
        cbn [b_phase b_acc b_resp b_err b_to b_soft].
        destruct (early (acc (accf acc a0 pre) v)) eqn:Ee; rewrite ?andb_false_r, ?andb_true_r.
        * right. rewrite Es, orb_true_r. cbn. rewrite accf_snoc_resp. auto.
        * rewrite orb_false_r in Es.
          destruct (Z.eqb_spec (nresp pre + 1 + nerr pre + 0 + 0) requests) as [Q|Q]; cbn [negb].
          -- destruct (Z.eqb_spec (nresp pre + 1 + nerr pre + 0) requests) as [Q'|Q']; [|lia]. cbn [negb].
             right. rewrite Es. cbn. rewrite accf_snoc_resp. repeat split; auto. lia.
          -- left. assert (Es' : stop (pre ++ [EResp p v]) = false) by (rewrite Es; lia).
             split; [exact Es'|]. unfold live. cbn [b_phase b_acc b_resp b_err b_to b_soft].
             rewrite accf_snoc_resp, nresp_snoc, nerr_snoc, existsb_app, Hns. cbn.
             repeat split; auto; try lia; try discriminate.
      + (* error *)
        assert (Es : stop (pre ++ [EErr p]) = (requests <=? nresp pre + nerr pre + 1)%Z).
        { unfold b_stop. rewrite accf_snoc_other by reflexivity. rewrite Hea, existsb_app, Hh, soft_resp_app, Hns.
          cbn [existsb is_hard soft_resp orb]. unfold msgs. rewrite nresp_snoc, nerr_snoc.
          cbn [is_resp is_err]. rewrite !orb_false_r. f_equal. lia. }
        unfold C07_Strategies.bstep, C07_Strategies.b_settle, b_cond1, b_cond2, b_on_err, b_set_phase.
        cbn [b_phase b_acc b_resp b_err b_to b_soft]. rewrite Hea. rewrite ?andb_true_r.
        destruct (Z.eqb_spec (nresp pre + (nerr pre + 1) + 0 + 0) requests) as [Q|Q]; cbn [negb].
        * destruct (Z.eqb_spec (nresp pre + (nerr pre + 1) + 0) requests) as [Q'|Q']; [|lia]. cbn [negb].
          right. rewrite Es. cbn. rewrite accf_snoc_other by reflexivity. repeat split; auto. lia.
        * left. assert (Es' : stop (pre ++ [EErr p]) = false) by (rewrite Es; lia).
          split; [exact Es'|]. unfold live. cbn [b_phase b_acc b_resp b_err b_to b_soft].
          rewrite accf_snoc_other by reflexivity. rewrite nresp_snoc, nerr_snoc, existsb_app, Hns. cbn.
          repeat split; auto; try lia; try discriminate.
      + (* soft timeout *)
        assert (Es : stop (pre ++ [ESoft]) = negb (nresp pre =? 0)%Z).
        { unfold b_stop. rewrite accf_snoc_other by reflexivity. rewrite Hea, existsb_app, Hh, soft_resp_app, Hns.
          cbn [existsb is_hard soft_resp orb]. unfold msgs. rewrite nresp_snoc, nerr_snoc.
          cbn [is_resp is_err].
          replace (requests <=? nresp pre + 0 + (nerr pre + 0))%Z with false by lia. cbn [orb].
          destruct (existsb is_resp pre) eqn:Er.
          - destruct (Z.eqb_spec (nresp pre) 0) as [Q|Q]; [apply nresp_zero_iff in Q; congruence | reflexivity].
          - apply nresp_zero_iff in Er. rewrite Er. reflexivity. }
        unfold C07_Strategies.bstep, C07_Strategies.b_settle, b_cond1, b_cond2, b_on_soft, b_set_phase.
        cbn [b_phase b_acc b_resp b_err b_to b_soft]. rewrite Hea, ?andb_true_r.
        destruct (Z.ltb_spec 0 (nresp pre)) as [Q|Q].
        * match goal with |- context [negb (?x =? requests)%Z] => replace (x =? requests)%Z with true by lia end.
          cbn [negb].
          match goal with |- context [negb (?x =? requests)%Z] => replace (x =? requests)%Z with true by lia end.
          cbn [negb]. right. rewrite Es. cbn. rewrite accf_snoc_other by reflexivity. repeat split; auto. lia.
        * match goal with |- context [negb (?x =? requests)%Z] => replace (x =? requests)%Z with true by lia end.
          cbn [negb].
          match goal with |- context [negb (?x =? requests)%Z] => replace (x =? requests)%Z with false by lia end.
          cbn [negb]. left. assert (Es' : stop (pre ++ [ESoft]) = false) by (rewrite Es; lia).
          split; [exact Es'|]. unfold live. cbn [b_phase b_acc b_resp b_err b_to b_soft].
          rewrite accf_snoc_other by reflexivity. rewrite nresp_snoc, nerr_snoc, existsb_app. cbn. rewrite orb_true_r.
          repeat split; auto; try lia; try discriminate.
      + (* hard timeout while in loop 1 *)
        right. split.
        { unfold b_stop. rewrite existsb_app. cbn. rewrite !orb_true_r. reflexivity. }
        rewrite accf_snoc_other by reflexivity.
        unfold C07_Strategies.bstep, C07_Strategies.b_settle, b_cond1, b_cond2, b_on_soft, b_on_hard, b_set_phase.
        cbn [b_phase b_acc b_resp b_err b_to b_soft]. rewrite Hea, ?andb_true_r.
        destruct (Z.ltb_spec 0 (nresp pre)) as [Q|Q].
        * match goal with |- context [negb (?x =? requests)%Z] => replace (x =? requests)%Z with true by lia end.
          cbn [negb].
          match goal with |- context [negb (?x =? requests)%Z] => replace (x =? requests)%Z with true by lia end.
          cbn. auto.
        * match goal with |- context [negb (?x =? requests)%Z] => replace (x =? requests)%Z with true by lia end.
          cbn [negb].
          match goal with |- context [negb (?x =? requests)%Z] => replace (x =? requests)%Z with false by lia end.
          cbn [negb b_phase b_acc b_resp b_err b_to b_soft]. rewrite Hea, ?andb_true_r.
          match goal with |- context [negb (?x =? requests)%Z] => replace (x =? requests)%Z with true by lia end.
          cbn. auto.
    - (* loop 2 *)
      specialize (H2 eq_refl). clear H1.
      destruct e as [p v|p| |].
      + assert (Es : stop (pre ++ [EResp p v]) =
                     ((requests <=? nresp pre + 1 + nerr pre)%Z || early (acc (accf acc a0 pre) v))).
        { unfold b_stop. rewrite accf_snoc_resp, existsb_app, Hh, soft_resp_app, H2, Hsr. cbn [existsb is_hard orb].
          unfold msgs. rewrite nresp_snoc, nerr_snoc. cbn [is_resp is_err].
          rewrite !orb_false_r. f_equal. f_equal. lia. }
        unfold C07_Strategies.bstep, C07_Strategies.b_settle, b_cond1, b_cond2, b_on_resp, b_set_phase.
        cbn [b_phase b_acc b_resp b_err b_to b_soft].
        destruct (early (acc (accf acc a0 pre) v)) eqn:Ee; rewrite ?andb_false_r, ?andb_true_r.
        * right. rewrite Es, orb_true_r. cbn. rewrite accf_snoc_resp. auto.
        * rewrite orb_false_r in Es.
          destruct (Z.eqb_spec (nresp pre + 1 + nerr pre + 0) requests) as [Q|Q]; cbn [negb].
          -- right. rewrite Es. cbn. rewrite accf_snoc_resp. repeat split; auto. lia.
          -- left. assert (Es' : stop (pre ++ [EResp p v]) = false) by (rewrite Es; lia).
             split; [exact Es'|]. unfold live. cbn [b_phase b_acc b_resp b_err b_to b_soft].
             rewrite accf_snoc_resp, nresp_snoc, nerr_snoc, existsb_app, H2. cbn.
             repeat split; auto; try lia; try discriminate.
      + assert (Es : stop (pre ++ [EErr p]) = (requests <=? nresp pre + nerr pre + 1)%Z).
        { unfold b_stop. rewrite accf_snoc_other by reflexivity. rewrite Hea, existsb_app, Hh, soft_resp_app, H2, Hsr.
          cbn [existsb is_hard orb]. unfold msgs. rewrite nresp_snoc, nerr_snoc.
          cbn [is_resp is_err]. rewrite !orb_false_r. f_equal. lia. }
        unfold C07_Strategies.bstep, C07_Strategies.b_settle, b_cond1, b_cond2, b_on_err, b_set_phase.
        cbn [b_phase b_acc b_resp b_err b_to b_soft]. rewrite Hea. rewrite ?andb_true_r.
        destruct (Z.eqb_spec (nresp pre + (nerr pre + 1) + 0) requests) as [Q|Q]; cbn [negb].
        * right. rewrite Es. cbn. rewrite accf_snoc_other by reflexivity. repeat split; auto. lia.
        * left. assert (Es' : stop (pre ++ [EErr p]) = false) by (rewrite Es; lia).
          split; [exact Es'|]. unfold live. cbn [b_phase b_acc b_resp b_err b_to b_soft].
          rewrite accf_snoc_other by reflexivity. rewrite nresp_snoc, nerr_snoc, existsb_app, H2. cbn.
          repeat split; auto; try lia; try discriminate.
      + (* a soft-timeout event in loop 2 is not looked at *)
        left.
        assert (Es' : stop (pre ++ [ESoft]) = false).
        { unfold b_stop. rewrite accf_snoc_other by reflexivity. rewrite Hea, existsb_app, Hh, soft_resp_app, H2, Hsr.
          cbn [existsb is_hard orb]. unfold msgs. rewrite nresp_snoc, nerr_snoc.
          cbn [is_resp is_err]. lia. }
        split; [exact Es'|]. unfold C07_Strategies.bstep. cbn [b_phase].
        unfold live. cbn [b_phase b_acc b_resp b_err b_to b_soft].
        rewrite accf_snoc_other by reflexivity. rewrite nresp_snoc, nerr_snoc, existsb_app, H2. cbn.
        repeat split; auto; try lia; try discriminate.
      + right. split.
        { unfold b_stop. rewrite existsb_app. cbn. rewrite !orb_true_r. reflexivity. }
        rewrite accf_snoc_other by reflexivity.
        unfold C07_Strategies.bstep, C07_Strategies.b_settle, b_cond1, b_cond2, b_on_hard, b_set_phase.
        cbn [b_phase b_acc b_resp b_err b_to b_soft].
        match goal with |- context [negb (?x =? requests)%Z] => replace (x =? requests)%Z with true by lia end.
        cbn. auto.
  Qed.

  Lemma b_run_consumed : forall es pre s, live pre s ->
    let c := consumed_from stop pre es in
    b_acc (fold_left bstep es s) = accf acc a0 c
    /\ (b_phase (fold_left bstep es s) = Done <-> stop c = true).
  Proof.
    induction es as [|e es IH]; intros pre s Hl.
    - cbn. destruct Hl as (Hs & Hp & Ha & _). split; [exact Ha|]. rewrite Hs. split; [congruence | discriminate].
    - cbn [consumed_from fold_left]. destruct Hl as (Hs & Hl'). rewrite Hs.
      destruct (bstep_live pre s e (conj Hs Hl')) as [[Hs' Hl2] | (Hs' & Hp & Ha)].
      + apply IH. exact Hl2.
      + rewrite brun_done by exact Hp. rewrite consumed_from_stop by exact Hs'.
        split; [exact Ha|]. rewrite Hs', Hp. tauto.
  Qed.

  Lemma b_init_cases :
    (stop [] = false /\ live [] (b_init early requests a0))
    \/ (stop [] = true /\ b_phase (b_init early requests a0) = Done /\ b_acc (b_init early requests a0) = a0).
  Proof.
    unfold b_init, C07_Strategies.b_settle, b_cond1, b_cond2, b_set_phase, b_stop, accf, msgs, nresp, nerr.
    cbn [b_phase b_acc b_resp b_err b_to b_soft resps filter length fold_left existsb soft_resp].
    rewrite !orb_false_r. change (Z.of_nat 0 + Z.of_nat 0)%Z with 0%Z. cbn [Z.add].
    destruct (early a0) eqn:Ee; rewrite ?andb_false_r, ?andb_true_r, ?orb_true_r, ?orb_false_r.
    - right. cbn. auto.
    - destruct (Z.eqb_spec 0 requests) as [Q|Q]; cbn [negb].
      + right. cbn. repeat split; auto. lia.
      + left. assert (Hq : (requests <=? 0)%Z = false) by lia. split; [exact Hq|].
        unfold live, b_stop, accf, msgs, nresp, nerr.
        cbn [b_phase b_acc b_resp b_err b_to b_soft resps filter length fold_left existsb soft_resp].
        rewrite Ee. cbn. repeat split; auto; try discriminate. lia.
  Qed.

  (* THE REFINEMENT: the loop consumes exactly the shortest prefix on which [b_stop] holds, its
     accumulator is the fold over the responses of that prefix, and it has ended iff that prefix
     stops *)
  Theorem b_refines : forall es,
    let c := consumed stop es in
    b_acc (brun acc early requests a0 es) = accf acc a0 c
    /\ (b_phase (brun acc early requests a0 es) = Done <-> stop c = true).
  Proof.
    intro es. unfold brun, consumed.
    destruct b_init_cases as [[Hs Hl] | (Hs & Hp & Ha)].
    - apply b_run_consumed. exact Hl.
    - rewrite brun_done by exact Hp. rewrite consumed_from_stop by exact Hs.
      split; [exact Ha|]. rewrite Hs, Hp. tauto.
  Qed.

  (* once the hard-timeout event has been consumed the loop is over, and nothing after it is
     looked at *)
  Lemma b_hard_done : forall es1 es2,
    b_phase (brun acc early requests a0 (es1 ++ EHard :: es2)) = Done
    /\ brun acc early requests a0 (es1 ++ EHard :: es2) = brun acc early requests a0 (es1 ++ [EHard]).
  Proof.
    intros es1 es2.
    assert (Hd : b_phase (brun acc early requests a0 (es1 ++ [EHard])) = Done).
    { apply b_refines. destruct (consumed_spec stop (es1 ++ [EHard])) as [rest [H1 [_ [H3|H3]]]]; [exact H3|].
      subst rest. rewrite app_nil_r in H1. rewrite <- H1. unfold b_stop. rewrite existsb_app. cbn.
      rewrite !orb_true_r. reflexivity. }
    replace (es1 ++ EHard :: es2) with ((es1 ++ [EHard]) ++ es2) by (rewrite <- app_assoc; reflexivity).
    unfold brun in *. rewrite fold_left_app. rewrite brun_done by exact Hd. auto.
  Qed.
End BRefine.

(* ------------------------------------------------------------------------------------------- *)
(* Template 2 (mstep): refinement.  The soft timeout plays no part. *)

Section MRefine.
  Context {V A : Type}.
  Variable acc : A -> V -> A.
  Variable early : A -> bool.
  Variable requests : Z.
  Hypothesis req_nonneg : (0 <= requests)%Z.
  Variable a0 : A.

  Notation mstep := (mstep acc early requests).
  Notation stop := (m_stop acc early requests a0).

  Lemma mstep_done : forall s e, m_phase s = Done -> mstep s e = s.
  Proof. intros s e H. unfold C07_Strategies.mstep. rewrite H. reflexivity. Qed.

  Lemma mrun_done : forall es s, m_phase s = Done -> fold_left mstep es s = s.
  Proof. induction es as [|e es IH]; intros s H; cbn; [reflexivity | rewrite mstep_done by exact H; apply IH; exact H]. Qed.

  Definition mlive (pre : list (event V)) (s : mst) : Prop :=
    stop pre = false /\ m_phase s <> Done /\ m_acc s = accf acc a0 pre
    /\ m_resp s = nresp pre /\ m_err s = nerr pre.

  Lemma m_stop_false : forall pre, stop pre = false ->
    (msgs pre < requests)%Z /\ early (accf acc a0 pre) = false /\ existsb is_hard pre = false.
  Proof.
    intros pre H. unfold m_stop in H.
    apply orb_false_iff in H as [H H3]. apply orb_false_iff in H as [H1 H2].
    repeat split; auto. lia.
  Qed.

  Lemma mstep_live : forall pre s e, mlive pre s ->
    (stop (pre ++ [e]) = false /\ mlive (pre ++ [e]) (mstep s e))
    \/ (stop (pre ++ [e]) = true /\ m_phase (mstep s e) = Done /\ m_acc (mstep s e) = accf acc a0 (pre ++ [e])).
  Proof.
    intros pre s e (Hstop & Hph & Hacc & Hr & He).
    destruct (m_stop_false pre Hstop) as (Hm & Hea & Hh).
    pose proof (nresp_nonneg pre) as Hrn. pose proof (nerr_nonneg pre) as Hen.
    unfold msgs in Hm.
    destruct s as [r er a ph]. cbn [m_phase m_acc m_resp m_err] in *. subst r er a.
    assert (Hstep : forall ph', ph' <> Done ->
      (forall p v, let s' := m_settle early requests (mk_mst (nresp pre + 1) (nerr pre) (acc (accf acc a0 pre) v) ph') in
         (stop (pre ++ [EResp p v]) = false /\ mlive (pre ++ [EResp p v]) s')
         \/ (stop (pre ++ [EResp p v]) = true /\ m_phase s' = Done /\ m_acc s' = accf acc a0 (pre ++ [EResp p v])))
      /\ (forall p, let s' := m_settle early requests (mk_mst (nresp pre) (nerr pre + 1) (accf acc a0 pre) ph') in
         (stop (pre ++ [EErr p]) = false /\ mlive (pre ++ [EErr p]) s')
         \/ (stop (pre ++ [EErr p]) = true /\ m_phase s' = Done /\ m_acc s' = accf acc a0 (pre ++ [EErr p])))).
    { intros ph' Hph'. split.
      - intros p v s'. subst s'.
        assert (Es : stop (pre ++ [EResp p v]) =
                     ((requests <=? nresp pre + 1 + nerr pre)%Z || early (acc (accf acc a0 pre) v))).
        { unfold m_stop. rewrite (accf_snoc_resp acc a0), existsb_app, Hh. cbn [existsb is_hard orb].
          unfold msgs. rewrite nresp_snoc, nerr_snoc. cbn [is_resp is_err].
          rewrite !orb_false_r. f_equal. f_equal. lia. }
        unfold m_settle, m_cond. cbn [m_phase m_acc m_resp m_err].
        destruct (early (acc (accf acc a0 pre) v)) eqn:Ee; rewrite ?andb_false_r, ?andb_true_r.
        + right. rewrite Es, orb_true_r. rewrite (accf_snoc_resp acc a0). destruct ph'; cbn; auto; congruence.
        + rewrite orb_false_r in Es.
          destruct (Z.eqb_spec (nresp pre + 1 + nerr pre) requests) as [Q|Q]; cbn [negb].
          * right. rewrite Es. rewrite (accf_snoc_resp acc a0). destruct ph'; cbn; repeat split; auto; try lia; congruence.
          * left. assert (Es' : stop (pre ++ [EResp p v]) = false) by (rewrite Es; lia).
            split; [exact Es'|]. unfold mlive.
            rewrite (accf_snoc_resp acc a0), nresp_snoc, nerr_snoc. cbn [is_resp is_err].
            destruct ph'; cbn [m_phase m_acc m_resp m_err]; repeat split; auto; try lia; try discriminate; congruence.
      - intros p s'. subst s'.
        assert (Es : stop (pre ++ [EErr p]) = (requests <=? nresp pre + nerr pre + 1)%Z).
        { unfold m_stop. rewrite (accf_snoc_other acc a0) by reflexivity. rewrite Hea, existsb_app, Hh.
          cbn [existsb is_hard orb]. unfold msgs. rewrite nresp_snoc, nerr_snoc. cbn [is_resp is_err].
          rewrite !orb_false_r. f_equal. lia. }
        unfold m_settle, m_cond. cbn [m_phase m_acc m_resp m_err]. rewrite Hea, ?andb_true_r.
        destruct (Z.eqb_spec (nresp pre + (nerr pre + 1)) requests) as [Q|Q]; cbn [negb].
        + right. rewrite Es. rewrite (accf_snoc_other acc a0) by reflexivity.
          destruct ph'; cbn; repeat split; auto; try lia; congruence.
        + left. assert (Es' : stop (pre ++ [EErr p]) = false) by (rewrite Es; lia).
          split; [exact Es'|]. unfold mlive.
          rewrite (accf_snoc_other acc a0) by reflexivity. rewrite nresp_snoc, nerr_snoc. cbn [is_resp is_err].
          destruct ph'; cbn [m_phase m_acc m_resp m_err]; repeat split; auto; try lia; try discriminate; congruence. }
    assert (Hsoft : stop (pre ++ [ESoft]) = false).
    { unfold m_stop. rewrite (accf_snoc_other acc a0) by reflexivity. rewrite Hea, existsb_app, Hh.
      cbn [existsb is_hard orb]. unfold msgs. rewrite nresp_snoc, nerr_snoc. cbn [is_resp is_err]. lia. }
    assert (Hhard : stop (pre ++ [EHard]) = true).
    { unfold m_stop. rewrite existsb_app. cbn. rewrite !orb_true_r. reflexivity. }
    destruct ph; [| |congruence].
    - destruct (Hstep L1 ltac:(discriminate)) as [HR HE].
      destruct e as [p v|p| |]; unfold C07_Strategies.mstep; cbn [m_phase m_acc m_resp m_err].
      + apply HR.
      + apply HE.
      + left. split; [exact Hsoft|].
        unfold m_settle, m_cond. cbn [m_phase m_acc m_resp m_err]. rewrite Hea, andb_true_r.
        replace (nresp pre + nerr pre =? requests)%Z with false by lia. cbn [negb].
        unfold mlive. rewrite (accf_snoc_other acc a0) by reflexivity. rewrite nresp_snoc, nerr_snoc.
        cbn [m_phase m_acc m_resp m_err is_resp is_err]. repeat split; auto; try lia; discriminate.
      + right. rewrite (accf_snoc_other acc a0) by reflexivity. auto.
    - destruct (Hstep L2 ltac:(discriminate)) as [HR HE].
      destruct e as [p v|p| |]; unfold C07_Strategies.mstep; cbn [m_phase m_acc m_resp m_err].
      + apply HR.
      + apply HE.
      + left. split; [exact Hsoft|].
        unfold mlive. rewrite (accf_snoc_other acc a0) by reflexivity. rewrite nresp_snoc, nerr_snoc.
        cbn [m_phase m_acc m_resp m_err is_resp is_err]. repeat split; auto; try lia; discriminate.
      + right. rewrite (accf_snoc_other acc a0) by reflexivity. auto.
  Qed.

  Lemma m_run_consumed : forall es pre s, mlive pre s ->
    let c := consumed_from stop pre es in
    m_acc (fold_left mstep es s) = accf acc a0 c
    /\ (m_phase (fold_left mstep es s) = Done <-> stop c = true).
  Proof.
    induction es as [|e es IH]; intros pre s Hl.
    - cbn. destruct Hl as (Hs & Hp & Ha & _). split; [exact Ha|]. rewrite Hs. split; [congruence | discriminate].
    - cbn [consumed_from fold_left]. destruct Hl as (Hs & Hl'). rewrite Hs.
      destruct (mstep_live pre s e (conj Hs Hl')) as [[Hs' Hl2] | (Hs' & Hp & Ha)].
      + apply IH. exact Hl2.
      + rewrite mrun_done by exact Hp. rewrite consumed_from_stop by exact Hs'.
        split; [exact Ha|]. rewrite Hs', Hp. tauto.
  Qed.

  Lemma m_init_cases :
    (stop [] = false /\ mlive [] (m_init early requests a0))
    \/ (stop [] = true /\ m_phase (m_init early requests a0) = Done /\ m_acc (m_init early requests a0) = a0).
  Proof.
    unfold m_init, m_settle, m_cond, m_stop, accf, msgs, nresp, nerr.
    cbn [m_phase m_acc m_resp m_err resps filter length fold_left existsb].
    rewrite !orb_false_r. change (Z.of_nat 0 + Z.of_nat 0)%Z with 0%Z. cbn [Z.add].
    destruct (early a0) eqn:Ee; rewrite ?andb_false_r, ?andb_true_r, ?orb_true_r, ?orb_false_r.
    - right. cbn. auto.
    - destruct (Z.eqb_spec 0 requests) as [Q|Q]; cbn [negb].
      + right. cbn. repeat split; auto. lia.
      + left. assert (Hq : (requests <=? 0)%Z = false) by lia. split; [exact Hq|].
        unfold mlive, m_stop, accf, msgs, nresp, nerr.
        cbn [m_phase m_acc m_resp m_err resps filter length fold_left existsb].
        rewrite Ee. cbn. repeat split; auto; try discriminate. lia.
  Qed.

  Theorem m_refines : forall es,
    let c := consumed stop es in
    m_acc (mrun acc early requests a0 es) = accf acc a0 c
    /\ (m_phase (mrun acc early requests a0 es) = Done <-> stop c = true).
  Proof.
    intro es. unfold mrun, consumed.
    destruct m_init_cases as [[Hs Hl] | (Hs & Hp & Ha)].
    - apply m_run_consumed. exact Hl.
    - rewrite mrun_done by exact Hp. rewrite consumed_from_stop by exact Hs.
      split; [exact Ha|]. rewrite Hs, Hp. tauto.
  Qed.

  Lemma m_hard_done : forall es1 es2,
    m_phase (mrun acc early requests a0 (es1 ++ EHard :: es2)) = Done
    /\ mrun acc early requests a0 (es1 ++ EHard :: es2) = mrun acc early requests a0 (es1 ++ [EHard]).
  Proof.
    intros es1 es2.
    assert (Hd : m_phase (mrun acc early requests a0 (es1 ++ [EHard])) = Done).
    { apply m_refines. destruct (consumed_spec stop (es1 ++ [EHard])) as [rest [H1 [_ [H3|H3]]]]; [exact H3|].
      subst rest. rewrite app_nil_r in H1. rewrite <- H1. unfold m_stop. rewrite existsb_app. cbn.
      rewrite !orb_true_r. reflexivity. }
    replace (es1 ++ EHard :: es2) with ((es1 ++ [EHard]) ++ es2) by (rewrite <- app_assoc; reflexivity).
    unfold mrun in *. rewrite fold_left_app. rewrite mrun_done by exact Hd. auto.
  Qed.
End MRefine.

(* ------------------------------------------------------------------------------------------- *)
(* Template 3 (fstep) *)

Section FRefine.
  Context {V : Type}.
  Implicit Types (es : list (event V)).

  Lemma frun_done : forall es (r : option V), fold_left fstep es (FDone r) = FDone r.
  Proof. induction es as [|e es IH]; intro r; cbn; [reflexivity | apply IH]. Qed.

  Lemma frun_wait : forall es, existsb is_resp es = false -> existsb is_hard es = false ->
    fold_left fstep es (@FWait V) = FWait.
  Proof.
    induction es as [|e es IH]; intros H1 H2; [reflexivity|].
    destruct e; cbn in *; try discriminate; apply IH; assumption.
  Qed.

  Lemma frun_cases : forall es,
    match frun es with
    | FWait => existsb is_resp es = false /\ existsb is_hard es = false
    | FDone (Some v) => exists es1 p es2, es = es1 ++ EResp p v :: es2
                                          /\ existsb is_resp es1 = false /\ existsb is_hard es1 = false
    | FDone None => exists es1 es2, es = es1 ++ EHard :: es2
                                    /\ existsb is_resp es1 = false /\ existsb is_hard es1 = false
    end.
  Proof.
    unfold frun. induction es as [|e es IH]; [cbn; auto|].
    destruct e as [p v|p| |]; cbn [fold_left fstep].
    - rewrite frun_done. exists [], p, es. auto.
    - destruct (fold_left fstep es FWait) as [|[w|]].
      + cbn. exact IH.
      + destruct IH as [es1 [q [es2 [-> [H1 H2]]]]]. exists (EErr p :: es1), q, es2. cbn. auto.
      + destruct IH as [es1 [es2 [-> [H1 H2]]]]. exists (EErr p :: es1), es2. cbn. auto.
    - destruct (fold_left fstep es FWait) as [|[w|]].
      + cbn. exact IH.
      + destruct IH as [es1 [q [es2 [-> [H1 H2]]]]]. exists (ESoft :: es1), q, es2. cbn. auto.
      + destruct IH as [es1 [es2 [-> [H1 H2]]]]. exists (ESoft :: es1), es2. cbn. auto.
    - rewrite frun_done. exists [], es. auto.
  Qed.

  Lemma frun_some_iff : forall es v,
    frun es = FDone (Some v) <->
    exists es1 p es2, es = es1 ++ EResp p v :: es2 /\ existsb is_resp es1 = false /\ existsb is_hard es1 = false.
  Proof.
    intros es v. split.
    - intro H. pose proof (frun_cases es) as C. rewrite H in C. exact C.
    - intros [es1 [p [es2 [-> [H1 H2]]]]]. unfold frun. rewrite fold_left_app, frun_wait by assumption.
      cbn. apply frun_done.
  Qed.

  Lemma frun_none_iff : forall es,
    frun es = FDone None <->
    exists es1 es2, es = es1 ++ EHard :: es2 /\ existsb is_resp es1 = false /\ existsb is_hard es1 = false.
  Proof.
    intros es. split.
    - intro H. pose proof (frun_cases es) as C. rewrite H in C. exact C.
    - intros [es1 [es2 [-> [H1 H2]]]]. unfold frun. rewrite fold_left_app, frun_wait by assumption.
      cbn. apply frun_done.
  Qed.

  Lemma frun_wait_iff : forall es,
    frun es = FWait <-> existsb is_resp es = false /\ existsb is_hard es = false.
  Proof.
    intros es. split.
    - intro H. pose proof (frun_cases es) as C. rewrite H in C. exact C.
    - intros [H1 H2]. apply frun_wait; assumption.
  Qed.
End FRefine.
