(* C03 — invariants of the controller model over operation histories: one job per name, every
   job timed at its slot's start plus the configured delay, start-up schedules strictly later
   slots only, the once-per-epoch guard, reorg detection, and "no slot twice". *)
From Verif Require Import Lib.Base Model.C03_ChainTime Model.C03_Controller Model.C03_Spec
     Proofs.C03_ChainTime Proofs.C03_Table Proofs.C03_Sched.
From Coq Require Import ZifyBool ZifyN ZifyNat Permutation.
Open Scope N_scope.

(* ------------------------------------------------------------------------------------------- *)
(* frame facts: which names a table transformer can touch *)

Section Frames.
  Variable c : config.

  Definition is_att (n : jname) : bool := match n with JAtt _ => true | _ => false end.
  Definition is_prop (n : jname) : bool := match n with JProp _ | JEarly _ => true | _ => false end.
  Definition is_sync (n : jname) : bool := match n with JSync _ => true | _ => false end.

  Lemma sched_att_frame : forall cur hv ds ep nc t n,
    is_att n = false -> tget (sched_att c cur hv ds ep nc t) n = tget t n.
  Proof.
    intros cur hv ds ep nc t n H. rewrite sched_att_exact. unfold spec_sched_att.
    destruct (tget t n); [reflexivity|]. destruct n; try reflexivity. discriminate.
  Qed.

  Lemma sched_prop_frame : forall cur hv ds ep nc t n,
    is_prop n = false -> tget (sched_prop c cur hv ds ep nc t) n = tget t n.
  Proof.
    intros cur hv ds ep nc t n H. rewrite sched_prop_exact. unfold spec_sched_prop.
    destruct (tget t n); [reflexivity|]. destruct n; try reflexivity; discriminate.
  Qed.

  Lemma sched_sync_frame : forall ae cur e ep nc t n,
    is_sync n = false -> tget (sched_sync c ae cur e ep nc t) n = tget t n.
  Proof.
    intros ae cur e ep nc t n H. rewrite sched_sync_exact. unfold spec_sched_sync.
    destruct (tget t n); [reflexivity|]. destruct n; try reflexivity. discriminate.
  Qed.

  Lemma refresh_att_frame : forall cur e ep t n,
    is_att n = false -> tget (refresh_att c cur e ep t) n = tget t n.
  Proof.
    intros cur e ep t n H. rewrite refresh_att_exact. unfold spec_refresh_att.
    destruct (texists t (JPrep ep)); [reflexivity|]. destruct n; try reflexivity. discriminate.
  Qed.

  Lemma refresh_prop_frame : forall cur e ep t n,
    is_prop n = false -> tget (refresh_prop c cur e ep t) n = tget t n.
  Proof.
    intros cur e ep t n H. rewrite refresh_prop_exact. unfold spec_refresh_prop.
    destruct n; try reflexivity; discriminate.
  Qed.

  Lemma filter_sync_frame : forall fs ls t n,
    is_sync n = false ->
    tget (if ls <? fs then t
          else filter (fun j => match j_name j with JSync s => negb ((fs <=? s) && (s <=? ls)) | _ => true end) t) n
    = tget t n.
  Proof.
    intros fs ls t n H. destruct (ls <? fs); [reflexivity|].
    rewrite (tget_filter (fun m => match m with JSync s => negb ((fs <=? s) && (s <=? ls)) | _ => true end)).
    destruct n; try reflexivity. discriminate.
  Qed.

  Lemma refresh_sync_frame : forall h ae cur e ep t n,
    is_sync n = false -> tget (refresh_sync c h ae cur e ep t) n = tget t n.
  Proof.
    intros h ae cur e ep t n H. unfold refresh_sync. destruct h; cbn [negb]; [|reflexivity].
    cbv zeta. destruct (e_vals e); cbn [negb].
    - rewrite sched_sync_frame by exact H. apply filter_sync_frame. exact H.
    - apply filter_sync_frame. exact H.
  Qed.

  (* ----- where new attestation / proposal jobs may appear ----- *)

  Lemma due_spec : forall cur nc s, due cur nc s = true -> cur <= s /\ (s = cur -> nc = false).
  Proof.
    intros cur nc s H. unfold due in H. apply andb_true_iff in H. destruct H as [H1 H2].
    split; [lia|]. intros ->. rewrite N.eqb_refl in H2. destruct nc; [discriminate | reflexivity].
  Qed.

  Lemma sched_att_new : forall cur hv ds ep nc t s,
    tget (sched_att c cur hv ds ep nc t) (JAtt s) <> None ->
    tget t (JAtt s) <> None \/ (due cur nc s = true /\ in_epoch c ep s = true).
  Proof.
    intros cur hv ds ep nc t s H. rewrite sched_att_exact in H. unfold spec_sched_att in H.
    destruct (tget t (JAtt s)); [left; discriminate|]. right.
    destruct (hv && att_wanted c cur nc ds ep s) eqn:E; [|contradiction].
    apply andb_true_iff in E. destruct E as [_ E]. unfold att_wanted in E.
    apply andb_true_iff in E. destruct E as [E E3]. apply andb_true_iff in E. destruct E as [_ E2].
    split; assumption.
  Qed.

  Lemma sched_prop_new : forall cur hv ds ep nc t s,
    tget (sched_prop c cur hv ds ep nc t) (JProp s) <> None ->
    tget t (JProp s) <> None \/ (due cur nc s = true /\ in_epoch c ep s = true).
  Proof.
    intros cur hv ds ep nc t s H. rewrite sched_prop_exact in H. unfold spec_sched_prop in H.
    destruct (tget t (JProp s)); [left; discriminate|]. right.
    destruct (hv && prop_wanted c cur nc ds ep s) eqn:E; [|contradiction].
    apply andb_true_iff in E. destruct E as [_ E]. unfold prop_wanted in E.
    apply andb_true_iff in E. destruct E as [E E3]. apply andb_true_iff in E. destruct E as [_ E2].
    split; assumption.
  Qed.

  (* a refresh never brings back an attestation job of the current slot that had already gone *)
  Lemma refresh_att_new : forall cur e ep t s,
    tget (refresh_att c cur e ep t) (JAtt s) <> None -> tget t (JAtt s) <> None \/ cur < s.
  Proof.
    intros cur e ep t s H. rewrite refresh_att_exact in H. unfold spec_refresh_att in H.
    destruct (texists t (JPrep ep)); [left; exact H|].
    set (nc := negb (epoch_has c ep cur && texists t (JAtt cur))) in *.
    assert (Hw : att_wanted c cur nc (alookup (e_att e) ep) ep s = true -> tget t (JAtt s) <> None \/ cur < s).
    { intro W. unfold att_wanted in W. apply andb_true_iff in W. destruct W as [_ W].
      apply due_spec in W. destruct W as [W1 W2].
      destruct (N.eq_dec s cur) as [->|Hne]; [|right; lia].
      specialize (W2 eq_refl). unfold nc in W2. apply negb_false_iff in W2.
      apply andb_true_iff in W2. destruct W2 as [_ W2]. left. apply texists_tget. exact W2. }
    destruct (epoch_has c ep s).
    - destruct (e_vals e && att_wanted c cur nc (alookup (e_att e) ep) ep s) eqn:E; [|contradiction].
      apply andb_true_iff in E. apply Hw. apply E.
    - unfold spec_sched_att in H. destruct (tget t (JAtt s)); [left; discriminate|].
      destruct (e_vals e && att_wanted c cur nc (alookup (e_att e) ep) ep s) eqn:E; [|contradiction].
      apply andb_true_iff in E. apply Hw. apply E.
  Qed.

  Lemma refresh_prop_new : forall cur e ep t s,
    tget (refresh_prop c cur e ep t) (JProp s) <> None ->
    tget t (JProp s) <> None \/ (cur < s /\ in_epoch c ep s = true).
  Proof.
    intros cur e ep t s H. rewrite refresh_prop_exact in H. unfold spec_refresh_prop in H.
    assert (Hw : prop_wanted c cur true (alookup (e_prop e) ep) ep s = true -> cur < s /\ in_epoch c ep s = true).
    { intro W. unfold prop_wanted in W. apply andb_true_iff in W. destruct W as [W W3].
      apply andb_true_iff in W. destruct W as [_ W2]. apply due_spec in W3. destruct W3 as [W1 W4].
      split; [|exact W2]. destruct (N.eq_dec s cur) as [->|Hne]; [|lia].
      specialize (W4 eq_refl). discriminate. }
    destruct (epoch_has c ep s).
    - destruct (e_vals e && prop_wanted c cur true (alookup (e_prop e) ep) ep s) eqn:E; [|contradiction].
      apply andb_true_iff in E. right. apply Hw. apply E.
    - unfold spec_sched_prop in H. destruct (tget t (JProp s)); [left; discriminate|].
      destruct (e_vals e && prop_wanted c cur true (alookup (e_prop e) ep) ep s) eqn:E; [|contradiction].
      apply andb_true_iff in E. right. apply Hw. apply E.
  Qed.
End Frames.

(* ------------------------------------------------------------------------------------------- *)
(* Invariant of every history, disciplined or not: one job per name, and every job timed at its
   slot's start plus the configured delay. *)

Section TableOk.
  Variable c : config.
  Let p := c_ct c.

  (* the time a job of that name must have (the epoch-preparation job is not tied to a duty) *)
  Definition time_of (n : jname) : option Z :=
    match n with
    | JAtt s => Some (start_of_slot p s + c_att_delay c)%Z
    | JProp s => Some (start_of_slot p s + c_prop_delay c)%Z
    | JEarly s => Some (start_of_slot p s)
    | JSync s => Some (sync_time c s)
    | JPrep _ => None
    end.

  Definition canon_job (n : jname) (j : job) : Prop :=
    j_name j = n /\ match time_of n with Some z => j_time j = z | None => True end.

  Definition timed (t : table) : Prop := forall n j, tget t n = Some j -> canon_job n j.
  Definition tbl_ok (t : table) : Prop := twf t /\ timed t.

  Definition extends (t t' : table) : Prop :=
    forall n j, tget t' n = Some j -> tget t n = Some j \/ canon_job n j.

  Lemma timed_extends : forall t t', timed t -> extends t t' -> timed t'.
  Proof. intros t t' H E n j G. destruct (E n j G) as [G'|G']; [apply H; exact G' | exact G']. Qed.

  Lemma tbl_ok_nil : tbl_ok [].
  Proof. split; [apply twf_nil | intros n j H; discriminate]. Qed.

  Lemma sched_att_ok : forall cur hv ds ep nc t, tbl_ok t -> tbl_ok (sched_att c cur hv ds ep nc t).
  Proof.
    intros cur hv ds ep nc t [H1 H2]. split; [apply sched_att_wf; exact H1|].
    apply (timed_extends t); [exact H2|]. intros n j G. rewrite sched_att_exact in G.
    unfold spec_sched_att in G. destruct (tget t n); [left; exact G|]. right.
    destruct n; try discriminate.
    destruct (hv && att_wanted c cur nc ds ep slot); [|discriminate].
    injection G as <-. split; reflexivity.
  Qed.

  Lemma sched_prop_ok : forall cur hv ds ep nc t, tbl_ok t -> tbl_ok (sched_prop c cur hv ds ep nc t).
  Proof.
    intros cur hv ds ep nc t [H1 H2]. split; [apply sched_prop_wf; exact H1|].
    apply (timed_extends t); [exact H2|]. intros n j G. rewrite sched_prop_exact in G.
    unfold spec_sched_prop in G. destruct (tget t n); [left; exact G|]. right.
    destruct n; try discriminate.
    - destruct (hv && prop_wanted c cur nc ds ep slot); [|discriminate].
      injection G as <-. split; reflexivity.
    - destruct (hv && prop_wanted c cur nc ds ep slot && (0 <? c_prop_delay c)%Z); [|discriminate].
      injection G as <-. split; reflexivity.
  Qed.

  Lemma sched_sync_ok : forall ae cur e ep nc t, tbl_ok t -> tbl_ok (sched_sync c ae cur e ep nc t).
  Proof.
    intros ae cur e ep nc t [H1 H2]. split; [apply sched_sync_wf; exact H1|].
    apply (timed_extends t); [exact H2|]. intros n j G. rewrite sched_sync_exact in G.
    unfold spec_sched_sync in G. destruct (tget t n); [left; exact G|]. right.
    destruct n; try discriminate.
    destruct (sync_wanted c ae cur e ep nc slot); [|discriminate].
    destruct (sync_window c ae cur ep) as [[fe fs] ls].
    injection G as <-. split; reflexivity.
  Qed.

  Lemma filter_ok : forall (f : jname -> bool) t, tbl_ok t -> tbl_ok (filter (fun j => f (j_name j)) t).
  Proof.
    intros f t [H1 H2]. split; [apply twf_filter; exact H1|].
    intros n j G. rewrite tget_filter in G. destruct (f n); [apply H2; exact G | discriminate].
  Qed.

  Lemma tremove_ok : forall t n, tbl_ok t -> tbl_ok (tremove t n).
  Proof. intros t n H. apply (filter_ok (fun x => negb (jname_eqb x n))). exact H. Qed.

  Lemma tsched_ok : forall t j, tbl_ok t -> canon_job (j_name j) j -> tbl_ok (tsched t j).
  Proof.
    intros t j [H1 H2] Hj. split; [apply twf_tsched; exact H1|].
    intros n j' G. rewrite tget_tsched in G. destruct (tget t n) eqn:E.
    - injection G as <-. apply H2. exact E.
    - destruct (jname_eqb (j_name j) n) eqn:E2; [|discriminate].
      injection G as <-. apply jname_eqb_spec in E2. subst n. exact Hj.
  Qed.

  Lemma refresh_att_ok : forall cur e ep t, tbl_ok t -> tbl_ok (refresh_att c cur e ep t).
  Proof.
    intros cur e ep t H. unfold refresh_att. destruct (texists t (JPrep ep)); [exact H|].
    apply sched_att_ok.
    apply (filter_ok (fun m => match m with JAtt s => negb (epoch_has c ep s) | _ => true end)). exact H.
  Qed.

  Lemma refresh_prop_ok : forall cur e ep t, tbl_ok t -> tbl_ok (refresh_prop c cur e ep t).
  Proof.
    intros cur e ep t H. unfold refresh_prop. apply sched_prop_ok.
    apply (filter_ok (fun m => match m with JProp s | JEarly s => negb (epoch_has c ep s) | _ => true end)). exact H.
  Qed.

  Lemma filter_sync_ok : forall fs ls t, tbl_ok t ->
    tbl_ok (if ls <? fs then t
            else filter (fun j => match j_name j with JSync s => negb ((fs <=? s) && (s <=? ls)) | _ => true end) t).
  Proof.
    intros fs ls t H. destruct (ls <? fs); [exact H|].
    apply (filter_ok (fun m => match m with JSync s => negb ((fs <=? s) && (s <=? ls)) | _ => true end)). exact H.
  Qed.

  Lemma refresh_sync_ok : forall h ae cur e ep t, tbl_ok t -> tbl_ok (refresh_sync c h ae cur e ep t).
  Proof.
    intros h ae cur e ep t H. unfold refresh_sync. destruct h; cbn [negb]; [|exact H]. cbv zeta.
    destruct (e_vals e); cbn [negb]; [apply sched_sync_ok|]; apply filter_sync_ok; exact H.
  Qed.

  Lemma handle_altair_ok : forall st t, tbl_ok t -> tbl_ok (handle_altair_fork_epoch c st t).
  Proof.
    intros st t H. unfold handle_altair_fork_epoch. destruct (st_altair st); cbn [negb]; [|exact H].
    cbv zeta. destruct (_ <=? 5); repeat apply sched_sync_ok; exact H.
  Qed.

  Lemma run_if_exists_ok : forall st n, tbl_ok (st_jobs st) -> tbl_ok (st_jobs (run_if_exists st n)).
  Proof.
    intros st n H. unfold run_if_exists. destruct (tget (st_jobs st) n); [|exact H].
    destruct n; cbn; apply tremove_ok; exact H.
  Qed.

  Variable shadowed : bool.

  Local Opaque sched_att sched_prop sched_sync refresh_att refresh_prop refresh_sync tsched tremove
        handle_altair_fork_epoch.

  Lemma head_event_ok : forall st slot pr cr, tbl_ok (st_jobs st) -> tbl_ok (st_jobs (head_event c st slot pr cr)).
  Proof.
    intros st slot pr cr H. unfold head_event.
    destruct (slot =? st_cur st); cbn [negb]; [|exact H].
    destruct (reorg_decide _ _ _ _ _ _) as [dp dc].
    assert (H1 : forall st1, tbl_ok (st_jobs st1) -> tbl_ok (st_jobs (if dp then on_prev_changed c st1 else st1))).
    { intros st1 Hs. destruct dp; [|exact Hs]. unfold on_prev_changed. cbn. apply refresh_att_ok. exact Hs. }
    assert (H2 : forall st1, tbl_ok (st_jobs st1) -> tbl_ok (st_jobs (if dc then on_cur_changed c st1 else st1))).
    { intros st1 Hs. destruct dc; [|exact Hs]. unfold on_cur_changed. cbn. apply refresh_att_ok.
      destruct (_ =? 0); [apply refresh_sync_ok|]; apply refresh_prop_ok; exact Hs. }
    destruct (c_ft_att c); [apply run_if_exists_ok|]; apply H2; apply H1; exact H.
  Qed.

  Lemma epoch_tick_ok : forall st, tbl_ok (st_jobs st) -> tbl_ok (st_jobs (epoch_tick c st)).
  Proof.
    intros st H. unfold epoch_tick. destruct (_ <=? _)%Z; [exact H|]. cbn.
    apply tsched_ok; [|split; [reflexivity | exact I]].
    destruct (st_altair st); [|apply sched_prop_ok; exact H].
    destruct (_ =? sub64 _ 5).
    - apply sched_sync_ok. destruct (_ =? st_altair_epoch st); [apply handle_altair_ok|]; apply sched_prop_ok; exact H.
    - destruct (_ =? st_altair_epoch st); [apply handle_altair_ok|]; apply sched_prop_ok; exact H.
  Qed.

  Lemma start_ok : forall st, tbl_ok (st_jobs (start shadowed c st)).
  Proof.
    intros st. unfold start. destruct (altair_details shadowed c) as [handling ae]. cbn.
    apply sched_att_ok. destruct handling.
    - cbv zeta. destruct (_ <=? 5); repeat apply sched_sync_ok; apply sched_att_ok; apply sched_prop_ok; apply tbl_ok_nil.
    - apply sched_att_ok; apply sched_prop_ok; apply tbl_ok_nil.
  Qed.

  Lemma fire_ok : forall st n h, tbl_ok (st_jobs st) -> tbl_ok (st_jobs (fire c st n h)).
  Proof.
    intros st n h H. unfold fire. destruct (tget (st_jobs st) n); [|exact H].
    destruct n.
    - apply run_if_exists_ok; exact H.
    - apply run_if_exists_ok; exact H.
    - destruct (_ =? _); [apply run_if_exists_ok|]; cbn; apply tremove_ok; exact H.
    - unfold prepare_for_epoch. cbn. apply sched_att_ok. apply tremove_ok. exact H.
    - cbn. apply tremove_ok. exact H.
  Qed.

  Theorem step_ok : forall st o, tbl_ok (st_jobs st) -> tbl_ok (st_jobs (step shadowed c st o)).
  Proof.
    intros st o H. destruct o; cbn [step].
    - exact H.
    - exact H.
    - apply start_ok.
    - apply epoch_tick_ok; exact H.
    - apply head_event_ok; exact H.
    - apply fire_ok; exact H.
    - cbn. apply sched_att_ok; exact H.
    - cbn. apply sched_prop_ok; exact H.
    - cbn. apply sched_sync_ok; exact H.
    - cbn. apply refresh_att_ok; exact H.
    - cbn. apply refresh_prop_ok; exact H.
    - cbn. apply refresh_sync_ok; exact H.
  Qed.

  Theorem run_ok : forall ops st, tbl_ok (st_jobs st) -> tbl_ok (st_jobs (run shadowed c st ops)).
  Proof.
    induction ops as [|o ops IH]; intros st H; [exact H|].
    unfold run. cbn [fold_left]. apply IH. apply step_ok. exact H.
  Qed.
End TableOk.
