(* C03 — invariants of the controller model over operation histories: one job per name, every
   job timed at its slot's start plus the configured delay, start-up schedules strictly later
   slots only, the once-per-epoch guard, reorg detection, and "no slot twice". *)
From Verif Require Import Lib.Base Model.C03_ChainTime Model.C03_Controller Model.C03_Spec
     Proofs.C03_ChainTime Proofs.C03_Table Proofs.C03_Sched.
From Coq Require Import ZifyBool ZifyN ZifyNat Permutation.
Open Scope N_scope.

(* ------------------------------------------------------------------------------------------- *)
(* frame facts: which names a table transformer can touch *)

Section Frames.
  Variable c : config.

  Definition is_att (n : jname) : bool := match n with JAtt _ => true | _ => false end.
  Definition is_prop (n : jname) : bool := match n with JProp _ | JEarly _ => true | _ => false end.
  Definition is_sync (n : jname) : bool := match n with JSync _ => true | _ => false end.

  Lemma sched_att_frame : forall cur hv ds ep nc t n,
    is_att n = false -> tget (sched_att c cur hv ds ep nc t) n = tget t n.
  Proof.
    intros cur hv ds ep nc t n H. rewrite sched_att_exact. unfold spec_sched_att.
    destruct (tget t n); [reflexivity|]. destruct n; try reflexivity. discriminate.
  Qed.

  Lemma sched_prop_frame : forall cur hv ds ep nc t n,
    is_prop n = false -> tget (sched_prop c cur hv ds ep nc t) n = tget t n.
  Proof.
    intros cur hv ds ep nc t n H. rewrite sched_prop_exact. unfold spec_sched_prop.
    destruct (tget t n); [reflexivity|]. destruct n; try reflexivity; discriminate.
  Qed.

  Lemma sched_sync_frame : forall ae cur e ep nc t n,
    is_sync n = false -> tget (sched_sync c ae cur e ep nc t) n = tget t n.
  Proof.
    intros ae cur e ep nc t n H. rewrite sched_sync_exact. unfold spec_sched_sync.
    destruct (tget t n); [reflexivity|]. destruct n; try reflexivity. discriminate.
  Qed.

  Lemma refresh_att_frame : forall cur e ep t n,
    is_att n = false -> tget (refresh_att c cur e ep t) n = tget t n.
  Proof.
    intros cur e ep t n H. rewrite refresh_att_exact. unfold spec_refresh_att.
    destruct (texists t (JPrep ep)); [reflexivity|]. destruct n; try reflexivity. discriminate.
  Qed.

  Lemma refresh_prop_frame : forall cur e ep t n,
    is_prop n = false -> tget (refresh_prop c cur e ep t) n = tget t n.
  Proof.
    intros cur e ep t n H. rewrite refresh_prop_exact. unfold spec_refresh_prop.
    destruct n; try reflexivity; discriminate.
  Qed.

  Lemma filter_sync_frame : forall fs ls t n,
    is_sync n = false ->
    tget (if ls <? fs then t
          else filter (fun j => match j_name j with JSync s => negb ((fs <=? s) && (s <=? ls)) | _ => true end) t) n
    = tget t n.
  Proof.
    intros fs ls t n H. destruct (ls <? fs); [reflexivity|].
    rewrite (tget_filter (fun m => match m with JSync s => negb ((fs <=? s) && (s <=? ls)) | _ => true end)).
    destruct n; try reflexivity. discriminate.
  Qed.

  Lemma refresh_sync_frame : forall h ae cur e ep t n,
    is_sync n = false -> tget (refresh_sync c h ae cur e ep t) n = tget t n.
  Proof.
    intros h ae cur e ep t n H. unfold refresh_sync. destruct h; cbn [negb]; [|reflexivity].
    cbv zeta. destruct (e_vals e); cbn [negb].
    - rewrite sched_sync_frame by exact H. apply filter_sync_frame. exact H.
    - apply filter_sync_frame. exact H.
  Qed.

  (* ----- where new attestation / proposal jobs may appear ----- *)

  Lemma due_spec : forall cur nc s, due cur nc s = true -> cur <= s /\ (s = cur -> nc = false).
  Proof.
    intros cur nc s H. unfold due in H. apply andb_true_iff in H. destruct H as [H1 H2].
    split; [lia|]. intros ->. rewrite N.eqb_refl in H2. destruct nc; [discriminate | reflexivity].
  Qed.

  Lemma sched_att_new : forall cur hv ds ep nc t s,
    tget (sched_att c cur hv ds ep nc t) (JAtt s) <> None ->
    tget t (JAtt s) <> None \/ (due cur nc s = true /\ in_epoch c ep s = true).
  Proof.
    intros cur hv ds ep nc t s H. rewrite sched_att_exact in H. unfold spec_sched_att in H.
    destruct (tget t (JAtt s)); [left; discriminate|]. right.
    destruct (hv && att_wanted c cur nc ds ep s) eqn:E; [|contradiction].
    apply andb_true_iff in E. destruct E as [_ E]. unfold att_wanted in E.
    apply andb_true_iff in E. destruct E as [E E3]. apply andb_true_iff in E. destruct E as [_ E2].
    split; assumption.
  Qed.

  Lemma sched_prop_new : forall cur hv ds ep nc t s,
    tget (sched_prop c cur hv ds ep nc t) (JProp s) <> None ->
    tget t (JProp s) <> None \/ (due cur nc s = true /\ in_epoch c ep s = true).
  Proof.
    intros cur hv ds ep nc t s H. rewrite sched_prop_exact in H. unfold spec_sched_prop in H.
    destruct (tget t (JProp s)); [left; discriminate|]. right.
    destruct (hv && prop_wanted c cur nc ds ep s) eqn:E; [|contradiction].
    apply andb_true_iff in E. destruct E as [_ E]. unfold prop_wanted in E.
    apply andb_true_iff in E. destruct E as [E E3]. apply andb_true_iff in E. destruct E as [_ E2].
    split; assumption.
  Qed.

  (* a refresh never brings back an attestation job of the current slot that had already gone *)
  Lemma refresh_att_new : forall cur e ep t s,
    tget (refresh_att c cur e ep t) (JAtt s) <> None -> tget t (JAtt s) <> None \/ cur < s.
  Proof.
    intros cur e ep t s H. rewrite refresh_att_exact in H. unfold spec_refresh_att in H.
    destruct (texists t (JPrep ep)); [left; exact H|].
    set (nc := negb (epoch_has c ep cur && texists t (JAtt cur))) in *.
    assert (Hw : att_wanted c cur nc (alookup (e_att e) ep) ep s = true -> tget t (JAtt s) <> None \/ cur < s).
    { intro W. unfold att_wanted in W. apply andb_true_iff in W. destruct W as [_ W].
      apply due_spec in W. destruct W as [W1 W2].
      destruct (N.eq_dec s cur) as [->|Hne]; [|right; lia].
      specialize (W2 eq_refl). unfold nc in W2. apply negb_false_iff in W2.
      apply andb_true_iff in W2. destruct W2 as [_ W2]. left. apply texists_tget. exact W2. }
    destruct (epoch_has c ep s).
    - destruct (e_vals e && att_wanted c cur nc (alookup (e_att e) ep) ep s) eqn:E; [|contradiction].
      apply andb_true_iff in E. apply Hw. apply E.
    - unfold spec_sched_att in H. destruct (tget t (JAtt s)); [left; discriminate|].
      destruct (e_vals e && att_wanted c cur nc (alookup (e_att e) ep) ep s) eqn:E; [|contradiction].
      apply andb_true_iff in E. apply Hw. apply E.
  Qed.

  Lemma refresh_prop_new : forall cur e ep t s,
    tget (refresh_prop c cur e ep t) (JProp s) <> None ->
    tget t (JProp s) <> None \/ (cur < s /\ in_epoch c ep s = true).
  Proof.
    intros cur e ep t s H. rewrite refresh_prop_exact in H. unfold spec_refresh_prop in H.
    assert (Hw : prop_wanted c cur true (alookup (e_prop e) ep) ep s = true -> cur < s /\ in_epoch c ep s = true).
    { intro W. unfold prop_wanted in W. apply andb_true_iff in W. destruct W as [W W3].
      apply andb_true_iff in W. destruct W as [_ W2]. apply due_spec in W3. destruct W3 as [W1 W4].
      split; [|exact W2]. destruct (N.eq_dec s cur) as [->|Hne]; [|lia].
      specialize (W4 eq_refl). discriminate. }
    destruct (epoch_has c ep s).
    - destruct (e_vals e && prop_wanted c cur true (alookup (e_prop e) ep) ep s) eqn:E; [|contradiction].
      apply andb_true_iff in E. right. apply Hw. apply E.
    - unfold spec_sched_prop in H. destruct (tget t (JProp s)); [left; discriminate|].
      destruct (e_vals e && prop_wanted c cur true (alookup (e_prop e) ep) ep s) eqn:E; [|contradiction].
      apply andb_true_iff in E. right. apply Hw. apply E.
  Qed.
End Frames.

(* ------------------------------------------------------------------------------------------- *)
(* Invariant of every history, disciplined or not: one job per name, and every job timed at its
   slot's start plus the configured delay. *)

Section TableOk.
  Variable c : config.
  Let p := c_ct c.

  Local Notation time_of := (C03_Spec.time_of c).
  Local Notation canon_job := (C03_Spec.canon_job c).
  Local Notation timed := (C03_Spec.timed c).
  Local Notation tbl_ok := (C03_Spec.tbl_ok c).

  Definition extends (t t' : table) : Prop :=
    forall n j, tget t' n = Some j -> tget t n = Some j \/ canon_job n j.

  Lemma timed_extends : forall t t', timed t -> extends t t' -> timed t'.
  Proof. intros t t' H E n j G. destruct (E n j G) as [G'|G']; [apply H; exact G' | exact G']. Qed.

  Lemma tbl_ok_nil : tbl_ok [].
  Proof. split; [apply twf_nil | intros n j H; discriminate]. Qed.

  Lemma sched_att_ok : forall cur hv ds ep nc t, tbl_ok t -> tbl_ok (sched_att c cur hv ds ep nc t).
  Proof.
    intros cur hv ds ep nc t [H1 H2]. split; [apply sched_att_wf; exact H1|].
    apply (timed_extends t); [exact H2|]. intros n j G. rewrite sched_att_exact in G.
    unfold spec_sched_att in G. destruct (tget t n); [left; exact G|]. right.
    destruct n; try discriminate.
    destruct (hv && att_wanted c cur nc ds ep slot); [|discriminate].
    injection G as <-. split; reflexivity.
  Qed.

  Lemma sched_prop_ok : forall cur hv ds ep nc t, tbl_ok t -> tbl_ok (sched_prop c cur hv ds ep nc t).
  Proof.
    intros cur hv ds ep nc t [H1 H2]. split; [apply sched_prop_wf; exact H1|].
    apply (timed_extends t); [exact H2|]. intros n j G. rewrite sched_prop_exact in G.
    unfold spec_sched_prop in G. destruct (tget t n); [left; exact G|]. right.
    destruct n; try discriminate.
    - destruct (hv && prop_wanted c cur nc ds ep slot); [|discriminate].
      injection G as <-. split; reflexivity.
    - destruct (hv && prop_wanted c cur nc ds ep slot && (0 <? c_prop_delay c)%Z); [|discriminate].
      injection G as <-. split; reflexivity.
  Qed.

  Lemma sched_sync_ok : forall ae cur e ep nc t, tbl_ok t -> tbl_ok (sched_sync c ae cur e ep nc t).
  Proof.
    intros ae cur e ep nc t [H1 H2]. split; [apply sched_sync_wf; exact H1|].
    apply (timed_extends t); [exact H2|]. intros n j G. rewrite sched_sync_exact in G.
    unfold spec_sched_sync in G. destruct (tget t n); [left; exact G|]. right.
    destruct n; try discriminate.
    destruct (sync_wanted c ae cur e ep nc slot); [|discriminate].
    destruct (sync_window c ae cur ep) as [[fe fs] ls].
    injection G as <-. split; reflexivity.
  Qed.

  Lemma filter_ok : forall (f : jname -> bool) t, tbl_ok t -> tbl_ok (filter (fun j => f (j_name j)) t).
  Proof.
    intros f t [H1 H2]. split; [apply twf_filter; exact H1|].
    intros n j G. rewrite tget_filter in G. destruct (f n); [apply H2; exact G | discriminate].
  Qed.

  Lemma tremove_ok : forall t n, tbl_ok t -> tbl_ok (tremove t n).
  Proof. intros t n H. apply (filter_ok (fun x => negb (jname_eqb x n))). exact H. Qed.

  Lemma tsched_ok : forall t j, tbl_ok t -> canon_job (j_name j) j -> tbl_ok (tsched t j).
  Proof.
    intros t j [H1 H2] Hj. split; [apply twf_tsched; exact H1|].
    intros n j' G. rewrite tget_tsched in G. destruct (tget t n) eqn:E.
    - injection G as <-. apply H2. exact E.
    - destruct (jname_eqb (j_name j) n) eqn:E2; [|discriminate].
      injection G as <-. apply jname_eqb_spec in E2. subst n. exact Hj.
  Qed.

  Lemma refresh_att_ok : forall cur e ep t, tbl_ok t -> tbl_ok (refresh_att c cur e ep t).
  Proof.
    intros cur e ep t H. unfold refresh_att. destruct (texists t (JPrep ep)); [exact H|].
    apply sched_att_ok.
    apply (filter_ok (fun m => match m with JAtt s => negb (epoch_has c ep s) | _ => true end)). exact H.
  Qed.

  Lemma refresh_prop_ok : forall cur e ep t, tbl_ok t -> tbl_ok (refresh_prop c cur e ep t).
  Proof.
    intros cur e ep t H. unfold refresh_prop. apply sched_prop_ok.
    apply (filter_ok (fun m => match m with JProp s | JEarly s => negb (epoch_has c ep s) | _ => true end)). exact H.
  Qed.

  Lemma filter_sync_ok : forall fs ls t, tbl_ok t ->
    tbl_ok (if ls <? fs then t
            else filter (fun j => match j_name j with JSync s => negb ((fs <=? s) && (s <=? ls)) | _ => true end) t).
  Proof.
    intros fs ls t H. destruct (ls <? fs); [exact H|].
    apply (filter_ok (fun m => match m with JSync s => negb ((fs <=? s) && (s <=? ls)) | _ => true end)). exact H.
  Qed.

  Lemma refresh_sync_ok : forall h ae cur e ep t, tbl_ok t -> tbl_ok (refresh_sync c h ae cur e ep t).
  Proof.
    intros h ae cur e ep t H. unfold refresh_sync. destruct h; cbn [negb]; [|exact H]. cbv zeta.
    destruct (e_vals e); cbn [negb]; [apply sched_sync_ok|]; apply filter_sync_ok; exact H.
  Qed.

  Lemma handle_altair_ok : forall st t, tbl_ok t -> tbl_ok (handle_altair_fork_epoch c st t).
  Proof.
    intros st t H. unfold handle_altair_fork_epoch. destruct (st_altair st); cbn [negb]; [|exact H].
    cbv zeta. destruct (_ <=? 5); repeat apply sched_sync_ok; exact H.
  Qed.

  Lemma run_if_exists_ok : forall st n, tbl_ok (st_jobs st) -> tbl_ok (st_jobs (run_if_exists st n)).
  Proof.
    intros st n H. unfold run_if_exists. destruct (tget (st_jobs st) n); [|exact H].
    destruct n; cbn; apply tremove_ok; exact H.
  Qed.

  Variable shadowed : bool.

  Local Opaque sched_att sched_prop sched_sync refresh_att refresh_prop refresh_sync tsched tremove
        handle_altair_fork_epoch.

  Lemma head_event_ok : forall st slot pr cr, tbl_ok (st_jobs st) -> tbl_ok (st_jobs (head_event c st slot pr cr)).
  Proof.
    intros st slot pr cr H. unfold head_event.
    destruct (slot =? st_cur st); cbn [negb]; [|exact H].
    destruct (reorg_decide _ _ _ _ _ _) as [dp dc].
    assert (H1 : forall st1, tbl_ok (st_jobs st1) -> tbl_ok (st_jobs (if dp then on_prev_changed c st1 else st1))).
    { intros st1 Hs. destruct dp; [|exact Hs]. unfold on_prev_changed. cbn. apply refresh_att_ok. exact Hs. }
    assert (H2 : forall st1, tbl_ok (st_jobs st1) -> tbl_ok (st_jobs (if dc then on_cur_changed c st1 else st1))).
    { intros st1 Hs. destruct dc; [|exact Hs]. unfold on_cur_changed. cbn. apply refresh_att_ok.
      destruct (_ =? 0); [apply refresh_sync_ok|]; apply refresh_prop_ok; exact Hs. }
    destruct (c_ft_att c); [apply run_if_exists_ok|]; apply H2; apply H1; exact H.
  Qed.

  Lemma epoch_tick_ok : forall st, tbl_ok (st_jobs st) -> tbl_ok (st_jobs (epoch_tick c st)).
  Proof.
    intros st H. unfold epoch_tick. destruct (_ <=? _)%Z; [exact H|]. cbn.
    apply tsched_ok; [|split; [reflexivity | exact I]].
    destruct (st_altair st); [|apply sched_prop_ok; exact H].
    destruct (_ =? sub64 _ 5).
    - apply sched_sync_ok. destruct (_ =? st_altair_epoch st); [apply handle_altair_ok|]; apply sched_prop_ok; exact H.
    - destruct (_ =? st_altair_epoch st); [apply handle_altair_ok|]; apply sched_prop_ok; exact H.
  Qed.

  Lemma start_ok : forall st, tbl_ok (st_jobs (start shadowed c st)).
  Proof.
    intros st. unfold start. destruct (altair_details shadowed c) as [handling ae]. cbn.
    apply sched_att_ok. destruct handling.
    - cbv zeta. destruct (_ <=? 5); repeat apply sched_sync_ok; apply sched_att_ok; apply sched_prop_ok; apply tbl_ok_nil.
    - apply sched_att_ok; apply sched_prop_ok; apply tbl_ok_nil.
  Qed.

  Lemma fire_ok : forall st n h, tbl_ok (st_jobs st) -> tbl_ok (st_jobs (fire c st n h)).
  Proof.
    intros st n h H. unfold fire. destruct (tget (st_jobs st) n); [|exact H].
    destruct n.
    - apply run_if_exists_ok; exact H.
    - apply run_if_exists_ok; exact H.
    - destruct (_ =? _); [apply run_if_exists_ok|]; cbn; apply tremove_ok; exact H.
    - unfold prepare_for_epoch. cbn. apply sched_att_ok. apply tremove_ok. exact H.
    - cbn. apply tremove_ok. exact H.
  Qed.

  Theorem step_ok : forall st o, tbl_ok (st_jobs st) -> tbl_ok (st_jobs (step shadowed c st o)).
  Proof.
    intros st o H. destruct o; cbn [step].
    - exact H.
    - exact H.
    - apply start_ok.
    - apply epoch_tick_ok; exact H.
    - apply head_event_ok; exact H.
    - apply fire_ok; exact H.
    - cbn. apply sched_att_ok; exact H.
    - cbn. apply sched_prop_ok; exact H.
    - cbn. apply sched_sync_ok; exact H.
    - cbn. apply refresh_att_ok; exact H.
    - cbn. apply refresh_prop_ok; exact H.
    - cbn. apply refresh_sync_ok; exact H.
  Qed.

  Theorem run_ok : forall ops st, tbl_ok (st_jobs st) -> tbl_ok (st_jobs (run shadowed c st ops)).
  Proof.
    induction ops as [|o ops IH]; intros st H; [exact H|].
    unfold run. cbn [fold_left]. apply IH. apply step_ok. exact H.
  Qed.
End TableOk.

(* ------------------------------------------------------------------------------------------- *)
(* "No slot is attested for or proposed for twice": the invariant behind it, over disciplined
   histories (the events a running Vouch can see: the clock moves forward, jobs run at or after
   their slot, the epoch ticker runs in the first slot of an epoch after the one the process
   started in, the preparation of an epoch runs before that epoch begins). *)

Section NoTwice.
  Variable shadowed : bool.
  Variable c : config.
  Let spe := ct_spe (c_ct c).
  Hypothesis Hspe : 0 < ct_spe (c_ct c).

  Local Notation bounded := (C03_Spec.bounded c).
  Local Notation op_ok := (C03_Spec.op_ok c).
  Local Notation ghost := (C03_Spec.ghost c).
  Local Notation hist_ok := (C03_Spec.hist_ok shadowed c).
  Local Notation bounded_b := (C03_Spec.bounded_b c).
  Local Notation op_ok_b := (C03_Spec.op_ok_b c).
  Local Notation hist_ok_b := (C03_Spec.hist_ok_b shadowed c).

  Definition att_step (cur : N) (t t' : table) : Prop :=
    forall s, tget t' (JAtt s) <> None -> tget t (JAtt s) <> None \/ cur < s.
  Definition prop_step (cur E : N) (t t' : table) : Prop :=
    forall s, tget t' (JProp s) <> None -> tget t (JProp s) <> None \/ (cur < s /\ s / ct_spe (c_ct c) <= E).

  Lemma att_step_refl : forall cur t, att_step cur t t.
  Proof. intros cur t s H. left. exact H. Qed.
  Lemma prop_step_refl : forall cur E t, prop_step cur E t t.
  Proof. intros cur E t s H. left. exact H. Qed.
  Lemma att_step_trans : forall cur t1 t2 t3, att_step cur t1 t2 -> att_step cur t2 t3 -> att_step cur t1 t3.
  Proof. intros cur t1 t2 t3 H1 H2 s H. destruct (H2 s H) as [H'|H']; [apply H1; exact H' | right; exact H']. Qed.
  Lemma prop_step_trans : forall cur E t1 t2 t3, prop_step cur E t1 t2 -> prop_step cur E t2 t3 -> prop_step cur E t1 t3.
  Proof. intros cur E t1 t2 t3 H1 H2 s H. destruct (H2 s H) as [H'|H']; [apply H1; exact H' | right; exact H']. Qed.
  Lemma att_step_same : forall cur t t', (forall s, tget t' (JAtt s) = tget t (JAtt s)) -> att_step cur t t'.
  Proof. intros cur t t' E s H. left. rewrite <- E. exact H. Qed.
  Lemma prop_step_same : forall cur E t t', (forall s, tget t' (JProp s) = tget t (JProp s)) -> prop_step cur E t t'.
  Proof. intros cur E t t' Eq s H. left. rewrite <- Eq. exact H. Qed.

  (* ----- arithmetic ----- *)
  Lemma bounded_first : forall cur k, bounded cur -> k <= 3 ->
    first_slot_of_epoch (c_ct c) (cur / ct_spe (c_ct c) + k) = (cur / ct_spe (c_ct c) + k) * ct_spe (c_ct c).
  Proof.
    intros cur k B K. unfold first_slot_of_epoch, mul64. apply wrap64_small.
    unfold C03_Spec.bounded in B. nia.
  Qed.

  Lemma bounded_add64 : forall cur k, bounded cur -> k <= 3 ->
    add64 (cur / ct_spe (c_ct c)) k = cur / ct_spe (c_ct c) + k.
  Proof.
    intros cur k B K. unfold add64. apply wrap64_small. unfold C03_Spec.bounded in B. nia.
  Qed.

  Lemma in_epoch_cur_epoch : forall cur s, bounded cur ->
    in_epoch c (cur / ct_spe (c_ct c)) s = true -> s / ct_spe (c_ct c) <= cur / ct_spe (c_ct c).
  Proof.
    intros cur s B H. unfold in_epoch in H.
    rewrite (bounded_add64 cur 1 B) in H by lia.
    rewrite (bounded_first cur 1 B) in H by lia.
    assert (Hs : s < (cur / ct_spe (c_ct c) + 1) * ct_spe (c_ct c)).
    { unfold sub64 in H. destruct (1 <=? (cur / ct_spe (c_ct c) + 1) * ct_spe (c_ct c)) eqn:E; [lia | nia]. }
    assert (s / ct_spe (c_ct c) < cur / ct_spe (c_ct c) + 1); [|lia].
    apply N.div_lt_upper_bound; [lia | nia].
  Qed.

  Lemma in_epoch_ge : forall e s, e * ct_spe (c_ct c) < two64 ->
    in_epoch c e s = true -> e * ct_spe (c_ct c) <= s.
  Proof.
    intros e s B H. unfold in_epoch in H. unfold first_slot_of_epoch, mul64 in H.
    rewrite (wrap64_small (e * ct_spe (c_ct c))) in H by exact B. lia.
  Qed.

  Lemma div_lt_mul : forall cur e, cur / ct_spe (c_ct c) < e -> cur < e * ct_spe (c_ct c).
  Proof.
    intros cur e H.
    pose proof (N.div_mod cur (ct_spe (c_ct c)) ltac:(lia)) as Hdm.
    pose proof (N.mod_lt cur (ct_spe (c_ct c)) ltac:(lia)) as Hlt. nia.
  Qed.

  (* ----- steps of the table transformers ----- *)
  Lemma tremove_sub : forall t m n, tget (tremove t m) n <> None -> tget t n <> None.
  Proof. intros t m n H. rewrite tget_tremove in H. destruct (jname_eqb m n); [contradiction | exact H]. Qed.

  Lemma sched_att_step_nc : forall cur hv ds ep t, att_step cur t (sched_att c cur hv ds ep true t).
  Proof.
    intros cur hv ds ep t s H. apply sched_att_new in H. destruct H as [H|[H _]]; [left; exact H|].
    right. apply due_spec in H. destruct H as [H1 H2].
    destruct (N.eq_dec s cur) as [->|Hne]; [specialize (H2 eq_refl); discriminate | lia].
  Qed.

  Lemma sched_att_step_future : forall cur hv ds ep nc t,
    ep * ct_spe (c_ct c) < two64 -> cur / ct_spe (c_ct c) < ep ->
    att_step cur t (sched_att c cur hv ds ep nc t).
  Proof.
    intros cur hv ds ep nc t B E s H. apply sched_att_new in H. destruct H as [H|[_ H]]; [left; exact H|].
    right. apply in_epoch_ge in H; [|exact B]. pose proof (div_lt_mul cur ep E). lia.
  Qed.

  Lemma sched_prop_step_nc : forall cur hv ds t, bounded cur ->
    prop_step cur (cur / ct_spe (c_ct c)) t (sched_prop c cur hv ds (cur / ct_spe (c_ct c)) true t).
  Proof.
    intros cur hv ds t B s H. apply sched_prop_new in H. destruct H as [H|[H H']]; [left; exact H|].
    right. apply due_spec in H. destruct H as [H1 H2]. split.
    - destruct (N.eq_dec s cur) as [->|Hne]; [specialize (H2 eq_refl); discriminate | lia].
    - apply in_epoch_cur_epoch; assumption.
  Qed.

  Lemma refresh_prop_step : forall cur e t, bounded cur ->
    prop_step cur (cur / ct_spe (c_ct c)) t (refresh_prop c cur e (cur / ct_spe (c_ct c)) t).
  Proof.
    intros cur e t B s H. apply refresh_prop_new in H. destruct H as [H|[H H']]; [left; exact H|].
    right. split; [exact H | apply in_epoch_cur_epoch; assumption].
  Qed.

  (* ----- the invariant ----- *)
  Record inv (g : N) (st : state) : Prop := {
    i_a1 : forall s, In s (att_slots st) -> s <= st_cur st;
    i_a2 : forall s, tget (st_jobs st) (JAtt s) <> None -> ~ In s (att_slots st);
    i_an : NoDup (att_slots st);
    i_p1 : forall s, In s (prop_slots st) -> s <= st_cur st;
    i_p2 : forall s, tget (st_jobs st) (JProp s) <> None -> ~ In s (prop_slots st);
    i_pn : NoDup (prop_slots st);
    i_p4 : forall s, tget (st_jobs st) (JProp s) <> None -> s / ct_spe (c_ct c) <= st_cur st / ct_spe (c_ct c);
    i_p3 : In (st_cur st) (prop_slots st) \/ tget (st_jobs st) (JProp (st_cur st)) <> None ->
           st_cur st <> (st_cur st / ct_spe (c_ct c)) * ct_spe (c_ct c) \/
           (Z.of_N (st_cur st / ct_spe (c_ct c)) <= st_tick st)%Z \/
           st_cur st / ct_spe (c_ct c) <= g;
    i_b : bounded (st_cur st)
  }.

  Lemma inv_update : forall g st st',
    inv g st -> st_cur st' = st_cur st -> st_att_log st' = st_att_log st -> st_prop_log st' = st_prop_log st ->
    st_tick st' = st_tick st ->
    att_step (st_cur st) (st_jobs st) (st_jobs st') ->
    prop_step (st_cur st) (st_cur st / ct_spe (c_ct c)) (st_jobs st) (st_jobs st') ->
    inv g st'.
  Proof.
    intros g st st' I Ec Ea Ep Et SA SP. destruct I as [a1 a2 an p1 p2 pn p4 p3 b].
    constructor; unfold att_slots, prop_slots in *; rewrite ?Ec, ?Ea, ?Ep, ?Et; try assumption.
    - intros s H. destruct (SA s H) as [H'|H']; [apply a2; exact H'|].
      intro Hin. apply a1 in Hin. lia.
    - intros s H. destruct (SP s H) as [H'|[H' _]]; [apply p2; exact H'|].
      intro Hin. apply p1 in Hin. lia.
    - intros s H. destruct (SP s H) as [H'|[_ H']]; [apply p4; exact H' | exact H'].
    - intros [H|H]; [apply p3; left; exact H|].
      destruct (SP _ H) as [H'|[H' _]]; [apply p3; right; exact H' | lia].
  Qed.

  Lemma NoDup_snocN : forall (l : list N) x, NoDup l -> ~ In x l -> NoDup (l ++ [x]).
  Proof. intros l x H1 H2. apply NoDup_snoc; assumption. Qed.

  Lemma inv_run_att : forall g st s, inv g st -> s <= st_cur st -> inv g (run_if_exists st (JAtt s)).
  Proof.
    intros g st s I Hs. unfold run_if_exists. destruct (tget (st_jobs st) (JAtt s)) as [j|] eqn:G; [|exact I].
    destruct I as [a1 a2 an p1 p2 pn p4 p3 b].
    assert (Hnot : ~ In s (att_slots st)) by (apply a2; rewrite G; discriminate).
    constructor; unfold att_slots, prop_slots in *; cbn; rewrite ?map_app; cbn; try assumption.
    - intros s' H. apply in_app_or in H. destruct H as [H|[<-|[]]]; [apply a1; exact H | exact Hs].
    - intros s' H. rewrite tget_tremove in H. cbn [jname_eqb] in H.
      destruct (s =? s') eqn:E; [contradiction|]. apply N.eqb_neq in E.
      intro Hin. apply in_app_or in Hin. destruct Hin as [Hin|[Hin|[]]]; [apply (a2 s' H); exact Hin | contradiction].
    - apply NoDup_snocN; assumption.
    - intros s' H. rewrite tget_tremove in H. cbn [jname_eqb] in H. apply p2. exact H.
    - intros s' H. rewrite tget_tremove in H. cbn [jname_eqb] in H. apply p4. exact H.
    - intros [H|H]; [apply p3; left; exact H|].
      rewrite tget_tremove in H. cbn [jname_eqb] in H. apply p3. right. exact H.
  Qed.

  Lemma inv_run_prop : forall g st s, inv g st -> s <= st_cur st -> inv g (run_if_exists st (JProp s)).
  Proof.
    intros g st s I Hs. unfold run_if_exists. destruct (tget (st_jobs st) (JProp s)) as [j|] eqn:G; [|exact I].
    pose proof I as I0. destruct I as [a1 a2 an p1 p2 pn p4 p3 b].
    assert (Hnot : ~ In s (prop_slots st)) by (apply p2; rewrite G; discriminate).
    constructor; unfold att_slots, prop_slots in *; cbn; rewrite ?map_app; cbn; try assumption.
    - intros s' H. rewrite tget_tremove in H. cbn [jname_eqb] in H. apply a2. exact H.
    - intros s' H. apply in_app_or in H. destruct H as [H|[<-|[]]]; [apply p1; exact H | exact Hs].
    - intros s' H. rewrite tget_tremove in H. cbn [jname_eqb] in H.
      destruct (s =? s') eqn:E; [contradiction|]. apply N.eqb_neq in E.
      intro Hin. apply in_app_or in Hin. destruct Hin as [Hin|[Hin|[]]]; [apply (p2 s' H); exact Hin | contradiction].
    - apply NoDup_snocN; assumption.
    - intros s' H. rewrite tget_tremove in H. cbn [jname_eqb] in H.
      destruct (s =? s'); [contradiction|]. apply p4. exact H.
    - intros [H|H].
      + apply in_app_or in H. destruct H as [H|[H|[]]]; [apply p3; left; exact H|].
        subst s. apply p3. right. rewrite G. discriminate.
      + rewrite tget_tremove in H. cbn [jname_eqb] in H.
        destruct (s =? st_cur st); [contradiction|]. apply p3. right. exact H.
  Qed.
  Fixpoint ghost_run (g : N) (st : state) (ops : list op) : N :=
    match ops with
    | [] => g
    | o :: ops' => ghost_run (ghost g st o) (step shadowed c st o) ops'
    end.

  Local Opaque sched_att sched_prop sched_sync refresh_att refresh_prop refresh_sync tsched tremove
        handle_altair_fork_epoch.

  Lemma handle_altair_frame : forall st t n, is_sync n = false -> tget (handle_altair_fork_epoch c st t) n = tget t n.
  Proof.
    Local Transparent handle_altair_fork_epoch.
    intros st t n H. unfold handle_altair_fork_epoch. destruct (st_altair st); cbn [negb]; [|reflexivity].
    cbv zeta. destruct (_ <=? 5); rewrite ?sched_sync_frame by exact H; reflexivity.
    Local Opaque handle_altair_fork_epoch.
  Qed.

  Lemma inv_advance : forall g st s, inv g st -> st_cur st <= s -> bounded s -> inv g (set_cur st s).
  Proof.
    intros g st s I Hs B. destruct I as [a1 a2 an p1 p2 pn p4 p3 b].
    constructor; unfold att_slots, prop_slots in *; cbn; try assumption.
    - intros s' H. apply a1 in H. lia.
    - intros s' H. apply p1 in H. lia.
    - intros s' H. apply p4 in H. pose proof (N.div_le_mono (st_cur st) s (ct_spe (c_ct c)) ltac:(lia) Hs). lia.
    - destruct (N.eq_dec s (st_cur st)) as [->|Hne]; [exact p3|].
      intros [H|H]; [apply p1 in H; lia|].
      left. intro E. apply p4 in H.
      pose proof (N.div_le_mono (st_cur st) s (ct_spe (c_ct c)) ltac:(lia) Hs) as Hm.
      assert (Eq : s / ct_spe (c_ct c) = st_cur st / ct_spe (c_ct c)) by lia.
      rewrite Eq in E.
      pose proof (N.mul_div_le (st_cur st) (ct_spe (c_ct c)) ltac:(lia)). nia.
  Qed.

  Lemma inv_on_prev : forall g st, inv g st -> inv g (on_prev_changed c st).
  Proof.
    intros g st I. unfold on_prev_changed.
    apply (inv_update g st); try reflexivity; [exact I | |]; cbn.
    - intros s H. apply refresh_att_new in H. exact H.
    - apply prop_step_same. intro s. apply refresh_att_frame. reflexivity.
  Qed.

  Lemma inv_on_cur : forall g st, inv g st -> inv g (on_cur_changed c st).
  Proof.
    intros g st I. unfold on_cur_changed.
    apply (inv_update g st); try reflexivity; [exact I | |]; cbn.
    - intros s H. apply refresh_att_new in H. destruct H as [H|H]; [|right; exact H]. left.
      destruct (_ =? 0).
      + rewrite refresh_sync_frame in H by reflexivity. rewrite refresh_prop_frame in H by reflexivity. exact H.
      + rewrite refresh_prop_frame in H by reflexivity. exact H.
    - intros s H. rewrite refresh_att_frame in H by reflexivity.
      destruct (_ =? 0).
      + rewrite refresh_sync_frame in H by reflexivity.
        apply (refresh_prop_step (st_cur st) (st_env st) (st_jobs st) (i_b _ _ I)). exact H.
      + apply (refresh_prop_step (st_cur st) (st_env st) (st_jobs st) (i_b _ _ I)). exact H.
  Qed.

  Lemma inv_head : forall g st slot pr cr, inv g st -> inv g (head_event c st slot pr cr).
  Proof.
    intros g st slot pr cr I. unfold head_event.
    destruct (slot =? st_cur st) eqn:Es; cbn [negb]; [|exact I]. apply N.eqb_eq in Es.
    destruct (reorg_decide _ _ _ _ _ _) as [dp dc].
    match goal with |- context [if dp then on_prev_changed c ?s0 else ?s0] => set (st0 := s0) end.
    assert (I0 : inv g st0).
    { apply (inv_update g st); try reflexivity; [exact I | apply att_step_refl | apply prop_step_refl]. }
    assert (I1 : inv g (if dp then on_prev_changed c st0 else st0)) by (destruct dp; [apply inv_on_prev|]; exact I0).
    set (st1 := if dp then on_prev_changed c st0 else st0) in *.
    assert (I2 : inv g (if dc then on_cur_changed c st1 else st1)) by (destruct dc; [apply inv_on_cur|]; exact I1).
    set (st2 := if dc then on_cur_changed c st1 else st1) in *.
    destruct (c_ft_att c); [|exact I2].
    apply inv_run_att; [exact I2|].
    assert (Ec : st_cur st2 = st_cur st).
    { unfold st2, st1, st0. destruct dc, dp; reflexivity. }
    rewrite Ec. lia.
  Qed.

  Lemma inv_tick : forall g st, inv g st ->
    g < st_cur st / ct_spe (c_ct c) -> st_cur st = (st_cur st / ct_spe (c_ct c)) * ct_spe (c_ct c) ->
    inv g (epoch_tick c st).
  Proof.
    intros g st I Hg Hfirst. unfold epoch_tick. unfold cur_epoch.
    destruct (Z.of_N (st_cur st / ct_spe (c_ct c)) <=? st_tick st)%Z eqn:Et; [exact I|].
    pose proof I as I0. destruct I as [a1 a2 an p1 p2 pn p4 p3 b].
    assert (Hfree : ~ In (st_cur st) (prop_slots st) /\ tget (st_jobs st) (JProp (st_cur st)) = None).
    { split.
      - intro H. destruct (p3 (or_introl H)) as [H'|[H'|H']]; [contradiction | lia | lia].
      - destruct (tget (st_jobs st) (JProp (st_cur st))) as [j|] eqn:G; [|reflexivity].
        exfalso. assert (H : Some j <> None) by discriminate.
        destruct (p3 (or_intror H)) as [H'|[H'|H']]; [contradiction | lia | lia]. }
    destruct Hfree as [Hf1 Hf2].
    match goal with |- inv g {| st_jobs := ?t3; st_cur := _; st_env := _; st_altair := _; st_altair_epoch := _;
                              st_last_epoch := _; st_prev_root := _; st_cur_root := _; st_tick := _;
                              st_att_log := _; st_prop_log := _ |} => set (T := t3) end.
    assert (TA : forall s, tget T (JAtt s) = tget (st_jobs st) (JAtt s)).
    { intro s. unfold T. rewrite tget_tsched. cbn [j_name jname_eqb].
      assert (forall t, (match tget t (JAtt s) with Some x => Some x | None => None end) = tget t (JAtt s))
        as Hm by (intro t; destruct (tget t (JAtt s)); reflexivity).
      rewrite Hm. destruct (st_altair st); [|apply sched_prop_frame; reflexivity].
      destruct (_ =? sub64 _ 5); [rewrite sched_sync_frame by reflexivity|];
        (destruct (_ =? st_altair_epoch st); [rewrite handle_altair_frame by reflexivity|]);
        apply sched_prop_frame; reflexivity. }
    assert (TP : forall s, tget T (JProp s) <> None ->
                           tget (st_jobs st) (JProp s) <> None \/ (st_cur st <= s /\ s / ct_spe (c_ct c) <= st_cur st / ct_spe (c_ct c))).
    { intros s H. unfold T in H. rewrite tget_tsched in H. cbn [j_name jname_eqb] in H.
      assert (H' : tget (sched_prop c (st_cur st) (e_vals (st_env st))
                          (alookup (e_prop (st_env st)) (st_cur st / ct_spe (c_ct c)))
                          (st_cur st / ct_spe (c_ct c)) false (st_jobs st)) (JProp s) <> None).
      { destruct (st_altair st).
        - destruct (_ =? sub64 _ 5); [rewrite sched_sync_frame in H by reflexivity|];
            (destruct (_ =? st_altair_epoch st); [rewrite handle_altair_frame in H by reflexivity|]);
            destruct (tget _ (JProp s)); try discriminate; contradiction.
        - destruct (tget _ (JProp s)); [discriminate | contradiction]. }
      apply sched_prop_new in H'. destruct H' as [H'|[H1 H2]]; [left; exact H'|].
      right. apply due_spec in H1. split; [apply H1 | apply in_epoch_cur_epoch; assumption]. }
    constructor; unfold att_slots, prop_slots in *; cbn; try assumption.
    - intros s H. rewrite TA in H. apply a2. exact H.
    - intros s H. destruct (TP s H) as [H'|[H1 H2]]; [apply p2; exact H'|].
      destruct (N.eq_dec s (st_cur st)) as [->|Hne]; [exact Hf1|].
      intro Hin. apply p1 in Hin. lia.
    - intros s H. destruct (TP s H) as [H'|[H1 H2]]; [apply p4; exact H' | exact H2].
    - intros _. right. left. lia.
  Qed.

  Lemma inv_start : forall g st, inv g st -> inv (st_cur st / ct_spe (c_ct c)) (start shadowed c st).
  Proof.
    intros g st I. unfold start. unfold cur_epoch.
    destruct (altair_details shadowed c) as [handling ae].
    pose proof I as I0. destruct I as [a1 a2 an p1 p2 pn p4 p3 b].
    match goal with |- inv _ {| st_jobs := ?t4; st_cur := _; st_env := _; st_altair := _; st_altair_epoch := _;
                              st_last_epoch := _; st_prev_root := _; st_cur_root := _; st_tick := _;
                              st_att_log := _; st_prop_log := _ |} => set (T := t4) end.
    set (T1 := sched_prop c (st_cur st) (e_vals (st_env st)) (alookup (e_prop (st_env st)) (st_cur st / ct_spe (c_ct c)))
                 (st_cur st / ct_spe (c_ct c)) true []) in *.
    set (T2 := sched_att c (st_cur st) (e_vals (st_env st)) (alookup (e_att (st_env st)) (st_cur st / ct_spe (c_ct c)))
                 (st_cur st / ct_spe (c_ct c)) true T1) in *.
    assert (TA : att_step (st_cur st) [] T).
    { unfold T. eapply att_step_trans; [|apply sched_att_step_nc].
      assert (A2 : att_step (st_cur st) [] T2).
      { unfold T2. eapply att_step_trans; [|apply sched_att_step_nc].
        apply att_step_same. intro s. apply sched_prop_frame. reflexivity. }
      destruct handling; [|exact A2].
      cbv zeta. destruct (_ <=? 5); (eapply att_step_trans; [exact A2|]); apply att_step_same; intro s;
        rewrite ?sched_sync_frame by reflexivity; reflexivity. }
    assert (TP : prop_step (st_cur st) (st_cur st / ct_spe (c_ct c)) [] T).
    { unfold T. eapply prop_step_trans; [|apply prop_step_same; intro s; apply sched_att_frame; reflexivity].
      assert (P2 : prop_step (st_cur st) (st_cur st / ct_spe (c_ct c)) [] T2).
      { unfold T2. eapply prop_step_trans; [|apply prop_step_same; intro s; apply sched_att_frame; reflexivity].
        apply sched_prop_step_nc. exact b. }
      destruct handling; [|exact P2].
      cbv zeta. destruct (_ <=? 5); (eapply prop_step_trans; [exact P2|]); apply prop_step_same; intro s;
        rewrite ?sched_sync_frame by reflexivity; reflexivity. }
    constructor; unfold att_slots, prop_slots in *; cbn; try assumption.
    - intros s H. destruct (TA s H) as [H'|H']; [cbn in H'; contradiction|].
      intro Hin. apply a1 in Hin. lia.
    - intros s H. destruct (TP s H) as [H'|[H' _]]; [cbn in H'; contradiction|].
      intro Hin. apply p1 in Hin. lia.
    - intros s H. destruct (TP s H) as [H'|[_ H']]; [cbn in H'; contradiction | exact H'].
    - intros _. right. right. lia.
  Qed.

  Lemma inv_set_jobs : forall g st t,
    inv g st -> att_step (st_cur st) (st_jobs st) t ->
    prop_step (st_cur st) (st_cur st / ct_spe (c_ct c)) (st_jobs st) t -> inv g (set_jobs st t).
  Proof. intros g st t I A P. apply (inv_update g st); try reflexivity; assumption. Qed.

  Lemma inv_fire : forall g st n h, inv g st -> op_ok g st (Fire n h) -> inv g (fire c st n h).
  Proof.
    intros g st n h I Hok. unfold fire. destruct (tget (st_jobs st) n) eqn:G; [|exact I].
    destruct n as [s|s|s|e|s]; cbn [C03_Spec.op_ok] in Hok.
    - apply inv_run_att; assumption.
    - apply inv_run_prop; assumption.
    - assert (I1 : inv g (set_jobs st (tremove (st_jobs st) (JEarly s)))).
      { apply inv_set_jobs; [exact I | |]; intros s' H; left; apply tremove_sub in H; exact H. }
      destruct (h =? sub64 s 1); [|exact I1]. apply inv_run_prop; [exact I1 | exact Hok].
    - destruct Hok as [Hlt Hb]. unfold prepare_for_epoch. cbn.
      assert (I1 : inv g (set_jobs st (tremove (st_jobs st) (JPrep e)))).
      { apply inv_set_jobs; [exact I | |]; intros s' H; left; apply tremove_sub in H; exact H. }
      apply (inv_update g (set_jobs st (tremove (st_jobs st) (JPrep e)))); try reflexivity; [exact I1 | |]; cbn.
      + apply sched_att_step_future; assumption.
      + apply prop_step_same. intro s. apply sched_att_frame. reflexivity.
    - apply inv_set_jobs; [exact I | |]; intros s' H; left; apply tremove_sub in H; exact H.
  Qed.

  Lemma tick_noop' : forall st, (Z.of_N (st_cur st / ct_spe (c_ct c)) <= st_tick st)%Z -> epoch_tick c st = st.
  Proof. intros st H. unfold epoch_tick, cur_epoch. apply Z.leb_le in H. rewrite H. reflexivity. Qed.

  Theorem inv_step : forall g st o, inv g st -> op_ok g st o -> inv (ghost g st o) (step shadowed c st o).
  Proof.
    intros g st o I Hok. destruct o; cbn [step C03_Spec.ghost]; cbn [C03_Spec.op_ok] in Hok; try contradiction.
    - destruct Hok. apply inv_advance; assumption.
    - apply (inv_update g st); try reflexivity; [exact I | apply att_step_refl | apply prop_step_refl].
    - apply inv_start with (g := g). exact I.
    - destruct Hok as [Hg|[Hg Hf]]; [|apply inv_tick; assumption].
      rewrite tick_noop'; [exact I | exact Hg].
    - apply inv_head. exact I.
    - apply inv_fire; assumption.
    - apply inv_set_jobs; [exact I | |].
      + intros s H. apply refresh_att_new in H. exact H.
      + apply prop_step_same. intro s. apply refresh_att_frame. reflexivity.
    - subst epoch. apply inv_set_jobs; [exact I | |].
      + apply att_step_same. intro s. apply refresh_prop_frame. reflexivity.
      + apply refresh_prop_step. apply (i_b _ _ I).
  Qed.

  Theorem inv_run : forall ops g st, inv g st -> hist_ok g st ops ->
    inv (ghost_run g st ops) (run shadowed c st ops).
  Proof.
    induction ops as [|o ops IH]; intros g st I H; [exact I|].
    destruct H as [H1 H2]. unfold run. cbn [fold_left ghost_run]. apply IH; [|exact H2].
    apply inv_step; assumption.
  Qed.

  Lemma op_ok_b_sound : forall g st o, op_ok_b g st o = true -> op_ok g st o.
  Proof.
    intros g st o H. destruct o; cbn [C03_Spec.op_ok_b C03_Spec.op_ok] in *; try exact I; try discriminate.
    - unfold C03_Spec.bounded, C03_Spec.bounded_b in *. lia.
    - lia.
    - destruct n; try exact I; lia.
    - lia.
  Qed.

  Lemma hist_ok_b_sound : forall ops g st, hist_ok_b g st ops = true -> hist_ok g st ops.
  Proof.
    induction ops as [|o ops IH]; intros g st H; [exact I|].
    cbn [C03_Spec.hist_ok_b] in H. apply andb_true_iff in H. destruct H as [H1 H2].
    split; [apply op_ok_b_sound; exact H1 | apply IH; exact H2].
  Qed.

  (* a freshly built controller satisfies the invariant *)
  Lemma inv_init : forall g h ae, bounded 0 -> inv g (init_state h ae).
  Proof.
    intros g h ae B. constructor; unfold att_slots, prop_slots; cbn.
    - intros s [].
    - intros s H. contradiction.
    - constructor.
    - intros s [].
    - intros s H. contradiction.
    - constructor.
    - intros s H. contradiction.
    - intros [[]|H]; contradiction.
    - exact B.
  Qed.
End NoTwice.

(* ------------------------------------------------------------------------------------------- *)
(* Start-up / restart: only strictly later slots are scheduled, whatever the node answers. *)

Section Restart.
  Variable shadowed : bool.
  Variable c : config.

  Lemma due_true_later : forall cur s, due cur true s = true -> cur < s.
  Proof.
    intros cur s H. apply due_spec in H. destruct H as [H1 H2].
    destruct (N.eq_dec s cur) as [->|Hne]; [specialize (H2 eq_refl); discriminate | lia].
  Qed.

  Lemma later_sched_att : forall cur hv ds ep t, later cur t -> later cur (sched_att c cur hv ds ep true t).
  Proof.
    intros cur hv ds ep t L n j H. rewrite sched_att_exact in H. unfold spec_sched_att in H.
    destruct (tget t n) eqn:G; [apply (L n j0); exact G|].
    destruct n; try discriminate.
    destruct (hv && att_wanted c cur true ds ep slot) eqn:E; [|discriminate].
    apply andb_true_iff in E. destruct E as [_ E]. unfold att_wanted in E.
    apply andb_true_iff in E. destruct E as [_ E]. apply due_true_later. exact E.
  Qed.

  Lemma later_sched_prop : forall cur hv ds ep t, later cur t -> later cur (sched_prop c cur hv ds ep true t).
  Proof.
    intros cur hv ds ep t L n j H. rewrite sched_prop_exact in H. unfold spec_sched_prop in H.
    destruct (tget t n) eqn:G; [apply (L n j0); exact G|].
    destruct n; try discriminate.
    - destruct (hv && prop_wanted c cur true ds ep slot) eqn:E; [|discriminate].
      apply andb_true_iff in E. destruct E as [_ E]. unfold prop_wanted in E.
      apply andb_true_iff in E. destruct E as [_ E]. apply due_true_later. exact E.
    - destruct (hv && prop_wanted c cur true ds ep slot && (0 <? c_prop_delay c)%Z) eqn:E; [|discriminate].
      apply andb_true_iff in E. destruct E as [E _]. apply andb_true_iff in E. destruct E as [_ E].
      unfold prop_wanted in E. apply andb_true_iff in E. destruct E as [_ E]. apply due_true_later. exact E.
  Qed.

  Lemma sync_window_first : forall ae cur ep fe fs ls, sync_window c ae cur ep = (fe, fs, ls) -> cur <= fs.
  Proof.
    intros ae cur ep fe fs ls H. unfold sync_window in H. cbv zeta in H.
    injection H as _ Hfs _. subst fs.
    match goal with |- cur <= (if ?x <? cur then cur else ?x) => destruct (x <? cur) eqn:E end; lia.
  Qed.

  Lemma later_sched_sync : forall ae cur e ep t, later cur t -> later cur (sched_sync c ae cur e ep true t).
  Proof.
    intros ae cur e ep t L n j H. rewrite sched_sync_exact in H. unfold spec_sched_sync in H.
    destruct (tget t n) eqn:G; [apply (L n j0); exact G|].
    destruct n; try discriminate.
    destruct (sync_wanted c ae cur e ep true slot) eqn:E; [|discriminate].
    unfold sync_wanted in E. destruct (sync_window c ae cur ep) as [[fe fs] ls] eqn:W.
    apply sync_window_first in W. cbn [later_name]. rewrite andb_true_r in E. lia.
  Qed.

  Theorem start_later : forall st, later (st_cur st) (st_jobs (start shadowed c st)).
  Proof.
    intros st. unfold start. destruct (altair_details shadowed c) as [handling ae]. cbn [st_jobs].
    apply later_sched_att. destruct handling.
    - cbv zeta. destruct (_ <=? 5); repeat apply later_sched_sync; apply later_sched_att; apply later_sched_prop;
        intros n j H; discriminate.
    - apply later_sched_att; apply later_sched_prop; intros n j H; discriminate.
  Qed.
End Restart.

(* ------------------------------------------------------------------------------------------- *)
(* The once-per-epoch guard of the epoch ticker. *)

Section TickOnce.
  Variable shadowed : bool.
  Variable c : config.

  Lemma tick_noop : forall st, (Z.of_N (cur_epoch c (st_cur st)) <= st_tick st)%Z -> epoch_tick c st = st.
  Proof.
    intros st H. unfold epoch_tick. apply Z.leb_le in H. rewrite H. reflexivity.
  Qed.

  Lemma tick_sets : forall st, (Z.of_N (cur_epoch c (st_cur st)) <= st_tick (epoch_tick c st))%Z /\
                                st_cur (epoch_tick c st) = st_cur st.
  Proof.
    intros st. unfold epoch_tick. destruct (Z.of_N (cur_epoch c (st_cur st)) <=? st_tick st)%Z eqn:E.
    - split; [apply Z.leb_le; exact E | reflexivity].
    - cbn. split; [lia | reflexivity].
  Qed.

  Theorem tick_idempotent : forall st, epoch_tick c (epoch_tick c st) = epoch_tick c st.
  Proof.
    intros st. destruct (tick_sets st) as [H1 H2]. apply tick_noop. rewrite H2. exact H1.
  Qed.

  Local Opaque sched_att sched_prop sched_sync refresh_att refresh_prop refresh_sync tsched tremove
        handle_altair_fork_epoch.

  Lemma run_if_exists_tick : forall st n, st_tick (run_if_exists st n) = st_tick st.
  Proof. intros st n. unfold run_if_exists. destruct (tget (st_jobs st) n); [|reflexivity]. destruct n; reflexivity. Qed.

  Lemma step_tick_mono : forall st o, not_start o -> (st_tick st <= st_tick (step shadowed c st o))%Z.
  Proof.
    intros st o H. destruct o; cbn [step]; cbn [not_start] in H; try contradiction; try (cbn; lia).
    - (* Tick *) unfold epoch_tick. destruct (_ <=? _)%Z eqn:E; [lia|]. cbn. lia.
    - (* Head *) unfold head_event. destruct (slot =? st_cur st); cbn [negb]; [|lia].
      destruct (reorg_decide _ _ _ _ _ _) as [dp dc].
      destruct (c_ft_att c); rewrite ?run_if_exists_tick; destruct dc, dp; cbn; lia.
    - (* Fire *) unfold fire. destruct (tget (st_jobs st) n); [|lia].
      destruct n; rewrite ?run_if_exists_tick; try (cbn; lia).
      destruct (_ =? _); rewrite ?run_if_exists_tick; cbn; lia.
  Qed.

  Lemma run_tick_mono : forall ops st, Forall not_start ops -> (st_tick st <= st_tick (run shadowed c st ops))%Z.
  Proof.
    induction ops as [|o ops IH]; intros st H; [cbn; lia|].
    inversion H as [|? ? Ho Hops]; subst. unfold run. cbn [fold_left].
    pose proof (step_tick_mono st o Ho). specialize (IH (step shadowed c st o) Hops). unfold run in IH. lia.
  Qed.

  (* once the ticker has run in an epoch, any later tick of the same process in that epoch (or an
     earlier one) does nothing, whatever happened in between *)
  Theorem tick_once : forall st ops,
    Forall not_start ops ->
    let st2 := run shadowed c (epoch_tick c st) ops in
    cur_epoch c (st_cur st2) <= cur_epoch c (st_cur st) ->
    epoch_tick c st2 = st2.
  Proof.
    intros st ops H st2 He. apply tick_noop.
    destruct (tick_sets st) as [H1 _].
    pose proof (run_tick_mono ops (epoch_tick c st) H). fold st2 in H0. lia.
  Qed.
End TickOnce.

(* ------------------------------------------------------------------------------------------- *)
(* Reorg detection and its consequences. *)

Section Reorg.
  Variable c : config.

  Theorem reorg_decide_spec : forall last ps cs ep pr cr,
    (fst (reorg_decide last ps cs ep pr cr) = true <->
       last <> 0 /\ ps <> 0 /\ ((last < ep /\ cs <> pr) \/ (ep <= last /\ ps <> pr))) /\
    (snd (reorg_decide last ps cs ep pr cr) = true <->
       last <> 0 /\ ep <= last /\ cs <> 0 /\ cs <> cr).
  Proof.
    intros last ps cs ep pr cr. unfold reorg_decide.
    destruct (last =? 0) eqn:E0; [cbn [fst snd]; lia|].
    destruct (last <? ep) eqn:E1; cbn [fst snd]; lia.
  Qed.

  Local Opaque sched_att sched_prop sched_sync refresh_att refresh_prop refresh_sync tsched tremove.

  Lemma run_if_exists_tget : forall st n m,
    tget (st_jobs (run_if_exists st n)) m = if jname_eqb n m then None else tget (st_jobs st) m.
  Proof.
    intros st n m. unfold run_if_exists. destruct (tget (st_jobs st) n) eqn:G.
    - destruct n; cbn; apply tget_tremove.
    - destruct (jname_eqb n m) eqn:E; [|reflexivity].
      apply jname_eqb_spec in E. subst m. exact G.
  Qed.

  (* the head event's effect on the job table, by which handlers fire *)
  Theorem head_event_jobs : forall st slot pr cr n,
    slot = st_cur st ->
    let ep := slot_to_epoch (c_ct c) slot in
    let d := reorg_decide (st_last_epoch st) (st_prev_root st) (st_cur_root st) ep pr cr in
    let ce := cur_epoch c (st_cur st) in
    let t0 := st_jobs st in
    let t1 := if fst d then refresh_att c (st_cur st) (st_env st) ce t0 else t0 in
    let t2 := if snd d then
                refresh_att c (st_cur st) (st_env st) (add64 ce 1)
                  (let tp := refresh_prop c (st_cur st) (st_env st) ce t1 in
                   if ce mod c_period c =? 0
                   then refresh_sync c (st_altair st) (st_altair_epoch st) (st_cur st) (st_env st) (add64 ce (c_period c)) tp
                   else tp)
              else t1 in
    tget (st_jobs (head_event c st slot pr cr)) n =
    if c_ft_att c && jname_eqb (JAtt slot) n then None else tget t2 n.
  Proof.
    intros st slot pr cr n Hs. cbv zeta. unfold head_event. rewrite Hs, N.eqb_refl. cbn [negb].
    destruct (reorg_decide _ _ _ _ _ _) as [dp dc]. cbn [fst snd].
    destruct (c_ft_att c); cbn [andb]; rewrite ?run_if_exists_tget; destruct dp, dc; reflexivity.
  Qed.

  Theorem head_event_roots : forall st slot pr cr,
    slot = st_cur st ->
    let st' := head_event c st slot pr cr in
    st_last_epoch st' = slot_to_epoch (c_ct c) slot /\ st_prev_root st' = pr /\ st_cur_root st' = cr.
  Proof.
    intros st slot pr cr Hs. cbv zeta. unfold head_event. rewrite Hs, N.eqb_refl. cbn [negb].
    destruct (reorg_decide _ _ _ _ _ _) as [dp dc].
    assert (R : forall s m, st_last_epoch (run_if_exists s m) = st_last_epoch s /\
                            st_prev_root (run_if_exists s m) = st_prev_root s /\
                            st_cur_root (run_if_exists s m) = st_cur_root s).
    { intros s m. unfold run_if_exists. destruct (tget (st_jobs s) m); [|repeat split]. destruct m; repeat split. }
    destruct (c_ft_att c).
    - match goal with |- context [run_if_exists ?s ?m] => destruct (R s m) as [R1 [R2 R3]]; rewrite R1, R2, R3 end.
      destruct dp, dc; repeat split.
    - destruct dp, dc; repeat split.
  Qed.

  (* an event for another slot is ignored altogether *)
  Theorem head_event_other_slot : forall st slot pr cr, slot <> st_cur st -> head_event c st slot pr cr = st.
  Proof.
    intros st slot pr cr H. unfold head_event. apply N.eqb_neq in H. rewrite H. reflexivity.
  Qed.

  (* a refresh replaces: the attestation jobs of the epoch afterwards are exactly those of the
     duties the node reports now *)
  Theorem refresh_att_replaces : forall cur e ep t n,
    texists t (JPrep ep) = false ->
    0 < first_slot_of_epoch (c_ct c) (add64 ep 1) ->
    let ds := alookup (e_att e) ep in
    let notcur := negb (epoch_has c ep cur && texists t (JAtt cur)) in
    tget (refresh_att c cur e ep t) n =
    match n with
    | JAtt s => if epoch_has c ep s
                then if e_vals e && att_wanted c cur notcur ds ep s then Some (att_job c ds ep s) else None
                else tget t n
    | _ => tget t n
    end.
  Proof.
    intros cur e ep t n Hp Hov. cbv zeta. rewrite refresh_att_exact. unfold spec_refresh_att. rewrite Hp.
    destruct n as [s|s|s|s|s]; try reflexivity.
    destruct (epoch_has c ep s) eqn:E; [reflexivity|].
    unfold spec_sched_att. destruct (tget t (JAtt s)); [reflexivity|].
    unfold att_wanted. rewrite (in_epoch_epoch_has c ep s Hov), E.
    rewrite andb_false_r, andb_false_l, andb_false_r. reflexivity.
  Qed.

  Theorem refresh_prop_replaces : forall cur e ep t n,
    0 < first_slot_of_epoch (c_ct c) (add64 ep 1) ->
    let ds := alookup (e_prop e) ep in
    tget (refresh_prop c cur e ep t) n =
    match n with
    | JProp s => if epoch_has c ep s
                 then if e_vals e && prop_wanted c cur true ds ep s then Some (prop_job c ds ep s) else None
                 else tget t n
    | JEarly s => if epoch_has c ep s
                  then if e_vals e && prop_wanted c cur true ds ep s && (0 <? c_prop_delay c)%Z then Some (early_job c s) else None
                  else tget t n
    | _ => tget t n
    end.
  Proof.
    intros cur e ep t n Hov. cbv zeta. rewrite refresh_prop_exact. unfold spec_refresh_prop.
    destruct n as [s|s|s|s|s]; try reflexivity.
    - destruct (epoch_has c ep s) eqn:E; [reflexivity|].
      unfold spec_sched_prop. destruct (tget t (JProp s)); [reflexivity|].
      unfold prop_wanted. rewrite (in_epoch_epoch_has c ep s Hov), E.
      rewrite andb_false_r, andb_false_l, andb_false_r. reflexivity.
    - destruct (epoch_has c ep s) eqn:E; [reflexivity|].
      unfold spec_sched_prop. destruct (tget t (JEarly s)); [reflexivity|].
      unfold prop_wanted. rewrite (in_epoch_epoch_has c ep s Hov), E.
      rewrite andb_false_r, andb_false_l, andb_false_r, andb_false_l. reflexivity.
  Qed.
End Reorg.

(* ------------------------------------------------------------------------------------------- *)
(* No obtained future duty is left without a job. *)

Section Complete.
  Variable c : config.

  Lemma existsb_slot : forall (ds : list aduty) d, In d ds -> existsb (fun x => ad_slot x =? ad_slot d) ds = true.
  Proof. intros ds d H. apply existsb_exists. exists d. split; [exact H | apply N.eqb_refl]. Qed.

  Theorem att_duty_has_job : forall cur ds ep nc t d,
    In d ds -> in_epoch c ep (ad_slot d) = true -> due cur nc (ad_slot d) = true ->
    exists j, tget (sched_att c cur true ds ep nc t) (JAtt (ad_slot d)) = Some j /\
              (tget t (JAtt (ad_slot d)) = None ->
               j = att_job c ds ep (ad_slot d) /\ In (ad_val d, ad_comm d, ad_vci d) (j_pay j)).
  Proof.
    intros cur ds ep nc t d Hin Hep Hdue. rewrite sched_att_exact. unfold spec_sched_att.
    destruct (tget t (JAtt (ad_slot d))) as [j|] eqn:G.
    - exists j. split; [reflexivity | discriminate].
    - unfold att_wanted. rewrite (existsb_slot ds d Hin), Hep, Hdue. cbn [andb].
      eexists. split; [reflexivity|]. intros _. split; [reflexivity|].
      eapply Permutation_in; [apply Permutation_sym; apply att_job_payload; exact Hep|].
      apply in_map_iff. exists d. split; [reflexivity|]. apply filter_In. split; [exact Hin | apply N.eqb_refl].
  Qed.

  Theorem prop_duty_has_job : forall cur ds ep nc t d,
    In d ds -> in_epoch c ep (pd_slot d) = true -> due cur nc (pd_slot d) = true ->
    exists j, tget (sched_prop c cur true ds ep nc t) (JProp (pd_slot d)) = Some j /\
              (tget t (JProp (pd_slot d)) = None ->
               j = prop_job c ds ep (pd_slot d) /\ In (pd_val d, 0, 0) (j_pay j)).
  Proof.
    intros cur ds ep nc t d Hin Hep Hdue. rewrite sched_prop_exact. unfold spec_sched_prop.
    destruct (tget t (JProp (pd_slot d))) as [j|] eqn:G.
    - exists j. split; [reflexivity | discriminate].
    - unfold prop_wanted.
      assert (He : existsb (fun x => pd_slot x =? pd_slot d) ds = true)
        by (apply existsb_exists; exists d; split; [exact Hin | apply N.eqb_refl]).
      rewrite He, Hep, Hdue. cbn [andb].
      eexists. split; [reflexivity|]. intros _. split; [reflexivity|].
      rewrite prop_job_payload by exact Hep.
      apply in_map_iff. exists d. split; [reflexivity|]. apply filter_In. split; [exact Hin | apply N.eqb_refl].
  Qed.

  (* after a refresh the job of every not-yet-passed duty slot of the epoch carries the NEW duties *)
  Theorem refresh_att_duty_has_job : forall cur e ep t d,
    texists t (JPrep ep) = false -> e_vals e = true ->
    0 < first_slot_of_epoch (c_ct c) (add64 ep 1) ->
    In d (alookup (e_att e) ep) -> in_epoch c ep (ad_slot d) = true -> cur < ad_slot d ->
    tget (refresh_att c cur e ep t) (JAtt (ad_slot d)) = Some (att_job c (alookup (e_att e) ep) ep (ad_slot d)) /\
    In (ad_val d, ad_comm d, ad_vci d) (j_pay (att_job c (alookup (e_att e) ep) ep (ad_slot d))).
  Proof.
    intros cur e ep t d Hp Hv Hov Hin Hep Hlt.
    rewrite (refresh_att_replaces c cur e ep t _ Hp Hov). cbv zeta.
    rewrite <- (in_epoch_epoch_has c ep _ Hov), Hep, Hv. cbn [andb].
    unfold att_wanted. rewrite (existsb_slot _ d Hin), Hep. cbn [andb].
    assert (Hd : due cur (negb (epoch_has c ep cur && texists t (JAtt cur))) (ad_slot d) = true).
    { unfold due. apply andb_true_iff. split; [lia|]. apply negb_true_iff. apply andb_false_iff. left. lia. }
    rewrite Hd. split; [reflexivity|].
    eapply Permutation_in; [apply Permutation_sym; apply att_job_payload; exact Hep|].
    apply in_map_iff. exists d. split; [reflexivity|]. apply filter_In. split; [exact Hin | apply N.eqb_refl].
  Qed.
End Complete.

(* ------------------------------------------------------------------------------------------- *)
(* "No slot twice", from a freshly built controller. *)
Theorem no_slot_twice : forall shadowed c,
  0 < ct_spe (c_ct c) -> bounded c 0 ->
  forall h ae ops,
    hist_ok shadowed c 0 (init_state h ae) ops ->
    let st := run shadowed c (init_state h ae) ops in
    NoDup (att_slots st) /\ NoDup (prop_slots st) /\
    (forall s, In s (att_slots st) \/ In s (prop_slots st) -> s <= st_cur st) /\
    (forall s, tget (st_jobs st) (JAtt s) <> None -> ~ In s (att_slots st)) /\
    (forall s, tget (st_jobs st) (JProp s) <> None -> ~ In s (prop_slots st)).
Proof.
  intros shadowed c Hspe B h ae ops H. cbv zeta.
  pose proof (inv_run shadowed c Hspe ops 0 (init_state h ae) (inv_init c 0 h ae B) H) as I.
  destruct I as [a1 a2 an p1 p2 pn p4 p3 b].
  repeat split; try assumption.
  intros s [Hs|Hs]; [apply a1 | apply p1]; exact Hs.
Qed.
