(* C06 composed with C11 (validator registrations) and C15 (sync committee messages, selection
   proofs, contribution-and-proofs): lemmas.  The theorems are in Properties/C06_ComposeMore.v.

   The two emitting models represent a signature by a TAG that names the signing request which
   produced it (C11: [sig] = account, content, timestamp; C15: [sg] = SgRoot / SgSel / SgCP with
   validator, epoch or slot, root or subcommittee).  Here every tag is given the value that the
   signer model (Model/C06_Signer.v) returns for that request, the request of the emitting model
   is written as a [request] of the signer model, and the two are shown to fit: what the signer
   returns for the request IS the value of the tag, and that value is the specification's signature
   for the message the emitting property's theorems say it belongs to.

   [acct] maps the emitting model's name of an account (C11: account id; C15: validator index) to
   the account object the signer sees.  It is arbitrary.

   C14 (slot-selection signatures) is not here: Model/C14_Subscriptions.v has no signing request,
   the signature of a duty is an input ([d_sig], [d_hash]); see notes/compose_C06more.md. *)
From Coq Require Import List NArith ZArith Bool Lia.
From Verif Require Import Lib.Base Lib.Ssz Model.C06_Signer Proofs.C06 Proofs.C06_Spec.
From Verif Require Properties.C06.
From Verif Require Model.C11_Registrations Proofs.C11 Properties.C11.
From Verif Require Model.C15_Sync Proofs.C15 Proofs.C15_Fire Properties.C15.
Import ListNotations.
Local Open Scope N_scope.

Module R := Verif.Model.C11_Registrations.
Module RP := Verif.Proofs.C11.
Module S := Verif.Model.C15_Sync.
Module SP := Verif.Proofs.C15.
Module SF := Verif.Proofs.C15_Fire.

(* ============================================================================================ *)
(* Small list facts.                                                                            *)

Lemma combine_map_map {A B C} (f : A -> B) (g : A -> C) (l : list A) :
  combine (map f l) (map g l) = map (fun x => (f x, g x)) l.
Proof. induction l as [|x l IH]; cbn; [reflexivity | rewrite IH; reflexivity]. Qed.

Lemma nth_error_map_some {A B} (f : A -> B) (l : list A) k x :
  nth_error l k = Some x -> nth_error (map f l) k = Some (f x).
Proof. intro Hk. rewrite nth_error_map, Hk. reflexivity. Qed.

(* ============================================================================================ *)
(* (a) C11: validator registrations.                                                            *)

(* the ValidatorRegistrationV1 message of a content and a timestamp *)
Definition reg_msg (ct : R.content) (stamp : N) : registration :=
  Registration (R.ct_fee ct) (R.ct_gas ct) stamp (R.ct_pub ct).

(* the message of a signed registration as it is submitted / cached *)
Definition sreg_msg (sr : R.sreg) : registration := reg_msg (R.sr_content sr) (R.sr_stamp sr).

(* The Go value (builderv1.ValidatorRegistration) that generateValidatorRegistrationForRelay builds
   from a content and the round's timestamp.  C11's timestamp is a whole number of seconds (the
   round's time.Now().Round(time.Second), [R.r_now]); the signer model takes the time.Time, as
   nanoseconds since the Unix epoch: the instant is [stamp] seconds EXACTLY, no sub-second part. *)
Definition go_reg (ct : R.content) (stamp : N) : go_registration :=
  GoRegistration (R.ct_fee ct) (R.ct_gas ct) (Z.of_N stamp * 1000000000)%Z (R.ct_pub ct).

(* 2^64.  The timestamp of the message that is hashed, signed and sent is a uint64 of seconds
   ([wire_registration]: uint64(Timestamp.Unix())), so a C11 timestamp is the timestamp of the wire
   message when it is below this bound -- true of every real clock: 2^64 s is about 5.8e11 years,
   and a Go time.Time cannot even represent an instant that far (int64 seconds since year 1).  It
   is carried as an explicit hypothesis where the signed message is equated with C11's. *)
Definition uint64_bound : N := 18446744073709551616.

(* what goes on the wire for [go_reg ct stamp]: C11's message with the timestamp wrapped to uint64;
   C11's message itself for every timestamp a uint64 can hold *)
Lemma wire_go_reg_wrapped ct stamp :
  wire_registration (go_reg ct stamp) = reg_msg ct (stamp mod uint64_bound).
Proof.
  unfold wire_registration, go_reg, reg_msg, unix_seconds, to_uint64.
  cbn [gr_fee_recipient gr_gas_limit gr_time_ns gr_pubkey].
  rewrite Z.div_mul by discriminate.
  change 18446744073709551616%Z with (Z.of_N uint64_bound).
  rewrite <- N2Z.inj_mod, N2Z.id. reflexivity.
Qed.

Lemma wire_go_reg ct stamp :
  stamp < uint64_bound -> wire_registration (go_reg ct stamp) = reg_msg ct stamp.
Proof. intro Hs. rewrite wire_go_reg_wrapped, N.mod_small by exact Hs. reflexivity. Qed.

(* generateValidatorRegistrationForRelay's call
     SignValidatorRegistration(ctx, account, &VersionedValidatorRegistration{V1, registration})
   as a request of the signer model *)
Definition reg_request (acct : N -> account) (q : R.sigreq) : request :=
  ReqRegistration (acct (R.q_acct q)) (Some (go_reg (R.q_content q) (R.q_stamp q))).

(* the request carries the Go value whose instant is the request's timestamp in seconds, exactly *)
Lemma reg_request_instant acct q :
  exists g, reg_request acct q = ReqRegistration (acct (R.q_acct q)) (Some g)
            /\ gr_time_ns g = (Z.of_N (R.q_stamp q) * 1000000000)%Z
            /\ unix_seconds (gr_time_ns g) = Z.of_N (R.q_stamp q)
            /\ (gr_time_ns g mod 1000000000 = 0)%Z
            /\ gr_fee_recipient g = R.ct_fee (R.q_content q) /\ gr_gas_limit g = R.ct_gas (R.q_content q)
            /\ gr_pubkey g = R.ct_pub (R.q_content q).
Proof.
  exists (go_reg (R.q_content q) (R.q_stamp q)). unfold go_reg, unix_seconds. cbn.
  rewrite Z.div_mul, Z.mod_mul by discriminate. repeat split.
Qed.

(* the builder specification's signing root of a registration: DOMAIN_APPLICATION_BUILDER, genesis
   fork version, zero genesis validators root *)
Definition builder_signing_root (H : N -> N -> N) (c : chain) (r : registration) : N :=
  compute_signing_root H (htr_registration H r)
                       (compute_domain H DOMAIN_APPLICATION_BUILDER (ch_genesis_version c) 0).

Lemma builder_signing_root_is_spec H c r :
  builder_signing_root H c r = spec_signing_root H c (MRegistration r).
Proof. reflexivity. Qed.

Section Registrations.
  Variable H : N -> N -> N.
  Variable sig : Type.
  Variable zero_sig : sig.
  Variable sign : N -> N -> sig.
  Variable c : chain.
  Variable acct : N -> account.

  Local Notation RUN := (run H sig zero_sig (spec_provider H c) (honest H sig sign) (spec_service c)).

  (* the value of C11's signature tag: the signature of the named account over the builder signing
     root of the registration the tag names *)
  Definition reg_sig_value (s : R.sig) : sig :=
    sign (a_key (acct (R.sg_acct s))) (builder_signing_root H c (reg_msg (R.sg_content s) (R.sg_stamp s))).

  (* unconditionally: the message signed is C11's with the timestamp wrapped to a uint64 *)
  Lemma reg_request_signed_wrapped q sigs :
    RUN (reg_request acct q) = Ok sigs ->
    sigs = [sign (a_key (acct (R.q_acct q)))
                 (builder_signing_root H c (reg_msg (R.q_content q) (R.q_stamp q mod uint64_bound)))]
    /\ a_fail (acct (R.q_acct q)) = false.
  Proof.
    intro Hrun. unfold reg_request in Hrun.
    destruct (Properties.C06.C06_registration_is_spec_root H sig zero_sig sign c _ _ sigs Hrun)
      as [r [Hr [Hs Hf]]].
    injection Hr as <-. rewrite wire_go_reg_wrapped in Hs. split; [exact Hs | exact Hf].
  Qed.

  (* for a timestamp that fits a uint64: C11's message itself *)
  Lemma reg_request_signed q sigs :
    RUN (reg_request acct q) = Ok sigs ->
    (R.q_stamp q < uint64_bound ->
     sigs = [sign (a_key (acct (R.q_acct q))) (builder_signing_root H c (reg_msg (R.q_content q) (R.q_stamp q)))])
    /\ a_fail (acct (R.q_acct q)) = false.
  Proof.
    intro Hrun. destruct (reg_request_signed_wrapped q sigs Hrun) as [Hs Hf]. split; [|exact Hf].
    intro Hfit. rewrite N.mod_small in Hs by exact Hfit. exact Hs.
  Qed.

  (* the registration a successful request produces carries, as signature tag, that request: the
     signer's answer is the tag's value, and it is over the registration's own message *)
  Lemma reg_of_req_signed q sigs :
    RUN (reg_request acct q) = Ok sigs ->
    (R.sr_stamp (RP.reg_of_req q) < uint64_bound -> sigs = [reg_sig_value (R.sr_sig (RP.reg_of_req q))])
    /\ reg_sig_value (R.sr_sig (RP.reg_of_req q))
       = sign (a_key (acct (R.q_acct q))) (builder_signing_root H c (sreg_msg (RP.reg_of_req q)))
    /\ a_fail (acct (R.q_acct q)) = false.
  Proof.
    intro Hrun. destruct (reg_request_signed q sigs Hrun) as [Hs Hf].
    split; [exact Hs|]. split; [reflexivity | exact Hf].
  Qed.
End Registrations.

(* every signing request of every history: made in a round, for a relay entry of a validator of
   that round, by that validator's account, at that round's time -- and the signer signs exactly
   that registration *)
Lemma registration_requests_signed :
  forall (ops : list R.op) (q : R.sigreq),
    In q (RP.all_reqs (snd (R.run R.init ops))) ->
    exists k r v res rc,
      nth_error ops k = Some (R.ORound r) /\ In v (R.r_vals r) /\ R.v_res v = Some res /\ In rc (R.rs_relays res)
      /\ R.q_acct q = R.v_acct v
      /\ reg_msg (R.q_content q) (R.q_stamp q) = Registration (R.rc_fee rc) (R.rc_gas rc) (R.r_now r) (R.v_pub v)
      /\ forall (H : N -> N -> N) (sig : Type) (zero_sig : sig) (sign : N -> N -> sig) (c : chain)
                (acct : N -> account) (sigs : list sig),
           run H sig zero_sig (spec_provider H c) (honest H sig sign) (spec_service c) (reg_request acct q) = Ok sigs ->
           (R.r_now r < uint64_bound ->
            sigs = [sign (a_key (acct (R.v_acct v)))
                         (builder_signing_root H c (Registration (R.rc_fee rc) (R.rc_gas rc) (R.r_now r) (R.v_pub v)))])
           /\ a_fail (acct (R.v_acct v)) = false.
Proof.
  intros ops q Hq.
  destruct (RP.history_req ops R.init [] q RP.J_init Hq) as [k [r [v [rc [Hk [[Hv [res [Hres Hrc]]] [Ha [Hc Hs]]]]]]]].
  exists k, r, v, res, rc. repeat (split; [assumption|]).
  assert (Hm : reg_msg (R.q_content q) (R.q_stamp q)
               = Registration (R.rc_fee rc) (R.rc_gas rc) (R.r_now r) (R.v_pub v)).
  { rewrite Hc, Hs. reflexivity. }
  split; [exact Hm|].
  intros H sig zero_sig sign c acct sigs Hrun.
  destruct (reg_request_signed H sig zero_sig sign c acct q sigs Hrun) as [Hsig Hf].
  rewrite Hm, Ha, Hs in Hsig. rewrite Ha in Hf. split; assumption.
Qed.

(* a registration emitted by the generation phase is the product of a successful request of the log *)
Lemma emitted_from_request : forall log reqs sr,
  RP.Emitted log reqs sr -> exists q, In q (log ++ reqs) /\ R.q_ok q = true /\ sr = RP.reg_of_req q.
Proof.
  intros log reqs sr [r1 [r2 [q [Hr [Hl Hsr]]]]].
  apply RP.last_ok_some in Hl as [Hin [Hok _]].
  exists q. split; [|split; assumption].
  rewrite Hr, app_assoc. apply in_or_app; left; exact Hin.
Qed.

(* what a round sends to a relay or to a secondary beacon node *)
Definition round_sends (relays : R.relaymap) (nodes : list (option (list R.sreg))) (sr : R.sreg) : Prop :=
  (exists a regs, In (a, regs) relays /\ In sr regs) \/ (exists l, In (Some l) nodes /\ In sr l).

Lemma sent_registrations_signed :
  forall (ops : list R.op) i r err reqs relays nodes,
    nth_error ops i = Some (R.ORound r) ->
    nth_error (snd (R.run R.init ops)) i = Some (R.OutRound err reqs relays nodes) ->
    forall sr, round_sends relays nodes sr ->
      exists q,
        In q (RP.all_reqs (firstn (S i) (snd (R.run R.init ops)))) /\ R.q_ok q = true
        /\ sr = RP.reg_of_req q
        /\ forall (H : N -> N -> N) (sig : Type) (zero_sig : sig) (sign : N -> N -> sig) (c : chain)
                  (acct : N -> account) (sigs : list sig),
             run H sig zero_sig (spec_provider H c) (honest H sig sign) (spec_service c) (reg_request acct q) = Ok sigs ->
             (R.sr_stamp sr < uint64_bound -> sigs = [reg_sig_value H sig sign c acct (R.sr_sig sr)])
             /\ reg_sig_value H sig sign c acct (R.sr_sig sr)
                = sign (a_key (acct (R.q_acct q))) (builder_signing_root H c (sreg_msg sr))
             /\ a_fail (acct (R.q_acct q)) = false.
Proof.
  intros ops i r err reqs relays nodes Hop Hout sr Hsent.
  pose proof (RP.history_round ops R.init [] i r err reqs relays nodes RP.J_init Hop Hout) as [Hrel [Hnod _]].
  assert (Hem : RP.Emitted ([] ++ RP.all_reqs (firstn i (snd (R.run R.init ops)))) reqs sr).
  { destruct Hsent as [[a [regs [H1 H2]]]|[l [H1 H2]]].
    - exact (proj1 (Hrel a sr (ex_intro _ regs (conj H1 H2)))).
    - exact (proj1 (Hnod l sr H1 H2)). }
  destruct (emitted_from_request _ _ _ Hem) as [q [Hin [Hok Hsr]]].
  exists q. split; [|split; [exact Hok|split; [exact Hsr|]]].
  - rewrite (RP.firstn_S_nth _ _ _ Hout), RP.all_reqs_app. cbn [app] in Hin.
    unfold RP.all_reqs at 2. cbn [flat_map RP.reqs_of]. rewrite app_nil_r. exact Hin.
  - intros H sig zero_sig sign c acct sigs Hrun. subst sr.
    exact (reg_of_req_signed H sig zero_sig sign c acct q sigs Hrun).
Qed.

(* ---- the cache: every entry of signedValidatorRegistrations, in every history, is the product of
   a successful signing request of the history, stored under that request's content ---- *)

Definition cache_inv (st : R.state) (log : list R.sigreq) : Prop :=
  forall ct sr, In (ct, sr) (R.signed st) ->
    exists q, In q log /\ R.q_ok q = true /\ sr = RP.reg_of_req q /\ ct = R.q_content q.

Lemma cache_inv_mono st log log' : cache_inv st log -> cache_inv st (log ++ log').
Proof.
  intros HK ct sr Hin. destruct (HK ct sr Hin) as [q [H1 H2]]. exists q. split; [|exact H2].
  apply in_or_app; left; exact H1.
Qed.

Lemma cache_inv_gen_relay st log now a ct signs st' signs' orq osr :
  cache_inv st log -> R.gen_relay st now a ct signs = (st', signs', orq, osr) ->
  cache_inv st' (log ++ RP.opt_list orq).
Proof.
  intros HK Hg. unfold R.gen_relay in Hg.
  destruct (R.cached st ct) as [sr0|].
  - injection Hg as <- <- <- <-. apply cache_inv_mono. exact HK.
  - destruct (hd true signs) eqn:Eok.
    + injection Hg as <- <- <- <-. intros ct' sr' Hin. cbn [R.signed] in Hin. unfold R.set_signed in Hin.
      destruct Hin as [Heq|Hin].
      * injection Heq as <- <-.
        exists {| R.q_acct := a; R.q_content := ct; R.q_stamp := now; R.q_ok := true |}.
        split; [apply in_or_app; right; left; reflexivity|]. repeat split.
      * destruct (HK ct' sr' Hin) as [q [H1 H2]]. exists q. split; [apply in_or_app; left; exact H1 | exact H2].
    + injection Hg as <- <- <- <-. apply cache_inv_mono. exact HK.
Qed.

Lemma cache_inv_gen_relays log0 now a pub : forall rcs ac first signs,
  cache_inv (R.a_st ac) (log0 ++ R.a_reqs ac) ->
  cache_inv (R.a_st (R.gen_relays ac now a pub rcs first signs))
            (log0 ++ R.a_reqs (R.gen_relays ac now a pub rcs first signs)).
Proof.
  induction rcs as [|rc rcs IH]; intros ac first signs HK; cbn [R.gen_relays]; [exact HK|].
  destruct (R.gen_relay (R.a_st ac) now a (R.content_of pub rc) signs) as [[[st1 signs1] orq] osr] eqn:Eg.
  apply IH.
  pose proof (cache_inv_gen_relay _ _ _ _ _ _ _ _ _ _ HK Eg) as HK1.
  rewrite <- app_assoc in HK1.
  destruct osr as [sr|]; destruct orq as [rq|]; cbn [R.a_st R.a_reqs RP.opt_list] in *;
    try rewrite app_nil_r in HK1; exact HK1.
Qed.

Lemma cache_inv_gen_accounts log0 now : forall vals ac,
  cache_inv (R.a_st ac) (log0 ++ R.a_reqs ac) ->
  let ac' := fold_left (fun ac v => R.gen_account ac now v) vals ac in
  cache_inv (R.a_st ac') (log0 ++ R.a_reqs ac').
Proof.
  induction vals as [|v vals IH]; intros ac HK; cbn [fold_left]; [exact HK|].
  apply IH. unfold R.gen_account. destruct (R.v_res v) as [res|]; [|exact HK].
  apply cache_inv_gen_relays. exact HK.
Qed.

Lemma cache_inv_step st log0 o :
  cache_inv st log0 -> cache_inv (fst (R.step st o)) (log0 ++ RP.reqs_of (snd (R.step st o))).
Proof.
  intros HK. destruct o as [r|f|p]; cbn [R.step fst snd].
  - assert (Hdo : cache_inv (fst (R.do_round st r)) (log0 ++ RP.reqs_of (snd (R.do_round st r)))).
    { unfold R.do_round. cbn [fst snd RP.reqs_of].
      pose proof (cache_inv_gen_accounts log0 (R.r_now r) (R.r_vals r)
                    {| R.a_st := st; R.a_reqs := []; R.a_relays := []; R.a_cons := [] |}) as Hg.
      cbn [R.a_st R.a_reqs] in Hg. rewrite app_nil_r in Hg. specialize (Hg HK).
      intros ct sr Hin. cbn [R.signed] in Hin. exact (Hg ct sr Hin). }
    assert (Hno : forall e, cache_inv (fst (st, R.no_round r e)) (log0 ++ RP.reqs_of (snd (st, R.no_round r e)))).
    { intro e. cbn. rewrite app_nil_r. exact HK. }
    unfold R.step_round.
    destruct (R.r_api r).
    + destruct (R.r_cfg r); [exact Hdo | apply Hno].
    + destruct (R.r_acct_err r); [apply Hno|]. destruct (R.r_vals r) eqn:Ev; [apply Hno|].
      destruct (R.r_cfg r); [exact Hdo | apply Hno].
  - cbn. rewrite app_nil_r. exact HK.
  - rewrite RP.reqs_of_prepare, app_nil_r. exact HK.
Qed.

Lemma cache_inv_run : forall ops st log0,
  cache_inv st log0 -> cache_inv (fst (R.run st ops)) (log0 ++ RP.all_reqs (snd (R.run st ops))).
Proof.
  induction ops as [|o ops IH]; intros st log0 HK.
  - cbn. rewrite app_nil_r. exact HK.
  - rewrite RP.fst_run_cons, RP.snd_run_cons. unfold RP.all_reqs; cbn [flat_map]. rewrite app_assoc.
    apply IH. apply cache_inv_step. exact HK.
Qed.

Lemma cached_registrations_signed :
  forall (ops : list R.op) ct sr,
    In (ct, sr) (R.signed (fst (R.run R.init ops))) ->
    exists q,
      In q (RP.all_reqs (snd (R.run R.init ops))) /\ R.q_ok q = true
      /\ sr = RP.reg_of_req q /\ ct = R.sr_content sr
      /\ forall (H : N -> N -> N) (sig : Type) (zero_sig : sig) (sign : N -> N -> sig) (c : chain)
                (acct : N -> account) (sigs : list sig),
           run H sig zero_sig (spec_provider H c) (honest H sig sign) (spec_service c) (reg_request acct q) = Ok sigs ->
           (R.sr_stamp sr < uint64_bound -> sigs = [reg_sig_value H sig sign c acct (R.sr_sig sr)])
           /\ reg_sig_value H sig sign c acct (R.sr_sig sr)
              = sign (a_key (acct (R.q_acct q))) (builder_signing_root H c (sreg_msg sr))
           /\ a_fail (acct (R.q_acct q)) = false.
Proof.
  intros ops ct sr Hin.
  assert (HK0 : cache_inv R.init []) by (intros ? ? []).
  destruct (cache_inv_run ops R.init [] HK0 ct sr Hin) as [q [Hq [Hok [Hsr Hct]]]].
  exists q. cbn [app] in Hq. repeat (split; [first [assumption | subst sr; exact Hct]|]).
  intros H sig zero_sig sign c acct sigs Hrun. subst sr.
  exact (reg_of_req_signed H sig zero_sig sign c acct q sigs Hrun).
Qed.

(* ---- the hypothesis "the timestamp fits a uint64" of the statements above is a hypothesis on the
   clock only: every timestamp of a request, of a registration sent and of a registration cached is
   the time [R.r_now] of a round of the history ---- *)

Definition clock_fits (ops : list R.op) : Prop :=
  forall k r, nth_error ops k = Some (R.ORound r) -> R.r_now r < uint64_bound.

Lemma request_stamps_fit ops q :
  clock_fits ops -> In q (RP.all_reqs (snd (R.run R.init ops))) -> R.q_stamp q < uint64_bound.
Proof.
  intros Hclk Hq.
  destruct (RP.history_req ops R.init [] q RP.J_init Hq) as [k [r [v [rc [Hk [_ [_ [_ Hs]]]]]]]].
  rewrite Hs. exact (Hclk k r Hk).
Qed.

Lemma sent_stamps_fit ops i r err reqs relays nodes sr :
  clock_fits ops ->
  nth_error ops i = Some (R.ORound r) ->
  nth_error (snd (R.run R.init ops)) i = Some (R.OutRound err reqs relays nodes) ->
  round_sends relays nodes sr -> R.sr_stamp sr < uint64_bound.
Proof.
  intros Hclk Hop Hout Hsent.
  destruct (sent_registrations_signed ops i r err reqs relays nodes Hop Hout sr Hsent) as [q [Hq [_ [Hsr _]]]].
  subst sr. cbn [RP.reg_of_req R.sr_stamp].
  apply (request_stamps_fit ops q Hclk). exact (RP.In_all_reqs_firstn _ _ _ Hq).
Qed.

Lemma cached_stamps_fit ops ct sr :
  clock_fits ops -> In (ct, sr) (R.signed (fst (R.run R.init ops))) -> R.sr_stamp sr < uint64_bound.
Proof.
  intros Hclk Hin.
  destruct (cached_registrations_signed ops ct sr Hin) as [q [Hq [_ [Hsr _]]]].
  subst sr. cbn [RP.reg_of_req R.sr_stamp]. exact (request_stamps_fit ops q Hclk Hq).
Qed.

(* ============================================================================================ *)
(* (c) C15: sync committee messages, selection proofs, contribution-and-proofs.                 *)

Section Sync.
  Variable H : N -> N -> N.
  Variable sig : Type.
  Variable zero_sig : sig.
  Variable sign : N -> N -> sig.
  Variable c : chain.
  Variable acct : N -> account.       (* validator index -> the account the account manager holds *)

  Local Notation RUN := (run H sig zero_sig (spec_provider H c) (honest H sig sign) (spec_service c)).
  Local Notation exp := (expected sig zero_sig sign).

  (* the value of C15's signature tags that name one signing request of a validator; SgCP is
     valued below ([cp_value]: it needs the whole contribution), SgBad has no value *)
  Definition sg_value (x : S.sg) : option sig :=
    match x with
    | S.SgZero => Some zero_sig
    | S.SgRoot v e r => Some (sign (a_key (acct v)) (spec_signing_root H c (MSyncMessage e r)))
    | S.SgSel v s sc => Some (sign (a_key (acct v)) (spec_signing_root H c (MSyncSelection s sc)))
    | S.SgCP _ _ _ => None
    | S.SgBad => None
    end.

  (* the scripted signer of C15 and the accounts of C06 fail for the same validators *)
  Definition zero_agrees (zero : list N) (vs : list N) : Prop :=
    forall v, In v vs -> (In v zero <-> a_fail (acct v) = true).

  (* ---- SignSyncCommitteeRoots ---- *)

  Lemma sync_roots_signed (vs : list N) (e r : N) (sigs : list sig) :
    RUN (ReqSyncRoots (map acct vs) e r) = Ok sigs ->
    sigs = map (fun v => exp (acct v) (spec_signing_root H c (MSyncMessage e r))) vs.
  Proof.
    intro Hrun.
    rewrite (Properties.C06.C06_sync_message_is_spec_root H sig zero_sig sign c _ e r sigs Hrun), map_map.
    reflexivity.
  Qed.

  Lemma root_sig_value (p : S.params) (f : S.fire_in) (r v : N) :
    (In v (S.f_root_zero f) <-> a_fail (acct v) = true) ->
    sg_value (S.root_sig p f r v)
    = Some (exp (acct v) (spec_signing_root H c (MSyncMessage (S.epoch_of_slot p (S.f_slot f)) r))).
  Proof.
    intros Hz. unfold S.root_sig, expected.
    destruct (S.memN v (S.f_root_zero f)) eqn:Em.
    - apply SP.memN_In in Em. apply Hz in Em. rewrite Em. reflexivity.
    - apply SP.memN_false in Em. destruct (a_fail (acct v)) eqn:Ef; [|reflexivity].
      exfalso. apply Em, Hz. reflexivity.
  Qed.

  (* ---- SignSyncCommitteeSelections ---- *)

  Lemma sync_selections_signed (pairs : list (N * N)) (slot : N) (sigs : list sig) :
    RUN (ReqSyncSelections (map (fun x => acct (fst x)) pairs) slot (map snd pairs)) = Ok sigs ->
    sigs = map (fun x => exp (acct (fst x)) (spec_signing_root H c (MSyncSelection slot (snd x)))) pairs.
  Proof.
    intro Hrun.
    rewrite (Properties.C06.C06_sync_selection_is_spec_root H sig zero_sig sign c _ slot _ sigs Hrun).
    rewrite (combine_map_map (fun x => acct (fst x)) snd pairs), map_map. reflexivity.
  Qed.

  Lemma sel_sig_value (f : S.fire_in) (x : N * N) :
    (In (fst x) (S.f_sel_zero f) <-> a_fail (acct (fst x)) = true) ->
    sg_value (S.sel_sig f x)
    = Some (exp (acct (fst x)) (spec_signing_root H c (MSyncSelection (S.f_slot f) (snd x)))).
  Proof.
    intros Hz. unfold S.sel_sig, expected.
    destruct (S.memN (fst x) (S.f_sel_zero f)) eqn:Em.
    - apply SP.memN_In in Em. apply Hz in Em. rewrite Em. reflexivity.
    - apply SP.memN_false in Em. destruct (a_fail (acct (fst x))) eqn:Ef; [|reflexivity].
      exfalso. apply Em, Hz. reflexivity.
  Qed.

  (* ---- SignContributionAndProofs ---- *)

  (* What the beacon node puts into the contribution it serves and C15 does not model (aggregation
     bits, aggregate signature), and the 96 bytes of a signature as a number: all arbitrary. *)
  Variable bits : S.contrib -> N.
  Variable nsig : S.contrib -> N.
  Variable enc : sig -> N.

  Definition proof_bytes (x : S.sg) : N := match sg_value x with Some s => enc s | None => 0 end.

  (* the altair.ContributionAndProof that Aggregate builds for a contribution of the model *)
  Definition cp06 (k : S.contrib) : contribution_and_proof :=
    ContributionAndProof (S.cp_agg k)
      (Contribution (S.cp_slot k) (S.cp_root k) (S.cp_subc k) (bits k) (nsig k))
      (proof_bytes (S.cp_proof k)).

  Definition cp_request (ks : list S.contrib) : request :=
    ReqContributions (map (fun k => acct (S.cp_agg k)) ks) (map cp06 ks).

  (* the value of the tag SgCP of a contribution of the model *)
  Definition cp_value (k : S.contrib) : sig :=
    exp (acct (S.cp_agg k)) (spec_signing_root H c (MContribution (cp06 k))).

  Lemma contributions_signed (ks : list S.contrib) (sigs : list sig) :
    RUN (cp_request ks) = Ok sigs -> sigs = map cp_value ks.
  Proof.
    intro Hrun. unfold cp_request in Hrun.
    rewrite (Properties.C06.C06_contribution_is_spec_root H sig zero_sig sign c _ _ sigs Hrun).
    rewrite (combine_map_map (fun k => acct (S.cp_agg k)) cp06 ks), map_map. reflexivity.
  Qed.

  Lemma cp_value_epoch (k : S.contrib) :
    spec_signing_root H c (MContribution (cp06 k))
    = compute_signing_root H (htr_contribution_and_proof H (cp06 k))
        (get_domain H c DOMAIN_CONTRIBUTION_AND_PROOF (S.cp_slot k / ch_spe c)).
  Proof. reflexivity. Qed.

  (* The signer accepts a batch of contributions of ONE slot made for accounts of one family per
     kind: no refusal for "several epochs" (the repair of C06), no panic on an empty batch. *)
  Lemma contributions_of_one_slot_accepted (ks : list S.contrib) (slot : N) :
    ks <> [] -> (forall k, In k ks -> S.cp_slot k = slot) ->
    let items := combine (map (fun k => acct (S.cp_agg k)) ks) (map (htr_contribution_and_proof H) (map cp06 ks)) in
    uniform (filter not_dist items) -> uniform (filter is_dist items) ->
    RUN (cp_request ks) = Ok (map cp_value ks).
  Proof.
    intros Hne Hslot items Hu1 Hu2.
    assert (Hrun : exists sigs, RUN (cp_request ks) = Ok sigs).
    { unfold cp_request. cbn [run]. unfold sign_contributions. cbn [spec_service s_contribution].
      rewrite !map_length, Nat.eqb_refl. cbn [negb].
      destruct ks as [|k0 ks']; [contradiction|]. cbn [map].
      set (ep := epoch_of (spec_service c) (co_slot (cp_contribution (cp06 k0)))).
      assert (Hall : forallb (fun cp => epoch_of (spec_service c) (co_slot (cp_contribution cp)) =? ep)
                             (cp06 k0 :: map cp06 ks') = true).
      { apply forallb_forall. intros cp Hcp. change (cp06 k0 :: map cp06 ks') with (map cp06 (k0 :: ks')) in Hcp.
        apply in_map_iff in Hcp as [k [<- Hk]]. apply N.eqb_eq. unfold ep, epoch_of. cbn [cp06 cp_contribution co_slot].
        rewrite (Hslot k Hk), (Hslot k0 (or_introl eq_refl)). reflexivity. }
      rewrite Hall. cbn [negb spec_provider p_domain].
      eexists.
      apply (Properties.C06.C06_batch_complete H sig zero_sig sign
               (map (fun k => acct (S.cp_agg k)) (k0 :: ks'))
               (map (htr_contribution_and_proof H) (map cp06 (k0 :: ks')))).
      - rewrite !map_length. reflexivity.
      - exact Hu1.
      - exact Hu2. }
    destruct Hrun as [sigs Hrun]. rewrite Hrun. f_equal. exact (contributions_signed ks sigs Hrun).
  Qed.
End Sync.

(* ============================================================================================ *)
(* The requests of C15's per-slot chain, composed.                                              *)

(* SignSyncCommitteeRoots of the message job *)
Lemma fire_root_call_inv : forall p mem hasacct f accts e rr,
  S.o_root_call (S.fire p mem hasacct f) = Some (accts, e, rr) ->
  accts = map Some (S.signers mem hasacct) /\ S.signers mem hasacct <> []
  /\ e = S.f_slot f / S.spe p /\ S.f_root f = Some rr.
Proof.
  intros p mem hasacct f accts e rr Hc. rewrite SF.fire_root_call in Hc.
  destruct (SF.sel_stage_ok p mem hasacct f); [|discriminate].
  destruct (S.f_root f) as [r|]; [|discriminate].
  destruct (S.signers mem hasacct) as [|v vs] eqn:Es; [discriminate|].
  injection Hc as <- <- <-. repeat split; try reflexivity. discriminate.
Qed.

Lemma fire_sync_messages_signed :
  forall p mem hasacct f accts e rr,
    S.o_root_call (S.fire p mem hasacct f) = Some (accts, e, rr) ->
    let vs := S.signers mem hasacct in
    accts = map Some vs /\ e = S.f_slot f / S.spe p /\ S.f_root f = Some rr
    /\ (forall v, In v vs <-> In v (map fst mem) /\ hasacct v = true)
    /\ forall (H : N -> N -> N) (sig : Type) (zero_sig : sig) (sign : N -> N -> sig) (c : chain)
              (acct : N -> account) (sigs : list sig),
         ch_spe c = S.spe p ->
         run H sig zero_sig (spec_provider H c) (honest H sig sign) (spec_service c)
             (ReqSyncRoots (map acct vs) e rr) = Ok sigs ->
         (* one signature per member with an account, in order: the altair get_sync_committee_message
            signature over the head root of the slot with the fork of the slot's epoch *)
         sigs = map (fun v => expected sig zero_sig sign (acct v)
                                (compute_signing_root H rr
                                   (get_domain H c DOMAIN_SYNC_COMMITTEE (compute_epoch_at_slot c (S.f_slot f))))) vs
         (* it is what the model's signature tags stand for, when the same validators cannot sign *)
         /\ (zero_agrees acct (S.f_root_zero f) vs ->
             map Some sigs = map (fun v => sg_value H sig zero_sig sign c acct (S.root_sig p f rr v)) vs)
         (* and every message submitted carries the signer's answer of its validator's position,
            a signature for the message's own slot's epoch and own root *)
         /\ (zero_agrees acct (S.f_root_zero f) vs ->
             forall s' r' v x, In (s', r', v, x) (S.opt_list (S.o_submitted (S.fire p mem hasacct f))) ->
               exists k s, nth_error vs k = Some v /\ nth_error sigs k = Some s
                 /\ sg_value H sig zero_sig sign c acct x = Some s
                 /\ s = sign (a_key (acct v))
                          (compute_signing_root H r'
                             (get_domain H c DOMAIN_SYNC_COMMITTEE (compute_epoch_at_slot c s')))).
Proof.
  intros p mem hasacct f accts e rr Hc vs.
  destruct (fire_root_call_inv p mem hasacct f accts e rr Hc) as [Ha [_ [He Hr]]].
  split; [exact Ha|]. split; [exact He|]. split; [exact Hr|].
  split; [intro v; apply SF.signers_In|].
  intros H sig zero_sig sign c acct sigs Hspe Hrun.
  pose proof (sync_roots_signed H sig zero_sig sign c acct vs e rr sigs Hrun) as Hs.
  assert (Hep : e = compute_epoch_at_slot c (S.f_slot f)).
  { unfold compute_epoch_at_slot. rewrite Hspe. exact He. }
  assert (Hmap : zero_agrees acct (S.f_root_zero f) vs ->
                 map Some sigs = map (fun v => sg_value H sig zero_sig sign c acct (S.root_sig p f rr v)) vs).
  { intro Hz. rewrite Hs, map_map. apply map_ext_in. intros v Hv.
    rewrite (root_sig_value H sig zero_sig sign c acct p f rr v (Hz v Hv)).
    unfold S.epoch_of_slot. rewrite <- He. reflexivity. }
  split; [|split].
  - rewrite Hs, Hep. reflexivity.
  - exact Hmap.
  - intros Hz s' r' v x Hin.
    apply SF.fire_submitted_inv in Hin as [_ [_ [r0 [Hr0 Hin]]]].
    rewrite Hr in Hr0. injection Hr0 as <-.
    apply SF.messages_In in Hin as [-> [-> [Hv [Hnz ->]]]].
    destruct (In_nth_error _ _ Hv) as [k Hk].
    exists k, (expected sig zero_sig sign (acct v) (spec_signing_root H c (MSyncMessage e rr))).
    split; [exact Hk|]. split; [rewrite Hs; exact (nth_error_map_some _ _ _ _ Hk)|].
    assert (Hf : a_fail (acct v) = false).
    { destruct (a_fail (acct v)) eqn:Ef; [|reflexivity]. exfalso. apply Hnz, (Hz v Hv). exact Ef. }
    unfold expected. rewrite Hf. cbn [sg_value]. unfold S.epoch_of_slot. rewrite <- He. split; [reflexivity|].
    rewrite Hep. reflexivity.
Qed.

(* SignSyncCommitteeSelections of the prepare job *)
Lemma fire_sync_selections_signed :
  forall p mem hasacct f (pairs : list (N * N)),
    (forall x, In x pairs -> In x (S.opt_list (S.o_sel_call (S.fire p mem hasacct f)))) ->
    (forall x, In x pairs ->
       exists ps pos, In (fst x, ps) mem /\ hasacct (fst x) = true /\ In pos ps /\ snd x = SF.spec_subcommittee p pos)
    /\ forall (H : N -> N -> N) (sig : Type) (zero_sig : sig) (sign : N -> N -> sig) (c : chain)
              (acct : N -> account) (sigs : list sig),
         run H sig zero_sig (spec_provider H c) (honest H sig sign) (spec_service c)
             (ReqSyncSelections (map (fun x => acct (fst x)) pairs) (S.f_slot f) (map snd pairs)) = Ok sigs ->
         (* the altair get_sync_committee_selection_proof of each (member, subcommittee) for the fired slot *)
         sigs = map (fun x => expected sig zero_sig sign (acct (fst x))
                                (compute_signing_root H (htr_sync_selection_data H (S.f_slot f) (snd x))
                                   (get_domain H c DOMAIN_SYNC_COMMITTEE_SELECTION_PROOF
                                               (compute_epoch_at_slot c (S.f_slot f))))) pairs
         /\ (zero_agrees acct (S.f_sel_zero f) (map fst pairs) ->
             map Some sigs = map (fun x => sg_value H sig zero_sig sign c acct (S.sel_sig f x)) pairs).
Proof.
  intros p mem hasacct f pairs Hincl. split.
  - intros x Hx. apply Hincl, SF.fire_sel_call_In, SF.sel_pairs_In in Hx.
    destruct Hx as [[v ps] [pos [Hm [Ha [Hp ->]]]]]. cbn [fst snd] in *. exists ps, pos. auto.
  - intros H sig zero_sig sign c acct sigs Hrun.
    pose proof (sync_selections_signed H sig zero_sig sign c acct pairs (S.f_slot f) sigs Hrun) as Hs.
    split; [rewrite Hs; reflexivity|].
    intro Hz. rewrite Hs, map_map. apply map_ext_in. intros x Hx.
    rewrite (sel_sig_value H sig zero_sig sign c acct f x); [reflexivity|].
    apply Hz. apply in_map. exact Hx.
Qed.

(* SignContributionAndProofs of the aggregation job *)
Lemma fire_contributions_signed :
  forall p mem hasacct f (ks : list S.contrib),
    (forall k, In k ks -> In k (S.opt_list (S.o_contribs (S.fire p mem hasacct f)))) ->
    (forall k, In k ks ->
       In (S.cp_agg k, S.cp_subc k) (S.aggregators p mem hasacct f)
       /\ S.cp_slot k = S.f_slot f /\ S.f_root f = Some (S.cp_root k)
       /\ S.cp_proof k = S.sel_sig f (S.cp_agg k, S.cp_subc k))
    /\ forall (H : N -> N -> N) (sig : Type) (zero_sig : sig) (sign : N -> N -> sig) (c : chain)
              (acct : N -> account) (bits nsig : S.contrib -> N) (enc : sig -> N) (sigs : list sig),
         run H sig zero_sig (spec_provider H c) (honest H sig sign) (spec_service c)
             (cp_request H sig zero_sig sign c acct bits nsig enc ks) = Ok sigs ->
         (* the altair get_contribution_and_proof_signature of each aggregator over its
            ContributionAndProof, with the fork of the FIRED slot's epoch *)
         sigs = map (fun k => expected sig zero_sig sign (acct (S.cp_agg k))
                                (compute_signing_root H
                                   (htr_contribution_and_proof H (cp06 H sig zero_sig sign c acct bits nsig enc k))
                                   (get_domain H c DOMAIN_CONTRIBUTION_AND_PROOF
                                               (compute_epoch_at_slot c (S.f_slot f))))) ks
         (* the selection proof inside each is the signer's answer for (aggregator, fired slot,
            subcommittee of the contribution) -- the value of the model's tag *)
         /\ forall k, In k ks ->
              (In (S.cp_agg k) (S.f_sel_zero f) <-> a_fail (acct (S.cp_agg k)) = true) ->
              cp_selection_proof (cp06 H sig zero_sig sign c acct bits nsig enc k)
              = enc (expected sig zero_sig sign (acct (S.cp_agg k))
                       (compute_signing_root H (htr_sync_selection_data H (S.f_slot f) (S.cp_subc k))
                          (get_domain H c DOMAIN_SYNC_COMMITTEE_SELECTION_PROOF
                                      (compute_epoch_at_slot c (S.f_slot f))))).
Proof.
  intros p mem hasacct f ks Hincl.
  assert (Hsound : forall k, In k ks ->
       In (S.cp_agg k, S.cp_subc k) (S.aggregators p mem hasacct f)
       /\ S.cp_slot k = S.f_slot f /\ S.f_root f = Some (S.cp_root k)
       /\ S.cp_proof k = S.sel_sig f (S.cp_agg k, S.cp_subc k)).
  { intros k Hk. destruct (SF.contribution_sound p mem hasacct f k (Hincl k Hk)) as [H1 [H2 [H3 [H4 _]]]]. auto. }
  split; [exact Hsound|].
  intros H sig zero_sig sign c acct bits nsig enc sigs Hrun.
  split.
  - rewrite (contributions_signed H sig zero_sig sign c acct bits nsig enc ks sigs Hrun).
    apply map_ext_in. intros k Hk. unfold cp_value. rewrite cp_value_epoch.
    destruct (Hsound k Hk) as [_ [Hslot _]]. rewrite Hslot. reflexivity.
  - intros k Hk Hz. destruct (Hsound k Hk) as [_ [_ [_ Hproof]]].
    cbn [cp06 cp_selection_proof]. unfold proof_bytes. rewrite Hproof.
    rewrite (sel_sig_value H sig zero_sig sign c acct f (S.cp_agg k, S.cp_subc k) Hz). reflexivity.
Qed.

(* the model's own batch: never empty, all of the fired slot -- so the signer does not refuse it *)
Lemma fire_contribution_batch_accepted :
  forall p mem hasacct f (ks : list S.contrib),
    S.o_contribs (S.fire p mem hasacct f) = Some ks ->
    ks <> [] /\ (forall k, In k ks -> S.cp_slot k = S.f_slot f)
    /\ forall (H : N -> N -> N) (sig : Type) (zero_sig : sig) (sign : N -> N -> sig) (c : chain)
              (acct : N -> account) (bits nsig : S.contrib -> N) (enc : sig -> N),
         let items := combine (map (fun k => acct (S.cp_agg k)) ks)
                              (map (htr_contribution_and_proof H)
                                   (map (cp06 H sig zero_sig sign c acct bits nsig enc) ks)) in
         uniform (filter not_dist items) -> uniform (filter is_dist items) ->
         run H sig zero_sig (spec_provider H c) (honest H sig sign) (spec_service c)
             (cp_request H sig zero_sig sign c acct bits nsig enc ks)
         = Ok (map (cp_value H sig zero_sig sign c acct bits nsig enc) ks).
Proof.
  intros p mem hasacct f ks Hks.
  assert (Hslot : forall k, In k ks -> S.cp_slot k = S.f_slot f).
  { intros k Hk. assert (Hin : In k (S.opt_list (S.o_contribs (S.fire p mem hasacct f)))) by (rewrite Hks; exact Hk).
    exact (proj1 (proj2 (SF.contribution_sound p mem hasacct f k Hin))). }
  assert (Hne : ks <> []).
  { pose proof (SF.fire_agg_eq p mem hasacct f) as Heq. rewrite Hks in Heq.
    destruct (S.f_root f) as [r|]; [|discriminate].
    destruct (SF.message_ok p mem hasacct f r); [|discriminate].
    destruct (S.aggregators p mem hasacct f) as [|x xs] eqn:Ea; [discriminate|].
    injection Heq as _ Hc. unfold S.contributions in Hc.
    destruct (existsb _ (x :: xs)); [discriminate|]. destruct (S.f_cp_err f); [discriminate|].
    injection Hc as ->. discriminate. }
  split; [exact Hne|]. split; [exact Hslot|].
  intros H sig zero_sig sign c acct bits nsig enc items Hu1 Hu2.
  exact (contributions_of_one_slot_accepted H sig zero_sig sign c acct bits nsig enc ks (S.f_slot f) Hne Hslot Hu1 Hu2).
Qed.

(* Aggregate called on its own: the same for its contributions (slot of the duty) *)
Lemma aggregate_contributions_signed :
  forall (a : S.agg_in) (ks : list S.contrib),
    S.aggregate a = Some ks ->
    ks <> [] /\ (forall k, In k ks -> S.cp_slot k = S.a_slot a /\ SF.agg_root a = Some (S.cp_root k)
                                      /\ In (S.cp_agg k) (S.a_accts a))
    /\ forall (H : N -> N -> N) (sig : Type) (zero_sig : sig) (sign : N -> N -> sig) (c : chain)
              (acct : N -> account) (bits nsig : S.contrib -> N) (enc : sig -> N),
         (forall sigs,
            run H sig zero_sig (spec_provider H c) (honest H sig sign) (spec_service c)
                (cp_request H sig zero_sig sign c acct bits nsig enc ks) = Ok sigs ->
            sigs = map (fun k => expected sig zero_sig sign (acct (S.cp_agg k))
                                   (compute_signing_root H
                                      (htr_contribution_and_proof H (cp06 H sig zero_sig sign c acct bits nsig enc k))
                                      (get_domain H c DOMAIN_CONTRIBUTION_AND_PROOF
                                                  (compute_epoch_at_slot c (S.a_slot a))))) ks)
         /\ (let items := combine (map (fun k => acct (S.cp_agg k)) ks)
                                  (map (htr_contribution_and_proof H)
                                       (map (cp06 H sig zero_sig sign c acct bits nsig enc) ks)) in
             uniform (filter not_dist items) -> uniform (filter is_dist items) ->
             run H sig zero_sig (spec_provider H c) (honest H sig sign) (spec_service c)
                 (cp_request H sig zero_sig sign c acct bits nsig enc ks)
             = Ok (map (cp_value H sig zero_sig sign c acct bits nsig enc) ks)).
Proof.
  intros a ks Hks.
  assert (Hfacts : forall k, In k ks -> S.cp_slot k = S.a_slot a /\ SF.agg_root a = Some (S.cp_root k)
                                        /\ In (S.cp_agg k) (S.a_accts a)).
  { intros k Hk. assert (Hin : In k (S.opt_list (S.aggregate a))) by (rewrite Hks; exact Hk).
    apply SF.aggregate_In in Hin as [r [Hr [_ [_ [x [Hx ->]]]]]]. cbn [S.agg_contrib S.cp_slot S.cp_root S.cp_agg].
    split; [reflexivity|]. split; [exact Hr|].
    apply SF.agg_items_In in Hx as [m [_ [Hm [_ Hf]]]]. rewrite Hf. exact Hm. }
  assert (Hne : ks <> []).
  { unfold S.aggregate in Hks.
    destruct (match S.a_cached a with Some r => Some r | None => S.a_head a end) as [r|]; [|discriminate].
    destruct (existsb _ (S.agg_items a)); [discriminate|].
    destruct (S.agg_items a) as [|y ys] eqn:Ei; [discriminate|].
    destruct (S.a_cp_err a); [discriminate|]. injection Hks as <-.
    intro Hnil. apply map_eq_nil in Hnil. apply (proj1 (SP.sort_by_nil _ S.pair_key (y :: ys))) in Hnil. discriminate Hnil. }
  split; [exact Hne|]. split; [exact Hfacts|].
  intros H sig zero_sig sign c acct bits nsig enc. split.
  - intros sigs Hrun.
    rewrite (contributions_signed H sig zero_sig sign c acct bits nsig enc ks sigs Hrun).
    apply map_ext_in. intros k Hk. unfold cp_value. rewrite cp_value_epoch.
    rewrite (proj1 (Hfacts k Hk)). reflexivity.
  - intros items Hu1 Hu2.
    exact (contributions_of_one_slot_accepted H sig zero_sig sign c acct bits nsig enc ks (S.a_slot a) Hne
             (fun k Hk => proj1 (Hfacts k Hk)) Hu1 Hu2).
Qed.

(* ============================================================================================ *)
(* Additions.                                                                                   *)

(* (a) with C11_registration_content_and_signer: what reaches a relay is the configured content,
   and the signature attached to it is the validator's account's over exactly that message *)
Lemma relay_registrations_configured_and_signed :
  forall (acct_of : N -> N) (ops : list R.op),
    RP.accts_ok acct_of ops ->
    forall i r err reqs relays nodes,
      nth_error ops i = Some (R.ORound r) ->
      nth_error (snd (R.run R.init ops)) i = Some (R.OutRound err reqs relays nodes) ->
      forall a regs sr, In (a, regs) relays -> In sr regs ->
        exists v res rc q,
          In v (R.r_vals r) /\ R.v_res v = Some res /\ In rc (R.rs_relays res) /\ R.rc_addr rc = a
          (* the message submitted *)
          /\ sreg_msg sr = Registration (R.rc_fee rc) (R.rc_gas rc) (R.sr_stamp sr) (R.v_pub v)
          (* the signing request made for it, successfully, in this round or an earlier one *)
          /\ In q (RP.all_reqs (firstn (S i) (snd (R.run R.init ops)))) /\ R.q_ok q = true
          /\ R.q_acct q = R.v_acct v /\ reg_msg (R.q_content q) (R.q_stamp q) = sreg_msg sr
          /\ forall (H : N -> N -> N) (sig : Type) (zero_sig : sig) (sign : N -> N -> sig) (c : chain)
                    (acct : N -> account) (sigs : list sig),
               run H sig zero_sig (spec_provider H c) (honest H sig sign) (spec_service c) (reg_request acct q) = Ok sigs ->
               (R.sr_stamp sr < uint64_bound -> sigs = [reg_sig_value H sig sign c acct (R.sr_sig sr)])
               /\ reg_sig_value H sig sign c acct (R.sr_sig sr)
                  = sign (a_key (acct (R.v_acct v)))
                         (builder_signing_root H c (Registration (R.rc_fee rc) (R.rc_gas rc) (R.sr_stamp sr) (R.v_pub v)))
               /\ a_fail (acct (R.v_acct v)) = false.
Proof.
  intros acct_of ops Hacc i r err reqs relays nodes Hop Hout a regs sr Hin Hsr.
  destruct (Properties.C11.C11_registration_content_and_signer acct_of ops Hacc i r err reqs relays nodes Hop Hout a regs sr Hin Hsr)
    as [_ [v [res [rc [Hv [Hres [Hrc [Haddr [Hct [Hsig Hq]]]]]]]]]].
  set (q := {| R.q_acct := R.v_acct v; R.q_content := R.sr_content sr; R.q_stamp := R.sr_stamp sr; R.q_ok := true |}) in *.
  assert (Hm : sreg_msg sr = Registration (R.rc_fee rc) (R.rc_gas rc) (R.sr_stamp sr) (R.v_pub v)).
  { unfold sreg_msg, reg_msg. rewrite Hct. reflexivity. }
  exists v, res, rc, q. repeat (split; [first [assumption | reflexivity]|]).
  intros H sig zero_sig sign c acct sigs Hrun.
  destruct (reg_request_signed H sig zero_sig sign c acct q sigs Hrun) as [Hs Hf].
  cbn [q R.q_acct R.q_content R.q_stamp] in Hs, Hf. fold (sreg_msg sr) in Hs.
  assert (Hval : reg_sig_value H sig sign c acct (R.sr_sig sr)
                 = sign (a_key (acct (R.v_acct v))) (builder_signing_root H c (sreg_msg sr))).
  { rewrite Hsig. reflexivity. }
  split; [intro Hfit; rewrite Hval; exact (Hs Hfit)|]. split; [rewrite Hval, Hm; reflexivity | exact Hf].
Qed.

(* (c) the fired slot of a call of scheduleSyncCommitteeMessages: anything happens only when the
   slot has its prepare job, and then with the members and accounts of the call *)
Lemma fire_scheduled_cases : forall p i f,
  (S.fire_scheduled p i f = S.fire p (S.members i) (S.has_account i) f
   /\ In (S.JPrepare, S.f_slot f, S.prepare_time p (S.f_slot f)) (S.so_jobs (S.schedule p i)))
  \/ S.fire_scheduled p i f = S.no_fire.
Proof.
  intros p i f. unfold S.fire_scheduled.
  destruct (S.has_prepare (S.so_jobs (S.schedule p i)) (S.f_slot f)) eqn:Hp; [left|right; reflexivity].
  split; [reflexivity|].
  apply SF.has_prepare_spec in Hp. destruct Hp as (t & Ht).
  assert (Hrd : SP.ready p i).
  { destruct (SP.ready_dec p i) as [Hy|Hn]; [exact Hy|].
    destruct (SP.schedule_not_ready p i Hn) as (Hj & _). rewrite Hj in Ht. destruct Ht. }
  destruct (SP.schedule_ready p i Hrd) as (Hj & _). rewrite Hj in Ht |- *.
  apply in_map_iff in Ht. destruct Ht as (s0 & Heq & Hs0). injection Heq as <- _.
  apply in_map_iff. exists s0. auto.
Qed.

Lemma scheduled_signers : forall i v,
  In v (S.signers (S.members i) (S.has_account i)) <-> SF.has_duty i v /\ SF.holds_account i v.
Proof.
  intros i v. rewrite SF.signers_In, SP.members_keys, SP.has_account_spec. reflexivity.
Qed.
