(* C04: lemmas about the pure part of Attest (index bookkeeping, attestation construction). *)
From Verif Require Import Lib.Base Model.C01_Attester Proofs.C01.
From Coq Require Import ZifyBool ZifyN ZifyNat.

(* --- the validator index -> array index map ------------------------------------------------- *)
Lemma index_map_some vals : forall j0 m v k,
  aget (index_map vals j0 m) v = Some k ->
  (aget m v = Some k /\ ~ In v vals) \/ (j0 <= k /\ nth_error vals (k - j0) = Some v)%nat.
Proof.
  induction vals as [|x vals IH]; cbn [index_map]; intros j0 m v k H.
  - left. split; [exact H | intros []].
  - destruct (IH _ _ _ _ H) as [[Hm Hn]|[Hle Hnth]].
    + rewrite aget_aset in Hm. destruct (x =? v) eqn:E.
      * apply N.eqb_eq in E. subst x. injection Hm as <-. right. split; [lia|].
        rewrite Nat.sub_diag. reflexivity.
      * left. split; [exact Hm|]. intros [->|Hin]; [rewrite N.eqb_refl in E; discriminate | exact (Hn Hin)].
    + right. split; [lia|]. replace (k - j0)%nat with (S (k - S j0)) by lia. exact Hnth.
Qed.

Lemma index_map_defined vals : forall j0 m v,
  In v vals \/ (exists k, aget m v = Some k) -> exists k, aget (index_map vals j0 m) v = Some k.
Proof.
  induction vals as [|x vals IH]; cbn [index_map]; intros j0 m v H.
  - destruct H as [[]|H]; exact H.
  - apply IH. destruct H as [[->|Hin]|[k Hk]].
    + right. exists j0. rewrite aget_aset, N.eqb_refl. reflexivity.
    + left. exact Hin.
    + right. rewrite aget_aset. destruct (x =? v); eauto.
Qed.

Lemma idx_of_spec vals v : In v vals -> nth_error vals (idx_of vals v) = Some v.
Proof.
  intro Hin. unfold idx_of.
  destruct (index_map_defined vals 0 [] v (or_introl Hin)) as [k Hk]. rewrite Hk.
  destruct (index_map_some vals 0 [] v k Hk) as [[Hm _]|[_ Hnth]]; [discriminate|].
  rewrite Nat.sub_0_r in Hnth. exact Hnth.
Qed.

(* --- duties ------------------------------------------------------------------------------- *)
(* what MergeDuties / the beacon node guarantee: parallel arrays of equal length, positions
   inside the committee (NewDuty itself only checks that every committee has a length) *)
Definition wf_duty (d : duty) : Prop :=
  length (d_comms d) = length (d_vals d) /\
  length (d_poss d) = length (d_vals d) /\
  forall j c p, nth_error (d_comms d) j = Some c -> nth_error (d_poss d) j = Some p -> p < size_of d c.

Lemma nth_of_nth_error {A} (l : list A) j x dflt : nth_error l j = Some x -> nth j l dflt = x.
Proof. revert j. induction l as [|y l IH]; destruct j; cbn; intro H; try discriminate; [congruence | auto]. Qed.

Lemma nth_error_defined {A} (l : list A) j : (j < length l)%nat -> exists x, nth_error l j = Some x.
Proof. intro H. destruct (nth_error l j) eqn:E; [eauto|]. apply nth_error_None in E. lia. Qed.

(* the per-account information is the validator's own row of the duty *)
Lemma arg_of_spec d v :
  wf_duty d -> In v (d_vals d) ->
  exists j c p, nth_error (d_vals d) j = Some v /\ nth_error (d_comms d) j = Some c /\
                nth_error (d_poss d) j = Some p /\ p < size_of d c /\
                arg_of d v = (v, c, p, size_of d c).
Proof.
  intros [Hl1 [Hl2 Hpos]] Hin.
  pose proof (idx_of_spec _ _ Hin) as Hj.
  set (j := idx_of (d_vals d) v) in *.
  assert (Hlt : (j < length (d_vals d))%nat) by (apply nth_error_Some; congruence).
  destruct (nth_error_defined (d_comms d) j ltac:(lia)) as [c Hc].
  destruct (nth_error_defined (d_poss d) j ltac:(lia)) as [p Hp].
  exists j, c, p. repeat split; auto; [eapply Hpos; eauto|].
  unfold arg_of. fold j. rewrite (nth_of_nth_error _ _ _ _ Hc), (nth_of_nth_error _ _ _ _ Hp). reflexivity.
Qed.

(* --- attestation construction ------------------------------------------------------------- *)
Lemma in_attestations d a unsigned args x :
  In x (attestations d a args unsigned) <->
  exists g, In g args /\ ~ In (sa_v g) unsigned /\ sa_size g <= max_committee /\
            x = make_att d a g (sa_v g, mkvote (d_slot d) (sa_comm g) a).
Proof.
  unfold attestations. induction args as [|g args IH]; cbn [map create_atts].
  - split; [intros [] | intros [g [[] _]]].
  - unfold sign_one at 1. destruct (memb N.eqb (sa_v g) unsigned) eqn:Hm.
    + apply memb_N_true in Hm. rewrite IH. split.
      * intros [g' [Hin H]]. exists g'. split; [right; exact Hin | exact H].
      * intros [g' [[<-|Hin] [Hn H]]]; [contradiction | exists g'; auto].
    + apply memb_N_false in Hm. destruct (sa_size g <=? max_committee) eqn:Hsz.
      * apply N.leb_le in Hsz. cbn [In]. rewrite IH. split.
        -- intros [<-|[g' [Hin H]]]; [exists g; repeat split; auto | exists g'; split; [right; exact Hin | exact H]].
        -- intros [g' [[<-|Hin] [Hn [Hs H]]]]; [left; symmetry; exact H | right; exists g'; auto].
      * apply N.leb_gt in Hsz. rewrite IH. split.
        -- intros [g' [Hin H]]. exists g'. split; [right; exact Hin | exact H].
        -- intros [g' [[<-|Hin] [Hn [Hs H]]]]; [lia | exists g'; auto].
Qed.

(* exactly one attestation per account whose signature is not zero and whose committee is not
   larger than the maximum committee size, in the order of the accounts *)
Definition attests (unsigned : list vidx) (g : sarg) : bool :=
  negb (memb N.eqb (sa_v g) unsigned) && (sa_size g <=? max_committee).

Lemma attestations_signers d a unsigned args :
  map (fun x => fst (at_sig x)) (attestations d a args unsigned) =
  map sa_v (filter (attests unsigned) args).
Proof.
  unfold attestations, attests. induction args as [|g args IH]; cbn [map create_atts filter]; [reflexivity|].
  unfold sign_one at 1. destruct (memb N.eqb (sa_v g) unsigned); cbn [negb andb map]; [exact IH|].
  destruct (sa_size g <=? max_committee); cbn [map]; [|exact IH].
  cbn [make_att at_sig fst]. f_equal. exact IH.
Qed.

Lemma in_sign_args d claimed avail g :
  In g (sign_args d claimed avail) <-> exists v, In v avail /\ In v claimed /\ g = arg_of d v.
Proof.
  unfold sign_args. rewrite in_map_iff. split.
  - intros [v [E Hin]]. apply accounts_for_in in Hin. exists v. split; [tauto | split; [tauto | congruence]].
  - intros [v [H1 [H2 E]]]. exists v. split; [congruence | apply accounts_for_in; tauto].
Qed.

Definition assignment_ok (d : duty) (a : adata) (x : att) : Prop :=
  let v := fst (at_sig x) in
  exists j c p,
    nth_error (d_vals d) j = Some v /\ nth_error (d_comms d) j = Some c /\ nth_error (d_poss d) j = Some p /\
    at_len x = size_of d c /\ at_bits x = [p] /\
    at_vote x = mkvote (d_slot d) c a /\
    at_sig x = (v, at_vote x).

Lemma assignment d claimed avail a unsigned x :
  wf_duty d -> incl claimed (d_vals d) ->
  In x (attestations d a (sign_args d claimed avail) unsigned) ->
  let v := fst (at_sig x) in
  In v claimed /\ In v avail /\ ~ In v unsigned /\ assignment_ok d a x.
Proof.
  intros Hwf Hincl Hin. apply in_attestations in Hin as [g [Hg [Hns [_ Hx]]]].
  apply in_sign_args in Hg as [v [Hav [Hcl Hg]]].
  destruct (arg_of_spec d v Hwf (Hincl v Hcl)) as [j [c [p [Hv [Hc [Hp [Hlt Harg]]]]]]].
  rewrite Harg in Hg. subst g. cbn [sa_v sa_comm sa_pos sa_size fst snd] in *.
  subst x. unfold assignment_ok. cbn [make_att at_sig at_len at_bits at_vote fst snd sa_v sa_comm sa_pos sa_size].
  repeat split; auto.
  exists j, c, p. repeat split; auto.
  apply N.ltb_lt in Hlt. rewrite Hlt. reflexivity.
Qed.

Lemma unsigned_absent d claimed avail a unsigned x :
  In x (attestations d a (sign_args d claimed avail) unsigned) ->
  let v := fst (at_sig x) in In v claimed /\ In v avail /\ ~ In v unsigned.
Proof.
  intros Hin. apply in_attestations in Hin as [g [Hg [Hns [_ Hx]]]].
  apply in_sign_args in Hg as [v [Hav [Hcl Hg]]].
  subst x g. cbn. auto.
Qed.

Lemma signed_present d claimed avail a unsigned v :
  In v claimed -> In v avail -> ~ In v unsigned -> sa_size (arg_of d v) <= max_committee ->
  exists x, In x (attestations d a (sign_args d claimed avail) unsigned) /\ fst (at_sig x) = v.
Proof.
  intros Hcl Hav Hns Hsz.
  exists (make_att d a (arg_of d v) (v, mkvote (d_slot d) (sa_comm (arg_of d v)) a)). split; [|reflexivity].
  apply in_attestations. exists (arg_of d v). repeat split; auto.
  apply in_sign_args. exists v. auto.
Qed.

(* the signing request: the k-th account is paired with its own committee index *)
Lemma sign_args_aligned i d claimed avail a v c :
  wf_duty d -> incl claimed (d_vals d) ->
  In (v, c) (sr_pairs (mk_signreq i d a (sign_args d claimed avail))) ->
  In v claimed /\ In v avail /\
  exists j, nth_error (d_vals d) j = Some v /\ nth_error (d_comms d) j = Some c.
Proof.
  intros Hwf Hincl Hin. cbn [mk_signreq sr_pairs] in Hin.
  apply in_map_iff in Hin as [g [E Hg]]. apply in_sign_args in Hg as [v' [Hav [Hcl Hg]]].
  destruct (arg_of_spec d v' Hwf (Hincl v' Hcl)) as [j [c' [p [Hv [Hc [Hp [Hlt Harg]]]]]]].
  rewrite Harg in Hg. subst g. cbn in E. injection E as <- <-. eauto.
Qed.

(* the attestations handed to the submitter are built from the same per-account rows as the
   signing request: k-th signature <-> k-th account <-> k-th committee index *)
Lemma signreq_matches_attestations i d claimed avail a unsigned :
  map (fun x => (fst (at_sig x), vt_comm (at_vote x))) (attestations d a (sign_args d claimed avail) unsigned) =
  filter (fun p => negb (memb N.eqb (fst p) unsigned) && (size_of d (snd p) <=? max_committee))
         (sr_pairs (mk_signreq i d a (sign_args d claimed avail))).
Proof.
  cbn [mk_signreq sr_pairs]. unfold sign_args. generalize (accounts_for avail claimed) as l.
  unfold attestations. induction l as [|v l IH]; cbn [map create_atts filter]; [reflexivity|].
  unfold sign_one at 1. cbn [arg_of sa_v sa_comm sa_size fst snd].
  destruct (memb N.eqb v unsigned); cbn [negb andb map]; [exact IH|].
  destruct (size_of d (nth (idx_of (d_vals d) v) (d_comms d) 0) <=? max_committee); [|exact IH].
  cbn [map make_att at_sig at_vote fst mkvote vt_comm arg_of sa_v sa_comm]. f_equal. exact IH.
Qed.

(* the same, by validator: who gets an attestation *)
Lemma sign_args_signers d claimed avail a unsigned :
  map (fun x => fst (at_sig x)) (attestations d a (sign_args d claimed avail) unsigned) =
  filter (fun v => negb (memb N.eqb v unsigned) && (sa_size (arg_of d v) <=? max_committee))
         (accounts_for avail claimed).
Proof.
  rewrite attestations_signers. unfold sign_args, attests. generalize (accounts_for avail claimed) as l.
  induction l as [|v l IH]; cbn [map filter]; [reflexivity|].
  replace (sa_v (arg_of d v)) with v by reflexivity.
  destruct (negb (memb N.eqb v unsigned) && (sa_size (arg_of d v) <=? max_committee)); cbn [map]; [f_equal|]; exact IH.
Qed.

(* --- lifted to every history ----------------------------------------------------------------- *)
Section Sys.
  Variable spe : N.
  Variable rs : list run.

  Lemma submitted_assignment sch i atts :
    In (Submit i atts) (g_trace (exec spe rs sch init)) ->
    exists r a, nth_error rs i = Some r /\ s_fetch (r_script r) = Some a /\
      (wf_duty (r_duty r) ->
       forall x, In x atts ->
         In (fst (at_sig x)) (d_vals (r_duty r)) /\
         (forall avail, s_accounts (r_script r) = Some avail -> In (fst (at_sig x)) avail) /\
         (forall unsigned, s_sign (r_script r) = Some unsigned -> ~ In (fst (at_sig x)) unsigned) /\
         assignment_ok (r_duty r) a x).
  Proof.
    intro Hin. pose proof (proj1 (Forall_forall _ _) (trace_evinv spe rs sch) _ Hin) as H.
    cbn [evinv] in H. destruct H as [r [a [avail [claimed [unsigned [Hr [Hf [Hv [Ha [Hs [Hc [Hatts _]]]]]]]]]]]].
    exists r, a. repeat split; auto; subst atts;
      destruct (assignment _ _ _ _ _ _ H Hc H0) as [H1 [H2 [H3 H4]]]; auto.
    - intros avail' E. rewrite Ha in E. injection E as <-. exact H2.
    - intros unsigned' E. rewrite Hs in E. injection E as <-. exact H3.
  Qed.

  (* overlapping calls do not enter one another's attestations: what call i submits is computed from
     call i's own duty, the answers call i's environment gave, and the validators of that duty that
     passed the filter -- whatever the other calls of the history are and however they interleave *)
  Lemma submitted_own_duty sch i atts :
    In (Submit i atts) (g_trace (exec spe rs sch init)) ->
    exists r a avail unsigned claimed,
      nth_error rs i = Some r /\ s_fetch (r_script r) = Some a /\ s_accounts (r_script r) = Some avail /\
      s_sign (r_script r) = Some unsigned /\ incl claimed (d_vals (r_duty r)) /\
      atts = attestations (r_duty r) a (sign_args (r_duty r) claimed avail) unsigned.
  Proof.
    intro Hin. pose proof (proj1 (Forall_forall _ _) (trace_evinv spe rs sch) _ Hin) as H.
    cbn [evinv] in H. destruct H as [r [a [avail [claimed [unsigned [Hr [Hf [Hv [Ha [Hs [Hc [Hatts _]]]]]]]]]]]].
    exists r, a, avail, unsigned, claimed. repeat split; assumption.
  Qed.

  Lemma signreq_assignment sch q :
    In (SignReq q) (g_trace (exec spe rs sch init)) ->
    exists r a, nth_error rs (sr_run q) = Some r /\ s_fetch (r_script r) = Some a /\
      sr_slot q = d_slot (r_duty r) /\ sr_root q = a_root a /\
      sr_src q = a_src a /\ sr_src_root q = a_src_root a /\ sr_tgt q = a_tgt a /\ sr_tgt_root q = a_tgt_root a /\
      (wf_duty (r_duty r) ->
       forall v c, In (v, c) (sr_pairs q) ->
         exists j, nth_error (d_vals (r_duty r)) j = Some v /\ nth_error (d_comms (r_duty r)) j = Some c).
  Proof.
    intro Hin. pose proof (proj1 (Forall_forall _ _) (trace_evinv spe rs sch) _ Hin) as H.
    cbn [evinv] in H. destruct H as [r [a [avail [claimed [Hr [Hf [Hv [Ha [Hc Hq]]]]]]]]].
    exists r, a. split; [exact Hr|]. split; [exact Hf|].
    rewrite Hq. cbn [mk_signreq sr_run sr_pairs sr_slot sr_root sr_src sr_src_root sr_tgt sr_tgt_root].
    repeat split; auto.
    intros Hwf v c Hp.
    destruct (sign_args_aligned (sr_run q) _ _ _ a _ _ Hwf Hc Hp) as [_ [_ H]]. exact H.
  Qed.
End Sys.
