(* C06 — lemmas about the signer model (Model/C06_Signer.v). *)
From Verif Require Import Lib.Base Lib.Ssz Model.C06_Signer.
From Coq Require Import Lia Arith.

Local Open Scope N_scope.

(* ------------------------------------------------------------------------------------------ *)
(* Slices: upd_nth, firstn, skipn.                                                              *)

Lemma upd_nth_length {A} (i : nat) (v : A) (l : list A) : length (upd_nth i v l) = length l.
Proof. revert i; induction l as [|x l IH]; intros [|i]; cbn; auto. Qed.

Lemma upd_nth_comm {A} (i j : nat) (v w : A) (l : list A) :
  i <> j -> upd_nth i v (upd_nth j w l) = upd_nth j w (upd_nth i v l).
Proof.
  revert i j; induction l as [|x l IH]; intros [|i] [|j] Hne; cbn; auto; try congruence.
  f_equal; apply IH; congruence.
Qed.

Lemma firstn_upd_nth {A} (i : nat) (v : A) (l : list A) :
  (i < length l)%nat -> firstn (S i) (upd_nth i v l) = firstn i l ++ [v].
Proof.
  revert i; induction l as [|x l IH]; intros [|i] Hlt; cbn in *; try lia; auto.
  f_equal. apply IH. lia.
Qed.

Lemma skipn_upd_nth {A} (i n : nat) (v : A) (l : list A) :
  (i < n)%nat -> skipn n (upd_nth i v l) = skipn n l.
Proof.
  revert i n; induction l as [|x l IH]; intros [|i] [|n] Hlt; cbn; try lia; auto.
  apply IH; lia.
Qed.

Lemma skipn_all_repeat {A} (x : A) (n : nat) : skipn n (repeat x n) = [].
Proof. induction n; cbn; auto. Qed.

(* ------------------------------------------------------------------------------------------ *)
(* combine / map.                                                                               *)

Lemma combine_map_fst_snd {A B} (l : list (A * B)) : combine (map fst l) (map snd l) = l.
Proof. induction l as [|[a b] l IH]; cbn; congruence. Qed.

Lemma combine_map_r {A B C} (g : B -> C) (l : list A) (l' : list B) :
  combine l (map g l') = map (fun p => (fst p, g (snd p))) (combine l l').
Proof. revert l'; induction l as [|a l IH]; intros [|b l']; cbn; auto. f_equal; apply IH. Qed.

Lemma combine_const {A B} (c : B) (l : list A) :
  combine l (map (fun _ => c) l) = map (fun a => (a, c)) l.
Proof. induction l as [|a l IH]; cbn; congruence. Qed.

Lemma combine_firstn_r {A B} (l : list A) (l' : list B) :
  combine l (firstn (length l) l') = combine l l'.
Proof. revert l'; induction l as [|a l IH]; intros [|b l']; cbn; auto. f_equal; apply IH. Qed.

Lemma combine_length_eq {A B} (l : list A) (l' : list B) :
  length l = length l' -> length (combine l l') = length l.
Proof. intro Hl. rewrite combine_length, <- Hl. apply Nat.min_id. Qed.

Lemma nth_error_combine {A B} (l : list A) (l' : list B) i a b :
  nth_error l i = Some a -> nth_error l' i = Some b -> nth_error (combine l l') i = Some (a, b).
Proof.
  revert l l'; induction i as [|i IH]; intros [|x l] [|y l']; cbn; try discriminate.
  - intros Ha Hb; injection Ha as ->; injection Hb as ->; reflexivity.
  - apply IH.
Qed.

Section Proofs.
  Variable H : N -> N -> N.
  Variable sig : Type.
  Variable zero_sig : sig.
  Variable sign : N -> N -> sig.

  Local Notation E := (honest H sig sign).
  Local Notation csr := (compute_signing_root H).

  (* what the i-th entry of a result must be: the account's signature of the signing root, or the
     zero signature for an account that cannot sign (only the multi-signature methods report
     that per account) *)
  Definition expected (a : account) (signing_root : N) : sig :=
    if a_fail a then zero_sig else sign (a_key a) signing_root.

  Lemma honest_one_some a sr s : honest_one sig sign a sr = Some s -> s = expected a sr /\ a_fail a = false.
  Proof. unfold honest_one, expected. destruct (a_fail a); intro Hs; [discriminate|]. injection Hs as <-. auto. Qed.

  Lemma honest_one_sign a sr s : honest_one sig sign a sr = Some s -> s = sign (a_key a) sr /\ a_fail a = false.
  Proof. unfold honest_one. destruct (a_fail a); intro Hs; [discriminate|]. injection Hs as <-. auto. Qed.

  Lemma sig_or_zero_honest a sr : sig_or_zero sig zero_sig (honest_one sig sign a sr) = expected a sr.
  Proof. unfold honest_one, expected, sig_or_zero. destruct (a_fail a); reflexivity. Qed.

  (* ---------------------------------------------------------------------------------------- *)
  (* helpers.go: sign                                                                           *)

  (* both paths of sign -- the protected remote call with (root, domain), and the local
     hash_tree_root(SigningData) followed by a plain Sign -- sign the same message *)
  Lemma sign_one_ok a root domain s :
    sign_one H sig E a root domain = Ok s ->
    s = sign (a_key a) (csr root domain) /\ a_fail a = false.
  Proof.
    unfold sign_one. cbn [e_generic e_sign honest].
    destruct (a_prot a).
    - destruct (honest_one sig sign a (csr root domain)) eqn:Hh; [|discriminate].
      intro Hs; injection Hs as <-. apply honest_one_sign in Hh as [-> Hf]. auto.
    - destruct (a_signer a); [|discriminate].
      destruct (honest_one sig sign a (htr_signing_data H root domain)) eqn:Hh; [|discriminate].
      intro Hs; injection Hs as <-. apply honest_one_sign in Hh as [-> Hf]. auto.
  Qed.

  Lemma sign_one_able a root domain :
    a_fail a = false -> (a_prot a || a_signer a = true) ->
    sign_one H sig E a root domain = Ok (sign (a_key a) (csr root domain)).
  Proof.
    intros Hf Hc. unfold sign_one. cbn [e_generic e_sign honest]. unfold honest_one. rewrite Hf.
    destruct (a_prot a); [reflexivity|]. cbn in Hc. rewrite Hc. reflexivity.
  Qed.

  (* ---------------------------------------------------------------------------------------- *)
  (* helpers.go: signRootsMulti                                                                 *)

  Definition item_sig (domain : N) (it : account * N) : sig := expected (fst it) (csr (snd it) domain).

  Lemma sign_each_ok items domain l :
    sign_each H sig E items domain = Ok l -> l = map (item_sig domain) items.
  Proof.
    revert l; induction items as [|[a root] items IH]; intros l; cbn [sign_each].
    - intro Hl; injection Hl as <-; reflexivity.
    - destruct (a_signer a); [|discriminate]. cbn [e_sign honest].
      destruct (honest_one sig sign a (htr_signing_data H root domain)) eqn:Hh; [|discriminate].
      destruct (sign_each H sig E items domain) as [l'| |]; try discriminate.
      intro Hl; injection Hl as <-. apply honest_one_some in Hh as [-> _]. cbn [map]. f_equal. apply IH; reflexivity.
  Qed.

  Lemma copy_sigs_exact n (l : list (option sig)) :
    length l = n -> copy_sigs sig zero_sig n l = Ok (map (sig_or_zero sig zero_sig) l).
  Proof.
    intro Hn. unfold copy_sigs. rewrite Hn, Nat.ltb_irrefl, Nat.sub_diag. cbn. rewrite app_nil_r. reflexivity.
  Qed.

  Lemma sign_roots_multi_ok items domain l :
    sign_roots_multi H sig zero_sig E items domain = Ok l -> l = map (item_sig domain) items.
  Proof.
    unfold sign_roots_multi. destruct items as [|[a0 r0] items'] eqn:Hitems; [discriminate|].
    rewrite <- Hitems. clear Hitems. destruct (a_multi a0).
    - cbn [e_multi_generic honest]. rewrite combine_map_fst_snd.
      rewrite copy_sigs_exact by (rewrite map_length; reflexivity).
      intro Hl; injection Hl as <-. rewrite map_map. apply map_ext. intros [a root]. apply sig_or_zero_honest.
    - apply sign_each_ok.
  Qed.

  (* ---------------------------------------------------------------------------------------- *)
  (* The split by account kind and the re-assembly through the index maps.                      *)

  Lemma scatter_upd_comm (idx : list nat) (vals : list sig) (i : nat) (v : sig) (s : list sig) :
    Forall (fun j => j <> i) idx ->
    upd_nth i v (scatter sig idx vals s) = scatter sig idx vals (upd_nth i v s).
  Proof.
    revert vals s; induction idx as [|j idx IH]; intros vals s Hall; [reflexivity|].
    destruct vals as [|w vals]; [reflexivity|]. cbn [scatter].
    inversion Hall as [|? ? Hj Hrest]; subst. rewrite IH by assumption.
    f_equal. apply upd_nth_comm. congruence.
  Qed.

  Lemma scatter_nil_l vals s : scatter sig [] vals s = s.
  Proof. reflexivity. Qed.

  Lemma split_from_bounds {A} (items : list (account * A)) : forall i0 o om d dm,
    split_from i0 items = ((o, om), (d, dm)) ->
    Forall (fun j => (i0 <= j)%nat) om /\ Forall (fun j => (i0 <= j)%nat) dm /\
    length om = length o /\ length dm = length d.
  Proof.
    induction items as [|it r IH]; intros i0 o om d dm; cbn [split_from].
    - intro Hs; injection Hs as <- <- <- <-. repeat split; constructor.
    - destruct (split_from (S i0) r) as [[o' om'] [d' dm']] eqn:Hr.
      destruct (IH _ _ _ _ _ Hr) as (Ho & Hd & Hlo & Hld).
      assert (Hw : forall l, Forall (fun j => (S i0 <= j)%nat) l -> Forall (fun j => (i0 <= j)%nat) l).
      { intros l Hl. eapply Forall_impl; [|exact Hl]. cbn; intros; lia. }
      destruct (a_dist (fst it)); intro Hs; injection Hs as <- <- <- <-; repeat split; cbn; auto.
  Qed.

  (* The re-assembly theorem: whatever function [f] the sub-batch signers apply item by item,
     scattering the two result vectors through the two index maps into a slice [s] writes
     [map f items] at the positions of the items and leaves the rest of [s] alone. *)
  Lemma reassemble {A} (f : account * A -> sig) (items : list (account * A)) : forall i0 o om d dm s,
    split_from i0 items = ((o, om), (d, dm)) ->
    (i0 + length items <= length s)%nat ->
    scatter sig dm (map f d) (scatter sig om (map f o) s)
    = firstn i0 s ++ map f items ++ skipn (i0 + length items) s.
  Proof.
    induction items as [|it r IH]; intros i0 o om d dm s; cbn [split_from].
    - intros Hs _; injection Hs as <- <- <- <-. cbn. rewrite Nat.add_0_r. symmetry; apply firstn_skipn.
    - destruct (split_from (S i0) r) as [[o' om'] [d' dm']] eqn:Hr. intros Hs Hlen. cbn [length] in Hlen.
      destruct (split_from_bounds _ _ _ _ _ _ Hr) as (Ho & Hd & _ & _).
      assert (Hne : forall l, Forall (fun j => (S i0 <= j)%nat) l -> Forall (fun j => j <> i0) l).
      { intros l Hl. eapply Forall_impl; [|exact Hl]. cbn; intros; lia. }
      assert (Hgoal : scatter sig dm' (map f d') (scatter sig om' (map f o') (upd_nth i0 (f it) s))
                      = firstn i0 s ++ map f (it :: r) ++ skipn (i0 + length (it :: r)) s).
      { rewrite (IH (S i0) o' om' d' dm' (upd_nth i0 (f it) s) Hr) by (rewrite upd_nth_length; lia).
        rewrite firstn_upd_nth by lia. rewrite skipn_upd_nth by lia.
        cbn [map length]. replace (i0 + S (length r))%nat with (S i0 + length r)%nat by lia.
        rewrite <- app_assoc. reflexivity. }
      destruct (a_dist (fst it)); injection Hs as <- <- <- <-.
      + cbn [map scatter]. rewrite scatter_upd_comm by (apply Hne; exact Ho). exact Hgoal.
      + cbn [map scatter]. exact Hgoal.
  Qed.

  Lemma sign_split_ok {A} (sign_group : list (account * A) -> res (list sig)) (f : account * A -> sig)
        (items : list (account * A)) (l : list sig) :
    (forall g l', sign_group g = Ok l' -> l' = map f g) ->
    sign_split sig zero_sig sign_group items = Ok l -> l = map f items.
  Proof.
    intros Hg. unfold sign_split.
    destruct (split_from 0 items) as [[o om] [d dm]] eqn:Hs.
    pose proof (reassemble f items 0 o om d dm (repeat zero_sig (length items)) Hs) as Hre.
    rewrite repeat_length in Hre. specialize (Hre (Nat.le_refl _)).
    cbn [firstn app Nat.add] in Hre. rewrite skipn_all_repeat, app_nil_r in Hre.
    destruct (split_from_bounds _ _ _ _ _ _ Hs) as (_ & _ & Hlo & Hld).
    destruct o as [|o1 o'].
    - destruct om; [|discriminate]. cbn [map scatter] in Hre.
      destruct d as [|d1 d'].
      + destruct dm; [|discriminate]. cbn in Hre. intro Hl; injection Hl as <-. exact Hre.
      + destruct (sign_group (d1 :: d')) as [ld| |] eqn:Hd; try discriminate.
        intro Hl; injection Hl as <-. rewrite (Hg _ _ Hd). exact Hre.
    - destruct (sign_group (o1 :: o')) as [lo| |] eqn:Ho; try discriminate.
      rewrite (Hg _ _ Ho).
      destruct d as [|d1 d'].
      + destruct dm; [|discriminate]. cbn [map scatter] in Hre. intro Hl; injection Hl as <-. exact Hre.
      + destruct (sign_group (d1 :: d')) as [ld| |] eqn:Hd; try discriminate.
        intro Hl; injection Hl as <-. rewrite (Hg _ _ Hd). exact Hre.
  Qed.

  Lemma sign_roots_by_account_type_ok accs roots domain l :
    sign_roots_by_account_type H sig zero_sig E accs roots domain = Ok l ->
    length accs = length roots /\ l = map (item_sig domain) (combine accs roots).
  Proof.
    unfold sign_roots_by_account_type. destruct (Nat.eqb (length accs) (length roots)) eqn:Hlen; [|discriminate].
    cbn [negb]. intro Hl. split; [apply Nat.eqb_eq; exact Hlen|].
    eapply sign_split_ok; [|exact Hl]. intros g l'. apply sign_roots_multi_ok.
  Qed.

  Lemma sign_roots_by_account_type_nth accs roots domain l i a r :
    sign_roots_by_account_type H sig zero_sig E accs roots domain = Ok l ->
    nth_error accs i = Some a -> nth_error roots i = Some r ->
    nth_error l i = Some (expected a (csr r domain)).
  Proof.
    intros Hl Ha Hr. apply sign_roots_by_account_type_ok in Hl as [_ ->].
    rewrite nth_error_map, (nth_error_combine _ _ _ _ _ Ha Hr). reflexivity.
  Qed.

  (* ---------------------------------------------------------------------------------------- *)
  (* The requests, for any service configuration and any domain provider.                       *)

  Variable P : provider.
  Variable Sv : service.
  Local Notation epoch := (epoch_of Sv).

  Lemma le_bytes_length n x : length (le_bytes n x) = n.
  Proof. revert x; induction n as [|n IH]; intro x; cbn [le_bytes length]; [reflexivity|]. rewrite IH. reflexivity. Qed.

  (* binary.LittleEndian.PutUint64 into a zeroed 32-byte array is ssz's hash_tree_root(uint64) *)
  Lemma put_uint64_le_is_u64_chunk x : put_uint64_le x = u64_chunk x.
  Proof.
    unfold put_uint64_le, u64_chunk, chunk_of_bytes, pad_right. rewrite le_bytes_length.
    f_equal.
  Qed.
  Local Opaque put_uint64_le u64_chunk.

  Lemma sign_attestation_ok a d s :
    sign_attestation H sig P E Sv a d = Ok s ->
    exists domain, p_domain P (s_attester Sv) (epoch (ad_slot d)) = Some domain /\
                   s = sign (a_key a) (csr (htr_att_data H d) domain) /\ a_fail a = false.
  Proof.
    unfold sign_attestation. destruct (p_domain P (s_attester Sv) (epoch (ad_slot d))) as [domain|]; [|discriminate].
    intro Hs. exists domain. split; [reflexivity|].
    destruct (a_prot a).
    - cbn [e_att honest] in Hs.
      destruct (honest_one sig sign a (csr (htr_att_data H d) domain)) eqn:Hh; [|discriminate].
      injection Hs as <-. apply honest_one_sign in Hh as [-> Hf]. auto.
    - apply sign_one_ok in Hs. exact Hs.
  Qed.

  Definition att_item_sig (shared : att_data) (domain : N) (it : account * N) : sig :=
    expected (fst it) (csr (htr_att_data H (att_with_index shared (snd it))) domain).

  Lemma sign_attestation_each_ok items shared domain l :
    p_domain P (s_attester Sv) (epoch (ad_slot shared)) = Some domain ->
    sign_attestation_each H sig P E Sv items shared = Ok l -> l = map (att_item_sig shared domain) items.
  Proof.
    intro Hd. revert l; induction items as [|[a idx] items IH]; intros l; cbn [sign_attestation_each].
    - intro Hl; injection Hl as <-; reflexivity.
    - destruct (sign_attestation H sig P E Sv a _) as [s| |] eqn:Hs; try discriminate.
      destruct (sign_attestation_each H sig P E Sv items shared) as [l'| |]; try discriminate.
      intro Hl; injection Hl as <-. cbn [map]. f_equal; [|apply IH; reflexivity].
      apply sign_attestation_ok in Hs as (domain' & Hd' & -> & Hf). cbn [ad_slot] in Hd'.
      rewrite Hd in Hd'. injection Hd' as <-. unfold att_item_sig, expected, att_with_index. cbn [fst snd]. rewrite Hf. reflexivity.
  Qed.

  Lemma sign_attestations_group_ok items shared domain l :
    p_domain P (s_attester Sv) (epoch (ad_slot shared)) = Some domain ->
    sign_attestations_group H sig zero_sig P E Sv items shared domain = Ok l -> l = map (att_item_sig shared domain) items.
  Proof.
    intro Hd. unfold sign_attestations_group. destruct items as [|[a0 i0] items'].
    - intro Hl; injection Hl as <-; reflexivity.
    - remember ((a0, i0) :: items') as items eqn:Hitems. clear Hitems. destruct (a_multi a0).
      + cbn [e_multi_att honest]. rewrite combine_map_fst_snd.
        rewrite copy_sigs_exact by (rewrite map_length; reflexivity).
        intro Hl; injection Hl as <-. rewrite map_map. apply map_ext. intros [a idx]. apply sig_or_zero_honest.
      + apply sign_attestation_each_ok. exact Hd.
  Qed.

  Lemma sign_attestations_ok accs idxs shared l :
    sign_attestations H sig zero_sig P E Sv accs idxs shared = Ok l ->
    exists domain, p_domain P (s_attester Sv) (epoch (ad_slot shared)) = Some domain /\
                   (length accs <= length idxs)%nat /\ accs <> [] /\
                   l = map (att_item_sig shared domain) (combine accs idxs).
  Proof.
    unfold sign_attestations. destruct accs as [|a0 accs'] eqn:Haccs; [discriminate|]. rewrite <- Haccs.
    assert (Hne : accs <> []) by (rewrite Haccs; discriminate). clear Haccs.
    destruct (p_domain P (s_attester Sv) (epoch (ad_slot shared))) as [domain|] eqn:Hd; [|discriminate].
    destruct (Nat.ltb (length idxs) (length accs)) eqn:Hlt; [discriminate|].
    intro Hl. exists domain. split; [reflexivity|]. split; [apply Nat.ltb_ge; exact Hlt|]. split; [exact Hne|].
    eapply sign_split_ok; [|exact Hl]. intros g l'. apply sign_attestations_group_ok. exact Hd.
  Qed.

  Lemma sign_proposal_ok a h s :
    sign_proposal H sig P E Sv a h = Ok s ->
    exists domain, p_domain P (s_proposer Sv) (epoch (bh_slot h)) = Some domain /\
                   s = sign (a_key a) (csr (htr_block_header H h) domain) /\ a_fail a = false.
  Proof.
    unfold sign_proposal. destruct (p_domain P (s_proposer Sv) (epoch (bh_slot h))) as [domain|]; [|discriminate].
    intro Hs. exists domain. split; [reflexivity|].
    destruct (a_prot a).
    - cbn [e_prop honest] in Hs.
      destruct (honest_one sig sign a (csr (htr_block_header H h) domain)) eqn:Hh; [|discriminate].
      injection Hs as <-. apply honest_one_sign in Hh as [-> Hf]. auto.
    - apply sign_one_ok in Hs. exact Hs.
  Qed.

  Lemma sign_randao_ok a slot s :
    sign_randao H sig P E Sv a slot = Ok s ->
    exists domain, p_domain P (s_randao Sv) (epoch slot) = Some domain /\
                   s = sign (a_key a) (csr (u64_chunk (epoch slot)) domain) /\ a_fail a = false.
  Proof.
    unfold sign_randao. rewrite put_uint64_le_is_u64_chunk. destruct (p_domain P (s_randao Sv) (epoch slot)) as [domain|]; [|discriminate].
    intro Hs. exists domain. split; [reflexivity|]. apply sign_one_ok in Hs. exact Hs.
  Qed.

  Lemma sign_slot_selections_ok accs slot l :
    sign_slot_selections H sig zero_sig P E Sv accs slot = Ok l ->
    exists domain, p_domain P (s_selection Sv) (epoch slot) = Some domain /\
                   l = map (fun a => expected a (csr (u64_chunk slot) domain)) accs.
  Proof.
    unfold sign_slot_selections. rewrite put_uint64_le_is_u64_chunk. destruct (p_domain P (s_selection Sv) (epoch slot)) as [domain|]; [|discriminate].
    intro Hl. exists domain. split; [reflexivity|].
    apply sign_roots_by_account_type_ok in Hl as [_ ->]. rewrite combine_const, map_map. reflexivity.
  Qed.

  Lemma sign_sync_selections_ok accs slot subs l :
    sign_sync_selections H sig zero_sig P E Sv accs slot subs = Ok l ->
    exists dt domain, s_sync_selection Sv = Some dt /\ p_domain P dt (epoch slot) = Some domain /\
                      (length accs <= length subs)%nat /\
                      l = map (fun it => expected (fst it) (csr (htr_sync_selection_data H slot (snd it)) domain)) (combine accs subs).
  Proof.
    unfold sign_sync_selections. destruct (s_sync_selection Sv) as [dt|]; [|discriminate].
    destruct (p_domain P dt (epoch slot)) as [domain|] eqn:Hd; [|discriminate].
    destruct (Nat.ltb (length subs) (length accs)) eqn:Hlt; [discriminate|].
    intro Hl. exists dt, domain. split; [reflexivity|]. split; [exact Hd|]. split; [apply Nat.ltb_ge; exact Hlt|].
    apply sign_roots_by_account_type_ok in Hl as [_ ->].
    rewrite combine_map_r, map_map, combine_firstn_r. reflexivity.
  Qed.

  Lemma sign_aggregate_and_proof_ok a slot root s :
    sign_aggregate_and_proof H sig P E Sv a slot root = Ok s ->
    exists domain, p_domain P (s_aggregate Sv) (epoch slot) = Some domain /\
                   s = sign (a_key a) (csr root domain) /\ a_fail a = false.
  Proof.
    unfold sign_aggregate_and_proof. destruct (p_domain P (s_aggregate Sv) (epoch slot)) as [domain|]; [|discriminate].
    intro Hs. exists domain. split; [reflexivity|]. apply sign_one_ok in Hs. exact Hs.
  Qed.

  Lemma sign_sync_roots_ok accs ep root l :
    sign_sync_roots H sig zero_sig P E Sv accs ep root = Ok l ->
    exists dt domain, s_sync Sv = Some dt /\ p_domain P dt ep = Some domain /\
                      l = map (fun a => expected a (csr root domain)) accs.
  Proof.
    unfold sign_sync_roots. destruct (s_sync Sv) as [dt|]; [|discriminate].
    destruct (p_domain P dt ep) as [domain|] eqn:Hd; [|discriminate].
    intro Hl. exists dt, domain. split; [reflexivity|]. split; [exact Hd|].
    apply sign_roots_by_account_type_ok in Hl as [_ ->]. rewrite combine_const, map_map. reflexivity.
  Qed.

  Lemma sign_contributions_ok accs cps l :
    sign_contributions H sig zero_sig P E Sv accs cps = Ok l ->
    exists dt cp0 domain,
      s_contribution Sv = Some dt /\ hd_error cps = Some cp0 /\ length accs = length cps /\
      Forall (fun cp => epoch (co_slot (cp_contribution cp)) = epoch (co_slot (cp_contribution cp0))) cps /\
      p_domain P dt (epoch (co_slot (cp_contribution cp0))) = Some domain /\
      l = map (fun it => expected (fst it) (csr (htr_contribution_and_proof H (snd it)) domain)) (combine accs cps).
  Proof.
    unfold sign_contributions. destruct (s_contribution Sv) as [dt|]; [|discriminate].
    destruct (Nat.eqb (length accs) (length cps)) eqn:Hlen; [|discriminate]. cbn [negb].
    destruct cps as [|cp0 cps'] eqn:Hcps; [discriminate|]. rewrite <- Hcps in *.
    assert (Hhd : hd_error cps = Some cp0) by (rewrite Hcps; reflexivity). clear Hcps.
    destruct (forallb _ cps) eqn:Hall; [|discriminate]. cbn [negb].
    destruct (p_domain P dt (epoch (co_slot (cp_contribution cp0)))) as [domain|] eqn:Hd; [|discriminate].
    intro Hl. exists dt, cp0, domain. repeat split; try reflexivity.
    - exact Hhd.
    - apply Nat.eqb_eq; exact Hlen.
    - apply Forall_forall. intros cp Hin. rewrite forallb_forall in Hall. apply N.eqb_eq. apply Hall; exact Hin.
    - exact Hd.
    - apply sign_roots_by_account_type_ok in Hl as [_ ->]. rewrite combine_map_r, map_map. reflexivity.
  Qed.

  Lemma sign_registration_ok a reg s :
    sign_registration H sig P E Sv a reg = Ok s ->
    exists r dt domain, reg = Some r /\ s_builder Sv = Some dt /\ p_genesis P dt = Some domain /\
                        s = sign (a_key a) (csr (htr_registration H (wire_registration r)) domain) /\ a_fail a = false.
  Proof.
    unfold sign_registration. destruct reg as [r|]; [|discriminate].
    destruct (s_builder Sv) as [dt|]; [|discriminate].
    destruct (p_genesis P dt) as [domain|] eqn:Hd; [|discriminate].
    intro Hs. exists r, dt, domain. apply sign_one_ok in Hs. repeat split; try reflexivity; try exact Hd; apply Hs.
  Qed.

  Lemma sign_attestations_nth accs idxs shared l i a idx :
    sign_attestations H sig zero_sig P E Sv accs idxs shared = Ok l ->
    nth_error accs i = Some a -> nth_error idxs i = Some idx ->
    exists domain, p_domain P (s_attester Sv) (epoch (ad_slot shared)) = Some domain /\
      nth_error l i = Some (expected a (csr (htr_att_data H (att_with_index shared idx)) domain)).
  Proof.
    intros Hl Ha Hi. apply sign_attestations_ok in Hl as (domain & Hd & _ & _ & ->).
    exists domain. split; [exact Hd|].
    rewrite nth_error_map, (nth_error_combine _ _ _ _ _ Ha Hi). reflexivity.
  Qed.

  Lemma sign_attestation_able a d domain :
    a_fail a = false -> (a_prot a || a_signer a = true) ->
    p_domain P (s_attester Sv) (epoch (ad_slot d)) = Some domain ->
    sign_attestation H sig P E Sv a d = Ok (sign (a_key a) (csr (htr_att_data H d) domain)).
  Proof.
    intros Hf Hc Hd. unfold sign_attestation. rewrite Hd. destruct (a_prot a) eqn:Hp.
    - cbn [e_att honest]. unfold honest_one. rewrite Hf. reflexivity.
    - apply sign_one_able; [exact Hf|]. rewrite Hp. exact Hc.
  Qed.

  Lemma sign_proposal_able a h domain :
    a_fail a = false -> (a_prot a || a_signer a = true) ->
    p_domain P (s_proposer Sv) (epoch (bh_slot h)) = Some domain ->
    sign_proposal H sig P E Sv a h = Ok (sign (a_key a) (csr (htr_block_header H h) domain)).
  Proof.
    intros Hf Hc Hd. unfold sign_proposal. rewrite Hd. destruct (a_prot a) eqn:Hp.
    - cbn [e_prop honest]. unfold honest_one. rewrite Hf. reflexivity.
    - apply sign_one_able; [exact Hf|]. rewrite Hp. exact Hc.
  Qed.

  (* the guard of fix b69e3bf: items of several epochs are refused, never signed with one domain *)
  Lemma sign_contributions_mixed_epochs accs cps cp0 cp :
    hd_error cps = Some cp0 -> In cp cps ->
    epoch (co_slot (cp_contribution cp)) <> epoch (co_slot (cp_contribution cp0)) ->
    sign_contributions H sig zero_sig P E Sv accs cps = Err.
  Proof.
    intros Hhd Hin Hne. unfold sign_contributions. destruct (s_contribution Sv) as [dt|]; [|reflexivity].
    destruct (Nat.eqb (length accs) (length cps)); [|reflexivity]. cbn [negb].
    destruct cps as [|c0 cps']; [destruct Hin|]. cbn in Hhd. injection Hhd as ->.
    destruct (forallb _ (cp0 :: cps')) eqn:Hall; [|reflexivity].
    rewrite forallb_forall in Hall. specialize (Hall cp Hin). apply N.eqb_eq in Hall. contradiction.
  Qed.

  (* ---------------------------------------------------------------------------------------- *)
  (* Completeness: accounts that can sign do get their signatures (the theorems above are not
     vacuous: [Ok] results exist for every kind and every mixture of the two usual account
     families).                                                                                 *)

  (* a wallet-style account: signs locally; a remote-style account: protecting multi-signer *)
  Definition local_account (a : account) : bool := a_signer a && negb (a_multi a) && negb (a_fail a).
  Definition remote_account (a : account) : bool := a_prot a && a_multi a.

  Lemma sign_each_local items domain :
    Forall (fun it => local_account (fst it) = true) items ->
    sign_each H sig E items domain = Ok (map (item_sig domain) items).
  Proof.
    induction items as [|[a root] items IH]; intro Hall; [reflexivity|].
    inversion Hall as [|? ? Ha Hrest]; subst. cbn [fst] in Ha. unfold local_account in Ha.
    apply andb_true_iff in Ha as [Ha Hf]. apply andb_true_iff in Ha as [Hs _]. apply negb_true_iff in Hf.
    cbn [sign_each e_sign honest]. rewrite Hs. unfold honest_one. rewrite Hf. rewrite (IH Hrest).
    cbn [map]. unfold item_sig at 2, expected. cbn [fst snd]. rewrite Hf. reflexivity.
  Qed.

  Lemma sign_roots_multi_uniform items domain :
    items <> [] ->
    Forall (fun it => local_account (fst it) = true) items \/ Forall (fun it => remote_account (fst it) = true) items ->
    sign_roots_multi H sig zero_sig E items domain = Ok (map (item_sig domain) items).
  Proof.
    intros Hne Hu. unfold sign_roots_multi. destruct items as [|[a0 r0] items'] eqn:Hitems; [congruence|].
    rewrite <- Hitems in *. assert (Hin : In (a0, r0) items) by (rewrite Hitems; left; reflexivity). clear Hitems.
    destruct Hu as [Hl|Hr].
    - rewrite Forall_forall in Hl. pose proof (Hl _ Hin) as Ha. cbn [fst] in Ha. unfold local_account in Ha.
      apply andb_true_iff in Ha as [Ha _]. apply andb_true_iff in Ha as [_ Hm]. apply negb_true_iff in Hm. rewrite Hm.
      apply sign_each_local. apply Forall_forall. exact Hl.
    - rewrite Forall_forall in Hr. pose proof (Hr _ Hin) as Ha. cbn [fst] in Ha. unfold remote_account in Ha.
      apply andb_true_iff in Ha as [_ Hm]. rewrite Hm.
      cbn [e_multi_generic honest]. rewrite combine_map_fst_snd.
      rewrite copy_sigs_exact by (rewrite map_length; reflexivity).
      rewrite map_map. f_equal. apply map_ext. intros [a root]. apply sig_or_zero_honest.
  Qed.

  (* ---------------------------------------------------------------------------------------- *)
  (* Completeness of a whole batch.                                                             *)

  Definition is_dist {A} (it : account * A) : bool := a_dist (fst it).
  Definition not_dist {A} (it : account * A) : bool := negb (a_dist (fst it)).

  Lemma split_from_filter {A} (items : list (account * A)) : forall i0 o om d dm,
    split_from i0 items = ((o, om), (d, dm)) -> o = filter not_dist items /\ d = filter is_dist items.
  Proof.
    induction items as [|it r IH]; intros i0 o om d dm; cbn [split_from filter].
    - intro Hs; injection Hs as <- <- <- <-. auto.
    - destruct (split_from (S i0) r) as [[o' om'] [d' dm']] eqn:Hr.
      destruct (IH _ _ _ _ _ Hr) as [-> ->]. unfold not_dist, is_dist.
      destruct (a_dist (fst it)); cbn [negb]; intro Hs; injection Hs as <- <- <- <-; auto.
  Qed.

  Lemma sign_split_complete {A} (sign_group : list (account * A) -> res (list sig)) (f : account * A -> sig)
        (items : list (account * A)) :
    (filter not_dist items <> [] -> sign_group (filter not_dist items) = Ok (map f (filter not_dist items))) ->
    (filter is_dist items <> [] -> sign_group (filter is_dist items) = Ok (map f (filter is_dist items))) ->
    sign_split sig zero_sig sign_group items = Ok (map f items).
  Proof.
    intros Ho Hd. unfold sign_split.
    destruct (split_from 0 items) as [[o om] [d dm]] eqn:Hs.
    pose proof (reassemble f items 0 o om d dm (repeat zero_sig (length items)) Hs) as Hre.
    rewrite repeat_length in Hre. specialize (Hre (Nat.le_refl _)).
    cbn [firstn app Nat.add] in Hre. rewrite skipn_all_repeat, app_nil_r in Hre.
    destruct (split_from_bounds _ _ _ _ _ _ Hs) as (_ & _ & Hlo & Hld).
    destruct (split_from_filter _ _ _ _ _ _ Hs) as [Eo Ed]. rewrite <- Eo in Ho. rewrite <- Ed in Hd.
    destruct o as [|o1 o'].
    - destruct om; [|discriminate].
      destruct d as [|d1 d'].
      + destruct dm; [|discriminate]. rewrite <- Hre. reflexivity.
      + rewrite Hd by discriminate. rewrite <- Hre. reflexivity.
    - rewrite Ho by discriminate.
      destruct d as [|d1 d'].
      + destruct dm; [|discriminate]. rewrite <- Hre. reflexivity.
      + rewrite Hd by discriminate. rewrite <- Hre. reflexivity.
  Qed.

  Definition uniform (g : list (account * N)) : Prop :=
    Forall (fun it => local_account (fst it) = true) g \/ Forall (fun it => remote_account (fst it) = true) g.

  Lemma sign_roots_by_account_type_complete accs roots domain :
    length accs = length roots ->
    uniform (filter not_dist (combine accs roots)) ->
    uniform (filter is_dist (combine accs roots)) ->
    sign_roots_by_account_type H sig zero_sig E accs roots domain = Ok (map (item_sig domain) (combine accs roots)).
  Proof.
    intros Hlen Uo Ud. unfold sign_roots_by_account_type. rewrite Hlen, Nat.eqb_refl. cbn [negb].
    apply sign_split_complete; intro Hne; apply sign_roots_multi_uniform; assumption.
  Qed.
End Proofs.
