(* C09: the check's boolean predicate P_b, evaluated on an observed result, implies the
   declarative statement (Model/C09_Spec.v) for that result, provided the mock's call log is the
   one the relay scripts dictate (the first conjunct group of [agree]). *)
From Verif Require Import Lib.Base Model.C09_Auction Model.C09_Spec Proofs.C09 Proofs.C09_Spec Check.C09.
From Coq Require Import ZifyBool ZifyN ZifyNat.
Open Scope N_scope.

(* ------------------------------------------------------------------------------------------ *)
(* Answered calls, their indices and the events. *)

Lemma deadline_calls_nth D gap : forall script k0 t e k x,
  In (e, k, x) (deadline_calls D gap k0 t script) ->
  k0 <= k /\ exists lat, nth_error script (N.to_nat (k - k0)) = Some (lat, x).
Proof.
  induction script as [|[lat x0] rest IH]; intros k0 t e k x Hin; [destruct Hin|].
  cbn [deadline_calls] in Hin.
  assert (Hgen : x0 <> RHang ->
                 In (e, k, x) (if (t + lat <? D)%Z
                               then (t + lat, k0, x0)%Z ::
                                    (if (D - (t + lat) <=? gap)%Z then [] else deadline_calls D gap (k0 + 1) (t + lat + gap)%Z rest)
                               else []) ->
                 k0 <= k /\ exists lat', nth_error ((lat, x0) :: rest) (N.to_nat (k - k0)) = Some (lat', x)).
  { intros _ H. destruct (t + lat <? D)%Z; [|destruct H].
    destruct H as [Heq | H].
    - injection Heq as _ <- <-. split; [lia|]. exists lat. replace (N.to_nat (k0 - k0)) with 0%nat by lia. reflexivity.
    - destruct (D - (t + lat) <=? gap)%Z; [destruct H|].
      destruct (IH _ _ _ _ _ H) as [Hle [lat' Hn]]. split; [lia|]. exists lat'.
      replace (N.to_nat (k - k0)) with (S (N.to_nat (k - (k0 + 1)))) by lia. exact Hn. }
  destruct x0; try (apply Hgen; [discriminate | exact Hin]). destruct Hin.
Qed.

Lemma answered_nth s r t k x :
  In (t, k, x) (answered s r) -> exists lat, nth_error (r_script r) (N.to_nat k) = Some (lat, x).
Proof.
  destruct s as [T | D gap]; cbn [answered].
  - unfold best_calls. destruct (r_script r) as [|[lat x0] rest]; [intros []|].
    destruct x0; try (intros [Heq | []]; injection Heq as _ <- <-; exists lat; reflexivity). intros [].
  - intros Hin. destruct (deadline_calls_nth D gap _ _ _ _ _ _ Hin) as [_ [lat Hn]].
    exists lat. replace (k - 0) with k in Hn by lia. exact Hn.
Qed.

Definition proj_ev (e : event) : Z * N * N := (e_time e, e_relay e, e_call e).

Lemma classify_run_proj r : forall calls last,
  map proj_ev (classify_run r last calls) = map (fun '(t, k, _) => (t, r_idx r, k)) calls.
Proof.
  induction calls as [|[[t k] x] rest IH]; intros last; [reflexivity|].
  cbn [classify_run]. destruct (classify_deadline r last x) as [d last']. cbn [map]. rewrite IH. reflexivity.
Qed.

Lemma relay_run_proj s r :
  map proj_ev (relay_run s r) = map (fun '(t, k, _) => (t, r_idx r, k)) (answered s r).
Proof.
  destruct s as [T | D gap]; cbn [relay_run].
  - rewrite map_map. apply map_ext. intros [[t k] x]. reflexivity.
  - apply classify_run_proj.
Qed.

Lemma calls_before_In s rs t i k :
  In (t, i, k) (calls_before s rs) <->
  (t < cutoff s)%Z /\ exists r x, In r rs /\ queried s r = true /\ r_idx r = i /\ In (t, k, x) (answered s r).
Proof.
  unfold calls_before. rewrite in_map_iff. split.
  - intros [e [Heq Hin]]. apply filter_In in Hin as [Hin Ht]. apply Z.ltb_lt in Ht.
    apply (proj1 (sort_by_In (fun e => Z.to_N (e_time e)) e _)) in Hin. apply all_events_In in Hin as [r [Hr [Hq He]]].
    injection Heq as <- <- <-. split; [exact Ht|].
    apply (in_map proj_ev) in He. rewrite relay_run_proj in He.
    apply in_map_iff in He as [[[t' k'] x] [Heq Hin']]. unfold proj_ev in Heq. injection Heq as <- Hi <-.
    exists r, x. repeat split; try assumption; try (symmetry; exact Hi).
  - intros [Ht (r & x & Hr & Hq & Hi & Hin)].
    assert (Hp : In (t, i, k) (map proj_ev (relay_run s r))).
    { rewrite relay_run_proj. apply in_map_iff. exists (t, k, x). split; [rewrite Hi; reflexivity | exact Hin]. }
    apply in_map_iff in Hp as [e [Heq He]]. exists e. split; [exact Heq|].
    apply filter_In. split.
    + apply (proj2 (sort_by_In (fun e => Z.to_N (e_time e)) e _)). apply all_events_In. exists r. repeat split; assumption.
    + unfold proj_ev in Heq. injection Heq as -> _ _. apply Z.ltb_lt. exact Ht.
Qed.

(* ------------------------------------------------------------------------------------------ *)
(* The check's candidates are the acceptable offers. *)

Lemma find_relay_some i rs r : find_relay i rs = Some r -> In r rs /\ r_idx r = i.
Proof.
  unfold find_relay. intros H. apply find_some in H as [Hin He]. apply N.eqb_eq in He. split; assumption.
Qed.

Lemma find_relay_nodup rs : NoDup (map r_idx rs) -> forall r, In r rs -> find_relay (r_idx r) rs = Some r.
Proof.
  induction rs as [|r0 rs IH]; intros Hnd r Hin; [destruct Hin|].
  cbn [map] in Hnd. inversion Hnd as [|? ? Hnot Hnd']; subst.
  unfold find_relay. cbn [find].
  destruct Hin as [-> | Hin].
  - rewrite N.eqb_refl. reflexivity.
  - destruct (r_idx r0 =? r_idx r) eqn:E.
    + apply N.eqb_eq in E. exfalso. apply Hnot. rewrite E. apply in_map. exact Hin.
    + apply (IH Hnd' r Hin).
Qed.

Lemma log_cands_In c i b :
  In (i, b) (log_cands c) <->
  exists t k r lat, In (t, i, k) (c_calls c) /\ (t < cutoff (c_strat c))%Z
                    /\ find_relay i (c_relays c) = Some r
                    /\ nth_error (r_script r) (N.to_nat k) = Some (lat, RBid b) /\ eligible r b = true.
Proof.
  unfold log_cands. rewrite in_flat_map. split.
  - intros [[[t i'] k] [Hc Hin]].
    destruct (t <? cutoff (c_strat c))%Z eqn:Et; [|destruct Hin].
    destruct (find_relay i' (c_relays c)) as [r|] eqn:Ef; [|destruct Hin].
    destruct (nth_error (r_script r) (N.to_nat k)) as [[lat x]|] eqn:En; [|destruct Hin].
    destruct x; try (destruct Hin; fail).
    destruct (eligible r b0) eqn:Ee; [|destruct Hin].
    destruct Hin as [Heq | []]. injection Heq as -> ->.
    exists t, k, r, lat. apply Z.ltb_lt in Et. repeat split; assumption.
  - intros (t & k & r & lat & Hc & Ht & Hf & Hn & He).
    exists (t, i, k). split; [exact Hc|]. apply Z.ltb_lt in Ht. rewrite Ht, Hf, Hn, He. left. reflexivity.
Qed.

Definition log_agrees (c : case) : Prop :=
  calls_before_obs c = calls_before (c_strat c) (c_relays c).

Lemma calls_before_obs_In c t i k :
  In (t, i, k) (calls_before_obs c) <-> In (t, i, k) (c_calls c) /\ (t < cutoff (c_strat c))%Z.
Proof.
  unfold calls_before_obs. rewrite filter_In. rewrite Z.ltb_lt. reflexivity.
Qed.

(* the candidates read off the input alone (first call of a relay that must be asked) are
   acceptable offers, whatever the log says *)
Lemma first_cands_acceptable c i b :
  In (i, b) (first_cands c) -> acceptable (c_strat c) (c_relays c) i b.
Proof.
  unfold first_cands. rewrite in_flat_map. intros [r [Hr Hin]].
  destruct (r_kind r) eqn:Ek; try (destruct Hin; fail).
  destruct (r_script r) as [|[lat x] rest] eqn:Es; [destruct Hin|].
  destruct x; try (destruct Hin; fail).
  destruct ((r_grace r + lat <? cutoff (c_strat c))%Z && eligible r b0) eqn:E; [|destruct Hin].
  destruct Hin as [Heq | []]. injection Heq as <- <-.
  apply andb_true_iff in E as [Ht He]. apply Z.ltb_lt in Ht.
  exists (r_grace r + lat)%Z, r, 0. repeat split; try assumption.
  - unfold queried. rewrite Ek. destruct (c_strat c); reflexivity.
  - destruct (c_strat c) as [T | D gap]; cbn [answered].
    + unfold best_calls. rewrite Es. left. reflexivity.
    + rewrite Es. cbn [deadline_calls]. cbn [cutoff] in Ht. apply Z.ltb_lt in Ht. rewrite Ht. left. reflexivity.
Qed.

Lemma cands_iff_acceptable c :
  NoDup (map r_idx (c_relays c)) -> log_agrees c ->
  forall i b, In (i, b) (cands c) <-> acceptable (c_strat c) (c_relays c) i b.
Proof.
  intros Hnd Hlog i b. unfold cands. rewrite in_app_iff.
  assert (Hfirst := first_cands_acceptable c i b).
  cut (In (i, b) (log_cands c) <-> acceptable (c_strat c) (c_relays c) i b); [tauto|].
  clear Hfirst. rewrite log_cands_In. split.
  - intros (t & k & r & lat & Hc & Ht & Hf & Hn & He).
    apply find_relay_some in Hf as [Hr Hi].
    assert (Hcb : In (t, i, k) (calls_before (c_strat c) (c_relays c))).
    { rewrite <- Hlog. apply calls_before_obs_In. split; assumption. }
    apply calls_before_In in Hcb as [_ (r' & x & Hr' & Hq & Hi' & Hin)].
    assert (r' = r).
    { pose proof (find_relay_nodup _ Hnd r Hr) as F1. pose proof (find_relay_nodup _ Hnd r' Hr') as F2.
      rewrite Hi in F1. rewrite Hi' in F2. congruence. }
    subst r'. destruct (answered_nth _ _ _ _ _ Hin) as [lat' Hn']. rewrite Hn in Hn'. injection Hn' as _ <-.
    exists t, r, k. repeat split; assumption.
  - intros [t (r & k & Hr & Hi & Hq & Hin & Ht & He)].
    destruct (answered_nth _ _ _ _ _ Hin) as [lat Hn].
    exists t, k, r, lat. repeat split; try assumption.
    + assert (Hcb : In (t, i, k) (calls_before (c_strat c) (c_relays c))).
      { apply calls_before_In. split; [exact Ht|]. exists r, (RBid b). repeat split; assumption. }
      rewrite <- Hlog in Hcb. apply calls_before_obs_In in Hcb as [Hc _]. exact Hc.
    + rewrite <- Hi. apply find_relay_nodup; assumption.
Qed.

Lemma agree_log c : agree c = true -> strategy_runs c = true -> log_agrees c.
Proof.
  unfold agree, log_agrees. intros H Hruns. rewrite Hruns in H.
  repeat (apply andb_true_iff in H as [H ?]).
  match goal with Hl : list_eqb call_eqb _ _ = true |- _ => rename Hl into Hlog end.
  symmetry. revert Hlog. apply list_eqb_spec.
  intros [[t1 r1] k1] [[t2 r2] k2]. unfold call_eqb. rewrite !andb_true_iff, Z.eqb_eq, !N.eqb_eq. split.
  - intros [[-> ->] ->]. reflexivity.
  - intros H'. injection H' as -> -> ->. repeat split.
Qed.

(* ------------------------------------------------------------------------------------------ *)
(* P_b's parts on the observed result. *)

Section Sound.
  Variable c : case.
  Variable P : N -> bid -> Prop.
  Hypothesis HP : forall i b, In (i, b) (cands c) <-> P i b.

  Let cs := filter (scoring (c_cfgs c)) (cands c).

  Lemma cs_In i b : In (i, b) cs <-> P i b /\ score (c_cfgs c) b <> 0%Z.
  Proof.
    unfold cs. rewrite filter_In, HP. unfold scoring. cbn [snd]. rewrite negb_true_iff, Z.eqb_neq. reflexivity.
  Qed.

  Lemma cs_nil_all_zero : cs = [] -> forall i b, P i b -> score (c_cfgs c) b = 0%Z.
  Proof.
    intros Hnil i b Hp. destruct (Z.eq_dec (score (c_cfgs c) b) 0) as [E | Hnz]; [exact E|].
    assert (Hin : In (i, b) cs) by (apply cs_In; split; assumption). rewrite Hnil in Hin. destruct Hin.
  Qed.

  Lemma win_ok_sound : win_ok c = true -> obs_winner_is_max (c_cfgs c) P (c_win c).
  Proof.
    unfold win_ok. fold cs. destruct (c_win c) as [[[sc cat] uid]|]; cbn [obs_winner_is_max].
    - rewrite andb_true_iff, existsb_exists, forallb_forall. intros [[[i b] [Hin Hb]] Hall].
      cbn [snd] in Hb. repeat (apply andb_true_iff in Hb as [Hb ?]).
      apply N.eqb_eq in Hb. apply cs_In in Hin as [Hp Hnz].
      match goal with H1 : (score _ _ =? sc)%Z = true |- _ => apply Z.eqb_eq in H1; rename H1 into Hsc end.
      match goal with H1 : (cat_of _ _ =? cat) = true |- _ => apply N.eqb_eq in H1; rename H1 into Hcat end.
      split.
      + exists i, b. repeat split; try assumption. rewrite <- Hsc. exact Hnz.
      + intros j b' Hp' Hnz'. specialize (Hall (j, b')). cbn [snd] in Hall. apply Z.leb_le, Hall, cs_In. split; assumption.
    - destruct cs eqn:E; [|discriminate]. intros _. apply cs_nil_all_zero. exact E.
  Qed.

  Lemma providers_ok_sound : providers_ok c = true -> obs_providers_ok P (c_win c) (c_providers c).
  Proof.
    unfold providers_ok. destruct (c_win c) as [[[sc cat] uid]|]; cbn [obs_providers_ok].
    - rewrite existsb_exists. intros [[i b] [Hin Hb]]. cbn [fst snd] in Hb.
      apply andb_true_iff in Hb as [Hb Hall]. apply andb_true_iff in Hb as [Hu Hm].
      apply N.eqb_eq in Hu. apply (memb_spec N.eqb N.eqb_eq) in Hm. rewrite forallb_forall in Hall.
      exists i, b. repeat split; try assumption; [apply HP; exact Hin|].
      intros j Hj. specialize (Hall j Hj). apply existsb_exists in Hall as [[j' b'] [Hin' Hb']].
      cbn [fst snd] in Hb'. apply andb_true_iff in Hb' as [Hj' Hh]. apply N.eqb_eq in Hj', Hh. subst j'.
      exists b'. split; [apply HP; exact Hin' | exact Hh].
    - destruct (c_providers c); [reflexivity | discriminate].
  Qed.

  Lemma served_ok_sound s : served_ok c s = true -> obs_served_ok (c_cfgs c) P s.
  Proof.
    unfold served_ok. fold cs. destruct s as [uid|]; cbn [obs_served_ok].
    - rewrite existsb_exists. intros [[i b] [Hin Hb]]. cbn [snd] in Hb.
      apply andb_true_iff in Hb as [Hu Hall]. apply N.eqb_eq in Hu. rewrite forallb_forall in Hall.
      apply cs_In in Hin as [Hp Hnz]. exists i, b. repeat split; try assumption.
      intros j b' Hp' Hnz'. specialize (Hall (j, b')). cbn [snd] in Hall. apply Z.leb_le, Hall, cs_In. split; assumption.
    - destruct cs eqn:E; [|discriminate]. intros _. apply cs_nil_all_zero. exact E.
  Qed.
End Sound.

(* P_b on a case whose call log is the scripted one: the observed result satisfies the statement *)
Lemma P_b_sound c :
  NoDup (map r_idx (c_relays c)) -> log_agrees c -> P_b c = true ->
  let P := acceptable (c_strat c) (c_relays c) in
  c_panic c = false
  /\ (c_has_results c = true ->
      obs_winner_is_max (c_cfgs c) P (c_win c) /\ obs_providers_ok P (c_win c) (c_providers c)
      /\ (forall j, In j (c_providers c) -> In j (c_allp c)))
  /\ (c_mode c <> MStrategy -> Forall (obs_served_ok (c_cfgs c) P) (c_served c))
  /\ (c_mode c <> MStrategy ->
      Forall (obs_served_ok (c_cfgs c) P) (c_late_served c)
      /\ forall o, auction_outcome c = Some o -> Forall (eq o) (c_late_served c)).
Proof.
  intros Hnd Hlog Hpb P. pose proof (cands_iff_acceptable c Hnd Hlog) as HP.
  unfold P_b in Hpb. apply andb_true_iff in Hpb as [Hpb Hlate]. apply andb_true_iff in Hpb as [Hpb Hserved].
  apply andb_true_iff in Hpb as [Hpanic Hres].
  split; [apply negb_true_iff; exact Hpanic|]. split; [|split].
  - intros Hhas. rewrite Hhas in Hres. apply andb_true_iff in Hres as [Hres Hallp]. apply andb_true_iff in Hres as [Hwin Hprov].
    split; [apply (win_ok_sound c P HP Hwin)|]. split; [apply (providers_ok_sound c P HP Hprov)|].
    unfold allp_ok in Hallp. apply andb_true_iff in Hallp as [Hallp _]. rewrite forallb_forall in Hallp.
    intros j Hj. apply (memb_spec N.eqb N.eqb_eq). apply Hallp. exact Hj.
  - intros Hmode. unfold served_consistent in Hserved. destruct (c_mode c); [contradiction| |];
      (apply andb_true_iff in Hserved as [Hserved _]; apply andb_true_iff in Hserved as [_ Hserved];
       rewrite forallb_forall in Hserved; apply Forall_forall; intros s Hs;
       apply (served_ok_sound c P HP s), Hserved, Hs).
  - intros Hmode. unfold late_ok in Hlate.
    assert (Hl : forallb (served_ok c) (c_late_served c)
                 && match auction_outcome c with
                    | Some o => forallb (fun s => option_eqb N.eqb s o) (c_late_served c)
                    | None => true
                    end = true) by (destruct (c_mode c); [contradiction | exact Hlate | exact Hlate]).
    apply andb_true_iff in Hl as [Hl1 Hl2]. split.
    + rewrite forallb_forall in Hl1. apply Forall_forall. intros s Hs.
      apply (served_ok_sound c P HP s), Hl1, Hs.
    + intros o Ho. rewrite Ho in Hl2. rewrite forallb_forall in Hl2. apply Forall_forall. intros s Hs.
      specialize (Hl2 s Hs). apply (proj1 (option_eqb_spec N.eqb N.eqb_eq s o)) in Hl2. symmetry. exact Hl2.
Qed.
