(* More ties between hand-written models and gotrans transcriptions (see Proofs/GenTie.v):
   attestation data validation (C01), aggregator selection (C14), sync subcommittee and selection
   (C15), the cleaning threshold of the block-root cache (C18). *)
From Coq Require Import ZArith NArith Lia Bool List.
From Coq Require Import ZifyBool ZifyN.
From Verif Require Import Lib.Base Lib.GoInt Gen.Pure_Extracted Proofs.GenTie.
From Verif Require Model.C01_Attester Model.C14_Subscriptions Model.C15_Sync Model.C18_Cache.

Local Open Scope Z_scope.

Lemma of_N_eqb (a b : N) : (Z.of_N a =? Z.of_N b) = (a =? b)%N.
Proof. destruct (N.eqb_spec a b); lia. Qed.
Lemma of_N_ltb (a b : N) : (Z.of_N a <? Z.of_N b) = (a <? b)%N.
Proof. destruct (N.ltb_spec a b); lia. Qed.
Lemma of_N_leb (a b : N) : (Z.of_N a <=? Z.of_N b) = (a <=? b)%N.
Proof. destruct (N.leb_spec a b); lia. Qed.
Lemma of_N_gtb (a b : N) : (Z.of_N a >? Z.of_N b) = (b <? a)%N.
Proof. destruct (N.ltb_spec b a); lia. Qed.

Lemma of_N_eqb0 (a : N) : (Z.of_N a =? 0) = (a =? 0)%N.
Proof. destruct (N.eqb_spec a 0); lia. Qed.
Lemma of_N_mod_eqb0 (a b : N) : (Z.of_N a mod Z.of_N b =? 0) = (a mod b =? 0)%N.
Proof. rewrite <- N2Z.inj_mod. apply of_N_eqb0. Qed.

(* ---------------------------------------------------------------------------------------- *)
(* C01: validateAttestationData                                                               *)

Lemma tie_valid_data (spe : N) (d : C01_Attester.duty) (a : C01_Attester.adata) :
  C01_Attester.valid_data spe d a =
  attester_validateAttestationData (Z.of_N spe) (Z.of_N (C01_Attester.a_slot a)) (Z.of_N (C01_Attester.d_slot d))
                                   (Z.of_N (C01_Attester.a_src a)) (Z.of_N (C01_Attester.a_tgt a)).
Proof.
  unfold C01_Attester.valid_data, C01_Attester.epoch_of, attester_validateAttestationData.
  rewrite <- N2Z.inj_div, of_N_eqb, !of_N_gtb, of_N_ltb.
  destruct (C01_Attester.a_slot a =? C01_Attester.d_slot d)%N eqn:E1; cbn [negb andb]; [|reflexivity].
  destruct (C01_Attester.a_tgt a <? C01_Attester.a_src a)%N eqn:E2.
  - assert ((C01_Attester.a_src a <=? C01_Attester.a_tgt a)%N = false) as -> by lia. reflexivity.
  - assert ((C01_Attester.a_src a <=? C01_Attester.a_tgt a)%N = true) as -> by lia. cbn [andb].
    set (de := (C01_Attester.d_slot d / spe)%N).
    destruct (de <? C01_Attester.a_tgt a)%N eqn:E3; [lia|].
    destruct (C01_Attester.a_tgt a <? de)%N eqn:E4; lia.
Qed.

(* ---------------------------------------------------------------------------------------- *)
(* C14: is_aggregator on the 64-bit value of the digest's first eight bytes                   *)

Lemma tie_is_aggregator (len target : N) (hash : list N) :
  C14_Subscriptions.is_aggregator len target hash =
  aggregator_isAggregator (Z.of_N target) (Z.of_N len) (Z.of_N (C14_Subscriptions.le64 hash)).
Proof.
  unfold C14_Subscriptions.is_aggregator, aggregator_isAggregator.
  rewrite <- N2Z.inj_div, of_N_eqb0.
  destruct (len / target =? 0)%N eqn:E.
  - change 1 with (Z.of_N 1). rewrite of_N_mod_eqb0. reflexivity.
  - rewrite of_N_mod_eqb0. reflexivity.
Qed.

(* ---------------------------------------------------------------------------------------- *)
(* C15: subcommittee of a committee position; selection modulo; selection test                *)

Lemma tie_subcommittee (p : C15_Sync.params) (pos : N) :
  Z.of_N (C15_Sync.subcommittee p pos) =
  syncmessenger_subcommittee (Z.of_N (C15_Sync.csize p)) (Z.of_N (C15_Sync.subnets p)) (Z.of_N pos).
Proof. unfold C15_Sync.subcommittee, syncmessenger_subcommittee. rewrite !N2Z.inj_div. reflexivity. Qed.

Lemma tie_selection_modulo (p : C15_Sync.params) :
  Z.of_N (C15_Sync.modulo p) =
  syncmessenger_selectionModulo (Z.of_N (C15_Sync.csize p)) (Z.of_N (C15_Sync.subnets p)) (Z.of_N (C15_Sync.target p)).
Proof.
  unfold C15_Sync.modulo, syncmessenger_selectionModulo. rewrite <- !N2Z.inj_div.
  set (m := (C15_Sync.csize p / C15_Sync.subnets p / C15_Sync.target p)%N).
  destruct (Z.of_N m <? 1) eqn:E; lia.
Qed.

Lemma tie_sync_is_aggregator (p : C15_Sync.params) (hash8 : N) :
  C15_Sync.is_aggregator p hash8 =
  syncmessenger_shouldInclude (Z.of_N (C15_Sync.modulo p)) (Z.of_N hash8).
Proof.
  unfold C15_Sync.is_aggregator, syncmessenger_shouldInclude.
  rewrite of_N_mod_eqb0. reflexivity.
Qed.

(* ---------------------------------------------------------------------------------------- *)
(* C18: the cleaning threshold                                                                *)

Lemma tie_clean_threshold (cur_epoch spe : N) :
  nu64 cur_epoch ->
  cache_cleanThreshold (Z.of_N cur_epoch) (Z.of_N spe) =
  if (cur_epoch <=? C18_Cache.retention)%N then None else Some (Z.of_N (C18_Cache.min_slot cur_epoch spe)).
Proof.
  intro Hc. unfold cache_cleanThreshold, C18_Cache.min_slot, C18_Cache.retention, chaintime_FirstSlotOfEpoch.
  change 64 with (Z.of_N 64) at 1. rewrite of_N_leb.
  destruct (cur_epoch <=? 64)%N eqn:E; [reflexivity|].
  f_equal. rewrite of_N_mul64. f_equal. f_equal.
  rewrite u64_id; [lia|]. unfold nu64, in_u64, Base.two64, GoInt.two64 in *. lia.
Qed.

(* ---------------------------------------------------------------------------------------- *)
(* C09: the score of a bid under its builder's configuration (setBuilderBid)                  *)
From Verif Require Model.C09_Auction.

Lemma tie_score (cfgs : C09_Auction.bconfs) (b : C09_Auction.bid) :
  let c := C09_Auction.conf_of cfgs b in
  C09_Auction.score cfgs b =
  builderbid_score (Z.of_N (C09_Auction.b_value b))
                   (match C09_Auction.bc_offset c with Some _ => true | None => false end)
                   (match C09_Auction.bc_offset c with Some o => o | None => 0 end)
                   (match C09_Auction.bc_factor c with Some _ => true | None => false end)
                   (match C09_Auction.bc_factor c with Some f => f | None => 0 end).
Proof.
  cbv zeta. unfold C09_Auction.score, builderbid_score.
  destruct (C09_Auction.bc_offset (C09_Auction.conf_of cfgs b)) as [o|];
  destruct (C09_Auction.bc_factor (C09_Auction.conf_of cfgs b)) as [f|];
  try reflexivity; rewrite ediv_pos by lia; reflexivity.
Qed.

(* the deadline strategy has its own copy of the computation: same transcription *)
Lemma tie_score_deadline : forall v ho o hf f, builderbid_deadline_score v ho o hf f = builderbid_score v ho o hf f.
Proof. reflexivity. Qed.
