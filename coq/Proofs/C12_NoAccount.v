(* C12: requests made without an account (the account argument of Service.ProposerConfig is nil):
   BuilderBid -> immediateBuilderBid -> auctionBlock(..., nil), ValidatorRegistrations forwarded by
   beacon nodes, UnblindBlock's provider lookup, and ProposerConfig(ctx, nil, pubkey) itself. *)
From Verif Require Import Lib.Base Lib.Sched Lib.Lockset Model.C12_ConfigLock.

Definition accountless (k : kind) : bool :=
  match k with KLookupNA | KBid | KFwd | KUnblind => true | _ => false end.

Definition is_lock_mstep (m : mstep) : bool :=
  match m with MRLock | MRUnlock | MLock | MUnlock => true | _ => false end.

(* their programs: the read lock taken once and released, nothing written, and no point at which the
   request can be held by its account (there is none) *)
Lemma accountless_program pre sp :
  accountless (sp_kind sp) = true ->
  ~ In MGate (program pre sp) /\ ~ In MWrite (program pre sp) /\
  filter is_lock_mstep (program pre sp) = [MRLock; MRUnlock].
Proof.
  unfold program. destruct (sp_kind sp); cbn [accountless]; try discriminate; intros _;
    (split; [|split]); cbn; try reflexivity; intuition discriminate.
Qed.

(* they are answered whatever the configuration is: the answer is a value or an error, never "nothing" *)
Lemma accountless_answered k c v : accountless k = true -> answer_of k c v <> RAny.
Proof.
  destruct k; cbn [accountless]; try discriminate; intros _;
    unfold answer_of, proposer_config, auction_block, forward_registration, unblinders_for_proposal;
    destruct c as [d|]; try discriminate;
    destruct (is_bad d v); try discriminate; destruct (d_relay d); discriminate.
Qed.

(* the absent account changes nothing in the answer *)
Lemma accountless_same_answer c v :
  answer_of KLookupNA c v = answer_of KLookup c v /\ answer_of KBid c v = answer_of KAuction c v.
Proof. split; reflexivity. Qed.

(* settings that cannot be resolved: an error is returned (a forwarded registration is skipped) *)
Lemma accountless_unresolvable k d v :
  accountless k = true -> is_bad d v = true ->
  answer_of k (Some d) v = match k with KFwd => RNoRelays | _ => RErr end.
Proof.
  destruct k; cbn [accountless]; try discriminate; intros _ Hb;
    unfold answer_of, proposer_config, auction_block, forward_registration, unblinders_for_proposal;
    rewrite Hb; reflexivity.
Qed.
