(* C16 — path 5: MergeDuties / NewDuty / createAttestations over arbitrary duty lists. *)
From Verif Require Import Lib.Base Model.C16_Paths Proofs.C16.
From Coq Require Import ZifyBool ZifyN ZifyNat.

Local Open Scope N_scope.

(* ------------------------------------------------------------------------------------------- *)
(* the committee-length map                                                                      *)

Lemma map_get_set_same : forall m k v, map_get k (map_set k v m) = Some v.
Proof.
  induction m as [|[k' v'] m IH]; intros k v; unfold map_get in *; cbn [map_set find fst snd].
  - rewrite N.eqb_refl. reflexivity.
  - destruct (k =? k') eqn:E; [cbn [find fst snd]; rewrite N.eqb_refl; reflexivity|].
    destruct (k <? k'); [cbn [find fst snd]; rewrite N.eqb_refl; reflexivity|].
    cbn [find fst snd]. rewrite N.eqb_sym, E. apply IH.
Qed.

Lemma map_get_set_other : forall m k v c, c <> k -> map_get c (map_set k v m) = map_get c m.
Proof.
  induction m as [|[k' v'] m IH]; intros k v c Hc; unfold map_get in *; cbn [map_set find fst snd].
  - assert (E : (k =? c) = false) by (apply N.eqb_neq; congruence). rewrite E. reflexivity.
  - assert (E : (k =? c) = false) by (apply N.eqb_neq; congruence).
    destruct (k =? k') eqn:Ek.
    + apply N.eqb_eq in Ek. subst k'. cbn [find fst snd]. rewrite E. reflexivity.
    + destruct (k <? k'); cbn [find fst snd]; [rewrite E; reflexivity|].
      destruct (k' =? c); [reflexivity|]. apply IH. exact Hc.
Qed.

Lemma map_get_set_some : forall m k v c, map_get c m <> None -> map_get c (map_set k v m) <> None.
Proof.
  intros m k v c H. destruct (N.eq_dec c k) as [->|Hn]; [rewrite map_get_set_same; discriminate|].
  rewrite map_get_set_other by exact Hn. exact H.
Qed.

(* ------------------------------------------------------------------------------------------- *)
(* merged duties are well formed                                                                 *)

Definition wf0 (m : mduty) : Prop :=
  length (md_vidx m) = length (md_cidx m) /\ length (md_cidx m) = length (md_vcidx m) /\
  (forall c, In c (md_cidx m) -> map_get c (md_clens m) <> None).

Definition wf (m : mduty) : Prop := wf0 m /\ md_vidx m <> [].

Lemma wf0_empty : forall s, wf0 (empty_mduty s).
Proof. intro s. repeat split; cbn; intros; auto. Qed.

Lemma add_to_wf : forall d m, wf0 m -> wf (add_to d m).
Proof.
  intros d m (H1 & H2 & H3). unfold add_to, wf, wf0. cbn [md_vidx md_cidx md_vcidx md_clens].
  rewrite !app_length. cbn [length]. repeat split; try lia.
  - intros c Hc. apply in_app_iff in Hc as [Hc|[<-|[]]].
    + apply map_get_set_some. apply H3. exact Hc.
    + rewrite map_get_set_same. discriminate.
  - destruct (md_vidx m); discriminate.
Qed.

Lemma group_wf : forall ds acc, Forall wf acc -> Forall wf (group ds acc).
Proof.
  induction ds as [|d ds IH]; intros acc H; [exact H|].
  cbn [group]. destruct acc as [|m acc'].
  - apply IH. constructor; [|constructor]. apply add_to_wf, wf0_empty.
  - inversion H as [|? ? Hm Hacc]; subst. destruct (md_slot m =? ad_slot d).
    + apply IH. constructor; [|exact Hacc]. apply add_to_wf. apply Hm.
    + apply IH. constructor; [|exact H]. apply add_to_wf, wf0_empty.
Qed.

Lemma wf_new_duty_ok : forall m, wf m -> new_duty_ok m = true.
Proof.
  intros m [(_ & _ & H) _]. unfold new_duty_ok. apply forallb_forall. intros c Hc.
  specialize (H c Hc). destruct (map_get c (md_clens m)); [reflexivity | congruence].
Qed.

Lemma filter_all {A} (f : A -> bool) (l : list A) : (forall x, In x l -> f x = true) -> filter f l = l.
Proof.
  induction l as [|x l IH]; intro H; [reflexivity|]. cbn. rewrite (H x (or_introl eq_refl)). f_equal. apply IH. intros y Hy. apply H. right. exact Hy.
Qed.

Lemma merged_wf : forall ds, Forall wf (rev (group (sort_duties ds) [])).
Proof.
  intro ds. apply Forall_rev. apply group_wf. constructor.
Qed.

(* NewDuty's "committee without a size" error cannot happen for duties built by MergeDuties *)
Lemma merge_unfiltered : forall ds, ds <> [] -> merge ds = rev (group (sort_duties ds) []).
Proof.
  intros ds H. unfold merge. destruct ds as [|d ds]; [congruence|].
  apply filter_all. intros m Hm. apply wf_new_duty_ok.
  pose proof (merged_wf (d :: ds)) as Hall. rewrite Forall_forall in Hall. apply Hall. exact Hm.
Qed.

Lemma merge_wf : forall ds m, In m (merge ds) -> wf m.
Proof.
  intros ds m H. destruct ds as [|d ds]; [destruct H|].
  rewrite merge_unfiltered in H by discriminate.
  pose proof (merged_wf (d :: ds)) as Hall. rewrite Forall_forall in Hall. apply Hall. exact H.
Qed.

(* no duty is lost or invented: the merged duties hold as many validator entries as were given *)
Definition entries (l : list mduty) : nat := fold_right (fun m n => (length (md_vidx m) + n)%nat) O l.

Lemma entries_app : forall a b, entries (a ++ b) = (entries a + entries b)%nat.
Proof. unfold entries. induction a as [|m a IH]; intro b; cbn; [reflexivity|]. rewrite IH. lia. Qed.

Lemma entries_rev : forall l, entries (rev l) = entries l.
Proof. induction l as [|m l IH]; [reflexivity|]. cbn [rev]. rewrite entries_app, IH. unfold entries. cbn. lia. Qed.

Lemma entries_cons : forall m l, entries (m :: l) = (length (md_vidx m) + entries l)%nat.
Proof. reflexivity. Qed.

Lemma add_to_length : forall d m, length (md_vidx (add_to d m)) = S (length (md_vidx m)).
Proof. intros d m. unfold add_to. cbn [md_vidx]. rewrite app_length. cbn. lia. Qed.

Lemma group_entries : forall ds acc, entries (group ds acc) = (entries acc + length ds)%nat.
Proof.
  induction ds as [|d ds IH]; intro acc; [cbn [group length]; lia|].
  cbn [group length]. destruct acc as [|m acc'].
  - rewrite IH, entries_cons, add_to_length. cbn. lia.
  - destruct (md_slot m =? ad_slot d); rewrite IH, !entries_cons, add_to_length; cbn; lia.
Qed.

Lemma insert_duty_length : forall x l, length (insert_duty x l) = S (length l).
Proof. induction l as [|y l IH]; cbn; [reflexivity|]. destruct (aduty_le x y); cbn; [reflexivity | rewrite IH; reflexivity]. Qed.

Lemma sort_duties_length : forall l, length (sort_duties l) = length l.
Proof. unfold sort_duties. induction l as [|x l IH]; cbn [fold_right length]; [reflexivity|]. rewrite insert_duty_length, IH. reflexivity. Qed.

Lemma merge_entries : forall ds, entries (merge ds) = length ds.
Proof.
  intro ds. destruct ds as [|d ds]; [reflexivity|].
  rewrite merge_unfiltered by discriminate. rewrite entries_rev, group_entries, sort_duties_length. cbn. lia.
Qed.

(* ------------------------------------------------------------------------------------------- *)
(* createAttestations                                                                            *)

Lemma last_index_bound : forall l x i cur,
  (forall j, cur = Some j -> (j < i)%nat) -> forall j, last_index x l i cur = Some j -> (j < i + length l)%nat.
Proof.
  induction l as [|y l IH]; intros x i cur Hc j H; cbn in *.
  - specialize (Hc j H). lia.
  - apply IH in H; [lia|]. intros j' Hj'. destruct (y =? x); [injection Hj' as <-; lia | specialize (Hc j' Hj'); lia].
Qed.

Lemma last_index_some : forall l x i cur, (In x l \/ cur <> None) -> exists j, last_index x l i cur = Some j.
Proof.
  induction l as [|y l IH]; intros x i cur H; cbn.
  - destruct H as [[]|H]. destruct cur; [eauto | congruence].
  - apply IH. destruct (y =? x) eqn:E; [right; discriminate|].
    destruct H as [[->|H]|H]; [rewrite N.eqb_refl in E; discriminate | left; exact H | right; exact H].
Qed.

Lemma dedup_in : forall l seen v, In v (dedup l seen) -> In v l.
Proof.
  induction l as [|x l IH]; intros seen v H; cbn in *; [exact H|].
  destruct (memb N.eqb x seen); [right; eapply IH; exact H|]. destruct H as [H|H]; [left; exact H | right; eapply IH; exact H].
Qed.

Definition size_of (m : mduty) (c : N) : N := match map_get c (md_clens m) with Some s => s | None => 0 end.

Lemma small_alloc : forall n, n <= max_committee -> new_bitlist n = Ok tt.
Proof.
  intros n H. unfold new_bitlist. unfold max_committee, max_alloc in *.
  assert (Hd : n / 8 <= 2048 / 8) by (apply N.div_le_mono; lia).
  change (2048 / 8) with 256 in Hd.
  destruct (281474976710656 <? n / 8 + 1) eqn:E; [|reflexivity]. apply N.ltb_lt in E. lia.
Qed.

(* every validator of a well-formed duty gets its row, or is skipped exactly when its committee is oversize *)
Lemma create_one_spec : forall m v, wf m -> In v (md_vidx m) ->
  exists i c pos,
    last_index v (md_vidx m) O None = Some i /\ nth_error (md_vidx m) i <> None /\
    nth_error (md_cidx m) i = Some c /\ nth_error (md_vcidx m) i = Some pos /\
    create_one true m v =
      Ok (if max_committee <? size_of m c then None else Some (v, c, size_of m c, pos <? size_of m c)).
Proof.
  intros m v [(H1 & H2 & H3) _] Hin.
  destruct (last_index_some (md_vidx m) v O None (or_introl Hin)) as (i & Hi).
  assert (Hb : (i < length (md_vidx m))%nat).
  { pose proof (last_index_bound (md_vidx m) v O None ltac:(intros; discriminate) i Hi). lia. }
  destruct (nth_error (md_cidx m) i) as [c|] eqn:Ec; [|apply nth_error_None in Ec; lia].
  destruct (nth_error (md_vcidx m) i) as [pos|] eqn:Ep; [|apply nth_error_None in Ep; lia].
  exists i, c, pos. repeat split; try assumption.
  - intro Hn. apply nth_error_None in Hn. lia.
  - unfold create_one. rewrite Hi, Ec, Ep. fold (size_of m c). cbn [andb].
    destruct (max_committee <? size_of m c) eqn:E; [reflexivity|].
    apply N.ltb_ge in E. rewrite (small_alloc _ E). reflexivity.
Qed.

Lemma create_all_ok : forall m vs, wf m -> (forall v, In v vs -> In v (md_vidx m)) ->
  exists l, create_all true m vs = Ok l.
Proof.
  intros m vs Hwf. induction vs as [|v vs IH]; intro H; [exists []; reflexivity|].
  cbn [create_all]. destruct (create_one_spec m v Hwf (H v (or_introl eq_refl))) as (i & c & pos & _ & _ & _ & _ & ->).
  cbn [bind]. destruct (IH (fun v' Hv => H v' (or_intror Hv))) as (l & ->). cbn [bind]. eauto.
Qed.

Lemma attest_no_panic : forall m held, wf m -> attest true m held <> Panic.
Proof.
  intros m held Hwf. unfold attest.
  destruct (md_cidx m) as [|c0 cs] eqn:Ec.
  - exfalso. destruct Hwf as [(H1 & _) Hne]. rewrite Ec in H1. cbn in H1. destruct (md_vidx m); [congruence | discriminate].
  - destruct (create_all_ok m (filter (fun v => memb N.eqb v held) (dedup (md_vidx m) [])) Hwf) as (l & ->).
    + intros v Hv. apply filter_In in Hv as [Hv _]. eapply dedup_in; exact Hv.
    + destruct l; discriminate.
Qed.

Lemma attest_all_no_panic : forall ds held s o, In (s, o) (attest_all_now ds held) -> o <> Panic.
Proof.
  intros ds held s o H. unfold attest_all_now, attest_all in H. apply in_map_iff in H as (m & Heq & Hm).
  injection Heq as _ <-. apply attest_no_panic. eapply merge_wf; exact Hm.
Qed.

(* without the size check a hostile committee length is a panic in NewBitlist *)
Lemma size_guard_necessary :
  let ds := [{| ad_slot := 64; ad_cidx := 1; ad_vidx := 2; ad_vcidx := 0; ad_clen := 4503599627370496; ad_cas := 1 |}] in
  attest_all false ds [2] = [(64, Panic)] /\ attest_all true ds [2] = [(64, Err AENone)].
Proof. split; vm_compute; reflexivity. Qed.

(* an empty duty would panic on CommitteeIndices()[0]; MergeDuties never builds one *)
Lemma empty_duty_panics : forall g s held, attest g (empty_mduty s) held = Panic.
Proof. reflexivity. Qed.

(* ------------------------------------------------------------------------------------------- *)
(* one merged duty per slot, in slot order                                                       *)
From Coq Require Import Sorting.Sorted.

Lemma in_insert_duty : forall x y l, In x (insert_duty y l) <-> x = y \/ In x l.
Proof.
  intros x y. induction l as [|z l IH]; cbn; [intuition congruence|].
  destruct (aduty_le y z); cbn; [intuition congruence|]. rewrite IH. intuition congruence.
Qed.

Lemma in_sort_duties : forall x l, In x (sort_duties l) <-> In x l.
Proof.
  unfold sort_duties. intros x. induction l as [|y l IH]; cbn [fold_right]; [tauto|].
  rewrite in_insert_duty, IH. cbn. intuition congruence.
Qed.

Lemma aduty_le_slot : forall x y, aduty_le x y = true -> ad_slot x <= ad_slot y.
Proof.
  intros x y. unfold aduty_le.
  destruct (ad_slot x <? ad_slot y) eqn:E1; [intros _; apply N.ltb_lt in E1; lia|].
  destruct (ad_slot y <? ad_slot x) eqn:E2; [discriminate|].
  intros _. apply N.ltb_ge in E1, E2. lia.
Qed.

Lemma aduty_le_false_slot : forall x y, aduty_le x y = false -> ad_slot y <= ad_slot x.
Proof.
  intros x y. unfold aduty_le.
  destruct (ad_slot x <? ad_slot y) eqn:E1; [discriminate|].
  intros _. apply N.ltb_ge in E1. exact E1.
Qed.

Lemma insert_duty_sorted : forall x l,
  StronglySorted N.le (map ad_slot l) -> StronglySorted N.le (map ad_slot (insert_duty x l)).
Proof.
  intros x. induction l as [|y l IH]; intro H; cbn [insert_duty map].
  - constructor; constructor.
  - inversion H as [|? ? Hs Hf]; subst. destruct (aduty_le x y) eqn:E; cbn [map].
    + constructor; [exact H|]. apply aduty_le_slot in E. constructor; [exact E|].
      eapply Forall_impl; [|exact Hf]. cbn. intros; lia.
    + constructor; [apply IH; exact Hs|].
      apply Forall_forall. intros s Hin. apply in_map_iff in Hin as (d & <- & Hd). apply in_insert_duty in Hd as [->|Hd].
      * apply aduty_le_false_slot. exact E.
      * rewrite Forall_forall in Hf. apply Hf. apply in_map. exact Hd.
Qed.

Lemma sort_duties_sorted : forall l, StronglySorted N.le (map ad_slot (sort_duties l)).
Proof.
  unfold sort_duties. induction l as [|x l IH]; cbn [fold_right]; [constructor|]. apply insert_duty_sorted. exact IH.
Qed.

Definition desc (l : list mduty) : Prop := StronglySorted (fun a b => b < a) (map md_slot l).

Lemma add_to_slot : forall d m, md_slot (add_to d m) = md_slot m.
Proof. reflexivity. Qed.

Lemma group_desc : forall ds acc,
  StronglySorted N.le (map ad_slot ds) -> desc acc ->
  match acc with m :: _ => Forall (fun d => md_slot m <= ad_slot d) ds | [] => True end ->
  desc (group ds acc).
Proof.
  induction ds as [|d ds IH]; intros acc Hs Hd Hh; [exact Hd|].
  cbn [map] in Hs. inversion Hs as [|? ? Hs' Hf]; subst.
  assert (Hf' : Forall (fun d' => ad_slot d <= ad_slot d') ds).
  { apply Forall_forall. intros d' Hin. rewrite Forall_forall in Hf. apply Hf. apply in_map. exact Hin. }
  cbn [group]. destruct acc as [|m acc'].
  - apply IH; [exact Hs' | |exact Hf']. unfold desc. cbn. constructor; constructor.
  - inversion Hh as [|? ? Hmd Hmds]; subst. destruct (md_slot m =? ad_slot d) eqn:E.
    + apply IH; [exact Hs' | exact Hd | exact Hmds].
    + apply N.eqb_neq in E. apply IH; [exact Hs' | | exact Hf'].
      unfold desc in *. cbn [map] in *. constructor; [exact Hd|].
      inversion Hd as [|? ? _ Hfm]; subst. constructor; [cbn; lia|].
      eapply Forall_impl; [|exact Hfm]. cbn. intros; lia.
Qed.

Lemma SSorted_app {A} (R : A -> A -> Prop) : forall l1 l2,
  StronglySorted R l1 -> StronglySorted R l2 -> (forall x y, In x l1 -> In y l2 -> R x y) ->
  StronglySorted R (l1 ++ l2).
Proof.
  induction l1 as [|a l1 IH]; intros l2 H1 H2 H; [exact H2|].
  inversion H1 as [|? ? Hs Hf]; subst. cbn. constructor.
  - apply IH; [exact Hs | exact H2 | intros x y Hx Hy; apply H; [right; exact Hx | exact Hy]].
  - apply Forall_app. split; [exact Hf|]. apply Forall_forall. intros y Hy. apply H; [left; reflexivity | exact Hy].
Qed.

Lemma SSorted_rev {A} (R : A -> A -> Prop) : forall l,
  StronglySorted R l -> StronglySorted (fun a b => R b a) (rev l).
Proof.
  induction l as [|a l IH]; intro H; [constructor|].
  inversion H as [|? ? Hs Hf]; subst. cbn [rev]. apply SSorted_app; [apply IH; exact Hs | constructor; constructor|].
  intros x y Hx [<-|[]]. apply in_rev in Hx. rewrite Forall_forall in Hf. apply Hf. exact Hx.
Qed.

Lemma merge_slots_increasing : forall ds, StronglySorted N.lt (map md_slot (merge ds)).
Proof.
  intro ds. destruct ds as [|d ds]; [constructor|].
  rewrite merge_unfiltered by discriminate. rewrite map_rev.
  apply (SSorted_rev (fun a b => b < a)). apply group_desc; [apply sort_duties_sorted | constructor | exact I].
Qed.

Lemma group_slots : forall ds acc s,
  In s (map md_slot (group ds acc)) <-> In s (map md_slot acc) \/ In s (map ad_slot ds).
Proof.
  induction ds as [|d ds IH]; intros acc s; [cbn; tauto|].
  cbn [group]. destruct acc as [|m acc'].
  - rewrite IH. cbn. tauto.
  - destruct (md_slot m =? ad_slot d) eqn:E; rewrite IH; cbn [map In]; rewrite ?add_to_slot; cbn [empty_mduty md_slot].
    + apply N.eqb_eq in E. intuition congruence.
    + tauto.
Qed.

(* the merged duties cover exactly the slots that have a duty *)
Lemma merge_slots : forall ds s, In s (map md_slot (merge ds)) <-> In s (map ad_slot ds).
Proof.
  intros ds s. destruct ds as [|d ds]; [cbn; tauto|].
  rewrite merge_unfiltered by discriminate. rewrite map_rev, <- in_rev, group_slots.
  split.
  - intros [H|H]; [destruct H|]. apply in_map_iff in H as (x & <- & Hx). apply (proj1 (in_sort_duties x _)) in Hx. apply in_map. exact Hx.
  - intro H. right. apply in_map_iff in H as (x & <- & Hx). apply in_map. apply (proj2 (in_sort_duties x _)). exact Hx.
Qed.
