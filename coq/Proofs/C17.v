(* C17: lemmas about the extracted tree (parametrised by the vm_compute facts, which are established
   in Properties/C17.v against the graphs extracted now) and the witnesses used as non-vacuity examples. *)
From Verif Require Import Lib.Base Lib.Lockset Lib.LocksetX Proofs.Lockset Proofs.LocksetX Gen.C17_Extracted.
From Coq Require Import String.

Definition tree_analysis_ok : bool := forallb (fun '(_, g, e, sk, sg) => analysis_ok sk sg g e) services.
Definition tree_discipline_ok : bool := forallb (fun '(_, g, e, sk, sg) => discipline_ok sk sg (graph_accesses g e)) services.
Definition tree_lock_order_ok : bool := forallb (fun '(_, g, e, _, _) => lock_order_ok g e) services.

Lemma initial_nil single g entries : initial single g entries [].
Proof. split; [intros t []|intros [|i] j ti tj o _ Hi; discriminate]. Qed.

Lemma tree_static_lemma : tree_analysis_ok = true ->
  forall name g e sk sg, In (name, g, e, sk, sg) services ->
    forall S0, initial sg g e S0 ->
    forall S, steps g S0 S ->
      ~ racy sk g S /\ (forall i L, nth_error S i = Some (Done, L) -> L = []).
Proof.
  intros H name g e sk sg Hin. apply lockset_sound_lemma.
  unfold tree_analysis_ok in H. rewrite forallb_forall in H. exact (H _ Hin).
Qed.

Lemma tree_dynamic_lemma : tree_analysis_ok = true ->
  forall name g e sk sg, In (name, g, e, sk, sg) services ->
    forall S, xsteps sg g e [] S ->
      ~ racy sk g S /\ (forall i L, nth_error S i = Some (Done, L) -> L = []) /\ lock_safe g S /\ mutex_safe S.
Proof.
  intros H name g e sk sg Hin S Hs.
  unfold tree_analysis_ok in H. rewrite forallb_forall in H.
  apply (dynamic_sound_lemma sk sg g e (H _ Hin) [] (initial_nil _ _ _) S Hs).
Qed.

Lemma tree_write_isolated_lemma : tree_analysis_ok = true -> tree_discipline_ok = true ->
  forall name g e sk sg, In (name, g, e, sk, sg) services ->
    forall f, In f (fields_of (graph_accesses g e)) -> sk f = false -> confined sg (graph_accesses g e) f = false ->
      exists m, forall S, xsteps sg g e [] S -> write_isolated g S f m.
Proof.
  intros H HD name g e sk sg Hin f Hf Hsk Hc.
  unfold tree_discipline_ok in HD. rewrite forallb_forall in HD. specialize (HD _ Hin). cbn in HD.
  destruct (discipline_spec sk sg _ HD f Hf Hsk Hc) as [m Hm]. exists m. intros S Hs.
  unfold tree_analysis_ok in H. rewrite forallb_forall in H.
  apply (write_isolation_lemma sk sg g e f m (H _ Hin) Hm [] (initial_nil _ _ _) S Hs).
Qed.

Lemma tree_isolated_lemma : tree_analysis_ok = true ->
  forall name g e sk sg, In (name, g, e, sk, sg) services ->
    forall f m, In (f, m) (guard_table (graph_accesses g e)) ->
      forall S, xsteps sg g e [] S -> isolated g S f m.
Proof.
  intros H name g e sk sg Hin f m Hfm S Hs.
  unfold tree_analysis_ok in H. rewrite forallb_forall in H.
  apply (isolation_lemma sk sg g e f m (H _ Hin) (guard_table_guarded _ f m Hfm) [] (initial_nil _ _ _) S Hs).
Qed.

Lemma tree_deadlock_free_lemma : tree_analysis_ok = true -> tree_lock_order_ok = true ->
  forall name g e sk sg, In (name, g, e, sk, sg) services ->
    forall S, xsteps sg g e [] S -> live S -> can_step g S.
Proof.
  intros H HO name g e sk sg Hin S Hs Hl.
  unfold tree_analysis_ok in H. rewrite forallb_forall in H.
  unfold tree_lock_order_ok in HO. rewrite forallb_forall in HO. specialize (HO _ Hin). cbn in HO.
  apply (deadlock_free_lemma sk sg g e (H _ Hin) HO [] (initial_nil _ _ _) S Hs Hl).
Qed.

Lemma tree_deadlock_free_wp_lemma : tree_analysis_ok = true -> tree_lock_order_ok = true ->
  forall name g e sk sg, In (name, g, e, sk, sg) services ->
    forall S, xsteps sg g e [] S -> live S -> can_step_wp g S.
Proof.
  intros H HO name g e sk sg Hin S Hs Hl.
  unfold tree_analysis_ok in H. rewrite forallb_forall in H.
  unfold tree_lock_order_ok in HO. rewrite forallb_forall in HO. specialize (HO _ Hin). cbn in HO.
  apply (deadlock_free_wp_lemma sk sg g e (H _ Hin) HO [] (initial_nil _ _ _) S Hs Hl).
Qed.

(* ------------------------------------------------------------------------------------------ *)
(* witnesses *)

Definition unguarded : graph := [ {| n_instr := IAcc 1 true; n_succ := []; n_owner := 0 |} ].

Lemma unguarded_is_racy :
  exists S, xsteps (fun _ => false) unguarded [0%nat] [] S /\ racy (fun _ => false) unguarded S.
Proof.
  exists [(At 0, []); (At 0, [])]. split.
  - eapply xsteps_cons; [eapply xsteps_cons; [apply xsteps_refl|]|].
    + apply (xs_spawn _ _ _ [] 0%nat); [left; reflexivity | intros o _ Hs; discriminate].
    + apply (xs_spawn _ _ _ [(At 0, [])] 0%nat); [left; reflexivity | intros o _ Hs; discriminate].
  - exists 0%nat, 1%nat, (At 0, []), (At 0, []), 1, true, true.
    repeat split; try discriminate; try reflexivity; eexists _, _; repeat split; reflexivity.
Qed.

Definition guarded_example : graph :=
  [ {| n_instr := ILock 1 true; n_succ := [1%nat]; n_owner := 0 |};
    {| n_instr := IAcc 1 true; n_succ := [2%nat]; n_owner := 0 |};
    {| n_instr := IUnlock 1 true; n_succ := []; n_owner := 0 |};
    {| n_instr := ILock 1 false; n_succ := [4%nat]; n_owner := 1 |};
    {| n_instr := IAcc 1 false; n_succ := [5%nat]; n_owner := 1 |};
    {| n_instr := IUnlock 1 false; n_succ := []; n_owner := 1 |} ].

Definition two_guards : graph :=
  [ {| n_instr := ILock 1 true; n_succ := [1%nat]; n_owner := 0 |};
    {| n_instr := IAcc 1 true; n_succ := [2%nat]; n_owner := 0 |};
    {| n_instr := IUnlock 1 true; n_succ := []; n_owner := 0 |};
    {| n_instr := ILock 2 true; n_succ := [4%nat]; n_owner := 1 |};
    {| n_instr := IAcc 1 true; n_succ := [5%nat]; n_owner := 1 |};
    {| n_instr := IUnlock 2 true; n_succ := []; n_owner := 1 |} ].

Definition abba : graph :=
  [ {| n_instr := ILock 1 true; n_succ := [1%nat]; n_owner := 0 |};
    {| n_instr := ILock 2 true; n_succ := [2%nat]; n_owner := 0 |};
    {| n_instr := IUnlock 2 true; n_succ := [3%nat]; n_owner := 0 |};
    {| n_instr := IUnlock 1 true; n_succ := []; n_owner := 0 |};
    {| n_instr := ILock 2 true; n_succ := [5%nat]; n_owner := 1 |};
    {| n_instr := ILock 1 true; n_succ := [6%nat]; n_owner := 1 |};
    {| n_instr := IUnlock 1 true; n_succ := [7%nat]; n_owner := 1 |};
    {| n_instr := IUnlock 2 true; n_succ := []; n_owner := 1 |} ].

Lemma abba_deadlocks :
  exists S, xsteps (fun _ => false) abba [0%nat; 4%nat] [] S /\ live S /\ ~ can_step abba S.
Proof.
  exists [(At 1, [(1, true)]); (At 5, [(2, true)])]. split; [|split].
  - eapply xsteps_cons; [eapply xsteps_cons; [eapply xsteps_cons; [eapply xsteps_cons; [apply xsteps_refl|]|]|]|].
    + apply (xs_spawn _ _ _ [] 0%nat); [left; reflexivity | intros o _ Hs; discriminate].
    + apply (xs_spawn _ _ _ [(At 0, [])] 4%nat); [right; left; reflexivity | intros o _ Hs; discriminate].
    + apply xs_step. apply (step_thread abba [(At 0, []); (At 4, [])] 0%nat (At 0, []) 0%nat (At 1, [(1, true)])); try reflexivity.
      intros j t Hne Hj x' Hin. destruct j as [|[|j]]; [congruence| |destruct j; discriminate].
      injection Hj as <-. destruct Hin.
    + apply xs_step. apply (step_thread abba [(At 1, [(1, true)]); (At 4, [])] 1%nat (At 4, []) 0%nat (At 5, [(2, true)])); try reflexivity.
      intros j t Hne Hj x' Hin. destruct j as [|[|j]]; [|congruence|destruct j; discriminate].
      injection Hj as <-. destruct Hin as [Hin|[]]. discriminate.
  - exists 0%nat, 1%nat, [(1, true)]. reflexivity.
  - intros (i & t & c & t' & Hi & Ht & Hm). destruct i as [|[|i]].
    + injection Hi as <-. unfold may_step in Hm. cbn in Hm.
      destruct (Hm 1%nat (At 5, [(2, true)]) ltac:(discriminate) eq_refl true ltac:(left; reflexivity)). discriminate.
    + injection Hi as <-. unfold may_step in Hm. cbn in Hm.
      destruct (Hm 0%nat (At 1, [(1, true)]) ltac:(discriminate) eq_refl true ltac:(left; reflexivity)). discriminate.
    + destruct i; discriminate.
Qed.

(* writer preference bites: in the guarded example a reader at its RLock waits for the writer that sits at
   its Lock, and the writer can go *)
Lemma writer_preference_example :
  let S := [(At 0, []); (At 3, [])] in
  may_step guarded_example S 1 /\ ~ may_step_wp guarded_example S 1 /\ can_step_wp guarded_example S.
Proof.
  cbn zeta. split; [|split].
  - unfold may_step. cbn. intros j t Hne Hj x' Hin.
    destruct j as [|[|j]]; [|congruence|destruct j; discriminate]. injection Hj as <-. destruct Hin.
  - intros [_ H]. cbn in H. specialize (H 0%nat (At 0, []) ltac:(discriminate) eq_refl). discriminate.
  - exists 0%nat, (At 0, []), 0%nat, (At 1, [(1, true)]). split; [reflexivity|split; [reflexivity|]].
    split; [|exact I]. unfold may_step. cbn. intros j t Hne Hj x' Hin.
    destruct j as [|[|j]]; [congruence| |destruct j; discriminate]. injection Hj as <-. destruct Hin.
Qed.
