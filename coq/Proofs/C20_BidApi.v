(* C20: the builder-bid cache under requests for slots in ANY order (no [aucs_ok]). *)
From Verif Require Import Lib.Base Model.C20_Bookkeeping Proofs.C20_Bookkeeping Model.C20_BidApi.
From Coq Require Import ZifyBool ZifyN ZifyNat.

Section BidApi.
  Variable spe : N.

  (* what one operation of the history model does to the cache and to the ghost "slot of the latest
     cacheBid": nothing, unless it is an auction *)
  Lemma step_bids_cases (fx : bool) st o :
    (bids (step spe fx st o) = bids st /\ g_auc (step spe fx st o) = g_auc st /\ forall s, o <> OAuction s) \/
    (exists s, o = OAuction s /\ bids (step spe fx st o) = bid_set fx s (bids st) /\ g_auc (step spe fx st o) = s).
  Proof.
    destruct o as [cur notcur ds|s|s ok|cur e resched sub_ok|cur e ok|cur s|s ok|s|s].
    - left. cbn. repeat split; intros; discriminate.
    - left. unfold step. destruct (mem s (jobs st)); cbn; repeat split; intros; discriminate.
    - left. unfold step. destruct (mem s (running st)); cbn; repeat split; intros; discriminate.
    - left. cbn [step]. destruct resched; cbn; repeat split; intros; discriminate.
    - left. cbn. repeat split; intros; discriminate.
    - left. cbn [step]. destruct (s =? cur); cbn; repeat split; intros; discriminate.
    - left. cbn [step]. destruct ok; cbn; repeat split; intros; discriminate.
    - left. cbn. repeat split; intros; discriminate.
    - right. exists s. cbn. auto.
  Qed.

  (* the invariant that needs no condition on the order of the slots *)
  Record any_inv (st : sys) : Prop := {
    ai_nodup : NoDup (bids st);
    ai_win : forall k, In k (bids st) -> g_auc st <= k + bid_window
  }.

  Lemma any_inv_init : any_inv init.
  Proof. constructor; cbn; [constructor | tauto]. Qed.

  Lemma any_inv_step st o : any_inv st -> any_inv (step spe true st o).
  Proof.
    intros [Hn Hw]. destruct (step_bids_cases true st o) as [(Hb & Hg & _)|(s & -> & Hb & Hg)].
    - constructor; rewrite Hb; [exact Hn | rewrite Hg; exact Hw].
    - constructor; rewrite Hb; unfold bid_set.
      + apply NoDup_filter', NoDup_ins, Hn.
      + rewrite Hg. intros k Hk. apply filter_In in Hk as [_ Hge]. lia.
  Qed.

  (* a cached slot has been asked for *)
  Lemma bids_from_history (fx : bool) h : forall st k,
    In k (bids (run spe fx h st)) -> In k (bids st) \/ In (OAuction k) h.
  Proof.
    induction h as [|o h IH]; intros st k Hk; [left; exact Hk|].
    unfold run in Hk; cbn [fold_left] in Hk. apply IH in Hk as [Hk|Hk]; [|right; right; exact Hk].
    destruct (step_bids_cases fx st o) as [(Hb & _ & _)|(s & -> & Hb & _)]; rewrite Hb in Hk.
    - left; exact Hk.
    - unfold bid_set in Hk.
      assert (Hk' : In k (ins s (bids st))) by (destruct fx; [apply filter_In in Hk as [Hk _]|]; exact Hk).
      apply In_ins in Hk' as [->|Hk']; [right; left; reflexivity | left; exact Hk'].
  Qed.

  Lemma bids_any_order h :
    let st := run spe true h init in
    NoDup (bids st) /\
    (forall k, In k (bids st) -> g_auc st <= k + bid_window /\ In (OAuction k) h) /\
    size (filter (fun k => k <=? g_auc st) (bids st)) <= bid_window + 1.
  Proof.
    intros st.
    pose proof (run_inv spe true any_inv any_inv_step h init any_inv_init) as [Hn Hw]. fold st in Hn, Hw.
    split; [exact Hn|]. split.
    - intros k Hk. split; [apply Hw, Hk|].
      destruct (bids_from_history true h init k Hk) as [H|H]; [cbn in H; tauto | exact H].
    - pose proof (window_size (filter (fun k => k <=? g_auc st) (bids st)) (g_auc st - bid_window) (g_auc st)
                              (NoDup_filter' _ _ Hn)) as W.
      assert (Hin : forall x, In x (filter (fun k => k <=? g_auc st) (bids st)) ->
                              g_auc st - bid_window <= x /\ x <= g_auc st).
      { intros x Hx. apply filter_In in Hx as [Hx Hle]. specialize (Hw x Hx). lia. }
      specialize (W Hin). lia.
  Qed.

  (* --- with the API requests -------------------------------------------------------------------- *)
  Lemma xrun_flat (fx : bool) h : forall st, xrun spe fx h st = run spe fx (xflat spe fx h st) st.
  Proof.
    induction h as [|x h IH]; intros st; [reflexivity|].
    cbn [xrun fold_left xflat]. unfold run at 1. rewrite fold_left_app.
    change (fold_left (xstep spe fx) h (xstep spe fx st x)) with (xrun spe fx h (xstep spe fx st x)).
    rewrite IH. reflexivity.
  Qed.

  Lemma xflat_requested (fx : bool) h : forall st k, In (OAuction k) (xflat spe fx h st) -> In k (requested h).
  Proof.
    induction h as [|x h IH]; intros st k Hk; [destruct Hk|].
    cbn [xflat] in Hk. apply in_app_or in Hk as [Hk|Hk].
    - destruct x as [o|s]; cbn [xeff] in Hk.
      + destruct Hk as [->|[]]. cbn. left; reflexivity.
      + destruct (mem s (bids st)); [destruct Hk|]. destruct Hk as [Hk|[]]. inversion Hk; subst. cbn. left; reflexivity.
    - apply IH in Hk. cbn [requested]. destruct (xreq x); [right|]; exact Hk.
  Qed.

  Lemma bids_api_any_order h :
    let st := xrun spe true h init in
    NoDup (bids st) /\
    (forall k, In k (bids st) -> g_auc st <= k + bid_window /\ In k (requested h)) /\
    size (filter (fun k => k <=? g_auc st) (bids st)) <= bid_window + 1.
  Proof.
    intros st. unfold st. rewrite xrun_flat.
    destruct (bids_any_order (xflat spe true h init)) as (Hn & Hw & Hs).
    split; [exact Hn|]. split; [|exact Hs].
    intros k Hk. destruct (Hw k Hk) as [H1 H2]. split; [exact H1|]. eapply xflat_requested, H2.
  Qed.

  (* a request answered from the cache writes nothing *)
  Lemma xbid_hit (fx : bool) st s : mem s (bids st) = true -> xstep spe fx st (XBid s) = st.
  Proof. intro H. unfold xstep, xeff. rewrite H. reflexivity. Qed.
End BidApi.

(* --- the high-water-mark variant: one far-future request, then ordinary running ---------------- *)
Lemma hw_stuck n : forall far s l,
  s + N.of_nat n <= far -> NoDup l -> (forall k, In k l -> k < s \/ far <= k) ->
  fst (fold_left hw_cache (upto n s) (far, l)) = far /\
  size (snd (fold_left hw_cache (upto n s) (far, l))) = size l + N.of_nat n.
Proof.
  induction n as [|n IH]; intros far s l Hle Hn Hl; cbn [upto fold_left].
  - cbn. split; [reflexivity | lia].
  - assert (Hc : hw_cache (far, l) s = (far, ins s l)).
    { unfold hw_cache. assert (E : (far <? s) = false) by lia. rewrite E. reflexivity. }
    rewrite Hc.
    assert (Hfresh : mem s l = false).
    { apply mem_false. intro Hi. destruct (Hl s Hi); lia. }
    destruct (IH far (s + 1) (ins s l)) as [H1 H2].
    + lia.
    + apply NoDup_ins, Hn.
    + intros k Hk. apply In_ins in Hk as [->|Hk]; [lia|]. destruct (Hl k Hk); lia.
    + split; [exact H1|]. rewrite H2. unfold ins. rewrite Hfresh. unfold size. cbn [length]. lia.
Qed.

Lemma hw_unbounded n far : N.of_nat n <= far -> 0 < far ->
  size (snd (hw_run (far :: upto n 0))) = N.of_nat n + 1.
Proof.
  intros Hle Hpos. unfold hw_run. cbn [fold_left].
  assert (Hc : hw_cache (0, []) far = (far, [far])).
  { unfold hw_cache. assert (E : (0 <? far) = true) by lia. rewrite E. cbn.
    assert (E2 : (far <=? far + bid_window) = true) by (unfold bid_window; lia). rewrite E2. reflexivity. }
  rewrite Hc.
  destruct (hw_stuck n far 0 [far]) as [_ H2].
  - lia.
  - constructor; [intros []|constructor].
  - intros k [<-|[]]. right. lia.
  - rewrite H2. unfold size. cbn [length]. lia.
Qed.
