(* C19 lemmas: the levels of a path are its dotted prefixes and nothing else.  The result of a
   lookup is a function of the raw values at the candidate keys (first j components ++ [setting],
   j = 1..|p|) and of the top-level reading; a leaf at any other key - e.g. the key one gets by
   cutting a component such as "localhost:5052" at its ':' - cannot change it. *)
From Verif Require Import Lib.Base Model.C19_Hierarchy Proofs.C19.
From Coq Require Import Lia PeanoNat.
Local Open Scope list_scope.

Notation len := List.length.

Section Levels.
  Context {V : Type}.
  Variable has : raw -> bool.
  Variable conv : raw -> V.
  Variable top : config -> V.
  Variable setting : comp.

  Lemma lookup_only_candidate_keys : forall c c' p,
    (forall j, (1 <= j <= len p)%nat -> get c' (firstn j p ++ [setting]) = get c (firstn j p ++ [setting])) ->
    top c' = top c ->
    lookup has conv top setting c' p = lookup has conv top setting c p.
  Proof.
    intros c c' p Hsame Htop.
    assert (H : forall n, (n <= len p)%nat ->
                lookup has conv top setting c' (firstn n p) = lookup has conv top setting c (firstn n p)).
    { induction n as [|n IH]; intro Hn.
      - cbn [firstn]. rewrite !lookup_nil. exact Htop.
      - rewrite !lookup_firstn_S by lia. unfold valued. rewrite Hsame by lia.
        destruct (has (get c (firstn (S n) p ++ [setting]))); [reflexivity | apply IH; lia]. }
    specialize (H (len p) (le_n _)). rewrite !firstn_all in H. exact H.
  Qed.

  (* a leaf whose key is not a candidate key of the path (and that leaves the top-level reading
     alone) changes nothing: its key is neither a prefix of, nor equal to, any candidate key *)
  Lemma lookup_add_elsewhere : forall c p kq r,
    (forall j, (1 <= j <= len p)%nat -> prefixb (firstn j p ++ [setting]) kq = false) ->
    top ((kq, r) :: c) = top c ->
    lookup has conv top setting ((kq, r) :: c) p = lookup has conv top setting c p.
  Proof.
    intros c p kq r Hno Htop. apply lookup_only_candidate_keys; [|exact Htop].
    intros j Hj. apply get_cons_other. apply Hno. exact Hj.
  Qed.
End Levels.
