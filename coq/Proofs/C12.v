(* C12 lemmas: configuration state machine; RWMutex invariant, deadlock freedom, quiescence. *)
From Verif Require Import Lib.Base Lib.Sched Lib.Lockset Proofs.Lockset Model.C12_ConfigLock.
From Coq Require Import Arith Lia.

(* ============================================================================================ *)
(* Part 1: keep-last-good                                                                        *)

Lemma fetch_good url r c :
  fetch_execution_config url r c =
    if url then match good r with d :: _ => Some d | [] => c end else c.
Proof.
  unfold fetch_execution_config, good, fetch_after_accounts.
  destruct (rf_acc r); destruct url; try reflexivity.
  destruct (rf_fetch r); reflexivity.
Qed.

Lemma good_length r : good r = [] \/ exists d, good r = [d].
Proof.
  unfold good. destruct (rf_acc r); auto. destruct (rf_fetch r); eauto.
Qed.

Lemma last_good_snoc rs r init :
  last_good (rs ++ [r]) init = match good r with d :: _ => Some d | [] => last_good rs init end.
Proof.
  unfold last_good, goods. rewrite flat_map_app. cbn [flat_map]. rewrite app_nil_r, rev_app_distr.
  destruct (good_length r) as [E|[d E]]; rewrite E; reflexivity.
Qed.

Lemma refresh_all_last_good rs init : refresh_all true rs init = last_good rs init.
Proof.
  induction rs as [|r rs IH] using rev_ind; [reflexivity|].
  unfold refresh_all in *. rewrite fold_left_app. cbn [fold_left]. rewrite IH, fetch_good, last_good_snoc.
  reflexivity.
Qed.

Lemma refresh_all_no_url rs init : refresh_all false rs init = init.
Proof.
  induction rs as [|r rs IH] using rev_ind; [reflexivity|].
  unfold refresh_all in *. rewrite fold_left_app. cbn [fold_left]. rewrite IH, fetch_good. reflexivity.
Qed.

(* the relational reading of last_good *)
Lemma last_good_split rs init :
  (goods rs = [] /\ last_good rs init = init) \/
  (exists pre r post d, rs = pre ++ r :: post /\ good r = [d] /\ goods post = [] /\ last_good rs init = Some d).
Proof.
  induction rs as [|r rs IH] using rev_ind; [left; split; reflexivity|].
  rewrite last_good_snoc. destruct (good_length r) as [E|[d E]]; rewrite E.
  - destruct IH as [[Hg Hl]|(pre & r0 & post & d & -> & Hr0 & Hpost & Hl)].
    + left. split; [|exact Hl]. unfold goods in *. rewrite flat_map_app, Hg. cbn. rewrite E. reflexivity.
    + right. exists pre, r0, (post ++ [r]), d. repeat split; try assumption.
      * rewrite <- app_assoc. reflexivity.
      * unfold goods in *. rewrite flat_map_app, Hpost. cbn. rewrite E. reflexivity.
  - right. exists rs, r, [], d. repeat split; assumption || reflexivity.
Qed.

Lemma never_nil_after_good rs init d :
  In d (goods rs) -> refresh_all true rs init <> None.
Proof.
  intros Hin. rewrite refresh_all_last_good. unfold last_good.
  destruct (rev (goods rs)) as [|x l] eqn:E; [|discriminate].
  apply in_rev in Hin. rewrite E in Hin. destruct Hin.
Qed.

(* ============================================================================================ *)
(* Part 2: lock invariant                                                                        *)

Local Open Scope nat_scope.

Inductive tstep_spec (g : prog) (i : nat) (t : thr) (L : lock) : thr -> lock -> Prop :=
| ts_skip pc nd pc' c :
    t_pc t = PAt pc -> nth_error g pc = Some nd -> (p_op nd = OSkip \/ p_op nd = OBlock) -> next_pc nd c = Some pc' ->
    tstep_spec g i t L {| t_pc := pc'; t_r := t_r t; t_w := t_w t |} L
| ts_rlock pc nd pc' c :
    t_pc t = PAt pc -> nth_error g pc = Some nd -> p_op nd = ORLock -> next_pc nd c = Some pc' ->
    l_writer L = WNone ->
    tstep_spec g i t L {| t_pc := pc'; t_r := S (t_r t); t_w := t_w t |}
               {| l_readers := S (l_readers L); l_writer := WNone |}
| ts_runlock pc nd pc' c r :
    t_pc t = PAt pc -> nth_error g pc = Some nd -> p_op nd = ORUnlock -> next_pc nd c = Some pc' ->
    t_r t = S r ->
    tstep_spec g i t L {| t_pc := pc'; t_r := r; t_w := t_w t |}
               {| l_readers := pred (l_readers L); l_writer := l_writer L |}
| ts_announce pc nd :
    t_pc t = PAt pc -> nth_error g pc = Some nd -> p_op nd = OLock -> l_writer L = WNone ->
    tstep_spec g i t L {| t_pc := PAnn pc; t_r := t_r t; t_w := t_w t |}
               {| l_readers := l_readers L; l_writer := WPending i |}
| ts_unlock pc nd pc' c :
    t_pc t = PAt pc -> nth_error g pc = Some nd -> p_op nd = OUnlock -> next_pc nd c = Some pc' ->
    l_writer L = WHeld i -> t_w t = true ->
    tstep_spec g i t L {| t_pc := pc'; t_r := t_r t; t_w := false |}
               {| l_readers := l_readers L; l_writer := WNone |}
| ts_acquire pc nd pc' c :
    t_pc t = PAnn pc -> nth_error g pc = Some nd -> next_pc nd c = Some pc' ->
    l_readers L = 0 -> l_writer L = WPending i ->
    tstep_spec g i t L {| t_pc := pc'; t_r := t_r t; t_w := true |}
               {| l_readers := 0; l_writer := WHeld i |}.

Lemma cstep_inv g s i c s' :
  cstep g s (i, c) = Some s' ->
  exists t t' L', nth_error (s_threads s) i = Some t /\ tstep_spec g i t (s_lock s) t' L' /\
                  s' = set_thread s i t' L'.
Proof.
  unfold cstep. intro H.
  destruct (nth_error (s_threads s) i) as [t|] eqn:Et; [|discriminate].
  exists t. destruct (t_pc t) as [pc|pc|] eqn:Epc; [| |discriminate].
  - destruct (nth_error g pc) as [nd|] eqn:End; [|discriminate].
    destruct (p_op nd) eqn:Eop.
    + destruct (next_pc nd c) as [pc'|] eqn:En; [|discriminate]. injection H as <-.
      do 2 eexists. split; [reflexivity|]. split; [|reflexivity]. eapply ts_skip; eauto.
    + destruct (next_pc nd c) as [pc'|] eqn:En; [|discriminate]. injection H as <-.
      do 2 eexists. split; [reflexivity|]. split; [|reflexivity]. eapply ts_skip; eauto.
    + destruct (l_writer (s_lock s)) eqn:Ew; try discriminate.
      destruct (next_pc nd c) as [pc'|] eqn:En; [|discriminate]. injection H as <-.
      do 2 eexists. split; [reflexivity|]. split; [|reflexivity]. eapply ts_rlock; eauto.
    + destruct (t_r t) as [|r] eqn:Er; [discriminate|].
      destruct (next_pc nd c) as [pc'|] eqn:En; [|discriminate]. injection H as <-.
      do 2 eexists. split; [reflexivity|]. split; [|reflexivity]. eapply ts_runlock; eauto.
    + destruct (l_writer (s_lock s)) eqn:Ew; try discriminate. injection H as <-.
      do 2 eexists. split; [reflexivity|]. split; [|reflexivity]. eapply ts_announce; eauto.
    + destruct (l_writer (s_lock s)) as [|j|j] eqn:Ew; try discriminate.
      destruct (t_w t) eqn:Etw; [|discriminate].
      destruct (next_pc nd c) as [pc'|] eqn:En; [|discriminate].
      destruct (Nat.eqb_spec j i) as [->|]; [|discriminate]. injection H as <-.
      do 2 eexists. split; [reflexivity|]. split; [|reflexivity]. eapply ts_unlock; eauto.
  - destruct (nth_error g pc) as [nd|] eqn:End; [|discriminate].
    destruct (l_readers (s_lock s)) eqn:Er; [|discriminate].
    destruct (l_writer (s_lock s)) as [|j|j] eqn:Ew; try discriminate.
    destruct (next_pc nd c) as [pc'|] eqn:En; [|discriminate].
    destruct (Nat.eqb_spec j i) as [->|]; [|discriminate]. injection H as <-.
    do 2 eexists. split; [reflexivity|]. split; [|reflexivity]. eapply ts_acquire; eauto.
Qed.

Lemma next_pc_cases nd c pc' :
  next_pc nd c = Some pc' ->
  (pc' = PDone /\ p_succ nd = []) \/ (exists s, pc' = PAt s /\ In s (p_succ nd)).
Proof.
  unfold next_pc. destruct (p_succ nd) as [|s0 l] eqn:E.
  - intro H; injection H as <-. left; auto.
  - intro H. destruct (nth_error (s0 :: l) c) as [s|] eqn:En; [|discriminate].
    injection H as <-. right. exists s. split; [reflexivity|]. eapply nth_error_In; eauto.
Qed.

Lemma list_sum_cons_eq a l : list_sum (a :: l) = a + list_sum l.
Proof. reflexivity. Qed.

Lemma sum_update (f : thr -> nat) ts i t t' :
  nth_error ts i = Some t ->
  list_sum (map f (update ts i t')) + f t = list_sum (map f ts) + f t'.
Proof.
  revert i. induction ts as [|a ts IH]; intros [|i] H; cbn [nth_error] in H; try discriminate.
  - injection H as ->. cbn [update map]. rewrite !list_sum_cons_eq. lia.
  - specialize (IH i H). cbn [update map]. rewrite !list_sum_cons_eq. lia.
Qed.

Lemma nth_update_cases {A} (l : list A) i j a t :
  nth_error l i = Some t ->
  nth_error (update l i a) j = if Nat.eqb j i then Some a else nth_error l j.
Proof.
  intro H. destruct (Nat.eqb_spec j i) as [->|Hne].
  - eapply nth_update_same; eauto.
  - apply nth_update_other. congruence.
Qed.

Lemma hold_eqb_eq a b : hold_eqb a b = true <-> a = b.
Proof. destruct a, b; cbn; split; congruence. Qed.

Lemma ohold_eqb_eq a b : ohold_eqb a b = true <-> a = b.
Proof. apply (option_eqb_spec hold_eqb hold_eqb_eq). Qed.

Lemma check_pnodes_nth ls g : forall base n nd,
  check_pnodes ls base g = true -> nth_error g n = Some nd -> check_pnode ls (base + n) nd = true.
Proof.
  induction g as [|nd0 g IH]; intros base n nd Hc Hn; [destruct n; discriminate|].
  cbn in Hc. apply andb_true_iff in Hc as [H0 Hrest].
  destruct n as [|n]; cbn in Hn.
  - injection Hn as <-. rewrite Nat.add_0_r. exact H0.
  - rewrite <- plus_n_Sm. apply (IH (S base) n nd Hrest Hn).
Qed.

Definition hold_of (t : thr) : option hold :=
  match t_r t, t_w t with
  | 0, false => Some H0
  | 1, false => Some HR
  | 0, true => Some HW
  | _, _ => None
  end.

Section WF.
  Variables (g : prog) (entries : list nat) (ls : hassign).
  Hypothesis Hwf : wf_assignment g entries ls = true.

  Lemma wf_parts :
    length ls = length g /\
    (forall e, In e entries -> nth e ls None = Some H0) /\
    check_pnodes ls 0 g = true.
  Proof.
    unfold wf_assignment in Hwf. apply andb_true_iff in Hwf as [H12 H3]. apply andb_true_iff in H12 as [H1 H2].
    split; [apply Nat.eqb_eq; exact H1|]. split; [|exact H3].
    intros e He. rewrite forallb_forall in H2. apply ohold_eqb_eq. exact (H2 e He).
  Qed.

  (* what the checked assignment says about a reached node *)
  Lemma wf_node pc h :
    nth pc ls None = Some h ->
    exists nd h', nth_error g pc = Some nd /\ transfer1 (p_op nd) h = Some h' /\
                  (p_succ nd = [] -> h' = H0) /\
                  (forall s, In s (p_succ nd) -> nth s ls None = Some h').
  Proof.
    intro Hh. destruct wf_parts as (Hlen & _ & Hchk).
    assert (Hlt : pc < length g).
    { rewrite <- Hlen. destruct (Nat.lt_ge_cases pc (length ls)) as [|Hge]; [assumption|].
      rewrite nth_overflow in Hh by exact Hge. discriminate. }
    destruct (nth_error g pc) as [nd|] eqn:End; [|apply nth_error_None in End; lia].
    pose proof (check_pnodes_nth ls g 0 pc nd Hchk End) as Hc. cbn [plus] in Hc.
    unfold check_pnode in Hc. rewrite Hh in Hc.
    destruct (transfer1 (p_op nd) h) as [h'|] eqn:Et; [|discriminate].
    exists nd, h'. split; [reflexivity|]. split; [exact Et|].
    destruct (p_succ nd) as [|s0 l] eqn:Es.
    - split; [intros _; apply hold_eqb_eq; exact Hc | intros s []].
    - split; [discriminate|]. intros s Hs. rewrite forallb_forall in Hc. apply ohold_eqb_eq. exact (Hc s Hs).
  Qed.

  Definition thr_ok (t : thr) : Prop :=
    match t_pc t with
    | PAt pc => exists h, nth pc ls None = Some h /\ hold_of t = Some h
    | PAnn pc => hold_of t = Some H0 /\ nth pc ls None = Some H0 /\
                 exists nd, nth_error g pc = Some nd /\ p_op nd = OLock
    | PDone => hold_of t = Some H0
    end.

  Definition writer_ok (ts : list thr) (w : wstate) : Prop :=
    match w with
    | WNone => forall i t, nth_error ts i = Some t -> t_w t = false /\ (forall pc, t_pc t <> PAnn pc)
    | WPending k =>
        (exists t pc, nth_error ts k = Some t /\ t_pc t = PAnn pc) /\
        (forall i t, nth_error ts i = Some t -> t_w t = false /\ (i <> k -> forall pc, t_pc t <> PAnn pc))
    | WHeld k =>
        (exists t, nth_error ts k = Some t /\ t_w t = true) /\
        (forall i t, nth_error ts i = Some t -> (i <> k -> t_w t = false) /\ (forall pc, t_pc t <> PAnn pc))
    end.

  Definition Inv (s : sys) : Prop :=
    (forall i t, nth_error (s_threads s) i = Some t -> thr_ok t) /\
    l_readers (s_lock s) = list_sum (map t_r (s_threads s)) /\
    writer_ok (s_threads s) (l_writer (s_lock s)).

  Lemma thr_ok_moved nd h' pc' c r w :
    next_pc nd c = Some pc' ->
    (p_succ nd = [] -> h' = H0) -> (forall s, In s (p_succ nd) -> nth s ls None = Some h') ->
    hold_of {| t_pc := pc'; t_r := r; t_w := w |} = Some h' ->
    thr_ok {| t_pc := pc'; t_r := r; t_w := w |}.
  Proof.
    intros Hn Hend Hsucc Hh. unfold thr_ok. cbn [t_pc].
    destruct (next_pc_cases _ _ _ Hn) as [[-> He]|(s & -> & Hs)].
    - rewrite <- (Hend He). exact Hh.
    - exists h'. split; [apply Hsucc; exact Hs | exact Hh].
  Qed.

  Lemma inv_init es : (forall e, In e es -> In e entries) -> Inv (init_sys es).
  Proof.
    intro Hes. destruct wf_parts as (_ & Hent & _).
    unfold Inv, init_sys; cbn [s_threads s_lock free_lock l_readers l_writer]. split; [|split].
    - intros i t Hi. apply nth_error_In in Hi. apply in_map_iff in Hi as (e & <- & He).
      unfold thr_ok; cbn. exists H0. split; [apply Hent, Hes, He | reflexivity].
    - induction es as [|e es IH]; cbn; [reflexivity|]. apply IH. intros; apply Hes; right; assumption.
    - cbn. intros i t Hi. apply nth_error_In in Hi. apply in_map_iff in Hi as (e & <- & He).
      cbn. split; [reflexivity | intros pc; discriminate].
  Qed.

  Ltac hold_cases t Hh :=
    unfold hold_of in Hh; cbn [t_r t_w] in Hh;
    destruct (t_r t) as [|[|?]] eqn:?; destruct (t_w t) eqn:?; try discriminate.

  Lemma inv_step s a s' : Inv s -> cstep g s a = Some s' -> Inv s'.
  Proof.
    intros (Hthr & Hrd & Hw) Hstep. destruct a as [i c].
    destruct (cstep_inv _ _ _ _ _ Hstep) as (t & t' & L' & Ht & Hspec & ->).
    pose proof (Hthr i t Ht) as Hok.
    unfold Inv, set_thread; cbn [s_threads s_lock].
    (* the thread-local part and the new hold *)
    assert (Hloc : thr_ok t' /\
                   list_sum (map t_r (update (s_threads s) i t')) = l_readers L' /\
                   writer_ok (update (s_threads s) i t') (l_writer L')).
    { pose proof (sum_update t_r (s_threads s) i t t' Ht) as Hsum.
      destruct Hspec as [pc nd pc' c0 Epc End Eop En
                        |pc nd pc' c0 Epc End Eop En Ew
                        |pc nd pc' c0 r Epc End Eop En Er
                        |pc nd Epc End Eop Ew
                        |pc nd pc' c0 Epc End Eop En Ew Etw
                        |pc nd pc' c0 Epc End En Er Ew].
      - (* skip *)
        unfold thr_ok in Hok; rewrite Epc in Hok. destruct Hok as (h & Hh & Hho).
        destruct (wf_node pc h Hh) as (nd' & h' & End' & Htr & Hend & Hsucc).
        rewrite End in End'; injection End' as <-.
        assert (h' = h) as -> by (destruct Eop as [Eop|Eop]; rewrite Eop in Htr; destruct h; cbn in Htr; congruence).
        split; [|split].
        + eapply thr_ok_moved; eauto.
        + cbn [t_r] in Hsum. lia.
        + destruct (l_writer (s_lock s)) as [|k|k] eqn:Ewr; cbn [writer_ok] in *.
          * intros j tj Hj. rewrite (nth_update_cases _ _ _ _ _ Ht) in Hj.
            destruct (Nat.eqb_spec j i) as [->|]; [|eauto].
            injection Hj as <-. cbn. destruct (Hw i t Ht) as [Hw1 Hw2]. split; [exact Hw1|].
            intros pc0 E. destruct (next_pc_cases _ _ _ En) as [[-> _]|(s0 & -> & _)]; discriminate.
          * destruct Hw as [(tk & pck & Hk & Hpk) Hall]. split.
            -- destruct (Nat.eq_dec k i) as [->|Hne].
               ++ rewrite Ht in Hk; injection Hk as <-. congruence.
               ++ exists tk, pck. split; [|exact Hpk]. rewrite nth_update_other by congruence. exact Hk.
            -- intros j tj Hj. rewrite (nth_update_cases _ _ _ _ _ Ht) in Hj.
               destruct (Nat.eqb_spec j i) as [->|]; [|eauto].
               injection Hj as <-. cbn. destruct (Hall i t Ht) as [Hw1 Hw2]. split; [exact Hw1|].
               intros _ pc0 E. destruct (next_pc_cases _ _ _ En) as [[-> _]|(s0 & -> & _)]; discriminate.
          * destruct Hw as [(tk & Hk & Hwk) Hall]. split.
            -- destruct (Nat.eq_dec k i) as [->|Hne].
               ++ rewrite Ht in Hk; injection Hk as <-. eexists. split; [eapply nth_update_same; eauto|]. exact Hwk.
               ++ exists tk. split; [|exact Hwk]. rewrite nth_update_other by congruence. exact Hk.
            -- intros j tj Hj. rewrite (nth_update_cases _ _ _ _ _ Ht) in Hj.
               destruct (Nat.eqb_spec j i) as [->|]; [|eauto].
               injection Hj as <-. cbn. destruct (Hall i t Ht) as [Hw1 Hw2]. split; [exact Hw1|].
               intros pc0 E. destruct (next_pc_cases _ _ _ En) as [[-> _]|(s0 & -> & _)]; discriminate.
      - (* rlock *)
        unfold thr_ok in Hok; rewrite Epc in Hok. destruct Hok as (h & Hh & Hho).
        destruct (wf_node pc h Hh) as (nd' & h' & End' & Htr & Hend & Hsucc).
        rewrite End in End'; injection End' as <-. rewrite Eop in Htr.
        destruct h; cbn in Htr; try discriminate. injection Htr as <-.
        hold_cases t Hho.
        split; [|split].
        + eapply thr_ok_moved; eauto; unfold hold_of; cbn; reflexivity.
        + cbn [t_r l_readers] in *. lia.
        + cbn [l_writer writer_ok]. rewrite Ew in Hw. cbn [writer_ok] in Hw.
          intros j tj Hj. rewrite (nth_update_cases _ _ _ _ _ Ht) in Hj.
          destruct (Nat.eqb_spec j i) as [->|]; [|eauto].
          injection Hj as <-. cbn. split; [first [assumption|reflexivity|congruence]|].
          intros pc0 E. destruct (next_pc_cases _ _ _ En) as [[-> _]|(s0 & -> & _)]; discriminate.
      - (* runlock *)
        unfold thr_ok in Hok; rewrite Epc in Hok. destruct Hok as (h & Hh & Hho).
        destruct (wf_node pc h Hh) as (nd' & h' & End' & Htr & Hend & Hsucc).
        rewrite End in End'; injection End' as <-. rewrite Eop in Htr.
        destruct h; cbn in Htr; try discriminate. injection Htr as <-.
        hold_cases t Hho. assert (r = 0) by congruence. subst r.
        split; [|split].
        + eapply thr_ok_moved; eauto; unfold hold_of; cbn; reflexivity.
        + cbn [t_r l_readers] in *. lia.
        + cbn [l_writer]. destruct (l_writer (s_lock s)) as [|k|k] eqn:Ewr; cbn [writer_ok] in *.
          * intros j tj Hj. rewrite (nth_update_cases _ _ _ _ _ Ht) in Hj.
            destruct (Nat.eqb_spec j i) as [->|]; [|eauto].
            injection Hj as <-. cbn. split; [first [assumption|reflexivity|congruence]|].
            intros pc0 E. destruct (next_pc_cases _ _ _ En) as [[-> _]|(s0 & -> & _)]; discriminate.
          * destruct Hw as [(tk & pck & Hk & Hpk) Hall]. split.
            -- destruct (Nat.eq_dec k i) as [->|Hne].
               ++ rewrite Ht in Hk; injection Hk as <-. congruence.
               ++ exists tk, pck. split; [|exact Hpk]. rewrite nth_update_other by congruence. exact Hk.
            -- intros j tj Hj. rewrite (nth_update_cases _ _ _ _ _ Ht) in Hj.
               destruct (Nat.eqb_spec j i) as [->|]; [|eauto].
               injection Hj as <-. cbn. split; [first [assumption|reflexivity|congruence]|].
               intros _ pc0 E. destruct (next_pc_cases _ _ _ En) as [[-> _]|(s0 & -> & _)]; discriminate.
          * destruct Hw as [(tk & Hk & Hwk) Hall]. split.
            -- destruct (Nat.eq_dec k i) as [->|Hne].
               ++ rewrite Ht in Hk; injection Hk as <-. congruence.
               ++ exists tk. split; [|exact Hwk]. rewrite nth_update_other by congruence. exact Hk.
            -- intros j tj Hj. rewrite (nth_update_cases _ _ _ _ _ Ht) in Hj.
               destruct (Nat.eqb_spec j i) as [->|]; [|eauto].
               injection Hj as <-. cbn. split; [intros _; first [assumption|reflexivity|congruence]|].
               intros pc0 E. destruct (next_pc_cases _ _ _ En) as [[-> _]|(s0 & -> & _)]; discriminate.
      - (* announce *)
        unfold thr_ok in Hok; rewrite Epc in Hok. destruct Hok as (h & Hh & Hho).
        destruct (wf_node pc h Hh) as (nd' & h' & End' & Htr & Hend & Hsucc).
        rewrite End in End'; injection End' as <-. rewrite Eop in Htr.
        destruct h; cbn in Htr; try discriminate. injection Htr as <-.
        split; [|split].
        + unfold thr_ok; cbn [t_pc]. split; [exact Hho|]. split; [exact Hh|]. exists nd; auto.
        + cbn [t_r l_readers] in *. lia.
        + cbn [l_writer writer_ok]. rewrite Ew in Hw. cbn [writer_ok] in Hw. split.
          * do 2 eexists. split; [eapply nth_update_same; eauto|]. reflexivity.
          * intros j tj Hj. rewrite (nth_update_cases _ _ _ _ _ Ht) in Hj.
            destruct (Nat.eqb_spec j i) as [->|Hne].
            -- injection Hj as <-. cbn. split; [apply (Hw i t Ht)|]. congruence.
            -- destruct (Hw j tj Hj) as [A B]. split; [exact A|]. intros _. exact B.
      - (* unlock *)
        unfold thr_ok in Hok; rewrite Epc in Hok. destruct Hok as (h & Hh & Hho).
        destruct (wf_node pc h Hh) as (nd' & h' & End' & Htr & Hend & Hsucc).
        rewrite End in End'; injection End' as <-. rewrite Eop in Htr.
        destruct h; cbn in Htr; try discriminate. injection Htr as <-.
        hold_cases t Hho.
        split; [|split].
        + eapply thr_ok_moved; eauto; unfold hold_of; cbn; reflexivity.
        + cbn [t_r l_readers] in *. lia.
        + cbn [l_writer writer_ok]. rewrite Ew in Hw. cbn [writer_ok] in Hw. destruct Hw as [_ Hall].
          intros j tj Hj. rewrite (nth_update_cases _ _ _ _ _ Ht) in Hj.
          destruct (Nat.eqb_spec j i) as [->|Hne].
          * injection Hj as <-. cbn. split; [reflexivity|].
            intros pc0 E. destruct (next_pc_cases _ _ _ En) as [[-> _]|(s0 & -> & _)]; discriminate.
          * destruct (Hall j tj Hj) as [A B]. split; [apply A; exact Hne | exact B].
      - (* acquire *)
        unfold thr_ok in Hok; rewrite Epc in Hok. destruct Hok as (Hho & Hh & nd' & End' & Eop).
        destruct (wf_node pc H0 Hh) as (nd'' & h' & End'' & Htr & Hend & Hsucc).
        rewrite End in End', End''. injection End' as <-. injection End'' as <-.
        rewrite Eop in Htr. cbn in Htr. injection Htr as <-.
        hold_cases t Hho.
        split; [|split].
        + eapply thr_ok_moved; eauto; unfold hold_of; cbn; reflexivity.
        + cbn [t_r l_readers] in *. lia.
        + cbn [l_writer writer_ok]. rewrite Ew in Hw. cbn [writer_ok] in Hw. destruct Hw as [_ Hall]. split.
          * eexists. split; [eapply nth_update_same; eauto|]. reflexivity.
          * intros j tj Hj. rewrite (nth_update_cases _ _ _ _ _ Ht) in Hj.
            destruct (Nat.eqb_spec j i) as [->|Hne].
            -- injection Hj as <-. cbn. split; [congruence|].
               intros pc0 E. destruct (next_pc_cases _ _ _ En) as [[-> _]|(s0 & -> & _)]; discriminate.
            -- destruct (Hall j tj Hj) as [A B]. split; [intros _; exact A | apply B; exact Hne]. }
    destruct Hloc as (Hok' & Hsum' & Hw'). split; [|split].
    - intros j tj Hj. rewrite (nth_update_cases _ _ _ _ _ Ht) in Hj.
      destruct (Nat.eqb_spec j i) as [->|]; [injection Hj as <-; exact Hok' | eauto].
    - symmetry. exact Hsum'.
    - exact Hw'.
  Qed.

  Lemma inv_run es sch :
    (forall e, In e es -> In e entries) -> Inv (run (cstep g) sch (init_sys es)).
  Proof.
    intro Hes. apply (invariant_run (cstep g) Inv).
    - intros s a s' HI Hs. eapply inv_step; eauto.
    - apply inv_init; exact Hes.
  Qed.

  (* --- consequences ------------------------------------------------------------------------- *)

  Lemma sum_pos_ex (ts : list thr) :
    list_sum (map t_r ts) <> 0 -> exists i t, nth_error ts i = Some t /\ t_r t <> 0.
  Proof.
    induction ts as [|a ts IH]; cbn [map]; rewrite ?list_sum_cons_eq; intro H; [cbn in H; lia|].
    destruct (Nat.eq_dec (t_r a) 0) as [Ea|Ea].
    - destruct IH as (i & t & Hi & Hr); [lia|]. exists (S i), t. auto.
    - exists 0, a. auto.
  Qed.

  Lemma done_holds_nothing s t :
    Inv s -> In t (s_threads s) -> t_pc t = PDone -> t_r t = 0 /\ t_w t = false.
  Proof.
    intros (Hthr & _ & _) Hin Hd. apply In_nth_error in Hin as [i Hi].
    specialize (Hthr i t Hi). unfold thr_ok in Hthr. rewrite Hd in Hthr.
    unfold hold_of in Hthr. destruct (t_r t) as [|[|?]]; destruct (t_w t); try discriminate; auto.
  Qed.

  Lemma quiescent_free s :
    Inv s -> all_finished s = true -> s_lock s = free_lock.
  Proof.
    intros HI Hall. pose proof HI as (Hthr & Hrd & Hw).
    unfold all_finished in Hall. rewrite forallb_forall in Hall.
    assert (Hd : forall t, In t (s_threads s) -> t_pc t = PDone).
    { intros t Ht. specialize (Hall t Ht). unfold finished in Hall. destruct (t_pc t); congruence. }
    assert (Hr0 : l_readers (s_lock s) = 0).
    { rewrite Hrd. clear Hrd Hw Hthr Hall.
      assert (forall t, In t (s_threads s) -> t_r t = 0) as Hz
          by (intros t Ht; apply (done_holds_nothing s t HI Ht (Hd t Ht))).
      induction (s_threads s) as [|a ts IH]; cbn; [reflexivity|].
      rewrite (Hz a (or_introl eq_refl)). apply IH; intros; [apply Hd|apply Hz]; right; assumption. }
    assert (Hw0 : l_writer (s_lock s) = WNone).
    { destruct (l_writer (s_lock s)) as [|k|k] eqn:E; [reflexivity| |]; cbn [writer_ok] in Hw; exfalso.
      - destruct Hw as [(tk & pck & Hk & Hpk) _]. apply nth_error_In in Hk. rewrite (Hd tk Hk) in Hpk. discriminate.
      - destruct Hw as [(tk & Hk & Hwk) _]. apply nth_error_In in Hk.
        destruct (done_holds_nothing s tk HI Hk (Hd tk Hk)). congruence. }
    clear Hrd Hw. destruct (s_lock s) as [r w]; cbn [l_readers l_writer] in *. subst. reflexivity.
  Qed.

  (* a thread at a reached node that is not waiting for the lock can move *)
  Lemma succ_choice nd : exists pc', next_pc nd 0 = Some pc'.
  Proof. unfold next_pc. destruct (p_succ nd); cbn; eauto. Qed.

  Lemma no_deadlock s :
    Inv s -> all_finished s = false -> exists a s', cstep g s a = Some s'.
  Proof.
    intros HI Hnf. pose proof HI as (Hthr & Hrd & Hw).
    destruct (l_writer (s_lock s)) as [|k|k] eqn:Ew; cbn [writer_ok] in Hw.
    - (* no writer: any unfinished thread can move *)
      unfold all_finished in Hnf.
      assert (exists t, In t (s_threads s) /\ finished t = false) as (t & Hin & Hf).
      { clear -Hnf. induction (s_threads s) as [|a ts IH]; cbn in Hnf; [discriminate|].
        destruct (finished a) eqn:Ea; [destruct (IH Hnf) as (t & ? & ?); exists t; auto with datatypes | exists a; auto with datatypes]. }
      apply In_nth_error in Hin as [i Hi].
      pose proof (Hthr i t Hi) as Hok. destruct (Hw i t Hi) as [Htw Hna].
      unfold finished in Hf. destruct (t_pc t) as [pc|pc|] eqn:Epc; [|exfalso; eapply Hna; eauto|discriminate].
      unfold thr_ok in Hok; rewrite Epc in Hok. destruct Hok as (h & Hh & Hho).
      destruct (wf_node pc h Hh) as (nd & h' & End & Htr & _ & _).
      destruct (succ_choice nd) as [pc' Hn].
      exists (i, 0). unfold cstep. rewrite Hi, Epc, End, Ew.
      destruct (p_op nd) eqn:Eop; rewrite ?Hn; eauto.
      all: destruct h; cbn in Htr; try discriminate; hold_cases t Hho; try congruence; eauto.
    - (* a writer has announced: it can acquire, or some reader still inside can move *)
      destruct Hw as [(tk & pck & Hk & Hpk) Hall].
      destruct (l_readers (s_lock s)) as [|r] eqn:Er.
      + pose proof (Hthr k tk Hk) as Hok. unfold thr_ok in Hok; rewrite Hpk in Hok.
        destruct Hok as (_ & _ & nd & End & _). destruct (succ_choice nd) as [pc' Hn].
        exists (k, 0). unfold cstep. rewrite Hk, Hpk, End, Er, Ew, Hn, Nat.eqb_refl. eauto.
      + destruct (sum_pos_ex (s_threads s)) as (i & t & Hi & Hr); [rewrite <- Hrd; lia|].
        pose proof (Hthr i t Hi) as Hok. destruct (Hall i t Hi) as [Htw Hna].
        assert (Hik : i <> k).
        { intros ->. rewrite Hk in Hi; injection Hi as <-. pose proof (Hthr k tk Hk) as Hokk.
          unfold thr_ok in Hokk; rewrite Hpk in Hokk. destruct Hokk as (Hho & _).
          unfold hold_of in Hho. destruct (t_r tk) as [|[|?]]; destruct (t_w tk); try discriminate; lia. }
        destruct (t_pc t) as [pc|pc|] eqn:Epc.
        * unfold thr_ok in Hok; rewrite Epc in Hok. destruct Hok as (h & Hh & Hho).
          destruct (wf_node pc h Hh) as (nd & h' & End & Htr & _ & _).
          destruct (succ_choice nd) as [pc' Hn].
          assert (h = HR) as ->.
          { unfold hold_of in Hho. destruct (t_r t) as [|[|?]]; destruct (t_w t); try discriminate; try lia; congruence. }
          exists (i, 0). unfold cstep. rewrite Hi, Epc, End.
          destruct (p_op nd) eqn:Eop; cbn in Htr; try discriminate; rewrite ?Hn; eauto.
          destruct (t_r t); [lia|]. eauto.
        * exfalso. eapply (Hna Hik); eauto.
        * exfalso. assert (In t (s_threads s)) as Hin by (eapply nth_error_In; eauto).
          destruct (done_holds_nothing s t HI Hin Epc). lia.
    - (* a writer holds: it can move *)
      destruct Hw as [(tk & Hk & Hwk) Hall].
      pose proof (Hthr k tk Hk) as Hok. destruct (Hall k tk Hk) as [_ Hna].
      destruct (t_pc tk) as [pc|pc|] eqn:Epc.
      + unfold thr_ok in Hok; rewrite Epc in Hok. destruct Hok as (h & Hh & Hho).
        destruct (wf_node pc h Hh) as (nd & h' & End & Htr & _ & _).
        destruct (succ_choice nd) as [pc' Hn].
        assert (h = HW) as ->.
        { unfold hold_of in Hho. rewrite Hwk in Hho. destruct (t_r tk) as [|[|?]]; congruence. }
        exists (k, 0). unfold cstep. rewrite Hk, Epc, End.
        destruct (p_op nd) eqn:Eop; cbn in Htr; try discriminate; rewrite ?Hn; eauto.
        rewrite ?Ew, ?Hwk, ?Hn, ?Nat.eqb_refl. eauto.
      + exfalso; eapply Hna; eauto.
      + exfalso. assert (In tk (s_threads s)) as Hin by (eapply nth_error_In; eauto).
        destruct (done_holds_nothing s tk HI Hin Epc). congruence.
  Qed.

  (* The lock is never wedged: whenever it is not free, a thread that holds it (or the announced
     writer once the readers have drained) can take its next step, and that step does not wait for
     anything foreign (no acquisition of another mutex inside the critical section). *)
  Definition foreign_wait (t : thr) : bool :=
    match t_pc t with
    | PAt pc => match nth_error g pc with
                | Some nd => match p_op nd with OBlock => true | _ => false end
                | None => false
                end
    | _ => false
    end.

  Definition involved (t : thr) : bool :=
    (0 <? t_r t) || t_w t || match t_pc t with PAnn _ => true | _ => false end.

  Lemma reader_moves s i t :
    Inv s -> nth_error (s_threads s) i = Some t -> t_r t <> 0 ->
    (forall pc, t_pc t <> PAnn pc) ->
    foreign_wait t = false /\ exists s', cstep g s (i, 0) = Some s'.
  Proof.
    intros HI Hi Hr Hna. pose proof HI as (Hthr & Hrd & Hw).
    pose proof (Hthr i t Hi) as Hok.
    destruct (t_pc t) as [pc|pc|] eqn:Epc.
    - unfold thr_ok in Hok; rewrite Epc in Hok. destruct Hok as (h & Hh & Hho).
      destruct (wf_node pc h Hh) as (nd & h' & End & Htr & _ & _).
      destruct (succ_choice nd) as [pc' Hn].
      assert (h = HR) as ->.
      { unfold hold_of in Hho. destruct (t_r t) as [|[|?]]; destruct (t_w t); try discriminate; try lia; congruence. }
      unfold foreign_wait, cstep. rewrite Hi, Epc, End.
      destruct (p_op nd) eqn:Eop; cbn in Htr; try discriminate; rewrite ?Hn; split; eauto.
      destruct (t_r t); [lia|]. eauto.
    - exfalso. eapply Hna; eauto.
    - exfalso. assert (In t (s_threads s)) as Hin by (eapply nth_error_In; eauto).
      destruct (done_holds_nothing s t HI Hin Epc). lia.
  Qed.

  Lemma never_wedged s :
    Inv s -> s_lock s <> free_lock ->
    exists i t s', nth_error (s_threads s) i = Some t /\ involved t = true /\
                   foreign_wait t = false /\ cstep g s (i, 0) = Some s'.
  Proof.
    intros HI Hnf. pose proof HI as (Hthr & Hrd & Hw).
    destruct (l_writer (s_lock s)) as [|k|k] eqn:Ew; cbn [writer_ok] in Hw.
    - (* readers only *)
      destruct (Nat.eq_dec (l_readers (s_lock s)) 0) as [Er|Er].
      { exfalso. apply Hnf. clear Hrd Hnf. destruct (s_lock s) as [r w]; cbn [l_readers l_writer] in *. subst. reflexivity. }
      destruct (sum_pos_ex (s_threads s)) as (i & t & Hi & Hr); [rewrite <- Hrd; exact Er|].
      destruct (reader_moves s i t HI Hi Hr (proj2 (Hw i t Hi))) as (Hf & s' & Hs).
      exists i, t, s'. repeat split; auto. unfold involved. destruct (t_r t); [lia|reflexivity].
    - destruct Hw as [(tk & pck & Hk & Hpk) Hall].
      destruct (l_readers (s_lock s)) as [|r] eqn:Er.
      + pose proof (Hthr k tk Hk) as Hok. unfold thr_ok in Hok; rewrite Hpk in Hok.
        destruct Hok as (_ & _ & nd & End & _). destruct (succ_choice nd) as [pc' Hn].
        exists k, tk. eexists. split; [exact Hk|]. split; [unfold involved; rewrite Hpk; apply orb_true_r|].
        split; [unfold foreign_wait; rewrite Hpk; reflexivity|].
        unfold cstep. rewrite Hk, Hpk, End, Er, Ew, Hn, Nat.eqb_refl. reflexivity.
      + destruct (sum_pos_ex (s_threads s)) as (i & t & Hi & Hr); [rewrite <- Hrd; lia|].
        assert (Hik : i <> k).
        { intros ->. rewrite Hk in Hi; injection Hi as <-. pose proof (Hthr k tk Hk) as Hokk.
          unfold thr_ok in Hokk; rewrite Hpk in Hokk. destruct Hokk as (Hho & _).
          unfold hold_of in Hho. destruct (t_r tk) as [|[|?]]; destruct (t_w tk); try discriminate; lia. }
        destruct (reader_moves s i t HI Hi Hr (proj2 (Hall i t Hi) Hik)) as (Hf & s' & Hs).
        exists i, t, s'. repeat split; auto. unfold involved. destruct (t_r t); [lia|reflexivity].
    - destruct Hw as [(tk & Hk & Hwk) Hall].
      pose proof (Hthr k tk Hk) as Hok. destruct (Hall k tk Hk) as [_ Hna].
      destruct (t_pc tk) as [pc|pc|] eqn:Epc.
      + unfold thr_ok in Hok; rewrite Epc in Hok. destruct Hok as (h & Hh & Hho).
        destruct (wf_node pc h Hh) as (nd & h' & End & Htr & _ & _).
        destruct (succ_choice nd) as [pc' Hn].
        assert (h = HW) as ->.
        { unfold hold_of in Hho. rewrite Hwk in Hho. destruct (t_r tk) as [|[|?]]; congruence. }
        exists k, tk.
        assert (Hinv : involved tk = true) by (unfold involved; rewrite Hwk; apply orb_true_iff; left; apply orb_true_r).
        unfold foreign_wait, cstep. rewrite Hk, Epc, End.
        destruct (p_op nd) eqn:Eop; cbn in Htr; try discriminate; rewrite ?Hn, ?Ew, ?Hwk, ?Hn, ?Nat.eqb_refl;
          eexists; (split; [reflexivity|]); (split; [exact Hinv|]); split; reflexivity.
      + exfalso; eapply Hna; eauto.
      + exfalso. assert (In tk (s_threads s)) as Hin by (eapply nth_error_In; eauto).
        destruct (done_holds_nothing s tk HI Hin Epc). congruence.
  Qed.

  (* counters = threads' program counters *)
  Lemma static_hold_of t : thr_ok t -> static_hold ls t = hold_of t.
  Proof.
    unfold thr_ok, static_hold. destruct (t_pc t).
    - intros (h & -> & ->). reflexivity.
    - intros (-> & _). reflexivity.
    - intros ->. reflexivity.
  Qed.

  Lemma readers_count (ts : list thr) :
    (forall t, In t ts -> thr_ok t) -> list_sum (map t_r ts) = count_static ls HR ts.
  Proof.
    unfold count_static. induction ts as [|a ts IH]; intro H; [reflexivity|].
    cbn [map filter]. rewrite list_sum_cons_eq, IH by (intros; apply H; right; assumption).
    pose proof (H a (or_introl eq_refl)) as Ha. rewrite (static_hold_of a Ha).
    assert (exists h, hold_of a = Some h) as [h Hh].
    { unfold thr_ok in Ha. destruct (t_pc a); [destruct Ha as (h & _ & ?)|destruct Ha as (? & _)|]; eauto. }
    rewrite Hh. unfold hold_of in Hh.
    destruct (t_r a) as [|[|?]]; destruct (t_w a); try discriminate; injection Hh as <-; reflexivity.
  Qed.

  Lemma inv_counters s :
    Inv s ->
    l_readers (s_lock s) = count_static ls HR (s_threads s) /\
    count_static ls HW (s_threads s) = (match l_writer (s_lock s) with WHeld _ => 1 | _ => 0 end).
  Proof.
    intros (Hthr & Hrd & Hw). split.
    - rewrite Hrd. apply readers_count. intros t Ht. apply In_nth_error in Ht as [i Hi]. eauto.
    - assert (Hcnt : forall ts, (forall t, In t ts -> thr_ok t) ->
                count_static ls HW ts = length (filter (fun t => t_w t) ts)).
      { unfold count_static. induction ts as [|a ts IH]; intro H; [reflexivity|].
        cbn [filter]. pose proof (H a (or_introl eq_refl)) as Ha. rewrite (static_hold_of a Ha).
        assert (exists h, hold_of a = Some h) as [h Hh].
        { unfold thr_ok in Ha. destruct (t_pc a); [destruct Ha as (h & _ & ?)|destruct Ha as (? & _)|]; eauto. }
        rewrite Hh. unfold hold_of in Hh.
        destruct (t_r a) as [|[|?]]; destruct (t_w a); try discriminate; injection Hh as <-; cbn;
          rewrite IH by (intros; apply H; right; assumption); reflexivity. }
      rewrite Hcnt by (intros t Ht; apply In_nth_error in Ht as [i Hi]; eauto).
      clear Hcnt Hrd Hthr.
      assert (Hnone : forall ts, (forall i t, nth_error ts i = Some t -> t_w t = false) ->
                length (filter (fun t => t_w t) ts) = 0).
      { induction ts as [|a ts IH]; intro H; [reflexivity|]. cbn.
        rewrite (H 0 a eq_refl). apply IH. intros i t Hi. apply (H (S i) t Hi). }
      destruct (l_writer (s_lock s)) as [|k|k]; cbn [writer_ok] in Hw.
      + apply Hnone. intros i t Hi. apply (Hw i t Hi).
      + apply Hnone. intros i t Hi. apply (proj2 Hw i t Hi).
      + destruct Hw as [(tk & Hk & Hwk) Hall].
        assert (Hone : forall ts k, (exists tk, nth_error ts k = Some tk /\ t_w tk = true) ->
                  (forall i t, nth_error ts i = Some t -> i <> k -> t_w t = false) ->
                  length (filter (fun t => t_w t) ts) = 1).
        { induction ts as [|a ts IH]; intros k0 (t0 & Hk0 & Hw0) Hoth; [destruct k0; discriminate|].
          destruct k0 as [|k0]; cbn in Hk0.
          - injection Hk0 as ->. cbn. rewrite Hw0. cbn. f_equal. apply Hnone.
            intros i t Hi. apply (Hoth (S i) t Hi). discriminate.
          - cbn. rewrite (Hoth 0 a eq_refl) by discriminate. apply (IH k0).
            + eauto.
            + intros i t Hi Hne. apply (Hoth (S i) t Hi). congruence. }
        apply (Hone _ k); [eauto|]. intros i t Hi Hne. apply (proj1 (Hall i t Hi) Hne).
  Qed.
End WF.

(* mutual exclusion needs no well-formedness: it is a property of the lock alone *)
Definition excl_ok (s : sys) : Prop :=
  match l_writer (s_lock s) with WHeld _ => l_readers (s_lock s) = 0 | _ => True end.

Lemma excl_step g s a s' : excl_ok s -> cstep g s a = Some s' -> excl_ok s'.
Proof.
  intros He Hs. destruct a as [i c].
  destruct (cstep_inv _ _ _ _ _ Hs) as (t & t' & L' & Ht & Hspec & ->).
  unfold excl_ok, set_thread in *; cbn [s_lock].
  destruct Hspec as [pc nd pc' c0 Epc End Eop En
                    |pc nd pc' c0 Epc End Eop En Ew
                    |pc nd pc' c0 r Epc End Eop En Er
                    |pc nd Epc End Eop Ew
                    |pc nd pc' c0 Epc End Eop En Ew Etw
                    |pc nd pc' c0 Epc End En Er Ew]; cbn [l_writer l_readers]; auto.
  destruct (l_writer (s_lock s)); auto. rewrite He. reflexivity.
Qed.

Lemma excl_run g es sch : excl_ok (run (cstep g) sch (init_sys es)).
Proof.
  apply (invariant_run (cstep g) excl_ok).
  - intros; eapply excl_step; eauto.
  - exact I.
Qed.

(* ============================================================================================ *)
(* Termination for programs without cycles                                                       *)

Section Rank.
  Variables (g : prog) (rank : list nat).
  Hypothesis Hrank : rank_ok rank g = true.

  Lemma rank_edge pc nd s : nth_error g pc = Some nd -> In s (p_succ nd) -> nth s rank 0 < nth pc rank 0.
  Proof.
    intros Hn Hs. unfold rank_ok in Hrank. apply andb_true_iff in Hrank as [_ H].
    rewrite forallb_forall in H.
    assert (Hin : In (pc, nd) (combine (seq 0 (length g)) g)).
    { clear -Hn. assert (forall base, In (base + pc, nd) (combine (seq base (length g)) g)) as Hgen.
      { revert pc Hn. induction g as [|a l IH]; intros [|pc] Hn base; cbn in *; try discriminate.
        - injection Hn as ->. left. f_equal. lia.
        - right. rewrite <- plus_n_Sm. apply (IH pc Hn (S base)). }
      apply (Hgen 0). }
    specialize (H _ Hin). cbn in H. rewrite forallb_forall in H. apply Nat.ltb_lt. exact (H s Hs).
  Qed.

  Lemma weight_step s a s' : cstep g s a = Some s' -> weight rank s' < weight rank s.
  Proof.
    intro Hs. destruct a as [i c].
    destruct (cstep_inv _ _ _ _ _ Hs) as (t & t' & L' & Ht & Hspec & ->).
    unfold weight, set_thread; cbn [s_threads].
    pose proof (sum_update (tweight rank) (s_threads s) i t t' Ht) as Hsum.
    assert (tweight rank t' < tweight rank t); [|lia].
    assert (Hmove : forall pc nd pc' c r w, t_pc t = PAt pc \/ t_pc t = PAnn pc -> nth_error g pc = Some nd ->
                     next_pc nd c = Some pc' -> tweight rank {| t_pc := pc'; t_r := r; t_w := w |} < tweight rank t).
    { intros pc nd pc' c0 r w Hpc Hn Hnx. unfold tweight; cbn [t_pc].
      destruct (next_pc_cases _ _ _ Hnx) as [[-> _]|(s0 & -> & Hin)].
      - destruct Hpc as [-> | ->]; lia.
      - pose proof (rank_edge pc nd s0 Hn Hin). destruct Hpc as [-> | ->]; lia. }
    destruct Hspec; try (eapply Hmove; eauto; fail).
    unfold tweight; cbn [t_pc]. rewrite H. lia.
  Qed.
End Rank.

(* ============================================================================================ *)
(* Every request returns (programs without cycles)                                               *)

Section Returns.
  Variables (g : prog) (entries : list nat) (ls : hassign) (rank : list nat).
  Hypothesis Hwf : wf_assignment g entries ls = true.
  Hypothesis Hrank : rank_ok rank g = true.

  (* however long the schedule, at most [weight] steps are ever taken *)
  Lemma bounded_work sch s : taken (cstep g) sch s + weight rank (run (cstep g) sch s) <= weight rank s.
  Proof.
    apply (measure_bound (cstep g) (fun _ => True) (fun _ => true) (weight rank)); auto.
    - intros s0 a s' _ _ Hs. eapply weight_step; eauto.
    - clear. induction sch; cbn; auto.
  Qed.

  (* from every state of the invariant the requests in flight can all be completed *)
  Lemma can_finish : forall n s, Inv g ls s -> weight rank s <= n ->
    exists sch, all_finished (run (cstep g) sch s) = true.
  Proof.
    induction n as [|n IH]; intros s HI Hn.
    - destruct (all_finished s) eqn:E; [exists []; exact E|].
      destruct (no_deadlock g entries ls Hwf s HI E) as (a & s' & Hs).
      pose proof (weight_step g rank Hrank s a s' Hs). lia.
    - destruct (all_finished s) eqn:E; [exists []; exact E|].
      destruct (no_deadlock g entries ls Hwf s HI E) as (a & s' & Hs).
      pose proof (weight_step g rank Hrank s a s' Hs) as Hlt.
      destruct (IH s' (inv_step g entries ls Hwf s a s' HI Hs)) as [sch Hsch]; [lia|].
      exists (a :: sch). rewrite run_cons. unfold Sched.exec. rewrite Hs. exact Hsch.
  Qed.
End Returns.

(* the boolean the theorems assume *)
Lemma wf_prog_assignment g entries : wf_prog g entries = true -> wf_assignment g entries (hinfer g entries) = true.
Proof. exact (fun H => H). Qed.

Lemma wf_graph_mutex g entries mu :
  wf_graph g entries = true -> In mu (mutexes_of g) -> wf_prog (project mu g) entries = true.
Proof. unfold wf_graph. rewrite forallb_forall. auto. Qed.

Lemma leaf_mutex_wf g entries mu :
  In mu (leaf_mutexes g entries) -> wf_prog (project_leaf mu g) entries = true.
Proof. unfold leaf_mutexes. intro H. apply filter_In in H as [_ H]. exact H. Qed.

Lemma all_finished_false_iff s : all_finished s = false <-> exists t, In t (s_threads s) /\ t_pc t <> PDone.
Proof.
  unfold all_finished. split.
  - intro H. induction (s_threads s) as [|a ts IH]; cbn in H; [discriminate|].
    destruct (finished a) eqn:Ea.
    + destruct (IH H) as (t & ? & ?). exists t; auto with datatypes.
    + exists a. split; [auto with datatypes|]. unfold finished in Ea. destruct (t_pc a); congruence.
  - intros (t & Hin & Hd). destruct (forallb finished (s_threads s)) eqn:E; [|reflexivity].
    rewrite forallb_forall in E. specialize (E t Hin). unfold finished in E. destruct (t_pc t); congruence.
Qed.
