(* C14 -- operations that complete while an attest is waiting for attester.Attest (or a subscribe
   for the duties): lemmas about [linearise] (Model/C14_Subscriptions.v). *)
From Verif Require Import Lib.Base Model.C14_Subscriptions Model.C14_Spec Proofs.C14.

Lemma linearise_app : forall hs1 hs2, linearise (hs1 ++ hs2) = linearise hs1 ++ linearise hs2.
Proof.
  intros hs1 hs2. unfold linearise. induction hs1 as [|h hs1 IH]; cbn [app flat_map].
  - reflexivity.
  - rewrite IH, app_assoc. reflexivity.
Qed.

Lemma linearise_plain : forall ops, linearise (map HOp ops) = ops.
Proof.
  induction ops as [|o ops IH]; [reflexivity|]. unfold linearise in *. cbn [map flat_map app]. rewrite IH. reflexivity.
Qed.

Lemma linearise_during : forall mid o, linearise [HDuring mid o] = mid ++ [o].
Proof. intros. unfold linearise. cbn [flat_map]. apply app_nil_r. Qed.

Lemma run_app_fst : forall pr ops1 ops2 st,
  fst (run pr st (ops1 ++ ops2)) = fst (run pr (fst (run pr st ops1)) ops2).
Proof.
  intros pr ops1 ops2. induction ops1 as [|o ops1 IH]; intro st; cbn [app].
  - reflexivity.
  - rewrite !run_cons. apply IH.
Qed.

Lemma run_snoc : forall pr ops o st,
  fst (run pr st (ops ++ [o])) = fst (step pr (fst (run pr st ops)) o).
Proof. intros. rewrite run_app_fst, run_cons. reflexivity. Qed.

(* The state in which an attest that waited for Attest schedules its jobs is the state after
   everything that completed meanwhile. *)
Lemma during_attest_state : forall pr hs mid o,
  fst (run pr init (linearise (hs ++ [HDuring mid o]))) =
  fst (step pr (fst (run pr init (linearise hs ++ mid))) o).
Proof.
  intros. rewrite linearise_app, linearise_during, app_assoc. apply run_snoc.
Qed.

(* If the information of the epoch is missing when the attest looks it up, nothing is scheduled. *)
Lemma attest_without_info : forall pr st dslot cur attest_fail no_acct atts,
  get_info (dslot / spe pr) (st_infos st) = None ->
  fst (step pr st (OAtt dslot cur attest_fail no_acct atts)) = st.
Proof.
  intros pr st dslot cur af no_acct atts H. cbn [step].
  destruct af; [reflexivity|]. destruct atts; [reflexivity|]. rewrite H. reflexivity.
Qed.

Lemma during_snapshot_state : forall hs mid o,
  linearise_snapshot (hs ++ [HDuring mid o]) = linearise_snapshot hs ++ o :: mid.
Proof.
  intros. unfold linearise_snapshot. induction hs as [|h hs IH]; cbn [app flat_map].
  - rewrite app_nil_r. reflexivity.
  - rewrite IH, app_assoc. reflexivity.
Qed.

(* subscribes and head events never touch the job table *)
Lemma step_no_att_jobs : forall pr st o,
  match o with OAtt _ _ _ _ _ => False | _ => True end -> st_jobs (fst (step pr st o)) = st_jobs st.
Proof.
  intros pr st o H. destruct o as [ep cur na df sf ds| |hslot cur]; [|destruct H|].
  - cbn [step]. destruct na; [reflexivity|]. destruct df; reflexivity.
  - cbn [step]. destruct (hslot =? cur); reflexivity.
Qed.

Lemma run_no_att_jobs : forall pr ops st,
  Forall (fun o => match o with OAtt _ _ _ _ _ => False | _ => True end) ops ->
  st_jobs (fst (run pr st ops)) = st_jobs st.
Proof.
  intros pr ops. induction ops as [|o ops IH]; intros st F.
  - reflexivity.
  - inversion F as [|? ? Ho Fo]; subst. rewrite run_cons, IH by exact Fo. apply step_no_att_jobs. exact Ho.
Qed.
