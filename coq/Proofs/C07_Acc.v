(* C07 lemmas, part 2: what the accumulators amount to.
   - strictly-greater replacement over a response list = the first maximal response;
   - the table of counts = votes per key, remembering the first response of each key;
   - the final selection over ANY iteration order of the Go map = plurality, ties by head slot;
   - an absolute majority that meets the threshold cannot be overtaken. *)
From Verif Require Import Lib.Base Model.C07_Strategies Model.C07_Spec.
From Coq Require Import ZifyBool ZifyN ZifyNat Permutation QArith.
Open Scope N_scope.
Open Scope N_scope.

(* ------------------------------------------------------------------------------------------- *)
(* best *)

Section Best.
  Context {V S : Type}.
  Variable sc : V -> S.
  Variable gt : S -> S -> bool.
  Notation upd := (upd_best sc gt).
  Notation best vs := (fold_left upd vs None).

  Lemma best_snoc : forall vs w, best (vs ++ [w]) = upd (best vs) w.
  Proof. intros. rewrite fold_left_app. reflexivity. Qed.

  Lemma best_none_iff : forall vs, best vs = None <-> vs = [].
  Proof.
    induction vs as [|w vs IH] using rev_ind; [cbn; tauto|].
    rewrite best_snoc. split.
    - intro H. destruct (best vs) as [b|]; unfold upd_best in H; [destruct (gt (sc w) (sc b))|]; discriminate H.
    - intro H. destruct vs; discriminate.
  Qed.

  Lemma best_in : forall vs b, best vs = Some b -> In b vs.
  Proof.
    induction vs as [|w vs IH] using rev_ind; intros b H; [discriminate|].
    rewrite best_snoc in H. apply in_or_app.
    destruct (best vs) as [b0|]; unfold upd_best in H.
    - destruct (gt (sc w) (sc b0)); injection H as <-; [right; left; reflexivity | left; apply IH; reflexivity].
    - injection H as <-. right; left; reflexivity.
  Qed.

  (* any gt that is transitive and irreflexive on the scores that occur (float64 >, NaN
     included): no consumed response strictly outscores the returned one *)
  Lemma best_unbeaten : forall vs b,
    (forall x y z, In x vs -> In y vs -> In z vs ->
                   gt (sc x) (sc y) = true -> gt (sc y) (sc z) = true -> gt (sc x) (sc z) = true) ->
    (forall x, In x vs -> gt (sc x) (sc x) = false) ->
    best vs = Some b -> unbeaten sc gt vs b.
  Proof.
    induction vs as [|w vs IH] using rev_ind; intros b Htr Hir H; [discriminate|].
    rewrite best_snoc in H.
    assert (Htr' : forall x y z, In x vs -> In y vs -> In z vs ->
                   gt (sc x) (sc y) = true -> gt (sc y) (sc z) = true -> gt (sc x) (sc z) = true).
    { intros x y z Hx Hy Hz. apply Htr; apply in_or_app; left; assumption. }
    assert (Hir' : forall x, In x vs -> gt (sc x) (sc x) = false).
    { intros x Hx. apply Hir. apply in_or_app; left; assumption. }
    assert (Hw : In w (vs ++ [w])) by (apply in_or_app; right; left; reflexivity).
    destruct (best vs) as [b0|] eqn:Eb; unfold upd_best in H.
    - destruct (IH b0 Htr' Hir' eq_refl) as [Hin Hun].
      assert (Hb0 : In b0 (vs ++ [w])) by (apply in_or_app; left; exact Hin).
      destruct (gt (sc w) (sc b0)) eqn:Eg; injection H as <-.
      + split; [exact Hw|]. intros v Hv. apply in_app_or in Hv as [Hv|[<-|[]]].
        * destruct (gt (sc v) (sc w)) eqn:Evw; [|reflexivity].
          assert (Hvv : In v (vs ++ [w])) by (apply in_or_app; left; exact Hv).
          rewrite <- (Hun v Hv). symmetry. apply (Htr v w b0 Hvv Hw Hb0 Evw Eg).
        * apply Hir. exact Hw.
      + split; [exact Hb0|]. intros v Hv. apply in_app_or in Hv as [Hv|[<-|[]]]; [apply Hun; exact Hv | exact Eg].
    - injection H as <-. apply best_none_iff in Eb. subst vs. split; [exact Hw|].
      intros v [<-|[]]. apply Hir. exact Hw.
  Qed.

  (* a strict weak order on the scores that occur (float64 > without NaN): the returned response
     is the FIRST maximal one *)
  Lemma best_first_max : forall vs b,
    (forall x y z, In x vs -> In y vs -> In z vs ->
                   gt (sc x) (sc y) = true -> gt (sc y) (sc z) = true -> gt (sc x) (sc z) = true) ->
    (forall x y z, In x vs -> In y vs -> In z vs ->
                   gt (sc x) (sc y) = true -> gt (sc x) (sc z) = true \/ gt (sc z) (sc y) = true) ->
    best vs = Some b -> first_max sc gt vs b.
  Proof.
    induction vs as [|w vs IH] using rev_ind; intros b Htr Hneg H; [discriminate|].
    rewrite best_snoc in H.
    assert (Htr' : forall x y z, In x vs -> In y vs -> In z vs ->
                   gt (sc x) (sc y) = true -> gt (sc y) (sc z) = true -> gt (sc x) (sc z) = true).
    { intros x y z Hx Hy Hz. apply Htr; apply in_or_app; left; assumption. }
    assert (Hneg' : forall x y z, In x vs -> In y vs -> In z vs ->
                   gt (sc x) (sc y) = true -> gt (sc x) (sc z) = true \/ gt (sc z) (sc y) = true).
    { intros x y z Hx Hy Hz. apply Hneg; apply in_or_app; left; assumption. }
    assert (Hw : In w (vs ++ [w])) by (apply in_or_app; right; left; reflexivity).
    destruct (best vs) as [b0|] eqn:Eb; unfold upd_best in H.
    - destruct (IH b0 Htr' Hneg' eq_refl) as [l1 [l2 [-> [Hl1 Hl2]]]].
      assert (Hb0 : In b0 ((l1 ++ b0 :: l2) ++ [w])) by (apply in_or_app; left; apply in_or_app; right; left; reflexivity).
      destruct (gt (sc w) (sc b0)) eqn:Eg; injection H as <-.
      + exists (l1 ++ b0 :: l2), []. split; [reflexivity|]. split; [|intros v []].
        intros v Hv.
        assert (Hvv : In v ((l1 ++ b0 :: l2) ++ [w])) by (apply in_or_app; left; exact Hv).
        apply in_app_or in Hv as [Hv|[<-|Hv]].
        * apply (Htr w b0 v Hw Hb0 Hvv Eg). apply Hl1. exact Hv.
        * exact Eg.
        * destruct (Hneg w b0 v Hw Hb0 Hvv Eg) as [G|G]; [exact G|]. rewrite (Hl2 v Hv) in G. discriminate.
      + exists l1, (l2 ++ [w]). rewrite <- app_assoc. split; [reflexivity|]. split; [exact Hl1|].
        intros v Hv. apply in_app_or in Hv as [Hv|[<-|[]]]; [apply Hl2; exact Hv | exact Eg].
    - injection H as <-. apply best_none_iff in Eb. subst vs. exists [], []. split; [reflexivity|].
      split; intros v [].
  Qed.
End Best.

(* float64 > as modelled: transitive and irreflexive everywhere; a strict weak order away from NaN *)
Lemma sgt_trans : forall a b c, sgt a b = true -> sgt b c = true -> sgt a c = true.
Proof.
  intros [|x] [|y] [|z]; cbn; try discriminate. intros H1 H2.
  apply negb_true_iff in H1, H2. apply negb_true_iff.
  destruct (Qle_bool x z) eqn:E; [|reflexivity]. exfalso.
  apply QArith_base.Qle_bool_iff in E.
  assert (G1 : ~ QArith_base.Qle x y) by (intro G; apply QArith_base.Qle_bool_iff in G; congruence).
  assert (G2 : ~ QArith_base.Qle y z) by (intro G; apply QArith_base.Qle_bool_iff in G; congruence).
  apply QArith_base.Qnot_le_lt in G1, G2.
  pose proof (QArith_base.Qlt_trans _ _ _ G2 G1) as G. apply QArith_base.Qlt_not_le in G. contradiction.
Qed.

Lemma sgt_irrefl : forall a, sgt a a = false.
Proof.
  intros [|x]; cbn; [reflexivity|]. apply negb_false_iff. apply QArith_base.Qle_bool_iff. apply QArith_base.Qle_refl.
Qed.

Lemma sgt_negtrans : forall x y c, sgt (SFin x) (SFin y) = true -> forall z, c = SFin z ->
  sgt (SFin x) c = true \/ sgt c (SFin y) = true.
Proof.
  intros x y c H z ->. cbn in *. apply negb_true_iff in H.
  destruct (Qle_bool x z) eqn:E1; [|left; reflexivity]. right. apply negb_true_iff.
  destruct (Qle_bool z y) eqn:E2; [|reflexivity]. exfalso.
  apply QArith_base.Qle_bool_iff in E1, E2.
  assert (G : QArith_base.Qle x y) by (eapply QArith_base.Qle_trans; eassumption).
  apply QArith_base.Qle_bool_iff in G. congruence.
Qed.

(* ------------------------------------------------------------------------------------------- *)
(* majority: the table *)

Section TableLemmas.
  Context {V : Type}.
  Variable key : V -> N.
  Notation table := (list (N * (V * Z))).
  Notation bump := (bump key).
  Notation tbl vs := (fold_left bump vs ([] : table)).

  Fixpoint tget (t : table) (k : N) : option (V * Z) :=
    match t with
    | [] => None
    | (k', x) :: t' => if k' =? k then Some x else tget t' k
    end.

  Lemma tget_bump : forall t v k,
    tget (bump t v) k =
    if key v =? k then Some (match tget t k with Some (v0, c) => (v0, (c + 1)%Z) | None => (v, 1%Z) end)
    else tget t k.
  Proof.
    induction t as [|[k' [v0 c]] t IH]; intros v k.
    - cbn. destruct (key v =? k); reflexivity.
    - cbn [C07_Strategies.bump]. destruct (N.eqb_spec k' (key v)) as [E|E].
      + subst k'. cbn [tget]. destruct (key v =? k); reflexivity.
      + cbn [tget]. rewrite IH. destruct (N.eqb_spec k' k) as [E2|E2].
        * subst k'. destruct (N.eqb_spec (key v) k) as [E3|E3]; [congruence | reflexivity].
        * reflexivity.
  Qed.

  Lemma bump_keys : forall t v, map fst (bump t v) = if existsb (fun e => fst e =? key v) t then map fst t else map fst t ++ [key v].
  Proof.
    induction t as [|[k' [v0 c]] t IH]; intro v; [reflexivity|].
    cbn [C07_Strategies.bump existsb fst]. destruct (k' =? key v); cbn [orb map fst]; [reflexivity|].
    rewrite IH. destruct (existsb _ t); reflexivity.
  Qed.

  Lemma bump_nodup : forall t v, NoDup (map fst t) -> NoDup (map fst (bump t v)).
  Proof.
    intros t v H. rewrite bump_keys. destruct (existsb _ t) eqn:E; [exact H|].
    apply (Permutation_NoDup (Permutation_cons_append _ _)). constructor; [|exact H]. intro Hin. apply in_map_iff in Hin as [e [He Hin]].
    assert (G : existsb (fun e => fst e =? key v) t = true).
    { apply existsb_exists. exists e. split; [exact Hin | apply N.eqb_eq; exact He]. }
    congruence.
  Qed.

  Lemma tget_in : forall (t : table) k x, NoDup (map fst t) -> (In (k, x) t <-> tget t k = Some x).
  Proof.
    induction t as [|[k' y] t IH]; intros k x Hnd.
    - cbn. split; [tauto | discriminate].
    - cbn [map fst] in Hnd. apply NoDup_cons_iff in Hnd as [Hni Hnd]. cbn [In tget].
      destruct (N.eqb_spec k' k) as [E|E].
      + subst k'. split.
        * intros [H|H]; [congruence|]. exfalso. apply Hni. apply in_map_iff. exists (k, x). auto.
        * intro H. left. congruence.
      + rewrite <- (IH k x Hnd). split; [intros [H|H]; [congruence | exact H] | auto].
  Qed.

  Lemma tbl_snoc : forall vs w, tbl (vs ++ [w]) = bump (tbl vs) w.
  Proof. intros. rewrite fold_left_app. reflexivity. Qed.

  Lemma tbl_nodup : forall vs, NoDup (map fst (tbl vs)).
  Proof.
    induction vs as [|w vs IH] using rev_ind; [constructor|]. rewrite tbl_snoc. apply bump_nodup. exact IH.
  Qed.

  Lemma find_app_ : forall (f : V -> bool) l l',
    find f (l ++ l') = match find f l with Some x => Some x | None => find f l' end.
  Proof. induction l as [|x l IH]; intro l'; [reflexivity|]. cbn. destruct (f x); [reflexivity | apply IH]. Qed.

  Lemma votes_app : forall vs vs' k, votes key (vs ++ vs') k = (votes key vs k + votes key vs' k)%Z.
  Proof. intros. unfold votes. rewrite filter_app, app_length. lia. Qed.

  Lemma votes_nonneg : forall vs k, (0 <= votes key vs k)%Z.
  Proof. intros. unfold votes. lia. Qed.

  Lemma find_none_votes : forall vs k, find (fun v => key v =? k) vs = None -> votes key vs k = 0%Z.
  Proof.
    induction vs as [|x vs IH]; intros k H; [reflexivity|]. cbn in H. unfold votes. cbn [filter].
    destruct (key x =? k); [discriminate|]. apply IH. exact H.
  Qed.

  Lemma find_some_votes : forall vs k v, find (fun v => key v =? k) vs = Some v -> (1 <= votes key vs k)%Z /\ key v = k /\ In v vs.
  Proof.
    intros vs k v H. apply find_some in H as [Hin Hk]. apply N.eqb_eq in Hk. repeat split; auto.
    unfold votes. assert (G : In v (filter (fun v => key v =? k) vs)) by (apply filter_In; split; [exact Hin | apply N.eqb_eq; exact Hk]).
    destruct (filter _ vs); [destruct G | cbn; lia].
  Qed.

  Lemma in_find_some : forall vs v, In v vs -> exists v0, find (fun x => key x =? key v) vs = Some v0.
  Proof.
    intros vs v Hin. destruct (find (fun x => key x =? key v) vs) as [v0|] eqn:E; [exists v0; reflexivity|].
    exfalso. apply (find_none _ _ E) in Hin. rewrite N.eqb_refl in Hin. discriminate.
  Qed.

  (* the table after the responses [vs]: per key, the first response with that key and the number
     of responses with that key *)
  Lemma tbl_get : forall vs k,
    tget (tbl vs) k = match find (fun v => key v =? k) vs with
                      | Some v0 => Some (v0, votes key vs k)
                      | None => None
                      end.
  Proof.
    induction vs as [|w vs IH] using rev_ind; intro k; [reflexivity|].
    assert (Hw : votes key [w] k = if key w =? k then 1%Z else 0%Z).
    { unfold votes. cbn [filter]. destruct (key w =? k); reflexivity. }
    rewrite tbl_snoc, tget_bump, IH, find_app_, votes_app, Hw. cbn [find].
    destruct (find (fun v => key v =? k) vs) as [v0|] eqn:Ef.
    - destruct (key w =? k); [reflexivity | f_equal; f_equal; lia].
    - rewrite (find_none_votes _ _ Ef). destruct (key w =? k); reflexivity.
  Qed.

  Lemma tbl_in : forall vs k v c,
    In (k, (v, c)) (tbl vs) <-> find (fun x => key x =? k) vs = Some v /\ c = votes key vs k.
  Proof.
    intros vs k v c. rewrite (tget_in _ _ _ (tbl_nodup vs)), tbl_get.
    destruct (find (fun x => key x =? k) vs) as [v0|]; split.
    - intro H. injection H as -> ->. auto.
    - intros [H ->]. injection H as ->. reflexivity.
    - discriminate.
    - intros [H _]. discriminate.
  Qed.

  Lemma votes_disjoint : forall vs k k', k <> k' -> (votes key vs k + votes key vs k' <= Z.of_nat (length vs))%Z.
  Proof.
    intros vs k k' Hne. unfold votes. induction vs as [|x vs IH]; [cbn; lia|].
    cbn [filter length]. destruct (N.eqb_spec (key x) k) as [E1|E1]; destruct (N.eqb_spec (key x) k') as [E2|E2];
      cbn [length]; try lia; congruence.
  Qed.

  Lemma votes_le_length : forall vs k, (votes key vs k <= Z.of_nat (length vs))%Z.
  Proof.
    intros. unfold votes. induction vs as [|x vs IH]; [cbn; lia|].
    cbn [filter length]. destruct (key x =? k); cbn [length]; lia.
  Qed.

  (* largestCount *)
  Lemma largest_from : forall (t : table) m0,
    let m := fold_left (fun m e => Z.max m (snd (snd e))) t m0 in
    (m0 <= m)%Z /\ (forall e, In e t -> (snd (snd e) <= m)%Z)
    /\ (m = m0 \/ exists e, In e t /\ snd (snd e) = m).
  Proof.
    induction t as [|e t IH]; intro m0; cbn [fold_left].
    - cbn. split; [lia|]. split; [intros e []|]. left; reflexivity.
    - destruct (IH (Z.max m0 (snd (snd e)))) as (H1 & H2 & H3). cbn zeta in *. split; [|split].
      + lia.
      + intros e' [<-|H]; [lia | apply H2; exact H].
      + destruct H3 as [H3|[e' [Hin He]]].
        * destruct (Z.max_spec m0 (snd (snd e))) as [[_ Q]|[_ Q]].
          -- right. exists e. split; [left; reflexivity | rewrite H3; auto].
          -- left. rewrite H3. exact Q.
        * right. exists e'. split; [right; exact Hin | exact He].
  Qed.

  Lemma largest_tbl : forall vs,
    (forall k, votes key vs k <= largest (tbl vs))%Z
    /\ (largest (tbl vs) = 0%Z \/ exists v, In v vs /\ votes key vs (key v) = largest (tbl vs)).
  Proof.
    intro vs. destruct (largest_from (tbl vs) 0%Z) as (H1 & H2 & H3). fold (largest (tbl vs)) in *. split.
    - intro k. destruct (find (fun x => key x =? k) vs) as [v0|] eqn:Ef.
      + assert (G : In (k, (v0, votes key vs k)) (tbl vs)) by (apply tbl_in; auto).
        apply H2 in G. exact G.
      + rewrite (find_none_votes _ _ Ef). exact H1.
    - destruct H3 as [H3|[[k [v c]] [Hin He]]]; [left; exact H3|]. right.
      apply tbl_in in Hin as [Hf ->]. apply find_some_votes in Hf as (_ & <- & Hin). exists v. auto.
  Qed.

  (* the final selection *)
  Variable slot_of : V -> N.
  Notation select := (select slot_of).

  Lemma select_snoc : forall (order : table) e, select (order ++ [e]) = sel_step slot_of (select order) e.
  Proof. intros. unfold C07_Strategies.select. rewrite fold_left_app. reflexivity. Qed.

  Lemma select_spec : forall order : table,
    (forall e, In e order -> (0 < snd (snd e))%Z) ->
    match select order with
    | (None, bc, bs) => order = [] /\ bc = 0%Z /\ bs = 0
    | (Some v, bc, bs) =>
        (0 < bc)%Z /\ bs = slot_of v /\ (exists k, In (k, (v, bc)) order)
        /\ forall k' v' c', In (k', (v', c')) order -> (c' <= bc)%Z /\ (c' = bc -> slot_of v' <= bs)
    end.
  Proof.
    induction order as [|[k [v c]] order IH] using rev_ind; intro Hpos; [cbn; auto|].
    rewrite select_snoc.
    assert (Hpos' : forall e, In e order -> (0 < snd (snd e))%Z) by (intros e He; apply Hpos; apply in_or_app; left; exact He).
    assert (Hc : (0 < c)%Z) by (apply (Hpos (k, (v, c))); apply in_or_app; right; left; reflexivity).
    specialize (IH Hpos'). destruct (select order) as [[[b|] bc] bs]; unfold sel_step.
    - destruct IH as (Hbc & Hbs & [kb Hin] & Hall).
      destruct (Z.ltb_spec bc c) as [Q|Q].
      + repeat split; auto. { exists k. apply in_or_app; right; left; reflexivity. }
        * apply in_app_or in H as [H|[H|[]]]; [apply Hall in H; lia | injection H as ? ? ?; subst; lia].
        * intro E. apply in_app_or in H as [H|[H|[]]]; [apply Hall in H; lia | injection H as ? ? ?; subst; lia].
      + destruct (Z.eqb_spec c bc) as [Q2|Q2].
        * destruct (N.ltb_spec bs (slot_of v)) as [Q3|Q3].
          -- repeat split; auto. { exists k. subst c. apply in_or_app; right; left; reflexivity. }
             ++ apply in_app_or in H as [H|[H|[]]]; [apply Hall in H; lia | injection H as ? ? ?; subst; lia].
             ++ intro E. apply in_app_or in H as [H|[H|[]]]; [apply Hall in H; lia | injection H as ? ? ?; subst; lia].
          -- repeat split; auto. { exists kb. apply in_or_app; left; exact Hin. }
             ++ apply in_app_or in H as [H|[H|[]]]; [apply Hall in H; lia | injection H as ? ? ?; subst; lia].
             ++ intro E. apply in_app_or in H as [H|[H|[]]]; [apply Hall in H; lia | injection H as ? ? ?; subst; lia].
        * repeat split; auto. { exists kb. apply in_or_app; left; exact Hin. }
          -- apply in_app_or in H as [H|[H|[]]]; [apply Hall in H; lia | injection H as ? ? ?; subst; lia].
          -- intro E. apply in_app_or in H as [H|[H|[]]]; [apply Hall in H; lia | injection H as ? ? ?; subst; lia].
    - destruct IH as (-> & -> & ->). destruct (Z.ltb_spec 0 c) as [Q|Q]; [|lia].
      repeat split; auto. { exists k. left. reflexivity. }
      + destruct H as [H|[]]. injection H as ? ? ?. subst. lia.
      + intro E. destruct H as [H|[]]. injection H as ? ? ?. subst. lia.
  Qed.

  Lemma maj_result_spec : forall thr (order : table),
    (forall e, In e order -> (0 < snd (snd e))%Z) ->
    match maj_result slot_of thr order with
    | Some v => exists k c, In (k, (v, c)) order /\ (thr <= c)%Z
                /\ forall k' v' c', In (k', (v', c')) order -> (c' <= c)%Z /\ (c' = c -> slot_of v' <= slot_of v)
    | None => forall k' v' c', In (k', (v', c')) order -> (c' < thr)%Z
    end.
  Proof.
    intros thr order Hpos. pose proof (select_spec order Hpos) as H. unfold maj_result.
    destruct (select order) as [[[b|] bc] bs].
    - destruct H as (Hbc & -> & [k Hin] & Hall).
      destruct (Z.eqb_spec bc 0) as [Q|Q]; [lia|].
      destruct (Z.ltb_spec bc thr) as [Q2|Q2].
      + intros k' v' c' H. apply Hall in H. lia.
      + exists k, bc. auto.
    - destruct H as (-> & -> & ->). cbn. intros k' v' c' [].
  Qed.
End TableLemmas.

(* ------------------------------------------------------------------------------------------- *)
(* majority: in terms of the responses *)

Section Majority.
  Context {V : Type}.
  Variable key : V -> N.
  Variable slot_of : V -> N.
  Notation tbl vs := (fold_left (bump key) vs ([] : list (N * (V * Z)))).

  Lemma tbl_pos : forall vs e, In e (tbl vs) -> (0 < snd (snd e))%Z.
  Proof.
    intros vs [k [v c]] H. apply tbl_in in H as [Hf ->]. apply find_some_votes in Hf as [Hf _]. cbn. lia.
  Qed.

  (* For EVERY iteration order of the Go map: the value used is the first response of a most
     frequently reported key, it has at least [thr] (and at least one) votes, and among equally
     frequent keys it has the highest head slot.  None is used iff no key has [thr] votes. *)
  Lemma maj_plurality : forall vs order thr,
    (forall x y, In x vs -> In y vs -> key x = key y -> slot_of x = slot_of y) ->
    Permutation order (tbl vs) ->
    match maj_result slot_of thr order with
    | Some v => find (fun x => key x =? key v) vs = Some v
                /\ (thr <= votes key vs (key v))%Z /\ (1 <= votes key vs (key v))%Z
                /\ forall v', In v' vs ->
                     (votes key vs (key v') <= votes key vs (key v))%Z
                     /\ (votes key vs (key v') = votes key vs (key v) -> slot_of v' <= slot_of v)
    | None => forall v', In v' vs -> (votes key vs (key v') < thr)%Z
    end.
  Proof.
    intros vs order thr Hks Hperm.
    assert (Hpos : forall e, In e order -> (0 < snd (snd e))%Z).
    { intros e He. apply (tbl_pos vs). apply (Permutation_in _ Hperm). exact He. }
    pose proof (maj_result_spec key slot_of thr order Hpos) as H.
    assert (Hent : forall v', In v' vs -> exists v0, In v0 vs /\ key v0 = key v' /\ In (key v', (v0, votes key vs (key v'))) order).
    { intros v' Hin. destruct (in_find_some key vs v' Hin) as [v0 Hf]. exists v0.
      split; [apply (find_some_votes key) in Hf; tauto|].
      split; [apply (find_some_votes key) in Hf; tauto|].
      apply (Permutation_in _ (Permutation_sym Hperm)). apply tbl_in. auto. }
    destruct (maj_result slot_of thr order) as [v|].
    - destruct H as [k [c (Hin & Hthr & Hall)]].
      apply (Permutation_in _ Hperm) in Hin. apply tbl_in in Hin as [Hf ->].
      destruct (find_some_votes key _ _ _ Hf) as (H1 & <- & Hvin).
      repeat split; auto.
      + destruct (Hent v' H) as [v0 [Hv0 [Hk Hin0]]]. apply Hall in Hin0. tauto.
      + intro E. destruct (Hent v' H) as [v0 [Hv0 [Hk Hin0]]]. apply Hall in Hin0 as [_ Hs].
        rewrite <- (Hks v0 v' Hv0 H Hk). apply Hs. exact E.
    - intros v' Hin. destruct (Hent v' Hin) as [v0 [Hv0 [Hk Hin0]]]. apply H in Hin0. exact Hin0.
  Qed.

  Lemma maj_uses_iff : forall vs order thr,
    Permutation order (tbl vs) ->
    (maj_result slot_of thr order <> None <-> exists v, In v vs /\ (thr <= votes key vs (key v))%Z).
  Proof.
    intros vs order thr Hperm.
    assert (Hpos : forall e, In e order -> (0 < snd (snd e))%Z).
    { intros e He. apply (tbl_pos vs). apply (Permutation_in _ Hperm). exact He. }
    pose proof (maj_result_spec key slot_of thr order Hpos) as H.
    destruct (maj_result slot_of thr order) as [v|]; split.
    - intros _. destruct H as [k [c (Hin & Hthr & _)]].
      apply (Permutation_in _ Hperm) in Hin. apply tbl_in in Hin as [Hf ->].
      destruct (find_some_votes key _ _ _ Hf) as (H1 & <- & Hvin). exists v. auto.
    - discriminate.
    - intros Hn. congruence.
    - intros [v [Hin Hthr]]. exfalso.
      destruct (in_find_some key vs v Hin) as [v0 Hf].
      assert (G : In (key v, (v0, votes key vs (key v))) order).
      { apply (Permutation_in _ (Permutation_sym Hperm)). apply tbl_in. auto. }
      apply H in G. lia.
  Qed.

  (* a value with an absolute majority of the [requests] nodes that also meets the threshold is
     what is used, whatever else has been or will be reported *)
  Lemma maj_absolute : forall ws requests thr order v,
    (Z.of_nat (length ws) <= requests)%Z -> In v ws ->
    (requests / 2 + 1 <= votes key ws (key v))%Z -> (thr <= votes key ws (key v))%Z ->
    Permutation order (tbl ws) ->
    exists v0, maj_result slot_of thr order = Some v0 /\ find (fun x => key x =? key v) ws = Some v0.
  Proof.
    intros ws requests thr order v Hlen Hin Habs Hthr Hperm.
    assert (Hpos : forall e, In e order -> (0 < snd (snd e))%Z).
    { intros e He. apply (tbl_pos ws). apply (Permutation_in _ Hperm). exact He. }
    pose proof (maj_result_spec key slot_of thr order Hpos) as H.
    destruct (in_find_some key ws v Hin) as [v0 Hf].
    assert (G : In (key v, (v0, votes key ws (key v))) order).
    { apply (Permutation_in _ (Permutation_sym Hperm)). apply tbl_in. auto. }
    destruct (maj_result slot_of thr order) as [v1|].
    - destruct H as [k [c (Hin1 & _ & Hall)]].
      apply Hall in G as [G _].
      apply (Permutation_in _ Hperm) in Hin1. apply tbl_in in Hin1 as [Hf1 ->].
      destruct (N.eq_dec (key v) k) as [E|E].
      + subst k. exists v1. split; [reflexivity | exact Hf1].
      + exfalso. pose proof (votes_disjoint key ws (key v) k E) as D.
        pose proof (Z.div_mod requests 2 ltac:(lia)) as Q1. pose proof (Z.mod_pos_bound requests 2 ltac:(lia)) as Q2.
        lia.
    - apply H in G. lia.
  Qed.

  Lemma maj_early_exit : forall vs vs' requests thr order order' v,
    (Z.of_nat (length (vs ++ vs')) <= requests)%Z -> In v vs ->
    (requests / 2 + 1 <= votes key vs (key v))%Z -> (thr <= votes key vs (key v))%Z ->
    Permutation order (tbl vs) -> Permutation order' (tbl (vs ++ vs')) ->
    maj_result slot_of thr order' = maj_result slot_of thr order
    /\ exists v0, maj_result slot_of thr order = Some v0 /\ key v0 = key v.
  Proof.
    intros vs vs' requests thr order order' v Hlen Hin Habs Hthr Hp Hp'.
    assert (Hlen1 : (Z.of_nat (length vs) <= requests)%Z) by (rewrite app_length in Hlen; lia).
    destruct (maj_absolute vs requests thr order v Hlen1 Hin Habs Hthr Hp) as [v0 [H0 F0]].
    pose proof (votes_nonneg key vs' (key v)) as Hnn.
    assert (Hin' : In v (vs ++ vs')) by (apply in_or_app; left; exact Hin).
    destruct (maj_absolute (vs ++ vs') requests thr order' v Hlen Hin') as [v1 [H1 F1]];
      try (rewrite votes_app; lia); try exact Hp'.
    rewrite find_app_, F0 in F1. injection F1 as <-.
    split; [congruence|]. exists v0. split; [exact H0|]. apply (find_some_votes key) in F0. tauto.
  Qed.
End Majority.
