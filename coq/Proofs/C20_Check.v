(* What a green correspondence says, for the fan-out cases: if the implementation's observation
   agrees with the model on a scenario that ran to quiescence, then (by C20_senders_never_block,
   capacity = number of providers) no goroutine of the function is left blocked; and P_b on the
   observed values is exactly that statement plus "the call came back". *)
From Verif Require Import Lib.Base Model.C20_Fanout Proofs.C20_Fanout Check.C20.
From Coq Require Import ZifyBool ZifyN ZifyNat.

Lemma fan_agree_no_leak id kind n timeout detect evs returned ok nblocked :
  agree {| c_id := id; c_body := Fan kind n timeout detect evs returned ok nblocked |} = true ->
  final (fan_model n timeout detect evs) = true ->
  nblocked = 0.
Proof.
  unfold agree; cbn [c_body]. intros Ha Hf.
  apply andb_prop in Ha as [_ Hb]. apply N.eqb_eq in Hb. subst nblocked.
  unfold fan_model in *. destruct (scenario_sched n (N.of_nat n) 1 timeout detect evs) as [sch Hs].
  rewrite Hs in *. apply no_leak_when_cap_ge_n; [lia | exact Hf].
Qed.

Lemma fan_agree_returns id kind n detect evs returned ok nblocked :
  agree {| c_id := id; c_body := Fan kind n true detect evs returned ok nblocked |} = true ->
  final (fan_model n true detect evs) = true ->
  returned = true.
Proof.
  unfold agree; cbn [c_body]. intros Ha Hf.
  apply andb_prop in Ha as [Ha _]. apply andb_prop in Ha as [Ha _]. apply Bool.eqb_prop in Ha. subst returned.
  unfold fan_model in *. destruct (scenario_sched n (N.of_nat n) 1 true detect evs) as [sch Hs].
  rewrite Hs in *. apply collector_returns_with_timeout. exact Hf.
Qed.

Lemma fan_agree_unblind_returns id kind n evs returned ok nblocked :
  (0 < n)%nat ->
  agree {| c_id := id; c_body := Fan kind n false true evs returned ok nblocked |} = true ->
  final (fan_model n false true evs) = true ->
  returned = true.
Proof.
  unfold agree; cbn [c_body]. intros Hn Ha Hf.
  apply andb_prop in Ha as [Ha _]. apply andb_prop in Ha as [Ha _]. apply Bool.eqb_prop in Ha. subst returned.
  unfold fan_model in *. destruct (scenario_sched n (N.of_nat n) 1 false true evs) as [sch Hs].
  rewrite Hs in *. apply collector_returns_with_detection; [lia | exact Hf].
Qed.

Lemma P_b_fan_sound id kind n timeout detect evs returned ok nblocked :
  P_b {| c_id := id; c_body := Fan kind n timeout detect evs returned ok nblocked |} = true <->
  returned = true /\ nblocked = 0.
Proof.
  unfold P_b; cbn [c_body]. rewrite andb_true_iff, N.eqb_eq. tauto.
Qed.

(* the bounds P_b applies to a row are the bounds of the theorems *)
Lemma row_ok_bounds spe t r :
  row_ok spe t r = true ->
  exists a m j x s ro d b,
    r_sizes r = [a; m; j; x; s; ro; d; b] /\
    a <= t_hi t - t_succ t + 2 /\ s <= ep spe (t_now t) - t_head t + 3 /\
    ro <= spe + 1 /\ d <= max_slot_data /\ m = j + x /\
    forall p, In p (r_probes r) -> p_has p = (p_job p || mem (p_slot p) (r_running r)).
Proof.
  unfold row_ok. destruct (r_sizes r) as [|a [|m [|j [|x [|s [|ro [|d [|b [|? ?]]]]]]]]]; try discriminate.
  intro H. repeat (apply andb_prop in H as [H ?]).
  exists a, m, j, x, s, ro, d, b. repeat split; try lia.
  intros p Hp. rewrite forallb_forall in H0. specialize (H0 p Hp). apply Bool.eqb_prop in H0. exact H0.
Qed.

(* what P_b says about the cache of builder bids after every operation, whatever the requests were:
   the statement of C20_bids_api_any_order on the observed slots *)
Lemma bids_ok_bounds last prev ks x n :
  bids_ok last prev ks x n = true ->
  n = size ks /\
  forall k, In k ks -> last <= k + bid_window /\ (In k prev \/ xreq x = Some k).
Proof.
  unfold bids_ok. intro H. apply andb_prop in H as [H Hf]. apply andb_prop in H as [Hn _].
  split; [lia|]. intros k Hk. rewrite forallb_forall in Hf. specialize (Hf k Hk).
  apply andb_prop in Hf as [H1 H2]. split; [lia|].
  apply orb_prop in H2 as [H2|H2].
  - left. unfold mem in H2. apply existsb_exists in H2 as [y [Hy He]]. apply N.eqb_eq in He. subst. exact Hy.
  - right. destruct (xreq x) as [s|]; [|discriminate]. apply N.eqb_eq in H2. subst. reflexivity.
Qed.
