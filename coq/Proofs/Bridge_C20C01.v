(* C20 <-> C01: the two models of the attester's per-epoch [attested] map agree.

   C01 (Model/C01_Attester.v) keeps the whole map [g_att : list (epoch * list vidx)] and runs every
   call of Attest as a thread; C20 (Model/C20_Bookkeeping.v) keeps the key set [attested : list epoch]
   and is driven by the operations OStart s (the job of slot s starts: fetchValidatorIndices creates
   attested[epoch(s)]) and OFinish s true (a successful Attest: housekeepAttestedMap).

   [keys] is the abstraction function.  An association list grows at its END ([aset] appends a new
   key), C20's key list grows at its HEAD ([ins] conses): hence the [rev].  With it the two models are
   equal as LISTS, operation by operation, not only as sets. *)
From Verif Require Import Lib.Base.
From Coq Require Import ZifyBool ZifyN ZifyNat.
From Verif Require Model.C01_Attester Proofs.C01 Model.C20_Bookkeeping Proofs.C20_Bookkeeping.

Module A := Verif.Model.C01_Attester.
Module AP := Verif.Proofs.C01.
Module B := Verif.Model.C20_Bookkeeping.
Module BP := Verif.Proofs.C20_Bookkeeping.

(* --------------------------------------------------------------------------------------------- *)
(* the abstraction function *)
Definition keys (st : A.state) : list N := rev (map fst (A.g_att st)).

(* what the next step of thread [i] is, in C20's vocabulary *)
Inductive aop := AStart (s : N) | AFinish (s : N) | ANone.

Definition op_of (rs : list A.run) (st : A.state) (i : nat) : aop :=
  if A.g_panic st then ANone
  else match nth_error rs i with
       | None => ANone
       | Some r =>
           match A.t_pc (A.g_thr st i) with
           | A.PEnsure => AStart (A.d_slot (A.r_duty r))
           | A.PHousekeep => AFinish (A.d_slot (A.r_duty r))
           | _ => ANone
           end
       end.

(* C20's operation on the key list: exactly the expressions of [B.step] for OStart / OFinish _ true *)
Definition apply_op (spe : N) (o : aop) (l : list N) : list N :=
  match o with
  | AStart s => B.ins (B.epoch_of spe s) l
  | AFinish s => B.housekeep true (B.epoch_of spe s) l
  | ANone => l
  end.

(* the C20 operations one C01 step stands for.  OSched 0 false [s] only puts the job of slot s into
   the scheduler's table (so that OStart finds it); it does not touch [attested]. *)
Definition ops_of (rs : list A.run) (st : A.state) (i : nat) : list B.op :=
  match op_of rs st i with
  | AStart s => [B.OSched 0 false [s]; B.OStart s]
  | AFinish s => [B.OFinish s true]
  | ANone => []
  end.

Fixpoint hist (spe : N) (rs : list A.run) (sch : list nat) (st : A.state) : list B.op :=
  match sch with
  | [] => []
  | i :: sch' => ops_of rs st i ++ hist spe rs sch' (A.step spe rs st i)
  end.

(* C20's ghost clocks, kept along a C01 schedule: the highest slot whose Attest has created its
   epoch's map (g_start), the highest epoch whose housekeeping has run (g_succ) *)
Record mon := { m_start : N; m_succ : N }.
Definition mon0 : mon := {| m_start := 0; m_succ := 0 |}.
Definition mon_step (spe : N) (o : aop) (m : mon) : mon :=
  match o with
  | AStart s => {| m_start := N.max (m_start m) s; m_succ := m_succ m |}
  | AFinish s => {| m_start := m_start m; m_succ := N.max (m_succ m) (B.epoch_of spe s) |}
  | ANone => m
  end.
Fixpoint mon_run (spe : N) (rs : list A.run) (sch : list nat) (st : A.state) (m : mon) : mon :=
  match sch with
  | [] => m
  | i :: sch' => mon_run spe rs sch' (A.step spe rs st i) (mon_step spe (op_of rs st i) m)
  end.

(* C20's condition [starts_ok] on a C01 schedule: the calls of Attest create their epoch's map in
   slot order (the scheduler starts attestation jobs in slot order) *)
Definition mon_ok (o : aop) (m : mon) : bool :=
  match o with AStart s => m_start m <=? s | _ => true end.
Fixpoint in_order (spe : N) (rs : list A.run) (sch : list nat) (st : A.state) (m : mon) : bool :=
  match sch with
  | [] => true
  | i :: sch' =>
      mon_ok (op_of rs st i) m &&
      in_order spe rs sch' (A.step spe rs st i) (mon_step spe (op_of rs st i) m)
  end.

(* "no test-and-mark for epoch e once an attestation of epoch e+2 or later has succeeded" *)
Fixpoint claims_timely (spe : N) (rs : list A.run) (sch : list nat) (st : A.state) (m : mon) : Prop :=
  match sch with
  | [] => True
  | i :: sch' =>
      (forall e, A.claim_epoch spe rs st i = Some e -> m_succ m <= e + 1) /\
      claims_timely spe rs sch' (A.step spe rs st i) (mon_step spe (op_of rs st i) m)
  end.

(* --------------------------------------------------------------------------------------------- *)
(* lists *)
Lemma filter_rev' {X} (f : X -> bool) (l : list X) : filter f (rev l) = rev (filter f l).
Proof.
  induction l as [|x l IH]; cbn; [reflexivity|].
  rewrite filter_app, IH. cbn. destruct (f x); cbn; [reflexivity | apply app_nil_r].
Qed.

Lemma filter_all {X} (f : X -> bool) (l : list X) : (forall x, In x l -> f x = true) -> filter f l = l.
Proof.
  induction l as [|x l IH]; cbn; intro H; [reflexivity|].
  rewrite (H x (or_introl eq_refl)). f_equal. apply IH. intros y Hy. apply H. right. exact Hy.
Qed.

Section Assoc.
  Context {V : Type}.

  Lemma aget_in (m : list (N * V)) k : (exists v, A.aget m k = Some v) <-> In k (map fst m).
  Proof.
    induction m as [|[k0 v0] m IH]; cbn.
    - split; [intros [v H]; discriminate | tauto].
    - destruct (k0 =? k) eqn:E.
      + apply N.eqb_eq in E. split; [auto | intros _; eexists; reflexivity].
      + apply N.eqb_neq in E. rewrite IH. split; [auto | intros [H|H]; [contradiction | exact H]].
  Qed.

  Lemma aget_none (m : list (N * V)) k : A.aget m k = None <-> ~ In k (map fst m).
  Proof.
    rewrite <- aget_in. destruct (A.aget m k) as [v|]; split; intro H.
    - discriminate.
    - exfalso. apply H. eexists; reflexivity.
    - intros [v Hv]. discriminate.
    - reflexivity.
  Qed.

  Lemma keys_aset_some (m : list (N * V)) k v w : A.aget m k = Some w -> map fst (A.aset m k v) = map fst m.
  Proof.
    induction m as [|[k0 v0] m IH]; cbn; [discriminate|].
    destruct (k0 =? k) eqn:E; cbn.
    - apply N.eqb_eq in E. subst. reflexivity.
    - intro H. f_equal. apply IH, H.
  Qed.

  Lemma keys_aset_none (m : list (N * V)) k v : A.aget m k = None -> map fst (A.aset m k v) = map fst m ++ [k].
  Proof.
    induction m as [|[k0 v0] m IH]; cbn; [reflexivity|].
    destruct (k0 =? k) eqn:E; cbn; [discriminate|].
    intro H. f_equal. apply IH, H.
  Qed.

  Lemma keys_adel_below (m : list (N * V)) lo :
    map fst (A.adel_below m lo) = filter (fun k => negb (k <? lo)) (map fst m).
  Proof.
    unfold A.adel_below. induction m as [|[k0 v0] m IH]; cbn; [reflexivity|].
    destruct (k0 <? lo); cbn; [exact IH | f_equal; exact IH].
  Qed.

  Lemma keys_below_spec (m : list (N * V)) lo k : In k (A.keys_below m lo) <-> In k (map fst m) /\ k < lo.
  Proof.
    unfold A.keys_below. induction m as [|[k0 v0] m IH]; cbn; [tauto|].
    destruct (k0 <? lo) eqn:E; cbn; rewrite IH.
    - apply N.ltb_lt in E. split; [intros [->|[H1 H2]]; auto | intros [[->|H1] H2]; auto].
    - apply N.ltb_ge in E. split; [intros [H1 H2]; auto | intros [[->|H1] H2]; [lia | auto]].
  Qed.
End Assoc.

Lemma mem_rev_keys {V} (m : list (N * V)) k :
  B.mem k (rev (map fst m)) = match A.aget m k with Some _ => true | None => false end.
Proof.
  destruct (A.aget m k) as [v|] eqn:E.
  - apply BP.mem_In. rewrite <- in_rev. apply aget_in. eexists; exact E.
  - apply BP.mem_false. intro H. rewrite <- in_rev in H. apply aget_none in E. exact (E H).
Qed.

(* housekeepAttestedMap in the two models: the same filter *)
Lemma keep_ge_is_adel_below lo l : B.keep_ge lo l = filter (fun k => negb (k <? lo)) l.
Proof.
  unfold B.keep_ge. apply filter_ext. intro k.
  destruct (N.leb_spec lo k), (N.ltb_spec k lo); cbn; try reflexivity; lia.
Qed.

(* --------------------------------------------------------------------------------------------- *)
(* what [B.housekeep] keeps and drops (the code as it is, and the tree before the C20 repair) *)
Lemma housekeep_kept e l k :
  In k (B.housekeep true e l) <-> In k l /\ (e <= 1 \/ e <= k + 1).
Proof.
  unfold B.housekeep. destruct (N.ltb_spec 1 e) as [H|H].
  - unfold B.keep_ge. rewrite filter_In. split; intros [H1 H2]; (split; [exact H1|]); lia.
  - split; [intro H1; split; [exact H1 | left; lia] | tauto].
Qed.

Lemma housekeep_dropped e l k :
  In k l -> ~ In k (B.housekeep true e l) -> 1 < e /\ k + 1 < e.
Proof.
  intros Hin Hn. rewrite housekeep_kept in Hn.
  assert (~ (e <= 1 \/ e <= k + 1)) by tauto. lia.
Qed.

Lemma housekeep_tree_kept e l k :
  In k (B.housekeep false e l) <-> In k l /\ (e <= 1 \/ k <> e - 2).
Proof.
  unfold B.housekeep. destruct (N.ltb_spec 1 e) as [H|H].
  - rewrite BP.In_rem. split; intros [H1 H2]; (split; [exact H1|]); [right; exact H2 | lia].
  - split; [intro H1; split; [exact H1 | left; lia] | tauto].
Qed.

Lemma housekeep_incl fx e l k : In k (B.housekeep fx e l) -> In k l.
Proof. destruct fx; [rewrite housekeep_kept | rewrite housekeep_tree_kept]; tauto. Qed.

(* --------------------------------------------------------------------------------------------- *)
(* C20's [step] does to [attested] what [apply_op] says *)
Lemma c20_start spe (y : B.sys) s :
  B.mem s (B.jobs y) = true ->
  B.attested (B.step spe true y (B.OStart s)) = apply_op spe (AStart s) (B.attested y).
Proof. intro H. cbn [B.step]. rewrite H. reflexivity. Qed.

Lemma c20_finish spe (y : B.sys) s :
  B.mem s (B.running y) = true ->
  B.attested (B.step spe true y (B.OFinish s true)) = apply_op spe (AFinish s) (B.attested y).
Proof. intro H. cbn [B.step]. rewrite H. reflexivity. Qed.

(* the only operations of C20 that touch [attested] are these two *)
Lemma c20_attested_only spe (y : B.sys) o :
  B.attested (B.step spe true y o) =
  match o with
  | B.OStart s => if B.mem s (B.jobs y) then apply_op spe (AStart s) (B.attested y) else B.attested y
  | B.OFinish s true => if B.mem s (B.running y) then apply_op spe (AFinish s) (B.attested y) else B.attested y
  | _ => B.attested y
  end.
Proof.
  destruct o as [cur notcur ds|s|s ok|cur e resched sub_ok|cur e ok|cur s|s ok|s|s]; cbn [B.step].
  - reflexivity.
  - destruct (B.mem s (B.jobs y)); reflexivity.
  - destruct ok; destruct (B.mem s (B.running y)); reflexivity.
  - destruct resched; reflexivity.
  - reflexivity.
  - destruct (s =? cur); reflexivity.
  - destruct ok; reflexivity.
  - reflexivity.
  - reflexivity.
Qed.

(* --------------------------------------------------------------------------------------------- *)
Section Sys.
  Variable spe : N.
  Variable rs : list A.run.

  Notation ep r := (A.epoch_of spe (A.d_slot (A.r_duty r))).

  Definition between (p : A.pc) : bool :=
    match p with A.PEnsure | A.PDone => false | _ => true end.

  Ltac simpl_state :=
    cbn [A.g_att A.g_thr A.g_trace A.g_purged A.g_panic A.set_thr A.set_att A.emit A.purge_below A.panic A.with_pc
         A.t_pc A.t_claimed A.t_data A.t_args] in *.

  (* one step, by the kind of operation it is *)
  Lemma step_none st i :
    op_of rs st i = ANone ->
    map fst (A.g_att (A.step spe rs st i)) = map fst (A.g_att st) /\
    A.g_purged (A.step spe rs st i) = A.g_purged st /\
    (between (A.t_pc (A.g_thr (A.step spe rs st i) i)) = true -> between (A.t_pc (A.g_thr st i)) = true).
  Proof.
    unfold op_of, A.step, A.tstep.
    destruct (A.g_panic st) eqn:Hp; [intros _; repeat split; auto|].
    destruct (nth_error rs i) as [r|] eqn:Hr; [|intros _; repeat split; auto].
    destruct (A.t_pc (A.g_thr st i)) as [|todo| | | | | |] eqn:Hpc; try discriminate; intros _.
    - destruct todo as [|v todo].
      + simpl_state. rewrite Nat.eqb_refl. repeat split; auto.
      + destruct (A.aget (A.g_att st) (ep r)) as [marked|] eqn:Hg.
        * destruct (memb N.eqb v marked); simpl_state; rewrite ?Nat.eqb_refl; repeat split; auto.
          apply (keys_aset_some _ _ _ marked), Hg.
        * simpl_state. rewrite Hpc. repeat split; auto.
    - destruct (A.d_comms (A.r_duty r)); [simpl_state; repeat split; auto|].
      destruct (A.s_fetch (A.r_script r)) as [a|]; [destruct (A.valid_data spe (A.r_duty r) a)|];
        simpl_state; rewrite ?Nat.eqb_refl; repeat split; auto.
    - destruct (A.s_accounts (A.r_script r)); simpl_state; rewrite ?Nat.eqb_refl; repeat split; auto.
    - destruct (A.s_sign (A.r_script r)) as [u|]; [destruct (A.attestations _ _ _ u)|];
        simpl_state; rewrite ?Nat.eqb_refl; repeat split; auto.
    - destruct (A.s_submit (A.r_script r)); simpl_state; rewrite ?Nat.eqb_refl; repeat split; auto.
    - rewrite Hpc. repeat split; auto.
  Qed.

  Lemma step_start st i s :
    op_of rs st i = AStart s ->
    exists r, nth_error rs i = Some r /\ s = A.d_slot (A.r_duty r) /\
      A.g_att (A.step spe rs st i) =
        (match A.aget (A.g_att st) (ep r) with Some _ => A.g_att st | None => A.aset (A.g_att st) (ep r) [] end) /\
      A.g_purged (A.step spe rs st i) = A.g_purged st /\
      between (A.t_pc (A.g_thr (A.step spe rs st i) i)) = true.
  Proof.
    unfold op_of, A.step, A.tstep.
    destruct (A.g_panic st) eqn:Hp; [discriminate|].
    destruct (nth_error rs i) as [r|] eqn:Hr; [|discriminate].
    destruct (A.t_pc (A.g_thr st i)) eqn:Hpc; try discriminate.
    intro H. injection H as <-. exists r. split; [reflexivity|]. split; [reflexivity|].
    destruct (A.aget (A.g_att st) (ep r)); simpl_state; rewrite Nat.eqb_refl; simpl_state;
      (repeat split; [destruct (A.d_vals (A.r_duty r)); reflexivity]).
  Qed.

  Lemma step_finish st i s :
    op_of rs st i = AFinish s ->
    exists r, nth_error rs i = Some r /\ s = A.d_slot (A.r_duty r) /\
      A.t_pc (A.g_thr st i) = A.PHousekeep /\
      A.g_att (A.step spe rs st i) = (if 1 <? ep r then A.adel_below (A.g_att st) (ep r - 1) else A.g_att st) /\
      A.g_purged (A.step spe rs st i) =
        (if 1 <? ep r then A.keys_below (A.g_att st) (ep r - 1) ++ A.g_purged st else A.g_purged st) /\
      A.t_pc (A.g_thr (A.step spe rs st i) i) = A.PDone.
  Proof.
    unfold op_of, A.step, A.tstep.
    destruct (A.g_panic st) eqn:Hp; [discriminate|].
    destruct (nth_error rs i) as [r|] eqn:Hr; [|discriminate].
    destruct (A.t_pc (A.g_thr st i)) eqn:Hpc; try discriminate.
    intro H. injection H as <-. exists r. split; [reflexivity|]. split; [reflexivity|]. split; [reflexivity|].
    destruct (1 <? ep r); simpl_state; rewrite Nat.eqb_refl; repeat split.
  Qed.

  (* (1) every step of every thread is the corresponding C20 operation on the key list *)
  Lemma step_abs st i : keys (A.step spe rs st i) = apply_op spe (op_of rs st i) (keys st).
  Proof.
    unfold keys. destruct (op_of rs st i) as [s|s|] eqn:Eo; cbn [apply_op].
    - destruct (step_start st i s Eo) as (r & Hr & -> & Hatt & _). rewrite Hatt.
      unfold B.ins, B.epoch_of. change (A.d_slot (A.r_duty r) / spe) with (ep r).
      rewrite mem_rev_keys. destruct (A.aget (A.g_att st) (ep r)) eqn:Hg; [reflexivity|].
      rewrite (keys_aset_none _ _ _ Hg), rev_app_distr. reflexivity.
    - destruct (step_finish st i s Eo) as (r & Hr & -> & _ & Hatt & _). rewrite Hatt.
      unfold B.housekeep, B.epoch_of. change (A.d_slot (A.r_duty r) / spe) with (ep r).
      destruct (1 <? ep r); [|reflexivity].
      rewrite keys_adel_below, keep_ge_is_adel_below, filter_rev'. reflexivity.
    - destruct (step_none st i Eo) as (Hk & _). rewrite Hk. reflexivity.
  Qed.

  Fixpoint ops_along (sch : list nat) (st : A.state) : list aop :=
    match sch with
    | [] => []
    | i :: sch' => op_of rs st i :: ops_along sch' (A.step spe rs st i)
    end.

  Lemma exec_abs sch : forall st,
    keys (A.exec spe rs sch st) = fold_left (fun l o => apply_op spe o l) (ops_along sch st) (keys st).
  Proof.
    induction sch as [|i sch IH]; intro st; cbn [A.exec ops_along fold_left]; [reflexivity|].
    rewrite IH, step_abs. reflexivity.
  Qed.

  (* the ghost list of purged epochs is what C20's housekeeping drops *)
  Lemma step_purged st i k :
    In k (A.g_purged (A.step spe rs st i)) <->
    (In k (keys st) /\ ~ In k (keys (A.step spe rs st i))) \/ In k (A.g_purged st).
  Proof.
    assert (Hsame : keys (A.step spe rs st i) = keys st -> A.g_purged (A.step spe rs st i) = A.g_purged st ->
                    In k (A.g_purged (A.step spe rs st i)) <->
                    (In k (keys st) /\ ~ In k (keys (A.step spe rs st i))) \/ In k (A.g_purged st)).
    { intros E1 E2. rewrite E1, E2. tauto. }
    destruct (op_of rs st i) as [s|s|] eqn:Eo.
    - destruct (step_start st i s Eo) as (r & Hr & -> & Hatt & Hp & _).
      rewrite Hp. unfold keys. rewrite Hatt.
      destruct (A.aget (A.g_att st) (ep r)) eqn:Hg; cbv beta iota; [tauto|].
      rewrite <- !in_rev, (keys_aset_none _ _ _ Hg), in_app_iff. tauto.
    - destruct (step_finish st i s Eo) as (r & Hr & -> & _ & Hatt & Hp & _).
      rewrite Hp. unfold keys. rewrite Hatt.
      destruct (1 <? ep r); cbv beta iota; [|tauto].
      rewrite in_app_iff, keys_below_spec, keys_adel_below, <- !in_rev, filter_In.
      destruct (N.ltb_spec k (ep r - 1)); cbn; intuition (try discriminate; try lia).
    - destruct (step_none st i Eo) as (Hk & Hp & _). apply Hsame; [unfold keys; rewrite Hk; reflexivity | exact Hp].
  Qed.

  (* ------------------------------------------------------------------------------------------- *)
  (* (3) everything ever purged lies two or more epochs below an epoch whose housekeeping has run *)
  Lemma purged_below_succ sch : forall st m,
    (forall k, In k (A.g_purged st) -> k + 1 < m_succ m) ->
    forall k, In k (A.g_purged (A.exec spe rs sch st)) -> k + 1 < m_succ (mon_run spe rs sch st m).
  Proof.
    induction sch as [|i sch IH]; intros st m Hinv; cbn [A.exec mon_run]; [exact Hinv|].
    apply IH. intros k Hk. apply step_purged in Hk as [[Hin Hout]|Hk].
    - rewrite step_abs in Hout. destruct (op_of rs st i) as [s|s|]; cbn [apply_op mon_step m_succ] in *.
      + exfalso. apply Hout, BP.In_ins. right. exact Hin.
      + destruct (housekeep_dropped _ _ _ Hin Hout). lia.
      + contradiction.
    - specialize (Hinv k Hk). destruct (op_of rs st i); cbn [mon_step m_succ]; lia.
  Qed.

  Lemma timely_window sch : forall st m,
    (forall k, In k (A.g_purged st) -> k + 1 < m_succ m) ->
    claims_timely spe rs sch st m -> A.window_ok spe rs sch st.
  Proof.
    induction sch as [|i sch IH]; intros st m Hinv Ht; cbn [claims_timely A.window_ok] in *; [exact I|].
    destruct Ht as [Hc Ht]. split.
    - intros e He Hin. specialize (Hc e He). specialize (Hinv e Hin). lia.
    - apply (IH _ _ (purged_below_succ [i] st m Hinv) Ht).
  Qed.

  (* ------------------------------------------------------------------------------------------- *)
  (* the history-level simulation *)
  Lemma run_app fx h1 h2 y : B.run spe fx (h1 ++ h2) y = B.run spe fx h2 (B.run spe fx h1 y).
  Proof. unfold B.run. apply fold_left_app. Qed.

  Lemma guarded_app fx g h1 : forall h2 y,
    B.guarded spe fx g (h1 ++ h2) y = B.guarded spe fx g h1 y && B.guarded spe fx g h2 (B.run spe fx h1 y).
  Proof.
    induction h1 as [|o h1 IH]; intros h2 y; cbn [app B.guarded]; [reflexivity|].
    rewrite IH, andb_assoc. reflexivity.
  Qed.

  Record sim (st : A.state) (y : B.sys) (m : mon) : Prop := {
    sim_keys : B.attested y = keys st;
    sim_start : B.g_start y = m_start m;
    sim_succ : B.g_succ y = m_succ m;
    (* a call that has created its epoch's map and not finished: its slot's job is executing in C20,
       or another call of the same slot has already completed the housekeeping of that epoch *)
    sim_run : forall j r, nth_error rs j = Some r -> between (A.t_pc (A.g_thr st j)) = true ->
                In (A.d_slot (A.r_duty r)) (B.running y) \/ ep r <= B.g_succ y;
    sim_inv : BP.att_inv spe y
  }.

  Lemma sim_init : sim A.init B.init mon0.
  Proof. constructor; try reflexivity; [intros j r _ H; discriminate | apply BP.att_inv_init]. Qed.

  Hypothesis spe_pos : 0 < spe.

  Lemma sim_step st y m i :
    sim st y m -> mon_ok (op_of rs st i) m = true ->
    B.guarded spe true B.starts_ok (ops_of rs st i) y = true /\
    sim (A.step spe rs st i) (B.run spe true (ops_of rs st i) y) (mon_step spe (op_of rs st i) m).
  Proof.
    intros [Hk Hs Hc Hr Hi] Hok. unfold ops_of.
    pose proof (step_abs st i) as Habs.
    destruct (op_of rs st i) as [s|s|] eqn:Eo; cbn [mon_ok mon_step apply_op] in *.
    - (* the call creates its epoch's map: the job of its slot starts *)
      destruct (step_start st i s Eo) as (r & Hri & Es & _ & _ & Hbt).
      set (y1 := B.step spe true y (B.OSched 0 false [s])).
      assert (Hj : B.mem s (B.jobs y1) = true).
      { apply BP.mem_In. subst y1. cbn [B.step B.sched_apply B.jobs B.sched_filter filter].
        replace (s <? 0) with false by (symmetry; apply N.ltb_ge; lia).
        rewrite andb_false_r. cbn [negb andb fold_left]. apply BP.In_ins. left. reflexivity. }
      assert (Hg1 : B.starts_ok y1 (B.OStart s) = true).
      { cbn [B.starts_ok]. subst y1. cbn [B.step B.g_start B.sched_apply]. rewrite Hs. exact Hok. }
      assert (Hi1 : BP.att_inv spe y1) by (apply BP.att_inv_step; [exact spe_pos | exact Hi | reflexivity]).
      split; [cbn [B.guarded]; fold y1; rewrite Hg1; reflexivity|].
      unfold B.run. cbn [fold_left]. fold y1.
      constructor.
      + rewrite (c20_start spe y1 s Hj), Habs. cbn [apply_op]. subst y1. cbn [B.step B.attested B.sched_apply].
        rewrite Hk. reflexivity.
      + cbn [B.step]. rewrite Hj. cbn [B.g_start m_start]. subst y1. cbn [B.step B.g_start B.sched_apply].
        rewrite Hs. reflexivity.
      + cbn [B.step]. rewrite Hj. cbn [B.g_succ m_succ]. subst y1. cbn [B.step B.g_succ B.sched_apply]. exact Hc.
      + intros j r' Hrj Hb. cbn [B.step]. rewrite Hj. cbn [B.running B.g_succ].
        subst y1. cbn [B.step B.running B.g_succ B.sched_apply].
        destruct (Nat.eq_dec j i) as [->|Hne].
        * left. rewrite Hri in Hrj. injection Hrj as <-. apply BP.In_ins. left. symmetry. exact Es.
        * rewrite (AP.step_other spe rs st i j Hne) in Hb.
          destruct (Hr j r' Hrj Hb) as [H|H]; [left; apply BP.In_ins; right; exact H | right; exact H].
      + apply BP.att_inv_step; [exact spe_pos | exact Hi1 | exact Hg1].
    - (* the call's housekeeping: the job of its slot finishes with success *)
      destruct (step_finish st i s Eo) as (r & Hri & Es & Hpc & _ & _ & Hdone).
      split; [reflexivity|].
      unfold B.run. cbn [fold_left].
      assert (Hi1 : BP.att_inv spe (B.step spe true y (B.OFinish s true)))
        by (apply BP.att_inv_step; [exact spe_pos | exact Hi | reflexivity]).
      assert (Hbi : between (A.t_pc (A.g_thr st i)) = true) by (rewrite Hpc; reflexivity).
      destruct (B.mem s (B.running y)) eqn:Em.
      + constructor; [| | | |exact Hi1].
        * rewrite (c20_finish spe y s Em), Habs, Hk. reflexivity.
        * cbn [B.step]. rewrite Em. exact Hs.
        * cbn [B.step]. rewrite Em. cbn [B.g_succ m_succ]. rewrite Hc. reflexivity.
        * intros j r' Hrj Hb. cbn [B.step]. rewrite Em. cbn [B.running B.g_succ].
          destruct (Nat.eq_dec j i) as [->|Hne]; [rewrite Hdone in Hb; discriminate|].
          rewrite (AP.step_other spe rs st i j Hne) in Hb.
          destruct (Hr j r' Hrj Hb) as [H|H]; [|right; lia].
          destruct (N.eq_dec (A.d_slot (A.r_duty r')) s) as [E|E].
          -- right. unfold B.epoch_of. rewrite <- E. unfold A.epoch_of. lia.
          -- left. apply BP.In_rem. split; assumption.
      + (* another call of the same slot has already finished the job in C20: this housekeeping
           finds nothing to delete (all keys are >= g_succ - 1 >= epoch - 1) *)
        assert (Hy : B.step spe true y (B.OFinish s true) = y) by (cbn [B.step]; rewrite Em; reflexivity).
        rewrite Hy.
        assert (Hle : ep r <= B.g_succ y).
        { destruct (Hr i r Hri Hbi) as [H|H]; [|exact H].
          apply BP.mem_In in H. rewrite <- Es, Em in H. discriminate. }
        assert (He : B.epoch_of spe s = ep r) by (rewrite Es; reflexivity).
        constructor; [| | | |exact Hi].
        * rewrite Habs, <- Hk. unfold B.housekeep. destruct (N.ltb_spec 1 (B.epoch_of spe s)) as [H1|H1]; [|reflexivity].
          unfold B.keep_ge. symmetry. apply filter_all. intros k Hin.
          destruct (BP.ai_win spe y Hi k Hin) as [Hlo _]. apply N.leb_le. lia.
        * exact Hs.
        * cbn [m_succ]. rewrite <- Hc. lia.
        * intros j r' Hrj Hb.
          destruct (Nat.eq_dec j i) as [->|Hne]; [rewrite Hdone in Hb; discriminate|].
          rewrite (AP.step_other spe rs st i j Hne) in Hb. exact (Hr j r' Hrj Hb).
    - destruct (step_none st i Eo) as (_ & _ & Hbt).
      split; [reflexivity|]. unfold B.run. cbn [fold_left].
      constructor; try assumption.
      + rewrite Habs. exact Hk.
      + intros j r' Hrj Hb. destruct (Nat.eq_dec j i) as [->|Hne].
        * apply (Hr i r' Hrj), Hbt, Hb.
        * rewrite (AP.step_other spe rs st i j Hne) in Hb. exact (Hr j r' Hrj Hb).
  Qed.

  Lemma sim_exec sch : forall st y m,
    sim st y m -> in_order spe rs sch st m = true ->
    B.guarded spe true B.starts_ok (hist spe rs sch st) y = true /\
    sim (A.exec spe rs sch st) (B.run spe true (hist spe rs sch st) y) (mon_run spe rs sch st m).
  Proof.
    induction sch as [|i sch IH]; intros st y m Hsim Hord; cbn [hist A.exec mon_run in_order] in *.
    - split; [reflexivity | exact Hsim].
    - apply andb_prop in Hord as [Hok Hord].
      destruct (sim_step st y m i Hsim Hok) as [Hg Hsim1].
      destruct (IH _ _ _ Hsim1 Hord) as [Hg2 Hsim2].
      rewrite guarded_app, run_app, Hg, Hg2. split; [reflexivity | exact Hsim2].
  Qed.

  (* (2) C20's window invariant, on C01's model, through C20's theorem *)
  Lemma c01_window sch :
    in_order spe rs sch A.init mon0 = true ->
    let st := A.exec spe rs sch A.init in
    let m := mon_run spe rs sch A.init mon0 in
    NoDup (map fst (A.g_att st)) /\
    (forall k, In k (map fst (A.g_att st)) -> m_succ m <= k + 1 /\ k <= A.epoch_of spe (m_start m)) /\
    N.of_nat (length (A.g_att st)) <= A.epoch_of spe (m_start m) - m_succ m + 2.
  Proof.
    intros Hord st m.
    destruct (sim_exec sch A.init B.init mon0 sim_init Hord) as [Hg [Hk Hs Hc _ _]].
    fold st in Hk. fold m in Hs, Hc.
    destruct (BP.attested_window spe spe_pos (hist spe rs sch A.init) Hg) as (Hnd & Hwin & Hsz).
    rewrite Hk, Hs, Hc in *. unfold keys in *.
    split; [apply NoDup_rev in Hnd; rewrite rev_involutive in Hnd; exact Hnd|].
    split.
    - intros k Hin. apply Hwin. rewrite <- in_rev. exact Hin.
    - unfold B.size in Hsz. rewrite rev_length, map_length in Hsz. exact Hsz.
  Qed.
End Sys.

(* --------------------------------------------------------------------------------------------- *)
(* Witnesses.  Without the order condition neither the bound nor the history-level agreement holds:
   a call of an older epoch that starts after a newer epoch has succeeded leaves its entry behind
   (this is the input class of the known finding C01-stale-epoch-redelivery, seen from C20). *)
Definition x_duty (sl v : N) : A.duty :=
  {| A.d_slot := sl; A.d_vals := [v]; A.d_comms := [0]; A.d_poss := [0]; A.d_sizes := [(0, 4)] |}.
Definition x_run (sl e v : N) : A.run :=
  {| A.r_duty := x_duty sl v;
     A.r_script := {| A.s_fetch := Some {| A.a_slot := sl; A.a_root := 1; A.a_src := e; A.a_src_root := 2; A.a_tgt := e; A.a_tgt_root := 3 |};
                      A.s_accounts := Some [v]; A.s_sign := Some []; A.s_submit := true |} |}.
(* epochs 10, 1, 2, 3 at 4 slots per epoch; the first call runs to its end, then the others start *)
Definition x_runs : list A.run := [x_run 40 10 1; x_run 4 1 1; x_run 8 2 1; x_run 12 3 1].
Definition x_sch : list nat := repeat 0%nat 7 ++ [1; 2; 3]%nat.

(* two calls of the same slot (epoch 5) and one of epoch 1 that starts between their housekeepings *)
Definition d_runs : list A.run := [x_run 20 5 1; x_run 20 5 2; x_run 4 1 1].
Definition d_sch : list nat := [0; 1]%nat ++ repeat 0%nat 6 ++ [2]%nat ++ repeat 1%nat 6.

(* --------------------------------------------------------------------------------------------- *)
(* either variant of the housekeeping (the code as it is / the tree before the C20 repair) drops
   only epochs two or more below the epoch of the attestation that ran it *)
Lemma housekeep_dropped_any fx e l k :
  In k l -> ~ In k (B.housekeep fx e l) -> 1 < e /\ k + 1 < e.
Proof.
  destruct fx; [apply housekeep_dropped|].
  intros Hin Hn. rewrite housekeep_tree_kept in Hn.
  assert (H : ~ (e <= 1 \/ k <> e - 2)) by tauto. lia.
Qed.

Fixpoint claims_timelyb (spe : N) (rs : list A.run) (sch : list nat) (st : A.state) (m : mon) : bool :=
  match sch with
  | [] => true
  | i :: sch' =>
      match A.claim_epoch spe rs st i with Some e => m_succ m <=? e + 1 | None => true end &&
      claims_timelyb spe rs sch' (A.step spe rs st i) (mon_step spe (op_of rs st i) m)
  end.

Lemma claims_timelyb_sound spe rs sch : forall st m,
  claims_timelyb spe rs sch st m = true -> claims_timely spe rs sch st m.
Proof.
  induction sch as [|i sch IH]; intros st m H; cbn [claims_timelyb claims_timely] in *; [exact I|].
  apply andb_prop in H as [H1 H2]. split; [|apply IH, H2].
  intros e He. rewrite He in H1. apply N.leb_le, H1.
Qed.

(* epochs 1, 2 and 4 at 4 slots per epoch, overlapping: the second and third call create their
   epoch's map before either has marked anything *)
Definition y_runs : list A.run := [x_run 4 1 1; x_run 8 2 1; x_run 16 4 1].
Definition y_sch : list nat := repeat 0%nat 7 ++ [1; 2]%nat ++ repeat 1%nat 6 ++ repeat 2%nat 6.

(* --------------------------------------------------------------------------------------------- *)
(* Calls of pairwise different slots (what the controller produces: one attestation job per slot):
   the history-level agreement needs no condition on the schedule at all. *)
Section Distinct.
  Variable spe : N.
  Variable rs : list A.run.
  Hypothesis slots_distinct : NoDup (map (fun r => A.d_slot (A.r_duty r)) rs).

  Lemma slot_inj i j r r' :
    nth_error rs i = Some r -> nth_error rs j = Some r' -> A.d_slot (A.r_duty r) = A.d_slot (A.r_duty r') -> i = j.
  Proof.
    intros Hi Hj E.
    apply (proj1 (NoDup_nth_error _) slots_distinct).
    - rewrite map_length. apply nth_error_Some. rewrite Hi. discriminate.
    - rewrite (map_nth_error _ _ _ Hi), (map_nth_error _ _ _ Hj), E. reflexivity.
  Qed.

  Record dsim (st : A.state) (y : B.sys) : Prop := {
    ds_keys : B.attested y = keys st;
    ds_run : forall j r, nth_error rs j = Some r -> between (A.t_pc (A.g_thr st j)) = true ->
               In (A.d_slot (A.r_duty r)) (B.running y)
  }.

  Lemma dsim_step st y i :
    dsim st y -> dsim (A.step spe rs st i) (B.run spe true (ops_of rs st i) y).
  Proof.
    intros [Hk Hr]. unfold ops_of.
    pose proof (step_abs spe rs st i) as Habs.
    destruct (op_of rs st i) as [s|s|] eqn:Eo; cbn [apply_op] in *; unfold B.run; cbn [fold_left].
    - destruct (step_start spe rs st i s Eo) as (r & Hri & Es & _ & _ & Hbt).
      set (y1 := B.step spe true y (B.OSched 0 false [s])).
      assert (Hj : B.mem s (B.jobs y1) = true).
      { apply BP.mem_In. subst y1. cbn [B.step B.sched_apply B.jobs B.sched_filter filter].
        replace (s <? 0) with false by (symmetry; apply N.ltb_ge; lia).
        rewrite andb_false_r. cbn [negb andb fold_left]. apply BP.In_ins. left. reflexivity. }
      constructor.
      + rewrite (c20_start spe y1 s Hj), Habs. cbn [apply_op]. subst y1. cbn [B.step B.attested B.sched_apply].
        rewrite Hk. reflexivity.
      + intros j r' Hrj Hb. cbn [B.step]. rewrite Hj. cbn [B.running].
        subst y1. cbn [B.step B.running B.sched_apply]. apply BP.In_ins.
        destruct (Nat.eq_dec j i) as [->|Hne].
        * left. rewrite Hri in Hrj. injection Hrj as <-. symmetry. exact Es.
        * rewrite (AP.step_other spe rs st i j Hne) in Hb. right. exact (Hr j r' Hrj Hb).
    - destruct (step_finish spe rs st i s Eo) as (r & Hri & Es & Hpc & _ & _ & Hdone).
      assert (Em : B.mem s (B.running y) = true).
      { apply BP.mem_In. rewrite Es. apply (Hr i r Hri). rewrite Hpc. reflexivity. }
      constructor.
      + rewrite (c20_finish spe y s Em), Habs, Hk. reflexivity.
      + intros j r' Hrj Hb. cbn [B.step]. rewrite Em. cbn [B.running].
        destruct (Nat.eq_dec j i) as [->|Hne]; [rewrite Hdone in Hb; discriminate|].
        rewrite (AP.step_other spe rs st i j Hne) in Hb.
        apply BP.In_rem. split; [exact (Hr j r' Hrj Hb)|].
        intro E. apply Hne. apply (slot_inj j i r' r Hrj Hri). rewrite E, Es. reflexivity.
    - destruct (step_none spe rs st i Eo) as (_ & _ & Hbt).
      constructor; [rewrite Habs; exact Hk|].
      intros j r' Hrj Hb. destruct (Nat.eq_dec j i) as [->|Hne].
      + apply (Hr i r' Hrj), Hbt, Hb.
      + rewrite (AP.step_other spe rs st i j Hne) in Hb. exact (Hr j r' Hrj Hb).
  Qed.

  Lemma dsim_exec sch : forall st y,
    dsim st y -> dsim (A.exec spe rs sch st) (B.run spe true (hist spe rs sch st) y).
  Proof.
    induction sch as [|i sch IH]; intros st y H; cbn [hist A.exec]; [exact H|].
    rewrite run_app. apply IH, dsim_step, H.
  Qed.

  Lemma distinct_history sch :
    B.attested (B.run spe true (hist spe rs sch A.init) B.init) = keys (A.exec spe rs sch A.init).
  Proof.
    apply (dsim_exec sch A.init B.init). constructor; [reflexivity|]. intros j r _ H. discriminate.
  Qed.
End Distinct.
