(* C15 <-> C03: two hand-written models of one Go function.

   scheduleSyncCommitteeMessages and firstEpochOfSyncPeriod
   (services/controller/standard/synccommitteemessenger.go) are modelled twice:
     - Model/C15_Sync.v: [first_epoch_of_period], [window_of], [range], [window_slots], [schedule]
       (C15 goes on to what the prepare / message / aggregation jobs of a slot do);
     - Model/C03_Controller.v: [feosp], [sync_window], [slot_range], [sched_sync]
       (C03 goes on to when the controller calls it: start-up, epoch tick, reorganisations).
   This file shows that the two are the same function of the same inputs, names the relation between
   the two parameter records and the two environments, and carries theorems of one property over to
   the model of the other.  Nothing here unfolds a proof of C15 or C03: their lemmas are used as
   stated.

   C03's names are used qualified (C3., S3., CT.); C15's are imported. *)
From Coq Require Import List NArith ZArith Bool Lia Permutation.
From Coq Require Import ZifyBool ZifyN ZifyNat.
From Verif Require Import Lib.Base Model.C15_Sync Proofs.C15 Proofs.C15_Fire.
From Verif Require Model.C03_ChainTime Model.C03_Controller Model.C03_Spec.
From Verif Require Proofs.C03_Table Proofs.C03_Sched Proofs.C03_Hist Proofs.C03_More Proofs.C03_SyncStart.
Import ListNotations.
Local Open Scope N_scope.

Module CT := Verif.Model.C03_ChainTime.
Module C3 := Verif.Model.C03_Controller.
Module S3 := Verif.Model.C03_Spec.
Module T3 := Verif.Proofs.C03_Table.
Module SS3 := Verif.Proofs.C03_SyncStart.
Module P3 := Verif.Proofs.C03_Sched.
Module H3 := Verif.Proofs.C03_Hist.
Module M3 := Verif.Proofs.C03_More.

(* ============================================================================================ *)
(* 0. The relation between the parameters.                                                      *)

(* C15's [params] against C03's [config] and the Altair fork epoch the service holds (in C03 the
   fork epoch is a component of the state, [st_altair_epoch], and an argument of [sched_sync]):
   slots per epoch, epochs per sync committee period, fork epoch.  The current slot and the epoch
   argument are arguments of both models; BOTH compute the current epoch from the current slot
   ([epoch_of_slot p cur] = [C3.cur_epoch c cur] = cur / slots per epoch). *)
Record params_match (p : params) (c : C3.config) (ae : N) : Prop := {
  pm_spe : spe p = CT.ct_spe (C3.c_ct c);
  pm_epp : epp p = C3.c_period c;
  pm_fork : fork p = ae
}.

(* the two directions of the relation are total: every C03 configuration has a C15 parameter
   record and conversely (the remaining fields are free) *)
Definition params_of_config (c : C3.config) (ae : N) (md ad : Z) (cs sn tg : N) : params :=
  {| spe := CT.ct_spe (C3.c_ct c); epp := C3.c_period c; fork := ae;
     slot_ns := CT.ct_dur (C3.c_ct c); msg_delay := md; agg_delay := ad;
     csize := cs; subnets := sn; target := tg |}.

Definition config_of_params (p : params) (genesis att_delay prop_delay : Z) (ft : bool)
           (spec_altair : option N) (have_agg : bool) : C3.config :=
  {| C3.c_ct := {| CT.ct_genesis := genesis; CT.ct_dur := slot_ns p; CT.ct_spe := spe p |};
     C3.c_att_delay := att_delay; C3.c_prop_delay := prop_delay; C3.c_ft_att := ft;
     C3.c_period := epp p; C3.c_spec_altair := spec_altair; C3.c_have_agg := have_agg |}.

Lemma params_of_config_match : forall c ae md ad cs sn tg,
  params_match (params_of_config c ae md ad cs sn tg) c ae.
Proof. intros. split; reflexivity. Qed.

Lemma config_of_params_match : forall p g a b ft sa ha,
  params_match p (config_of_params p g a b ft sa ha) (fork p).
Proof. intros. split; reflexivity. Qed.

(* ============================================================================================ *)
(* 1. firstEpochOfSyncPeriod.                                                                   *)

Lemma first_epoch_agrees : forall p c ae period,
  params_match p c ae -> first_epoch_of_period p period = C3.feosp c ae period.
Proof.
  intros p c ae period [Hs He Hf]. unfold first_epoch_of_period, C3.feosp. rewrite He, Hf. reflexivity.
Qed.

(* ============================================================================================ *)
(* 2. The slot window: first epoch, first slot, last slot -- on the wrapped arithmetic, for ALL  *)
(*    values of the parameters, the epoch argument and the clock (no range condition).           *)

Lemma window_agrees : forall p c ae epoch cur,
  params_match p c ae ->
  C3.sync_window c ae cur epoch =
    (w_first_epoch (window_of true p epoch cur), w_first (window_of true p epoch cur),
     w_last (window_of true p epoch cur)).
Proof.
  intros p c ae epoch cur [Hs He Hf].
  unfold C3.sync_window, window_of, C3.cur_epoch, epoch_of_slot, first_slot_of_epoch,
    CT.first_slot_of_epoch, first_epoch_of_period, C3.feosp.
  cbn [w_first_epoch w_first w_last]. rewrite Hs, He, Hf. reflexivity.
Qed.

(* the fourth component of C15's window (the subscription's until epoch, lastEpoch + 1) has no
   counterpart in C03, which does not model the subscription; it is C03's last-epoch expression *)
Lemma until_is_C03_last_epoch_plus_1 : forall p c ae epoch cur,
  params_match p c ae ->
  w_until (window_of true p epoch cur) =
    add64 (sub64 (C3.feosp c ae (add64 (epoch / C3.c_period c) 1)) 1) 1.
Proof.
  intros p c ae epoch cur [Hs He Hf]. unfold window_of. cbn [w_until].
  unfold first_epoch_of_period, C3.feosp. rewrite He, Hf. reflexivity.
Qed.

(* the loop "for slot := firstSlot; slot <= lastSlot; slot++" *)
Lemma range_agrees : forall lo hi, range lo hi = C3.slot_range lo hi.
Proof. reflexivity. Qed.

(* C03's membership predicate of the window is C15's *)
Lemma in_sync_window_agrees : forall p c ae epoch cur s,
  params_match p c ae ->
  (SS3.in_sync_window c ae cur epoch s <->
   w_first (window_of true p epoch cur) <= s <= w_last (window_of true p epoch cur)).
Proof.
  intros p c ae epoch cur s Hm. unfold SS3.in_sync_window.
  rewrite (window_agrees p c ae epoch cur Hm). reflexivity.
Qed.

(* ============================================================================================ *)
(* 3. The jobs.                                                                                 *)

Lemma texists_snoc : forall t j n,
  C3.texists (t ++ [j]) n = C3.texists t n || C3.jname_eqb (C3.j_name j) n.
Proof.
  intros t j n. unfold C3.texists. induction t as [|k t IH]; cbn.
  - destruct (C3.jname_eqb (C3.j_name j) n); reflexivity.
  - destruct (C3.jname_eqb (C3.j_name k) n); [reflexivity | exact IH].
Qed.

Lemma texists_tsched : forall t j n,
  C3.texists (C3.tsched t j) n = C3.texists t n || C3.jname_eqb (C3.j_name j) n.
Proof.
  intros t j n. unfold C3.tsched. destruct (C3.texists t (C3.j_name j)) eqn:E.
  - destruct (C3.jname_eqb (C3.j_name j) n) eqn:En; [|rewrite orb_false_r; reflexivity].
    apply T3.jname_eqb_spec in En. subst n. rewrite E. reflexivity.
  - apply texists_snoc.
Qed.

Lemma texists_names : forall t n, C3.texists t n = true <-> In n (map C3.j_name t).
Proof.
  intros t n. rewrite T3.texists_tget. pose proof (T3.tget_none t n) as H.
  destruct (C3.tget t n); split; intro G; try congruence.
  - destruct (in_dec T3.jname_eq_dec n (map C3.j_name t)) as [Hi|Hn]; [exact Hi|].
    apply H in Hn. discriminate.
  - intros _. exact (proj1 H eq_refl G).
Qed.

Section Fold.
  Variable g : N -> bool.               (* the slots the loop skips *)
  Variable mk : N -> C3.job.
  Hypothesis mk_name : forall s, C3.j_name (mk s) = C3.JSync s.

  Let stepf := fun (t : C3.table) (s : N) => if g s then t else C3.tsched t (mk s).

  (* which names are listed after the loop, on any table *)
  Lemma fold_texists : forall l t n,
    C3.texists (fold_left stepf l t) n =
    C3.texists t n || existsb (fun s => negb (g s) && C3.jname_eqb (C3.JSync s) n) l.
  Proof.
    induction l as [|x l IH]; intros t n; cbn [fold_left existsb].
    - rewrite orb_false_r. reflexivity.
    - rewrite IH. change (stepf t x) with (if g x then t else C3.tsched t (mk x)). destruct (g x); cbn [negb andb orb]; [reflexivity|].
      rewrite texists_tsched, mk_name, orb_assoc. reflexivity.
  Qed.

  (* the table after the loop on a table that lists none of the slots: the old jobs, then one job
     per slot not skipped, in loop order *)
  Lemma fold_table : forall l t,
    NoDup l -> (forall s, In s l -> C3.texists t (C3.JSync s) = false) ->
    fold_left stepf l t = t ++ map mk (filter (fun s => negb (g s)) l).
  Proof.
    induction l as [|x l IH]; intros t Hnd Hfree; cbn [fold_left filter map].
    - rewrite app_nil_r. reflexivity.
    - inversion Hnd as [|? ? Hx Hl]; subst.
      change (stepf t x) with (if g x then t else C3.tsched t (mk x)). destruct (g x); cbn [negb].
      + apply IH; [exact Hl|]. intros s Hs. apply Hfree. right. exact Hs.
      + unfold C3.tsched. rewrite mk_name, (Hfree x (or_introl eq_refl)).
        rewrite IH; [cbn [map]; rewrite <- app_assoc; reflexivity | exact Hl |].
        intros s Hs. rewrite texists_snoc, mk_name, (Hfree s (or_intror Hs)). cbn [orb C3.jname_eqb].
        apply N.eqb_neq. intro Heq. subst s. contradiction.
  Qed.
End Fold.

(* ---- C03's [sched_sync] in terms of C15's [window_slots] ------------------------------------ *)

(* the whole table that one call builds from nothing: exactly one job per slot of C15's slot list,
   in the same order, named after the slot, with C03's time and payload *)
Lemma sched_sync_table : forall p c ae cur e epoch notcur,
  params_match p c ae ->
  C3.sched_sync c ae cur e epoch notcur [] =
    if S3.sync_active c ae cur e epoch
    then map (S3.sync_job c (C3.alookup (C3.e_sync e)
                               (w_first_epoch (window_of true p epoch cur) / C3.c_period c)))
             (window_slots true p epoch cur notcur)
    else [].
Proof.
  intros p c ae cur e epoch notcur Hm.
  unfold C3.sched_sync, S3.sync_active. rewrite (window_agrees p c ae epoch cur Hm).
  destruct (C3.e_vals e); cbn [negb andb]; [|reflexivity].
  destruct (C3.cur_epoch c cur <? ae); cbn [negb andb]; [reflexivity|].
  destruct (C3.alookup (C3.e_sync e) (w_first_epoch (window_of true p epoch cur) / C3.c_period c))
    as [|v vs] eqn:Ev; cbn [negb]; [reflexivity|].
  rewrite (fold_table (fun s => (s =? cur) && notcur) (S3.sync_job c (v :: vs)));
    [reflexivity | reflexivity | rewrite <- range_agrees; apply range_NoDup | reflexivity].
Qed.

Lemma sched_sync_names : forall p c ae cur e epoch notcur,
  params_match p c ae ->
  map C3.j_name (C3.sched_sync c ae cur e epoch notcur []) =
    if S3.sync_active c ae cur e epoch
    then map C3.JSync (window_slots true p epoch cur notcur) else [].
Proof.
  intros p c ae cur e epoch notcur Hm. rewrite (sched_sync_table p c ae cur e epoch notcur Hm).
  destruct (S3.sync_active c ae cur e epoch); [|reflexivity].
  rewrite map_map. reflexivity.
Qed.

(* on any table: the sync job of slot s is listed afterwards iff it was before or the call is
   active and s is one of C15's slots *)
Lemma sched_sync_texists : forall p c ae cur e epoch notcur t s,
  params_match p c ae ->
  C3.texists (C3.sched_sync c ae cur e epoch notcur t) (C3.JSync s) =
    C3.texists t (C3.JSync s)
    || (S3.sync_active c ae cur e epoch && memN s (window_slots true p epoch cur notcur)).
Proof.
  intros p c ae cur e epoch notcur t s Hm.
  unfold C3.sched_sync, S3.sync_active. rewrite (window_agrees p c ae epoch cur Hm).
  destruct (C3.e_vals e); cbn [negb andb]; [|rewrite orb_false_r; reflexivity].
  destruct (C3.cur_epoch c cur <? ae); cbn [negb andb]; [rewrite orb_false_r; reflexivity|].
  destruct (C3.alookup (C3.e_sync e) (w_first_epoch (window_of true p epoch cur) / C3.c_period c))
    as [|v vs] eqn:Ev; cbn [negb]; [rewrite orb_false_r; reflexivity|].
  rewrite (fold_texists (fun s => (s =? cur) && notcur) (S3.sync_job c (v :: vs))) by reflexivity.
  f_equal. unfold window_slots, memN, memb. rewrite <- range_agrees.
  induction (range (w_first (window_of true p epoch cur)) (w_last (window_of true p epoch cur)))
    as [|x l IH]; cbn [existsb filter]; [reflexivity|].
  rewrite IH. cbn [C3.jname_eqb].
  destruct (negb ((x =? cur) && notcur)); cbn [andb orb existsb]; [|reflexivity].
  rewrite (N.eqb_sym x s). reflexivity.
Qed.

(* ---- the two environments ------------------------------------------------------------------- *)

(* C15's input of one call against C03's environment.  C03 reads "the account manager reports at
   least one validating account" ([e_vals]) where C15 has the list of validator indices handed to the
   call; C03 keys the node's answer by the sync period of the epoch asked for and keeps the validators
   only, C15 has the answer to the one request of the call, with the committee positions. *)
Definition duty_validators (i : sched_in) : list N :=
  match si_duties i with Some ds => map fst ds | None => [] end.

Definition env_match (p : params) (i : sched_in) (e : C3.env) : Prop :=
  (C3.e_vals e = true <-> si_indices i <> []) /\
  C3.alookup (C3.e_sync e) (w_first_epoch (window_of true p (si_epoch i) (si_cur i)) / epp p)
  = duty_validators i.

Definition env_of_input (p : params) (i : sched_in) : C3.env :=
  {| C3.e_att := []; C3.e_prop := [];
     C3.e_sync := [(w_first_epoch (window_of true p (si_epoch i) (si_cur i)) / epp p, duty_validators i)];
     C3.e_vals := match si_indices i with [] => false | _ => true end |}.

Lemma env_of_input_match : forall p i, env_match p i (env_of_input p i).
Proof.
  intros p i. split.
  - cbn. destruct (si_indices i); split; congruence.
  - cbn. rewrite N.eqb_refl. reflexivity.
Qed.

Lemma duty_validators_nonempty : forall i,
  (exists d ds, si_duties i = Some (d :: ds)) <-> duty_validators i <> [].
Proof.
  intros i. unfold duty_validators. destruct (si_duties i) as [[|d ds]|]; cbn; split.
  - intros (d & ds & H). discriminate.
  - intros H. exfalso. apply H. reflexivity.
  - intros _. discriminate.
  - intros _. exists d, ds. reflexivity.
  - intros (d & ds & H). discriminate.
  - intros H. exfalso. apply H. reflexivity.
Qed.

(* C15's "the call reaches the loop" is C03's "the scheduling happens at all" -- except for the
   account manager's error, which C03 does not model: hence [si_accts i <> None] *)
Lemma ready_iff_active : forall p c ae i e,
  params_match p c ae -> env_match p i e -> si_accts i <> None ->
  (ready p i <-> S3.sync_active c ae (si_cur i) e (si_epoch i) = true).
Proof.
  intros p c ae i e Hm [Hv Hd] Ha. pose proof Hm as [Hs He Hf].
  unfold S3.sync_active. rewrite (window_agrees p c ae _ _ Hm).
  rewrite He in Hd. unfold ready. rewrite duty_validators_nonempty, <- Hd, <- Hv.
  unfold epoch_of_slot, C3.cur_epoch. rewrite Hs, Hf.
  destruct (C3.e_vals e); cbn [andb].
  2:{ split; [intros (H & _); discriminate | discriminate]. }
  destruct (N.ltb_spec (si_cur i / CT.ct_spe (C3.c_ct c)) ae) as [Hlt|Hge]; cbn [negb andb].
  { split; [intros (_ & H & _); lia | discriminate]. }
  destruct (C3.alookup _ _) as [|v vs]; cbn [negb].
  - split; [intros (_ & _ & H & _); congruence | discriminate].
  - split; [reflexivity|]. intros _. repeat split; try assumption; discriminate.
Qed.

(* the name C03 gives to a job of C15's table *)
Definition sync_name (j : job) : C3.jname := C3.JSync (snd (fst j)).

(* (3) the job names: the list of slots for which C15's [schedule] makes prepare jobs is the list
   of JSync names [sched_sync] adds to an empty table -- same slots, same order, notCurrentSlot
   included *)
Lemma schedule_names_agree : forall p c ae i e,
  params_match p c ae -> env_match p i e -> si_accts i <> None ->
  map sync_name (so_jobs (schedule p i)) =
  map C3.j_name (C3.sched_sync c ae (si_cur i) e (si_epoch i) (si_notcur i) []).
Proof.
  intros p c ae i e Hm He Ha. rewrite (sched_sync_names p c ae _ e _ _ Hm).
  pose proof (ready_iff_active p c ae i e Hm He Ha) as Hra.
  destruct (S3.sync_active c ae (si_cur i) e (si_epoch i)).
  - destruct (schedule_ready p i (proj2 Hra eq_refl)) as (Hj & _). rewrite Hj, map_map. reflexivity.
  - assert (Hn : ~ ready p i) by (intro H; apply Hra in H; discriminate).
    destruct (schedule_not_ready p i Hn) as (Hj & _). rewrite Hj. reflexivity.
Qed.

(* every job of C15's table is a prepare job (so [sync_name] loses nothing but the time) *)
Lemma schedule_jobs_are_prepare : forall p i j,
  In j (so_jobs (schedule p i)) -> fst (fst j) = JPrepare /\ snd j = prepare_time p (snd (fst j)).
Proof.
  intros p i j Hin. destruct (ready_dec p i) as [Hy|Hn].
  - destruct (schedule_ready p i Hy) as (Hj & _). rewrite Hj in Hin.
    apply in_map_iff in Hin. destruct Hin as (s & <- & _). split; reflexivity.
  - destruct (schedule_not_ready p i Hn) as (Hj & _). rewrite Hj in Hin. destruct Hin.
Qed.

(* C15's test "the schedule holds the prepare job of slot s" is C03's JobExists *)
Lemma has_prepare_is_texists : forall p c ae i e s,
  params_match p c ae -> env_match p i e -> si_accts i <> None ->
  has_prepare (so_jobs (schedule p i)) s =
  C3.texists (C3.sched_sync c ae (si_cur i) e (si_epoch i) (si_notcur i) []) (C3.JSync s).
Proof.
  intros p c ae i e s Hm He Ha. apply Bool.eq_iff_eq_true.
  rewrite texists_names, <- (schedule_names_agree p c ae i e Hm He Ha).
  unfold has_prepare. rewrite existsb_exists, in_map_iff. split.
  - intros (j & Hj & Hk). apply andb_true_iff in Hk. destruct Hk as [_ Hs]. apply N.eqb_eq in Hs.
    exists j. split; [unfold sync_name; rewrite Hs; reflexivity | exact Hj].
  - intros (j & Hn & Hj). exists j. split; [exact Hj|].
    destruct (schedule_jobs_are_prepare p i j Hj) as [Hk _]. rewrite Hk.
    unfold sync_name in Hn. injection Hn as ->. rewrite !N.eqb_refl. reflexivity.
Qed.

(* The hypothesis [si_accts i <> None] cannot be dropped: when the account manager fails, the code
   returns before the loop (C15's model: no job), while C03's model, which has no such input, goes on. *)
Lemma accounts_error_only_in_C15 :
  exists p c ae i e,
    params_match p c ae /\ env_match p i e /\ si_accts i = None /\
    so_jobs (schedule p i) = [] /\
    C3.sched_sync c ae (si_cur i) e (si_epoch i) (si_notcur i) [] <> [].
Proof.
  set (p := {| spe := 2; epp := 2; fork := 0; slot_ns := 12; msg_delay := 4; agg_delay := 8;
               csize := 4; subnets := 2; target := 1 |}).
  set (i := {| si_epoch := 0; si_cur := 0; si_notcur := false; si_indices := [7];
               si_duties := Some [(7, [0])]; si_accts := None |}).
  exists p, (config_of_params p 0 0 0 false None false), 0, i, (env_of_input p i).
  split; [apply (config_of_params_match p)|]. split; [apply env_of_input_match|].
  split; [reflexivity|]. split; [reflexivity|]. vm_compute. discriminate.
Qed.

(* ============================================================================================ *)
(* 4. Job times.  C03 models chaintime's StartOfSlot statement by statement (genesis plus an      *)
(*    int64 product that wraps); C15 counts exact nanoseconds after genesis.  They agree as long  *)
(*    as the slot's start fits a time.Duration.                                                   *)

Lemma to_i64_small : forall x, (0 <= x < CT.two63z)%Z -> CT.to_i64 x = x.
Proof.
  intros x H. unfold CT.to_i64. cbv zeta.
  rewrite Z.mod_small by (unfold CT.two64z, CT.two63z in *; lia).
  destruct (Z.ltb_spec x CT.two63z); lia.
Qed.

Lemma job_time_agrees : forall p c s,
  slot_ns p = CT.ct_dur (C3.c_ct c) -> (0 < CT.ct_dur (C3.c_ct c))%Z ->
  (Z.of_N s * CT.ct_dur (C3.c_ct c) < CT.two63z)%Z ->
  C3.sync_time c s = (CT.ct_genesis (C3.c_ct c) + prepare_time p s)%Z.
Proof.
  intros p c s Hd Hpos Hfit. unfold C3.sync_time, CT.start_of_slot, prepare_time, start_of_slot.
  rewrite Hd. rewrite (to_i64_small (Z.of_N s)) by nia.
  rewrite to_i64_small by nia. lia.
Qed.

(* beyond that they differ, and it is C03 that follows the code (Go's Duration product wraps):
   12 s slots, slot 768614337 is the first whose start exceeds 2^63 ns (about 292 years) *)
Lemma job_times_differ_beyond_int64 :
  exists p c s, slot_ns p = CT.ct_dur (C3.c_ct c) /\ (0 < CT.ct_dur (C3.c_ct c))%Z /\
    C3.sync_time c s <> (CT.ct_genesis (C3.c_ct c) + prepare_time p s)%Z.
Proof.
  set (p := {| spe := 32; epp := 256; fork := 0; slot_ns := 12000000000; msg_delay := 4000000000;
               agg_delay := 8000000000; csize := 512; subnets := 4; target := 16 |}).
  exists p, (config_of_params p 0 0 0 false None false), 768614337.
  split; [reflexivity|]. split; [reflexivity|]. vm_compute. discriminate.
Qed.

(* ============================================================================================ *)
(* 5. Job payloads: the validators C03 attaches to a sync job are the members C15's chain works  *)
(*    with (the keys of messageIndices), in the same (ascending) order.                           *)

Lemma map_fst_insert : forall (x : duty) (l : list duty),
  map fst (insert_by fst x l) = insert_by (fun v : N => v) (fst x) (map fst l).
Proof.
  intros x l. induction l as [|y l IH]; cbn; [reflexivity|].
  destruct (fst x <=? fst y); cbn; [reflexivity | rewrite IH; reflexivity].
Qed.

Lemma map_fst_sort : forall l : list duty,
  map fst (sort_by fst l) = sort_by (fun v : N => v) (map fst l).
Proof.
  induction l as [|x l IH]; cbn; [reflexivity|].
  unfold sort_by in *. cbn. rewrite map_fst_insert, IH. reflexivity.
Qed.

Lemma sorted_nodup_unique : forall l1 l2 : list N,
  T3.sorted_by (fun v => v) l1 -> T3.sorted_by (fun v => v) l2 -> NoDup l1 -> NoDup l2 ->
  (forall x, In x l1 <-> In x l2) -> l1 = l2.
Proof.
  induction l1 as [|a l1 IH]; intros [|b l2] S1 S2 N1 N2 Hin.
  - reflexivity.
  - exfalso. apply (Hin b). left. reflexivity.
  - exfalso. apply (Hin a). left. reflexivity.
  - cbn in S1, S2. destruct S1 as [Ha S1]. destruct S2 as [Hb S2].
    inversion N1 as [|? ? Na N1']; subst. inversion N2 as [|? ? Nb N2']; subst.
    assert (Hab : a = b).
    { destruct (proj1 (Hin a) (or_introl eq_refl)) as [E|Hi]; [congruence|].
      destruct (proj2 (Hin b) (or_introl eq_refl)) as [E|Hj]; [congruence|].
      specialize (Ha b Hj). specialize (Hb a Hi). lia. }
    subst b. f_equal. apply IH; try assumption.
    intros x. split; intro Hx.
    + destruct (proj1 (Hin x) (or_intror Hx)) as [E|Hi]; [subst x; contradiction | exact Hi].
    + destruct (proj2 (Hin x) (or_intror Hx)) as [E|Hi]; [subst x; contradiction | exact Hi].
Qed.

Lemma members_validators : forall i,
  map fst (members i) = sort_by (fun v : N => v) (C3.dedup (duty_validators i)).
Proof.
  intros i. apply sorted_nodup_unique.
  - unfold members. destruct (si_duties i); [|exact I].
    unfold message_indices. rewrite map_fst_sort. apply T3.sort_by_sorted.
  - apply T3.sort_by_sorted.
  - apply members_NoDup.
  - eapply Permutation_NoDup; [symmetry; apply T3.sort_by_perm | apply T3.dedup_nodup].
  - intros v. rewrite members_keys, T3.sort_by_in, T3.dedup_in. unfold duty_validators.
    destruct (si_duties i) as [ds|]; split.
    + intros (ds' & E & H). injection E as <-. exact H.
    + intros H. exists ds. split; [reflexivity | exact H].
    + intros (ds' & E & _). discriminate.
    + intros [].
Qed.

Lemma payload_agrees : forall i,
  S3.sync_pay (duty_validators i) = map (fun m : duty => (fst m, 0, 0)) (members i).
Proof.
  intros i. unfold S3.sync_pay. rewrite <- members_validators, map_map. reflexivity.
Qed.

(* The whole table: what [sched_sync] builds from nothing is the image of C15's job table, each
   prepare job of slot s becoming the job named JSync s, at C03's time for s, for C15's members. *)
Definition sync_job_of (c : C3.config) (i : sched_in) (j : job) : C3.job :=
  {| C3.j_name := sync_name j; C3.j_time := C3.sync_time c (snd (fst j));
     C3.j_pay := map (fun m : duty => (fst m, 0, 0)) (members i) |}.

Lemma sched_sync_is_schedule_image : forall p c ae i e,
  params_match p c ae -> env_match p i e -> si_accts i <> None ->
  C3.sched_sync c ae (si_cur i) e (si_epoch i) (si_notcur i) [] =
  map (sync_job_of c i) (so_jobs (schedule p i)).
Proof.
  intros p c ae i e Hm He Ha. rewrite (sched_sync_table p c ae _ e _ _ Hm).
  pose proof (ready_iff_active p c ae i e Hm He Ha) as Hra.
  destruct He as [_ Hd]. destruct Hm as [_ Hp _]. rewrite <- Hp, Hd.
  destruct (S3.sync_active c ae (si_cur i) e (si_epoch i)).
  - destruct (schedule_ready p i (proj2 Hra eq_refl)) as (Hj & _). rewrite Hj, map_map.
    apply map_ext. intros s. unfold S3.sync_job, sync_job_of, sync_name. cbn [fst snd].
    rewrite payload_agrees. reflexivity.
  - assert (Hn : ~ ready p i) by (intro H; apply Hra in H; discriminate).
    destruct (schedule_not_ready p i Hn) as (Hj & _). rewrite Hj. reflexivity.
Qed.

(* ... and with the times of C15's own jobs, on the domain where the two clocks agree *)
Definition sync_job_of_exact (c : C3.config) (i : sched_in) (j : job) : C3.job :=
  {| C3.j_name := sync_name j; C3.j_time := (CT.ct_genesis (C3.c_ct c) + snd j)%Z;
     C3.j_pay := map (fun m : duty => (fst m, 0, 0)) (members i) |}.

Lemma sched_sync_is_schedule_image_exact : forall p c ae i e,
  params_match p c ae -> env_match p i e -> si_accts i <> None ->
  slot_ns p = CT.ct_dur (C3.c_ct c) -> (0 < CT.ct_dur (C3.c_ct c))%Z ->
  (forall j, In j (so_jobs (schedule p i)) ->
             (Z.of_N (snd (fst j)) * CT.ct_dur (C3.c_ct c) < CT.two63z)%Z) ->
  C3.sched_sync c ae (si_cur i) e (si_epoch i) (si_notcur i) [] =
  map (sync_job_of_exact c i) (so_jobs (schedule p i)).
Proof.
  intros p c ae i e Hm He Ha Hd Hpos Hfit.
  rewrite (sched_sync_is_schedule_image p c ae i e Hm He Ha).
  apply map_ext_in. intros j Hj. unfold sync_job_of, sync_job_of_exact. f_equal.
  rewrite (job_time_agrees p c _ Hd Hpos (Hfit j Hj)).
  destruct (schedule_jobs_are_prepare p i j Hj) as [_ Ht]. rewrite Ht. reflexivity.
Qed.

(* ============================================================================================ *)
(* 6. Theorems carried from one property to the other.                                          *)

(* C15 -> C03.  C15's main window theorem ([window_slots_spec]: the slots the loop visits are
   exactly max(first-1, now) .. last-1 of the fork-clamped period, minus the current slot when told
   so) read on C03's [sched_sync], on any job table: afterwards the sync job of slot s is listed iff
   it was listed before, or the call is active and s is such a slot. *)
Lemma sched_sync_covers_spec_window : forall p c ae cur e epoch notcur t s,
  params_match p c ae -> chain_ok p -> in_range p epoch cur ->
  (C3.texists (C3.sched_sync c ae cur e epoch notcur t) (C3.JSync s) = true <->
   C3.texists t (C3.JSync s) = true \/
   (S3.sync_active c ae cur e epoch = true
    /\ spec_first p epoch cur <= s <= spec_last p epoch /\ (notcur = true -> s <> cur))).
Proof.
  intros p c ae cur e epoch notcur t s Hm Hok Hr.
  rewrite (sched_sync_texists p c ae cur e epoch notcur t s Hm).
  rewrite orb_true_iff, andb_true_iff, memN_In, (window_slots_spec p epoch cur notcur s Hok Hr).
  reflexivity.
Qed.

Lemma JSync_injective : forall a b, C3.JSync a = C3.JSync b -> a = b.
Proof. intros a b H. injection H as ->. reflexivity. Qed.

(* ... each of them once *)
Lemma sched_sync_names_NoDup : forall p c ae cur e epoch notcur,
  params_match p c ae -> NoDup (map C3.j_name (C3.sched_sync c ae cur e epoch notcur [])).
Proof.
  intros p c ae cur e epoch notcur Hm. rewrite (sched_sync_names p c ae cur e epoch notcur Hm).
  destruct (S3.sync_active c ae cur e epoch); [|constructor].
  apply FinFun.Injective_map_NoDup; [exact JSync_injective | apply window_slots_NoDup].
Qed.

(* C03's plain-arithmetic reading of the window ([C03_sync_window_plain]) and C15's
   ([window_exact]) are the same three numbers wherever C15's range conditions hold *)
Lemma sync_window_is_spec : forall p c ae epoch cur,
  params_match p c ae -> chain_ok p -> in_range p epoch cur ->
  C3.sync_window c ae cur epoch =
    (N.max (period_first_epoch p epoch) (cur / spe p), spec_first p epoch cur, spec_last p epoch).
Proof.
  intros p c ae epoch cur Hm Hok Hr.
  rewrite (window_agrees p c ae epoch cur Hm), (window_exact p epoch cur Hok Hr). reflexivity.
Qed.

(* C03 -> C15.  C03's start-up theorem ([start_schedules_sync_period]: a (re)start leaves a sync job
   for every slot of the window of the current period) read with C15's exact arithmetic. *)
Lemma restart_covers_spec_window : forall shadowed p c st ae s,
  C3.altair_details shadowed c = (true, ae) -> params_match p c ae ->
  let cur := C3.st_cur st in
  let this := C3.feosp c ae (C3.cur_epoch c cur / C3.c_period c) in
  chain_ok p -> in_range p this cur ->
  S3.sync_active c ae cur (C3.st_env st) this = true ->
  spec_first p this cur <= s <= spec_last p this -> s <> cur ->
  C3.texists (C3.st_jobs (C3.start shadowed c st)) (C3.JSync s) = true.
Proof.
  intros shadowed p c st ae s Hd Hm cur this Hok Hr Ha Hs Hn.
  apply (SS3.start_schedules_sync_period shadowed c st ae s Hd); try assumption.
  apply (in_sync_window_agrees p c ae this (C3.st_cur st) s Hm).
  fold cur. rewrite (window_exact p this cur Hok Hr). cbn [w_first w_last]. exact Hs.
Qed.

(* The same without any window vocabulary: after a (re)start in slot [cur] of an active chain,
   every later slot of the current sync committee period except its last one has its job. *)
Lemma restart_covers_rest_of_period : forall shadowed p c st ae s,
  C3.altair_details shadowed c = (true, ae) -> params_match p c ae ->
  let cur := C3.st_cur st in
  let P := cur / spe p / epp p in
  let this := C3.feosp c ae (C3.cur_epoch c cur / C3.c_period c) in
  chain_ok p -> cur < two64 -> (P + 1) * epp p * spe p < two64 ->
  S3.sync_active c ae cur (C3.st_env st) this = true ->
  cur < s <= (P + 1) * epp p * spe p - 2 ->
  C3.texists (C3.st_jobs (C3.start shadowed c st)) (C3.JSync s) = true.
Proof.
  intros shadowed p c st ae s Hd Hm cur P this Hok Hc HP Ha Hs.
  pose proof Hm as [Hspe Hepp Hfork]. destruct Hok as (Hs0 & He0 & H2).
  (* the chain is at or past the fork *)
  assert (Hae : ae <= cur / spe p).
  { unfold S3.sync_active in Ha. destruct (C3.sync_window c ae cur this) as [[fe fs] ls].
    apply andb_true_iff in Ha. destruct Ha as [Ha _]. apply andb_true_iff in Ha. destruct Ha as [_ Ha].
    unfold C3.cur_epoch in Ha. rewrite <- Hspe in Ha.
    destruct (N.ltb_spec (cur / spe p) ae); [discriminate | assumption]. }
  set (ce := cur / spe p) in *.
  assert (Hce : ce * spe p <= cur) by (apply div_mul_le; exact Hs0).
  assert (HPlo : P * epp p <= ce) by (apply div_mul_le; exact He0).
  assert (HPhi : ce < (P + 1) * epp p).
  { unfold P. pose proof (N.mul_succ_div_gt ce (epp p)). lia. }
  (* the epoch argument of the call: the first epoch of the current period, fork-clamped *)
  assert (Hthis : this = N.max (P * epp p) ae).
  { unfold this, C3.feosp, C3.cur_epoch, mul64. rewrite <- Hspe, <- Hepp. fold ce. fold P.
    rewrite wrap64_small by nia.
    destruct (N.ltb_spec (P * epp p) ae); lia. }
  assert (Hq : this / epp p = P).
  { symmetry. apply (N.div_unique this (epp p) P (this - P * epp p)); lia. }
  assert (Hr : in_range p this cur).
  { unfold in_range. rewrite Hq, Hfork. repeat split; [exact Hc | nia | exact HP]. }
  apply (restart_covers_spec_window shadowed p c st ae s Hd Hm); try assumption.
  - repeat split; assumption.
  - fold cur. fold this. unfold spec_first, spec_last, period_start, period_end,
      period_first_epoch, period_next_epoch. rewrite Hq, Hfork. nia.
  - fold cur. lia.
Qed.

(* C03 + C15 composed: the job C03 says is in the table does what C15 says.  If the table
   [sched_sync] builds holds the sync job of the fired slot, then -- unless a step fails for the
   whole batch -- the payload handed to the submitter is exactly one message per validator with a
   duty, an account and a non-zero signature (C15_message_every_slot), with C03's job existence in
   place of C15's own "ready" and "in the window". *)
Lemma message_for_C03_job : forall p c ae i e f r,
  params_match p c ae -> env_match p i e -> si_accts i <> None ->
  chain_ok p -> in_range p (si_epoch i) (si_cur i) ->
  C3.texists (C3.sched_sync c ae (si_cur i) e (si_epoch i) (si_notcur i) []) (C3.JSync (f_slot f)) = true ->
  f_root f = Some r -> f_sel_err f = false -> f_root_err f = false ->
  let out := fire_scheduled p i f in
  (forall s' r' v x,
     In (s', r', v, x) (opt_list (o_submitted out)) <->
     s' = f_slot f /\ r' = r /\ has_duty i v /\ holds_account i v /\ ~ In v (f_root_zero f)
     /\ x = SgRoot v (f_slot f / spe p) r)
  /\ NoDup (map msg_validator (opt_list (o_submitted out)))
  /\ o_msg_job out = Some (message_time p (f_slot f)).
Proof.
  intros p c ae i e f r Hm He Ha Hok Hr Hjob Hroot Hsel Hrerr.
  apply (sched_sync_covers_spec_window p c ae _ e _ _ [] (f_slot f) Hm Hok Hr) in Hjob.
  destruct Hjob as [Hjob | (Hact & Hw & Hn)]; [discriminate|].
  apply (ready_iff_active p c ae i e Hm He Ha) in Hact.
  apply (message_every_slot p i f r Hok Hr Hact); try assumption.
  split; assumption.
Qed.

(* and conversely: no such job in C03's table, nothing happens in C15's chain *)
Lemma nothing_without_C03_job : forall p c ae i e f,
  params_match p c ae -> env_match p i e -> si_accts i <> None ->
  C3.texists (C3.sched_sync c ae (si_cur i) e (si_epoch i) (si_notcur i) []) (C3.JSync (f_slot f)) = false ->
  fire_scheduled p i f = no_fire.
Proof.
  intros p c ae i e f Hm He Ha Hjob. unfold fire_scheduled.
  rewrite (has_prepare_is_texists p c ae i e (f_slot f) Hm He Ha), Hjob. reflexivity.
Qed.

(* ============================================================================================ *)
(* 7. From C03's start-up to C15's per-slot chain.                                              *)

(* on any table that does not list the name: the job [sched_sync] adds for a slot of C15's list is
   the image of C15's prepare job for that slot (C03's [sched_sync_exact] read in C15's terms) *)
Lemma sched_sync_tget_new : forall p c ae i e t s,
  params_match p c ae -> env_match p i e -> si_accts i <> None ->
  S3.sync_active c ae (si_cur i) e (si_epoch i) = true ->
  C3.tget t (C3.JSync s) = None ->
  In s (window_slots true p (si_epoch i) (si_cur i) (si_notcur i)) ->
  C3.tget (C3.sched_sync c ae (si_cur i) e (si_epoch i) (si_notcur i) t) (C3.JSync s) =
  Some (sync_job_of c i (JPrepare, s, prepare_time p s)).
Proof.
  intros p c ae i e t s Hm He Ha Hact Hnone Hin.
  rewrite P3.sched_sync_exact. unfold S3.spec_sched_sync. rewrite Hnone.
  unfold S3.sync_wanted. rewrite Hact. rewrite (window_agrees p c ae _ _ Hm).
  unfold window_slots in Hin. apply filter_In in Hin. destruct Hin as [Hr Hf]. apply range_In in Hr.
  replace (w_first (window_of true p (si_epoch i) (si_cur i)) <=? s) with true
    by (symmetry; apply N.leb_le; lia).
  replace (s <=? w_last (window_of true p (si_epoch i) (si_cur i))) with true
    by (symmetry; apply N.leb_le; lia).
  rewrite Hf. cbn [andb]. f_equal.
  destruct He as [_ Hd]. destruct Hm as [_ Hp _]. rewrite <- Hp, Hd.
  unfold S3.sync_job, sync_job_of, sync_name. cbn [fst snd]. rewrite payload_agrees. reflexivity.
Qed.

(* the window of the period the clock is in, for a chain at or past the fork *)
Lemma current_period_spec : forall p c ae cur,
  params_match p c ae -> chain_ok p -> cur < two64 ->
  (cur / spe p / epp p + 1) * epp p * spe p < two64 -> ae <= cur / spe p ->
  let this := C3.feosp c ae (C3.cur_epoch c cur / C3.c_period c) in
  in_range p this cur /\ spec_first p this cur = cur
  /\ spec_last p this = (cur / spe p / epp p + 1) * epp p * spe p - 2.
Proof.
  intros p c ae cur Hm Hok Hc HP Hae this.
  pose proof Hm as [Hspe Hepp Hfork]. destruct Hok as (Hs0 & He0 & H2).
  set (ce := cur / spe p) in *. set (P := ce / epp p) in *.
  assert (Hce : ce * spe p <= cur) by (apply div_mul_le; exact Hs0).
  assert (HPlo : P * epp p <= ce) by (apply div_mul_le; exact He0).
  assert (HPhi : ce < (P + 1) * epp p).
  { unfold P. pose proof (N.mul_succ_div_gt ce (epp p)). lia. }
  assert (Hthis : this = N.max (P * epp p) ae).
  { unfold this, C3.feosp, C3.cur_epoch, mul64. rewrite <- Hspe, <- Hepp. fold ce. fold P.
    rewrite wrap64_small by nia.
    destruct (N.ltb_spec (P * epp p) ae); lia. }
  assert (Hq : this / epp p = P).
  { symmetry. apply (N.div_unique this (epp p) P (this - P * epp p)); lia. }
  split; [|split].
  - unfold in_range. rewrite Hq, Hfork. repeat split; [exact Hc | nia | exact HP].
  - unfold spec_first, period_start, period_first_epoch. rewrite Hq, Hfork. nia.
  - unfold spec_last, period_end, period_next_epoch. rewrite Hq, Hfork. nia.
Qed.

Lemma active_past_fork : forall p c ae cur e ep,
  params_match p c ae -> S3.sync_active c ae cur e ep = true -> ae <= cur / spe p.
Proof.
  intros p c ae cur e ep [Hspe _ _] Ha.
  unfold S3.sync_active in Ha. destruct (C3.sync_window c ae cur ep) as [[fe fs] ls].
  apply andb_true_iff in Ha. destruct Ha as [Ha _]. apply andb_true_iff in Ha. destruct Ha as [_ Ha].
  unfold C3.cur_epoch in Ha. rewrite <- Hspe in Ha.
  destruct (N.ltb_spec (cur / spe p) ae); [discriminate | assumption].
Qed.

(* C03's (re)start, then C15's chain.  [i] is C15's reading of the call [start] makes for the current
   period: same epoch argument, same clock, notCurrentSlot, the duties answer the environment holds
   for that period.  For every later slot of the current period except its last:
   - the table after the start holds, under the name JSync s, exactly the image of C15's prepare job
     for s, for C15's members (whatever else [start] scheduled);
   - when that job and its successors run, the conclusion of C15_message_every_slot holds. *)
Lemma restart_then_message : forall shadowed p c st ae i f r,
  C3.altair_details shadowed c = (true, ae) -> params_match p c ae ->
  let cur := C3.st_cur st in
  let P := cur / spe p / epp p in
  let this := C3.feosp c ae (C3.cur_epoch c cur / C3.c_period c) in
  env_match p i (C3.st_env st) -> si_epoch i = this -> si_cur i = cur -> si_notcur i = true ->
  si_accts i <> None ->
  chain_ok p -> cur < two64 -> (P + 1) * epp p * spe p < two64 ->
  S3.sync_active c ae cur (C3.st_env st) this = true ->
  cur < f_slot f <= (P + 1) * epp p * spe p - 2 ->
  f_root f = Some r -> f_sel_err f = false -> f_root_err f = false ->
  C3.tget (C3.st_jobs (C3.start shadowed c st)) (C3.JSync (f_slot f)) =
    Some (sync_job_of c i (JPrepare, f_slot f, prepare_time p (f_slot f)))
  /\ let out := fire_scheduled p i f in
     (forall s' r' v x,
        In (s', r', v, x) (opt_list (o_submitted out)) <->
        s' = f_slot f /\ r' = r /\ has_duty i v /\ holds_account i v /\ ~ In v (f_root_zero f)
        /\ x = SgRoot v (f_slot f / spe p) r)
     /\ NoDup (map msg_validator (opt_list (o_submitted out)))
     /\ o_msg_job out = Some (message_time p (f_slot f)).
Proof.
  intros shadowed p c st ae i f r Hd Hm cur P this He Hep Hcur Hnc Hacc Hok Hc HP Hact Hs Hroot Hsel Hrerr.
  pose proof (active_past_fork p c ae cur _ _ Hm Hact) as Hae.
  destruct (current_period_spec p c ae cur Hm Hok Hc HP Hae) as (Hr & Hfirst & Hlast).
  fold this in Hr, Hfirst, Hlast. fold P in Hlast.
  assert (Hwin : in_window p i (f_slot f)).
  { unfold in_window. rewrite Hep, Hcur, Hfirst, Hlast. split; [lia | intros _; lia]. }
  assert (Hin : In (f_slot f) (window_slots true p (si_epoch i) (si_cur i) (si_notcur i))).
  { apply window_slots_spec; [exact Hok | rewrite Hep, Hcur; exact Hr | exact Hwin]. }
  assert (Hact' : S3.sync_active c ae (si_cur i) (C3.st_env st) (si_epoch i) = true)
    by (rewrite Hep, Hcur; exact Hact).
  split.
  - unfold C3.start. fold cur. rewrite Hd. cbn [C3.st_jobs].
    apply M3.sched_att_keeps. cbv zeta. fold this.
    match goal with |- C3.tget (if ?b then _ else _) _ = _ => destruct b end;
      [apply M3.sched_sync_keeps|];
      rewrite <- Hep, <- Hcur, <- Hnc;
      apply (sched_sync_tget_new p c ae i (C3.st_env st) _ (f_slot f) Hm He Hacc Hact');
      try exact Hin;
      (rewrite H3.sched_att_frame by reflexivity; rewrite H3.sched_prop_frame by reflexivity; reflexivity).
  - apply (ready_iff_active p c ae i _ Hm He Hacc) in Hact'.
    apply (message_every_slot p i f r Hok); try assumption.
    rewrite Hep, Hcur. exact Hr.
Qed.
