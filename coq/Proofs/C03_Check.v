(* C03: what the check's boolean predicates mean.  (1) P_b's parts imply the property's relations on
   the observed values alone; (2) when [agree] holds for a controller history, the theorems about
   the model transfer to the observed Attest / Propose invocations. *)
From Verif Require Import Lib.Base Model.C03_ChainTime Model.C03_Controller Model.C03_Spec
     Proofs.C03_ChainTime Proofs.C03_Table Proofs.C03_Sched Proofs.C03_Hist Check.C03.
From Coq Require Import ZifyBool ZifyN ZifyNat Sorted.
Open Scope N_scope.

Lemma nodup_b_sound : forall l, nodup_b l = true -> NoDup l.
Proof.
  induction l as [|x l IH]; cbn; intro H; [constructor|].
  apply andb_true_iff in H. destruct H as [H1 H2]. constructor; [|apply IH; exact H2].
  intro Hin. apply memb_N_spec in Hin. rewrite Hin in H1. discriminate.
Qed.

(* the "no slot twice" part of P_b, on the observed invocations *)
Lemma P_hist_no_twice : forall c init ops snaps al pl,
  P_hist c init ops snaps al pl true = true -> NoDup (map fst al) /\ NoDup (map fst pl).
Proof.
  intros c init ops snaps al pl H. unfold P_hist in H.
  apply andb_true_iff in H. destruct H as [_ H]. apply andb_true_iff in H. destruct H as [H1 H2].
  split; apply nodup_b_sound; assumption.
Qed.

(* ----- MergeDuties ----- *)
Lemma ascending_sorted : forall l, ascending l = true -> Sorted N.lt l.
Proof.
  induction l as [|x l IH]; intro H; [constructor|].
  destruct l as [|y l']; [constructor; constructor|].
  cbn [ascending] in H. apply andb_true_iff in H. destruct H as [H1 H2].
  constructor; [apply IH; exact H2 | constructor; lia].
Qed.

Definition merged_ok (m : mduty) : Prop :=
  length (md_vals m) = length (md_comms m) /\ length (md_vals m) = length (md_vcis m) /\
  md_vals m <> [] /\ (forall cm, In cm (md_comms m) -> clen_lookup (md_clens m) cm <> None).

Theorem P_merge_sound : forall ds out,
  P_merge ds out = true ->
  Forall merged_ok out /\
  Sorted N.lt (map md_slot out) /\
  (forall d, In d ds -> count_in d ds = count_out d out) /\
  fold_right (fun m acc => Nat.add (length (md_vals m)) acc) 0%nat out = length ds.
Proof.
  intros ds out H. unfold P_merge in H.
  apply andb_true_iff in H. destruct H as [H H4]. apply andb_true_iff in H. destruct H as [H H3].
  apply andb_true_iff in H. destruct H as [H1 H2].
  split; [|split; [|split]].
  - apply Forall_forall. intros m Hm. rewrite forallb_forall in H1. specialize (H1 m Hm).
    apply andb_true_iff in H1. destruct H1 as [H1 Hc]. apply andb_true_iff in H1. destruct H1 as [H1 Hn].
    apply andb_true_iff in H1. destruct H1 as [Ha Hb].
    apply Nat.eqb_eq in Ha. apply Nat.eqb_eq in Hb.
    repeat split; try assumption.
    + intro E. rewrite E in Hn. discriminate.
    + intros cm Hin. rewrite forallb_forall in Hc. specialize (Hc cm Hin).
      destruct (clen_lookup (md_clens m) cm); [discriminate | discriminate].
  - apply ascending_sorted. exact H2.
  - intros d Hd. rewrite forallb_forall in H3. specialize (H3 d Hd). apply Nat.eqb_eq in H3. exact H3.
  - apply Nat.eqb_eq in H4. exact H4.
Qed.

(* ----- transfer: agreement with the model + the model's theorem => the property of the observed run ----- *)
Lemma list_match_logs : forall isp (m o : list (N * payload)),
  list_match (log_matches isp) m o = true -> map fst m = map fst o.
Proof.
  induction m as [|x m IH]; destruct o as [|y o]; cbn; intro H; try discriminate; [reflexivity|].
  apply andb_true_iff in H. destruct H as [H1 H2]. unfold log_matches in H1.
  apply andb_true_iff in H1. destruct H1 as [H1 _]. apply N.eqb_eq in H1.
  rewrite H1, (IH o H2). reflexivity.
Qed.

Lemma init_of_init_state : forall c init, exists h ae, init_of c init = init_state h ae.
Proof. intros c [[h ae]|]; [exists h, ae | exists false, 0]; reflexivity. Qed.

Theorem agree_transfers_no_slot_twice : forall c init ops snaps al pl reorg,
  agree_hist c init ops snaps al pl reorg = true ->
  0 < ct_spe (c_ct c) -> bounded c 0 ->
  hist_ok shadowed c 0 (init_of c init) ops ->
  NoDup (map fst al) /\ NoDup (map fst pl).
Proof.
  intros c init ops snaps al pl reorg H Hspe B Hok. unfold agree_hist in H.
  destruct (init_of_init_state c init) as [h [ae Ei]]. rewrite Ei in *.
  apply andb_true_iff in H. destruct H as [H _]. apply andb_true_iff in H. destruct H as [H Hp].
  apply andb_true_iff in H. destruct H as [_ Ha].
  apply list_match_logs in Ha. apply list_match_logs in Hp.
  destruct (no_slot_twice shadowed c Hspe B h ae ops Hok) as [N1 [N2 _]].
  unfold att_slots, prop_slots in *. rewrite <- Ha, <- Hp. split; assumption.
Qed.

(* the whole check on a well-formed history case: [agree] alone already implies the property of the
   observed run, through the theorem *)
Theorem agree_wf_case_no_slot_twice : forall id c init ops snaps al pl reorg,
  agree {| c_id := id; c_body := BHist c init ops snaps al pl reorg true |} = true ->
  NoDup (map fst al) /\ NoDup (map fst pl).
Proof.
  intros id c init ops snaps al pl reorg H. unfold agree in H. cbn [c_body] in H.
  apply andb_true_iff in H. destruct H as [Ha H]. apply andb_true_iff in H. destruct H as [H Hh].
  apply andb_true_iff in H. destruct H as [Hs Hb].
  apply (agree_transfers_no_slot_twice c init ops snaps al pl reorg Ha).
  - lia.
  - unfold bounded, bounded_b in *. lia.
  - apply hist_ok_b_sound; [lia | exact Hh].
Qed.
