(* C14 -- head events whose duty dependent roots change (Model/C14_Reorg.v): lemmas. *)
From Verif Require Import Lib.Base Model.C14_Subscriptions Model.C14_Spec Model.C14_Reorg Proofs.C14 Proofs.C14_During.

(* ------------------------------------------------------------------------------------------- *)
(* checkEventForReorg's decision *)

Lemma negb_eqb_true : forall a b : N, negb (a =? b) = true <-> a <> b.
Proof.
  intros a b. destruct (N.eqb_spec a b) as [E|E]; cbn [negb]; split; intro H; try discriminate; try reflexivity.
  - contradiction.
  - exact E.
Qed.

Lemma decide_current : forall rs hepoch prev curr,
  snd (reorg_decide rs hepoch prev curr) = true <->
  (r_epoch rs <> 0 /\ hepoch <= r_epoch rs /\ r_cur rs <> 0 /\ r_cur rs <> curr).
Proof.
  intros rs hepoch prev curr. unfold reorg_decide.
  destruct (N.eqb_spec (r_epoch rs) 0) as [Z|Z]; cbn [snd].
  - split; [discriminate|]. intros (H & _). contradiction.
  - destruct (N.ltb_spec (r_epoch rs) hepoch) as [L|L]; cbn [snd].
    + split; [discriminate|]. intros (_ & H & _). exfalso. apply (N.lt_irrefl hepoch).
      eapply N.le_lt_trans; [exact H|exact L].
    + rewrite Bool.andb_true_iff, !negb_eqb_true. split.
      * intros (A & B). repeat split; assumption.
      * intros (_ & _ & A & B). split; assumption.
Qed.

Lemma decide_previous : forall rs hepoch prev curr,
  fst (reorg_decide rs hepoch prev curr) = true <->
  (r_epoch rs <> 0 /\ r_prev rs <> 0 /\
   (if r_epoch rs <? hepoch then r_cur rs <> prev else r_prev rs <> prev)).
Proof.
  intros rs hepoch prev curr. unfold reorg_decide.
  destruct (N.eqb_spec (r_epoch rs) 0) as [Z|Z]; cbn [fst].
  - split; [discriminate|]. intros (H & _). contradiction.
  - destruct (r_epoch rs <? hepoch); cbn [fst]; rewrite Bool.andb_true_iff, !negb_eqb_true.
    + split; [intros (A & B); repeat split; assumption|intros (_ & A & B); split; assumption].
    + split; [intros (A & B); repeat split; assumption|intros (_ & A & B); split; assumption].
Qed.

Lemma decide_nothing_recorded : forall rs hepoch prev curr,
  r_epoch rs = 0 -> reorg_decide rs hepoch prev curr = (false, false).
Proof. intros rs hepoch prev curr H. unfold reorg_decide. rewrite H. reflexivity. Qed.

(* ------------------------------------------------------------------------------------------- *)
(* expansion of a head event of the current slot *)

Lemma expand_head_current : forall pr rs hslot prev curr views evs,
  expand pr rs (EHead hslot hslot prev curr views :: evs) =
  OHead hslot hslot :: head_ops pr rs hslot hslot prev curr views ++
    expand pr (track pr (mkR (hslot / spe pr) prev curr) (head_ops pr rs hslot hslot prev curr views)) evs.
Proof. intros. cbn [expand]. rewrite N.eqb_refl. reflexivity. Qed.

Lemma expand_head_ignored : forall pr rs hslot cur prev curr views evs,
  hslot <> cur ->
  expand pr rs (EHead hslot cur prev curr views :: evs) = OHead hslot cur :: expand pr rs evs.
Proof.
  intros pr rs hslot cur prev curr views evs H. cbn [expand].
  destruct (N.eqb_spec hslot cur) as [E|E]; [contradiction|reflexivity].
Qed.

Lemma expand_plain : forall pr rs o evs,
  expand pr rs (EOp (HOp o) :: evs) = o :: expand pr (track_op pr rs o) evs.
Proof. intros. reflexivity. Qed.

Definition usable (v : view) : Prop :=
  v_unprepared v = false /\ v_acct_fail v = false /\ v_no_accounts v = false.

Lemma refresh_ops_usable : forall cur ep v, usable v ->
  refresh_ops cur ep (Some v) = v_mid v ++ [OSub ep cur false (v_duties_fail v) (v_sign_fail v) (v_duties v)].
Proof. intros cur ep v (A & B & C). unfold refresh_ops. rewrite A, B, C. reflexivity. Qed.

Lemma head_current_root_changed : forall pr rs hslot prev curr views v evs,
  reorg_decide rs (hslot / spe pr) prev curr = (false, true) ->
  find_view (wrap64 (hslot / spe pr + 1)) views = Some v -> usable v ->
  exists rs',
    expand pr rs (EHead hslot hslot prev curr views :: evs) =
    OHead hslot hslot :: v_mid v ++
      OSub (wrap64 (hslot / spe pr + 1)) hslot false (v_duties_fail v) (v_sign_fail v) (v_duties v) :: expand pr rs' evs.
Proof.
  intros pr rs hslot prev curr views v evs D F U. eexists.
  rewrite expand_head_current. unfold head_ops. rewrite D. unfold refresh_epochs. cbn [fst snd app flat_map].
  rewrite F, refresh_ops_usable by exact U. rewrite app_nil_r, <- app_assoc. cbn [app]. reflexivity.
Qed.

Lemma head_previous_root_changed : forall pr rs hslot prev curr views v evs,
  reorg_decide rs (hslot / spe pr) prev curr = (true, false) ->
  find_view (hslot / spe pr) views = Some v -> usable v ->
  exists rs',
    expand pr rs (EHead hslot hslot prev curr views :: evs) =
    OHead hslot hslot :: v_mid v ++
      OSub (hslot / spe pr) hslot false (v_duties_fail v) (v_sign_fail v) (v_duties v) :: expand pr rs' evs.
Proof.
  intros pr rs hslot prev curr views v evs D F U. eexists.
  rewrite expand_head_current. unfold head_ops. rewrite D. unfold refresh_epochs. cbn [fst snd app flat_map].
  rewrite F, refresh_ops_usable by exact U. rewrite app_nil_r, <- app_assoc. cbn [app]. reflexivity.
Qed.

Lemma head_no_root_changed : forall pr rs hslot prev curr views evs,
  reorg_decide rs (hslot / spe pr) prev curr = (false, false) ->
  expand pr rs (EHead hslot hslot prev curr views :: evs) =
  OHead hslot hslot :: expand pr (mkR (hslot / spe pr) prev curr) evs.
Proof.
  intros pr rs hslot prev curr views evs D.
  rewrite expand_head_current. unfold head_ops. rewrite D. reflexivity.
Qed.

(* ------------------------------------------------------------------------------------------- *)
(* the information of the epoch is held all the while *)

Lemma info_held_through : forall pr st ep ops info,
  ep + 1 < two64 -> Forall (keeps pr ep) ops ->
  get_info ep (st_infos st) = Some info ->
  get_info ep (st_infos (fst (run pr st ops))) = Some info.
Proof.
  intros pr st ep ops info B K H. rewrite run_infos, last_info_keeps by assumption. exact H.
Qed.

Lemma head_keeps : forall pr ep hslot cur, hslot / spe pr <= ep + 1 -> keeps pr ep (OHead hslot cur).
Proof. intros. cbn [keeps]. right. assumption. Qed.

(* the seeded shape: the information deleted when the refresh starts *)
Lemma get_info_drop : forall ep st, get_info ep (st_infos (drop_info ep st)) = None.
Proof.
  intros ep st. unfold drop_info. cbn [st_infos]. induction (st_infos st) as [|[k w] m IH]; [reflexivity|].
  cbn [filter fst]. destruct (N.eqb_spec k ep) as [E|E]; cbn [negb]; [exact IH|].
  cbn [get_info]. destruct (N.eqb_spec k ep) as [E'|_]; [contradiction|exact IH].
Qed.

Lemma dropped_info_schedules_nothing : forall pr st dslot cur attest_fail no_acct atts,
  fst (step pr (drop_info (dslot / spe pr) st) (OAtt dslot cur attest_fail no_acct atts)) =
  drop_info (dslot / spe pr) st.
Proof. intros. apply attest_without_info. apply get_info_drop. Qed.
