(* Bridging lemmas between the N arithmetic of the hand-written models (Lib.Base, wrapping operators)
   and the Z arithmetic of the gotrans transcriptions (Lib.GoInt).  Used by Proofs/Tie_Cxx.v. *)
From Coq Require Import ZArith NArith Lia Bool List.
From Coq Require Import ZifyBool ZifyN.
From Verif Require Import Lib.Base Lib.GoInt.
Local Open Scope Z_scope.

Definition nu64 (a : N) : Prop := (a < Base.two64)%N.

Lemma two64_N : Z.of_N Base.two64 = GoInt.two64.
Proof. reflexivity. Qed.

Lemma nu64_in (a : N) : nu64 a -> in_u64 (Z.of_N a).
Proof. unfold nu64, in_u64, Base.two64, GoInt.two64. lia. Qed.

Lemma of_N_wrap64 (a : N) : Z.of_N (wrap64 a) = u64 (Z.of_N a).
Proof. unfold wrap64, u64. rewrite N2Z.inj_mod, two64_N. reflexivity. Qed.

Lemma of_N_mul64 (a b : N) : Z.of_N (mul64 a b) = u64 (Z.of_N a * Z.of_N b).
Proof. unfold mul64. rewrite of_N_wrap64, N2Z.inj_mul. reflexivity. Qed.

Lemma of_N_add64 (a b : N) : Z.of_N (add64 a b) = u64 (Z.of_N a + Z.of_N b).
Proof. unfold add64. rewrite of_N_wrap64, N2Z.inj_add. reflexivity. Qed.

Lemma of_N_sub64 (a b : N) : nu64 a -> nu64 b -> Z.of_N (sub64 a b) = u64 (Z.of_N a - Z.of_N b).
Proof.
  unfold nu64, sub64, u64, Base.two64, GoInt.two64. intros Ha Hb.
  destruct (b <=? a)%N eqn:E.
  - rewrite Z.mod_small by lia. lia.
  - replace (Z.of_N a - Z.of_N b) with ((Z.of_N a - Z.of_N b + 18446744073709551616) + (-1) * 18446744073709551616) by lia.
    rewrite Z.mod_add by lia. rewrite Z.mod_small by lia. lia.
Qed.

Lemma nu64_wrap64 a : nu64 (wrap64 a).
Proof. unfold nu64, wrap64. apply N.mod_lt. discriminate. Qed.

Lemma nu64_mul64 a b : nu64 (mul64 a b).
Proof. apply nu64_wrap64. Qed.

Lemma nu64_add64 a b : nu64 (add64 a b).
Proof. apply nu64_wrap64. Qed.

Lemma nu64_sub64 a b : nu64 a -> nu64 b -> nu64 (sub64 a b).
Proof. unfold nu64, sub64, Base.two64. intros. destruct (b <=? a)%N eqn:E; lia. Qed.

Lemma of_N_eqb (a b : N) : (Z.of_N a =? Z.of_N b) = (a =? b)%N.
Proof. destruct (N.eqb_spec a b); lia. Qed.

Lemma of_N_ltb (a b : N) : (Z.of_N a <? Z.of_N b) = (a <? b)%N.
Proof. destruct (N.ltb_spec a b); lia. Qed.

Lemma of_N_leb (a b : N) : (Z.of_N a <=? Z.of_N b) = (a <=? b)%N.
Proof. destruct (N.leb_spec a b); lia. Qed.

Lemma of_N_gtb (a b : N) : (Z.of_N a >? Z.of_N b) = (b <? a)%N.
Proof. destruct (N.ltb_spec b a); lia. Qed.

Lemma of_N_eqb0 (a : N) : (Z.of_N a =? 0) = (a =? 0)%N.
Proof. destruct (N.eqb_spec a 0); lia. Qed.

Lemma of_N_mod_eqb0 (a b : N) : (Z.of_N a mod Z.of_N b =? 0) = (a mod b =? 0)%N.
Proof. rewrite <- N2Z.inj_mod. apply of_N_eqb0. Qed.

Lemma div_nonneg (a b : Z) : 0 <= a -> 0 <= b -> 0 <= a / b.
Proof.
  intros Ha Hb. destruct (Z.eq_dec b 0) as [->|Hn]; [rewrite Zdiv_0_r; lia | apply Z.div_pos; lia].
Qed.
