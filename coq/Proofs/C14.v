From Verif Require Import Lib.Base Model.C14_Subscriptions.
