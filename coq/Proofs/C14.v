(* C14 -- lemmas.  The theorems of Properties/C14.v are instances of the lemmas at the end of each
   part. *)
From Verif Require Import Lib.Base Model.C14_Subscriptions Model.C14_Spec.
From Coq Require Import ZifyBool ZifyN ZifyNat.
From Coq Require Import Sorting.Sorted.

(* =========================================================================================== *)
(* Part 1.  Aggregator selection arithmetic.                                                   *)

Lemma land_low_shiftl : forall a x n, a < 2 ^ n -> N.land a (N.shiftl x n) = 0.
Proof.
  intros a x n H. apply N.bits_inj_0. intro m. rewrite N.land_spec.
  destruct (N.lt_ge_cases m n) as [L|G].
  - rewrite N.shiftl_spec_low by exact L. apply andb_false_r.
  - replace (N.testbit a m) with false; [reflexivity|].
    symmetry. destruct (N.eq_dec a 0) as [->|NZ]; [apply N.bits_0|].
    apply N.bits_above_log2. apply N.log2_lt_pow2; [lia|].
    eapply N.lt_le_trans; [exact H|]. apply N.pow_le_mono_r; lia.
Qed.

Lemma lor_shiftl_add : forall a x n, a < 2 ^ n -> N.lor a (N.shiftl x n) = a + x * 2 ^ n.
Proof.
  intros a x n H.
  rewrite <- N.lxor_lor by (apply land_low_shiftl; exact H).
  rewrite <- N.add_nocarry_lxor by (apply land_low_shiftl; exact H).
  rewrite N.shiftl_mul_pow2. reflexivity.
Qed.

Lemma lor_shiftl8_add : forall a x, a < 256 -> N.lor a (N.shiftl x 8) = a + 256 * x.
Proof. intros a x H. rewrite lor_shiftl_add by exact H. change (2 ^ 8) with 256. lia. Qed.

Lemma le64_bytes : forall b0 b1 b2 b3 b4 b5 b6 b7 rest,
  b0 < 256 -> b1 < 256 -> b2 < 256 -> b3 < 256 -> b4 < 256 -> b5 < 256 -> b6 < 256 -> b7 < 256 ->
  le64 (b0 :: b1 :: b2 :: b3 :: b4 :: b5 :: b6 :: b7 :: rest) =
  bytes_to_uint64 [b0; b1; b2; b3; b4; b5; b6; b7].
Proof.
  intros b0 b1 b2 b3 b4 b5 b6 b7 rest H0 H1 H2 H3 H4 H5 H6 H7.
  assert (E : le64 (b0 :: b1 :: b2 :: b3 :: b4 :: b5 :: b6 :: b7 :: rest) =
    N.lor b0 (N.shiftl (N.lor b1 (N.shiftl (N.lor b2 (N.shiftl (N.lor b3 (N.shiftl (N.lor b4
      (N.shiftl (N.lor b5 (N.shiftl (N.lor b6 (N.shiftl b7 8)) 8)) 8)) 8)) 8)) 8)) 8)).
  { unfold le64. rewrite !N.shiftl_lor, !N.shiftl_shiftl. reflexivity. }
  rewrite E. rewrite !lor_shiftl8_add by assumption.
  unfold bytes_to_uint64, fold_right. lia.
Qed.

Lemma bytes_to_uint64_bound : forall bs, bytes bs -> bytes_to_uint64 bs < 256 ^ N.of_nat (length bs).
Proof.
  induction bs as [|b bs IH]; intro H.
  - cbn. lia.
  - inversion H as [|? ? Hb Hbs]; subst. specialize (IH Hbs).
    change (bytes_to_uint64 (b :: bs)) with (b + 256 * bytes_to_uint64 bs).
    replace (N.of_nat (length (b :: bs))) with (N.succ (N.of_nat (length bs))) by (cbn [length]; lia).
    rewrite N.pow_succ_r'. lia.
Qed.

Lemma max1 : forall m, (if m =? 0 then 1 else m) = N.max 1 m.
Proof. intro m. destruct (N.eqb_spec m 0); lia. Qed.

Lemma hash8_split : forall h : list N, (8 <= length h)%nat ->
  exists b0 b1 b2 b3 b4 b5 b6 b7 rest, h = b0 :: b1 :: b2 :: b3 :: b4 :: b5 :: b6 :: b7 :: rest.
Proof.
  intros h H.
  destruct h as [|b0 [|b1 [|b2 [|b3 [|b4 [|b5 [|b6 [|b7 rest]]]]]]]]; cbn in H; try lia.
  repeat eexists.
Qed.

Lemma le64_spec : forall h, bytes h -> (8 <= length h)%nat -> le64 h = bytes_to_uint64 (firstn 8 h).
Proof.
  intros h Hb Hl. destruct (hash8_split h Hl) as (b0 & b1 & b2 & b3 & b4 & b5 & b6 & b7 & rest & ->).
  unfold bytes in Hb.
  repeat match goal with H : Forall _ (_ :: _) |- _ => inversion H; clear H; subst end.
  rewrite le64_bytes by assumption. reflexivity.
Qed.

Lemma le64_lt_two64 : forall h, bytes h -> (8 <= length h)%nat -> le64 h < two64.
Proof.
  intros h Hb Hl. rewrite le64_spec by assumption.
  assert (Hf : bytes (firstn 8 h)).
  { unfold bytes in *. rewrite Forall_forall in *. intros x Hx. apply Hb.
    rewrite <- (firstn_skipn 8 h). apply in_or_app. left. exact Hx. }
  pose proof (bytes_to_uint64_bound _ Hf) as B.
  rewrite firstn_length_le in B by exact Hl. exact B.
Qed.

Lemma is_aggregator_spec_lemma : forall len target h,
  bytes h -> (8 <= length h)%nat -> is_aggregator len target h = spec_is_aggregator len target h.
Proof.
  intros len target h Hb Hl. unfold is_aggregator, spec_is_aggregator.
  rewrite max1, le64_spec by assumption. reflexivity.
Qed.

(* only the first 8 bytes of the digest are read, by the code and by the specification *)
Lemma le64_prefix : forall h, le64 (firstn 8 h) = le64 h.
Proof.
  intro h.
  destruct h as [|b0 [|b1 [|b2 [|b3 [|b4 [|b5 [|b6 [|b7 rest]]]]]]]]; reflexivity.
Qed.

Lemma is_aggregator_prefix : forall len target h,
  is_aggregator len target (firstn 8 h) = is_aggregator len target h.
Proof. intros. unfold is_aggregator. rewrite le64_prefix. reflexivity. Qed.

Lemma spec_is_aggregator_prefix : forall len target h,
  spec_is_aggregator len target (firstn 8 h) = spec_is_aggregator len target h.
Proof. intros. unfold spec_is_aggregator. rewrite firstn_firstn. reflexivity. Qed.

(* the selection really depends on the committee size only through size / target: every committee
   smaller than twice the target makes every validator an aggregator *)
Lemma small_committee_all_aggregate : forall len target h,
  len < 2 * target -> is_aggregator len target h = true.
Proof.
  intros len target h H. unfold is_aggregator. rewrite max1.
  assert (len / target <= 1).
  { destruct (N.eq_dec target 0) as [->|NZ]; [cbn; destruct len; cbn; lia|].
    assert (len / target < 2) by (apply N.div_lt_upper_bound; lia). lia. }
  replace (N.max 1 (len / target)) with 1 by lia. rewrite N.mod_1_r. reflexivity.
Qed.

(* =========================================================================================== *)
(* Part 2.  Association lists: find_sub / put.                                                 *)

Lemma sub_key_eqb_iff : forall s c e, sub_key_eqb s c e = true <-> skey e = (s, c).
Proof.
  intros s c e. unfold sub_key_eqb, skey. rewrite andb_true_iff, !N.eqb_eq. split.
  - intros [-> ->]. reflexivity.
  - intro H. injection H as -> ->. split; reflexivity.
Qed.

Lemma same_key_iff : forall s c d, same_key s c d = true <-> dkey d = (s, c).
Proof.
  intros s c d. unfold same_key, dkey. rewrite andb_true_iff, !N.eqb_eq. split.
  - intros [-> ->]. reflexivity.
  - intro H. injection H as -> ->. split; reflexivity.
Qed.

Lemma sub_key_eqb_mk_sub : forall s c t L d, sub_key_eqb s c (mk_sub t L d) = same_key s c d.
Proof. reflexivity. Qed.

Lemma find_sub_put : forall s c e info,
  find_sub s c (put e info) = if sub_key_eqb s c e then Some e else find_sub s c info.
Proof.
  intros s c e info. unfold find_sub. induction info as [|x info IH]; cbn [put find].
  - destruct (sub_key_eqb s c e); reflexivity.
  - destruct (sub_key_eqb (s_slot e) (s_comm e) x) eqn:Ex; cbn [find].
    + apply sub_key_eqb_iff in Ex.
      destruct (sub_key_eqb s c e) eqn:Ee; [reflexivity|].
      destruct (sub_key_eqb s c x) eqn:Ey; [|reflexivity].
      apply sub_key_eqb_iff in Ey. rewrite Ex in Ey. unfold skey in Ee.
      assert (sub_key_eqb s c e = true) by (apply sub_key_eqb_iff; unfold skey; congruence).
      congruence.
    + destruct (sub_key_eqb s c x) eqn:Ey.
      * destruct (sub_key_eqb s c e) eqn:Ee; [|reflexivity].
        apply sub_key_eqb_iff in Ey, Ee.
        assert (sub_key_eqb (s_slot e) (s_comm e) x = true).
        { apply sub_key_eqb_iff. rewrite Ey. unfold skey in Ee. congruence. }
        congruence.
      * exact IH.
Qed.

Lemma find_sub_some : forall s c info e,
  find_sub s c info = Some e -> In e info /\ s_slot e = s /\ s_comm e = c.
Proof.
  intros s c info e H. unfold find_sub in H. apply find_some in H as [Hi Hk].
  apply sub_key_eqb_iff in Hk. unfold skey in Hk. injection Hk as <- <-. auto.
Qed.

Lemma find_sub_none_iff : forall s c info, find_sub s c info = None <-> ~ In (s, c) (map skey info).
Proof.
  intros s c info. unfold find_sub. induction info as [|x info IH]; cbn [find map In].
  - tauto.
  - destruct (sub_key_eqb s c x) eqn:E.
    + apply sub_key_eqb_iff in E. split; [discriminate|]. intro H. exfalso. apply H. left. exact E.
    + rewrite IH. split.
      * intros H [H1|H1]; [|tauto]. apply sub_key_eqb_iff in H1. congruence.
      * tauto.
Qed.

Lemma find_sub_in_nodup : forall info e,
  NoDup (map skey info) -> In e info -> find_sub (s_slot e) (s_comm e) info = Some e.
Proof.
  intros info e. unfold find_sub. induction info as [|x info IH]; cbn [map find In]; intros ND Hi.
  - destruct Hi.
  - inversion ND as [|? ? Hn ND']; subst. destruct Hi as [->|Hi].
    + replace (sub_key_eqb (s_slot e) (s_comm e) e) with true; [reflexivity|].
      symmetry. apply sub_key_eqb_iff. reflexivity.
    + destruct (sub_key_eqb (s_slot e) (s_comm e) x) eqn:E.
      * apply sub_key_eqb_iff in E. exfalso. apply Hn. rewrite E.
        change (s_slot e, s_comm e) with (skey e). apply in_map. exact Hi.
      * apply IH; assumption.
Qed.

Lemma put_keys : forall e info,
  map skey (put e info) = if find_sub (s_slot e) (s_comm e) info then map skey info
                          else map skey info ++ [skey e].
Proof.
  intros e info. unfold find_sub. induction info as [|x info IH]; cbn [put find map app].
  - reflexivity.
  - destruct (sub_key_eqb (s_slot e) (s_comm e) x) eqn:E; cbn [map].
    + apply sub_key_eqb_iff in E. unfold skey at 1. rewrite <- E. reflexivity.
    + rewrite IH. destruct (find _ info); reflexivity.
Qed.

Lemma put_nodup : forall e info, NoDup (map skey info) -> NoDup (map skey (put e info)).
Proof.
  intros e info ND. rewrite put_keys.
  destruct (find_sub (s_slot e) (s_comm e) info) eqn:F; [exact ND|].
  apply find_sub_none_iff in F.
  apply NoDup_rev in ND. rewrite <- (rev_involutive (_ ++ _)). apply NoDup_rev.
  rewrite rev_app_distr. cbn. constructor; [|exact ND].
  rewrite <- in_rev. exact F.
Qed.

(* =========================================================================================== *)
(* Part 3.  What calculateSubscriptionInfo records for one (slot, committee).                  *)

(* one validator of the committee, at the level of the committee's entry *)
Definition estep (t : N) (L : list duty) (o : option sub) (d : duty) : option sub :=
  match o with
  | Some e => if s_agg e then o else Some (mk_sub t L d)
  | None => Some (mk_sub t L d)
  end.

Lemma find_add_member : forall t L s c info d,
  find_sub s c (add_member t L info d) =
  if same_key s c d then estep t L (find_sub s c info) d else find_sub s c info.
Proof.
  intros t L s c info d. unfold add_member.
  destruct (same_key s c d) eqn:K.
  - pose proof K as K'. apply same_key_iff in K'. unfold dkey in K'. injection K' as Hs Hc. subst s c.
    destruct (find_sub (d_slot d) (d_comm d) info) as [e|] eqn:F; cbn [estep].
    + destruct (s_agg e); [exact F|]. rewrite find_sub_put, sub_key_eqb_mk_sub, K. reflexivity.
    + rewrite find_sub_put, sub_key_eqb_mk_sub, K. reflexivity.
  - destruct (find_sub (d_slot d) (d_comm d) info) as [e|] eqn:F.
    + destruct (s_agg e); [reflexivity|]. rewrite find_sub_put, sub_key_eqb_mk_sub, K. reflexivity.
    + rewrite find_sub_put, sub_key_eqb_mk_sub, K. reflexivity.
Qed.

Lemma find_fold_add_member : forall t L s c M info,
  find_sub s c (fold_left (add_member t L) M info) =
  fold_left (estep t L) (filter (same_key s c) M) (find_sub s c info).
Proof.
  intros t L s c M. induction M as [|d M IH]; intro info; cbn [fold_left filter].
  - reflexivity.
  - rewrite IH, find_add_member. destruct (same_key s c d); reflexivity.
Qed.

Lemma s_agg_mk_sub : forall t L d, s_agg (mk_sub t L d) = agg_of t L d.
Proof. reflexivity. Qed.

Lemma fold_estep_agg : forall t L M e, s_agg e = true -> fold_left (estep t L) M (Some e) = Some e.
Proof.
  intros t L M e H. induction M as [|d M IH]; cbn [fold_left estep]; [reflexivity|].
  rewrite H. exact IH.
Qed.

Lemma last_opt_cons_some : forall {A} (l : list A) (x : A), last_opt (x :: l) <> None.
Proof.
  intros A l. induction l as [|y l IH]; intro x; [discriminate|].
  change (last_opt (x :: y :: l)) with (last_opt (y :: l)). apply IH.
Qed.

Lemma last_opt_cons : forall {A} (x : A) l, last_opt (x :: l) = match last_opt l with Some y => Some y | None => Some x end.
Proof.
  intros A x l. destruct l as [|y l]; [reflexivity|].
  change (last_opt (x :: y :: l)) with (last_opt (y :: l)).
  destruct (last_opt (y :: l)) eqn:E; [reflexivity|].
  exfalso. exact (last_opt_cons_some l y E).
Qed.

Lemma last_opt_none : forall {A} (l : list A), last_opt l = None <-> l = [].
Proof.
  intros A l. split; [|intros ->; reflexivity].
  destruct l as [|x l]; [reflexivity|]. rewrite last_opt_cons. destruct (last_opt l); discriminate.
Qed.

Lemma last_opt_in : forall {A} (l : list A) x, last_opt l = Some x -> In x l.
Proof.
  intros A l. induction l as [|y l IH]; intros x H; [discriminate|].
  rewrite last_opt_cons in H. destruct (last_opt l) as [z|] eqn:E.
  - injection H as <-. right. apply IH. reflexivity.
  - injection H as <-. left. reflexivity.
Qed.

Lemma fold_estep_some : forall t L M e, s_agg e = false ->
  fold_left (estep t L) M (Some e) =
  match find (agg_of t L) M with
  | Some d => Some (mk_sub t L d)
  | None => Some (match last_opt M with Some d => mk_sub t L d | None => e end)
  end.
Proof.
  intros t L M. induction M as [|d M IH]; intros e H; cbn [fold_left estep find].
  - reflexivity.
  - rewrite H. destruct (agg_of t L d) eqn:A.
    + apply fold_estep_agg. exact A.
    + rewrite IH by exact A. rewrite last_opt_cons.
      destruct (find (agg_of t L) M); [reflexivity|]. destruct (last_opt M); reflexivity.
Qed.

Lemma fold_estep_none : forall t L M, fold_left (estep t L) M None = choose t L M.
Proof.
  intros t L M. unfold choose. destruct M as [|d M]; [reflexivity|].
  cbn [fold_left estep find]. destruct (agg_of t L d) eqn:A.
  - apply fold_estep_agg. exact A.
  - rewrite fold_estep_some by exact A. rewrite last_opt_cons.
    destruct (find (agg_of t L) M); [reflexivity|]. destruct (last_opt M); reflexivity.
Qed.

(* the recorded entry of every pair, for every duty list *)
Lemma info_entry : forall t ok ds s c,
  find_sub s c (subscription_info t ok ds) = choose t (sort_duties ds) (members ok (sort_duties ds) s c).
Proof.
  intros t ok ds s c. unfold subscription_info. rewrite find_fold_add_member.
  change (find_sub s c []) with (@None sub). rewrite fold_estep_none. reflexivity.
Qed.

Lemma choose_none_iff : forall t L M, choose t L M = None <-> M = [].
Proof.
  intros t L M. unfold choose. destruct (find (agg_of t L) M) eqn:F.
  - split; [discriminate|]. intros ->. discriminate.
  - destruct (last_opt M) eqn:E; cbn [option_map].
    + split; [discriminate|]. intros ->. discriminate.
    + apply last_opt_none in E. subst. tauto.
Qed.

Lemma choose_some : forall t L M e, choose t L M = Some e ->
  exists d, In d M /\ e = mk_sub t L d /\
            (agg_of t L d = false -> forall d', In d' M -> agg_of t L d' = false).
Proof.
  intros t L M e H. unfold choose in H. destruct (find (agg_of t L) M) as [d|] eqn:F.
  - injection H as <-. apply find_some in F as [Hi Ha]. exists d. split; [exact Hi|]. split; [reflexivity|].
    intro. congruence.
  - destruct (last_opt M) as [d|] eqn:E; [|discriminate]. injection H as <-.
    exists d. split; [apply last_opt_in; exact E|]. split; [reflexivity|].
    intros _ d' Hd'. destruct (agg_of t L d') eqn:A; [|reflexivity].
    pose proof (find_none _ _ F d' Hd'). congruence.
Qed.

(* sorting is a permutation, as far as membership goes *)
Lemma in_insert_duty : forall x y l, In y (insert_duty x l) <-> y = x \/ In y l.
Proof.
  intros x y l. induction l as [|z l IH]; cbn [insert_duty In].
  - intuition.
  - destruct (duty_leb x z); cbn [In]; [intuition|]. rewrite IH. intuition.
Qed.

Lemma in_sort_duties : forall y l, In y (sort_duties l) <-> In y l.
Proof.
  intros y l. unfold sort_duties. induction l as [|x l IH]; cbn [fold_right In]; [tauto|].
  rewrite in_insert_duty, IH. intuition.
Qed.

Lemma in_members : forall ok L s c d,
  In d (members ok L s c) <-> In d L /\ d_slot d = s /\ d_comm d = c /\ ok s = true.
Proof.
  intros ok L s c d. unfold members. rewrite !filter_In, same_key_iff. unfold dkey. split.
  - intros [[H1 H2] H3]. injection H3 as <- <-. auto.
  - intros (H1 & <- & <- & H4). auto.
Qed.

(* the keys of the info are exactly the pairs with a duty (whose slot could be signed) *)
Lemma info_keys : forall t ok ds s c,
  In (s, c) (map skey (subscription_info t ok ds)) <-> exists d, duty_for ok ds s c d.
Proof.
  intros t ok ds s c. split.
  - intro H. destruct (find_sub s c (subscription_info t ok ds)) as [e|] eqn:F.
    + rewrite info_entry in F. apply choose_some in F as (d & Hd & _).
      apply in_members in Hd as (H1 & H2 & H3 & H4). rewrite in_sort_duties in H1.
      exists d. unfold duty_for. repeat split; assumption.
    + apply find_sub_none_iff in F. contradiction.
  - intros (d & H1 & H2 & H3 & H4).
    destruct (find_sub s c (subscription_info t ok ds)) as [e|] eqn:F.
    + apply find_sub_some in F as (Hi & <- & <-). change (s_slot e, s_comm e) with (skey e).
      apply in_map. exact Hi.
    + rewrite info_entry in F. apply choose_none_iff in F.
      assert (Hm : In d (members ok (sort_duties ds) s c)).
      { apply in_members. rewrite in_sort_duties. repeat split; assumption. }
      rewrite F in Hm. destruct Hm.
Qed.

Lemma add_member_nodup : forall t L info d,
  NoDup (map skey info) -> NoDup (map skey (add_member t L info d)).
Proof.
  intros t L info d ND. unfold add_member.
  destruct (find_sub (d_slot d) (d_comm d) info) as [e|]; [destruct (s_agg e); [exact ND|]|];
    apply put_nodup; exact ND.
Qed.

Lemma fold_add_member_nodup : forall t L M info,
  NoDup (map skey info) -> NoDup (map skey (fold_left (add_member t L) M info)).
Proof.
  intros t L M. induction M as [|d M IH]; intros info ND; cbn [fold_left]; [exact ND|].
  apply IH. apply add_member_nodup. exact ND.
Qed.

Lemma info_nodup : forall t ok ds, NoDup (map skey (subscription_info t ok ds)).
Proof. intros. unfold subscription_info. apply fold_add_member_nodup. constructor. Qed.

(* every stored entry was made from one of the committee's duties *)
Lemma info_entry_in : forall t ok ds e,
  In e (subscription_info t ok ds) ->
  exists d, duty_for ok ds (s_slot e) (s_comm e) d /\ e = mk_sub t (sort_duties ds) d /\
    (s_agg e = false -> forall d', duty_for ok ds (s_slot e) (s_comm e) d' -> agg_of t (sort_duties ds) d' = false).
Proof.
  intros t ok ds e Hi.
  pose proof (find_sub_in_nodup _ e (info_nodup t ok ds) Hi) as F.
  rewrite info_entry in F. apply choose_some in F as (d & Hd & He & Hn).
  exists d. apply in_members in Hd as (H1 & H2 & H3 & H4). rewrite in_sort_duties in H1.
  split; [unfold duty_for; repeat split; assumption|]. split; [exact He|].
  intros Ha d' (G1 & G2 & G3 & G4). apply Hn.
  - rewrite He in Ha. exact Ha.
  - apply in_members. rewrite in_sort_duties. repeat split; assumption.
Qed.

(* =========================================================================================== *)
(* Part 4.  The merged lengths under a self-consistent answer; the submission.                 *)

Lemma fold_last_by : forall {A} (p : A -> bool) l acc,
  fold_left (fun acc x => if p x then Some x else acc) l acc =
  match last_opt (filter p l) with Some y => Some y | None => acc end.
Proof.
  intros A p l. induction l as [|x l IH]; intro acc; cbn [fold_left filter]; [reflexivity|].
  rewrite IH. destruct (p x); [|reflexivity].
  rewrite last_opt_cons. destruct (last_opt (filter p l)); reflexivity.
Qed.

Lemma last_by_filter : forall {A} (p : A -> bool) l, last_by p l = last_opt (filter p l).
Proof. intros. unfold last_by. rewrite fold_last_by. destruct (last_opt _); reflexivity. Qed.

Lemma last_by_some : forall {A} (p : A -> bool) l x, last_by p l = Some x -> In x l /\ p x = true.
Proof.
  intros A p l x H. rewrite last_by_filter in H. apply last_opt_in in H. apply filter_In in H. exact H.
Qed.

Lemma last_by_none : forall {A} (p : A -> bool) l x, last_by p l = None -> In x l -> p x = false.
Proof.
  intros A p l x H Hi. rewrite last_by_filter in H. apply last_opt_none in H.
  destruct (p x) eqn:E; [|reflexivity].
  assert (Hf : In x (filter p l)) by (apply filter_In; auto). rewrite H in Hf. destruct Hf.
Qed.

Lemma same_slot_iff : forall s d, same_slot s d = true <-> d_slot d = s.
Proof. intros. unfold same_slot. apply N.eqb_eq. Qed.

Lemma consistent_cas : forall ds d, consistent_duties ds -> In d ds ->
  cas_of (sort_duties ds) (d_slot d) = d_cas d.
Proof.
  intros ds d C Hd. unfold cas_of.
  destruct (last_by (same_slot (d_slot d)) (sort_duties ds)) as [x|] eqn:E.
  - apply last_by_some in E as [Hx Hs]. rewrite in_sort_duties in Hx. apply same_slot_iff in Hs.
    apply (C x d Hx Hd Hs).
  - assert (H : same_slot (d_slot d) d = false).
    { eapply last_by_none; [exact E|]. apply in_sort_duties. exact Hd. }
    assert (same_slot (d_slot d) d = true) by (apply same_slot_iff; reflexivity). congruence.
Qed.

Lemma consistent_len : forall ds d, consistent_duties ds -> In d ds ->
  len_of (sort_duties ds) (d_slot d) (d_comm d) = d_len d.
Proof.
  intros ds d C Hd. unfold len_of.
  destruct (last_by (same_key (d_slot d) (d_comm d)) (sort_duties ds)) as [x|] eqn:E.
  - apply last_by_some in E as [Hx Hs]. rewrite in_sort_duties in Hx. apply same_key_iff in Hs.
    unfold dkey in Hs. injection Hs as H1 H2. apply (C x d Hx Hd H1). exact H2.
  - assert (H : same_key (d_slot d) (d_comm d) d = false).
    { eapply last_by_none; [exact E|]. apply in_sort_duties. exact Hd. }
    assert (same_key (d_slot d) (d_comm d) d = true) by (apply same_key_iff; reflexivity). congruence.
Qed.

(* under a self-consistent answer with proper digests, the flag vouch computes for a validator is
   the specification's rule on that validator's own duty *)
Lemma agg_of_selected : forall t ds d, consistent_duties ds -> digests_ok ds -> In d ds ->
  agg_of t (sort_duties ds) d = selected t d.
Proof.
  intros t ds d C G Hd. unfold agg_of, selected. rewrite consistent_len by assumption.
  destruct (G d Hd) as [Hb Hl]. apply is_aggregator_spec_lemma; assumption.
Qed.

Lemma to_submit_keys : forall cur info,
  map pkey (to_submit cur info) = filter (fun k => cur <? fst k) (map skey info).
Proof.
  intros cur info. unfold to_submit. induction info as [|e info IH]; cbn [filter map]; [reflexivity|].
  change (fst (skey e)) with (s_slot e). destruct (cur <? s_slot e); cbn [map]; rewrite IH; reflexivity.
Qed.

Lemma in_to_submit : forall cur info p,
  In p (to_submit cur info) <-> exists e, In e info /\ cur < s_slot e /\ p = to_subscription e.
Proof.
  intros cur info p. unfold to_submit. rewrite in_map_iff. split.
  - intros (e & <- & He). apply filter_In in He as [H1 H2]. apply N.ltb_lt in H2. exists e. auto.
  - intros (e & H1 & H2 & ->). exists e. split; [reflexivity|]. apply filter_In. split; [exact H1|].
    apply N.ltb_lt. exact H2.
Qed.

(* The submitted payload, for every duty list and every current slot. *)
Lemma submitted_nodup : forall t ok ds cur,
  NoDup (map pkey (to_submit cur (subscription_info t ok ds))).
Proof. intros. rewrite to_submit_keys. apply NoDup_filter. apply info_nodup. Qed.

Lemma submitted_pairs : forall t ok ds cur s c,
  In (s, c) (map pkey (to_submit cur (subscription_info t ok ds))) <->
  cur < s /\ exists d, duty_for ok ds s c d.
Proof.
  intros t ok ds cur s c. rewrite to_submit_keys, filter_In, info_keys. cbn [fst].
  rewrite N.ltb_lt. tauto.
Qed.

Lemma submitted_entry : forall t ok ds cur p,
  In p (to_submit cur (subscription_info t ok ds)) ->
  cur < p_slot p /\
  exists d, duty_for ok ds (p_slot p) (p_comm p) d /\
            p_val p = d_val d /\
            p_cas p = cas_of (sort_duties ds) (p_slot p) /\
            p_agg p = agg_of t (sort_duties ds) d.
Proof.
  intros t ok ds cur p Hp. apply in_to_submit in Hp as (e & He & Hc & ->).
  apply info_entry_in in He as (d & Hd & Hm & _).
  cbn [to_subscription p_slot p_comm p_val p_cas p_agg]. split; [exact Hc|].
  exists d. split; [exact Hd|]. rewrite Hm. cbn [mk_sub s_val s_cas s_agg s_slot]. auto.
Qed.

Lemma submitted_entry_consistent : forall t ok ds cur p,
  consistent_duties ds -> digests_ok ds ->
  In p (to_submit cur (subscription_info t ok ds)) ->
  exists d, duty_for ok ds (p_slot p) (p_comm p) d /\ p_val p = d_val d /\
            p_cas p = d_cas d /\ p_agg p = selected t d.
Proof.
  intros t ok ds cur p C G Hp. apply submitted_entry in Hp as (_ & d & Hd & Hv & Hc & Ha).
  exists d. split; [exact Hd|]. split; [exact Hv|].
  destruct Hd as (H1 & H2 & H3 & H4). split.
  - rewrite Hc, <- H2. apply consistent_cas; assumption.
  - rewrite Ha. apply agg_of_selected; assumption.
Qed.

(* Part 4b.  A committee with a selected validator records (and submits) a selected one. *)
Lemma recorded_aggregator : forall t ok ds s c d,
  duty_for ok ds s c d -> agg_of t (sort_duties ds) d = true ->
  exists e d', find_sub s c (subscription_info t ok ds) = Some e /\ s_agg e = true /\
               duty_for ok ds s c d' /\ e = mk_sub t (sort_duties ds) d' /\
               agg_of t (sort_duties ds) d' = true.
Proof.
  intros t ok ds s c d Hd Ha.
  destruct (find_sub s c (subscription_info t ok ds)) as [e|] eqn:F.
  - pose proof F as F'. apply find_sub_some in F' as (Hi & Hs & Hc).
    apply info_entry_in in Hi as (d' & Hd' & He & Hn). rewrite Hs, Hc in *.
    destruct (s_agg e) eqn:A.
    + exists e, d'. split; [reflexivity|]. split; [exact A|]. split; [exact Hd'|]. split; [exact He|].
      rewrite He in A. exact A.
    + rewrite (Hn eq_refl d Hd) in Ha. discriminate.
  - exfalso. apply find_sub_none_iff in F. apply F. apply info_keys. exists d. exact Hd.
Qed.

Lemma recorded_flag_sound : forall t ok ds s c e,
  find_sub s c (subscription_info t ok ds) = Some e ->
  exists d, duty_for ok ds s c d /\ e = mk_sub t (sort_duties ds) d /\
            (s_agg e = true <-> exists d', duty_for ok ds s c d' /\ agg_of t (sort_duties ds) d' = true).
Proof.
  intros t ok ds s c e F. pose proof F as F'. apply find_sub_some in F' as (Hi & Hs & Hc).
  apply info_entry_in in Hi as (d & Hd & He & Hn). rewrite Hs, Hc in *.
  exists d. split; [exact Hd|]. split; [exact He|]. split.
  - intro A. exists d. split; [exact Hd|]. rewrite He in A. exact A.
  - intros (d' & Hd' & A'). destruct (s_agg e) eqn:A; [reflexivity|].
    rewrite (Hn eq_refl d' Hd') in A'. discriminate.
Qed.

(* =========================================================================================== *)
(* Part 5.  Order: MergeDuties' sort, which validator is recorded, and independence of the     *)
(* future subscriptions from the duties that are not in the future.                            *)

Definition dle (a b : duty) : Prop := duty_leb a b = true.

Lemma duty_leb_iff : forall a b, duty_leb a b = true <->
  d_slot a < d_slot b \/ (d_slot a = d_slot b /\ (d_comm a < d_comm b \/ (d_comm a = d_comm b /\ d_val a <= d_val b))).
Proof.
  intros a b. unfold duty_leb.
  destruct (N.ltb_spec (d_slot a) (d_slot b)); [split; [intros _; lia|reflexivity]|].
  destruct (N.ltb_spec (d_slot b) (d_slot a)); [split; [discriminate|lia]|].
  destruct (N.ltb_spec (d_comm a) (d_comm b)); [split; [intros _; lia|reflexivity]|].
  destruct (N.ltb_spec (d_comm b) (d_comm a)); [split; [discriminate|lia]|].
  rewrite N.leb_le. lia.
Qed.

Lemma duty_leb_total : forall x y, duty_leb x y = false -> duty_leb y x = true.
Proof.
  intros x y H. apply duty_leb_iff.
  assert (N : ~ (duty_leb x y = true)) by congruence. rewrite duty_leb_iff in N. lia.
Qed.

Lemma duty_leb_trans : forall x y z, dle x y -> dle y z -> dle x z.
Proof. intros x y z. unfold dle. rewrite !duty_leb_iff. lia. Qed.

Lemma dle_refl : forall x, dle x x.
Proof. intro x. unfold dle. apply duty_leb_iff. lia. Qed.

Lemma dle_same_key_val : forall a b, dle a b -> dkey a = dkey b -> d_val a <= d_val b.
Proof.
  intros a b H K. unfold dkey in K. injection K as K1 K2. unfold dle, duty_leb in H.
  rewrite K1, K2, !N.ltb_irrefl in H. apply N.leb_le. exact H.
Qed.

Lemma insert_sorted : forall x l, StronglySorted dle l -> StronglySorted dle (insert_duty x l).
Proof.
  intros x l S. induction S as [|y l S IH F]; cbn [insert_duty].
  - constructor; constructor.
  - destruct (duty_leb x y) eqn:E.
    + constructor; [constructor; assumption|]. constructor; [exact E|].
      rewrite Forall_forall in *. intros z Hz. eapply duty_leb_trans; [exact E|]. apply F. exact Hz.
    + constructor; [exact IH|]. rewrite Forall_forall in *. intros z Hz.
      apply in_insert_duty in Hz as [->|Hz]; [apply duty_leb_total; exact E|apply F; exact Hz].
Qed.

Lemma sort_sorted : forall l, StronglySorted dle (sort_duties l).
Proof.
  intro l. unfold sort_duties. induction l as [|x l IH]; cbn [fold_right]; [constructor|].
  apply insert_sorted. exact IH.
Qed.

Lemma filter_sorted : forall (f : duty -> bool) l, StronglySorted dle l -> StronglySorted dle (filter f l).
Proof.
  intros f l S. induction S as [|y l S IH F]; cbn [filter]; [constructor|].
  destruct (f y); [|exact IH]. constructor; [exact IH|].
  rewrite Forall_forall in *. intros z Hz. apply filter_In in Hz as [Hz _]. apply F. exact Hz.
Qed.

Lemma find_first_sorted : forall (p : duty -> bool) M d,
  StronglySorted dle M -> find p M = Some d -> forall d', In d' M -> p d' = true -> dle d d'.
Proof.
  intros p M d S. induction S as [|y l S IH F]; cbn [find]; intros H d' Hi Hp; [discriminate|].
  destruct (p y) eqn:E.
  - injection H as <-. destruct Hi as [<-|Hi].
    + apply dle_refl.
    + rewrite Forall_forall in F. apply F. exact Hi.
  - destruct Hi as [<-|Hi]; [congruence|]. apply IH; assumption.
Qed.

Lemma last_opt_sorted : forall M d,
  StronglySorted dle M -> last_opt M = Some d -> forall d', In d' M -> dle d' d.
Proof.
  intros M d S. induction S as [|y l S IH F]; intros H d' Hi; [discriminate|].
  rewrite last_opt_cons in H. destruct (last_opt l) as [z|] eqn:E.
  - injection H as <-. destruct Hi as [<-|Hi].
    + rewrite Forall_forall in F. apply F. apply last_opt_in. exact E.
    + apply IH; [reflexivity|exact Hi].
  - injection H as <-. apply last_opt_none in E. subst l. destruct Hi as [<-|[]].
    apply dle_refl.
Qed.

Lemma members_sorted : forall ok ds s c, StronglySorted dle (members ok (sort_duties ds) s c).
Proof. intros. unfold members. apply filter_sorted, filter_sorted, sort_sorted. Qed.

(* which validator: the selected one with the lowest index, else the highest index *)
Lemma recorded_which : forall t ok ds s c e,
  find_sub s c (subscription_info t ok ds) = Some e ->
  (s_agg e = true ->
     forall d', duty_for ok ds s c d' -> agg_of t (sort_duties ds) d' = true -> s_val e <= d_val d') /\
  (s_agg e = false -> forall d', duty_for ok ds s c d' -> d_val d' <= s_val e).
Proof.
  intros t ok ds s c e F. rewrite info_entry in F. unfold choose in F.
  pose proof (members_sorted ok ds s c) as S.
  assert (K : forall x, In x (members ok (sort_duties ds) s c) -> dkey x = (s, c)).
  { intros x Hx. apply in_members in Hx as (_ & <- & <- & _). reflexivity. }
  assert (IM : forall d', duty_for ok ds s c d' -> In d' (members ok (sort_duties ds) s c)).
  { intros d' (H1 & H2 & H3 & H4). apply in_members. rewrite in_sort_duties. repeat split; assumption. }
  destruct (find (agg_of t (sort_duties ds)) (members ok (sort_duties ds) s c)) as [d|] eqn:Fd.
  - injection F as <-. split.
    + intros _ d' Hd' Ha. apply dle_same_key_val.
      * eapply find_first_sorted; [exact S|exact Fd|apply IM; exact Hd'|exact Ha].
      * rewrite (K d), (K d'); [reflexivity|apply IM; exact Hd'|]. apply find_some in Fd. apply Fd.
    + intro A. apply find_some in Fd as [_ Fd]. rewrite s_agg_mk_sub in A. congruence.
  - destruct (last_opt (members ok (sort_duties ds) s c)) as [d|] eqn:El; [|discriminate].
    injection F as <-. split.
    + intro A. rewrite s_agg_mk_sub in A. pose proof (find_none _ _ Fd d (last_opt_in _ _ El)). congruence.
    + intros _ d' Hd'. apply dle_same_key_val.
      * eapply last_opt_sorted; [exact S|exact El|apply IM; exact Hd'].
      * rewrite (K d), (K d'); [reflexivity|apply IM; exact Hd'|]. apply last_opt_in. exact El.
Qed.

(* --- sorting commutes with filtering --- *)
Lemma insert_head : forall x l, Forall (dle x) l -> insert_duty x l = x :: l.
Proof.
  intros x l F. destruct l as [|y l]; [reflexivity|]. cbn [insert_duty].
  inversion F as [|? ? H _]; subst. unfold dle in H. rewrite H. reflexivity.
Qed.

Lemma filter_insert : forall (f : duty -> bool) x l, StronglySorted dle l ->
  filter f (insert_duty x l) = if f x then insert_duty x (filter f l) else filter f l.
Proof.
  intros f x l S. induction S as [|y l S IH F]; cbn [insert_duty filter].
  - destruct (f x); reflexivity.
  - destruct (duty_leb x y) eqn:E; cbn [filter].
    + destruct (f x) eqn:Fx; [|reflexivity].
      destruct (f y) eqn:Fy.
      * cbn [insert_duty]. rewrite E. reflexivity.
      * rewrite insert_head; [reflexivity|].
        rewrite Forall_forall in *. intros z Hz. apply filter_In in Hz as [Hz _].
        eapply duty_leb_trans; [exact E|]. apply F. exact Hz.
    + rewrite IH. destruct (f y) eqn:Fy; destruct (f x) eqn:Fx; try reflexivity.
      cbn [insert_duty]. rewrite E. reflexivity.
Qed.

Lemma sort_filter : forall (f : duty -> bool) l, sort_duties (filter f l) = filter f (sort_duties l).
Proof.
  intros f l. unfold sort_duties. induction l as [|x l IH]; cbn [filter fold_right]; [reflexivity|].
  rewrite filter_insert by apply sort_sorted. destruct (f x); cbn [fold_right]; rewrite IH; reflexivity.
Qed.

(* --- restriction of the info to the slots satisfying [g] --- *)
Section Restrict.
  Variable g : N -> bool.
  Let q (e : sub) : bool := g (s_slot e).
  Let q' (d : duty) : bool := g (d_slot d).

  Lemma filter_put : forall e info,
    filter q (put e info) = if q e then put e (filter q info) else filter q info.
  Proof.
    intros e info. induction info as [|x info IH]; cbn [put filter].
    - destruct (q e); reflexivity.
    - destruct (sub_key_eqb (s_slot e) (s_comm e) x) eqn:K.
      + assert (Hq : q x = q e).
        { apply sub_key_eqb_iff in K. unfold skey in K. injection K as K1 K2. unfold q. rewrite K1. reflexivity. }
        cbn [filter]. rewrite Hq. destruct (q e); [|reflexivity]. cbn [put]. rewrite K. reflexivity.
      + cbn [filter]. rewrite IH. destruct (q x), (q e); try reflexivity. cbn [put]. rewrite K. reflexivity.
  Qed.

  Lemma find_sub_filter : forall s c info, g s = true -> find_sub s c (filter q info) = find_sub s c info.
  Proof.
    intros s c info G. unfold find_sub. induction info as [|x info IH]; cbn [filter find]; [reflexivity|].
    destruct (sub_key_eqb s c x) eqn:K.
    - assert (Hq : q x = true).
      { apply sub_key_eqb_iff in K. unfold skey in K. injection K as K1 K2. unfold q. rewrite K1. exact G. }
      rewrite Hq. cbn [find]. rewrite K. reflexivity.
    - destruct (q x); [cbn [find]; rewrite K|]; exact IH.
  Qed.

  Lemma filter_add_member : forall t L info d,
    filter q (add_member t L info d) = if q' d then add_member t L (filter q info) d else filter q info.
  Proof.
    intros t L info d. unfold add_member. destruct (q' d) eqn:G.
    - rewrite find_sub_filter by exact G.
      assert (Hq : q (mk_sub t L d) = true) by exact G.
      destruct (find_sub (d_slot d) (d_comm d) info) as [e|];
        [destruct (s_agg e); [reflexivity|]|]; rewrite filter_put, Hq; reflexivity.
    - assert (Hq : q (mk_sub t L d) = false) by exact G.
      destruct (find_sub (d_slot d) (d_comm d) info) as [e|];
        [destruct (s_agg e); [reflexivity|]|]; rewrite filter_put, Hq; reflexivity.
  Qed.

  Lemma filter_fold_add_member : forall t L M info,
    filter q (fold_left (add_member t L) M info) = fold_left (add_member t L) (filter q' M) (filter q info).
  Proof.
    intros t L M. induction M as [|d M IH]; intro info; cbn [fold_left filter]; [reflexivity|].
    rewrite IH, filter_add_member. destruct (q' d); reflexivity.
  Qed.

  Lemma last_by_restrict : forall (p : duty -> bool) L,
    (forall d, p d = true -> q' d = true) -> last_by p (filter q' L) = last_by p L.
  Proof.
    intros p L H. rewrite !last_by_filter. f_equal.
    induction L as [|d L IH]; cbn [filter]; [reflexivity|].
    destruct (q' d) eqn:G; cbn [filter].
    - rewrite IH. reflexivity.
    - destruct (p d) eqn:P; [|exact IH]. apply H in P. congruence.
  Qed.

  Lemma mk_sub_restrict : forall t L d, q' d = true -> mk_sub t (filter q' L) d = mk_sub t L d.
  Proof.
    intros t L d G. unfold mk_sub, agg_of, len_of, cas_of.
    rewrite !last_by_restrict; [reflexivity| |].
    - intros x Hx. apply same_slot_iff in Hx. unfold q'. rewrite Hx. exact G.
    - intros x Hx. apply same_key_iff in Hx. unfold dkey in Hx. injection Hx as H1 H2. unfold q'. rewrite H1. exact G.
  Qed.

  Lemma add_member_restrict : forall t L info d, q' d = true ->
    add_member t (filter q' L) info d = add_member t L info d.
  Proof. intros. unfold add_member. rewrite mk_sub_restrict by assumption. reflexivity. Qed.

  Lemma fold_left_ext_in : forall {A B} (f1 f2 : A -> B -> A) l a,
    (forall a x, In x l -> f1 a x = f2 a x) -> fold_left f1 l a = fold_left f2 l a.
  Proof.
    intros A B f1 f2 l. induction l as [|x l IH]; intros a H; cbn [fold_left]; [reflexivity|].
    rewrite H by (left; reflexivity). apply IH. intros. apply H. right. assumption.
  Qed.

  Lemma filter_comm : forall {A} (f1 f2 : A -> bool) l, filter f1 (filter f2 l) = filter f2 (filter f1 l).
  Proof.
    intros A f1 f2 l. induction l as [|x l IH]; cbn [filter]; [reflexivity|].
    destruct (f1 x) eqn:E1, (f2 x) eqn:E2; cbn [filter]; rewrite ?E1, ?E2, IH; reflexivity.
  Qed.

  (* the entries of the slots satisfying [g] are those computed from the duties of these slots alone *)
  Lemma info_restrict : forall t ok ds,
    filter q (subscription_info t ok ds) = subscription_info t ok (filter q' ds).
  Proof.
    intros t ok ds. unfold subscription_info. rewrite filter_fold_add_member. cbn [filter].
    rewrite sort_filter. rewrite filter_comm.
    apply fold_left_ext_in. intros a x Hx. symmetry. apply add_member_restrict.
    apply filter_In in Hx as [Hx _]. apply filter_In in Hx as [_ Hx]. exact Hx.
  Qed.
End Restrict.

Lemma submitted_independent_of_past : forall t ok ds cur,
  to_submit cur (subscription_info t ok ds) =
  map to_subscription (subscription_info t ok (filter (fun d => cur <? d_slot d) ds)).
Proof.
  intros t ok ds cur. unfold to_submit.
  rewrite (info_restrict (fun s => cur <? s)). reflexivity.
Qed.

Lemma filter_idem : forall {A} (f : A -> bool) l, filter f (filter f l) = filter f l.
Proof.
  intros A f l. induction l as [|x l IH]; cbn [filter]; [reflexivity|].
  destruct (f x) eqn:E; cbn [filter]; rewrite ?E, IH; reflexivity.
Qed.

Lemma submitted_independent_of_past' : forall t ok ds cur,
  to_submit cur (subscription_info t ok ds) =
  to_submit cur (subscription_info t ok (filter (fun d => cur <? d_slot d) ds)).
Proof.
  intros t ok ds cur. rewrite (submitted_independent_of_past t ok (filter _ ds)), filter_idem.
  apply submitted_independent_of_past.
Qed.

(* =========================================================================================== *)
(* Part 6.  AttestAndScheduleAggregate.                                                        *)

(* the entry that makes an attestation's committee eligible for an aggregation job *)
Definition elig (info : list sub) (cur : N) (acct_ok : N -> bool) (a : att) : option sub :=
  match find_sub (a_slot a) (a_comm a) info with
  | None => None
  | Some e => if a_slot a <? cur then None
              else if negb (s_agg e) then None
              else if negb (acct_ok (s_val e)) then None else Some e
  end.

Lemma elig_some_iff : forall info cur acct_ok a e,
  elig info cur acct_ok a = Some e <->
  find_sub (a_slot a) (a_comm a) info = Some e /\ cur <= a_slot a /\ s_agg e = true /\ acct_ok (s_val e) = true.
Proof.
  intros info cur acct_ok a e. unfold elig.
  destruct (find_sub (a_slot a) (a_comm a) info) as [e'|].
  - destruct (N.ltb_spec (a_slot a) cur).
    + split; [discriminate|]. intros (_ & H1 & _). lia.
    + destruct (s_agg e') eqn:A; cbn [negb].
      * destruct (acct_ok (s_val e')) eqn:B; cbn [negb].
        -- split; [intro E; injection E as <-; auto|]. intros (E & _). exact E.
        -- split; [discriminate|]. intros (E & _ & _ & B'). injection E as <-. congruence.
      * split; [discriminate|]. intros (E & _ & A' & _). injection E as <-. congruence.
  - split; [discriminate|]. intros (E & _). discriminate.
Qed.

Lemma attest_step_elig : forall pr info cur acct_ok jobs a,
  attest_step pr info cur acct_ok jobs a =
  match elig info cur acct_ok a with
  | Some e => if has_job (a_slot a) (a_comm a) jobs then jobs else jobs ++ [mk_job pr a e]
  | None => jobs
  end.
Proof.
  intros. unfold attest_step, elig.
  destruct (find_sub (a_slot a) (a_comm a) info) as [e|]; [|reflexivity].
  destruct (a_slot a <? cur); [reflexivity|].
  destruct (negb (s_agg e)); [reflexivity|].
  destruct (negb (acct_ok (s_val e))); reflexivity.
Qed.

Lemma job_key_eqb_iff : forall s c j, job_key_eqb s c j = true <-> jkey j = (s, c).
Proof.
  intros s c j. unfold job_key_eqb, jkey. rewrite andb_true_iff, !N.eqb_eq. split.
  - intros [-> ->]. reflexivity.
  - intro H. injection H as -> ->. split; reflexivity.
Qed.

Lemma has_job_iff : forall s c jobs, has_job s c jobs = true <-> In (s, c) (map jkey jobs).
Proof.
  intros s c jobs. unfold has_job. rewrite existsb_exists, in_map_iff. split.
  - intros (j & Hj & K). apply job_key_eqb_iff in K. exists j. auto.
  - intros (j & K & Hj). exists j. split; [exact Hj|]. apply job_key_eqb_iff. exact K.
Qed.

Lemma has_job_false_iff : forall s c jobs, has_job s c jobs = false <-> ~ In (s, c) (map jkey jobs).
Proof.
  intros s c jobs. rewrite <- has_job_iff. destruct (has_job s c jobs); split; congruence.
Qed.

Lemma jkey_mk_job : forall pr a e, jkey (mk_job pr a e) = akey a.
Proof. reflexivity. Qed.

(* one attestation: nothing is lost, keys stay distinct, the committee is served if eligible *)
Lemma attest_step_prefix : forall pr info cur acct_ok jobs a,
  exists new, attest_step pr info cur acct_ok jobs a = jobs ++ new.
Proof.
  intros. rewrite attest_step_elig. destruct (elig info cur acct_ok a) as [e|].
  - destruct (has_job _ _ jobs); [exists []; rewrite app_nil_r; reflexivity|eexists; reflexivity].
  - exists []. rewrite app_nil_r. reflexivity.
Qed.

Lemma nodup_app_one : forall {A} (l : list A) x, NoDup l -> ~ In x l -> NoDup (l ++ [x]).
Proof.
  intros A l x ND Hn. apply NoDup_rev in ND. rewrite <- (rev_involutive (_ ++ _)). apply NoDup_rev.
  rewrite rev_app_distr. cbn. constructor; [|exact ND]. rewrite <- in_rev. exact Hn.
Qed.

Lemma attest_step_nodup : forall pr info cur acct_ok jobs a,
  NoDup (map jkey jobs) -> NoDup (map jkey (attest_step pr info cur acct_ok jobs a)).
Proof.
  intros pr info cur acct_ok jobs a ND. rewrite attest_step_elig.
  destruct (elig info cur acct_ok a) as [e|]; [|exact ND].
  destruct (has_job (a_slot a) (a_comm a) jobs) eqn:H; [exact ND|].
  rewrite map_app. cbn [map]. apply nodup_app_one; [exact ND|].
  apply has_job_false_iff in H. exact H.
Qed.

Lemma attest_run_prefix : forall pr info cur acct_ok atts jobs,
  exists new, attest_run pr info cur acct_ok jobs atts = jobs ++ new.
Proof.
  intros pr info cur acct_ok atts. unfold attest_run.
  induction atts as [|a atts IH]; intro jobs; cbn [fold_left].
  - exists []. rewrite app_nil_r. reflexivity.
  - destruct (attest_step_prefix pr info cur acct_ok jobs a) as [n1 E1]. rewrite E1.
    destruct (IH (jobs ++ n1)) as [n2 E2]. rewrite E2. exists (n1 ++ n2). rewrite app_assoc. reflexivity.
Qed.

Lemma attest_run_nodup : forall pr info cur acct_ok atts jobs,
  NoDup (map jkey jobs) -> NoDup (map jkey (attest_run pr info cur acct_ok jobs atts)).
Proof.
  intros pr info cur acct_ok atts. unfold attest_run.
  induction atts as [|a atts IH]; intros jobs ND; cbn [fold_left]; [exact ND|].
  apply IH. apply attest_step_nodup. exact ND.
Qed.

(* every job of the result was there before or was made from an eligible attestation of this call *)
Lemma attest_run_sound : forall pr info cur acct_ok atts jobs j,
  In j (attest_run pr info cur acct_ok jobs atts) ->
  In j jobs \/ exists a e, In a atts /\ elig info cur acct_ok a = Some e /\ j = mk_job pr a e /\
                           ~ In (akey a) (map jkey jobs).
Proof.
  intros pr info cur acct_ok atts. unfold attest_run.
  induction atts as [|a atts IH]; intros jobs j Hj; cbn [fold_left] in Hj; [left; exact Hj|].
  apply IH in Hj as [Hj|(a' & e & Ha & He & -> & Hn)].
  - rewrite attest_step_elig in Hj. destruct (elig info cur acct_ok a) as [e|] eqn:E; [|left; exact Hj].
    destruct (has_job (a_slot a) (a_comm a) jobs) eqn:H; [left; exact Hj|].
    apply in_app_or in Hj as [Hj|[<-|[]]]; [left; exact Hj|].
    right. exists a, e. split; [left; reflexivity|]. split; [exact E|]. split; [reflexivity|].
    apply has_job_false_iff in H. exact H.
  - right. exists a', e. split; [right; exact Ha|]. split; [exact He|]. split; [reflexivity|].
    intro Hi. apply Hn. destruct (attest_step_prefix pr info cur acct_ok jobs a) as [n E]. rewrite E.
    rewrite map_app. apply in_or_app. left. exact Hi.
Qed.

(* every eligible attested committee has a job afterwards *)
Lemma attest_run_complete : forall pr info cur acct_ok atts jobs a e,
  In a atts -> elig info cur acct_ok a = Some e ->
  In (akey a) (map jkey (attest_run pr info cur acct_ok jobs atts)).
Proof.
  intros pr info cur acct_ok atts. unfold attest_run.
  induction atts as [|x atts IH]; intros jobs a e Ha He; [destruct Ha|]. cbn [fold_left].
  destruct Ha as [->|Ha]; [|eapply IH; eassumption].
  destruct (attest_run_prefix pr info cur acct_ok atts (attest_step pr info cur acct_ok jobs a)) as [n E].
  unfold attest_run in E. rewrite E, map_app. apply in_or_app. left.
  rewrite attest_step_elig, He.
  destruct (has_job (a_slot a) (a_comm a) jobs) eqn:H; [apply has_job_iff; exact H|].
  rewrite map_app. apply in_or_app. right. left. reflexivity.
Qed.

Lemma nodup_key_unique : forall {A K} (f : A -> K) l x y,
  NoDup (map f l) -> In x l -> In y l -> f x = f y -> x = y.
Proof.
  intros A K f l. induction l as [|z l IH]; intros x y ND Hx Hy E; [destruct Hx|].
  cbn [map] in ND. inversion ND as [|? ? Hn ND']; subst.
  destruct Hx as [->|Hx], Hy as [->|Hy].
  - reflexivity.
  - exfalso. apply Hn. rewrite E. apply in_map. exact Hy.
  - exfalso. apply Hn. rewrite <- E. apply in_map. exact Hx.
  - apply IH; assumption.
Qed.

(* The statement in one piece, at the level of the stored information. *)
Lemma attest_run_main : forall pr info cur acct_ok jobs atts,
  NoDup (map jkey jobs) ->
  let jobs' := attest_run pr info cur acct_ok jobs atts in
  (exists new, jobs' = jobs ++ new) /\
  NoDup (map jkey jobs') /\
  (forall a e, In a atts -> find_sub (a_slot a) (a_comm a) info = Some e -> s_agg e = true ->
     cur <= a_slot a -> acct_ok (s_val e) = true ->
     exists j, In j jobs' /\ jkey j = akey a /\
       (forall j', In j' jobs' -> jkey j' = akey a -> j' = j) /\
       (~ In (akey a) (map jkey jobs) ->
          j_time j = a_slot a * slot_ms pr + delay_ms pr /\ j_dslot j = a_slot a /\
          j_val j = s_val e /\ j_sig j = s_sig e /\
          exists a', In a' atts /\ akey a' = akey a /\ j_root j = a_root a')) /\
  (forall j, In j jobs' -> ~ In j jobs ->
     exists a e, In a atts /\ find_sub (a_slot a) (a_comm a) info = Some e /\ s_agg e = true /\
       cur <= a_slot a /\ acct_ok (s_val e) = true /\ j = mk_job pr a e).
Proof.
  intros pr info cur acct_ok jobs atts ND jobs'.
  pose proof (attest_run_nodup pr info cur acct_ok atts jobs ND) as ND'. fold jobs' in ND'.
  split; [apply attest_run_prefix|]. split; [exact ND'|]. split.
  - intros a e Ha F A C B.
    assert (He : elig info cur acct_ok a = Some e) by (apply elig_some_iff; auto).
    pose proof (attest_run_complete pr info cur acct_ok atts jobs a e Ha He) as Hk. fold jobs' in Hk.
    apply in_map_iff in Hk as (j & Kj & Hj). exists j. split; [exact Hj|]. split; [exact Kj|]. split.
    + intros j' Hj' Kj'. apply (nodup_key_unique jkey jobs'); try assumption. congruence.
    + intro Hn. apply attest_run_sound in Hj as [Hj|(a' & e' & Ha' & He' & -> & _)].
      * exfalso. apply Hn. rewrite <- Kj. apply in_map. exact Hj.
      * rewrite jkey_mk_job in Kj. apply elig_some_iff in He' as (F' & _).
        unfold akey in Kj. injection Kj as K1 K2. rewrite K1, K2, F in F'. injection F' as <-.
        cbn [mk_job j_time j_dslot j_val j_sig j_root]. rewrite K1.
        apply find_sub_some in F as (_ & Hs & _).
        repeat split; try reflexivity; try assumption.
        exists a'. unfold akey. rewrite K1, K2. auto.
  - intros j Hj Hn. apply attest_run_sound in Hj as [Hj|(a & e & Ha & He & -> & _)]; [contradiction|].
    apply elig_some_iff in He as (F & C & A & B). exists a, e. auto 10.
Qed.

(* =========================================================================================== *)
(* Part 7.  From the duties to the jobs; the controller's history.                             *)

Lemma selected_committee_gets_job : forall pr ok ds cur acct_ok jobs atts a d,
  consistent_duties ds -> digests_ok ds -> NoDup (map jkey jobs) ->
  In a atts -> cur <= a_slot a ->
  duty_for ok ds (a_slot a) (a_comm a) d -> selected (agg_target pr) d = true ->
  (forall d', duty_for ok ds (a_slot a) (a_comm a) d' -> selected (agg_target pr) d' = true ->
              acct_ok (d_val d') = true) ->
  let jobs' := attest_run pr (subscription_info (agg_target pr) ok ds) cur acct_ok jobs atts in
  exists j, In j jobs' /\ jkey j = akey a /\
    (forall j', In j' jobs' -> jkey j' = akey a -> j' = j) /\
    (~ In (akey a) (map jkey jobs) ->
       j_time j = a_slot a * slot_ms pr + delay_ms pr /\ j_dslot j = a_slot a /\
       (exists d', duty_for ok ds (a_slot a) (a_comm a) d' /\ selected (agg_target pr) d' = true /\
                   j_val j = d_val d' /\ j_sig j = d_sig d') /\
       exists a', In a' atts /\ akey a' = akey a /\ j_root j = a_root a').
Proof.
  intros pr ok ds cur acct_ok jobs atts a d C G ND Ha Hc Hd Hs Hacct jobs'.
  assert (Hagg : agg_of (agg_target pr) (sort_duties ds) d = true).
  { rewrite agg_of_selected; [exact Hs|exact C|exact G|apply Hd]. }
  destruct (recorded_aggregator _ ok ds _ _ d Hd Hagg) as (e & d' & F & A & Hd' & He & Ha').
  assert (Hs' : selected (agg_target pr) d' = true).
  { rewrite <- agg_of_selected with (ds := ds); [exact Ha'|exact C|exact G|apply Hd']. }
  destruct (attest_run_main pr (subscription_info (agg_target pr) ok ds) cur acct_ok jobs atts ND)
    as (_ & _ & H3 & _).
  destruct (H3 a e Ha F A Hc) as (j & Hj & Kj & Hu & Hnew).
  { rewrite He. cbn [mk_sub s_val]. apply Hacct; assumption. }
  exists j. split; [exact Hj|]. split; [exact Kj|]. split; [exact Hu|].
  intro Hn. destruct (Hnew Hn) as (T & Ds & V & Sg & R).
  split; [exact T|]. split; [exact Ds|]. split; [|exact R].
  exists d'. rewrite V, Sg, He. cbn [mk_sub s_val s_sig]. auto.
Qed.

(* --- the history --- *)
Lemma get_set_info : forall ep ep' v m,
  get_info ep (set_info ep' v m) = if ep' =? ep then Some v else get_info ep m.
Proof.
  intros ep ep' v m. induction m as [|[k w] m IH]; cbn [set_info get_info].
  - reflexivity.
  - destruct (k =? ep') eqn:K; cbn [get_info].
    + apply N.eqb_eq in K. subst k. destruct (ep' =? ep); reflexivity.
    + rewrite IH. destruct (ep' =? ep) eqn:E; [|reflexivity].
      apply N.eqb_eq in E. rewrite <- E, K. reflexivity.
Qed.

Lemma run_cons : forall pr st o ops,
  fst (run pr st (o :: ops)) = fst (run pr (fst (step pr st o)) ops).
Proof.
  intros. cbn [run]. destruct (step pr st o) as [st1 x]. cbn [fst].
  destruct (run pr st1 ops) as [st2 xs]. reflexivity.
Qed.

Lemma get_info_prune : forall ep hepoch m,
  get_info ep (prune_infos hepoch m) = if stale64 ep hepoch then None else get_info ep m.
Proof.
  intros ep hepoch m. unfold prune_infos. induction m as [|[k w] m IH]; cbn [filter fst get_info].
  - destruct (stale64 ep hepoch); reflexivity.
  - destruct (stale64 k hepoch) eqn:S; cbn [negb get_info].
    + rewrite IH. destruct (N.eqb_spec k ep) as [E|E]; [subst k; rewrite S|]; reflexivity.
    + destruct (N.eqb_spec k ep) as [E|E]; [subst k; rewrite S; reflexivity|exact IH].
Qed.

Lemma step_infos : forall pr st o ep,
  get_info ep (st_infos (fst (step pr st o))) = last_info pr ep [o] (get_info ep (st_infos st)).
Proof.
  intros pr st o ep. destruct o as [ep' cur na df sf ds|dslot cur af na atts|hslot cur]; cbn [step last_info].
  3: { destruct (hslot =? cur); cbn [fst st_infos andb]; [apply get_info_prune|reflexivity]. }
  - destruct na; cbn [fst st_infos].
    + rewrite get_set_info. reflexivity.
    + destruct df; cbn [fst st_infos].
      * destruct (ep' =? ep); reflexivity.
      * rewrite get_set_info. reflexivity.
  - destruct af; [reflexivity|]. destruct atts; [reflexivity|].
    destruct (get_info (dslot / spe pr) (st_infos st)); reflexivity.
Qed.

Lemma run_infos : forall pr ops st ep,
  get_info ep (st_infos (fst (run pr st ops))) = last_info pr ep ops (get_info ep (st_infos st)).
Proof.
  intros pr ops. induction ops as [|o ops IH]; intros st ep; [reflexivity|].
  rewrite run_cons, IH, step_infos. destruct o; reflexivity.
Qed.

Lemma last_info_app : forall pr ep ops1 ops2 acc,
  last_info pr ep (ops1 ++ ops2) acc = last_info pr ep ops2 (last_info pr ep ops1 acc).
Proof.
  intros pr ep ops1. induction ops1 as [|o ops1 IH]; intros ops2 acc; [reflexivity|].
  destruct o; cbn [app last_info]; apply IH.
Qed.

(* operations that leave the information of epoch [ep] alone *)
Definition keeps (pr : params) (ep : N) (o : op) : Prop :=
  match o with
  | OSub ep' _ no_accounts duties_fail _ _ => ep' <> ep \/ (no_accounts = false /\ duties_fail = true)
  | OAtt _ _ _ _ _ => True
  | OHead hslot cur => hslot <> cur \/ hslot / spe pr <= ep + 1
      (* a head that is not of the current slot, or whose epoch is at most the one after [ep]:
         [ep] is the head's epoch, the one before it, or a later one *)
  end.

(* the uint64 test of the code is the plain one as long as ep + 1 does not wrap *)
Lemma stale64_spec : forall ep hepoch, ep + 1 < two64 -> stale64 ep hepoch = (ep + 1 <? hepoch).
Proof.
  intros ep hepoch B. unfold stale64, wrap64. rewrite N.mod_small by exact B. reflexivity.
Qed.

Lemma last_info_keeps : forall pr ep ops acc, ep + 1 < two64 ->
  Forall (keeps pr ep) ops -> last_info pr ep ops acc = acc.
Proof.
  intros pr ep ops. induction ops as [|o ops IH]; intros acc B F; [reflexivity|].
  inversion F as [|? ? K F']; subst. destruct o as [ep' cur na df sf ds| |hslot cur]; cbn [last_info].
  - cbn [keeps] in K. rewrite IH by assumption. destruct (N.eqb_spec ep' ep) as [E|E]; [|reflexivity].
    destruct K as [K|[-> ->]]; [contradiction|reflexivity].
  - apply IH; assumption.
  - cbn [keeps] in K. rewrite IH by assumption.
    destruct (N.eqb_spec hslot cur) as [E|E]; cbn [andb]; [|reflexivity].
    destruct K as [K|K]; [contradiction|]. rewrite stale64_spec by exact B.
    destruct (N.ltb_spec (ep + 1) (hslot / spe pr)) as [L|L]; [|reflexivity].
    exfalso. apply (N.lt_irrefl (ep + 1)). eapply N.lt_le_trans; [exact L|exact K].
Qed.

(* jobs: one step never loses a job, keeps the names distinct and the times right *)
Definition job_wf (pr : params) (j : job) : Prop :=
  j_time j = j_slot j * slot_ms pr + delay_ms pr /\ j_dslot j = j_slot j.

Definition jobs_inv (pr : params) (jobs : list job) : Prop :=
  NoDup (map jkey jobs) /\ Forall (job_wf pr) jobs.

Lemma attest_run_inv : forall pr info cur acct_ok jobs atts,
  jobs_inv pr jobs -> jobs_inv pr (attest_run pr info cur acct_ok jobs atts).
Proof.
  intros pr info cur acct_ok jobs atts [ND W]. split; [apply attest_run_nodup; exact ND|].
  rewrite Forall_forall in *. intros j Hj.
  apply attest_run_sound in Hj as [Hj|(a & e & _ & He & -> & _)]; [apply W; exact Hj|].
  apply elig_some_iff in He as (F & _). apply find_sub_some in F as (_ & Hs & _).
  unfold job_wf. cbn [mk_job j_time j_slot j_dslot]. auto.
Qed.

Lemma step_jobs : forall pr st o,
  (exists new, st_jobs (fst (step pr st o)) = st_jobs st ++ new) /\
  (jobs_inv pr (st_jobs st) -> jobs_inv pr (st_jobs (fst (step pr st o)))).
Proof.
  intros pr st o.
  assert (Same : (exists new, st_jobs st = st_jobs st ++ new)) by (exists []; rewrite app_nil_r; reflexivity).
  destruct o as [ep' cur na df sf ds|dslot cur af na atts|hslot cur]; cbn [step].
  3: { destruct (hslot =? cur); cbn [fst st_jobs]; auto. }
  - destruct na; [cbn [fst st_jobs]; auto|]. destruct df; cbn [fst st_jobs]; auto.
  - destruct af; [auto|]. destruct atts as [|a atts]; [auto|].
    destruct (get_info (dslot / spe pr) (st_infos st)) as [info|]; [|auto].
    cbn [fst st_jobs]. split; [apply attest_run_prefix|apply attest_run_inv].
Qed.

Lemma run_jobs : forall pr ops st,
  (exists new, st_jobs (fst (run pr st ops)) = st_jobs st ++ new) /\
  (jobs_inv pr (st_jobs st) -> jobs_inv pr (st_jobs (fst (run pr st ops)))).
Proof.
  intros pr ops. induction ops as [|o ops IH]; intro st.
  - cbn [run fst]. split; [exists []; rewrite app_nil_r; reflexivity|auto].
  - rewrite run_cons. destruct (step_jobs pr st o) as [[n1 E1] I1].
    destruct (IH (fst (step pr st o))) as [[n2 E2] I2]. split.
    + exists (n1 ++ n2). rewrite E2, E1, app_assoc. reflexivity.
    + intro I. apply I2, I1, I.
Qed.

Lemma init_inv : forall pr, jobs_inv pr (st_jobs init).
Proof. intro pr. split; constructor. Qed.

(* what one attest operation does in a reachable state *)
Lemma step_att : forall pr st dslot cur no_acct a atts info,
  get_info (dslot / spe pr) (st_infos st) = Some info ->
  step pr st (OAtt dslot cur false no_acct (a :: atts)) =
  (let jobs := attest_run pr info cur (acct_ok_of no_acct) (st_jobs st) (a :: atts) in
   ({| st_infos := st_infos st; st_jobs := jobs |}, OutAtt jobs)).
Proof. intros pr st dslot cur no_acct a atts info H. cbn [step]. rewrite H. reflexivity. Qed.

(* The whole statement over a history: some operations, a subscribe of the epoch, operations that
   leave that epoch's information alone, then an attest of a slot of the epoch. *)
Lemma history_selected_committee_gets_job :
  forall pr ops1 ep cur1 sign_fail ds ops2 dslot cur no_acct atts a d,
    ep + 1 < two64 -> Forall (keeps pr ep) ops2 -> dslot / spe pr = ep ->
    consistent_duties ds -> digests_ok ds ->
    In a atts -> cur <= a_slot a ->
    duty_for (sign_ok_of sign_fail) ds (a_slot a) (a_comm a) d -> selected (agg_target pr) d = true ->
    (forall d', duty_for (sign_ok_of sign_fail) ds (a_slot a) (a_comm a) d' ->
                selected (agg_target pr) d' = true -> acct_ok_of no_acct (d_val d') = true) ->
    let st := fst (run pr init (ops1 ++ OSub ep cur1 false false sign_fail ds :: ops2)) in
    let r := step pr st (OAtt dslot cur false no_acct atts) in
    snd r = OutAtt (st_jobs (fst r)) /\
    (forall j, In j (st_jobs st) -> In j (st_jobs (fst r))) /\
    exists j, In j (st_jobs (fst r)) /\ jkey j = akey a /\
      (forall j', In j' (st_jobs (fst r)) -> jkey j' = akey a -> j' = j) /\
      j_time j = a_slot a * slot_ms pr + delay_ms pr /\ j_dslot j = a_slot a /\
      (~ In (akey a) (map jkey (st_jobs st)) ->
         (exists d', duty_for (sign_ok_of sign_fail) ds (a_slot a) (a_comm a) d' /\
                     selected (agg_target pr) d' = true /\ j_val j = d_val d' /\ j_sig j = d_sig d') /\
         exists a', In a' atts /\ akey a' = akey a /\ j_root j = a_root a').
Proof.
  intros pr ops1 ep cur1 sign_fail ds ops2 dslot cur no_acct atts a d B K E C G Ha Hc Hd Hs Hacct st r.
  assert (I : get_info (dslot / spe pr) (st_infos st) =
              Some (subscription_info (agg_target pr) (sign_ok_of sign_fail) ds)).
  { unfold st. rewrite run_infos, last_info_app. cbn [last_info]. rewrite E, N.eqb_refl.
    apply last_info_keeps; [exact B|exact K]. }
  assert (Inv : jobs_inv pr (st_jobs st)) by (apply run_jobs, init_inv).
  destruct atts as [|a0 atts]; [destruct Ha|].
  unfold r. rewrite (step_att _ _ _ _ _ _ _ _ I). cbn [fst snd st_jobs].
  split; [reflexivity|]. split.
  - intros j Hj. destruct (attest_run_prefix pr (subscription_info (agg_target pr) (sign_ok_of sign_fail) ds)
      cur (acct_ok_of no_acct) (a0 :: atts) (st_jobs st)) as [n En]. rewrite En. apply in_or_app. left. exact Hj.
  - destruct Inv as [ND W].
    destruct (selected_committee_gets_job pr (sign_ok_of sign_fail) ds cur (acct_ok_of no_acct)
                (st_jobs st) (a0 :: atts) a d C G ND Ha Hc Hd Hs Hacct) as (j & Hj & Kj & Hu & Hnew).
    exists j. split; [exact Hj|]. split; [exact Kj|]. split; [exact Hu|].
    assert (Wj : job_wf pr j).
    { pose proof (attest_run_inv pr (subscription_info (agg_target pr) (sign_ok_of sign_fail) ds)
        cur (acct_ok_of no_acct) (st_jobs st) (a0 :: atts) (conj ND W)) as [_ W'].
      rewrite Forall_forall in W'. apply W'. exact Hj. }
    destruct Wj as [T Dl]. unfold jkey, akey in Kj. injection Kj as K1 K2.
    rewrite K1 in T, Dl. split; [exact T|]. split; [exact Dl|].
    intro Hn. destruct (Hnew Hn) as (_ & _ & P & R). split; assumption.
Qed.

(* =========================================================================================== *)
(* Part 8.  Corollaries in the vocabulary of the property text; the pinned tree.               *)

Lemma recorded_aggregator_spec : forall t ok ds s c d cur,
  consistent_duties ds -> digests_ok ds ->
  duty_for ok ds s c d -> selected t d = true ->
  exists e d', find_sub s c (subscription_info t ok ds) = Some e /\ s_agg e = true /\
    duty_for ok ds s c d' /\ selected t d' = true /\ s_val e = d_val d' /\ s_sig e = d_sig d' /\
    (cur < s -> In (to_subscription e) (to_submit cur (subscription_info t ok ds))).
Proof.
  intros t ok ds s c d cur C G Hd Hs.
  assert (Hagg : agg_of t (sort_duties ds) d = true).
  { rewrite agg_of_selected; [exact Hs|exact C|exact G|apply Hd]. }
  destruct (recorded_aggregator t ok ds s c d Hd Hagg) as (e & d' & F & A & Hd' & He & Ha').
  exists e, d'. split; [exact F|]. split; [exact A|]. split; [exact Hd'|]. split.
  - rewrite <- agg_of_selected with (ds := ds); [exact Ha'|exact C|exact G|apply Hd'].
  - rewrite He. cbn [mk_sub s_val s_sig]. split; [reflexivity|]. split; [reflexivity|].
    intro Hc. apply in_to_submit. exists (mk_sub t (sort_duties ds) d').
    rewrite <- He. apply find_sub_some in F as (Hi & Hsl & _). rewrite Hsl. auto.
Qed.

Lemma past_duties_do_not_matter : forall t ok past ds cur,
  (forall d, In d past -> d_slot d <= cur) ->
  to_submit cur (subscription_info t ok (past ++ ds)) = to_submit cur (subscription_info t ok ds).
Proof.
  intros t ok past ds cur H.
  rewrite (submitted_independent_of_past' t ok (past ++ ds)), (submitted_independent_of_past' t ok ds).
  rewrite filter_app.
  replace (filter (fun d => cur <? d_slot d) past) with (@nil duty); [reflexivity|].
  symmetry. induction past as [|x past IH]; [reflexivity|]. cbn [filter].
  assert (Hx : d_slot x <= cur) by (apply H; left; reflexivity).
  destruct (N.ltb_spec cur (d_slot x)); [lia|]. apply IH. intros d Hd. apply H. right. exact Hd.
Qed.

(* The pinned tree's submission: anything not in the future suppresses the whole call. *)
Lemma pinned_submit_none_iff : forall cur info,
  to_submit_pinned cur info = None <-> exists e, In e info /\ s_slot e <= cur.
Proof.
  intros cur info. unfold to_submit_pinned.
  destruct (forallb (fun e => cur <? s_slot e) info) eqn:F.
  - split; [discriminate|]. intros (e & He & Hc). rewrite forallb_forall in F.
    apply F in He. apply N.ltb_lt in He. lia.
  - split; [|reflexivity]. intros _.
    assert (N : ~ (forallb (fun e => cur <? s_slot e) info = true)) by congruence.
    rewrite forallb_forall in N.
    induction info as [|x info IH]; [exfalso; apply N; intros ? []|].
    destruct (N.ltb_spec cur (s_slot x)) as [L|L].
    + destruct IH as (e & He & Hc).
      * cbn [forallb] in F. apply andb_false_iff in F as [F|F]; [|exact F].
        apply N.ltb_ge in F. lia.
      * intro Hall. apply N. intros y [<-|Hy]; [apply N.ltb_lt; exact L|apply Hall; exact Hy].
      * exists e. split; [right; exact He|exact Hc].
    + exists x. split; [left; reflexivity|exact L].
Qed.

Lemma pinned_drops_everything : forall t ok ds cur d,
  In d ds -> ok (d_slot d) = true -> d_slot d <= cur ->
  to_submit_pinned cur (subscription_info t ok ds) = None.
Proof.
  intros t ok ds cur d Hd Hok Hc. apply pinned_submit_none_iff.
  assert (K : In (d_slot d, d_comm d) (map skey (subscription_info t ok ds))).
  { apply info_keys. exists d. unfold duty_for. auto. }
  apply in_map_iff in K as (e & Ke & He). exists e. split; [exact He|].
  unfold skey in Ke. injection Ke as K1 K2. rewrite K1. exact Hc.
Qed.

(* =========================================================================================== *)
(* Part 9.  Independence of the order of the node's answer and of the goroutine schedule.      *)
From Coq Require Import Sorting.Permutation.

Definition dtriple (d : duty) : N * N * N := (d_slot d, d_comm d, d_val d).

Lemma dle_antisym_triple : forall a b, dle a b -> dle b a -> dtriple a = dtriple b.
Proof.
  intros a b H1 H2. unfold dle in *. rewrite duty_leb_iff in H1, H2. unfold dtriple.
  assert (d_slot a = d_slot b) by lia. assert (d_comm a = d_comm b) by lia. assert (d_val a = d_val b) by lia.
  congruence.
Qed.

Lemma sorted_perm_eq : forall l1 l2,
  StronglySorted dle l1 -> StronglySorted dle l2 -> Permutation l1 l2 -> NoDup (map dtriple l1) -> l1 = l2.
Proof.
  induction l1 as [|x l1 IH]; intros l2 S1 S2 P ND.
  - apply Permutation_nil in P. subst. reflexivity.
  - destruct l2 as [|y l2]; [apply Permutation_sym, Permutation_nil in P; discriminate|].
    inversion S1 as [|? ? S1' F1]; subst. inversion S2 as [|? ? S2' F2]; subst.
    rewrite Forall_forall in F1, F2.
    assert (Exy : x = y).
    { assert (Hy : In y (x :: l1)) by (eapply Permutation_in; [apply Permutation_sym, P|left; reflexivity]).
      assert (Hx : In x (y :: l2)) by (eapply Permutation_in; [exact P|left; reflexivity]).
      destruct Hy as [Hy|Hy]; [exact Hy|]. destruct Hx as [Hx|Hx]; [symmetry; exact Hx|].
      apply (nodup_key_unique dtriple (x :: l1)); [exact ND|left; reflexivity|right; exact Hy|].
      apply dle_antisym_triple; [apply F1; exact Hy|apply F2; exact Hx]. }
    subst y. f_equal. apply IH; try assumption.
    + eapply Permutation_cons_inv. exact P.
    + cbn [map] in ND. inversion ND. assumption.
Qed.

Lemma insert_duty_perm : forall x l, Permutation (insert_duty x l) (x :: l).
Proof.
  intros x l. induction l as [|y l IH]; cbn [insert_duty]; [apply Permutation_refl|].
  destruct (duty_leb x y); [apply Permutation_refl|].
  eapply Permutation_trans; [apply perm_skip; exact IH|apply perm_swap].
Qed.

Lemma sort_duties_perm : forall l, Permutation (sort_duties l) l.
Proof.
  intro l. unfold sort_duties. induction l as [|x l IH]; cbn [fold_right]; [apply Permutation_refl|].
  eapply Permutation_trans; [apply insert_duty_perm|apply perm_skip; exact IH].
Qed.

(* the node's answer in any order (and whatever an unstable sort does) gives the same information,
   provided no validator is listed twice for the same slot and committee *)
Lemma info_order_independent : forall t ok ds ds',
  Permutation ds ds' -> NoDup (map dtriple ds) ->
  subscription_info t ok ds = subscription_info t ok ds'.
Proof.
  intros t ok ds ds' P ND. unfold subscription_info.
  assert (E : sort_duties ds = sort_duties ds').
  { apply sorted_perm_eq; try apply sort_sorted.
    - eapply Permutation_trans; [apply sort_duties_perm|].
      eapply Permutation_trans; [exact P|apply Permutation_sym, sort_duties_perm].
    - eapply Permutation_NoDup; [apply Permutation_sym, Permutation_map, sort_duties_perm|exact ND]. }
  rewrite E. reflexivity.
Qed.

(* The goroutines of calculateSubscriptionInfo (one per slot, each walking its validators in
   order): every schedule -- every interleaving [M'] of the per-slot walks -- records the same
   entry for every pair.  ([M] is the walk in MergeDuties' order the model uses.) *)
Lemma filter_filter : forall {A} (f g : A -> bool) l, filter f (filter g l) = filter (fun x => g x && f x) l.
Proof.
  intros A f g l. induction l as [|x l IH]; cbn [filter]; [reflexivity|].
  destruct (g x); cbn [filter andb]; [destruct (f x)|]; rewrite IH; reflexivity.
Qed.

Lemma info_schedule_independent : forall t L M M' s c,
  (forall s, filter (same_slot s) M' = filter (same_slot s) M) ->
  find_sub s c (fold_left (add_member t L) M' []) = find_sub s c (fold_left (add_member t L) M []).
Proof.
  intros t L M M' s c H. rewrite !find_fold_add_member. f_equal.
  assert (E : forall l, filter (same_key s c) l = filter (fun d => d_comm d =? c) (filter (same_slot s) l)).
  { intro l. rewrite filter_filter. reflexivity. }
  rewrite (E M'), (E M), H. reflexivity.
Qed.

(* --- head events --- *)
Lemma step_head : forall pr st hslot cur ep, ep + 1 < two64 ->
  let st' := fst (step pr st (OHead hslot cur)) in
  st_jobs st' = st_jobs st /\
  get_info ep (st_infos st') =
    if (hslot =? cur) && (ep + 1 <? hslot / spe pr) then None else get_info ep (st_infos st).
Proof.
  intros pr st hslot cur ep B. cbn [step]. destruct (hslot =? cur); cbn [fst st_jobs st_infos andb].
  - split; [reflexivity|]. rewrite get_info_prune, stale64_spec by exact B. reflexivity.
  - split; reflexivity.
Qed.

Lemma step_head_early : forall pr st hslot cur ep, ep + 1 < two64 -> hslot / spe pr <= 1 ->
  get_info ep (st_infos (fst (step pr st (OHead hslot cur)))) = get_info ep (st_infos st).
Proof.
  intros pr st hslot cur ep B E. rewrite (proj2 (step_head pr st hslot cur ep B)).
  destruct (N.ltb_spec (ep + 1) (hslot / spe pr)) as [L|L]; [|rewrite andb_false_r; reflexivity].
  exfalso. lia.
Qed.

Lemma by_subtraction_epoch0 : forall ep, ep + 1 < two64 -> stale64_by_subtraction ep 0 = true.
Proof.
  intros ep B. unfold stale64_by_subtraction, sub64. cbn [N.leb]. apply N.ltb_lt.
  change (1 <=? 0) with false. cbn iota. unfold two64 in *. lia.
Qed.

Lemma by_subtraction_later : forall ep hepoch, 1 <= hepoch -> ep + 1 < two64 ->
  stale64_by_subtraction ep hepoch = stale64 ep hepoch.
Proof.
  intros ep hepoch H B. rewrite stale64_spec by exact B. unfold stale64_by_subtraction, sub64.
  destruct (N.leb_spec 1 hepoch) as [L|L]; [|lia].
  destruct (N.ltb_spec ep (hepoch - 1)), (N.ltb_spec (ep + 1) hepoch); try reflexivity; lia.
Qed.
