(* The abstract scheduler table of the controller models (Model/C03_Controller.v: [tsched], [tremove],
   [texists]; the same semantics is what harness/mocks.RecScheduler implements) against the table
   model of the real scheduler (Model/C02_Script.v: [t_schedule], [t_cancel], [t_run], [t_exists]),
   which C02 ties to services/scheduler/advanced.  For every injective naming of jobs the two agree
   operation by operation on which names are listed and on whether a ScheduleJob is accepted. *)
From Coq Require Import List NArith Bool Lia.
From Verif Require Import Lib.Base Model.C02_Scheduler Model.C02_Script.
From Verif Require Model.C03_Controller.
Import ListNotations.
Local Open Scope N_scope.

Module C3 := C03_Controller.

Section Bridge.
  Variable enc : C3.jname -> N.                 (* job name as the real scheduler sees it *)
  Hypothesis enc_eqb : forall a b, (enc a =? enc b) = C3.jname_eqb a b.
  Variable ident : C3.job -> N.                 (* the job control block behind a table entry *)

  Definition abs (t : C3.table) : table := map (fun j => (enc (C3.j_name j), ident j)) t.

  Lemma jname_eqb_sym a b : C3.jname_eqb a b = C3.jname_eqb b a.
  Proof. rewrite <- !enc_eqb. apply N.eqb_sym. Qed.

  (* JobExists *)
  Lemma abs_exists (t : C3.table) (n : C3.jname) : t_exists (abs t) (enc n) = C3.texists t n.
  Proof.
    unfold t_exists, C3.texists. induction t as [|j t IH]; cbn; [reflexivity|].
    rewrite enc_eqb, (jname_eqb_sym n (C3.j_name j)).
    destruct (C3.jname_eqb (C3.j_name j) n); [reflexivity | exact IH].
  Qed.

  (* CancelJob, and the removal of a one-off job when it is run: the same table *)
  Lemma abs_remove (t : C3.table) (n : C3.jname) : t_del (abs t) (enc n) = abs (C3.tremove t n).
  Proof.
    unfold t_del, C3.tremove, abs. induction t as [|j t IH]; cbn; [reflexivity|].
    rewrite enc_eqb. destruct (C3.jname_eqb (C3.j_name j) n); cbn; [exact IH | f_equal; exact IH].
  Qed.

  Lemma abs_cancel (t : C3.table) (n : C3.jname) :
    fst (t_cancel (abs t) (enc n)) = abs (C3.tremove t n) /\
    (match snd (t_cancel (abs t) (enc n)) with Some _ => true | None => false end) = C3.texists t n.
  Proof.
    unfold t_cancel. pose proof (abs_exists t n) as He. unfold t_exists in He.
    destruct (t_get (abs t) (enc n)) as [i|] eqn:E; cbn [fst snd].
    - split; [apply abs_remove | exact He].
    - split; [|exact He].
      (* nothing of that name: removing it changes nothing on either side *)
      rewrite <- abs_remove. unfold t_del. clear He.
      induction (abs t) as [|[m i] l IH]; cbn in *; [reflexivity|].
      destruct (enc n =? m) eqn:Em; [discriminate|].
      rewrite N.eqb_sym, Em. cbn. f_equal. apply IH. exact E.
  Qed.

  (* ScheduleJob: accepted exactly when the abstract table does not list the name; afterwards the
     same names are listed (the real table conses, the abstract one appends: order is not observable) *)
  Lemma abs_schedule (t : C3.table) (j : C3.job) :
    (snd (t_schedule (abs t) (enc (C3.j_name j)) (ident j)) = Nil <-> C3.texists t (C3.j_name j) = false) /\
    forall m, t_exists (fst (t_schedule (abs t) (enc (C3.j_name j)) (ident j))) (enc m) = C3.texists (C3.tsched t j) m.
  Proof.
    unfold t_schedule, C3.tsched. rewrite abs_exists.
    destruct (C3.texists t (C3.j_name j)) eqn:E; cbn [fst snd].
    - split; [split; discriminate|]. intro m. apply abs_exists.
    - split; [split; reflexivity|]. intro m.
      rewrite <- abs_exists. unfold abs. rewrite map_app. cbn [map].
      unfold t_exists. cbn [t_get]. rewrite enc_eqb.
      set (l := map (fun j0 => (enc (C3.j_name j0), ident j0)) t).
      destruct (C3.jname_eqb m (C3.j_name j)) eqn:Em.
      + (* the new name: listed on both sides *)
        induction l as [|[k i] l IH]; cbn; [rewrite enc_eqb, Em; reflexivity|].
        destruct (enc m =? k); [reflexivity | exact IH].
      + induction l as [|[k i] l IH]; cbn; [rewrite enc_eqb, Em; reflexivity|].
        destruct (enc m =? k); [reflexivity | exact IH].
  Qed.
End Bridge.
