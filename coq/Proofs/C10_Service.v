(* C10: histories of lookups and refreshes on one block relay service instance. *)
From Verif Require Import Lib.Base Model.C10_ExecConfig Model.C10_Service Proofs.C10.
Local Open Scope list_scope.

Definition svc_wf (st : svc_state) : Prop :=
  match st with None => True | Some c => wf_config c end.

(* every document a refresh of the history accepts has key-unique relay maps (Go maps) *)
Definition op_wf (o : sop) : Prop :=
  match o with
  | SRefresh (FDoc j) => forall c, unmarshal j = Some c -> wf_config c
  | _ => True
  end.

Lemma latest_refresh : forall f done st0,
  latest (SRefresh f :: done) st0 = svc_refresh (latest done st0) f.
Proof.
  intros [j|] done st0; cbn [latest svc_refresh]; [|reflexivity].
  destruct (unmarshal j); reflexivity.
Qed.

Lemma latest_lookup : forall a v done st0, latest (SLookup a v :: done) st0 = latest done st0.
Proof. reflexivity. Qed.

Lemma svc_refresh_wf : forall st f, svc_wf st -> op_wf (SRefresh f) -> svc_wf (svc_refresh st f).
Proof.
  intros st [j|] Hst Hop; cbn [svc_refresh]; [|exact Hst].
  destruct (unmarshal j) as [c|] eqn:E; [|exact Hst]. cbn. apply (Hop c), E.
Qed.

Lemma svc_lookup_is_spec : forall st v fbfee fbgas, svc_wf st ->
  svc_lookup st v fbfee fbgas = svc_spec_lookup resolve st v fbfee fbgas.
Proof.
  intros [c|] v fbfee fbgas Hwf; cbn [svc_lookup svc_spec_lookup]; [|reflexivity].
  apply lookup_is_resolve, Hwf.
Qed.

(* the service, operation by operation, gives the answers of the specification *)
Lemma svc_run_is_spec : forall ops done st0 fbfee fbgas,
  svc_wf (latest done st0) -> Forall op_wf ops ->
  svc_run (latest done st0) ops fbfee fbgas = svc_spec_run resolve done st0 ops fbfee fbgas.
Proof.
  induction ops as [|[a v|f] ops IH]; intros done st0 fbfee fbgas Hst Hops; cbn [svc_run svc_spec_run].
  - reflexivity.
  - inversion Hops as [|? ? _ Hr]; subst.
    rewrite (svc_lookup_is_spec _ _ _ _ Hst). f_equal.
    rewrite <- (latest_lookup a v done st0). apply IH; [rewrite latest_lookup; exact Hst | exact Hr].
  - inversion Hops as [|? ? Hf Hr]; subst.
    rewrite <- latest_refresh. apply IH; [|exact Hr].
    rewrite latest_refresh. apply svc_refresh_wf; assumption.
Qed.

Lemma svc_state_after_app : forall pre post st,
  svc_state_after st (pre ++ post) = svc_state_after (svc_state_after st pre) post.
Proof.
  induction pre as [|[a v|f] pre IH]; intros post st; cbn [app svc_state_after]; [reflexivity| |]; apply IH.
Qed.

Lemma svc_state_after_latest : forall pre st, svc_state_after st pre = latest (rev pre) st.
Proof.
  intros pre. induction pre as [|o pre IH] using rev_ind; intro st; [reflexivity|].
  rewrite svc_state_after_app, rev_unit, IH. destruct o as [a v|f]; cbn [svc_state_after].
  - reflexivity.
  - symmetry. apply latest_refresh.
Qed.

Lemma svc_run_app : forall pre post st fbfee fbgas,
  svc_run st (pre ++ post) fbfee fbgas
  = svc_run st pre fbfee fbgas ++ svc_run (svc_state_after st pre) post fbfee fbgas.
Proof.
  induction pre as [|[a v|f] pre IH]; intros post st fbfee fbgas; cbn [app svc_run svc_state_after].
  - reflexivity.
  - rewrite IH. reflexivity.
  - apply IH.
Qed.

Lemma svc_run_length : forall ops st fbfee fbgas,
  length (svc_run st ops fbfee fbgas) = count_lookups ops.
Proof.
  induction ops as [|[a v|f] ops IH]; intros st fbfee fbgas; cbn [svc_run count_lookups length];
    [reflexivity | rewrite IH; reflexivity | apply IH].
Qed.

Lemma svc_state_after_wf : forall pre st, svc_wf st -> Forall op_wf pre -> svc_wf (svc_state_after st pre).
Proof.
  induction pre as [|[a v|f] pre IH]; intros st Hst Hpre; cbn [svc_state_after].
  - exact Hst.
  - inversion Hpre; subst. apply IH; assumption.
  - inversion Hpre; subst. apply IH; [apply svc_refresh_wf|]; assumption.
Qed.

(* The answer to a lookup, wherever it stands in a history, is the answer the documented
   precedence gives for ITS arguments under the last accepted document. *)
Lemma service_history : forall st pre a v post fbfee fbgas,
  svc_wf st -> Forall op_wf pre ->
  nth (count_lookups pre) (svc_run st (pre ++ SLookup a v :: post) fbfee fbgas) OPanic
  = view a (svc_spec_lookup resolve (latest (rev pre) st) v fbfee fbgas).
Proof.
  intros st pre a v post fbfee fbgas Hst Hpre.
  rewrite svc_run_app. cbn [svc_run].
  rewrite app_nth2 by (rewrite svc_run_length; apply Nat.le_refl).
  rewrite svc_run_length, Nat.sub_diag. cbn [nth].
  rewrite svc_lookup_is_spec by (apply svc_state_after_wf; assumption).
  rewrite svc_state_after_latest. reflexivity.
Qed.

(* Lookups leave no trace: two histories with the same refreshes put the service in the same
   state, whatever was asked in between, in whatever order, with or without account. *)
Lemma svc_state_after_refreshes : forall pre st,
  svc_state_after st pre = svc_state_after st (filter is_refresh pre).
Proof.
  induction pre as [|[a v|f] pre IH]; intro st; cbn [filter is_refresh svc_state_after]; [reflexivity| |]; apply IH.
Qed.

Lemma service_lookups_leave_no_trace : forall st pre pre' a v post post' fbfee fbgas,
  filter is_refresh pre = filter is_refresh pre' ->
  nth (count_lookups pre) (svc_run st (pre ++ SLookup a v :: post) fbfee fbgas) OPanic
  = nth (count_lookups pre') (svc_run st (pre' ++ SLookup a v :: post') fbfee fbgas) OPanic.
Proof.
  intros st pre pre' a v post post' fbfee fbgas E.
  assert (H : forall p q, nth (count_lookups p) (svc_run st (p ++ SLookup a v :: q) fbfee fbgas) OPanic
                          = view a (svc_lookup (svc_state_after st p) v fbfee fbgas)).
  { intros p q. rewrite svc_run_app. cbn [svc_run].
    rewrite app_nth2 by (rewrite svc_run_length; apply Nat.le_refl).
    rewrite svc_run_length, Nat.sub_diag. reflexivity. }
  rewrite !H. rewrite (svc_state_after_refreshes pre), (svc_state_after_refreshes pre'), E. reflexivity.
Qed.
