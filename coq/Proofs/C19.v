(* C19 lemmas: the recursive lop-off lookup is the longest-prefix lookup. *)
From Verif Require Import Lib.Base Model.C19_Hierarchy.
From Coq Require Import Lia PeanoNat.
Local Open Scope list_scope.

Notation len := List.length.

(* ------------------------------------------------------------------------------------------- *)
(* Lists *)

Lemma firstn_S_snoc {A} : forall (p : list A) k, (k < len p)%nat -> exists x, firstn (S k) p = firstn k p ++ [x].
Proof.
  induction p as [|a p IH]; intros k Hk; cbn in Hk; [lia|].
  destruct k as [|k].
  - exists a. reflexivity.
  - destruct (IH k) as [x Hx]; [lia|]. exists x. cbn [firstn] in *. rewrite Hx. reflexivity.
Qed.

Lemma prefixb_length : forall p q, prefixb p q = true -> (len p <= len q)%nat.
Proof.
  induction p as [|x p IH]; intros [|y q] H; cbn in *; try lia; try discriminate.
  apply andb_true_iff in H as [_ H]. apply IH in H. lia.
Qed.

Lemma path_eqb_prefixb : forall p q, path_eqb p q = true -> prefixb p q = true.
Proof.
  induction p as [|x p IH]; intros [|y q] H; cbn in *; try reflexivity; try discriminate.
  apply andb_true_iff in H as [H1 H2]. rewrite H1. cbn. apply IH, H2.
Qed.

(* a leaf whose key is not an extension of [k] is invisible at [k] *)
Lemma get_cons_other : forall c kq r k, prefixb k kq = false -> get ((kq, r) :: c) k = get c k.
Proof.
  intros c kq r k H. unfold get. cbn [find_exact existsb fst].
  destruct (path_eqb kq k) eqn:E.
  - (* equal keys are prefixes of each other *)
    assert (E' : kq = k) by (apply (list_eqb_spec String.eqb String.eqb_eq); exact E).
    subst kq. rewrite (path_eqb_prefixb k k E) in H. discriminate.
  - rewrite H. cbn. reflexivity.
Qed.

(* ------------------------------------------------------------------------------------------- *)
(* The lookup on component paths *)

Section Generic.
  Context {V : Type}.
  Variable has : raw -> bool.
  Variable conv : raw -> V.
  Variable top : config -> V.
  Variable setting : comp.

  Let lookup := lookup has conv top setting.
  Let valued := valued has setting.
  Let resolves := resolves has conv top setting.
  Let longest_prefix_value := longest_prefix_value has conv top setting.

  Lemma lookup_nil : forall c, lookup c [] = top c.
  Proof. reflexivity. Qed.

  (* one step of the recursion: try the full path, else drop the last component *)
  Lemma lookup_snoc : forall c p x,
    lookup c (p ++ [x]) =
      if valued c (p ++ [x]) then conv (get c ((p ++ [x]) ++ [setting])) else lookup c p.
  Proof.
    intros c p x. unfold lookup, C19_Hierarchy.lookup, valued, C19_Hierarchy.valued.
    rewrite rev_unit. cbn [lookup_rev rev]. rewrite rev_involutive. reflexivity.
  Qed.

  Lemma lookup_firstn_S : forall c p k, (k < len p)%nat ->
    lookup c (firstn (S k) p) =
      if valued c (firstn (S k) p) then conv (get c (firstn (S k) p ++ [setting]))
      else lookup c (firstn k p).
  Proof.
    intros c p k Hk. destruct (firstn_S_snoc p k Hk) as [x Hx]. rewrite Hx. apply lookup_snoc.
  Qed.

  (* [resolves] with the search bounded to the first n components *)
  Definition resolves_n (c : config) (p : path) (n : nat) (v : V) : Prop :=
    (exists k, (1 <= k <= n)%nat /\ valued c (firstn k p) = true /\
               (forall j, (k < j <= n)%nat -> valued c (firstn j p) = false) /\
               v = conv (get c (firstn k p ++ [setting])))
    \/ ((forall j, (1 <= j <= n)%nat -> valued c (firstn j p) = false) /\ v = top c).

  Lemma lookup_resolves_n : forall c p n, (n <= len p)%nat -> resolves_n c p n (lookup c (firstn n p)).
  Proof.
    intros c p n. induction n as [|n IH]; intro Hn.
    - right. split; [intros j Hj; lia | reflexivity].
    - rewrite lookup_firstn_S by lia.
      destruct (valued c (firstn (S n) p)) eqn:E.
      + left. exists (S n). split; [lia|]. split; [exact E|]. split; [intros j Hj; lia | reflexivity].
      + destruct IH as [[k [Hk [Hv [Hmax Heq]]]] | [Hnone Heq]]; [lia | |].
        * left. exists k. split; [lia|]. split; [exact Hv|]. split; [|exact Heq].
          intros j Hj. destruct (Nat.eq_dec j (S n)) as [->|Hne]; [exact E | apply Hmax; lia].
        * right. split; [|exact Heq].
          intros j Hj. destruct (Nat.eq_dec j (S n)) as [->|Hne]; [exact E | apply Hnone; lia].
  Qed.

  Lemma lookup_resolves : forall c p, resolves c p (lookup c p).
  Proof.
    intros c p. pose proof (lookup_resolves_n c p (len p) (le_n _)) as H.
    rewrite firstn_all in H. exact H.
  Qed.

  (* the relation determines the value *)
  Lemma resolves_unique : forall c p v1 v2, resolves c p v1 -> resolves c p v2 -> v1 = v2.
  Proof.
    intros c p v1 v2 H1 H2.
    destruct H1 as [[k1 [Hk1 [Hv1 [Hm1 E1]]]] | [Hn1 E1]];
    destruct H2 as [[k2 [Hk2 [Hv2 [Hm2 E2]]]] | [Hn2 E2]].
    - destruct (Nat.lt_trichotomy k1 k2) as [Hlt | [Heq | Hgt]].
      + rewrite Hm1 in Hv2 by lia. discriminate.
      + subst. reflexivity.
      + rewrite Hm2 in Hv1 by lia. discriminate.
    - rewrite Hn2 in Hv1 by lia. discriminate.
    - rewrite Hn1 in Hv2 by lia. discriminate.
    - congruence.
  Qed.

  Lemma lookup_decided : forall c p k, (1 <= k <= len p)%nat ->
    valued c (firstn k p) = true ->
    (forall j, (k < j <= len p)%nat -> valued c (firstn j p) = false) ->
    lookup c p = conv (get c (firstn k p ++ [setting])).
  Proof.
    intros c p k Hk Hv Hmax. apply (resolves_unique c p); [apply lookup_resolves|].
    left. exists k. repeat split; try lia; assumption.
  Qed.

  Lemma lookup_undecided : forall c p,
    (forall j, (1 <= j <= len p)%nat -> valued c (firstn j p) = false) -> lookup c p = top c.
  Proof.
    intros c p Hnone. apply (resolves_unique c p); [apply lookup_resolves|].
    right. split; [assumption | reflexivity].
  Qed.

  (* the executable reference obeys the same recurrence *)
  Definition ref_n (c : config) (p : path) (n : nat) : V :=
    match rev (filter (valued c) (map (fun k => firstn k p) (seq 1 n))) with
    | q :: _ => conv (get c (q ++ [setting]))
    | [] => top c
    end.

  Lemma ref_n_S : forall c p n,
    ref_n c p (S n) =
      if valued c (firstn (S n) p) then conv (get c (firstn (S n) p ++ [setting])) else ref_n c p n.
  Proof.
    intros c p n. unfold ref_n. rewrite seq_S, map_app, filter_app, rev_app_distr.
    cbn [map filter Nat.add].
    destruct (valued c (firstn (S n) p)); cbn [rev app]; reflexivity.
  Qed.

  Lemma lookup_eq_ref_n : forall c p n, (n <= len p)%nat -> lookup c (firstn n p) = ref_n c p n.
  Proof.
    intros c p n. induction n as [|n IH]; intro Hn.
    - reflexivity.
    - rewrite lookup_firstn_S by lia. rewrite ref_n_S. rewrite IH by lia. reflexivity.
  Qed.

  Lemma lookup_eq_reference : forall c p, lookup c p = longest_prefix_value c p.
  Proof.
    intros c p. pose proof (lookup_eq_ref_n c p (len p) (le_n _)) as H.
    rewrite firstn_all in H. exact H.
  Qed.

  Lemma reference_resolves : forall c p, resolves c p (longest_prefix_value c p).
  Proof. intros c p. rewrite <- lookup_eq_reference. apply lookup_resolves. Qed.

  Lemma resolves_iff_reference : forall c p v, resolves c p v <-> v = longest_prefix_value c p.
  Proof.
    intros c p v. split.
    - intro H. apply (resolves_unique c p); [exact H | apply reference_resolves].
    - intros ->. apply reference_resolves.
  Qed.

  (* a branch below [p] none of whose levels has a value (in particular a branch that does not
     exist in the configuration) inherits the result of [p] *)
  Lemma lookup_app_unvalued : forall c p q,
    (forall j, (1 <= j <= len q)%nat -> valued c (p ++ firstn j q) = false) ->
    lookup c (p ++ q) = lookup c p.
  Proof.
    intros c p q. induction q as [|x q IH] using rev_ind; intro H.
    - rewrite app_nil_r. reflexivity.
    - rewrite app_assoc, lookup_snoc.
      assert (Hx : valued c ((p ++ q) ++ [x]) = false).
      { specialize (H (len (q ++ [x]))). rewrite firstn_all, app_assoc in H. apply H.
        rewrite app_length. cbn. lia. }
      rewrite Hx. apply IH. intros j Hj.
      specialize (H j). rewrite firstn_app in H.
      replace (j - len q)%nat with 0%nat in H by lia. cbn [firstn] in H. rewrite app_nil_r in H.
      apply H. rewrite app_length. cbn. lia.
  Qed.

  (* Only the levels from some valued level downwards matter: two configurations that agree on the
     candidate keys of levels k..|p|, where level k has a value, give the same result. *)
  Lemma lookup_depends_on_deep_levels : forall c c' p k, (1 <= k <= len p)%nat ->
    valued c (firstn k p) = true ->
    (forall j, (k <= j <= len p)%nat -> get c' (firstn j p ++ [setting]) = get c (firstn j p ++ [setting])) ->
    lookup c' p = lookup c p.
  Proof.
    intros c c' p k Hk Hv Hsame.
    assert (Hval : forall j, (k <= j <= len p)%nat -> valued c' (firstn j p) = valued c (firstn j p)).
    { intros j Hj. unfold valued, C19_Hierarchy.valued. rewrite Hsame by lia. reflexivity. }
    assert (H : forall n, (k <= n <= len p)%nat -> lookup c' (firstn n p) = lookup c (firstn n p)).
    { intros n. induction n as [|n IH]; intro Hn; [lia|].
      rewrite !lookup_firstn_S by lia. rewrite Hval by lia. rewrite Hsame by lia.
      destruct (valued c (firstn (S n) p)) eqn:E; [reflexivity|].
      destruct (Nat.eq_dec k (S n)) as [->|Hne]; [congruence|]. apply IH. lia. }
    specialize (H (len p)). rewrite !firstn_all in H. apply H. lia.
  Qed.

  (* hence: a leaf added anywhere at a depth smaller than a valued level changes nothing *)
  Lemma lookup_add_shallow : forall c p k kq r, (1 <= k <= len p)%nat ->
    valued c (firstn k p) = true ->
    (len kq <= k)%nat ->
    lookup ((kq, r) :: c) p = lookup c p.
  Proof.
    intros c p k kq r Hk Hv Hlen. apply (lookup_depends_on_deep_levels c _ p k Hk Hv).
    intros j Hj. apply get_cons_other.
    destruct (prefixb (firstn j p ++ [setting]) kq) eqn:E; [|reflexivity].
    apply prefixb_length in E. rewrite app_length, firstn_length in E. cbn in E. lia.
  Qed.
End Generic.

(* ------------------------------------------------------------------------------------------- *)
(* Dotted strings *)

Lemma sapp_assoc : forall a b c : string, String.append (String.append a b) c = String.append a (String.append b c).
Proof. induction a as [|x a IH]; intros b c; cbn; [reflexivity | rewrite IH; reflexivity]. Qed.

Lemma sapp_length : forall a b : string, String.length (String.append a b) = (String.length a + String.length b)%nat.
Proof. induction a as [|x a IH]; intro b; cbn; [reflexivity | rewrite IH; reflexivity]. Qed.

Lemma is_dot_dot : is_dot dot = true.
Proof. reflexivity. Qed.

Lemma split_dots_dot_free : forall x, dot_free x = true -> split_dots x = [x].
Proof.
  induction x as [|a x IH]; intro H; [reflexivity|].
  cbn in H. apply andb_true_iff in H as [Ha Hx]. apply negb_true_iff in Ha.
  cbn [split_dots]. rewrite Ha, (IH Hx). reflexivity.
Qed.

Lemma split_dots_app : forall x rest, dot_free x = true ->
  split_dots (String.append x (String dot rest)) = x :: split_dots rest.
Proof.
  induction x as [|a x IH]; intros rest H.
  - cbn [String.append split_dots]. rewrite is_dot_dot. reflexivity.
  - cbn in H. apply andb_true_iff in H as [Ha Hx]. apply negb_true_iff in Ha.
    cbn [String.append split_dots]. rewrite Ha, (IH rest Hx). reflexivity.
Qed.

Lemma join_dots_cons2 : forall x y l, join_dots (x :: y :: l) = String.append x (String dot (join_dots (y :: l))).
Proof. reflexivity. Qed.

Lemma split_join : forall p, p <> [] -> Forall (fun x => dot_free x = true) p -> split_dots (join_dots p) = p.
Proof.
  induction p as [|x p IH]; intros Hne Hf; [congruence|].
  inversion Hf as [|? ? Hx Hp]; subst.
  destruct p as [|y l].
  - cbn [join_dots]. apply split_dots_dot_free, Hx.
  - rewrite join_dots_cons2, split_dots_app by exact Hx. rewrite IH; [reflexivity | discriminate | exact Hp].
Qed.

Lemma join_snoc : forall p x, p <> [] -> join_dots (p ++ [x]) = String.append (join_dots p) (String dot x).
Proof.
  induction p as [|y p IH]; intros x Hne; [congruence|].
  destruct p as [|z l].
  - reflexivity.
  - change ((y :: z :: l) ++ [x]) with (y :: (z :: l) ++ [x]).
    change ((z :: l) ++ [x]) with (z :: (l ++ [x])) at 1.
    rewrite join_dots_cons2. change (z :: l ++ [x]) with ((z :: l) ++ [x]).
    rewrite IH by discriminate. rewrite join_dots_cons2, sapp_assoc. reflexivity.
Qed.

Lemma lop_dot_free : forall x, dot_free x = true -> lop x = None.
Proof.
  induction x as [|a x IH]; intro H; [reflexivity|].
  cbn in H. apply andb_true_iff in H as [Ha Hx]. apply negb_true_iff in Ha.
  cbn [lop]. rewrite (IH Hx), Ha. reflexivity.
Qed.

Lemma lop_app : forall s x, dot_free x = true -> lop (String.append s (String dot x)) = Some s.
Proof.
  induction s as [|a s IH]; intros x Hx.
  - cbn [String.append lop]. rewrite (lop_dot_free x Hx), is_dot_dot. reflexivity.
  - cbn [String.append lop]. rewrite (IH x Hx). reflexivity.
Qed.

Lemma lop_length : forall s t, lop s = Some t -> (String.length t < String.length s)%nat.
Proof.
  induction s as [|a s IH]; intros t H; [discriminate|].
  cbn [lop] in H. destruct (lop s) as [t'|] eqn:E.
  - injection H as <-. specialize (IH t' eq_refl). cbn. lia.
  - destruct (is_dot a); [|discriminate]. injection H as <-. cbn. lia.
Qed.

Lemma join_nonempty : forall x l, x <> EmptyString -> join_dots (x :: l) <> EmptyString.
Proof.
  intros x l Hx. destruct l as [|y l]; [exact Hx|].
  rewrite join_dots_cons2. destruct x; [congruence | discriminate].
Qed.

Lemma wf_path_snoc : forall p x, wf_path (p ++ [x]) -> wf_path p /\ dot_free x = true.
Proof.
  intros p x [Hf Hh]. apply Forall_app in Hf as [Hp Hx]. inversion Hx; subst.
  split; [split; [exact Hp|] | assumption].
  destruct p; [exact I | exact Hh].
Qed.

Lemma key_of_join : forall p setting, p <> [] -> Forall (fun x => dot_free x = true) p ->
  dot_free setting = true -> key_of (join_dots p) setting = p ++ [setting].
Proof.
  intros p setting Hne Hf Hs. unfold key_of. rewrite <- join_snoc by exact Hne.
  apply split_join.
  - destruct p; [congruence | discriminate].
  - apply Forall_app. split; [exact Hf | constructor; [exact Hs | constructor]].
Qed.

Lemma path_of_string_join : forall p, wf_path p -> path_of_string (join_dots p) = p.
Proof.
  intros p [Hf Hh]. destruct p as [|x l]; [reflexivity|].
  unfold path_of_string. destruct (join_dots (x :: l)) eqn:E.
  - exfalso. exact (join_nonempty x l Hh E).
  - rewrite <- E. apply split_join; [discriminate | exact Hf].
Qed.

Lemma split_dots_all_dot_free : forall s, Forall (fun x => dot_free x = true) (split_dots s).
Proof.
  induction s as [|a s IH]; [repeat constructor|].
  cbn [split_dots]. destruct (is_dot a) eqn:Ha.
  - constructor; [reflexivity | exact IH].
  - destruct (split_dots s) as [|x l].
    + constructor; [cbn; rewrite Ha; reflexivity | constructor].
    + inversion IH as [|? ? Hx Hl]; subst. constructor; [cbn; rewrite Ha, Hx; reflexivity | exact Hl].
Qed.

Lemma split_dots_nonempty : forall s, split_dots s <> [].
Proof.
  destruct s as [|a s]; [discriminate|].
  cbn [split_dots]. destruct (is_dot a); [discriminate|]. destruct (split_dots s); discriminate.
Qed.

Lemma join_split : forall s, join_dots (split_dots s) = s.
Proof.
  induction s as [|a s IH]; [reflexivity|].
  cbn [split_dots]. destruct (is_dot a) eqn:Ha.
  - apply Ascii.eqb_eq in Ha. subst a.
    pose proof (split_dots_nonempty s) as Hne.
    destruct (split_dots s) as [|y l]; [congruence|].
    rewrite join_dots_cons2, IH. reflexivity.
  - destruct (split_dots s) as [|x l].
    + cbn in IH. subst s. reflexivity.
    + destruct l as [|y l'].
      * cbn [join_dots] in *. rewrite IH. reflexivity.
      * rewrite join_dots_cons2 in *. cbn [String.append]. rewrite IH. reflexivity.
Qed.

(* every string that does not start with '.' is the dotted form of a well-formed path, namely of
   the path it denotes *)
Lemma proper_path_wf : forall s, proper_path s ->
  wf_path (path_of_string s) /\ join_dots (path_of_string s) = s.
Proof.
  intros s H. destruct s as [|a s]; [split; [split; [constructor | exact I] | reflexivity]|].
  cbn [proper_path] in H. unfold path_of_string. split; [split|].
  - apply split_dots_all_dot_free.
  - cbn [split_dots]. rewrite H. destruct (split_dots s); discriminate.
  - apply join_split.
Qed.

(* conversely the dotted form of a well-formed path is proper *)
Lemma wf_path_proper : forall p, wf_path p -> proper_path (join_dots p).
Proof.
  intros p [Hf Hh]. destruct p as [|x l]; [exact I|].
  inversion Hf as [|? ? Hx _]; subst.
  destruct x as [|a x]; [congruence|].
  cbn in Hx. apply andb_true_iff in Hx as [Ha _]. apply negb_true_iff in Ha.
  destruct l; [exact Ha | rewrite join_dots_cons2; exact Ha].
Qed.

Section GenericString.
  Context {V : Type}.
  Variable has : raw -> bool.
  Variable conv : raw -> V.
  Variable top : config -> V.
  Variable setting : comp.
  Hypothesis setting_dot_free : dot_free setting = true.

  Let lookup := lookup has conv top setting.
  Let lookup_s := lookup_s has conv top setting.
  Let lookup_s_fuel := lookup_s_fuel has conv top setting.

  (* The Go function on the dotted string is the lookup on components: cutting at the last '.'
     drops the last component. *)
  Lemma lookup_s_fuel_join : forall c p, wf_path p ->
    forall fuel, (String.length (join_dots p) < fuel)%nat ->
    lookup_s_fuel fuel c (join_dots p) = lookup c p.
  Proof.
    intros c p. induction p as [|x p IH] using rev_ind; intros Hwf fuel Hfuel.
    - destruct fuel; [lia|]. reflexivity.
    - destruct (wf_path_snoc p x Hwf) as [Hwfp Hx].
      destruct Hwf as [Hf Hh].
      destruct fuel as [|fuel]; [lia|].
      assert (Hne : join_dots (p ++ [x]) <> EmptyString).
      { destruct p as [|y l]; cbn [app] in *; apply join_nonempty; exact Hh. }
      unfold lookup_s_fuel. cbn [C19_Hierarchy.lookup_s_fuel].
      destruct (join_dots (p ++ [x])) as [|a s] eqn:E; [congruence|]. rewrite <- E. rewrite <- E in Hfuel.
      rewrite key_of_join; [| destruct p; discriminate | exact Hf | exact setting_dot_free].
      unfold lookup. rewrite lookup_snoc. unfold valued, comp, path in *.
      destruct (has (get c ((p ++ [x]) ++ [setting]))); [reflexivity|].
      destruct p as [|y l].
      + cbn [app join_dots]. rewrite (lop_dot_free x Hx). reflexivity.
      + rewrite join_snoc by discriminate. rewrite (lop_app _ x Hx).
        apply IH; [exact Hwfp|].
        rewrite join_snoc, sapp_length in Hfuel by discriminate. cbn [String.length] in Hfuel. lia.
  Qed.

  Lemma lookup_s_join : forall c p, wf_path p -> lookup_s c (join_dots p) = lookup c p.
  Proof. intros c p Hwf. apply lookup_s_fuel_join; [exact Hwf | lia]. Qed.

  Lemma lookup_s_proper : forall c s, proper_path s -> lookup_s c s = lookup c (path_of_string s).
  Proof.
    intros c s H. destruct (proper_path_wf s H) as [Hwf Hj].
    rewrite <- Hj at 1. apply lookup_s_join, Hwf.
  Qed.
End GenericString.
