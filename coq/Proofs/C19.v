From Verif Require Import Lib.Base Model.C19_Hierarchy.
