(* C01: lemmas about the attester model (Model/C01_Attester.v). *)
From Verif Require Import Lib.Base Model.C01_Attester.
From Coq Require Import ZifyBool ZifyN ZifyNat.

(* --- association lists ------------------------------------------------------------------- *)
Section AssocLemmas.
  Context {V : Type}.
  Lemma aget_aset (m : list (N * V)) k v k' :
    aget (aset m k v) k' = if k =? k' then Some v else aget m k'.
  Proof.
    induction m as [|[k0 v0] m IH]; cbn.
    - destruct (k =? k'); reflexivity.
    - destruct (k0 =? k) eqn:E0; cbn.
      + apply N.eqb_eq in E0; subst k0. destruct (k =? k'); reflexivity.
      + destruct (k0 =? k') eqn:E1.
        * apply N.eqb_eq in E1; subst k0. rewrite N.eqb_sym, E0. reflexivity.
        * exact IH.
  Qed.
  Lemma aget_adel (m : list (N * V)) k k' :
    aget (adel m k) k' = if k =? k' then None else aget m k'.
  Proof.
    unfold adel. induction m as [|[k0 v0] m IH]; cbn.
    - destruct (k =? k'); reflexivity.
    - destruct (k0 =? k) eqn:E0; cbn.
      + apply N.eqb_eq in E0; subst k0. rewrite IH. destruct (k =? k'); reflexivity.
      + rewrite IH. destruct (k0 =? k') eqn:E1; [|reflexivity].
        apply N.eqb_eq in E1; subst k0. rewrite N.eqb_sym, E0. reflexivity.
  Qed.
  Lemma aget_adel_below (m : list (N * V)) lo k :
    aget (adel_below m lo) k = if k <? lo then None else aget m k.
  Proof.
    unfold adel_below. induction m as [|[k0 v0] m IH]; cbn.
    - destruct (k <? lo); reflexivity.
    - destruct (k0 <? lo) eqn:E0; cbn.
      + rewrite IH. destruct (k <? lo) eqn:E1; [reflexivity|].
        destruct (k0 =? k) eqn:E2; [|reflexivity].
        apply N.eqb_eq in E2; subst k0. congruence.
      + rewrite IH. destruct (k0 =? k) eqn:E2; [|reflexivity].
        apply N.eqb_eq in E2; subst k0. rewrite E0. reflexivity.
  Qed.
  Lemma keys_below_in (m : list (N * V)) lo k v :
    aget m k = Some v -> k <? lo = true -> In k (keys_below m lo).
  Proof.
    unfold keys_below. induction m as [|[k0 v0] m IH]; cbn; [discriminate|].
    destruct (k0 =? k) eqn:E.
    - apply N.eqb_eq in E; subst k0. intros _ Hlt. rewrite Hlt. left. reflexivity.
    - intros Hg Hlt. destruct (k0 <? lo); [right|]; apply IH; assumption.
  Qed.
End AssocLemmas.

Lemma memb_N_true v l : memb N.eqb v l = true <-> In v l.
Proof. apply memb_spec. intros; apply N.eqb_eq. Qed.
Lemma memb_N_false v l : memb N.eqb v l = false <-> ~ In v l.
Proof. rewrite <- memb_N_true. destruct (memb N.eqb v l); split; intros; congruence. Qed.

Lemma NoDup_app_intro {A} (l1 l2 : list A) :
  NoDup l1 -> NoDup l2 -> (forall x, In x l1 -> In x l2 -> False) -> NoDup (l1 ++ l2).
Proof.
  induction l1 as [|a l1 IH]; cbn; intros H1 H2 Hd; [exact H2|].
  inversion H1 as [|? ? Hn Hnd]; subst. constructor.
  - rewrite in_app_iff. intros [H|H]; [exact (Hn H) | exact (Hd a (or_introl eq_refl) H)].
  - apply IH; [exact Hnd | exact H2 | intros x Hx1 Hx2; exact (Hd x (or_intror Hx1) Hx2)].
Qed.

Section Sys.
  Variable spe : N.
  Variable rs : list run.

  Definition ep (r : run) : epoch := epoch_of spe (d_slot (r_duty r)).

  Ltac simpl_state :=
    cbn [g_att g_thr g_trace g_purged g_panic set_thr set_att emit purge_below panic with_pc
         t_pc t_claimed t_data t_args] in *.

  Definition signed_pc (p : pc) : Prop :=
    match p with PSign | PSubmit | PHousekeep | PDone => True | _ => False end.

  (* what one step can do to the parts of the state the invariants talk about *)
  Inductive skind (st st' : state) (i : nat) : Prop :=
  | SK_local :
      g_att st' = g_att st -> g_purged st' = g_purged st -> g_trace st' = g_trace st ->
      t_claimed (g_thr st' i) = t_claimed (g_thr st i) ->
      (signed_pc (t_pc (g_thr st i)) -> signed_pc (t_pc (g_thr st' i))) ->
      skind st st' i
  | SK_ensure r :
      nth_error rs i = Some r -> t_pc (g_thr st i) = PEnsure ->
      aget (g_att st) (ep r) = None -> g_att st' = aset (g_att st) (ep r) [] ->
      g_purged st' = g_purged st -> g_trace st' = g_trace st ->
      t_claimed (g_thr st' i) = t_claimed (g_thr st i) ->
      skind st st' i
  | SK_mark r v todo marked :
      nth_error rs i = Some r -> g_panic st = false -> t_pc (g_thr st i) = PClaim (v :: todo) ->
      aget (g_att st) (ep r) = Some marked -> ~ In v marked ->
      g_att st' = aset (g_att st) (ep r) (v :: marked) ->
      g_purged st' = g_purged st -> g_trace st' = g_trace st ->
      t_claimed (g_thr st' i) = t_claimed (g_thr st i) ++ [v] ->
      skind st st' i
  | SK_purge r :
      nth_error rs i = Some r -> t_pc (g_thr st i) = PHousekeep -> t_pc (g_thr st' i) = PDone ->
      g_att st' = adel_below (g_att st) (ep r - 1) -> g_purged st' = keys_below (g_att st) (ep r - 1) ++ g_purged st ->
      g_trace st' = g_trace st ->
      t_claimed (g_thr st' i) = t_claimed (g_thr st i) ->
      skind st st' i
  | SK_sign r avail :
      nth_error rs i = Some r -> t_pc (g_thr st i) = PAccounts -> t_pc (g_thr st' i) = PSign ->
      s_accounts (r_script r) = Some avail ->
      g_att st' = g_att st -> g_purged st' = g_purged st ->
      g_trace st' = g_trace st ++ [SignReq (mk_signreq i (r_duty r) (t_data (g_thr st i))
                                             (sign_args (r_duty r) (t_claimed (g_thr st i)) avail))] ->
      t_claimed (g_thr st' i) = t_claimed (g_thr st i) ->
      skind st st' i
  | SK_submit atts :
      t_pc (g_thr st i) = PSign -> t_pc (g_thr st' i) = PSubmit ->
      g_att st' = g_att st -> g_purged st' = g_purged st ->
      g_trace st' = g_trace st ++ [Submit i atts] ->
      t_claimed (g_thr st' i) = t_claimed (g_thr st i) ->
      skind st st' i.

  Ltac thr_same := simpl_state; rewrite ?Nat.eqb_refl; simpl_state.

  Ltac local_case Hpc :=
    apply SK_local; thr_same; try reflexivity; rewrite ?Hpc; cbn [signed_pc]; tauto.

  Lemma step_kind st i : skind st (step spe rs st i) i.
  Proof.
    unfold step, tstep.
    destruct (g_panic st) eqn:Hp; [apply SK_local; auto|].
    destruct (nth_error rs i) as [r|] eqn:Hr; [|apply SK_local; auto].
    fold (ep r).
    destruct (t_pc (g_thr st i)) as [|todo| | | | | |] eqn:Hpc.
    - destruct (aget (g_att st) (ep r)) eqn:Hg.
      + local_case Hpc.
      + apply (SK_ensure _ _ _ r); thr_same; auto.
    - destruct todo as [|v todo]; [local_case Hpc|].
      destruct (aget (g_att st) (ep r)) as [marked|] eqn:Hg; [|local_case Hpc].
      destruct (memb N.eqb v marked) eqn:Hm; [local_case Hpc|].
      apply (SK_mark _ _ _ r v todo marked); thr_same; auto.
      apply memb_N_false; exact Hm.
    - destruct (d_comms (r_duty r)); [local_case Hpc|].
      destruct (s_fetch (r_script r)) as [a|]; [|local_case Hpc].
      destruct (valid_data spe (r_duty r) a); local_case Hpc.
    - destruct (s_accounts (r_script r)) as [avail|] eqn:Ha; [|local_case Hpc].
      apply (SK_sign _ _ _ r avail); thr_same; auto.
    - destruct (s_sign (r_script r)) as [unsigned|]; [|local_case Hpc].
      destruct (attestations (r_duty r) (t_data (g_thr st i)) (t_args (g_thr st i)) unsigned) as [|x atts] eqn:Hat;
        [local_case Hpc|].
      apply (SK_submit _ _ _ (x :: atts)); thr_same; auto.
    - destruct (s_submit (r_script r)); local_case Hpc.
    - destruct (1 <? ep r) eqn:Hlt; [|local_case Hpc].
      apply (SK_purge _ _ _ r); thr_same; auto.
    - apply SK_local; auto.
  Qed.

  Lemma step_other st i j : j <> i -> g_thr (step spe rs st i) j = g_thr st j.
  Proof.
    intro Hne. unfold step, tstep.
    destruct (g_panic st); [reflexivity|].
    destruct (nth_error rs i) as [r|]; [|reflexivity].
    assert (E : Nat.eqb j i = false) by (apply Nat.eqb_neq; exact Hne).
    repeat match goal with
           | |- context [match ?x with _ => _ end] => destruct x
           end; simpl_state; rewrite ?E; reflexivity.
  Qed.

  (* --- the at-most-once invariant ------------------------------------------------------------ *)
  Definition wf_run (r : run) : Prop := forall l, s_accounts (r_script r) = Some l -> NoDup l.
  Definition wf_runs : Prop := Forall wf_run rs.

  Definition sign_runs (tr : list event) : list nat :=
    flat_map (fun ev => match ev with SignReq q => [sr_run q] | Submit _ _ => [] end) tr.

  Record Inv (st : state) : Prop := {
    I_nodup : forall i r, nth_error rs i = Some r -> NoDup (t_claimed (g_thr st i));
    I_disj : forall i j ri rj v, nth_error rs i = Some ri -> nth_error rs j = Some rj -> i <> j -> ep ri = ep rj ->
               In v (t_claimed (g_thr st i)) -> In v (t_claimed (g_thr st j)) -> False;
    I_marked : forall i r v, nth_error rs i = Some r -> In v (t_claimed (g_thr st i)) ->
               In (ep r) (g_purged st) \/ exists m, aget (g_att st) (ep r) = Some m /\ In v m;
    I_sign : forall q, In (SignReq q) (g_trace st) ->
               exists r, nth_error rs (sr_run q) = Some r /\ sr_slot q = d_slot (r_duty r) /\
                         incl (map fst (sr_pairs q)) (t_claimed (g_thr st (sr_run q))) /\
                         NoDup (map fst (sr_pairs q)) /\ signed_pc (t_pc (g_thr st (sr_run q)));
    I_once : NoDup (sign_runs (g_trace st))
  }.

  Lemma inv_init : Inv init.
  Proof.
    constructor; cbn; intros; try contradiction; constructor.
  Qed.

  Lemma sign_runs_app tr1 tr2 : sign_runs (tr1 ++ tr2) = sign_runs tr1 ++ sign_runs tr2.
  Proof. unfold sign_runs. apply flat_map_app. Qed.

  Lemma in_sign_runs tr i : In i (sign_runs tr) -> exists q, In (SignReq q) tr /\ sr_run q = i.
  Proof.
    unfold sign_runs. rewrite in_flat_map. intros [ev [Hin Hi]].
    destruct ev as [q|]; cbn in Hi; [|contradiction].
    destruct Hi as [Hi|[]]. exists q. split; assumption.
  Qed.

  Lemma pairs_fst i d a args : map fst (sr_pairs (mk_signreq i d a args)) = map sa_v args.
  Proof. cbn. rewrite map_map. reflexivity. Qed.

  Lemma sign_args_v d claimed avail : map sa_v (sign_args d claimed avail) = accounts_for avail claimed.
  Proof.
    unfold sign_args. rewrite map_map. cbn. apply map_id.
  Qed.

  Lemma accounts_for_in avail claimed v : In v (accounts_for avail claimed) <-> In v avail /\ In v claimed.
  Proof. unfold accounts_for. rewrite filter_In, memb_N_true. tauto. Qed.

  Lemma NoDup_filter_N (f : N -> bool) l : NoDup l -> NoDup (filter f l).
  Proof.
    induction 1 as [|x l Hn Hd IH]; cbn; [constructor|].
    destruct (f x); [constructor|]; auto. rewrite filter_In. tauto.
  Qed.

  Lemma thr_claimed_other st i j : j <> i ->
    t_claimed (g_thr (step spe rs st i) j) = t_claimed (g_thr st j).
  Proof. intro H. rewrite step_other by exact H. reflexivity. Qed.

  Lemma inv_step st i :
    wf_runs -> Inv st ->
    (forall e, claim_epoch spe rs st i = Some e -> ~ In e (g_purged st)) ->
    Inv (step spe rs st i).
  Proof.
    intros Hwf HI Hwin.
    pose proof (step_kind st i) as K.
    pose proof (fun j => thr_claimed_other st i j) as Hoth.
    pose proof (fun j => step_other st i j) as Hthr.
    set (st' := step spe rs st i) in *.
    destruct HI as [Hnd Hdj Hmk Hsg Hon].
    (* claimed lists that did not change *)
    assert (Hsame : t_claimed (g_thr st' i) = t_claimed (g_thr st i) ->
                    forall j, t_claimed (g_thr st' j) = t_claimed (g_thr st j)).
    { intros E j. destruct (Nat.eq_dec j i) as [->|Hne]; [exact E | apply Hoth; exact Hne]. }
    destruct K as [Ea Ep Et Ec Hpc | r Hr Hpc Hg Ea Ep Et Ec | r v todo marked Hr Hpan Hpc Hg Hnm Ea Ep Et Ec
                   | r Hr Hpc Hpc' Ea Ep Et Ec | r avail Hr Hpc Hpc' Hav Ea Ep Et Ec | atts Hpc Hpc' Ea Ep Et Ec].
    - (* local *)
      pose proof (Hsame Ec) as Hc.
      constructor; intros.
      + rewrite Hc. eauto.
      + rewrite Hc in *. eauto.
      + rewrite Hc in *. rewrite Ea, Ep. eauto.
      + rewrite Et in H. destruct (Hsg q H) as [r [Hr [Hs [Hi [Hn Hp]]]]].
        exists r. rewrite Hc. repeat split; auto.
        destruct (Nat.eq_dec (sr_run q) i) as [E|Hne]; [rewrite E in *; auto | rewrite Hthr by exact Hne; exact Hp].
      + rewrite Et. exact Hon.
    - (* ensure *)
      pose proof (Hsame Ec) as Hc.
      constructor; intros.
      + rewrite Hc. eauto.
      + rewrite Hc in *. eauto.
      + rewrite Hc in *. rewrite Ea, Ep. destruct (Hmk _ _ _ H H0) as [Hpu|[m [Hm Hv]]]; [left; exact Hpu|].
        right. exists m. split; [|exact Hv]. rewrite aget_aset.
        destruct (ep r =? ep r0) eqn:E; [|exact Hm].
        apply N.eqb_eq in E. rewrite <- E in Hm. congruence.
      + rewrite Et in H. destruct (Hsg q H) as [r0 [Hr0 [Hs [Hi [Hn Hp]]]]].
        exists r0. rewrite Hc. repeat split; auto.
        destruct (Nat.eq_dec (sr_run q) i) as [E|Hne]; [|rewrite Hthr by exact Hne; exact Hp].
        rewrite E, Hpc in Hp. destruct Hp.
      + rewrite Et. exact Hon.
    - (* mark *)
      assert (Hfresh : forall j rj, nth_error rs j = Some rj -> ep rj = ep r -> ~ In v (t_claimed (g_thr st j))).
      { intros j rj Hrj He Hin. destruct (Hmk _ _ _ Hrj Hin) as [Hpu|[m [Hm Hv]]].
        - apply (Hwin (ep r)); [|rewrite <- He; exact Hpu].
          unfold claim_epoch. rewrite Hpan, Hr, Hpc. reflexivity.
        - rewrite He, Hg in Hm. injection Hm as <-. exact (Hnm Hv). }
      constructor; intros.
      + destruct (Nat.eq_dec i0 i) as [->|Hne].
        * rewrite Ec. apply NoDup_app_intro; [eauto | repeat constructor; intros [] |].
          intros x Hx [<-|[]]. rewrite Hr in H. injection H as <-. exact (Hfresh i r Hr eq_refl Hx).
        * rewrite Hoth by exact Hne. eauto.
      + destruct (Nat.eq_dec i0 i) as [->|Hne0]; destruct (Nat.eq_dec j i) as [->|Hne1]; try congruence.
        * rewrite Ec in H3. rewrite Hoth in H4 by exact Hne1. apply in_app_iff in H3 as [H3|[<-|[]]]; [eauto|].
          rewrite Hr in H. injection H as <-. exact (Hfresh j rj H0 (eq_sym H2) H4).
        * rewrite Ec in H4. rewrite Hoth in H3 by exact Hne0. apply in_app_iff in H4 as [H4|[<-|[]]]; [eauto|].
          rewrite Hr in H0. injection H0 as <-. exact (Hfresh i0 ri H H2 H3).
        * rewrite Hoth in H3 by exact Hne0. rewrite Hoth in H4 by exact Hne1. eauto.
      + rewrite Ea, Ep, aget_aset.
        assert (Hold : In v0 (t_claimed (g_thr st i0)) ->
                       In (ep r0) (g_purged st) \/
                       (exists m, (if ep r =? ep r0 then Some (v :: marked) else aget (g_att st) (ep r0)) = Some m /\ In v0 m)).
        { intro Hin. destruct (Hmk _ _ _ H Hin) as [Hpu|[m [Hm Hv]]]; [left; exact Hpu|]. right.
          destruct (ep r =? ep r0) eqn:E; [|exists m; auto].
          apply N.eqb_eq in E. rewrite <- E, Hg in Hm. injection Hm as <-.
          exists (v :: marked). split; [reflexivity | right; exact Hv]. }
        destruct (Nat.eq_dec i0 i) as [->|Hne]; [|rewrite Hoth in H0 by exact Hne; auto].
        rewrite Ec in H0. apply in_app_iff in H0 as [H0|[<-|[]]]; [auto|].
        rewrite Hr in H. injection H as <-. right. rewrite N.eqb_refl.
        exists (v :: marked). split; [reflexivity | left; reflexivity].
      + rewrite Et in H. destruct (Hsg q H) as [r0 [Hr0 [Hs [Hi [Hn Hp]]]]].
        exists r0. repeat split; auto.
        * destruct (Nat.eq_dec (sr_run q) i) as [E|Hne]; [|rewrite Hoth by exact Hne; exact Hi].
          rewrite E in *. rewrite Ec. intros x Hx. apply in_app_iff. left. auto.
        * destruct (Nat.eq_dec (sr_run q) i) as [E|Hne]; [|rewrite Hthr by exact Hne; exact Hp].
          rewrite E, Hpc in Hp. destruct Hp.
      + rewrite Et. exact Hon.
    - (* purge *)
      pose proof (Hsame Ec) as Hc.
      constructor; intros.
      + rewrite Hc. eauto.
      + rewrite Hc in *. eauto.
      + rewrite Hc in *. rewrite Ea, Ep.
        destruct (Hmk _ _ _ H H0) as [Hpu|[m [Hm Hv]]]; [left; apply in_or_app; right; exact Hpu|].
        rewrite aget_adel_below. destruct (ep r0 <? ep r - 1) eqn:E.
        * left. apply in_or_app. left. exact (keys_below_in _ _ _ _ Hm E).
        * right. exists m. auto.
      + rewrite Et in H. destruct (Hsg q H) as [r0 [Hr0 [Hs [Hi [Hn Hp]]]]].
        exists r0. rewrite Hc. repeat split; auto.
        destruct (Nat.eq_dec (sr_run q) i) as [E|Hne]; [|rewrite Hthr by exact Hne; exact Hp].
        rewrite E, Hpc'. exact I.
      + rewrite Et. exact Hon.
    - (* sign *)
      pose proof (Hsame Ec) as Hc.
      assert (Hnew : ~ In i (sign_runs (g_trace st))).
      { intro Hin. apply in_sign_runs in Hin as [q [Hq Hi]].
        destruct (Hsg q Hq) as [r0 [_ [_ [_ [_ Hp]]]]]. rewrite Hi, Hpc in Hp. destruct Hp. }
      constructor; intros.
      + rewrite Hc. eauto.
      + rewrite Hc in *. eauto.
      + rewrite Hc in *. rewrite Ea, Ep. eauto.
      + rewrite Et in H. apply in_app_iff in H as [H|[H|[]]].
        * destruct (Hsg q H) as [r0 [Hr0 [Hs [Hi [Hn Hp]]]]].
          exists r0. rewrite Hc. repeat split; auto.
          destruct (Nat.eq_dec (sr_run q) i) as [E|Hne]; [|rewrite Hthr by exact Hne; exact Hp].
          rewrite E, Hpc in Hp. destruct Hp.
        * injection H as <-. cbn [sr_run mk_signreq sr_slot]. exists r.
          rewrite pairs_fst, sign_args_v, Hc, Hpc'. repeat split; auto.
          -- intros x Hx. apply accounts_for_in in Hx. tauto.
          -- unfold accounts_for. apply NoDup_filter_N.
             pose proof (proj1 (Forall_forall _ _) Hwf r (nth_error_In _ _ Hr)) as Hw. exact (Hw _ Hav).
      + rewrite Et, sign_runs_app. cbn. apply NoDup_app_intro; [exact Hon | repeat constructor; intros [] |].
        intros x Hx [<-|[]]. exact (Hnew Hx).
    - (* submit *)
      pose proof (Hsame Ec) as Hc.
      constructor; intros.
      + rewrite Hc. eauto.
      + rewrite Hc in *. eauto.
      + rewrite Hc in *. rewrite Ea, Ep. eauto.
      + rewrite Et in H. apply in_app_iff in H as [H|[H|[]]]; [|discriminate].
        destruct (Hsg q H) as [r0 [Hr0 [Hs [Hi [Hn Hp]]]]].
        exists r0. rewrite Hc. repeat split; auto.
        destruct (Nat.eq_dec (sr_run q) i) as [E|Hne]; [|rewrite Hthr by exact Hne; exact Hp].
        rewrite E, Hpc'. exact I.
      + rewrite Et, sign_runs_app. cbn. rewrite app_nil_r. exact Hon.
  Qed.

  Lemma exec_inv sch : forall st, wf_runs -> Inv st -> window_ok spe rs sch st -> Inv (exec spe rs sch st).
  Proof.
    induction sch as [|i sch IH]; cbn; intros st Hwf HI Hw; [exact HI|].
    destruct Hw as [Hw1 Hw2]. apply IH; [exact Hwf | apply inv_step; assumption | exact Hw2].
  Qed.

  (* at most once: no (validator, epoch) occurs twice among all signing requests of the trace *)
  Lemma inv_sign_list st : Inv st -> NoDup (sign_list spe (g_trace st)).
  Proof.
    intros [Hnd Hdj Hmk Hsg Hon].
    revert Hsg Hon. generalize (g_trace st) as tr.
    induction tr as [|ev tr IH]; intros Hsg Hon; [constructor|].
    unfold sign_list in *. cbn [flat_map].
    assert (Hsg' : forall q, In (SignReq q) tr -> _) by (intros q Hq; exact (Hsg q (or_intror Hq))).
    destruct ev as [q|j atts]; cbn [event_signs].
    - cbn [sign_runs flat_map] in Hon. change (flat_map _ tr) with (sign_runs tr) in Hon.
      cbn in Hon. inversion Hon as [|? ? Hnq Hon']; subst.
      destruct (Hsg q (or_introl eq_refl)) as [r [Hr [Hs [Hi [Hn _]]]]].
      apply NoDup_app_intro.
      + clear -Hn. induction (sr_pairs q) as [|p l IH]; cbn in *; [constructor|].
        inversion Hn as [|? ? Hx Hl]; subst. constructor; [|auto].
        rewrite in_map_iff. intros [p' [E Hp']]. injection E as E. apply Hx. rewrite <- E. apply in_map. exact Hp'.
      + apply IH; assumption.
      + intros [v e] H1 H2.
        apply in_map_iff in H1 as [p [E1 Hp]]. injection E1 as Ev Ee.
        apply in_flat_map in H2 as [ev' [Hev' Hin']].
        destruct ev' as [q'|]; cbn in Hin'; [|contradiction].
        apply in_map_iff in Hin' as [p' [E2 Hp']]. injection E2 as Ev' Ee'.
        destruct (Hsg' q' Hev') as [r' [Hr' [Hs' [Hi' _]]]].
        assert (Hne : sr_run q <> sr_run q').
        { intro E. apply Hnq. rewrite E. unfold sign_runs. apply in_flat_map.
          exists (SignReq q'). split; [exact Hev' | left; reflexivity]. }
        apply (Hdj (sr_run q) (sr_run q') r r' v Hr Hr' Hne).
        * unfold ep. rewrite <- Hs, <- Hs'. congruence.
        * apply Hi. rewrite <- Ev. apply in_map. exact Hp.
        * apply Hi'. rewrite <- Ev'. apply in_map. exact Hp'.
    - cbn [app]. apply IH; [exact Hsg'|]. exact Hon.
  Qed.

  Lemma at_most_once sch :
    wf_runs -> window_ok spe rs sch init -> NoDup (sign_list spe (g_trace (exec spe rs sch init))).
  Proof. intros Hwf Hw. apply inv_sign_list, exec_inv; [exact Hwf | exact inv_init | exact Hw]. Qed.

  Lemma pair_eq_dec : forall x y : vidx * epoch, {x = y} + {x <> y}.
  Proof. decide equality; apply N.eq_dec. Qed.

  Lemma at_most_once_count sch v e :
    wf_runs -> window_ok spe rs sch init ->
    (count_occ pair_eq_dec (sign_list spe (g_trace (exec spe rs sch init))) (v, e) <= 1)%nat.
  Proof.
    intros Hwf Hw. apply (proj1 (NoDup_count_occ pair_eq_dec _)). apply at_most_once; assumption.
  Qed.

  (* claims only grow *)
  Lemma step_claimed_mono st i j v :
    In v (t_claimed (g_thr st j)) -> In v (t_claimed (g_thr (step spe rs st i) j)).
  Proof.
    intro H. destruct (Nat.eq_dec j i) as [->|Hne]; [|rewrite step_other by exact Hne; exact H].
    destruct (step_kind st i) as [_ _ _ Ec _ | ? _ _ _ _ _ _ Ec | ? ? ? ? _ _ _ _ _ _ _ _ Ec
                                 | ? _ _ _ _ _ _ Ec | ? ? _ _ _ _ _ _ _ Ec | ? _ _ _ _ _ Ec];
      rewrite Ec; try exact H. apply in_app_iff. left. exact H.
  Qed.

  Lemma exec_claimed_mono sch : forall st j v,
    In v (t_claimed (g_thr st j)) -> In v (t_claimed (g_thr (exec spe rs sch st) j)).
  Proof.
    induction sch as [|i sch IH]; cbn; intros st j v H; [exact H|].
    apply IH, step_claimed_mono, H.
  Qed.

  Lemma exec_app sch1 sch2 st : exec spe rs (sch1 ++ sch2) st = exec spe rs sch2 (exec spe rs sch1 st).
  Proof. revert st. induction sch1 as [|i sch1 IH]; cbn; intro st; [reflexivity | apply IH]. Qed.

  (* a validator marked by one call is never signed for by another call of the same epoch *)
  Lemma claim_exclusive st i j ri rj v q :
    Inv st -> nth_error rs i = Some ri -> nth_error rs j = Some rj -> i <> j -> ep ri = ep rj ->
    In v (t_claimed (g_thr st i)) -> In (SignReq q) (g_trace st) -> sr_run q = j ->
    ~ In v (map fst (sr_pairs q)).
  Proof.
    intros [Hnd Hdj Hmk Hsg Hon] Hri Hrj Hne He Hv Hq Hj Hin.
    destruct (Hsg q Hq) as [r [Hr [_ [Hi _]]]]. rewrite Hj in *.
    exact (Hdj i j ri rj v Hri Hrj Hne He Hv (Hi v Hin)).
  Qed.

  Lemma failed_run_not_retried sch1 sch2 i j ri rj v q :
    wf_runs -> window_ok spe rs (sch1 ++ sch2) init ->
    nth_error rs i = Some ri -> nth_error rs j = Some rj -> i <> j -> ep ri = ep rj ->
    In v (t_claimed (g_thr (exec spe rs sch1 init) i)) ->
    In (SignReq q) (g_trace (exec spe rs (sch1 ++ sch2) init)) -> sr_run q = j ->
    ~ In v (map fst (sr_pairs q)).
  Proof.
    intros Hwf Hw Hri Hrj Hne He Hv Hq Hj.
    apply (claim_exclusive (exec spe rs (sch1 ++ sch2) init) i j ri rj v q); auto.
    - apply exec_inv; [exact Hwf | exact inv_init | exact Hw].
    - rewrite exec_app. apply exec_claimed_mono. exact Hv.
  Qed.

  (* --- what a call knows locally, and what the trace records (no window condition needed) ---- *)
  Definition tinv (r : run) (t : tstate) : Prop :=
    let d := r_duty r in
    incl (t_claimed t) (d_vals d) /\
    (forall todo, t_pc t = PClaim todo -> incl todo (d_vals d)) /\
    (t_pc t = PAccounts \/ t_pc t = PSign ->
       s_fetch (r_script r) = Some (t_data t) /\ valid_data spe d (t_data t) = true) /\
    (t_pc t = PSign ->
       exists avail, s_accounts (r_script r) = Some avail /\ t_args t = sign_args d (t_claimed t) avail).

  Definition evinv (ev : event) : Prop :=
    match ev with
    | SignReq q =>
        exists r a avail claimed,
          nth_error rs (sr_run q) = Some r /\ s_fetch (r_script r) = Some a /\
          valid_data spe (r_duty r) a = true /\ s_accounts (r_script r) = Some avail /\
          incl claimed (d_vals (r_duty r)) /\
          q = mk_signreq (sr_run q) (r_duty r) a (sign_args (r_duty r) claimed avail)
    | Submit i atts =>
        exists r a avail claimed unsigned,
          nth_error rs i = Some r /\ s_fetch (r_script r) = Some a /\
          valid_data spe (r_duty r) a = true /\ s_accounts (r_script r) = Some avail /\
          s_sign (r_script r) = Some unsigned /\ incl claimed (d_vals (r_duty r)) /\
          atts = attestations (r_duty r) a (sign_args (r_duty r) claimed avail) unsigned /\ atts <> []
    end.

  Record LInv (st : state) : Prop := {
    L_thr : forall i r, nth_error rs i = Some r -> tinv r (g_thr st i);
    L_tr : Forall evinv (g_trace st)
  }.

  Lemma linv_init : LInv init.
  Proof.
    constructor; [|constructor]. intros i r _. unfold tinv; cbn.
    split; [intros x []|]. split; [intros; discriminate|]. split; [intros [?|?]; discriminate | intros; discriminate].
  Qed.

  Lemma incl_tail {A} (x : A) l m : incl (x :: l) m -> incl l m.
  Proof. intros H y Hy. apply H. right. exact Hy. Qed.

  Lemma next_claim_incl todo d :
    incl todo (d_vals d) -> forall todo', next_claim todo = PClaim todo' -> incl todo' (d_vals d).
  Proof. destruct todo; cbn; intros H todo' E; [discriminate | injection E as <-; exact H]. Qed.

  Lemma next_claim_not todo : next_claim todo <> PAccounts /\ next_claim todo <> PSign.
  Proof. destruct todo; cbn; split; discriminate. Qed.

  Lemma linv_step st i : LInv st -> LInv (step spe rs st i).
  Proof.
    intros [Ht Htr].
    assert (Hoth : forall j r, j <> i -> nth_error rs j = Some r -> tinv r (g_thr (step spe rs st i) j)).
    { intros j r Hne Hr. rewrite step_other by exact Hne. auto. }
    unfold step in *.
    destruct (g_panic st) eqn:Hp; [constructor; assumption|].
    destruct (nth_error rs i) as [r|] eqn:Hr; [|constructor; assumption].
    destruct (Ht i r Hr) as [Hc [Htodo [Hdat Harg]]].
    (* it suffices to establish the invariant of thread i and of the new trace *)
    assert (Hsuff : forall st', (forall j, j <> i -> g_thr st' j = g_thr (tstep spe i r st) j) ->
                                tinv r (g_thr st' i) -> Forall evinv (g_trace st') ->
                                st' = tstep spe i r st -> LInv st').
    { intros st' _ H1 H2 E. subst st'. constructor; [|exact H2].
      intros j rj Hrj. destruct (Nat.eq_dec j i) as [->|Hne]; [rewrite Hr in Hrj; injection Hrj as <-; exact H1|].
      exact (Hoth j rj Hne Hrj). }
    apply (Hsuff (tstep spe i r st)); [reflexivity | | | reflexivity]; clear Hsuff Hoth.
    - (* thread i *)
      unfold tstep, tinv.
      destruct (t_pc (g_thr st i)) as [|todo| | | | | |] eqn:Hpc.
      + destruct (aget (g_att st) (epoch_of spe (d_slot (r_duty r)))); thr_same;
          (split; [exact Hc | split; [apply next_claim_incl, incl_refl | split;
             [intros [E|E]; destruct (next_claim_not (d_vals (r_duty r))); congruence
             | intro E; destruct (next_claim_not (d_vals (r_duty r))); congruence]]]).
      + destruct todo as [|v todo].
        * thr_same. split; [exact Hc | split; [intros; discriminate | split; [intros [?|?]; discriminate | intros; discriminate]]].
        * pose proof (Htodo _ eq_refl) as Hin.
          destruct (aget (g_att st) (epoch_of spe (d_slot (r_duty r)))) as [marked|]; [|simpl_state; rewrite Hpc; auto].
          destruct (memb N.eqb v marked); thr_same;
            (split; [ | split; [apply next_claim_incl, (incl_tail v), Hin | split;
               [intros [E|E]; destruct (next_claim_not todo); congruence
               | intro E; destruct (next_claim_not todo); congruence]]]).
          -- exact Hc.
          -- intros x Hx. apply in_app_iff in Hx as [Hx|[<-|[]]]; [auto | apply Hin; left; reflexivity].
      + destruct (d_comms (r_duty r)); [simpl_state; rewrite Hpc; auto|].
        destruct (s_fetch (r_script r)) as [a|] eqn:Hf.
        * destruct (valid_data spe (r_duty r) a) eqn:Hv; thr_same;
            (split; [exact Hc | split; [intros; discriminate | split; [|intros; discriminate]]]).
          -- intros _. split; [reflexivity | exact Hv].
          -- intros [?|?]; discriminate.
        * thr_same. split; [exact Hc | split; [intros; discriminate | split; [intros [?|?]; discriminate | intros; discriminate]]].
      + destruct (s_accounts (r_script r)) as [avail|] eqn:Ha; thr_same.
        * split; [exact Hc | split; [intros; discriminate | split]].
          -- intros _. apply Hdat. left. reflexivity.
          -- intros _. exists avail. split; reflexivity.
        * split; [exact Hc | split; [intros; discriminate | split; [intros [?|?]; discriminate | intros; discriminate]]].
      + destruct (s_sign (r_script r)) as [unsigned|].
        * destruct (attestations (r_duty r) (t_data (g_thr st i)) (t_args (g_thr st i)) unsigned); thr_same;
            (split; [exact Hc | split; [intros; discriminate | split; [intros [?|?]; discriminate | intros; discriminate]]]).
        * thr_same. split; [exact Hc | split; [intros; discriminate | split; [intros [?|?]; discriminate | intros; discriminate]]].
      + destruct (s_submit (r_script r)); thr_same;
          (split; [exact Hc | split; [intros; discriminate | split; [intros [?|?]; discriminate | intros; discriminate]]]).
      + destruct (1 <? epoch_of spe (d_slot (r_duty r))); thr_same;
          (split; [exact Hc | split; [intros; discriminate | split; [intros [?|?]; discriminate | intros; discriminate]]]).
      + rewrite Hpc. auto.
    - (* the trace *)
      unfold tstep.
      destruct (t_pc (g_thr st i)) as [|todo| | | | | |] eqn:Hpc;
        repeat match goal with
               | |- context [match ?x with _ => _ end] => destruct x eqn:?
               | |- context [if ?x then _ else _] => destruct x eqn:?
               end; simpl_state; try exact Htr.
      + (* SignReq *)
        apply Forall_app. split; [exact Htr|]. constructor; [|constructor].
        destruct (Hdat (or_introl eq_refl)) as [Hf Hv].
        cbn [evinv]. exists r, (t_data (g_thr st i)), l, (t_claimed (g_thr st i)).
        cbn [sr_run mk_signreq]. repeat split; auto.
      + (* Submit *)
        apply Forall_app. split; [exact Htr|]. constructor; [|constructor].
        destruct (Hdat (or_intror eq_refl)) as [Hf Hv].
        destruct (Harg eq_refl) as [avail [Ha Hargs]].
        cbn [evinv]. exists r, (t_data (g_thr st i)), avail, (t_claimed (g_thr st i)), l.
        repeat split; auto; [rewrite <- Hargs; congruence | discriminate].
  Qed.

  Lemma exec_linv sch : forall st, LInv st -> LInv (exec spe rs sch st).
  Proof. induction sch as [|i sch IH]; cbn; intros st H; [exact H | apply IH, linv_step, H]. Qed.

  Lemma valid_data_spec d a :
    valid_data spe d a = true <->
    a_slot a = d_slot d /\ a_src a <= a_tgt a /\ a_tgt a = epoch_of spe (d_slot d).
  Proof. unfold valid_data. rewrite !andb_true_iff, !N.eqb_eq, N.leb_le. tauto. Qed.

  Lemma trace_evinv sch : Forall evinv (g_trace (exec spe rs sch init)).
  Proof. apply L_tr, exec_linv, linv_init. Qed.

  Lemma signed_is_valid sch q :
    In (SignReq q) (g_trace (exec spe rs sch init)) ->
    exists r, nth_error rs (sr_run q) = Some r /\
              sr_slot q = d_slot (r_duty r) /\
              sr_tgt q = epoch_of spe (sr_slot q) /\
              sr_src q <= sr_tgt q.
  Proof.
    intro Hin. pose proof (proj1 (Forall_forall _ _) (trace_evinv sch) _ Hin) as H.
    cbn [evinv] in H. destruct H as [r [a [avail [claimed [Hr [Hf [Hv [Ha [Hc Hq]]]]]]]]].
    apply valid_data_spec in Hv as [Hs [Hle Ht]].
    exists r. rewrite Hq. cbn [mk_signreq sr_slot sr_tgt sr_src]. auto.
  Qed.

  (* the data a call was given does not meet the property's conditions (or the fetch failed) *)
  Definition bad_data (r : run) : Prop :=
    match s_fetch (r_script r) with
    | None => True
    | Some a => a_slot a <> d_slot (r_duty r) \/ a_tgt a <> epoch_of spe (d_slot (r_duty r)) \/ a_tgt a < a_src a
    end.

  Lemma invalid_refused sch i r :
    nth_error rs i = Some r -> bad_data r ->
    forall ev, In ev (g_trace (exec spe rs sch init)) ->
               match ev with SignReq q => sr_run q <> i | Submit j _ => j <> i end.
  Proof.
    intros Hr Hbad ev Hin. pose proof (proj1 (Forall_forall _ _) (trace_evinv sch) _ Hin) as H.
    unfold bad_data in Hbad.
    destruct ev as [q|j atts]; cbn [evinv] in H.
    - destruct H as [r' [a [avail [claimed [Hr' [Hf [Hv _]]]]]]]. intro E. rewrite E, Hr in Hr'. injection Hr' as <-.
      rewrite Hf in Hbad. apply valid_data_spec in Hv. lia.
    - destruct H as [r' [a [avail [claimed [unsigned [Hr' [Hf [Hv _]]]]]]]]. intro E. rewrite E, Hr in Hr'. injection Hr' as <-.
      rewrite Hf in Hbad. apply valid_data_spec in Hv. lia.
  Qed.
End Sys.

(* --- the stale-epoch witnesses ---------------------------------------------------------------- *)
Definition w_duty (sl : slot) (v : vidx) : duty :=
  {| d_slot := sl; d_vals := [v]; d_comms := [0]; d_poss := [0]; d_sizes := [(0, 4)] |}.
Definition w_data (sl : slot) (e : epoch) : adata :=
  {| a_slot := sl; a_root := 1; a_src := 0; a_src_root := 2; a_tgt := e; a_tgt_root := 3 |}.
Definition w_run (sl : slot) (e : epoch) (v : vidx) : run :=
  {| r_duty := w_duty sl v;
     r_script := {| s_fetch := Some (w_data sl e); s_accounts := Some [1; 2]; s_sign := Some []; s_submit := true |} |}.
(* epoch 0, then epoch 2 (whose housekeeping deletes epoch 0), then the epoch-0 duty again *)
Definition w_runs : list run := [w_run 10 0 1; w_run 74 2 2; w_run 10 0 1].
Definition w_seq : list nat := repeat 0%nat 7 ++ repeat 1%nat 7 ++ repeat 2%nat 7.
(* thread 0 creates the epoch-0 map, thread 1 (epoch 2) runs to completion, thread 0 marks *)
Definition w_panic : list nat := [0%nat] ++ repeat 1%nat 7 ++ [0%nat].

Lemma window_refuted_sign :
  sign_list 32 (g_trace (exec 32 w_runs w_seq init)) = [(1, 0); (2, 2); (1, 0)].
Proof. vm_compute. reflexivity. Qed.

Lemma window_refuted_panic : g_panic (exec 32 w_runs w_panic init) = true.
Proof. vm_compute. reflexivity. Qed.

Lemma w_runs_wf : wf_runs w_runs.
Proof. repeat constructor; intros l H; injection H as <-; repeat constructor; cbn; intuition discriminate. Qed.

Lemma window_okb_sound spe rs sch : forall st, window_okb spe rs sch st = true -> window_ok spe rs sch st.
Proof.
  induction sch as [|i sch IH]; cbn; intros st H; [exact I|].
  apply andb_true_iff in H as [H1 H2]. split; [|apply IH; exact H2].
  intros e He. rewrite He in H1. apply negb_true_iff in H1.
  rewrite <- memb_N_false. exact H1.
Qed.
