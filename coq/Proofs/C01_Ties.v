(* C01: every outcome that the enumeration of tied wake-ups produces is the outcome of a schedule of
   the model, so every theorem about schedules speaks about it. *)
From Verif Require Import Lib.Base Model.C01_Attester Model.C01_Ties Proofs.C01.

Section Ties.
  Variable spe : N.
  Variable rs : list run.

  Lemma run_on_exec i : forall fuel st,
    fst (run_on fuel spe rs st i) = exec spe rs (snd (run_on fuel spe rs st i)) st.
  Proof.
    induction fuel as [|f IH]; intros st; cbn [run_on]; [reflexivity|].
    destruct (g_panic st || blocked (t_pc (g_thr st i))); [reflexivity|].
    specialize (IH (step spe rs st i)).
    destruct (run_on f spe rs (step spe rs st i) i) as [st' sch]; cbn in *. exact IH.
  Qed.

  Lemma wake_exec st i : fst (wake spe rs st i) = exec spe rs (snd (wake spe rs st i)) st.
  Proof.
    unfold wake. destruct (nth_error rs i) as [r|]; [|reflexivity].
    destruct (t_pc (g_thr st i)); try reflexivity;
      match goal with |- context [run_on ?f spe rs ?s i] =>
        pose proof (run_on_exec i f s) as H; destruct (run_on f spe rs s i) as [st' sch]; cbn in *; exact H end.
  Qed.

  Lemma inter_exec : forall fuel st act st' sch,
    In (st', sch) (inter fuel spe rs st act) -> st' = exec spe rs sch st.
  Proof.
    induction fuel as [|f IH]; intros st act st' sch Hin; destruct act as [|a act].
    - cbn in Hin. destruct Hin as [E|[]]. injection E as <- <-. reflexivity.
    - cbn in Hin. destruct Hin.
    - cbn in Hin. destruct Hin as [E|[]]. injection E as <- <-. reflexivity.
    - cbn [inter] in Hin. apply in_flat_map in Hin. destruct Hin as [i [_ Hin]].
      apply in_map_iff in Hin. destruct Hin as [[st1 s1] [E Hin]]. cbn [fst snd] in E. injection E as <- <-.
      apply IH in Hin. cbn [exec]. exact Hin.
  Qed.

  Lemma run_group_exec o g st' sch :
    fst o = exec spe rs (snd o) init ->
    In (st', sch) (run_group spe rs o g) -> st' = exec spe rs sch init.
  Proof.
    intros Ho Hin. unfold run_group in Hin.
    assert (Hmulti : In (st', sch) (map (fun p => (fst p, snd o ++ snd p)) (inter (seg_fuel rs g) spe rs (fst o) g)) ->
                     st' = exec spe rs sch init).
    { intro H. apply in_map_iff in H. destruct H as [[st1 s1] [E H]]. cbn [fst snd] in E. injection E as <- <-.
      apply inter_exec in H. rewrite exec_app, <- Ho. exact H. }
    destruct g as [|i [|j g']]; try (apply Hmulti; exact Hin).
    destruct Hin as [E|[]]. injection E as <- <-.
    rewrite exec_app, <- Ho. apply wake_exec.
  Qed.

  Lemma run_groups_exec : forall gs outs,
    (forall o, In o outs -> fst o = exec spe rs (snd o) init) ->
    forall o, In o (run_groups spe rs outs gs) -> fst o = exec spe rs (snd o) init.
  Proof.
    induction gs as [|g gs IH]; intros outs Houts o Hin; cbn [run_groups] in Hin; [apply Houts; exact Hin|].
    apply IH in Hin; [exact Hin|].
    intros o' Ho'. apply in_flat_map in Ho'. destruct Ho' as [o0 [Hin0 Ho']].
    destruct o' as [st' sch]. cbn [fst snd]. eapply run_group_exec; [apply Houts; exact Hin0 | exact Ho'].
  Qed.

  Lemma outcomes_exec ws st sch : In (st, sch) (outcomes spe rs ws) -> st = exec spe rs sch init.
  Proof.
    intro Hin. unfold outcomes in Hin.
    apply (run_groups_exec _ [(init, [])]) in Hin; [exact Hin|].
    intros o [<-|[]]. reflexivity.
  Qed.

  Lemma tied_at_most_once ws st sch :
    wf_runs rs -> In (st, sch) (outcomes spe rs ws) -> window_ok spe rs sch init ->
    NoDup (sign_list spe (g_trace st)).
  Proof.
    intros Hwf Hin Hw. rewrite (outcomes_exec _ _ _ Hin). apply at_most_once; assumption.
  Qed.
End Ties.
